(* C15 — the decidable store judge of Corr.v accepts every run of the repaired
   model (fixed_cfg): all op sequences, both stores, every fault oracle.
   So, on the code as it is, a VIOL on a store case can only come from one of the
   two switched defects (or from the implementation departing from the model). *)
From Coq Require Import List ZArith Bool Lia.
Import ListNotations.
Require Import BS.Common.Util BS.C15.Model BS.C15.Lists BS.C15.Corr BS.C15.Proofs.

(* ------------------------------------------------------------------ *)
(* which oracle entries an operation consumed                          *)
(* ------------------------------------------------------------------ *)
Definition advanced (w w' : fsw) : Prop := exists k, oracle w' = skipn k (oracle w).
Definition faulted (w w' : fsw) : Prop :=
  exists i k, oracle w' = skipn k (oracle w) /\ i < k /\ nth i (oracle w) false = true.

Lemma advanced_refl w : advanced w w.
Proof. exists 0. reflexivity. Qed.

Lemma advanced_trans w1 w2 w3 : advanced w1 w2 -> advanced w2 w3 -> advanced w1 w3.
Proof.
  intros [k1 H1] [k2 H2]. exists (k1 + k2). rewrite H2, H1. apply skipn_skipn.
Qed.

Lemma faulted_advanced w1 w2 w3 : faulted w1 w2 -> advanced w2 w3 -> faulted w1 w3.
Proof.
  intros (i & k1 & H1 & L & N) [k2 H2]. exists i, (k1 + k2).
  split; [rewrite H2, H1; apply skipn_skipn|]. split; [lia | exact N].
Qed.

Lemma advanced_faulted w1 w2 w3 : advanced w1 w2 -> faulted w2 w3 -> faulted w1 w3.
Proof.
  intros [k1 H1] (i & k2 & H2 & L & N). exists (k1 + i), (k1 + k2).
  split; [rewrite H2, H1; apply skipn_skipn|]. split; [lia|].
  rewrite H1 in N. rewrite nth_skipn in N. exact N.
Qed.

Lemma faulted_is_advanced w w' : faulted w w' -> advanced w w'.
Proof. intros (i & k & H & _). exists k. exact H. Qed.

Lemma tick_adv w f w1 : tick w = (f, w1) -> advanced w w1 /\ (f = true -> faulted w w1).
Proof.
  intro T. destruct (tick_inv _ _ _ T) as (_ & _ & F & O).
  assert (A : oracle w1 = skipn 1 (oracle w)) by (rewrite O; destruct (oracle w); reflexivity).
  split; [exists 1; exact A|]. intro X. exists 0, 1. split; [exact A|]. split; [lia | congruence].
Qed.

Lemma faulted_fired w w' : faulted w w' -> fired (SFile w) (SFile w') = true.
Proof.
  intros (i & k & H & L & N). unfold fired. cbn [oracle_of]. rewrite H.
  apply existsb_exists. exists true. split; [|reflexivity].
  assert (IL : i < length (oracle w)).
  { destruct (Nat.lt_ge_cases i (length (oracle w))) as [X|X]; [exact X|].
    rewrite nth_overflow in N by exact X. discriminate. }
  rewrite skipn_length.
  replace true with (nth i (firstn (length (oracle w) - (length (oracle w) - k)) (oracle w)) false).
  - apply nth_In. rewrite firstn_length. lia.
  - rewrite nth_firstn. destruct (Nat.ltb_spec i (length (oracle w) - (length (oracle w) - k))); [exact N | lia].
Qed.

(* ---- the file operations the judge looks at ---- *)
Lemma fs_open_oracle c w p off w' r :
  fs_open c w p off = (w', r) -> advanced w w' /\ (r = Er EInjected -> faulted w w').
Proof.
  unfold fs_open. destruct (tick w) as [f1 w1] eqn:T1. destruct (tick_adv _ _ _ T1) as [A1 F1].
  destruct f1; [intro E; inversion E; subst; auto|].
  destruct (vis w1 p) as [content|]; [|intro E; inversion E; subst; split; [exact A1 | discriminate]].
  destruct (tick w1) as [f2 w2] eqn:T2. destruct (tick_adv _ _ _ T2) as [A2 F2].
  destruct f2.
  { intro E; inversion E; subst. split; [eapply advanced_trans; eauto|].
    intros _. eapply advanced_faulted; eauto. }
  destruct (tick w2) as [f3 w3] eqn:T3. destruct (tick_adv _ _ _ T3) as [A3 F3].
  assert (A : advanced w w3) by (eapply advanced_trans; [eapply advanced_trans|]; eauto).
  destruct f3.
  - assert (FF : faulted w w3).
    { apply (advanced_faulted w w2 w3); [apply (advanced_trans w w1 w2); assumption | apply F3; reflexivity]. }
    destruct (swallow_seek c); intro E; inversion E; subst w' r; (split; [exact A|]); intros X;
      [discriminate X | exact FF].
  - intro E; inversion E; subst w' r. split; [exact A | discriminate].
Qed.

Lemma read_all_oracle : forall fuel w h b acc w' got st,
  read_all fuel w h b acc = (w', got, st) ->
  advanced w w' /\ (forall e, st = SErr e -> faulted w w').
Proof.
  induction fuel as [|fuel IH]; intros w h b acc w' got st E.
  - inversion E; subst. split; [apply advanced_refl | discriminate].
  - cbn [read_all] in E. unfold lim_read in E.
    destruct (rlimit h <=? 0)%Z; [inversion E; subst; split; [apply advanced_refl | discriminate]|].
    unfold file_read in E. destruct (tick w) as [f w1] eqn:T. destruct (tick_adv _ _ _ T) as [A F].
    destruct f; [inversion E; subst; auto|].
    destruct (Nat.min b (Z.to_nat (rlimit h))) as [|m'].
    + apply IH in E. destruct E as [A' F']. split; [eapply advanced_trans; eauto|].
      intros e X. eapply advanced_faulted; eauto.
    + destruct (firstn (S m') (skipn (rpos h) (rcontent h))) as [|x chunk'].
      * inversion E; subst. split; [exact A | discriminate].
      * apply IH in E. destruct E as [A' F']. split; [eapply advanced_trans; eauto|].
        intros e X. eapply advanced_faulted; eauto.
Qed.

Lemma fs_open_read_oracle c w p off b w' r :
  fs_open_read c w p off b = (w', r) ->
  (r = RErr EInjected -> faulted w w')
  /\ (forall got e cl, r = RRead got (SErr e) cl -> faulted w w').
Proof.
  unfold fs_open_read. destruct (fs_open c w p off) as [w1 [h|e0]] eqn:O;
    destruct (fs_open_oracle _ _ _ _ _ _ O) as [A1 F1].
  - destruct (read_all (S (length (rcontent h))) w1 h b []) as [[w2 got] st] eqn:RA.
    destruct (read_all_oracle _ _ _ _ _ _ _ _ RA) as [A2 F2].
    destruct (tick w2) as [f w3] eqn:T. destruct (tick_adv _ _ _ T) as [A3 _].
    intro E; inversion E; subst. split; [discriminate|].
    intros got' e cl X. inversion X; subst.
    eapply advanced_faulted; [exact A1|]. eapply faulted_advanced; [eapply F2; reflexivity | exact A3].
  - intro E; inversion E; subst. split; [|discriminate]. intro X. inversion X; subst. auto.
Qed.

Lemma fs_stat_oracle w p w' r :
  fs_stat w p = (w', r) -> r = RErr EInjected -> faulted w w'.
Proof.
  unfold fs_stat. destruct (tick w) as [f1 w1] eqn:T1. destruct (tick_adv _ _ _ T1) as [A1 F1].
  destruct f1; [intro E; inversion E; subst; auto|].
  destruct (vis w1 p) as [content|]; [|intro E; inversion E; subst; discriminate].
  destruct (tick w1) as [f2 w2] eqn:T2. destruct (tick_adv _ _ _ T2) as [A2 F2].
  destruct f2; [intro E; inversion E; subst; intros _; eapply advanced_faulted; eauto|].
  destruct (length content <? trailer_len); [intro E; inversion E; subst; discriminate|].
  destruct (tick w2) as [f3 w3] eqn:T3. destruct (tick_adv _ _ _ T3) as [A3 F3].
  destruct f3; intro E; inversion E; subst; [|discriminate].
  intros _. eapply advanced_faulted; [eapply advanced_trans|]; eauto.
Qed.

(* client level: an injected error / a read cut short means the fault flag is set *)
Lemma open_fault_flag c cl p off b cl' r :
  step c cl (OOpen p off b) = (cl', r) ->
  r = RErr EInjected \/ (exists got e x, r = RRead got (SErr e) x) ->
  fired (cstore cl) (cstore cl') = true.
Proof.
  destruct cl as [[w|m] cur]; cbn [cstore]; intros E H.
  - destruct (step_file_eq _ _ _ _ _ _ E) as (w' & cur' & S & ->). cbn [step_file] in S.
    destruct (fs_open_read c w p off b) as [w1 r0] eqn:O. inversion S; subst. cbn [cstore].
    destruct (fs_open_read_oracle _ _ _ _ _ _ _ O) as [F1 F2]. apply faulted_fired.
    destruct H as [H|(got & e & x & H)]; [auto | eapply F2; eauto].
  - destruct (step_mem_eq _ _ _ _ _ _ E) as (m' & cur' & S & ->). cbn [step_mem] in S.
    injection S as X Y Z. subst m' cur' r. exfalso. unfold ms_open_read in H.
    destruct (fst (ms_get m p)) as [d|].
    + destruct (length d <? off).
      * destruct H as [H|(got & e & x & H)]; discriminate H.
      * assert (G : forall fuel rest acc got st, mem_read_all fuel rest b acc = (got, st) -> st = SEOF \/ st = SStuck).
        { induction fuel as [|fuel IH]; intros rest acc got st X0; cbn [mem_read_all] in X0.
          - inversion X0; auto.
          - destruct rest; [inversion X0; auto|]. apply IH in X0. exact X0. }
        destruct (mem_read_all (S (length d)) (skipn off d) b []) as [got st] eqn:M.
        apply G in M. destruct H as [H|(g & e & x & H)]; [discriminate H|].
        inversion H; subst. destruct M; discriminate.
    + destruct H as [H|(got & e & x & H)]; discriminate H.
Qed.

Lemma stat_fault_flag c cl p cl' :
  step c cl (OStat p) = (cl', RErr EInjected) -> fired (cstore cl) (cstore cl') = true.
Proof.
  destruct cl as [[w|m] cur]; cbn [cstore]; intros E.
  - destruct (step_file_eq _ _ _ _ _ _ E) as (w' & cur' & S & ->). cbn [step_file] in S.
    destruct (fs_stat w p) as [w1 r0] eqn:O. inversion S; subst. cbn [cstore].
    apply faulted_fired. apply (fs_stat_oracle _ _ _ _ O eq_refl).
  - destruct (step_mem_eq _ _ _ _ _ _ E) as (m' & cur' & S & ->). cbn [step_mem] in S.
    injection S as X Y Z. unfold ms_stat in Z. destruct (ms_get m p) as [[d|] k]; discriminate Z.
Qed.

(* ------------------------------------------------------------------ *)
(* how a step moves the live writer                                    *)
(* ------------------------------------------------------------------ *)
Definition next_cur (cur : option writer) (o : sop) (r : sres) : option writer :=
  match o with
  | OCreate p => match r with ROk => Some (mkW p []) | _ => cur end
  | OWrite d => match cur, r with
                | Some wr, ROk => Some (mkW (wpart wr) (wdata wr ++ d))
                | _, _ => cur
                end
  | OCommit _ | OWDiscard => None
  | _ => cur
  end.

Lemma step_cur c cl o cl' r :
  step c cl o = (cl', r) -> ccur cl' = next_cur (ccur cl) o r /\ sane r = true.
Proof.
  destruct cl as [[w|m] cur]; intro E.
  - destruct (step_file_eq _ _ _ _ _ _ E) as (w' & cur' & S & ->). cbn [ccur].
    destruct o as [p|d|n| |p off b|p|p]; cbn [step_file next_cur] in *.
    + destruct (fs_create w p) as [w1 [wr|e]] eqn:C; inversion S; subst; [|auto].
      destruct (fs_create_spec _ _ _ _ C) as (_ & A & _). rewrite (A _ eq_refl). auto.
    + destruct cur as [wr|]; [|inversion S; subst; auto].
      destruct (fs_write w wr d) as [w1 [wr'|e]] eqn:C; inversion S; subst; [|auto].
      destruct (fs_write_spec _ _ _ _ _ C) as (_ & A & _). rewrite (A _ eq_refl). auto.
    + destruct cur as [wr|]; [|inversion S; subst; auto].
      destruct (fs_commit c w wr n) as [w1 [[]|e]]; inversion S; subst; auto.
    + destruct cur as [wr|]; inversion S; subst; auto.
    + destruct (fs_open_read c w p off b) as [w1 r0] eqn:O. inversion S; subst. split; [reflexivity|].
      unfold fs_open_read in O. destruct (fs_open c w p off) as [w2 [h|e]].
      * destruct (read_all _ _ _ _ _) as [[w3 got] st]. destruct (tick w3). inversion O; reflexivity.
      * inversion O; reflexivity.
    + destruct (fs_stat w p) as [w1 r0] eqn:O. inversion S; subst. split; [reflexivity|].
      unfold fs_stat in O. destruct (tick w) as [[|] w2]; [inversion O; reflexivity|].
      destruct (vis w2 p); [|inversion O; reflexivity].
      destruct (tick w2) as [[|] w3]; [inversion O; reflexivity|].
      destruct (_ <? _); [inversion O; reflexivity|].
      destruct (tick w3) as [[|] w4]; inversion O; reflexivity.
    + destruct (fs_discard w p) as [w1 r0] eqn:O. inversion S; subst. split; [reflexivity|].
      unfold fs_discard in O. destruct (tick w) as [[|] w2]; [inversion O; reflexivity|].
      destruct (vis w2 p); inversion O; reflexivity.
  - destruct (step_mem_eq _ _ _ _ _ _ E) as (m' & cur' & S & ->). cbn [ccur].
    destruct o as [p|d|n| |p off b|p|p]; cbn [step_mem next_cur] in *.
    + unfold ms_create in S. destruct (fst (ms_get m p)); inversion S; subst; auto.
    + destruct cur as [wr|]; inversion S; subst; auto.
    + destruct cur as [wr|]; [|inversion S; subst; auto].
      destruct (ms_put m (wpart wr) (wdata wr) n) as [m1 [[]|e]]; inversion S; subst; auto.
    + destruct cur as [wr|]; inversion S; subst; auto.
    + inversion S; subst. split; [reflexivity|]. unfold ms_open_read.
      destruct (fst (ms_get m' p)); [|reflexivity]. destruct (_ <? _); [reflexivity|].
      destruct (mem_read_all _ _ _ _); reflexivity.
    + inversion S; subst. split; [reflexivity|]. unfold ms_stat. destruct (ms_get m' p) as [[x|] k]; reflexivity.
    + destruct (ms_discard m p) as [m1 r0] eqn:O. inversion S; subst. split; [reflexivity|].
      unfold ms_discard in O. destruct (_ <=? _); inversion O; reflexivity.
Qed.

(* ------------------------------------------------------------------ *)
(* the link between the judge's bookkeeping and the model's state      *)
(* ------------------------------------------------------------------ *)
Definition pend_of (cur : option writer) : option (nat * list Z) :=
  match cur with Some wr => Some (wpart wr, wdata wr) | None => None end.

Definition entry_ok (s : store) (al : list (option (list Z * Z))) (p : nat) : Prop :=
  (absent s p /\ In None al)
  \/ (exists d n, committed s p d n /\ int64_range n /\ In (Some (d, n)) al).

Record jinv (j : judge) (cl : client) : Prop := mkJinv {
  ji_wf : store_wf (cstore cl);
  ji_pend : jpend j = pend_of (ccur cl);
  ji_state : forall p, entry_ok (cstore cl) (jallowed j p) p
}.

Definition op_ok (o : sop) : Prop :=
  match o with
  | OCommit n => int64_range n
  | OOpen _ _ b => 1 <= b
  | _ => True
  end.

Lemma entry_ok_frame s s' al p :
  (forall d n, committed s p d n -> committed s' p d n) -> (absent s p -> absent s' p) ->
  entry_ok s al p -> entry_ok s' al p.
Proof.
  intros HC HA [[A I]|(d & n & C & R & I)]; [left; auto | right; exists d, n; auto].
Qed.

Lemma entry_ok_weaken s al x p : entry_ok s al p -> entry_ok s (x :: al) p.
Proof.
  intros [[A I]|(d & n & C & R & I)]; [left; split; [exact A | right; exact I]|].
  right. exists d, n. split; [exact C|]. split; [exact R | right; exact I].
Qed.

Lemma has_none_in al : In None al -> has_none al = true.
Proof. intro H. apply existsb_exists. exists None. auto. Qed.

Lemma is_prefix_of_bool (a b : list Z) : is_prefix_of a b -> is_prefix a b = true.
Proof. unfold is_prefix_of, is_prefix, bytes_eqb. intro H. apply list_eqb_Z_eq. exact H. Qed.

(* one step: the judge accepts the observation and the link is kept *)
Lemma judge_step_ok j cl o cl' r :
  jinv j cl -> op_ok o -> step fixed_cfg cl o = (cl', r) ->
  exists j', judge_step j o (mkSO r (fired (cstore cl) (cstore cl'))) = (true, j') /\ jinv j' cl'.
Proof.
  intros [WF PE ST] OK E.
  pose proof (step_wf _ _ _ _ _ WF E) as WF'.
  destruct (step_cur _ _ _ _ _ E) as [CUR SANE].
  (* partitions the step does not touch keep their entry *)
  assert (FR : forall q al, ~ touches (ccur cl) o q -> entry_ok (cstore cl) al q -> entry_ok (cstore cl') al q).
  { intros q al NT. destruct (step_frame _ _ _ _ _ q WF E NT) as [HC HA]. apply entry_ok_frame; auto. }
  destruct o as [p|d|n| |p off b|p|p]; cbn [judge_step so_res so_fault].
  - (* OCreate *)
    eexists. split; [rewrite SANE; reflexivity|].
    constructor; [exact WF'| |].
    + rewrite CUR. cbn [next_cur]. destruct r; cbn; auto.
    + intro q. destruct r; cbn [jallowed]; apply FR; cbn; auto.
  - (* OWrite *)
    eexists. split; [rewrite SANE; reflexivity|].
    constructor; [exact WF'| |].
    + rewrite CUR. cbn [next_cur]. rewrite PE. destruct (ccur cl) as [wr|]; destruct r; cbn; auto.
    + intro q. rewrite PE. destruct r; destruct (ccur cl) as [wr|]; cbn [pend_of jallowed]; apply FR; cbn; auto.
  - (* OCommit *)
    eexists. split; [rewrite SANE; reflexivity|].
    rewrite PE. destruct (ccur cl) as [wr|] eqn:CC; cbn [pend_of].
    + destruct (commit_fixed_all_or_nothing _ _ _ _ _ WF CC E) as [(-> & COM)|((e & ->) & HC & HA)].
      * constructor; [exact WF' | rewrite CUR; reflexivity |].
        intro q. cbn [jallowed]. destruct (Nat.eq_dec q (wpart wr)) as [->|NE].
        -- rewrite upd_same. right. exists (wdata wr), n. split; [exact COM|]. split; [exact OK | left; reflexivity].
        -- rewrite upd_other by exact NE. apply FR; [cbn; try rewrite CC; congruence | apply ST].
      * constructor; [exact WF' | rewrite CUR; reflexivity |].
        intro q. cbn [jallowed]. destruct (Nat.eq_dec q (wpart wr)) as [->|NE].
        -- rewrite upd_same. apply entry_ok_weaken. eapply entry_ok_frame; [exact HC | exact HA | apply ST].
        -- rewrite upd_other by exact NE. apply FR; [cbn; try rewrite CC; congruence | apply ST].
    + constructor; [exact WF' | rewrite CUR; cbn; rewrite PE; reflexivity |].
      intro q. apply FR; [cbn; try rewrite CC; tauto | apply ST].
  - (* OWDiscard *)
    eexists. split; [rewrite SANE; reflexivity|].
    constructor; [exact WF' | rewrite CUR; reflexivity |].
    intro q. cbn [jallowed]. apply FR; cbn; auto.
  - (* OOpen *)
    exists j. split.
    2:{ constructor; [exact WF' | rewrite CUR; exact PE | intro q; apply FR; cbn; auto]. }
    f_equal. unfold open_ok. cbn [so_res so_fault].
    destruct (ST p) as [[A I]|(d & k & COM & RG & I)].
    + destruct (absent_hidden fixed_cfg cl (OOpen p off b) cl' r p A) as [-> | ->]; eauto.
      * apply has_none_in. exact I.
      * rewrite (open_fault_flag _ _ _ _ _ _ _ E) by auto. reflexivity.
    + pose proof (committed_read_sound fixed_cfg cl p off b d k cl' r COM OK (or_introl eq_refl) E) as RS.
      destruct r as [|e|got st x|sz cnt| | |]; try contradiction.
      * destruct RS as [-> | [-> L]].
        -- rewrite (open_fault_flag _ _ _ _ _ _ _ E) by auto. reflexivity.
        -- apply orb_true_iff. right. apply existsb_exists. exists (Some (d, k)). split; [exact I|].
           apply Nat.ltb_lt. exact L.
      * destruct RS as ([-> | ->] & PR & FULL).
        -- apply existsb_exists. exists (Some (d, k)). split; [exact I|].
           unfold bytes_eqb. apply list_eqb_Z_eq. apply FULL. reflexivity.
        -- apply existsb_exists. exists (Some (d, k)). split; [exact I|].
           rewrite (open_fault_flag _ _ _ _ _ _ _ E) by (right; eauto). cbn [andb].
           apply is_prefix_of_bool. exact PR.
  - (* OStat *)
    exists j. split.
    2:{ constructor; [exact WF' | rewrite CUR; exact PE | intro q; apply FR; cbn; auto]. }
    f_equal. unfold stat_ok. cbn [so_res so_fault].
    destruct (ST p) as [[A I]|(d & k & COM & RG & I)].
    + destruct (absent_hidden fixed_cfg cl (OStat p) cl' r p A) as [-> | ->]; eauto.
      * apply has_none_in. exact I.
      * apply (stat_fault_flag _ _ _ _ E).
    + destruct (committed_stat fixed_cfg cl p d k cl' r COM RG E) as [[-> | ->] _].
      * apply existsb_exists. exists (Some (d, k)). split; [exact I|].
        rewrite !Z.eqb_refl. reflexivity.
      * apply (stat_fault_flag _ _ _ _ E).
  - (* ODiscard *)
    eexists. split; [rewrite SANE; reflexivity|].
    assert (KEEP : r <> ROk -> entry_ok (cstore cl') (jallowed j p) p).
    { intro NR. eapply entry_ok_frame; [| |apply ST].
      - intros d n COM. apply (committed_persists fixed_cfg cl (ODiscard p) cl' r p d n WF COM E).
        intros _. exact NR.
      - intro A. apply (absent_step fixed_cfg cl (ODiscard p) cl' r p WF A eq_refl E). }
    destruct r as [|e|got st x|sz cnt| | |]; try discriminate SANE;
      (constructor; [exact WF' | rewrite CUR; exact PE |]); intro q; cbn [jallowed jpend];
      (destruct (Nat.eq_dec q p) as [->|NE];
       [rewrite upd_same | rewrite upd_other by exact NE; apply FR; [cbn; congruence | apply ST]]).
    + left. split; [apply (discard_ok_absent _ _ _ _ WF E) | left; reflexivity].
    + apply entry_ok_weaken. apply KEEP. discriminate.
    + apply entry_ok_weaken. apply KEEP. discriminate.
    + apply entry_ok_weaken. apply KEEP. discriminate.
    + apply entry_ok_weaken. apply KEEP. discriminate.
Qed.

(* the observations of a model run *)
Fixpoint observe (c : cfg) (cl : client) (ops : list sop) : list sobs :=
  match ops with
  | [] => []
  | o :: rest =>
      let '(cl1, r) := step c cl o in
      mkSO r (fired (cstore cl) (cstore cl1)) :: observe c cl1 rest
  end.

Lemma judge_run_ok : forall ops j cl,
  jinv j cl -> Forall op_ok ops -> judge_run j ops (observe fixed_cfg cl ops) = true.
Proof.
  induction ops as [|o ops IH]; intros j cl I OK; [reflexivity|].
  inversion OK; subst. cbn [observe]. destruct (step fixed_cfg cl o) as [cl1 r] eqn:S.
  cbn [judge_run]. destruct (judge_step_ok _ _ _ _ _ I H1 S) as (j' & JS & I').
  rewrite JS. cbn [andb]. apply IH; assumption.
Qed.

Lemma jinv_init k orc : jinv judge_init (client_init k orc).
Proof.
  destruct k; (constructor; [exact I || reflexivity | reflexivity |]);
    intro p; left; (split; [reflexivity | left; reflexivity]).
Qed.

(* ================================================================== *)
Theorem store_judge_on_fixed_model : forall k orc ops,
  Forall op_ok ops ->
  judge_run judge_init ops (observe fixed_cfg (client_init k orc) ops) = true.
Proof. intros k orc ops OK. apply judge_run_ok; [apply jinv_init | exact OK]. Qed.

(* ... and the exact-agreement driver run on the model's own observations agrees,
   so [observe] is what the case files are compared against *)
Lemma store_exact_observe : forall c ops cl,
  fst (store_exact c cl ops (observe c cl ops)) = true.
Proof.
  induction ops as [|o ops IH]; intros cl; [reflexivity|].
  cbn [observe store_exact]. destruct (step c cl o) as [cl1 r] eqn:S.
  cbn [store_exact]. try rewrite S. cbn [so_res so_fault].
  assert (R : sres_eqb r r = true).
  { destruct r as [|e|got st x|sz cnt| | |]; cbn; auto.
    - destruct e; reflexivity.
    - unfold bytes_eqb. rewrite list_eqb_Z_refl.
      assert (SS : forall s, status_eqb s s = true) by (intros [| |[]| |]; reflexivity).
      rewrite !SS. reflexivity.
    - rewrite !Z.eqb_refl. reflexivity. }
  rewrite R, eqb_reflx. cbn [andb]. apply IH.
Qed.

(* C15 — list and arithmetic facts used by the proofs (stdlib only). *)
From Coq Require Import List ZArith Bool Lia.
Import ListNotations.
Require Import BS.Common.Util BS.C15.Model.

Lemma firstn_add {A} (l : list A) a b :
  firstn (a + b) l = firstn a l ++ firstn b (skipn a l).
Proof.
  revert l; induction a as [|a IH]; intros l; simpl.
  - reflexivity.
  - destruct l as [|x l]; simpl.
    + destruct b; reflexivity.
    + rewrite IH. reflexivity.
Qed.

Lemma skipn_add {A} (l : list A) a b : skipn (a + b) l = skipn b (skipn a l).
Proof. rewrite skipn_skipn. reflexivity. Qed.

Lemma firstn_all_ge {A} (l : list A) n : length l <= n -> firstn n l = l.
Proof. intro H. apply firstn_all2. exact H. Qed.

Lemma skipn_all_ge {A} (l : list A) n : length l <= n -> skipn n l = [].
Proof. intro H. apply skipn_all2. exact H. Qed.

Lemma firstn_nil_inv {A} (l : list A) n : firstn n l = [] -> n = 0 \/ l = [].
Proof. destruct n, l; simpl; auto; discriminate. Qed.

(* splitting a bounded read: the first m bytes, then the rest of the budget *)
Lemma firstn_split_chunk {A} (s : list A) m L :
  m <= L ->
  firstn L s = firstn m s ++ firstn (L - length (firstn m s)) (skipn (length (firstn m s)) s).
Proof.
  intro H. rewrite firstn_length.
  destruct (Nat.le_ge_cases m (length s)) as [Hm|Hm].
  - rewrite Nat.min_l by exact Hm.
    replace L with (m + (L - m)) at 1 by lia. apply firstn_add.
  - rewrite Nat.min_r by exact Hm.
    rewrite (firstn_all_ge s m) by exact Hm.
    rewrite (firstn_all_ge s L) by lia.
    rewrite skipn_all. rewrite firstn_nil. rewrite app_nil_r. reflexivity.
Qed.

(* reading [a - off] bytes from offset [off] = the part of the first [a] bytes after [off] *)
Lemma firstn_skipn_comm {A} (l : list A) a off :
  firstn (a - off) (skipn off l) = skipn off (firstn a l).
Proof.
  revert a l; induction off as [|off IH]; intros a l.
  - rewrite Nat.sub_0_r. reflexivity.
  - destruct l as [|x l].
    + rewrite firstn_nil. simpl. rewrite firstn_nil. reflexivity.
    + destruct a as [|a]; simpl.
      * reflexivity.
      * apply IH.
Qed.

Lemma skipn_app_le {A} (l t : list A) n : n <= length l -> skipn n (l ++ t) = skipn n l ++ t.
Proof.
  intro H. rewrite skipn_app. replace (n - length l) with 0 by lia. reflexivity.
Qed.

Lemma firstn_app_exact {A} (l t : list A) : firstn (length l) (l ++ t) = l.
Proof.
  rewrite firstn_app, Nat.sub_diag, firstn_all. simpl. apply app_nil_r.
Qed.

Lemma skipn_app_exact {A} (l t : list A) : skipn (length l) (l ++ t) = t.
Proof.
  rewrite skipn_app, Nat.sub_diag, skipn_all. reflexivity.
Qed.

Lemma firstn_firstn_prefix {A} (l : list A) a b :
  a <= b -> firstn a (firstn b l) = firstn a l.
Proof. intro H. rewrite firstn_firstn. rewrite Nat.min_l by exact H. reflexivity. Qed.

Lemma app_inv_len {A} (a b c d : list A) :
  a ++ b = c ++ d -> length a = length c -> a = c /\ b = d.
Proof.
  revert c; induction a as [|x a IH]; intros [|y c] E L; simpl in *; try discriminate.
  - auto.
  - inversion E; subst. destruct (IH c H1) as [-> ->]; [lia|]. auto.
Qed.

(* ---- the boolean prefix test used by the judge ---- *)
Lemma Zeqb_spec' : forall x y : Z, Z.eqb x y = true <-> x = y.
Proof. intros; apply Z.eqb_eq. Qed.

Lemma list_eqb_Z_refl (l : list Z) : list_eqb Z.eqb l l = true.
Proof. apply (list_eqb_spec Z.eqb Zeqb_spec'). reflexivity. Qed.

Lemma list_eqb_Z_eq (a b : list Z) : list_eqb Z.eqb a b = true <-> a = b.
Proof. apply (list_eqb_spec Z.eqb Zeqb_spec'). Qed.

(* ---- little-endian encoding ---- *)
Lemma le_enc_length n c : length (le_enc n c) = n.
Proof. revert c; induction n as [|n IH]; intro c; simpl; [reflexivity | rewrite IH; reflexivity]. Qed.

Lemma le_dec_enc n c : le_dec (le_enc n c) = (c mod 256 ^ Z.of_nat n)%Z.
Proof.
  revert c; induction n as [|n IH]; intro c.
  - simpl. rewrite Z.mod_1_r. reflexivity.
  - cbn [le_enc le_dec]. rewrite IH.
    rewrite Nat2Z.inj_succ, Z.pow_succ_r by lia.
    rewrite Z.rem_mul_r by (try lia; apply Z.pow_pos_nonneg; lia).
    reflexivity.
Qed.

Lemma le64_length c : length (le64 c) = trailer_len.
Proof. apply le_enc_length. Qed.

Definition int64_range (c : Z) : Prop := (- 2 ^ 63 <= c < 2 ^ 63)%Z.

Lemma le64_count_le64 c : int64_range c -> le64_count (le64 c) = c.
Proof.
  unfold int64_range, le64_count, le64, to_int64. intro H.
  rewrite le_dec_enc. change (256 ^ Z.of_nat trailer_len)%Z with (2 ^ 64)%Z.
  destruct (Z.ltb_spec (c mod 2 ^ 64) (2 ^ 63)) as [L|L].
  - destruct (Z.neg_nonneg_cases c) as [N|N].
    + exfalso. assert (E : (c mod 2 ^ 64 = c + 2 ^ 64)%Z).
      { symmetry. apply Z.mod_unique with (q := (-1)%Z); lia. }
      lia.
    + apply Z.mod_small. lia.
  - destruct (Z.neg_nonneg_cases c) as [N|N].
    + assert (E : (c mod 2 ^ 64 = c + 2 ^ 64)%Z).
      { symmetry. apply Z.mod_unique with (q := (-1)%Z); lia. }
      lia.
    + exfalso. rewrite Z.mod_small in L by lia. lia.
Qed.

(* C15 — task stores: invisibility before commit, exact read-back after a
   successful commit, persistence until discard, commit reports failure.
   Every statement is for an arbitrary fault oracle unless it says [quiet]. *)
From Coq Require Import List ZArith Bool Lia.
Import ListNotations.
Require Import BS.Common.Util BS.C15.Model BS.C15.Lists.

(* ------------------------------------------------------------------ *)
(* the oracle                                                          *)
(* ------------------------------------------------------------------ *)
Definition quiet (w : fsw) : Prop := forall b, In b (oracle w) -> b = false.

Lemma tick_inv w f w1 :
  tick w = (f, w1) ->
  vis w1 = vis w /\ ntemps w1 = ntemps w
  /\ f = nth 0 (oracle w) false /\ oracle w1 = tl (oracle w).
Proof.
  unfold tick. destruct w as [v t o]; simpl. destruct o as [|b o]; intro E; inversion E; subst; simpl; auto.
Qed.

Lemma tick_quiet w f w1 : quiet w -> tick w = (f, w1) -> f = false /\ quiet w1.
Proof.
  intros Q T. destruct (tick_inv _ _ _ T) as (_ & _ & F & O). unfold quiet in *.
  destruct (oracle w) as [|b o] eqn:E; simpl in *.
  - split; [exact F|]. rewrite O. intros ? [].
  - split; [rewrite F; apply Q; auto|]. rewrite O. intros x Hx. apply Q. auto.
Qed.

Lemma nth_tl {A} (l : list A) n d : nth n (tl l) d = nth (S n) l d.
Proof. destruct l; simpl; [destruct n; reflexivity | reflexivity]. Qed.

Lemma upd_same {A} (f : nat -> A) p v : upd f p v p = v.
Proof. unfold upd. rewrite Nat.eqb_refl. reflexivity. Qed.

Lemma upd_other {A} (f : nat -> A) p q v : q <> p -> upd f p v q = f q.
Proof. intro H. unfold upd. apply Nat.eqb_neq in H. rewrite H. reflexivity. Qed.

(* ------------------------------------------------------------------ *)
(* fileStore: create / write / discard-writer leave readers' view alone *)
(* ------------------------------------------------------------------ *)
Lemma fs_create_spec w p w' r :
  fs_create w p = (w', r) ->
  vis w' = vis w /\ (forall wr, r = Ok wr -> wr = mkW p []) /\ (forall e, r = Er e -> e = EInjected)
  /\ (quiet w -> quiet w' /\ exists wr, r = Ok wr).
Proof.
  unfold fs_create. destruct (tick w) as [f w1] eqn:T. destruct (tick_inv _ _ _ T) as (V & _ & _ & _).
  destruct f; intro E; inversion E; subst; cbn [vis set_temps].
  - split; [exact V|]. split; [intros wr H; discriminate|]. split; [intros e H; congruence|].
    intros Q. destruct (tick_quiet _ _ _ Q T) as [F _]. discriminate.
  - split; [exact V|]. split; [intros wr H; inversion H; reflexivity|]. split; [intros e H; discriminate|].
    intros Q. destruct (tick_quiet _ _ _ Q T) as [_ Q1]. split; [exact Q1 | eauto].
Qed.

Lemma fs_write_spec w wr d w' r :
  fs_write w wr d = (w', r) ->
  vis w' = vis w
  /\ (forall wr', r = Ok wr' -> wr' = mkW (wpart wr) (wdata wr ++ d))
  /\ (forall e, r = Er e -> e = EInjected)
  /\ (quiet w -> quiet w' /\ exists wr', r = Ok wr').
Proof.
  unfold fs_write. destruct (tick w) as [f w1] eqn:T. destruct (tick_inv _ _ _ T) as (V & _ & _ & _).
  destruct f; intro E; inversion E; subst.
  - split; [exact V|]. split; [intros wr' H; discriminate|]. split; [intros e H; congruence|].
    intros Q. destruct (tick_quiet _ _ _ Q T) as [F _]. discriminate.
  - split; [exact V|]. split; [intros wr' H; inversion H; reflexivity|]. split; [intros e H; discriminate|].
    intros Q. destruct (tick_quiet _ _ _ Q T) as [_ Q1]. split; [exact Q1 | eauto].
Qed.

Lemma fs_wdiscard_vis w : vis (fs_wdiscard w) = vis w.
Proof. reflexivity. Qed.

(* ------------------------------------------------------------------ *)
(* Commit                                                              *)
(* ------------------------------------------------------------------ *)
Lemma fs_commit_spec c w wr n w' r :
  fs_commit c w wr n = (w', r) ->
  (forall q, q <> wpart wr -> vis w' q = vis w q)
  /\ ((r = Ok tt /\ vis w' (wpart wr) = Some (wdata wr ++ le64 n))
      \/ (r = Er EInjected /\ vis w' = vis w)
      \/ (r = Ok tt /\ vis w' = vis w /\ swallow_trailer c = true /\ nth 0 (oracle w) false = true)).
Proof.
  unfold fs_commit. destruct (tick w) as [f w1] eqn:T1.
  destruct (tick_inv _ _ _ T1) as (V1 & _ & F1 & _).
  destruct f.
  - destruct (swallow_trailer c) eqn:S; intro E; inversion E; subst; (split; [intros; rewrite V1; reflexivity|]).
    + right; right. auto.
    + right; left. auto.
  - destruct (tick w1) as [f2 w2] eqn:T2. destruct (tick_inv _ _ _ T2) as (V2 & _ & _ & _).
    destruct f2; intro E; inversion E; subst; cbn [vis set_temps].
    + split; [intros; rewrite V2, V1; reflexivity|]. right; left. split; [reflexivity | congruence].
    + split; [intros q Hq; rewrite upd_other by exact Hq; rewrite V2, V1; reflexivity|].
      left. split; [reflexivity | apply upd_same].
Qed.

(* commit_ok_visible, file layer: under the exact guard that excludes the
   swallowed trailer-write failure *)
Lemma fs_commit_ok_visible c w wr n w' :
  fs_commit c w wr n = (w', Ok tt) ->
  swallow_trailer c = false \/ nth 0 (oracle w) false = false ->
  vis w' (wpart wr) = Some (wdata wr ++ le64 n).
Proof.
  intros E G. destruct (fs_commit_spec _ _ _ _ _ _ E) as [_ [[_ H]|[[H _]|(_ & _ & S & O)]]].
  - exact H.
  - discriminate.
  - destruct G; congruence.
Qed.

(* commit_reports, file layer: data not persisted -> an error is returned *)
Lemma fs_commit_reports c w wr n w' r :
  fs_commit c w wr n = (w', r) ->
  swallow_trailer c = false \/ nth 0 (oracle w) false = false ->
  vis w' (wpart wr) <> Some (wdata wr ++ le64 n) ->
  r = Er EInjected.
Proof.
  intros E G N. destruct (fs_commit_spec _ _ _ _ _ _ E) as [_ [[_ H]|[[H _]|(_ & _ & S & O)]]].
  - contradiction.
  - exact H.
  - destruct G; congruence.
Qed.

(* the code as it is: a failing trailer write is swallowed *)
Lemma fs_commit_swallow_witness :
  exists w wr n w',
    fs_commit defective_cfg w wr n = (w', Ok tt) /\ vis w' (wpart wr) = None /\ ntemps w' = ntemps w.
Proof.
  exists (mkFsw (fun _ => None) 1 [true]), (mkW 0 [1; 2; 3]%Z), 1%Z.
  eexists. vm_compute. repeat split.
Qed.

(* ------------------------------------------------------------------ *)
(* reading                                                             *)
(* ------------------------------------------------------------------ *)
Definition target (h : rdh) : list Z :=
  firstn (Z.to_nat (rlimit h)) (skipn (rpos h) (rcontent h)).

Ltac sp5 := split; [|split; [|split; [|split]]].

Lemma read_all_spec : forall fuel w h b acc w' got st,
  1 <= b -> length (target h) < fuel ->
  read_all fuel w h b acc = (w', got, st) ->
  vis w' = vis w /\ ntemps w' = ntemps w
  /\ (exists g, got = acc ++ g /\ g = firstn (length g) (target h) /\ (st = SEOF -> g = target h))
  /\ (st = SEOF \/ st = SErr EInjected)
  /\ (quiet w -> st = SEOF /\ quiet w').
Proof.
  induction fuel as [|fuel IH]; intros w h b acc w' got st B F E; [lia|].
  cbn [read_all] in E. unfold lim_read in E.
  destruct (Z.leb_spec (rlimit h) 0) as [L|L].
  - inversion E; subst. sp5.
    + reflexivity.
    + reflexivity.
    + exists []. split; [reflexivity|]. split; [reflexivity|].
      intros _. unfold target. replace (Z.to_nat (rlimit h)) with 0 by lia. reflexivity.
    + left; reflexivity.
    + intros Q. split; [reflexivity | exact Q].
  - unfold file_read in E. destruct (tick w) as [f w1] eqn:T.
    destruct (tick_inv _ _ _ T) as (V & NT & _ & _).
    destruct f.
    + inversion E; subst. sp5.
      * exact V.
      * exact NT.
      * exists []. split; [reflexivity|]. split; [reflexivity|]. discriminate.
      * right; reflexivity.
      * intros Q. destruct (tick_quiet _ _ _ Q T) as [X _]. discriminate.
    + destruct (Nat.min b (Z.to_nat (rlimit h))) as [|m'] eqn:M; [lia|].
      set (s := skipn (rpos h) (rcontent h)) in *.
      assert (TG : target h = firstn (Z.to_nat (rlimit h)) s) by reflexivity.
      destruct (firstn (S m') s) as [|x chunk'] eqn:CH.
      * inversion E; subst. sp5.
        -- exact V.
        -- exact NT.
        -- exists []. split; [reflexivity|]. split; [reflexivity|].
           intros _. rewrite TG. destruct (firstn_nil_inv _ _ CH) as [X|X]; [discriminate|].
           rewrite X. rewrite firstn_nil. reflexivity.
        -- left; reflexivity.
        -- intros Q. destruct (tick_quiet _ _ _ Q T) as [_ Q1]. split; [reflexivity | exact Q1].
      * set (chunk := x :: chunk') in *.
        assert (SPL : target h = chunk ++ firstn (Z.to_nat (rlimit h) - length chunk) (skipn (length chunk) s)).
        { rewrite TG. rewrite <- CH. apply firstn_split_chunk. lia. }
        cbn [rcontent rpos rlimit] in E.
        assert (T1 : target (mkR (rcontent h) (rpos h + length chunk) (rlimit h - Z.of_nat (length chunk)))
                     = firstn (Z.to_nat (rlimit h) - length chunk) (skipn (length chunk) s)).
        { unfold target. cbn [rcontent rpos rlimit]. unfold s. rewrite skipn_add.
          f_equal. lia. }
        apply IH in E; auto.
        -- destruct E as (V' & NT' & (g & G1 & G2 & G3) & ST & Q').
           rewrite T1 in *. sp5.
           ++ congruence.
           ++ congruence.
           ++ exists (chunk ++ g). split; [rewrite G1, app_assoc; reflexivity|]. split.
              ** rewrite SPL. rewrite app_length. rewrite firstn_app_2. f_equal. exact G2.
              ** intro S. rewrite SPL. f_equal. apply G3. exact S.
           ++ exact ST.
           ++ intros Q. apply Q'. destruct (tick_quiet _ _ _ Q T) as [_ Q1]. exact Q1.
        -- rewrite T1.
           assert (LL : length (target h) = length chunk + length (firstn (Z.to_nat (rlimit h) - length chunk) (skipn (length chunk) s))).
           { rewrite SPL at 1. apply app_length. }
           unfold chunk in LL at 1. cbn [length] in LL. lia.
Qed.

Ltac quiet_absurd Q T := let X := fresh in destruct (tick_quiet _ _ _ Q T) as [X _]; discriminate.

(* what Open hands to the reader *)
Lemma fs_open_spec c w p off w' r :
  fs_open c w p off = (w', r) ->
  vis w' = vis w /\ ntemps w' = ntemps w
  /\ match r with
     | Er e => e = EInjected \/ (e = ENotExist /\ vis w p = None)
     | Ok h =>
         exists content, vis w p = Some content /\ rcontent h = content
           /\ rlimit h = (Z.of_nat (length content) - Z.of_nat trailer_len - Z.of_nat off)%Z
           /\ (rpos h = off
               \/ (rpos h = 0 /\ swallow_seek c = true /\ nth 2 (oracle w) false = true))
     end
  /\ (quiet w -> quiet w' /\ r <> Er EInjected /\ forall h, r = Ok h -> rpos h = off).
Proof.
  unfold fs_open. destruct (tick w) as [f1 w1] eqn:T1.
  destruct (tick_inv _ _ _ T1) as (V1 & N1 & _ & O1).
  destruct f1.
  { intro E; inversion E; subst. split; [exact V1|]. split; [exact N1|]. split; [left; reflexivity|].
    intros Q. quiet_absurd Q T1. }
  rewrite V1. destruct (vis w p) as [content|] eqn:VP.
  2:{ intro E; inversion E; subst. split; [exact V1|]. split; [exact N1|]. split; [right; auto|].
      intros Q; destruct (tick_quiet _ _ _ Q T1) as [_ X]. split; [exact X|].
      split; [discriminate | intros h H; discriminate]. }
  destruct (tick w1) as [f2 w2] eqn:T2. destruct (tick_inv _ _ _ T2) as (V2 & N2 & _ & O2).
  destruct f2.
  { intro E; inversion E; subst. split; [congruence|]. split; [congruence|]. split; [left; reflexivity|].
    intros Q. destruct (tick_quiet _ _ _ Q T1) as [_ Q1]. quiet_absurd Q1 T2. }
  destruct (tick w2) as [f3 w3] eqn:T3. destruct (tick_inv _ _ _ T3) as (V3 & N3 & F3 & O3).
  assert (NTH : f3 = nth 2 (oracle w) false).
  { rewrite F3, O2, O1. rewrite !nth_tl. reflexivity. }
  assert (QQ : quiet w -> f3 = false /\ quiet w3).
  { intros Q. destruct (tick_quiet _ _ _ Q T1) as [_ Q1].
    destruct (tick_quiet _ _ _ Q1 T2) as [_ Q2]. apply (tick_quiet _ _ _ Q2 T3). }
  destruct f3.
  - destruct (swallow_seek c) eqn:S; intro E; inversion E; subst.
    + split; [congruence|]. split; [congruence|]. split.
      * exists content. cbn [rcontent rpos rlimit]. split; [reflexivity|]. split; [reflexivity|].
        split; [reflexivity|]. right. auto.
      * intros Q. destruct (QQ Q) as [X _]. discriminate.
    + split; [congruence|]. split; [congruence|]. split; [left; reflexivity|].
      intros Q. destruct (QQ Q) as [X _]. discriminate.
  - intro E; inversion E; subst.
    split; [congruence|]. split; [congruence|]. split.
    + exists content. cbn [rcontent rpos rlimit]. split; [reflexivity|]. split; [reflexivity|].
      split; [reflexivity|]. left; reflexivity.
    + intros Q. destruct (QQ Q) as [_ X]. split; [exact X|]. split; [discriminate|].
      intros h H; inversion H; reflexivity.
Qed.

(* the limit arithmetic of Open: exactly the committed bytes after [off] *)
Lemma open_target (d t : list Z) off :
  length t = trailer_len ->
  firstn (Z.to_nat (Z.of_nat (length (d ++ t)) - Z.of_nat trailer_len - Z.of_nat off))
         (skipn off (d ++ t)) = skipn off d.
Proof.
  intro LT. rewrite app_length, LT.
  replace (Z.to_nat (Z.of_nat (length d + trailer_len) - Z.of_nat trailer_len - Z.of_nat off))
    with (length d - off) by lia.
  rewrite firstn_skipn_comm. rewrite firstn_app_exact. reflexivity.
Qed.

Definition is_prefix_of (a b : list Z) : Prop := a = firstn (length a) b.

(* Open + read to the end + Close, for an entry that holds d ++ le64 n *)
Lemma fs_open_read_spec c w p off b d n w' r :
  vis w p = Some (d ++ le64 n) -> 1 <= b ->
  fs_open_read c w p off b = (w', r) ->
  vis w' = vis w /\ ntemps w' = ntemps w
  /\ match r with
     | RErr e => e = EInjected
     | RRead got st cl =>
         (st = SEOF \/ st = SErr EInjected)
         /\ (swallow_seek c = false \/ nth 2 (oracle w) false = false ->
             is_prefix_of got (skipn off d) /\ (st = SEOF -> got = skipn off d))
     | _ => False
     end
  /\ (quiet w -> quiet w' /\ r = RRead (skipn off d) SEOF SNil).
Proof.
  intros VP B. unfold fs_open_read.
  destruct (fs_open c w p off) as [w1 [h|e]] eqn:O;
    destruct (fs_open_spec _ _ _ _ _ _ O) as (V1 & N1 & R1 & Q1).
  2:{ intro E; inversion E; subst. split; [exact V1|]. split; [exact N1|]. split.
      - destruct R1 as [R1|[_ R1]]; [exact R1 | congruence].
      - intros Q. destruct (Q1 Q) as (_ & X & _). destruct R1 as [R1|[_ R1]]; congruence. }
  destruct R1 as (content & VC & RC0 & RL & RP).
  assert (RC : rcontent h = d ++ le64 n) by congruence.
  subst content. clear VC.
  destruct (read_all (S (length (rcontent h))) w1 h b []) as [[w2 got] st] eqn:RA.
  destruct (tick w2) as [f w3] eqn:T. destruct (tick_inv _ _ _ T) as (V3 & N3 & _ & _).
  intro E; inversion E; subst w' r; clear E.
  assert (FU : length (target h) < S (length (rcontent h))).
  { unfold target. rewrite firstn_length, skipn_length. lia. }
  destruct (read_all_spec _ _ _ _ _ _ _ _ B FU RA) as (V2 & N2 & (g & G1 & G2 & G3) & ST & Q2).
  simpl in G1. subst g.
  assert (TGT : rpos h = off -> target h = skipn off d).
  { intro P. unfold target. rewrite P, RL, RC. apply open_target. apply le64_length. }
  split; [congruence|]. split; [congruence|]. split.
  - split; [exact ST|]. intros G.
    assert (P : rpos h = off).
    { destruct RP as [P|(_ & S & X)]; [exact P | destruct G; congruence]. }
    rewrite (TGT P) in *. split; [exact G2 | exact G3].
  - intros Q. destruct (Q1 Q) as (Qw1 & _ & P). specialize (P _ eq_refl).
    destruct (Q2 Qw1) as [S Qw2]. destruct (tick_quiet _ _ _ Qw2 T) as [F Qw3]. subst f st.
    split; [exact Qw3|]. rewrite (G3 eq_refl). rewrite (TGT P). reflexivity.
Qed.

(* the code as it is: a failing Seek is ignored and the wrong bytes are returned *)
Lemma fs_open_seek_swallow_witness :
  exists w p off b d n w' got,
    vis w p = Some (d ++ le64 n)
    /\ fs_open_read defective_cfg w p off b = (w', RRead got SEOF SNil)
    /\ got <> skipn off d.
Proof.
  exists (mkFsw (fun _ => Some ([1; 2; 3; 4; 5]%Z ++ le64 7)) 0 [false; false; true]), 0, 2, 4,
         [1; 2; 3; 4; 5]%Z, 7%Z.
  eexists. eexists. split; [reflexivity|]. split; [vm_compute; reflexivity|].
  vm_compute. discriminate.
Qed.

(* Stat *)
Lemma fs_stat_spec w p d n w' r :
  vis w p = Some (d ++ le64 n) -> int64_range n ->
  fs_stat w p = (w', r) ->
  vis w' = vis w /\ ntemps w' = ntemps w
  /\ (r = RStat (Z.of_nat (length d)) n \/ r = RErr EInjected)
  /\ (quiet w -> quiet w' /\ r = RStat (Z.of_nat (length d)) n).
Proof.
  intros VP RG. unfold fs_stat.
  destruct (tick w) as [f1 w1] eqn:T1. destruct (tick_inv _ _ _ T1) as (V1 & N1 & _ & _).
  destruct f1.
  { intro E; inversion E; subst. split; [exact V1|]. split; [exact N1|]. split; [right; reflexivity|].
    intros Q. quiet_absurd Q T1. }
  rewrite V1, VP.
  destruct (tick w1) as [f2 w2] eqn:T2. destruct (tick_inv _ _ _ T2) as (V2 & N2 & _ & _).
  destruct f2.
  { intro E; inversion E; subst. split; [congruence|]. split; [congruence|]. split; [right; reflexivity|].
    intros Q. destruct (tick_quiet _ _ _ Q T1) as [_ Q1]. quiet_absurd Q1 T2. }
  assert (LEN : length (d ++ le64 n) = length d + trailer_len) by (rewrite app_length, le64_length; reflexivity).
  destruct (Nat.ltb_spec (length (d ++ le64 n)) trailer_len) as [L|L]; [lia|].
  assert (TR : le64_count (firstn trailer_len (skipn (length (d ++ le64 n) - trailer_len) (d ++ le64 n))) = n).
  { replace (length (d ++ le64 n) - trailer_len) with (length d) by lia.
    rewrite skipn_app_exact. rewrite firstn_all_ge by (rewrite le64_length; lia).
    apply le64_count_le64. exact RG. }
  rewrite TR. replace (length (d ++ le64 n) - trailer_len) with (length d) by lia.
  destruct (tick w2) as [f3 w3] eqn:T3. destruct (tick_inv _ _ _ T3) as (V3 & N3 & _ & _).
  assert (QQ : quiet w -> f3 = false /\ quiet w3).
  { intros Q. destruct (tick_quiet _ _ _ Q T1) as [_ Q1].
    destruct (tick_quiet _ _ _ Q1 T2) as [_ Q2]. apply (tick_quiet _ _ _ Q2 T3). }
  destruct f3.
  { intro E; inversion E; subst. split; [congruence|]. split; [congruence|]. split; [right; reflexivity|].
    intros Q. destruct (QQ Q) as [X _]. discriminate. }
  intro E; inversion E; subst.
  split; [congruence|]. split; [congruence|]. split; [left; reflexivity|].
  intros Q. destruct (QQ Q) as [_ X]. split; [exact X | reflexivity].
Qed.

(* Discard *)
Lemma fs_discard_spec w p w' r :
  fs_discard w p = (w', r) ->
  (forall q, q <> p -> vis w' q = vis w q)
  /\ ((r = ROk /\ vis w' p = None /\ vis w p <> None)
      \/ (r = RErr EInjected /\ vis w' = vis w)
      \/ (r = RErr ENotExist /\ vis w' = vis w /\ vis w p = None))
  /\ (quiet w -> quiet w' /\ r <> RErr EInjected).
Proof.
  unfold fs_discard. destruct (tick w) as [f w1] eqn:T. destruct (tick_inv _ _ _ T) as (V & _ & _ & _).
  destruct f.
  { intro E; inversion E; subst. split; [intros; rewrite V; reflexivity|]. split; [right; left; auto|].
    intros Q. quiet_absurd Q T. }
  rewrite V. destruct (vis w p) eqn:VP; intro E; inversion E; subst; cbn [vis set_vis].
  - split; [intros q Hq; rewrite upd_other by exact Hq; try rewrite V; reflexivity|]. split.
    + left. rewrite upd_same. split; [reflexivity|]. split; [reflexivity | discriminate].
    + intros Q; destruct (tick_quiet _ _ _ Q T) as [_ X]. split; [exact X | discriminate].
  - split; [intros; rewrite V; reflexivity|]. split; [right; right; auto|].
    intros Q; destruct (tick_quiet _ _ _ Q T) as [_ X]. split; [exact X | discriminate].
Qed.

(* ------------------------------------------------------------------ *)
(* memoryStore                                                         *)
(* ------------------------------------------------------------------ *)
Lemma extend_length {A} (l : list A) n d : length (extend l n d) = Nat.max (length l) n.
Proof. unfold extend. rewrite app_length, repeat_length. lia. Qed.

Lemma nth_extend {A} (l : list A) n d i : nth i (extend l n d) d = nth i l d.
Proof.
  unfold extend. destruct (Nat.lt_ge_cases i (length l)) as [H|H].
  - rewrite app_nth1 by exact H. reflexivity.
  - rewrite app_nth2 by exact H. rewrite (nth_overflow l) by exact H.
    destruct (Nat.lt_ge_cases (i - length l) (n - length l)) as [K|K].
    + apply nth_repeat.
    + apply nth_overflow. rewrite repeat_length. exact K.
Qed.

Lemma set_nth_length {A} (l : list A) p v : length (set_nth l p v) = length l.
Proof. revert p; induction l as [|x l IH]; intros [|p]; simpl; auto. Qed.

Lemma nth_set_nth_same {A} (l : list A) p v d : p < length l -> nth p (set_nth l p v) d = v.
Proof.
  revert p; induction l as [|x l IH]; intros [|p] H; simpl in *; try lia; auto. apply IH. lia.
Qed.

Lemma nth_set_nth_other {A} (l : list A) p q v d : q <> p -> nth q (set_nth l p v) d = nth q l d.
Proof.
  revert p q; induction l as [|x l IH]; intros [|p] [|q] H; simpl; auto; try congruence.
Qed.

(* ms_get in terms of nth with defaults *)
Lemma ms_get_nth m p :
  length (mtasks m) = length (mcounts m) ->
  ms_get m p = (nth p (mtasks m) None, nth p (mcounts m) 0%Z).
Proof.
  intro L. unfold ms_get. destruct (Nat.leb_spec (length (mtasks m)) p) as [H|H]; [|reflexivity].
  rewrite !nth_overflow by lia. reflexivity.
Qed.

Definition ms_wf (m : ms) : Prop := length (mtasks m) = length (mcounts m).

Lemma ms_put_spec m p d n m' r :
  ms_wf m -> ms_put m p d n = (m', r) ->
  ms_wf m'
  /\ (forall q, q <> p -> ms_get m' q = ms_get m q)
  /\ ((r = Ok tt /\ ms_get m' p = (Some d, n) /\ fst (ms_get m p) = None)
      \/ (r = Er EExists /\ ms_get m' p = ms_get m p /\ fst (ms_get m p) <> None)).
Proof.
  intros WF. unfold ms_put.
  set (t := extend (mtasks m) (S p) None). set (c := extend (mcounts m) (S p) 0%Z).
  assert (LT : length t = length c) by (unfold t, c; rewrite !extend_length; unfold ms_wf in WF; lia).
  assert (PT : p < length t) by (unfold t; rewrite extend_length; lia).
  assert (GT : forall q, ms_get (mkMs t c) q = ms_get m q).
  { intro q. rewrite !ms_get_nth by (exact LT || exact WF). cbn [mtasks mcounts].
    unfold t, c. rewrite !nth_extend. reflexivity. }
  destruct (nth p t None) as [old|] eqn:NP; intro E; inversion E; subst.
  - split; [exact LT|]. split; [intros; apply GT|]. right. split; [reflexivity|]. split; [apply GT|].
    rewrite <- GT. rewrite ms_get_nth by exact LT. cbn. rewrite NP. discriminate.
  - assert (WF' : ms_wf (mkMs (set_nth t p (Some d)) (set_nth c p n))).
    { unfold ms_wf; cbn. rewrite !set_nth_length. exact LT. }
    split; [exact WF'|]. split.
    + intros q Hq. rewrite <- GT. rewrite !ms_get_nth by (exact WF' || exact LT). cbn [mtasks mcounts].
      rewrite !nth_set_nth_other by exact Hq. reflexivity.
    + left. split; [reflexivity|]. split.
      * rewrite ms_get_nth by exact WF'. cbn [mtasks mcounts].
        rewrite !nth_set_nth_same by lia. reflexivity.
      * rewrite <- GT. rewrite ms_get_nth by exact LT. cbn. exact NP.
Qed.

Lemma mem_read_all_spec : forall fuel rest b acc,
  1 <= b -> length rest < fuel -> mem_read_all fuel rest b acc = (acc ++ rest, SEOF).
Proof.
  induction fuel as [|fuel IH]; intros rest b acc B F; [lia|].
  cbn [mem_read_all]. destruct rest as [|x rest'] eqn:R.
  - rewrite app_nil_r. reflexivity.
  - rewrite <- R in *. rewrite IH; auto.
    + rewrite <- app_assoc, firstn_skipn. reflexivity.
    + rewrite skipn_length. subst rest. cbn [length] in *. lia.
Qed.

Lemma ms_open_read_spec m p off b d :
  fst (ms_get m p) = Some d -> 1 <= b -> off <= length d ->
  ms_open_read m p off b = RRead (skipn off d) SEOF SNil.
Proof.
  intros G B O. unfold ms_open_read. rewrite G.
  destruct (Nat.ltb_spec (length d) off) as [H|H]; [lia|].
  rewrite mem_read_all_spec; auto. rewrite skipn_length. lia.
Qed.

Lemma ms_discard_spec m p m' r :
  ms_wf m -> ms_discard m p = (m', r) ->
  ms_wf m'
  /\ (forall q, q <> p -> ms_get m' q = ms_get m q)
  /\ ((r = ROk /\ fst (ms_get m' p) = None) \/ (r = RErr ENotExist /\ m' = m /\ fst (ms_get m p) = None)).
Proof.
  intro WF. unfold ms_discard. destruct (Nat.leb_spec (length (mtasks m)) p) as [H|H];
    intro E; inversion E; subst m' r; clear E.
  - split; [exact WF|]. split; [reflexivity|]. right. split; [reflexivity|]. split; [reflexivity|].
    unfold ms_get. destruct (Nat.leb_spec (length (mtasks m)) p); [reflexivity | lia].
  - assert (WF' : ms_wf (mkMs (set_nth (mtasks m) p None) (mcounts m))).
    { unfold ms_wf in *; cbn. rewrite set_nth_length. exact WF. }
    split; [exact WF'|]. split.
    + intros q Hq. rewrite !ms_get_nth by (exact WF' || exact WF). cbn [mtasks mcounts].
      rewrite nth_set_nth_other by exact Hq. reflexivity.
    + left. split; [reflexivity|]. rewrite ms_get_nth by exact WF'. cbn [mtasks mcounts fst].
      apply nth_set_nth_same. exact H.
Qed.

(* C20 — correspondence drivers: evaluated by vm_compute on harness case files. *)
From Coq Require Import List ZArith Bool.
Import ListNotations.
Require Export BS.Common.Util BS.C20.Model.
Require Import BS.Gen.C20_params.
Local Open Scope Z_scope.

(* One observed step: the operation, what the implementation reported, and the
   dump of every scope afterwards (instance identities are arbitrary numbers:
   only which cells share an instance is meaningful). *)
Record obs := mkObs { oop : op; oout : out; odump : list (option (list (option (nat * Z)))) }.

Inductive case :=
| COps (blind : bool) (reg0 nscopes : nat) (steps : list obs)
    (* registry size and number of (zero-valued) scopes at the start, then the steps.
       blind = the harness could not read the scopes' storage directly (its layout
       changed) and dumped them through GobEncode instead: presence and values only,
       identities meaningless (the metric index), nil storage never seen *)
| CE2E (bigmachine : bool) (reg : nat)
       (tasks : list (list (nat * Z)))   (* increments logged per task scope (sorted) *)
       (expected : list (nat * Z))       (* increments the program must perform on its input *)
       (observed : list Z)               (* Counter.Value(result.Scope()) for metric 0..reg-1 *)
| CHist (bigmachine : bool) (reg : nat)
       (tasks : list (list (list (nat * Z))))
         (* a history in which tasks may run more than once (Result.Discard, then a
            computation that needs the result again): per task scope, the increments
            of each of its runs, in order of the runs *)
       (expected : list (nat * Z))       (* increments of the program on its input, each task once *)
       (observed : list Z)               (* the counters of the final result *)
| CResub (reg : nat)
       (tasks : list (list (nat * Z) * nat))
         (* bigmachine, one machine: per task scope the increments of its one execution
            and how many times the driver submitted it again to the worker that still
            held it in TaskOk (the worker answers without executing) *)
       (expected : list (nat * Z))
       (observed : list Z).

Definition payload_eqb := list_eqb (option_eqb Z.eqb).

Definition out_eqb (a b : out) : bool :=
  match a, b with
  | RUnit, RUnit => true
  | RPanic, RPanic => true
  | RNum x, RNum y => Z.eqb x y
  | RPayload x, RPayload y => payload_eqb x y
  | RIncompatible, RIncompatible => true
  | _, _ => false
  end.

(* ---- dumps are compared up to renaming of instance identities ---- *)
Fixpoint index_of (x : nat) (l : list nat) : nat :=
  match l with
  | [] => 0%nat
  | y :: r => if Nat.eqb x y then 0%nat else S (index_of x r)
  end.
Definition canon (l : list nat) : list nat := map (fun x => index_of x l) l.

Definition cell_ids (l : list (option (nat * Z))) : list nat :=
  flat_map (fun e : option (nat * Z) => match e with Some (p, _) => [p] | None => [] end) l.
Definition ids_of (d : list (option (list (option (nat * Z))))) : list nat :=
  flat_map (fun s : option (list (option (nat * Z))) =>
              match s with None => [] | Some l => cell_ids l end) d.
Definition vals_of (d : list (option (list (option (nat * Z))))) : list (option (list (option Z))) :=
  map (option_map (map (option_map (@snd nat Z)))) d.

Definition dump_eqb (a b : list (option (list (option (nat * Z))))) : bool :=
  list_eqb (option_eqb (list_eqb (option_eqb Z.eqb))) (vals_of a) (vals_of b)
  && list_eqb Nat.eqb (canon (ids_of a)) (canon (ids_of b)).

(* ---- exact agreement: the model run from [init] predicts every output and
        every scope (structure, values, sharing) after every step ---- *)
Definition dval (d : list (option (list (option (nat * Z))))) (i m : nat) : Z :=
  match nth i d None with
  | Some l => match nth m l None with Some (_, z) => z | None => 0 end
  | None => 0
  end.
Definition did (d : list (option (list (option (nat * Z))))) (i m : nat) : option nat :=
  match nth i d None with
  | Some l => match nth m l None with Some (p, _) => Some p | None => None end
  | None => None
  end.
Definition all_metrics (reg : nat) (f : nat -> bool) : bool := forallb f (seq 0 reg).
Definition all_cells (reg ns : nat) (f : nat -> nat -> bool) : bool :=
  forallb (fun i => forallb (f i) (seq 0 reg)) (seq 0 ns).

(* blind dumps: which cells hold an instance, and the values *)
Definition blind_eqb (reg : nat) (a b : list (option (list (option (nat * Z))))) : bool :=
  Nat.eqb (length a) (length b)
  && all_cells reg (length a) (fun i m =>
       option_eqb (fun _ _ => true) (did a i m) (did b i m) && Z.eqb (dval a i m) (dval b i m)).

(* A panic (only possible when a scope's list is shorter than the registry, which
   the property excludes) leaves the scopes involved half-updated, in an order
   that depends on the iteration order of the Go loops.  The harness resets the
   scopes involved to nil right after a panic, before dumping; so does the model. *)
Definition op_scopes (o : op) : list nat :=
  match o with
  | ORegister => []
  | OIncr s _ _ | OValue s _ | OResetNil s | OEncode s | ODecode _ s => [s]
  | OMerge s u | OReset s u => [s; u]
  end.

Definition step_c (w : world) (o : op) : world * out :=
  let '(w1, r) := step w o in
  match r with
  | RPanic => (fold_left reset_nil (op_scopes o) w1, RPanic)
  | _ => (w1, r)
  end.

Fixpoint run_exact (blind : bool) (w : world) (c : list obs) : bool :=
  match c with
  | [] => true
  | ob :: rest =>
      let '(w', o') := step_c w (oop ob) in
      out_eqb o' (oout ob)
      && (if blind then blind_eqb (wreg w') (dump w') (odump ob) else dump_eqb (dump w') (odump ob))
      && run_exact blind w' rest
  end.

(* ---- property-level judgement of one observed step, from the OBSERVED
        pre-state, on values only ---- *)
(* the scope's list covers the whole registry (always true when every counter
   was registered before the scope was first used, or since its last Reset(nil)) *)
Definition adequate (reg : nat) (d : list (option (list (option (nat * Z))))) (i : nat) : bool :=
  match nth i d None with None => true | Some l => (reg <=? length l)%nat end.

Definition is_unit (o : out) : bool := match o with RUnit => true | _ => false end.

Definition step_ok (reg : nat) (pre : list (option (list (option (nat * Z))))) (ob : obs) : bool :=
  let post := odump ob in
  let ns := length pre in
  match oop ob with
  | ORegister => true
  | OIncr s c n =>
      if adequate reg pre s then
        is_unit (oout ob)
        && Z.eqb (dval post s c) (wrap (dval pre s c + n))
        (* scoped: every cell that does not share the incremented instance keeps its value *)
        && all_cells reg ns (fun i m =>
             (Nat.eqb i s && Nat.eqb m c)
             || match did pre s c, did pre i m with
                | Some p, Some q => Nat.eqb p q
                | _, _ => false
                end
             || Z.eqb (dval post i m) (dval pre i m))
      else true
  | OValue s c =>
      if adequate reg pre s then
        match oout ob with RNum z => Z.eqb z (dval pre s c) | _ => false end
        && all_cells reg ns (fun i m => Z.eqb (dval post i m) (dval pre i m))
      else true
  | OMerge s u =>
      if adequate reg pre s && adequate reg pre u then
        is_unit (oout ob)
        && all_metrics reg (fun m => Z.eqb (dval post s m) (wrap (dval pre s m + dval pre u m)))
      else true
  | OReset s u =>
      if adequate reg pre s && adequate reg pre u then
        is_unit (oout ob)
        && all_metrics reg (fun m => Z.eqb (dval post s m) (dval pre u m))
      else true
  | OResetNil s =>
      is_unit (oout ob) && all_metrics reg (fun m => Z.eqb (dval post s m) 0)
  | OEncode s =>
      if adequate reg pre s then
        match oout ob with
        | RPayload pl =>
            Nat.eqb (length pl) reg
            && all_metrics reg (fun m => Z.eqb (plval pl m) (dval pre s m))
        | _ => false
        end
      else true
  | ODecode pl s =>
      if Nat.eqb (length pl) reg && adequate reg pre s then
        is_unit (oout ob)
        && all_metrics reg (fun m => Z.eqb (dval post s m) (plval pl m))
      else true
  end.

Definition next_reg (reg : nat) (o : op) : nat :=
  match o with ORegister => S reg | _ => reg end.

Fixpoint run_ok (reg : nat) (pre : list (option (list (option (nat * Z))))) (c : list obs) : bool :=
  match c with
  | [] => true
  | ob :: rest => step_ok reg pre ob && run_ok (next_reg reg (oop ob)) (odump ob) rest
  end.

(* ---- end-to-end runs ---- *)
Definition e2e_model (bigm : bool) (reg : nat) (tasks : list (list (nat * Z))) : world * res unit :=
  if bigm then run_bigmachine reg tasks else run_local reg tasks.

Definition e2e_exact (bigm : bool) (reg : nat) (tasks : list (list (nat * Z)))
           (expected : list (nat * Z)) (observed : list Z) : bool :=
  match e2e_model bigm reg tasks with
  | (w, Ok _) =>
      Nat.eqb (length observed) reg
      && all_metrics reg (fun m => Z.eqb (peek w 0 m) (nth m observed 0))
      (* the harness's reading of the program agrees with what the tasks logged *)
      && all_metrics reg (fun m => Z.eqb (wrap (sum_incs m (concat tasks))) (wrap (sum_incs m expected)))
  | (_, Panic) => false
  end.

(* histories with re-runs.  The bigmachine flow follows the code as it is now:
   [worker_run_resets_scope] is regenerated from (worker).Run by goparams. *)
Definition hist_model (bigm : bool) (reg : nat) (tasks : list (list (list (nat * Z)))) : world * res unit :=
  if bigm then run_bigmachine_runs worker_run_resets_scope reg tasks else run_local_runs reg tasks.

Definition hist_exact (bigm : bool) (reg : nat) (tasks : list (list (list (nat * Z))))
           (expected : list (nat * Z)) (observed : list Z) : bool :=
  match hist_model bigm reg tasks with
  | (w, Ok _) =>
      Nat.eqb (length observed) reg
      && all_metrics reg (fun m => Z.eqb (peek w 0 m) (nth m observed 0))
      && all_metrics reg (fun m => Z.eqb (wrap (sum_incs m (last_runs tasks))) (wrap (sum_incs m expected)))
  | (_, Panic) => false
  end.

Definition resub_model (reg : nat) (tasks : list (list (nat * Z) * nat)) : world * res unit :=
  run_bigmachine_resub worker_run_resets_scope worker_run_reply_filled_on_every_path reg tasks.

Definition resub_exact (reg : nat) (tasks : list (list (nat * Z) * nat))
           (expected : list (nat * Z)) (observed : list Z) : bool :=
  match resub_model reg tasks with
  | (w, Ok _) =>
      Nat.eqb (length observed) reg
      && all_metrics reg (fun m => Z.eqb (peek w 0 m) (nth m observed 0))
      && all_metrics reg (fun m => Z.eqb (wrap (sum_incs m (concat (map fst tasks)))) (wrap (sum_incs m expected)))
  | (_, Panic) => false
  end.

Definition e2e_ok (reg : nat) (expected : list (nat * Z)) (observed : list Z) : bool :=
  Nat.eqb (length observed) reg
  && all_metrics reg (fun m => Z.eqb (nth m observed 0) (wrap (sum_incs m expected))).

Definition case_exact (c : case) : bool :=
  match c with
  | COps blind reg0 ns steps => run_exact blind (init reg0 ns) steps
  | CE2E bigm reg tasks expected observed => e2e_exact bigm reg tasks expected observed
  | CHist bigm reg tasks expected observed => hist_exact bigm reg tasks expected observed
  | CResub reg tasks expected observed => resub_exact reg tasks expected observed
  end.

Definition case_ok (c : case) : bool :=
  match c with
  | COps _ reg0 ns steps => run_ok reg0 (repeat None ns) steps
  | CE2E _ reg _ expected observed => e2e_ok reg expected observed
  | CHist _ reg _ expected observed => e2e_ok reg expected observed
  | CResub reg _ expected observed => e2e_ok reg expected observed
  end.

Definition mismatches (cs : list case) : list nat := bad_indices case_exact cs.
Definition violations (cs : list case) : list nat := bad_indices case_ok cs.

(* C20 — basic facts: int64 wrap-around, list update, well-formed worlds and the
   specifications of the primitive scope operations (list/load/store/instance). *)
From Coq Require Import List ZArith Lia Bool Arith.
Import ListNotations.
Require Import BS.C20.Model.
Local Open Scope Z_scope.

Ltac splits := repeat match goal with |- _ /\ _ => split end.

(* ---------------- wrap ---------------- *)
Definition in64 (z : Z) : Prop := - 9223372036854775808 <= z < 9223372036854775808.

Lemma wrap_range z : in64 (wrap z).
Proof.
  unfold in64.
  unfold wrap.
  pose proof (Z.mod_pos_bound (z + 9223372036854775808) 18446744073709551616 ltac:(lia)). lia.
Qed.

Lemma wrap_small z : in64 z -> wrap z = z.
Proof. unfold in64. intro H. unfold wrap. rewrite Z.mod_small by lia. lia. Qed.

Lemma wrap_0 : wrap 0 = 0.
Proof. reflexivity. Qed.

Lemma wrap_add_l a b : wrap (wrap a + b) = wrap (a + b).
Proof.
  unfold wrap. f_equal.
  replace ((a + 9223372036854775808) mod 18446744073709551616 - 9223372036854775808 + b + 9223372036854775808)
    with ((a + 9223372036854775808) mod 18446744073709551616 + b) by lia.
  rewrite Zplus_mod_idemp_l. f_equal. lia.
Qed.

Lemma wrap_add_r a b : wrap (a + wrap b) = wrap (a + b).
Proof. rewrite Z.add_comm, wrap_add_l, Z.add_comm. reflexivity. Qed.

Lemma wrap_wrap a : wrap (wrap a) = wrap a.
Proof. apply wrap_small, wrap_range. Qed.

(* ---------------- upd ---------------- *)
Lemma upd_length {A} (l : list A) i x : length (upd l i x) = length l.
Proof. revert i; induction l as [|y l IH]; intros [|i]; simpl; auto. Qed.

Lemma nth_upd_same {A} (l : list A) i x d : (i < length l)%nat -> nth i (upd l i x) d = x.
Proof.
  revert i; induction l as [|y l IH]; intros [|i] H; simpl in *; try lia; auto.
  apply IH. lia.
Qed.

Lemma nth_upd_other {A} (l : list A) i k x d : k <> i -> nth k (upd l i x) d = nth k l d.
Proof.
  revert i k; induction l as [|y l IH]; intros [|i] [|k] H; simpl; auto; try congruence.
Qed.

Lemma nth_repeat_none {A} (n m : nat) : nth m (repeat (@None A) n) None = None.
Proof. revert m; induction n; intros [|m]; simpl; auto. Qed.

Lemma nth_app_l {A} (l l' : list A) p d : (p < length l)%nat -> nth p (l ++ l') d = nth p l d.
Proof. intro H. apply app_nth1. exact H. Qed.

(* ---------------- world accessors ---------------- *)
Definition plen (w : world) : nat := length (wpool w).

Lemma get_set_same w i s : (i < plen w)%nat -> get_scope (set_scope w i s) i = s.
Proof. intro H. unfold get_scope, set_scope; simpl. apply nth_upd_same. exact H. Qed.

Lemma get_set_other w i k s : k <> i -> get_scope (set_scope w i s) k = get_scope w k.
Proof. intro H. unfold get_scope, set_scope; simpl. apply nth_upd_other. exact H. Qed.

(* two worlds with the same registry, heap length and pool size *)
Definition shape (w w' : world) : Prop :=
  wreg w' = wreg w /\ plen w' = plen w /\ (length (wheap w) <= length (wheap w'))%nat.

Lemma shape_refl w : shape w w.
Proof. repeat split; auto. Qed.

Lemma shape_trans a b c : shape a b -> shape b c -> shape a c.
Proof. unfold shape. intros (?&?&?) (?&?&?). repeat split; try congruence; lia. Qed.

(* ---------------- well-formed worlds ---------------- *)
Record wf (w : world) : Prop := mkWf {
  wf_len : forall i l, get_scope w i = Some l -> length l = wreg w;
  wf_ptr : forall i m p, slot_of w i m = Some p -> (p < length (wheap w))%nat;
  wf_col : forall i k m m' p, slot_of w i m = Some p -> slot_of w k m' = Some p -> m = m';
  wf_rng : forall p, in64 (hval w p)          (* the cells are Go int64 values *)
}.

Lemma in64_0 : in64 0.
Proof. unfold in64. lia. Qed.

Lemma peek_in64 w i m : wf w -> in64 (peek w i m).
Proof. intro W. unfold peek. destruct (slot_of w i m); [apply (wf_rng w W)|apply in64_0]. Qed.

Lemma wf_init reg ns : wf (init reg ns).
Proof.
  assert (G : forall i, get_scope (init reg ns) i = None).
  { intro i. unfold get_scope, init; simpl. apply nth_repeat_none. }
  constructor.
  - intros i l H. rewrite G in H. discriminate.
  - intros i m p H. unfold slot_of in H. rewrite G in H. discriminate.
  - intros i k m m' p H. unfold slot_of in H. rewrite G in H. discriminate.
  - intro p. unfold hval, init; simpl. destruct p; apply in64_0.
Qed.

Lemma slot_init reg ns i m : slot_of (init reg ns) i m = None.
Proof. unfold slot_of, get_scope, init; simpl. rewrite nth_repeat_none. reflexivity. Qed.

(* two scopes share the instance of metric m *)
Definition shares (w : world) (i k m : nat) : Prop :=
  exists p, slot_of w i m = Some p /\ slot_of w k m = Some p.

(* no other scope shares an instance with scope i *)
Definition private (w : world) (i : nat) : Prop :=
  forall k m, k <> i -> ~ shares w i k m.

Lemma peek_none w i m : slot_of w i m = None -> peek w i m = 0.
Proof. unfold peek. intros ->. reflexivity. Qed.

Lemma peek_some w i m p : slot_of w i m = Some p -> peek w i m = hval w p.
Proof. unfold peek. intros ->. reflexivity. Qed.

(* ---------------- (Scope).list ---------------- *)
Lemma touch_spec w i w1 l :
  wf w -> (i < plen w)%nat -> touch w i = (w1, l) ->
  wf w1 /\ wreg w1 = wreg w /\ wheap w1 = wheap w /\ plen w1 = plen w /\
  get_scope w1 i = Some l /\ length l = wreg w /\
  (forall m, nth m l None = slot_of w i m) /\
  (forall k m, slot_of w1 k m = slot_of w k m).
Proof.
  intros W Hi T. unfold touch in T.
  destruct (get_scope w i) as [l0|] eqn:G.
  - inversion T; subst w1 l0. splits; auto.
    + eapply wf_len; eauto.
    + intro m. unfold slot_of. rewrite G. reflexivity.
  - inversion T; subst w1 l. clear T.
    assert (S : forall k m, slot_of (set_scope w i (Some (repeat None (wreg w)))) k m = slot_of w k m).
    { intros k m. unfold slot_of. destruct (Nat.eq_dec k i) as [->|N].
      - rewrite get_set_same by exact Hi. rewrite G. apply nth_repeat_none.
      - rewrite get_set_other by exact N. reflexivity. }
    splits; auto.
    + constructor.
      * intros k l H. destruct (Nat.eq_dec k i) as [->|N].
        -- rewrite get_set_same in H by exact Hi. inversion H. apply repeat_length.
        -- rewrite get_set_other in H by exact N. eapply (wf_len w W); eauto.
      * intros k m p H. rewrite S in H. eapply (wf_ptr w W); eauto.
      * intros k k' m m' p H H'. rewrite S in H, H'. eapply (wf_col w W); eauto.
      * intro p. exact (wf_rng w W p).
    + unfold plen, set_scope; simpl. apply upd_length.
    + apply get_set_same. exact Hi.
    + apply repeat_length.
    + intro m. unfold slot_of. rewrite G. apply nth_repeat_none.
Qed.

(* a world obtained by replacing the list of scope i *)
Lemma slot_set_list w i l k m :
  (i < plen w)%nat ->
  slot_of (mkW (wreg w) (wheap w) (upd (wpool w) i (Some l))) k m =
  if Nat.eqb k i then nth m l None else slot_of w k m.
Proof.
  intro Hi. unfold slot_of, get_scope; simpl.
  destruct (Nat.eqb_spec k i) as [->|N].
  - rewrite nth_upd_same by exact Hi. reflexivity.
  - rewrite nth_upd_other by exact N. reflexivity.
Qed.

(* ---------------- (Scope).load ---------------- *)
Lemma load_spec w i m w1 r :
  wf w -> (i < plen w)%nat -> (m < wreg w)%nat -> load w i m = (w1, r) ->
  r = Ok (slot_of w i m) /\
  wf w1 /\ wreg w1 = wreg w /\ wheap w1 = wheap w /\ plen w1 = plen w /\
  (forall k m', slot_of w1 k m' = slot_of w k m').
Proof.
  intros W Hi Hm L. unfold load in L.
  destruct (touch w i) as [w' l] eqn:T.
  destruct (touch_spec _ _ _ _ W Hi T) as (W1 & R & H & P & G & Len & Nth & S).
  inversion L; subst w1 r. clear L.
  assert ((m <? length l)%nat = true) as -> by (apply Nat.ltb_lt; lia).
  rewrite Nth. splits; auto.
Qed.

(* ---------------- (Scope).store ---------------- *)
Lemma store_spec w i m v w1 r :
  wf w -> (i < plen w)%nat -> (m < wreg w)%nat ->
  (forall p, v = Some p -> (p < length (wheap w))%nat /\
                           forall k m', slot_of w k m' = Some p -> m' = m) ->
  store w i m v = (w1, r) ->
  r = Ok tt /\
  wf w1 /\ wreg w1 = wreg w /\ wheap w1 = wheap w /\ plen w1 = plen w /\
  slot_of w1 i m = v /\
  (forall k m', (k <> i \/ m' <> m) -> slot_of w1 k m' = slot_of w k m').
Proof.
  intros W Hi Hm Hv St. unfold store in St.
  destruct (touch w i) as [w' l] eqn:T.
  destruct (touch_spec _ _ _ _ W Hi T) as (W1 & R & H & P & G & Len & Nth & S).
  assert ((m <? length l)%nat = true) as E by (apply Nat.ltb_lt; lia).
  rewrite E in St. inversion St; subst w1 r. clear St.
  assert (Hi' : (i < plen w')%nat) by lia.
  assert (SS : forall k m', slot_of (set_scope w' i (Some (upd l m v))) k m' =
                            if Nat.eqb k i then nth m' (upd l m v) None else slot_of w k m').
  { intros. unfold set_scope. rewrite slot_set_list by exact Hi'. rewrite S. reflexivity. }
  assert (Same : slot_of (set_scope w' i (Some (upd l m v))) i m = v).
  { rewrite SS, Nat.eqb_refl. apply nth_upd_same. lia. }
  assert (Other : forall k m', (k <> i \/ m' <> m) ->
                  slot_of (set_scope w' i (Some (upd l m v))) k m' = slot_of w k m').
  { intros k m' D. rewrite SS. destruct (Nat.eqb_spec k i) as [->|N]; auto.
    destruct D as [D|D]; [congruence|]. rewrite nth_upd_other by exact D. apply Nth. }
  (* every slot of the new world is either v at (i,m) or an old slot *)
  assert (Cases : forall k m' p, slot_of (set_scope w' i (Some (upd l m v))) k m' = Some p ->
                  (k = i /\ m' = m /\ v = Some p) \/ ((k <> i \/ m' <> m) /\ slot_of w k m' = Some p)).
  { intros k m' p Hs. destruct (Nat.eq_dec k i) as [->|N]; [destruct (Nat.eq_dec m' m) as [->|N']|].
    - left. rewrite Same in Hs. auto.
    - right. split; auto. rewrite Other in Hs by auto. exact Hs.
    - right. split; auto. rewrite Other in Hs by auto. exact Hs. }
  splits; auto.
  - constructor.
    + intros k l0 Hg. destruct (Nat.eq_dec k i) as [->|N].
      * rewrite get_set_same in Hg by exact Hi'. inversion Hg. rewrite upd_length. simpl. lia.
      * rewrite get_set_other in Hg by exact N. simpl. eapply (wf_len w' W1); eauto.
    + intros k m' p Hs. simpl. rewrite H.
      destruct (Cases _ _ _ Hs) as [(_ & _ & E')|(_ & E')].
      * apply (Hv p E').
      * eapply (wf_ptr w W); eauto.
    + intros k k' m1 m2 p H1 H2.
      destruct (Cases _ _ _ H1) as [(_ & -> & E1)|(_ & E1)];
      destruct (Cases _ _ _ H2) as [(_ & -> & E2)|(_ & E2)]; auto.
      * symmetry. eapply (proj2 (Hv p E1)); eauto.
      * eapply (proj2 (Hv p E2)); eauto.
      * eapply (wf_col w W); eauto.
    + intro p. unfold hval; simpl. rewrite H. exact (wf_rng w W p).
  - unfold plen, set_scope in *; simpl. rewrite upd_length. exact P.
Qed.

(* ---------------- (Scope).instance ---------------- *)
Lemma instance_spec w i m w1 r :
  wf w -> (i < plen w)%nat -> (m < wreg w)%nat -> instance w i m = (w1, r) ->
  exists p, r = Ok p /\
  wf w1 /\ shape w w1 /\
  slot_of w1 i m = Some p /\ (p < length (wheap w1))%nat /\
  (slot_of w i m = Some p \/ (slot_of w i m = None /\ (length (wheap w) <= p)%nat)) /\
  (forall k m', (k <> i \/ m' <> m) -> slot_of w1 k m' = slot_of w k m') /\
  (forall q, (q < length (wheap w))%nat -> hval w1 q = hval w q) /\
  (forall k m', peek w1 k m' = peek w k m').
Proof.
  intros W Hi Hm I. unfold instance in I.
  destruct (touch w i) as [w' l] eqn:T.
  destruct (touch_spec _ _ _ _ W Hi T) as (W1 & R & H & P & G & Len & Nth & S).
  assert ((m <? length l)%nat = true) as E by (apply Nat.ltb_lt; lia).
  rewrite E in I.
  destruct (nth m l None) as [p|] eqn:Nm.
  - (* the instance exists *)
    inversion I; subst w1 r. clear I. exists p.
    assert (Sp : slot_of w i m = Some p) by (rewrite <- Nth; exact Nm).
    splits; auto.
    + unfold shape. splits; auto. rewrite H. lia.
    + rewrite S. exact Sp.
    + rewrite H. eapply (wf_ptr w W); eauto.
    + intros. unfold hval. rewrite H. reflexivity.
    + intros. unfold peek, hval. rewrite S, H. reflexivity.
  - (* a new instance, value 0 *)
    inversion I; subst w1 r. clear I.
    set (p := length (wheap w')). exists p.
    assert (Sn : slot_of w i m = None) by (rewrite <- Nth; exact Nm).
    assert (Hi' : (i < plen w')%nat) by lia.
    set (w2 := mkW (wreg w') (wheap w' ++ [0]) (upd (wpool w') i (Some (upd l m (Some p))))).
    assert (SS : forall k m', slot_of w2 k m' =
                 if Nat.eqb k i then nth m' (upd l m (Some p)) None else slot_of w k m').
    { intros k m'. unfold w2, slot_of, get_scope; simpl.
      destruct (Nat.eqb_spec k i) as [->|N].
      - rewrite nth_upd_same by exact Hi'. reflexivity.
      - rewrite nth_upd_other by exact N.
        change (match nth k (wpool w') None with Some l0 => nth m' l0 None | None => None end)
          with (slot_of w' k m'). apply S. }
    assert (Same : slot_of w2 i m = Some p).
    { rewrite SS, Nat.eqb_refl. apply nth_upd_same. lia. }
    assert (Other : forall k m', (k <> i \/ m' <> m) -> slot_of w2 k m' = slot_of w k m').
    { intros k m' D. rewrite SS. destruct (Nat.eqb_spec k i) as [->|N]; auto.
      destruct D as [D|D]; [congruence|]. rewrite nth_upd_other by exact D. apply Nth. }
    assert (Cases : forall k m' q, slot_of w2 k m' = Some q ->
                    (k = i /\ m' = m /\ q = p) \/ ((k <> i \/ m' <> m) /\ slot_of w k m' = Some q)).
    { intros k m' q Hs. destruct (Nat.eq_dec k i) as [->|N]; [destruct (Nat.eq_dec m' m) as [->|N']|].
      - left. rewrite Same in Hs. inversion Hs. auto.
      - right. split; auto. rewrite Other in Hs by auto. exact Hs.
      - right. split; auto. rewrite Other in Hs by auto. exact Hs. }
    assert (Hp : p = length (wheap w)) by (unfold p; rewrite H; reflexivity).
    assert (Hold : forall q, (q < length (wheap w))%nat -> hval w2 q = hval w q).
    { intros q Hq. unfold hval, w2; simpl. rewrite H. apply nth_app_l. exact Hq. }
    splits; auto.
    + constructor.
      * intros k l0 Hg. unfold get_scope, w2 in Hg; simpl in Hg. simpl.
        destruct (Nat.eq_dec k i) as [->|N].
        -- rewrite nth_upd_same in Hg by exact Hi'. inversion Hg. rewrite upd_length. lia.
        -- rewrite nth_upd_other in Hg by exact N. eapply (wf_len w' W1); eauto.
      * intros k m' q Hs. simpl. rewrite app_length; simpl.
        destruct (Cases _ _ _ Hs) as [(_ & _ & ->)|(_ & E')].
        -- unfold p. lia.
        -- rewrite H. pose proof (wf_ptr w W _ _ _ E'). lia.
      * intros k k' m1 m2 q H1 H2.
        destruct (Cases _ _ _ H1) as [(_ & -> & E1)|(_ & E1)];
        destruct (Cases _ _ _ H2) as [(_ & -> & E2)|(_ & E2)]; auto.
        -- subst q. pose proof (wf_ptr w W _ _ _ E2). lia.
        -- subst q. pose proof (wf_ptr w W _ _ _ E1). lia.
        -- eapply (wf_col w W); eauto.
      * intro q. destruct (Nat.lt_ge_cases q (length (wheap w))) as [L|L].
        -- rewrite Hold by exact L. exact (wf_rng w W q).
        -- unfold hval, w2; simpl. rewrite H. rewrite app_nth2 by lia.
           destruct (q - length (wheap w))%nat as [|[|?]]; apply in64_0.
    + unfold shape. splits; auto.
      * unfold plen, w2; simpl. rewrite upd_length. exact P.
      * simpl. rewrite app_length, H. lia.
    + simpl. rewrite app_length; simpl. unfold p. lia.
    + right. split; auto. lia.
    + intros k m'. destruct (Nat.eq_dec k i) as [->|N]; [destruct (Nat.eq_dec m' m) as [->|N']|].
      * rewrite (peek_some _ _ _ _ Same), (peek_none _ _ _ Sn).
        unfold hval, w2; simpl. rewrite Hp, H. rewrite app_nth2 by lia.
        rewrite Nat.sub_diag. reflexivity.
      * unfold peek. rewrite Other by auto.
        destruct (slot_of w i m') as [q|] eqn:Sq; auto.
        apply Hold. eapply (wf_ptr w W); eauto.
      * unfold peek. rewrite Other by auto.
        destruct (slot_of w k m') as [q|] eqn:Sq; auto.
        apply Hold. eapply (wf_ptr w W); eauto.
Qed.

(* ---------------- writing one heap cell ---------------- *)
Lemma poke_spec w p v :
  wf w -> (p < length (wheap w))%nat -> in64 v ->
  let w' := set_heap w (upd (wheap w) p v) in
  wf w' /\ shape w w' /\
  (forall k m, slot_of w' k m = slot_of w k m) /\
  (forall q, hval w' q = if Nat.eqb q p then v else hval w q) /\
  (forall k m, peek w' k m = match slot_of w k m with
                             | Some q => if Nat.eqb q p then v else hval w q
                             | None => 0 end).
Proof.
  intros W Hp Iv w'.
  assert (S : forall k m, slot_of w' k m = slot_of w k m) by reflexivity.
  assert (Hv : forall q, hval w' q = if Nat.eqb q p then v else hval w q).
  { intro q. unfold hval, w', set_heap; simpl. destruct (Nat.eqb_spec q p) as [->|N].
    - apply nth_upd_same. exact Hp.
    - apply nth_upd_other. exact N. }
  splits; auto.
  - constructor.
    + intros k l H. exact (wf_len w W k l H).
    + intros k m q H. unfold w'; simpl. rewrite upd_length. exact (wf_ptr w W k m q H).
    + intros k k' m m' q H H'. exact (wf_col w W k k' m m' q H H').
    + intro q. rewrite Hv. destruct (Nat.eqb q p); [exact Iv|exact (wf_rng w W q)].
  - unfold shape, plen, w'; simpl. rewrite upd_length. splits; auto.
  - intros k m. unfold peek. rewrite S. destruct (slot_of w k m); auto.
Qed.

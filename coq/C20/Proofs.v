(* C20 — the theorems of the property, on the faithful model. *)
From Coq Require Import List ZArith Lia Bool Arith.
Import ListNotations.
Require Import BS.C20.Model BS.C20.Base BS.C20.Ops BS.C20.Total BS.C20.Corr.
Local Open Scope Z_scope.

(* ---------------- Merge adds ---------------- *)
Theorem merge_adds w s u w1 r m :
  wf w -> (s < plen w)%nat -> (u < plen w)%nat -> (m < wreg w)%nat ->
  merge w s u = (w1, r) ->
  r = Ok tt /\ wf w1 /\ peek w1 s m = wrap (peek w s m + peek w u m).
Proof.
  intros W Hs Hu Hm Mg.
  destruct (merge_spec _ _ _ _ _ W Hs Hu Mg) as (-> & W1 & _ & P & _). auto.
Qed.

(* a scope sharing no instance with the target keeps its values *)
Theorem merge_scoped w s u w1 r k m :
  wf w -> (s < plen w)%nat -> (u < plen w)%nat -> merge w s u = (w1, r) ->
  k <> s -> ~ shares w s k m -> peek w1 k m = peek w k m.
Proof.
  intros W Hs Hu Mg N NS.
  destruct (merge_spec _ _ _ _ _ W Hs Hu Mg) as (_ & _ & _ & _ & _ & F & _). auto.
Qed.

Lemma shares_sym w a b m : shares w a b m -> shares w b a m.
Proof. intros (p & A & B). exists p. auto. Qed.

(* merging b then c into a, or c then b, gives the same values *)
Theorem merge_comm_values w a b c w1 w2 w1' w2' r1 r2 r1' r2' :
  wf w -> (a < plen w)%nat -> (b < plen w)%nat -> (c < plen w)%nat ->
  a <> b -> a <> c ->
  (forall m, ~ shares w a b m) -> (forall m, ~ shares w a c m) ->
  merge w a b = (w1, r1) -> merge w1 a c = (w2, r2) ->
  merge w a c = (w1', r1') -> merge w1' a b = (w2', r2') ->
  forall m, (m < wreg w)%nat -> peek w2 a m = peek w2' a m.
Proof.
  intros W Ha Hb Hc Nab Nac Sab Sac M1 M2 M1' M2' m Hm.
  destruct (merge_spec _ _ _ _ _ W Ha Hb M1) as (_ & W1 & Sh1 & P1 & _ & F1 & _).
  destruct (merge_spec _ _ _ _ _ W1 (shape_plen _ _ _ Sh1 Ha) (shape_plen _ _ _ Sh1 Hc) M2)
    as (_ & _ & _ & P2 & _).
  destruct (merge_spec _ _ _ _ _ W Ha Hc M1') as (_ & W1' & Sh1' & P1' & _ & F1' & _).
  destruct (merge_spec _ _ _ _ _ W1' (shape_plen _ _ _ Sh1' Ha) (shape_plen _ _ _ Sh1' Hb) M2')
    as (_ & _ & _ & P2' & _).
  rewrite P2 by (eapply shape_reg; eauto). rewrite P2' by (eapply shape_reg; eauto).
  rewrite (P1 m Hm), (P1' m Hm).
  rewrite (F1 c m) by auto. rewrite (F1' b m) by auto.
  rewrite !wrap_add_l. f_equal. lia.
Qed.

(* (a <- b) <- c  reports the same as  a <- (b <- c) *)
Theorem merge_assoc_values w a b c w1 w2 w1' w2' r1 r2 r1' r2' :
  wf w -> (a < plen w)%nat -> (b < plen w)%nat -> (c < plen w)%nat ->
  a <> b -> a <> c ->
  (forall m, ~ shares w a b m) -> (forall m, ~ shares w a c m) ->
  merge w a b = (w1, r1) -> merge w1 a c = (w2, r2) ->
  merge w b c = (w1', r1') -> merge w1' a b = (w2', r2') ->
  forall m, (m < wreg w)%nat -> peek w2 a m = peek w2' a m.
Proof.
  intros W Ha Hb Hc Nab Nac Sab Sac M1 M2 M1' M2' m Hm.
  destruct (merge_spec _ _ _ _ _ W Ha Hb M1) as (_ & W1 & Sh1 & P1 & _ & F1 & _).
  destruct (merge_spec _ _ _ _ _ W1 (shape_plen _ _ _ Sh1 Ha) (shape_plen _ _ _ Sh1 Hc) M2)
    as (_ & _ & _ & P2 & _).
  destruct (merge_spec _ _ _ _ _ W Hb Hc M1') as (_ & W1' & Sh1' & P1' & _ & F1' & _).
  destruct (merge_spec _ _ _ _ _ W1' (shape_plen _ _ _ Sh1' Ha) (shape_plen _ _ _ Sh1' Hb) M2')
    as (_ & _ & _ & P2' & _).
  rewrite P2 by (eapply shape_reg; eauto). rewrite P2' by (eapply shape_reg; eauto).
  rewrite (P1 m Hm), (P1' m Hm).
  rewrite (F1 c m) by auto.
  rewrite (F1' a m) by (auto; intro S; apply (Sab m); apply shares_sym; exact S).
  rewrite wrap_add_l, wrap_add_r. f_equal. lia.
Qed.

(* the laws of the value arithmetic itself *)
Theorem wrap_add_comm a b : wrap (a + b) = wrap (b + a).
Proof. f_equal. lia. Qed.
Theorem wrap_add_assoc a b c : wrap (wrap (a + b) + c) = wrap (a + wrap (b + c)).
Proof. rewrite wrap_add_l, wrap_add_r. f_equal. lia. Qed.

(* ---------------- Reset reports the other scope's values ---------------- *)
Theorem reset_reports w s u w1 r :
  wf w -> (s < plen w)%nat -> (u < plen w)%nat -> reset w s u = (w1, r) ->
  r = Ok tt /\ wf w1 /\
  (forall m, peek w1 s m = peek w u m) /\
  (forall k m, k <> s -> peek w1 k m = peek w k m).
Proof.
  intros W Hs Hu R.
  destruct (reset_spec _ _ _ _ _ W Hs Hu R) as (-> & W1 & _ & H1 & S1 & O1).
  splits; auto.
  - intro m. apply peek_alias; auto.
  - intros k m N. apply peek_ext; auto.
Qed.

Theorem reset_nil_zero w s :
  wf w -> (s < plen w)%nat ->
  wf (reset_nil w s) /\ (forall m, peek (reset_nil w s) s m = 0) /\
  (forall k m, k <> s -> peek (reset_nil w s) k m = peek w k m).
Proof.
  intros W Hs. destruct (reset_nil_spec w s W Hs) as (W1 & _ & H1 & S1 & O1).
  splits; auto.
  - intro m. apply peek_none. apply S1.
  - intros k m N. apply peek_ext; auto.
Qed.

(* Reset(u) shares the instances: the aliasing the Go code has *)
Theorem reset_shares w s u w1 r m p :
  wf w -> (s < plen w)%nat -> (u < plen w)%nat -> reset w s u = (w1, r) ->
  s <> u -> slot_of w u m = Some p -> shares w1 s u m.
Proof.
  intros W Hs Hu R N Sp.
  destruct (reset_spec _ _ _ _ _ W Hs Hu R) as (_ & _ & _ & _ & S1 & O1).
  exists p. split; [rewrite S1; exact Sp|rewrite O1 by auto; exact Sp].
Qed.

(* ---------------- Incr / Value ---------------- *)
Theorem incr_adds w s c n w1 r :
  wf w -> (s < plen w)%nat -> (c < wreg w)%nat -> incr w s c n = (w1, r) ->
  r = Ok tt /\ wf w1 /\ peek w1 s c = wrap (peek w s c + n) /\
  (forall k m, m <> c -> peek w1 k m = peek w k m) /\
  (forall k, k <> s -> ~ shares w s k c -> peek w1 k c = peek w k c).
Proof.
  intros W Hs Hc I.
  destruct (incr_spec _ _ _ _ _ _ W Hs Hc I) as (-> & W1 & _ & P & Fm & Fs & _). auto.
Qed.

Theorem value_reads w s c w1 r :
  wf w -> (s < plen w)%nat -> (c < wreg w)%nat -> value w s c = (w1, r) ->
  r = Ok (peek w s c) /\ wf w1 /\ (forall k m, peek w1 k m = peek w k m).
Proof.
  intros W Hs Hc V.
  destruct (value_spec _ _ _ _ _ W Hs Hc V) as (-> & W1 & _ & P & _). auto.
Qed.

(* ---------------- gob transport ---------------- *)
Theorem gob_roundtrip w s t w1 r :
  wf w -> (s < plen w)%nat -> (t < plen w)%nat -> encode w s = (w1, r) ->
  exists pl w2, r = Ok pl /\ length pl = wreg w /\ decode w1 t pl = (w2, DecOk) /\ wf w2 /\
  (forall m, (m < wreg w)%nat -> peek w2 t m = peek w s m) /\
  (forall k m, k <> t -> peek w2 k m = peek w k m).
Proof.
  intros W Hs Ht E.
  destruct (encode_spec _ _ _ _ W Hs E) as (pl & -> & Lpl & Ppl & Rpl & W1 & Sh1 & H1 & S1).
  destruct (decode w1 t pl) as [w2 r2] eqn:D.
  assert (L1 : length pl = wreg w1) by (destruct Sh1 as (R' & _); lia).
  destruct (decode_spec _ _ _ _ _ W1 (shape_plen _ _ _ Sh1 Ht) L1 Rpl D) as (-> & W2 & _ & Pd & Od & _).
  exists pl, w2. splits; auto.
  - intros m Hm. rewrite Pd. apply Ppl. exact Hm.
  - intros k m N. rewrite (proj2 (Od k m N)). apply peek_ext; auto.
Qed.

(* the payload has one entry per metric of the ENCODING registry ... *)
Theorem gob_payload_length w s w1 pl :
  wf w -> (s < plen w)%nat -> encode w s = (w1, Ok pl) -> length pl = wreg w.
Proof.
  intros W Hs E. destruct (encode_spec _ _ _ _ W Hs E) as (pl' & Eq & L & _). inversion Eq; subst. exact L.
Qed.

(* ... and decoding fails, leaving the scope untouched, exactly when the
   DECODING registry has a different size *)
Theorem gob_decode_fails_iff w t pl w1 r :
  wf w -> (t < plen w)%nat -> (forall m z, nth m pl None = Some z -> in64 z) ->
  decode w t pl = (w1, r) ->
  (r = DecIncompatible <-> length pl <> wreg w) /\ (r = DecIncompatible -> w1 = w) /\ r <> DecPanic.
Proof.
  intros W Ht Rng D. destruct (Nat.eq_dec (length pl) (wreg w)) as [E|N].
  - destruct (decode_spec _ _ _ _ _ W Ht E Rng D) as (-> & _). splits.
    + split; [discriminate|intro; contradiction].
    + discriminate.
    + discriminate.
  - rewrite (decode_incompatible w t pl N) in D. inversion D; subst. splits; auto.
    + split; auto.
    + discriminate.
Qed.

(* ---------------- no panic when every counter is registered first ---------------- *)
Definition pl_ok (pl : list (option Z)) : Prop := forall m z, nth m pl None = Some z -> in64 z.

Definition op_ok (w : world) (o : op) : Prop :=
  match o with
  | ORegister => False
  | OIncr s c _ | OValue s c => (s < plen w)%nat /\ (c < wreg w)%nat
  | OMerge s u | OReset s u => (s < plen w)%nat /\ (u < plen w)%nat
  | OResetNil s | OEncode s => (s < plen w)%nat
  | ODecode pl s => (s < plen w)%nat /\ pl_ok pl
  end.

Theorem step_wf w o w1 r :
  wf w -> op_ok w o -> step w o = (w1, r) -> wf w1 /\ shape w w1 /\ r <> RPanic.
Proof.
  intros W Ok St. destruct o; simpl in Ok, St; try contradiction.
  - destruct Ok as (Hs & Hc). destruct (incr w s c n) as [wa ra] eqn:I.
    destruct (incr_spec _ _ _ _ _ _ W Hs Hc I) as (-> & Wa & Sha & _).
    inversion St; subst. splits; auto. discriminate.
  - destruct Ok as (Hs & Hc). destruct (value w s c) as [wa ra] eqn:V.
    destruct (value_spec _ _ _ _ _ W Hs Hc V) as (-> & Wa & Sha & _).
    inversion St; subst. splits; auto. discriminate.
  - destruct Ok as (Hs & Hu). destruct (merge w s u) as [wa ra] eqn:M.
    destruct (merge_spec _ _ _ _ _ W Hs Hu M) as (-> & Wa & Sha & _).
    inversion St; subst. splits; auto. discriminate.
  - destruct Ok as (Hs & Hu). destruct (reset w s u) as [wa ra] eqn:R.
    destruct (reset_spec _ _ _ _ _ W Hs Hu R) as (-> & Wa & Sha & _).
    inversion St; subst. splits; auto. discriminate.
  - destruct (reset_nil_spec w s W Ok) as (Wa & Sha & _).
    inversion St; subst. splits; auto. discriminate.
  - destruct (encode w s) as [wa ra] eqn:E.
    destruct (encode_spec _ _ _ _ W Ok E) as (pl & -> & _ & _ & _ & Wa & Sha & _).
    inversion St; subst. splits; auto. discriminate.
  - destruct Ok as (Hs & Hp). destruct (decode w s pl) as [wa ra] eqn:D.
    destruct (Nat.eq_dec (length pl) (wreg w)) as [E|N].
    + destruct (decode_spec _ _ _ _ _ W Hs E Hp D) as (-> & Wa & Sha & _).
      inversion St; subst. splits; auto. discriminate.
    + rewrite (decode_incompatible w s pl N) in D. inversion D; subst.
      inversion St; subst. splits; auto using shape_refl. discriminate.
Qed.

Fixpoint run (w : world) (os : list op) : world * list out :=
  match os with
  | [] => (w, [])
  | o :: r => let '(w1, x) := step w o in let '(w2, xs) := run w1 r in (w2, x :: xs)
  end.

Fixpoint ops_ok (reg ns : nat) (os : list op) : Prop :=
  match os with
  | [] => True
  | o :: r => op_ok (mkW reg [] (repeat None ns)) o /\ ops_ok reg ns r
  end.

Lemma op_ok_shape w w' o : wreg w' = wreg w -> plen w' = plen w -> op_ok w o -> op_ok w' o.
Proof. intros R P. destruct o; simpl; rewrite ?R, ?P; auto. Qed.

(* any sequence of operations on counters that were all registered before the
   scopes were created runs without a panic and keeps the world well formed *)
Theorem run_never_panics reg ns os :
  ops_ok reg ns os ->
  wf (fst (run (init reg ns) os)) /\ ~ In RPanic (snd (run (init reg ns) os)).
Proof.
  assert (G : forall os w, wf w -> wreg w = reg -> plen w = ns -> ops_ok reg ns os ->
              wf (fst (run w os)) /\ ~ In RPanic (snd (run w os))).
  { induction os0 as [|o os0 IH]; intros w W R P Ok; simpl.
    - split; auto.
    - destruct Ok as (Ok1 & Ok2).
      assert (Ok1' : op_ok w o).
      { eapply op_ok_shape; [| |exact Ok1]; simpl; auto.
        unfold plen; simpl. rewrite repeat_length. auto. }
      destruct (step w o) as [w1 x] eqn:St.
      destruct (step_wf _ _ _ _ W Ok1' St) as (W1 & (R1 & P1 & _) & Np).
      destruct (IH w1 W1 ltac:(congruence) ltac:(congruence) Ok2) as (A & B).
      destruct (run w1 os0) as [w2 xs]. simpl in *. split; auto.
      intros [E|E]; auto. }
  intro Ok. apply G; auto using wf_init.
  unfold plen, init; simpl. apply repeat_length.
Qed.

(* ---------------- end-to-end totals ---------------- *)
Theorem result_total exec_is_bigmachine reg tasks :
  (forall l, In l tasks -> counters_ok reg l) ->
  exists w, e2e_model exec_is_bigmachine reg tasks = (w, Ok tt) /\
  forall m, (m < reg)%nat -> peek w 0 m = wrap (sum_incs m (concat tasks)).
Proof.
  intro Ck. unfold e2e_model. destruct exec_is_bigmachine.
  - destruct (result_total_bigmachine reg tasks Ck) as (w & E & _ & P). eauto.
  - destruct (result_total_local reg tasks Ck) as (w & E & _ & P). eauto.
Qed.

(* ---------------- the dump read by the checker is the pure observation ---------------- *)
Definition cellf (w : world) (sl : option nat) : option (nat * Z) :=
  match sl with None => None | Some p => Some (p, hval w p) end.

Lemma nth_map_default {A B} (f : A -> B) l i da db :
  f da = db -> nth i (map f l) db = f (nth i l da).
Proof. intros <-. apply map_nth. Qed.

Lemma nth_dump w i :
  nth i (dump w) None = option_map (map (cellf w)) (get_scope w i).
Proof.
  unfold dump, get_scope.
  rewrite (nth_map_default _ (wpool w) i None None) by reflexivity.
  destruct (nth i (wpool w) None); reflexivity.
Qed.

Lemma dval_dump w i m : dval (dump w) i m = peek w i m.
Proof.
  unfold dval, peek, slot_of. rewrite nth_dump. destruct (get_scope w i) as [l|]; simpl; auto.
  rewrite (nth_map_default (cellf w) l m None None) by reflexivity.
  destruct (nth m l None); reflexivity.
Qed.

Lemma did_dump w i m : did (dump w) i m = slot_of w i m.
Proof.
  unfold did, slot_of. rewrite nth_dump. destruct (get_scope w i) as [l|]; simpl; auto.
  rewrite (nth_map_default (cellf w) l m None None) by reflexivity.
  destruct (nth m l None); reflexivity.
Qed.

Lemma adequate_dump w i : wf w -> adequate (wreg w) (dump w) i = true.
Proof.
  intro W. unfold adequate. rewrite nth_dump. destruct (get_scope w i) as [l|] eqn:G; simpl; auto.
  rewrite map_length. apply Nat.leb_le. rewrite (wf_len w W i l G). lia.
Qed.

Lemma dump_length w : length (dump w) = plen w.
Proof. unfold dump, plen. apply map_length. Qed.

(* ---------------- the model satisfies the property-level checker ---------------- *)
Lemma all_metrics_true reg f : (forall m, (m < reg)%nat -> f m = true) -> all_metrics reg f = true.
Proof.
  intro H. unfold all_metrics. apply forallb_forall. intros m Hin. apply in_seq in Hin. apply H. lia.
Qed.

Lemma all_cells_true reg ns f :
  (forall i m, (i < ns)%nat -> (m < reg)%nat -> f i m = true) -> all_cells reg ns f = true.
Proof.
  intro H. unfold all_cells. apply forallb_forall. intros i Hi. apply in_seq in Hi.
  apply forallb_forall. intros m Hm. apply in_seq in Hm. apply H; lia.
Qed.

Theorem model_step_ok w o w1 r :
  wf w -> op_ok w o -> step w o = (w1, r) ->
  step_ok (wreg w) (dump w) (mkObs o r (dump w1)) = true.
Proof.
  intros W Ok St. unfold step_ok. cbn [oop oout odump].
  destruct o; simpl in Ok, St; try contradiction.
  - (* Incr *)
    destruct Ok as (Hs & Hc). destruct (incr w s c n) as [wa ra] eqn:I.
    destruct (incr_spec _ _ _ _ _ _ W Hs Hc I) as (-> & Wa & Sha & P & Fm & Fs & _).
    inversion St; subst w1 r. rewrite adequate_dump by exact W. simpl.
    rewrite !dval_dump, P, Z.eqb_refl. simpl.
    apply all_cells_true. intros i m Hi Hm. rewrite !did_dump, !dval_dump.
    destruct (Nat.eqb_spec i s) as [->|Ni]; destruct (Nat.eqb_spec m c) as [->|Nm]; simpl; auto.
    + rewrite Fm by exact Nm. rewrite Z.eqb_refl. apply orb_true_r.
    + destruct (slot_of w s c) as [p|] eqn:Sp; destruct (slot_of w i c) as [q|] eqn:Sq;
        try (rewrite Fs; [rewrite Z.eqb_refl; apply orb_true_r|exact Ni|];
             intros (p' & A & B); congruence).
      destruct (Nat.eqb_spec p q) as [->|Npq]; auto. simpl.
      rewrite Fs; [apply Z.eqb_refl|exact Ni|]. intros (p' & A & B). congruence.
    + rewrite Fm by exact Nm. rewrite Z.eqb_refl. apply orb_true_r.
  - (* Value *)
    destruct Ok as (Hs & Hc). destruct (value w s c) as [wa ra] eqn:V.
    destruct (value_spec _ _ _ _ _ W Hs Hc V) as (-> & Wa & Sha & P & _).
    inversion St; subst w1 r. rewrite adequate_dump by exact W.
    rewrite dval_dump, Z.eqb_refl. simpl.
    apply all_cells_true. intros i m _ _. rewrite !dval_dump, P. apply Z.eqb_refl.
  - (* Merge *)
    destruct Ok as (Hs & Hu). destruct (merge w s u) as [wa ra] eqn:M.
    destruct (merge_spec _ _ _ _ _ W Hs Hu M) as (-> & Wa & Sha & P & _).
    inversion St; subst w1 r. rewrite !adequate_dump by exact W. simpl.
    apply all_metrics_true. intros m Hm. rewrite !dval_dump, (P m Hm). apply Z.eqb_refl.
  - (* Reset *)
    destruct Ok as (Hs & Hu). destruct (reset w s u) as [wa ra] eqn:R.
    destruct (reset_reports _ _ _ _ _ W Hs Hu R) as (-> & Wa & P & _).
    inversion St; subst w1 r. rewrite !adequate_dump by exact W. simpl.
    apply all_metrics_true. intros m Hm. rewrite !dval_dump, P. apply Z.eqb_refl.
  - (* Reset(nil) *)
    destruct (reset_nil_zero w s W Ok) as (_ & P & _).
    inversion St; subst w1 r. simpl.
    apply all_metrics_true. intros m Hm. rewrite dval_dump, P. reflexivity.
  - (* GobEncode *)
    destruct (encode w s) as [wa ra] eqn:E.
    destruct (encode_spec _ _ _ _ W Ok E) as (pl & -> & L & P & _).
    inversion St; subst w1 r. rewrite adequate_dump by exact W.
    rewrite L, Nat.eqb_refl. simpl.
    apply all_metrics_true. intros m Hm. rewrite dval_dump, (P m Hm). apply Z.eqb_refl.
  - (* GobDecode *)
    destruct Ok as (Hs & Hp). destruct (decode w s pl) as [wa ra] eqn:D.
    destruct (Nat.eqb_spec (length pl) (wreg w)) as [E|N]; simpl; auto.
    destruct (decode_spec _ _ _ _ _ W Hs E Hp D) as (-> & Wa & Sha & P & _).
    inversion St; subst w1 r. rewrite adequate_dump by exact W. simpl.
    apply all_metrics_true. intros m Hm. rewrite dval_dump, P. apply Z.eqb_refl.
Qed.

(* what the model would write into a case file *)
Fixpoint observe (w : world) (os : list op) : list obs :=
  match os with
  | [] => []
  | o :: r => let '(w1, x) := step w o in mkObs o x (dump w1) :: observe w1 r
  end.

Lemma dump_init reg ns : dump (init reg ns) = repeat None ns.
Proof.
  unfold dump, init; cbn [wpool].
  induction ns as [|ns IH]; simpl; [reflexivity|]. f_equal. exact IH.
Qed.

(* the faithful model never produces a violating case, and agrees with itself *)
Theorem model_case_ok reg ns os :
  ops_ok reg ns os -> forall blind, case_ok (COps blind reg ns (observe (init reg ns) os)) = true.
Proof.
  intros Ok blind. simpl. rewrite <- dump_init with (reg := reg).
  assert (G : forall os w, wf w -> wreg w = reg -> plen w = ns -> ops_ok reg ns os ->
              run_ok (wreg w) (dump w) (observe w os) = true).
  { induction os0 as [|o os0 IH]; intros w W R P Ok'; simpl; auto.
    destruct Ok' as (Ok1 & Ok2).
    assert (Ok1' : op_ok w o).
    { eapply op_ok_shape; [| |exact Ok1]; simpl; auto.
      unfold plen; simpl. rewrite repeat_length. auto. }
    destruct (step w o) as [w1 x] eqn:St. simpl.
    rewrite (model_step_ok _ _ _ _ W Ok1' St). simpl.
    destruct (step_wf _ _ _ _ W Ok1' St) as (W1 & (R1 & P1 & _) & _).
    assert (NR : next_reg (wreg w) o = wreg w1).
    { destruct o; simpl in *; try congruence. contradiction. }
    rewrite NR. apply IH; auto; congruence. }
  replace reg with (wreg (init reg ns)) at 1 by reflexivity.
  apply G; auto using wf_init.
  unfold plen, init; simpl. apply repeat_length.
Qed.

Theorem model_e2e_ok bigm reg tasks w :
  (forall l, In l tasks -> counters_ok reg l) ->
  e2e_model bigm reg tasks = (w, Ok tt) ->
  e2e_ok reg (concat tasks) (map (peek w 0) (seq 0 reg)) = true.
Proof.
  intros Ck E. destruct (result_total bigm reg tasks Ck) as (w' & E' & P).
  rewrite E in E'. inversion E'; subst w'.
  unfold e2e_ok. rewrite map_length, seq_length, Nat.eqb_refl. simpl.
  apply all_metrics_true. intros m Hm.
  rewrite (nth_map_seq (peek w 0) reg m 0 Hm). rewrite (P m Hm). apply Z.eqb_refl.
Qed.

(* ================= non-vacuity and the quirks, on concrete worlds ================= *)

Definition run_outs (reg ns : nat) (os : list op) : list out := snd (run (init reg ns) os).

(* the hypotheses of the theorems are satisfiable: two counters, two scopes *)
Example ex_merge_adds :
  run_outs 3 2 [OIncr 0 1 5; OIncr 1 1 7; OIncr 1 2 1; OMerge 0 1; OValue 0 1; OValue 0 2; OValue 1 1]
  = [RUnit; RUnit; RUnit; RUnit; RNum 12; RNum 1; RNum 7].
Proof. vm_compute. reflexivity. Qed.

(* int64 wrap-around *)
Example ex_wrap :
  run_outs 2 1 [OIncr 0 1 9223372036854775807; OIncr 0 1 1; OValue 0 1]
  = [RUnit; RUnit; RNum (-9223372036854775808)].
Proof. vm_compute. reflexivity. Qed.

(* Reset(u) shares the instances of u: a later Incr on s is visible in u ... *)
Example ex_reset_aliases :
  run_outs 2 2 [OIncr 1 1 3; OReset 0 1; OIncr 0 1 4; OValue 1 1] = [RUnit; RUnit; RUnit; RNum 7].
Proof. vm_compute. reflexivity. Qed.

(* ... but only where u had an instance; Value creates one *)
Example ex_value_creates_instance :
  run_outs 2 2 [OReset 0 1; OIncr 0 1 4; OValue 1 1] = [RUnit; RUnit; RNum 0] /\
  run_outs 2 2 [OValue 1 1; OReset 0 1; OIncr 0 1 4; OValue 1 1] = [RNum 0; RUnit; RUnit; RNum 4].
Proof. split; vm_compute; reflexivity. Qed.

(* gob: values survive, nil entries stay nil, and a different registry is refused *)
Example ex_gob :
  run_outs 3 2 [OIncr 0 2 (-9); OEncode 0; ODecode [None; None; Some (-9)] 1; OValue 1 2;
                ODecode [None; Some 1] 1; ORegister; ODecode [None; None; Some (-9)] 1]
  = [RUnit; RPayload [None; None; Some (-9)]; RUnit; RNum (-9); RIncompatible; RUnit; RIncompatible].
Proof. vm_compute. reflexivity. Qed.

(* a counter registered after a scope's list exists is out of the list's range:
   index-out-of-range panic in Incr, Merge (both directions) and GobEncode;
   Reset(nil) heals the scope (excluded from the theorems by [op_ok]) *)
Example ex_late_registration_panics :
  run_outs 2 2 [OIncr 0 1 1; ORegister; OIncr 0 2 1; OMerge 1 0; OIncr 1 2 4; OMerge 0 1; OEncode 0;
                OResetNil 0; OIncr 0 2 1; OValue 0 2]
  = [RUnit; RUnit; RPanic; RPanic; RUnit; RPanic; RPanic; RUnit; RUnit; RNum 1].
Proof. vm_compute. reflexivity. Qed.

(* end to end: three tasks, each counted once, on both executors *)
Example ex_total :
  let tasks := [[(1%nat, 5); (2%nat, 1)]; [(1%nat, 7); (2%nat, 1)]; [(1%nat, 9223372036854775807)]] in
  (let '(w, r) := run_local 3 tasks in (r, peek w 0 1, peek w 0 2)) = (Ok tt, -9223372036854775797, 2) /\
  (let '(w, r) := run_bigmachine 3 tasks in (r, peek w 0 1, peek w 0 2)) = (Ok tt, -9223372036854775797, 2).
Proof. split; vm_compute; reflexivity. Qed.

(* the checker is not vacuous: it rejects a Merge that overwrites instead of adding *)
Example ex_checker_rejects_store_instead_of_merge :
  case_ok (COps false 2 2 [mkObs (OIncr 0 1 5) RUnit [Some [None; Some (0%nat, 5)]; None];
                     mkObs (OIncr 1 1 7) RUnit [Some [None; Some (0%nat, 5)]; Some [None; Some (1%nat, 7)]];
                     mkObs (OMerge 0 1) RUnit [Some [None; Some (0%nat, 7)]; Some [None; Some (1%nat, 7)]]])
  = false.
Proof. vm_compute. reflexivity. Qed.

Example ex_checker_rejects_lost_task :
  case_ok (CE2E false 2 [[(1%nat, 5)]; [(1%nat, 7)]] [(1%nat, 5); (1%nat, 7)] [0; 5]) = false.
Proof. vm_compute. reflexivity. Qed.

(* ================= histories with re-runs ================= *)
Require Import BS.Gen.C20_params.

(* Whatever the switch generated from worker.Run says: on the local executor always, on
   bigmachine when the worker resets its scope or no task runs twice, the result reports
   every task's LAST run once - recomputation does not change the total. *)
Theorem hist_total bigm reg tasks :
  (bigm = false \/ worker_run_resets_scope = true \/
   forall runs, In runs tasks -> (length runs <= 1)%nat) ->
  (forall runs, In runs tasks -> runs_ok reg runs) ->
  exists w, hist_model bigm reg tasks = (w, Ok tt) /\
  forall m, (m < reg)%nat -> peek w 0 m = wrap (sum_incs m (last_runs tasks)).
Proof.
  intros Cond Ck. unfold hist_model. destruct bigm.
  - destruct Cond as [C|C]; [discriminate|].
    destruct (result_total_bigmachine_runs worker_run_resets_scope reg tasks C Ck) as (w & E & _ & P). eauto.
  - destruct (result_total_local_runs reg tasks Ck) as (w & E & _ & P). eauto.
Qed.

(* the switch as generated now: the worker does not reset; see bigmachine_recompute_overcounts_refuted *)
Example ex_hist_local_vs_bigmachine :
  let tasks := [[[(1%nat, 21)]; [(1%nat, 21)]]; [[(1%nat, 4)]]] in
  (let '(w, r) := run_local_runs 2 tasks in (r, peek w 0 1)) = (Ok tt, 25) /\
  (let '(w, r) := run_bigmachine_runs true 2 tasks in (r, peek w 0 1)) = (Ok tt, 25) /\
  (let '(w, r) := run_bigmachine_runs false 2 tasks in (r, peek w 0 1)) = (Ok tt, 46).
Proof. repeat split; vm_compute; reflexivity. Qed.

Example ex_checker_rejects_double_count :
  case_ok (CHist false 2 [[[(1%nat, 21)]; [(1%nat, 21)]]] [(1%nat, 21)] [0; 42]) = false /\
  case_ok (CHist false 2 [[[(1%nat, 21)]; [(1%nat, 21)]]] [(1%nat, 21)] [0; 21]) = true.
Proof. split; vm_compute; reflexivity. Qed.

(* ================= resubmission to the worker that still holds the task ================= *)
(* the model the correspondence uses, with the switches goparams reads from worker.Run *)
Theorem resub_total reg tasks :
  worker_run_reply_filled_on_every_path = true ->
  (forall ln, In ln tasks -> counters_ok reg (fst ln)) ->
  exists w, resub_model reg tasks = (w, Ok tt) /\
  forall m, (m < reg)%nat -> peek w 0 m = wrap (sum_incs m (concat (map fst tasks))).
Proof.
  intros F Ck. unfold resub_model. rewrite F.
  destruct (result_total_after_resubmission_to_same_worker worker_run_resets_scope reg tasks Ck)
    as (w & E & _ & P). eauto.
Qed.

Example ex_resubmission :
  let tasks := [([(1%nat, 21)], 2%nat); ([(1%nat, 4)], 0%nat)] in
  (let '(w, r) := run_bigmachine_resub true true 2 tasks in (r, peek w 0 1)) = (Ok tt, 25) /\
  (let '(w, r) := run_bigmachine_resub true false 2 tasks in (r, peek w 0 1)) = (Ok tt, 4).
Proof. split; vm_compute; reflexivity. Qed.

Example ex_checker_rejects_wiped_task :
  case_ok (CResub 2 [([(1%nat, 21)], 1%nat)] [(1%nat, 21)] [0; 0]) = false /\
  case_ok (CResub 2 [([(1%nat, 21)], 1%nat)] [(1%nat, 21)] [0; 21]) = true.
Proof. split; vm_compute; reflexivity. Qed.

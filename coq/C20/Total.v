(* C20 — the executors' use of scopes: a failure-free run reports, for every
   registered counter, the sum of the increments of its tasks, each task once. *)
From Coq Require Import List ZArith Lia Bool Arith.
Import ListNotations.
Require Import BS.C20.Model BS.C20.Base BS.C20.Ops.
Local Open Scope Z_scope.

Lemma peek_ext w w' k m :
  slot_of w' k m = slot_of w k m -> wheap w' = wheap w -> peek w' k m = peek w k m.
Proof. intros S H. unfold peek, hval. rewrite S, H. reflexivity. Qed.

Lemma peek_alias w w' k k' m :
  slot_of w' k m = slot_of w k' m -> wheap w' = wheap w -> peek w' k m = peek w k' m.
Proof. intros S H. unfold peek, hval. rewrite S, H. reflexivity. Qed.

Lemma private_of_none w i : (forall m, slot_of w i m = None) -> private w i.
Proof. intros N k m _ (p & E & _). rewrite N in E. discriminate. Qed.

Definition counters_ok (reg : nat) (l : list (nat * Z)) : Prop :=
  forall c n, In (c, n) l -> (c < reg)%nat.

(* ---------------- the increments of one task ---------------- *)
Lemma do_incs_spec i : forall l w w1 r,
  wf w -> (i < plen w)%nat -> private w i -> counters_ok (wreg w) l ->
  do_incs w i l = (w1, r) ->
  r = Ok tt /\ wf w1 /\ shape w w1 /\ private w1 i /\
  (forall m, peek w1 i m = wrap (peek w i m + sum_incs m l)) /\
  (forall k m, k <> i -> slot_of w1 k m = slot_of w k m /\ peek w1 k m = peek w k m).
Proof.
  induction l as [|[c n] l IH]; intros w w1 r W Hi Pr Ck D; simpl in D.
  - inversion D; subst. splits; auto using shape_refl.
    intro m. simpl. rewrite Z.add_0_r. symmetry. apply wrap_small, peek_in64, W.
  - destruct (incr w i c n) as [wa ra] eqn:I.
    assert (Hc : (c < wreg w)%nat) by (apply (Ck c n); left; reflexivity).
    destruct (incr_spec _ _ _ _ _ _ W Hi Hc I) as (-> & Wa & Sha & Pa & Fm & Fs & So & Sl).
    assert (Pra : private wa i).
    { intros k m N (p & E & E'). rewrite So in E' by (left; exact N).
      destruct (Nat.eq_dec m c) as [->|Nm].
      - destruct Sl as [Sl|(Sn & q & Sq & Fr)].
        + apply (Pr k c N). exists p. rewrite <- Sl. auto.
        + rewrite Sq in E. inversion E; subst q. exact (fresh_not_old w k c p W Fr E').
      - rewrite So in E by (right; exact Nm). apply (Pr k m N). exists p. auto. }
    assert (Hia := shape_plen _ _ _ Sha Hi).
    assert (Cka : counters_ok (wreg wa) l).
    { intros c' n' Hin. eapply shape_reg; eauto. apply (Ck c' n'). right. exact Hin. }
    destruct (IH wa w1 r Wa Hia Pra Cka D) as (-> & W1 & Sh1 & Pr1 & P1 & F1).
    splits; auto.
    + eapply shape_trans; eauto.
    + intro m. rewrite P1. simpl. destruct (Nat.eqb_spec c m) as [->|Nm].
      * rewrite Pa, wrap_add_l. f_equal. lia.
      * rewrite Fm by (intro; subst; apply Nm; reflexivity). f_equal.
    + intros k m N. destruct (F1 k m N) as (A & B). split.
      * rewrite A. apply So. left. exact N.
      * rewrite B. destruct (Nat.eq_dec m c) as [->|Nm]; [apply Fs; auto|apply Fm; exact Nm].
Qed.

(* ---------------- exec/local.go: Reset(nil), then the user functions ---------------- *)
Lemma local_task_spec w t l w1 r :
  wf w -> (t < plen w)%nat -> counters_ok (wreg w) l ->
  local_task w t l = (w1, r) ->
  r = Ok tt /\ wf w1 /\ shape w w1 /\
  (forall m, peek w1 t m = wrap (sum_incs m l)) /\
  (forall k m, k <> t -> slot_of w1 k m = slot_of w k m /\ peek w1 k m = peek w k m).
Proof.
  intros W Ht Ck L. unfold local_task in L.
  destruct (reset_nil_spec w t W Ht) as (W0 & Sh0 & H0 & S0 & O0).
  set (w0 := reset_nil w t) in *.
  assert (Ht0 := shape_plen _ _ _ Sh0 Ht).
  assert (Ck0 : counters_ok (wreg w0) l) by (destruct Sh0 as (R & _); rewrite R; exact Ck).
  destruct (do_incs_spec t l w0 w1 r W0 Ht0 (private_of_none _ _ S0) Ck0 L)
    as (-> & W1 & Sh1 & _ & P1 & F1).
  splits; auto.
  - eapply shape_trans; eauto.
  - intro m. rewrite P1, (peek_none _ _ _ (S0 m)). reflexivity.
  - intros k m N. destruct (F1 k m N) as (A & B). split.
    + rewrite A. apply O0. exact N.
    + rewrite B. apply peek_ext; auto.
Qed.

(* ---------------- Result.Scope: merge every task once ---------------- *)
Lemma merge_private w i j w1 r :
  wf w -> (i < plen w)%nat -> (j < plen w)%nat -> private w i -> merge w i j = (w1, r) ->
  private w1 i.
Proof.
  intros W Hi Hj Pr Mg.
  destruct (merge_spec _ _ _ _ _ W Hi Hj Mg) as (_ & _ & _ & _ & Sk & _ & Sl).
  intros k m N (p & E & E'). rewrite Sk in E' by exact N.
  destruct (Sl m) as [S|(Sn & q & Sq & Fr)].
  - apply (Pr k m N). exists p. rewrite <- S. auto.
  - rewrite Sq in E. inversion E; subst q. exact (fresh_not_old w k m p W Fr E').
Qed.

Definition zsum (l : list Z) : Z := fold_right Z.add 0 l.

Lemma merge_tasks_spec : forall ts w w1 r,
  wf w -> (0 < plen w)%nat -> private w 0 ->
  (forall t, In t ts -> t <> 0%nat /\ (t < plen w)%nat) ->
  merge_tasks w ts = (w1, r) ->
  r = Ok tt /\ wf w1 /\ shape w w1 /\
  forall m, (m < wreg w)%nat ->
    peek w1 0 m = wrap (peek w 0 m + zsum (map (fun t => peek w t m) ts)).
Proof.
  induction ts as [|t ts IH]; intros w w1 r W H0 Pr Ht M; simpl in M.
  - inversion M; subst. splits; auto using shape_refl.
    intros m _. simpl. rewrite Z.add_0_r. symmetry. apply wrap_small, peek_in64, W.
  - destruct (merge w 0 t) as [wa ra] eqn:Mg.
    destruct (Ht t (or_introl eq_refl)) as (Nt & Lt).
    destruct (merge_spec _ _ _ _ _ W H0 Lt Mg) as (-> & Wa & Sha & Pa & Sk & Ns & _).
    assert (Pra := merge_private _ _ _ _ _ W H0 Lt Pr Mg).
    assert (H0a := shape_plen _ _ _ Sha H0).
    assert (Hta : forall t', In t' ts -> t' <> 0%nat /\ (t' < plen wa)%nat).
    { intros t' Hin. destruct (Ht t' (or_intror Hin)) as (A & B). split; auto. eapply shape_plen; eauto. }
    destruct (IH wa w1 r Wa H0a Pra Hta M) as (-> & W1 & Sh1 & P1).
    splits; auto.
    + eapply shape_trans; eauto.
    + intros m Hm. rewrite P1 by (eapply shape_reg; eauto). rewrite (Pa m Hm), wrap_add_l.
      simpl. f_equal. rewrite <- Z.add_assoc. f_equal. f_equal. f_equal.
      apply map_ext_in. intros t' Hin. destruct (Ht t' (or_intror Hin)) as (A & _).
      apply Ns; auto.
Qed.

(* ---------------- sums ---------------- *)
Lemma wrap_zsum_wrap xs : wrap (zsum (map wrap xs)) = wrap (zsum xs).
Proof.
  induction xs as [|x xs IH]; simpl; auto.
  rewrite wrap_add_l. rewrite <- wrap_add_r, IH, wrap_add_r. reflexivity.
Qed.

Lemma sum_incs_app m l1 l2 : sum_incs m (l1 ++ l2) = sum_incs m l1 + sum_incs m l2.
Proof. induction l1 as [|[c n] l1 IH]; simpl; auto. rewrite IH. lia. Qed.

Lemma sum_incs_concat m ts : sum_incs m (concat ts) = zsum (map (sum_incs m) ts).
Proof. induction ts as [|t ts IH]; simpl; auto. rewrite sum_incs_app, IH. reflexivity. Qed.

Lemma map_nth_seq {A} (l : list A) d : map (fun k => nth k l d) (seq 0 (length l)) = l.
Proof.
  induction l as [|x l IH]; simpl; auto. f_equal.
  rewrite <- seq_shift, map_map. exact IH.
Qed.

(* ---------------- failure-free run on the local executor ---------------- *)
Lemma run_local_tasks_spec : forall tasks w k w1 r,
  wf w -> (k + length tasks < plen w)%nat ->
  (forall l, In l tasks -> counters_ok (wreg w) l) ->
  run_local_tasks w k tasks = (w1, r) ->
  r = Ok tt /\ wf w1 /\ shape w w1 /\
  (forall n l, nth_error tasks n = Some l -> forall m, peek w1 (S (k + n)) m = wrap (sum_incs m l)) /\
  (forall j m, (j <= k \/ j > k + length tasks)%nat ->
               slot_of w1 j m = slot_of w j m /\ peek w1 j m = peek w j m).
Proof.
  induction tasks as [|l tasks IH]; intros w k w1 r W Hk Ck R; simpl in R.
  - inversion R; subst. splits; auto using shape_refl. intros [|n] l E; discriminate.
  - destruct (local_task w (S k) l) as [wa ra] eqn:L. simpl in Hk.
    assert (Hsk : (S k < plen w)%nat) by lia.
    destruct (local_task_spec _ _ _ _ _ W Hsk (Ck l (or_introl eq_refl)) L) as (-> & Wa & Sha & Pa & Fa).
    assert (Hka : (S k + length tasks < plen wa)%nat) by (destruct Sha as (_ & P & _); lia).
    assert (Cka : forall l', In l' tasks -> counters_ok (wreg wa) l').
    { intros l' Hin. destruct Sha as (R' & _). rewrite R'. apply Ck. right. exact Hin. }
    destruct (IH wa (S k) w1 r Wa Hka Cka R) as (-> & W1 & Sh1 & P1 & F1).
    splits; auto.
    + eapply shape_trans; eauto.
    + intros [|n] l' E m; simpl in E.
      * inversion E; subst l'. rewrite Nat.add_0_r.
        rewrite (proj2 (F1 (S k) m (or_introl (le_n _)))). apply Pa.
      * replace (S (k + S n)) with (S (S k + n)) by lia. eapply P1; eauto.
    + intros j m D. simpl in D.
      destruct (F1 j m ltac:(lia)) as (A & B). destruct (Fa j m ltac:(lia)) as (C & E).
      split; congruence.
Qed.

Theorem result_total_local reg tasks :
  (forall l, In l tasks -> counters_ok reg l) ->
  exists w, run_local reg tasks = (w, Ok tt) /\ wf w /\
  forall m, (m < reg)%nat -> peek w 0 m = wrap (sum_incs m (concat tasks)).
Proof.
  intro Ck. unfold run_local.
  set (n := length tasks). set (w0 := init reg (S n)).
  assert (W0 : wf w0) by apply wf_init.
  assert (P0 : plen w0 = S n) by (unfold plen, w0, init; simpl; rewrite repeat_length; reflexivity).
  destruct (run_local_tasks w0 0 tasks) as [w1 r1] eqn:R.
  destruct (run_local_tasks_spec tasks w0 0 w1 r1 W0) as (-> & W1 & Sh1 & P1 & F1); auto.
  { rewrite P0. unfold n. lia. }
  assert (S0 : forall m, slot_of w1 0 m = None).
  { intro m. rewrite (proj1 (F1 0%nat m (or_introl (le_n _)))). apply slot_init. }
  destruct (merge_tasks w1 (seq 1 n)) as [w2 r2] eqn:M.
  destruct (merge_tasks_spec (seq 1 n) w1 w2 r2 W1) as (-> & W2 & Sh2 & P2); auto.
  { destruct Sh1 as (_ & P & _). lia. }
  { apply private_of_none. exact S0. }
  { intros t Hin. apply in_seq in Hin. destruct Sh1 as (_ & P & _). split; lia. }
  exists w2. splits; auto.
  intros m Hm. rewrite P2 by (destruct Sh1 as (R' & _); rewrite R'; exact Hm).
  rewrite (peek_none _ _ _ (S0 m)), Z.add_0_l.
  rewrite sum_incs_concat, <- (wrap_zsum_wrap (map (sum_incs m) tasks)). f_equal. f_equal.
  rewrite <- seq_shift, !map_map.
  rewrite <- (map_nth_seq tasks []). rewrite map_map. fold n.
  apply map_ext_in. intros k Hin. apply in_seq in Hin.
  replace (S k) with (S (0 + k)) by lia. eapply P1.
  apply nth_error_nth'. unfold n in Hin. lia.
Qed.

(* ---------------- bigmachine: worker scope -> reply -> gob -> reply -> task scope ---------------- *)
Lemma bigmachine_task_spec w wt rw rd t l w1 r :
  wf w -> (wt < plen w)%nat -> (rw < plen w)%nat -> (rd < plen w)%nat -> (t < plen w)%nat ->
  wt <> rw -> wt <> rd -> wt <> t -> rw <> rd -> rw <> t -> rd <> t ->
  (forall m, slot_of w wt m = None) -> counters_ok (wreg w) l ->
  bigmachine_task w wt rw rd t l = (w1, r) ->
  r = Ok tt /\ wf w1 /\ shape w w1 /\
  (forall m, (m < wreg w)%nat -> peek w1 t m = wrap (sum_incs m l)) /\
  (forall k m, k <> wt -> k <> rw -> k <> rd -> k <> t ->
               slot_of w1 k m = slot_of w k m /\ peek w1 k m = peek w k m).
Proof.
  intros W Hwt Hrw Hrd Ht N1 N2 N3 N4 N5 N6 Fresh Ck B. unfold bigmachine_task in B.
  (* the user functions on the worker *)
  destruct (do_incs w wt l) as [wa ra] eqn:D.
  destruct (do_incs_spec wt l w wa ra W Hwt (private_of_none _ _ Fresh) Ck D)
    as (-> & Wa & Sha & _ & Pa & Fa).
  (* reply.Scope.Reset(&task.Scope) *)
  destruct (reset wa rw wt) as [wb rb] eqn:R1.
  destruct (reset_spec _ _ _ _ _ Wa (shape_plen _ _ _ Sha Hrw) (shape_plen _ _ _ Sha Hwt) R1)
    as (-> & Wb & Shb & Hb & Sb & Ob).
  assert (Shab := shape_trans _ _ _ Sha Shb).
  (* gob *)
  destruct (encode wb rw) as [wc rc] eqn:E.
  destruct (encode_spec _ _ _ _ Wb (shape_plen _ _ _ Shab Hrw) E)
    as (pl & -> & Lpl & Ppl & Rpl & Wc & Shc & Hc & Sc).
  assert (Shac := shape_trans _ _ _ Shab Shc).
  destruct (decode wc rd pl) as [wd rd'] eqn:Dc.
  assert (Lc : length pl = wreg wc) by (destruct Shc as (R' & _); lia).
  destruct (decode_spec _ _ _ _ _ Wc (shape_plen _ _ _ Shac Hrd) Lc Rpl Dc)
    as (-> & Wd & Shd & Pd & Od & _).
  assert (Shad := shape_trans _ _ _ Shac Shd).
  (* task.Scope.Reset(&reply.Scope) *)
  destruct (reset_spec _ _ _ _ _ Wd (shape_plen _ _ _ Shad Ht) (shape_plen _ _ _ Shad Hrd) B)
    as (-> & W1 & Sh1 & H1 & S1 & O1).
  splits; auto.
  - eapply shape_trans; eauto.
  - intros m Hm.
    rewrite (peek_alias wd w1 t rd m (S1 m) H1).
    rewrite Pd, Ppl by (destruct Shab as (R' & _); lia).
    rewrite (peek_alias wa wb rw wt m (Sb m) Hb).
    rewrite Pa, (peek_none _ _ _ (Fresh m)). reflexivity.
  - intros k m K1 K2 K3 K4.
    destruct (Fa k m K1) as (A1 & A2). destruct (Od k m K3) as (D1 & D2).
    split.
    + rewrite (O1 k m K4), D1, Sc, (Ob k m K2). exact A1.
    + rewrite (peek_ext wd w1 k m (O1 k m K4) H1), D2.
      rewrite (peek_ext wb wc k m (Sc k m) Hc).
      rewrite (peek_ext wa wb k m (Ob k m K2) Hb). exact A2.
Qed.

(* ---------------- failure-free run on the bigmachine executor ---------------- *)
Lemma run_bigmachine_tasks_spec : forall tasks w k w1 r,
  wf w -> (4 * (k + length tasks) < plen w)%nat ->
  (forall j m, (4 * k < j)%nat -> slot_of w j m = None) ->
  (forall l, In l tasks -> counters_ok (wreg w) l) ->
  run_bigmachine_tasks w k tasks = (w1, r) ->
  r = Ok tt /\ wf w1 /\ shape w w1 /\
  (forall n l, nth_error tasks n = Some l ->
     forall m, (m < wreg w)%nat -> peek w1 (1 + 4 * (k + n)) m = wrap (sum_incs m l)) /\
  (forall j m, (j <= 4 * k)%nat -> slot_of w1 j m = slot_of w j m /\ peek w1 j m = peek w j m).
Proof.
  induction tasks as [|l tasks IH]; intros w k w1 r W Hk Fresh Ck R.
  - simpl in R. inversion R; subst. splits; auto using shape_refl. intros [|n] l E; discriminate.
  - simpl in Hk.
    change (run_bigmachine_tasks w k (l :: tasks)) with
      (match bigmachine_task w (2 + 4 * k) (3 + 4 * k) (4 + 4 * k) (1 + 4 * k) l with
       | (w1, Ok _) => run_bigmachine_tasks w1 (S k) tasks
       | (w1, Panic) => (w1, Panic)
       end) in R.
    destruct (bigmachine_task w (2 + 4 * k) (3 + 4 * k) (4 + 4 * k) (1 + 4 * k) l) as [wa ra] eqn:B.
    assert (Fr0 : forall m, slot_of w (2 + 4 * k)%nat m = None) by (intro m; apply Fresh; lia).
    destruct (bigmachine_task_spec w (2 + 4 * k)%nat (3 + 4 * k)%nat (4 + 4 * k)%nat (1 + 4 * k)%nat l wa ra W
                ltac:(lia) ltac:(lia) ltac:(lia) ltac:(lia)
                ltac:(lia) ltac:(lia) ltac:(lia) ltac:(lia) ltac:(lia) ltac:(lia)
                Fr0 (Ck l (or_introl eq_refl)) B)
      as (-> & Wa & Sha & Pa & Fa).
    assert (Hka : (4 * (S k + length tasks) < plen wa)%nat) by (destruct Sha as (_ & P & _); lia).
    assert (Fra : forall j m, (4 * S k < j)%nat -> slot_of wa j m = None).
    { intros j m Hj. rewrite (proj1 (Fa j m ltac:(lia) ltac:(lia) ltac:(lia) ltac:(lia))).
      apply Fresh. lia. }
    assert (Cka : forall l', In l' tasks -> counters_ok (wreg wa) l').
    { intros l' Hin. destruct Sha as (R' & _). rewrite R'. apply Ck. right. exact Hin. }
    destruct (IH wa (S k) w1 r Wa Hka Fra Cka R) as (-> & W1 & Sh1 & P1 & F1).
    splits; auto.
    + eapply shape_trans; eauto.
    + intros [|n] l' E m Hm; simpl in E.
      * inversion E; subst l'.
        rewrite (proj2 (F1 (1 + 4 * (k + 0))%nat m ltac:(lia))).
        replace (1 + 4 * (k + 0))%nat with (1 + 4 * k)%nat by lia.
        apply Pa. exact Hm.
      * replace (1 + 4 * (k + S n))%nat with (1 + 4 * (S k + n))%nat by lia.
        eapply P1; eauto. destruct Sha as (R' & _). lia.
    + intros j m Hj.
      destruct (F1 j m ltac:(lia)) as (A & B'). destruct (Fa j m ltac:(lia) ltac:(lia) ltac:(lia) ltac:(lia)) as (C & E).
      split; congruence.
Qed.

Theorem result_total_bigmachine reg tasks :
  (forall l, In l tasks -> counters_ok reg l) ->
  exists w, run_bigmachine reg tasks = (w, Ok tt) /\ wf w /\
  forall m, (m < reg)%nat -> peek w 0 m = wrap (sum_incs m (concat tasks)).
Proof.
  intro Ck. unfold run_bigmachine.
  set (n := length tasks). set (w0 := init reg (1 + 4 * n)).
  assert (W0 : wf w0) by apply wf_init.
  assert (P0 : plen w0 = (1 + 4 * n)%nat) by (unfold plen, w0, init; cbn [wpool]; apply repeat_length).
  destruct (run_bigmachine_tasks w0 0 tasks) as [w1 r1] eqn:R.
  destruct (run_bigmachine_tasks_spec tasks w0 0 w1 r1 W0) as (-> & W1 & Sh1 & P1 & F1); auto.
  { rewrite P0. unfold n. lia. }
  { intros j m _. apply slot_init. }
  assert (S0 : forall m, slot_of w1 0 m = None).
  { intro m. rewrite (proj1 (F1 0%nat m ltac:(lia))). apply slot_init. }
  destruct (merge_tasks w1 (map (fun k => (1 + 4 * k)%nat) (seq 0 n))) as [w2 r2] eqn:M.
  destruct (merge_tasks_spec (map (fun k => (1 + 4 * k)%nat) (seq 0 n)) w1 w2 r2 W1) as (-> & W2 & Sh2 & P2); auto.
  { destruct Sh1 as (_ & P & _). lia. }
  { apply private_of_none. exact S0. }
  { intros t Hin. apply in_map_iff in Hin. destruct Hin as (k & <- & Hin). apply in_seq in Hin.
    destruct Sh1 as (_ & P & _). split; lia. }
  exists w2. splits; auto.
  intros m Hm. rewrite P2 by (destruct Sh1 as (R' & _); rewrite R'; exact Hm).
  rewrite (peek_none _ _ _ (S0 m)), Z.add_0_l.
  rewrite sum_incs_concat, <- (wrap_zsum_wrap (map (sum_incs m) tasks)). f_equal. f_equal.
  rewrite !map_map.
  rewrite <- (map_nth_seq tasks []). rewrite map_map. fold n.
  apply map_ext_in. intros k Hin. apply in_seq in Hin.
  replace (1 + 4 * k)%nat with (1 + 4 * (0 + k))%nat by lia. eapply P1.
  - apply nth_error_nth'. unfold n in Hin. lia.
  - exact Hm.
Qed.

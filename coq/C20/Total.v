(* C20 — the executors' use of scopes: a failure-free run reports, for every
   registered counter, the sum of the increments of its tasks, each task once. *)
From Coq Require Import List ZArith Lia Bool Arith.
Import ListNotations.
Require Import BS.C20.Model BS.C20.Base BS.C20.Ops.
Local Open Scope Z_scope.

Lemma peek_ext w w' k m :
  slot_of w' k m = slot_of w k m -> wheap w' = wheap w -> peek w' k m = peek w k m.
Proof. intros S H. unfold peek, hval. rewrite S, H. reflexivity. Qed.

Lemma peek_alias w w' k k' m :
  slot_of w' k m = slot_of w k' m -> wheap w' = wheap w -> peek w' k m = peek w k' m.
Proof. intros S H. unfold peek, hval. rewrite S, H. reflexivity. Qed.

Lemma private_of_none w i : (forall m, slot_of w i m = None) -> private w i.
Proof. intros N k m _ (p & E & _). rewrite N in E. discriminate. Qed.

Definition counters_ok (reg : nat) (l : list (nat * Z)) : Prop :=
  forall c n, In (c, n) l -> (c < reg)%nat.

(* ---------------- the increments of one task ---------------- *)
Lemma do_incs_spec i : forall l w w1 r,
  wf w -> (i < plen w)%nat -> private w i -> counters_ok (wreg w) l ->
  do_incs w i l = (w1, r) ->
  r = Ok tt /\ wf w1 /\ shape w w1 /\ private w1 i /\
  (forall m, peek w1 i m = wrap (peek w i m + sum_incs m l)) /\
  (forall k m, k <> i -> slot_of w1 k m = slot_of w k m /\ peek w1 k m = peek w k m).
Proof.
  induction l as [|[c n] l IH]; intros w w1 r W Hi Pr Ck D; simpl in D.
  - inversion D; subst. splits; auto using shape_refl.
    intro m. simpl. rewrite Z.add_0_r. symmetry. apply wrap_small, peek_in64, W.
  - destruct (incr w i c n) as [wa ra] eqn:I.
    assert (Hc : (c < wreg w)%nat) by (apply (Ck c n); left; reflexivity).
    destruct (incr_spec _ _ _ _ _ _ W Hi Hc I) as (-> & Wa & Sha & Pa & Fm & Fs & So & Sl).
    assert (Pra : private wa i).
    { intros k m N (p & E & E'). rewrite So in E' by (left; exact N).
      destruct (Nat.eq_dec m c) as [->|Nm].
      - destruct Sl as [Sl|(Sn & q & Sq & Fr)].
        + apply (Pr k c N). exists p. rewrite <- Sl. auto.
        + rewrite Sq in E. inversion E; subst q. exact (fresh_not_old w k c p W Fr E').
      - rewrite So in E by (right; exact Nm). apply (Pr k m N). exists p. auto. }
    assert (Hia := shape_plen _ _ _ Sha Hi).
    assert (Cka : counters_ok (wreg wa) l).
    { intros c' n' Hin. eapply shape_reg; eauto. apply (Ck c' n'). right. exact Hin. }
    destruct (IH wa w1 r Wa Hia Pra Cka D) as (-> & W1 & Sh1 & Pr1 & P1 & F1).
    splits; auto.
    + eapply shape_trans; eauto.
    + intro m. rewrite P1. simpl. destruct (Nat.eqb_spec c m) as [->|Nm].
      * rewrite Pa, wrap_add_l. f_equal. lia.
      * rewrite Fm by (intro; subst; apply Nm; reflexivity). f_equal.
    + intros k m N. destruct (F1 k m N) as (A & B). split.
      * rewrite A. apply So. left. exact N.
      * rewrite B. destruct (Nat.eq_dec m c) as [->|Nm]; [apply Fs; auto|apply Fm; exact Nm].
Qed.

(* ---------------- exec/local.go: Reset(nil), then the user functions ---------------- *)
Lemma local_task_spec w t l w1 r :
  wf w -> (t < plen w)%nat -> counters_ok (wreg w) l ->
  local_task w t l = (w1, r) ->
  r = Ok tt /\ wf w1 /\ shape w w1 /\
  (forall m, peek w1 t m = wrap (sum_incs m l)) /\
  (forall k m, k <> t -> slot_of w1 k m = slot_of w k m /\ peek w1 k m = peek w k m).
Proof.
  intros W Ht Ck L. unfold local_task in L.
  destruct (reset_nil_spec w t W Ht) as (W0 & Sh0 & H0 & S0 & O0).
  set (w0 := reset_nil w t) in *.
  assert (Ht0 := shape_plen _ _ _ Sh0 Ht).
  assert (Ck0 : counters_ok (wreg w0) l) by (destruct Sh0 as (R & _); rewrite R; exact Ck).
  destruct (do_incs_spec t l w0 w1 r W0 Ht0 (private_of_none _ _ S0) Ck0 L)
    as (-> & W1 & Sh1 & _ & P1 & F1).
  splits; auto.
  - eapply shape_trans; eauto.
  - intro m. rewrite P1, (peek_none _ _ _ (S0 m)). reflexivity.
  - intros k m N. destruct (F1 k m N) as (A & B). split.
    + rewrite A. apply O0. exact N.
    + rewrite B. apply peek_ext; auto.
Qed.

(* ---------------- Result.Scope: merge every task once ---------------- *)
Lemma merge_private w i j w1 r :
  wf w -> (i < plen w)%nat -> (j < plen w)%nat -> private w i -> merge w i j = (w1, r) ->
  private w1 i.
Proof.
  intros W Hi Hj Pr Mg.
  destruct (merge_spec _ _ _ _ _ W Hi Hj Mg) as (_ & _ & _ & _ & Sk & _ & Sl).
  intros k m N (p & E & E'). rewrite Sk in E' by exact N.
  destruct (Sl m) as [S|(Sn & q & Sq & Fr)].
  - apply (Pr k m N). exists p. rewrite <- S. auto.
  - rewrite Sq in E. inversion E; subst q. exact (fresh_not_old w k m p W Fr E').
Qed.

Definition zsum (l : list Z) : Z := fold_right Z.add 0 l.

Lemma merge_tasks_spec : forall ts w w1 r,
  wf w -> (0 < plen w)%nat -> private w 0 ->
  (forall t, In t ts -> t <> 0%nat /\ (t < plen w)%nat) ->
  merge_tasks w ts = (w1, r) ->
  r = Ok tt /\ wf w1 /\ shape w w1 /\
  forall m, (m < wreg w)%nat ->
    peek w1 0 m = wrap (peek w 0 m + zsum (map (fun t => peek w t m) ts)).
Proof.
  induction ts as [|t ts IH]; intros w w1 r W H0 Pr Ht M; simpl in M.
  - inversion M; subst. splits; auto using shape_refl.
    intros m _. simpl. rewrite Z.add_0_r. symmetry. apply wrap_small, peek_in64, W.
  - destruct (merge w 0 t) as [wa ra] eqn:Mg.
    destruct (Ht t (or_introl eq_refl)) as (Nt & Lt).
    destruct (merge_spec _ _ _ _ _ W H0 Lt Mg) as (-> & Wa & Sha & Pa & Sk & Ns & _).
    assert (Pra := merge_private _ _ _ _ _ W H0 Lt Pr Mg).
    assert (H0a := shape_plen _ _ _ Sha H0).
    assert (Hta : forall t', In t' ts -> t' <> 0%nat /\ (t' < plen wa)%nat).
    { intros t' Hin. destruct (Ht t' (or_intror Hin)) as (A & B). split; auto. eapply shape_plen; eauto. }
    destruct (IH wa w1 r Wa H0a Pra Hta M) as (-> & W1 & Sh1 & P1).
    splits; auto.
    + eapply shape_trans; eauto.
    + intros m Hm. rewrite P1 by (eapply shape_reg; eauto). rewrite (Pa m Hm), wrap_add_l.
      simpl. f_equal. rewrite <- Z.add_assoc. f_equal. f_equal. f_equal.
      apply map_ext_in. intros t' Hin. destruct (Ht t' (or_intror Hin)) as (A & _).
      apply Ns; auto.
Qed.

(* ---------------- sums ---------------- *)
Lemma wrap_zsum_wrap xs : wrap (zsum (map wrap xs)) = wrap (zsum xs).
Proof.
  induction xs as [|x xs IH]; simpl; auto.
  rewrite wrap_add_l. rewrite <- wrap_add_r, IH, wrap_add_r. reflexivity.
Qed.

Lemma sum_incs_app m l1 l2 : sum_incs m (l1 ++ l2) = sum_incs m l1 + sum_incs m l2.
Proof. induction l1 as [|[c n] l1 IH]; simpl; auto. rewrite IH. lia. Qed.

Lemma sum_incs_concat m ts : sum_incs m (concat ts) = zsum (map (sum_incs m) ts).
Proof. induction ts as [|t ts IH]; simpl; auto. rewrite sum_incs_app, IH. reflexivity. Qed.

Lemma map_nth_seq {A} (l : list A) d : map (fun k => nth k l d) (seq 0 (length l)) = l.
Proof.
  induction l as [|x l IH]; simpl; auto. f_equal.
  rewrite <- seq_shift, map_map. exact IH.
Qed.

(* ---------------- failure-free run on the local executor ---------------- *)
Lemma run_local_tasks_spec : forall tasks w k w1 r,
  wf w -> (k + length tasks < plen w)%nat ->
  (forall l, In l tasks -> counters_ok (wreg w) l) ->
  run_local_tasks w k tasks = (w1, r) ->
  r = Ok tt /\ wf w1 /\ shape w w1 /\
  (forall n l, nth_error tasks n = Some l -> forall m, peek w1 (S (k + n)) m = wrap (sum_incs m l)) /\
  (forall j m, (j <= k \/ j > k + length tasks)%nat ->
               slot_of w1 j m = slot_of w j m /\ peek w1 j m = peek w j m).
Proof.
  induction tasks as [|l tasks IH]; intros w k w1 r W Hk Ck R; simpl in R.
  - inversion R; subst. splits; auto using shape_refl. intros [|n] l E; discriminate.
  - destruct (local_task w (S k) l) as [wa ra] eqn:L. simpl in Hk.
    assert (Hsk : (S k < plen w)%nat) by lia.
    destruct (local_task_spec _ _ _ _ _ W Hsk (Ck l (or_introl eq_refl)) L) as (-> & Wa & Sha & Pa & Fa).
    assert (Hka : (S k + length tasks < plen wa)%nat) by (destruct Sha as (_ & P & _); lia).
    assert (Cka : forall l', In l' tasks -> counters_ok (wreg wa) l').
    { intros l' Hin. destruct Sha as (R' & _). rewrite R'. apply Ck. right. exact Hin. }
    destruct (IH wa (S k) w1 r Wa Hka Cka R) as (-> & W1 & Sh1 & P1 & F1).
    splits; auto.
    + eapply shape_trans; eauto.
    + intros [|n] l' E m; simpl in E.
      * inversion E; subst l'. rewrite Nat.add_0_r.
        rewrite (proj2 (F1 (S k) m (or_introl (le_n _)))). apply Pa.
      * replace (S (k + S n)) with (S (S k + n)) by lia. eapply P1; eauto.
    + intros j m D. simpl in D.
      destruct (F1 j m ltac:(lia)) as (A & B). destruct (Fa j m ltac:(lia)) as (C & E).
      split; congruence.
Qed.

Theorem result_total_local reg tasks :
  (forall l, In l tasks -> counters_ok reg l) ->
  exists w, run_local reg tasks = (w, Ok tt) /\ wf w /\
  forall m, (m < reg)%nat -> peek w 0 m = wrap (sum_incs m (concat tasks)).
Proof.
  intro Ck. unfold run_local.
  set (n := length tasks). set (w0 := init reg (S n)).
  assert (W0 : wf w0) by apply wf_init.
  assert (P0 : plen w0 = S n) by (unfold plen, w0, init; simpl; rewrite repeat_length; reflexivity).
  destruct (run_local_tasks w0 0 tasks) as [w1 r1] eqn:R.
  destruct (run_local_tasks_spec tasks w0 0 w1 r1 W0) as (-> & W1 & Sh1 & P1 & F1); auto.
  { rewrite P0. unfold n. lia. }
  assert (S0 : forall m, slot_of w1 0 m = None).
  { intro m. rewrite (proj1 (F1 0%nat m (or_introl (le_n _)))). apply slot_init. }
  destruct (merge_tasks w1 (seq 1 n)) as [w2 r2] eqn:M.
  destruct (merge_tasks_spec (seq 1 n) w1 w2 r2 W1) as (-> & W2 & Sh2 & P2); auto.
  { destruct Sh1 as (_ & P & _). lia. }
  { apply private_of_none. exact S0. }
  { intros t Hin. apply in_seq in Hin. destruct Sh1 as (_ & P & _). split; lia. }
  exists w2. splits; auto.
  intros m Hm. rewrite P2 by (destruct Sh1 as (R' & _); rewrite R'; exact Hm).
  rewrite (peek_none _ _ _ (S0 m)), Z.add_0_l.
  rewrite sum_incs_concat, <- (wrap_zsum_wrap (map (sum_incs m) tasks)). f_equal. f_equal.
  rewrite <- seq_shift, !map_map.
  rewrite <- (map_nth_seq tasks []). rewrite map_map. fold n.
  apply map_ext_in. intros k Hin. apply in_seq in Hin.
  replace (S k) with (S (0 + k)) by lia. eapply P1.
  apply nth_error_nth'. unfold n in Hin. lia.
Qed.

(* ---------------- bigmachine: worker scope -> reply -> gob -> reply -> task scope ---------------- *)
Lemma bigmachine_task_spec w wt rw rd t l w1 r :
  wf w -> (wt < plen w)%nat -> (rw < plen w)%nat -> (rd < plen w)%nat -> (t < plen w)%nat ->
  wt <> rw -> wt <> rd -> wt <> t -> rw <> rd -> rw <> t -> rd <> t ->
  (forall m, slot_of w wt m = None) -> counters_ok (wreg w) l ->
  bigmachine_task w wt rw rd t l = (w1, r) ->
  r = Ok tt /\ wf w1 /\ shape w w1 /\
  (forall m, (m < wreg w)%nat -> peek w1 t m = wrap (sum_incs m l)) /\
  (forall k m, k <> wt -> k <> rw -> k <> rd -> k <> t ->
               slot_of w1 k m = slot_of w k m /\ peek w1 k m = peek w k m) /\
  (forall m, peek w1 wt m = wrap (sum_incs m l)).      (* the worker keeps the task's scope *)
Proof.
  intros W Hwt Hrw Hrd Ht N1 N2 N3 N4 N5 N6 Fresh Ck B. unfold bigmachine_task in B.
  (* the user functions on the worker *)
  destruct (do_incs w wt l) as [wa ra] eqn:D.
  destruct (do_incs_spec wt l w wa ra W Hwt (private_of_none _ _ Fresh) Ck D)
    as (-> & Wa & Sha & _ & Pa & Fa).
  (* reply.Scope.Reset(&task.Scope) *)
  destruct (reset wa rw wt) as [wb rb] eqn:R1.
  destruct (reset_spec _ _ _ _ _ Wa (shape_plen _ _ _ Sha Hrw) (shape_plen _ _ _ Sha Hwt) R1)
    as (-> & Wb & Shb & Hb & Sb & Ob).
  assert (Shab := shape_trans _ _ _ Sha Shb).
  (* gob *)
  destruct (encode wb rw) as [wc rc] eqn:E.
  destruct (encode_spec _ _ _ _ Wb (shape_plen _ _ _ Shab Hrw) E)
    as (pl & -> & Lpl & Ppl & Rpl & Wc & Shc & Hc & Sc).
  assert (Shac := shape_trans _ _ _ Shab Shc).
  destruct (decode wc rd pl) as [wd rd'] eqn:Dc.
  assert (Lc : length pl = wreg wc) by (destruct Shc as (R' & _); lia).
  destruct (decode_spec _ _ _ _ _ Wc (shape_plen _ _ _ Shac Hrd) Lc Rpl Dc)
    as (-> & Wd & Shd & Pd & Od & _).
  assert (Shad := shape_trans _ _ _ Shac Shd).
  (* task.Scope.Reset(&reply.Scope) *)
  destruct (reset_spec _ _ _ _ _ Wd (shape_plen _ _ _ Shad Ht) (shape_plen _ _ _ Shad Hrd) B)
    as (-> & W1 & Sh1 & H1 & S1 & O1).
  splits; auto.
  - eapply shape_trans; eauto.
  - intros m Hm.
    rewrite (peek_alias wd w1 t rd m (S1 m) H1).
    rewrite Pd, Ppl by (destruct Shab as (R' & _); lia).
    rewrite (peek_alias wa wb rw wt m (Sb m) Hb).
    rewrite Pa, (peek_none _ _ _ (Fresh m)). reflexivity.
  - intros k m K1 K2 K3 K4.
    destruct (Fa k m K1) as (A1 & A2). destruct (Od k m K3) as (D1 & D2).
    split.
    + rewrite (O1 k m K4), D1, Sc, (Ob k m K2). exact A1.
    + rewrite (peek_ext wd w1 k m (O1 k m K4) H1), D2.
      rewrite (peek_ext wb wc k m (Sc k m) Hc).
      rewrite (peek_ext wa wb k m (Ob k m K2) Hb). exact A2.
  - intro m.
    rewrite (peek_ext wd w1 wt m (O1 wt m N3) H1), (proj2 (Od wt m N2)).
    rewrite (peek_ext wb wc wt m (Sc wt m) Hc).
    rewrite (peek_ext wa wb wt m (Ob wt m N1) Hb).
    rewrite Pa, (peek_none _ _ _ (Fresh m)). reflexivity.
Qed.

(* ---------------- failure-free run on the bigmachine executor ---------------- *)
Lemma run_bigmachine_tasks_spec : forall tasks w k w1 r,
  wf w -> (4 * (k + length tasks) < plen w)%nat ->
  (forall j m, (4 * k < j)%nat -> slot_of w j m = None) ->
  (forall l, In l tasks -> counters_ok (wreg w) l) ->
  run_bigmachine_tasks w k tasks = (w1, r) ->
  r = Ok tt /\ wf w1 /\ shape w w1 /\
  (forall n l, nth_error tasks n = Some l ->
     forall m, (m < wreg w)%nat -> peek w1 (1 + 4 * (k + n)) m = wrap (sum_incs m l)) /\
  (forall j m, (j <= 4 * k)%nat -> slot_of w1 j m = slot_of w j m /\ peek w1 j m = peek w j m).
Proof.
  induction tasks as [|l tasks IH]; intros w k w1 r W Hk Fresh Ck R.
  - simpl in R. inversion R; subst. splits; auto using shape_refl. intros [|n] l E; discriminate.
  - simpl in Hk.
    change (run_bigmachine_tasks w k (l :: tasks)) with
      (match bigmachine_task w (2 + 4 * k) (3 + 4 * k) (4 + 4 * k) (1 + 4 * k) l with
       | (w1, Ok _) => run_bigmachine_tasks w1 (S k) tasks
       | (w1, Panic) => (w1, Panic)
       end) in R.
    destruct (bigmachine_task w (2 + 4 * k) (3 + 4 * k) (4 + 4 * k) (1 + 4 * k) l) as [wa ra] eqn:B.
    assert (Fr0 : forall m, slot_of w (2 + 4 * k)%nat m = None) by (intro m; apply Fresh; lia).
    destruct (bigmachine_task_spec w (2 + 4 * k)%nat (3 + 4 * k)%nat (4 + 4 * k)%nat (1 + 4 * k)%nat l wa ra W
                ltac:(lia) ltac:(lia) ltac:(lia) ltac:(lia)
                ltac:(lia) ltac:(lia) ltac:(lia) ltac:(lia) ltac:(lia) ltac:(lia)
                Fr0 (Ck l (or_introl eq_refl)) B)
      as (-> & Wa & Sha & Pa & Fa & _).
    assert (Hka : (4 * (S k + length tasks) < plen wa)%nat) by (destruct Sha as (_ & P & _); lia).
    assert (Fra : forall j m, (4 * S k < j)%nat -> slot_of wa j m = None).
    { intros j m Hj. rewrite (proj1 (Fa j m ltac:(lia) ltac:(lia) ltac:(lia) ltac:(lia))).
      apply Fresh. lia. }
    assert (Cka : forall l', In l' tasks -> counters_ok (wreg wa) l').
    { intros l' Hin. destruct Sha as (R' & _). rewrite R'. apply Ck. right. exact Hin. }
    destruct (IH wa (S k) w1 r Wa Hka Fra Cka R) as (-> & W1 & Sh1 & P1 & F1).
    splits; auto.
    + eapply shape_trans; eauto.
    + intros [|n] l' E m Hm; simpl in E.
      * inversion E; subst l'.
        rewrite (proj2 (F1 (1 + 4 * (k + 0))%nat m ltac:(lia))).
        replace (1 + 4 * (k + 0))%nat with (1 + 4 * k)%nat by lia.
        apply Pa. exact Hm.
      * replace (1 + 4 * (k + S n))%nat with (1 + 4 * (S k + n))%nat by lia.
        eapply P1; eauto. destruct Sha as (R' & _). lia.
    + intros j m Hj.
      destruct (F1 j m ltac:(lia)) as (A & B'). destruct (Fa j m ltac:(lia) ltac:(lia) ltac:(lia) ltac:(lia)) as (C & E).
      split; congruence.
Qed.

Theorem result_total_bigmachine reg tasks :
  (forall l, In l tasks -> counters_ok reg l) ->
  exists w, run_bigmachine reg tasks = (w, Ok tt) /\ wf w /\
  forall m, (m < reg)%nat -> peek w 0 m = wrap (sum_incs m (concat tasks)).
Proof.
  intro Ck. unfold run_bigmachine.
  set (n := length tasks). set (w0 := init reg (1 + 4 * n)).
  assert (W0 : wf w0) by apply wf_init.
  assert (P0 : plen w0 = (1 + 4 * n)%nat) by (unfold plen, w0, init; cbn [wpool]; apply repeat_length).
  destruct (run_bigmachine_tasks w0 0 tasks) as [w1 r1] eqn:R.
  destruct (run_bigmachine_tasks_spec tasks w0 0 w1 r1 W0) as (-> & W1 & Sh1 & P1 & F1); auto.
  { rewrite P0. unfold n. lia. }
  { intros j m _. apply slot_init. }
  assert (S0 : forall m, slot_of w1 0 m = None).
  { intro m. rewrite (proj1 (F1 0%nat m ltac:(lia))). apply slot_init. }
  destruct (merge_tasks w1 (map (fun k => (1 + 4 * k)%nat) (seq 0 n))) as [w2 r2] eqn:M.
  destruct (merge_tasks_spec (map (fun k => (1 + 4 * k)%nat) (seq 0 n)) w1 w2 r2 W1) as (-> & W2 & Sh2 & P2); auto.
  { destruct Sh1 as (_ & P & _). lia. }
  { apply private_of_none. exact S0. }
  { intros t Hin. apply in_map_iff in Hin. destruct Hin as (k & <- & Hin). apply in_seq in Hin.
    destruct Sh1 as (_ & P & _). split; lia. }
  exists w2. splits; auto.
  intros m Hm. rewrite P2 by (destruct Sh1 as (R' & _); rewrite R'; exact Hm).
  rewrite (peek_none _ _ _ (S0 m)), Z.add_0_l.
  rewrite sum_incs_concat, <- (wrap_zsum_wrap (map (sum_incs m) tasks)). f_equal. f_equal.
  rewrite !map_map.
  rewrite <- (map_nth_seq tasks []). rewrite map_map. fold n.
  apply map_ext_in. intros k Hin. apply in_seq in Hin.
  replace (1 + 4 * k)%nat with (1 + 4 * (0 + k))%nat by lia. eapply P1.
  - apply nth_error_nth'. unfold n in Hin. lia.
  - exact Hm.
Qed.

(* ================= tasks that are run more than once ================= *)

Lemma last_in_or_nil {A} (l : list (list A)) : last l [] = [] \/ In (last l []) l.
Proof.
  induction l as [|x [|y r] IH]; simpl; auto.
  destruct IH as [E|I]; [left; exact E|right; right; exact I].
Qed.

Definition runs_ok (reg : nat) (runs : list (list (nat * Z))) : Prop :=
  forall l, In l runs -> counters_ok reg l.

(* the value a task scope ends with: that of its LAST run *)
Definition after_runs (old : Z) (m : nat) (runs : list (list (nat * Z))) : Z :=
  match runs with [] => old | _ => wrap (sum_incs m (last runs [])) end.

Lemma after_runs_cons old m l r :
  after_runs old m (l :: r) = after_runs (wrap (sum_incs m l)) m r.
Proof. destruct r; reflexivity. Qed.

(* ---------------- local executor: the scope is reset before every run ---------------- *)
Lemma local_runs_spec t : forall runs w w1 r,
  wf w -> (t < plen w)%nat -> runs_ok (wreg w) runs ->
  local_runs w t runs = (w1, r) ->
  r = Ok tt /\ wf w1 /\ shape w w1 /\
  (forall m, peek w1 t m = after_runs (peek w t m) m runs) /\
  (forall k m, k <> t -> slot_of w1 k m = slot_of w k m /\ peek w1 k m = peek w k m).
Proof.
  induction runs as [|l runs IH]; intros w w1 r W Ht Ck R; simpl in R.
  - inversion R; subst. splits; auto using shape_refl.
  - destruct (local_task w t l) as [wa ra] eqn:L.
    destruct (local_task_spec _ _ _ _ _ W Ht (Ck l (or_introl eq_refl)) L) as (-> & Wa & Sha & Pa & Fa).
    assert (Cka : runs_ok (wreg wa) runs).
    { intros l' Hin. destruct Sha as (R' & _). rewrite R'. apply Ck. right. exact Hin. }
    destruct (IH wa w1 r Wa (shape_plen _ _ _ Sha Ht) Cka R) as (-> & W1 & Sh1 & P1 & F1).
    splits; auto.
    + eapply shape_trans; eauto.
    + intro m. rewrite P1, Pa. symmetry. apply after_runs_cons.
    + intros k m N. destruct (F1 k m N) as (A & B). destruct (Fa k m N) as (C & D).
      split; congruence.
Qed.

Lemma run_local_tasks_runs_spec : forall tasks w k w1 r,
  wf w -> (k + length tasks < plen w)%nat ->
  (forall runs, In runs tasks -> runs_ok (wreg w) runs) ->
  run_local_tasks_runs w k tasks = (w1, r) ->
  r = Ok tt /\ wf w1 /\ shape w w1 /\
  (forall n runs, nth_error tasks n = Some runs ->
     forall m, peek w1 (S (k + n)) m = after_runs (peek w (S (k + n)) m) m runs) /\
  (forall j m, (j <= k \/ j > k + length tasks)%nat ->
               slot_of w1 j m = slot_of w j m /\ peek w1 j m = peek w j m).
Proof.
  induction tasks as [|runs tasks IH]; intros w k w1 r W Hk Ck R; simpl in R.
  - inversion R; subst. splits; auto using shape_refl. intros [|n] l E; discriminate.
  - destruct (local_runs w (S k) runs) as [wa ra] eqn:L. simpl in Hk.
    assert (Hsk : (S k < plen w)%nat) by lia.
    destruct (local_runs_spec _ _ _ _ _ W Hsk (Ck runs (or_introl eq_refl)) L) as (-> & Wa & Sha & Pa & Fa).
    assert (Hka : (S k + length tasks < plen wa)%nat) by (destruct Sha as (_ & P & _); lia).
    assert (Cka : forall l', In l' tasks -> runs_ok (wreg wa) l').
    { intros l' Hin. destruct Sha as (R' & _). rewrite R'. apply Ck. right. exact Hin. }
    destruct (IH wa (S k) w1 r Wa Hka Cka R) as (-> & W1 & Sh1 & P1 & F1).
    splits; auto.
    + eapply shape_trans; eauto.
    + intros [|n] l' E m; simpl in E.
      * inversion E; subst l'. rewrite Nat.add_0_r.
        rewrite (proj2 (F1 (S k) m (or_introl (le_n _)))). apply Pa.
      * replace (S (k + S n)) with (S (S k + n)) by lia.
        rewrite (P1 n l' E m). f_equal. apply Fa. lia.
    + intros j m D. simpl in D.
      destruct (F1 j m ltac:(lia)) as (A & B). destruct (Fa j m ltac:(lia)) as (C & E).
      split; congruence.
Qed.

Lemma last_runs_sum m tasks :
  wrap (sum_incs m (last_runs tasks)) =
  wrap (zsum (map (fun runs : list (list (nat * Z)) => wrap (sum_incs m (last runs []))) tasks)).
Proof.
  unfold last_runs. rewrite sum_incs_concat, map_map.
  rewrite <- (wrap_zsum_wrap (map _ tasks)), map_map. reflexivity.
Qed.

Theorem result_total_local_runs reg tasks :
  (forall runs, In runs tasks -> runs_ok reg runs) ->
  exists w, run_local_runs reg tasks = (w, Ok tt) /\ wf w /\
  forall m, (m < reg)%nat -> peek w 0 m = wrap (sum_incs m (last_runs tasks)).
Proof.
  intro Ck. unfold run_local_runs.
  set (n := length tasks). set (w0 := init reg (S n)).
  assert (W0 : wf w0) by apply wf_init.
  assert (P0 : plen w0 = S n) by (unfold plen, w0, init; simpl; rewrite repeat_length; reflexivity).
  destruct (run_local_tasks_runs w0 0 tasks) as [w1 r1] eqn:R.
  destruct (run_local_tasks_runs_spec tasks w0 0 w1 r1 W0) as (-> & W1 & Sh1 & P1 & F1); auto.
  { rewrite P0. unfold n. lia. }
  assert (S0 : forall m, slot_of w1 0 m = None).
  { intro m. rewrite (proj1 (F1 0%nat m (or_introl (le_n _)))). apply slot_init. }
  destruct (merge_tasks w1 (seq 1 n)) as [w2 r2] eqn:M.
  destruct (merge_tasks_spec (seq 1 n) w1 w2 r2 W1) as (-> & W2 & Sh2 & P2); auto.
  { destruct Sh1 as (_ & P & _). lia. }
  { apply private_of_none. exact S0. }
  { intros t Hin. apply in_seq in Hin. destruct Sh1 as (_ & P & _). split; lia. }
  exists w2. splits; auto.
  intros m Hm. rewrite P2 by (destruct Sh1 as (R' & _); rewrite R'; exact Hm).
  rewrite (peek_none _ _ _ (S0 m)), Z.add_0_l, last_runs_sum. f_equal. f_equal.
  rewrite <- seq_shift, !map_map.
  rewrite <- (map_nth_seq tasks []). rewrite map_map. fold n.
  apply map_ext_in. intros k Hin. apply in_seq in Hin.
  replace (S k) with (S (0 + k)) by lia.
  rewrite (P1 k (nth k tasks [])) by (apply nth_error_nth'; unfold n in Hin; lia).
  rewrite (peek_none w0) by apply slot_init.
  destruct (nth k tasks []); reflexivity.
Qed.

(* re-running tasks any number of times leaves the reported total unchanged: it is
   the total of the run in which every task runs once, with its last increments *)
Theorem result_total_after_recompute reg tasks :
  (forall runs, In runs tasks -> runs_ok reg runs) ->
  exists w w', run_local_runs reg tasks = (w, Ok tt) /\
               run_local reg (map (fun runs => last runs []) tasks) = (w', Ok tt) /\
  forall m, (m < reg)%nat -> peek w 0 m = peek w' 0 m.
Proof.
  intro Ck.
  destruct (result_total_local_runs reg tasks Ck) as (w & E & _ & P).
  destruct (result_total_local reg (map (fun runs => last runs []) tasks)) as (w' & E' & _ & P').
  { intros l Hin. apply in_map_iff in Hin. destruct Hin as (runs & <- & Hin).
    destruct (last_in_or_nil runs) as [-> | I]; [intros c n []|apply (Ck runs Hin _ I)]. }
  exists w, w'. splits; auto. intros m Hm. rewrite (P m Hm), (P' m Hm). reflexivity.
Qed.

(* ---------------- bigmachine: only a worker that resets its scope reports the last run ---------------- *)
Lemma reset_nil_frame w i :
  wf w -> (i < plen w)%nat ->
  wf (reset_nil w i) /\ shape w (reset_nil w i) /\ (forall m, slot_of (reset_nil w i) i m = None) /\
  (forall k m, k <> i -> slot_of (reset_nil w i) k m = slot_of w k m /\ peek (reset_nil w i) k m = peek w k m).
Proof.
  intros W Hi. destruct (reset_nil_spec w i W Hi) as (W1 & Sh & H & S & O).
  splits; auto. intros k m N. split; [apply O; exact N|apply peek_ext; auto].
Qed.

Lemma bigmachine_run_step (wr : bool) w wt rw rd t l w1 r :
  wf w -> (wt < plen w)%nat -> (rw < plen w)%nat -> (rd < plen w)%nat -> (t < plen w)%nat ->
  wt <> rw -> wt <> rd -> wt <> t -> rw <> rd -> rw <> t -> rd <> t ->
  (wr = true \/ forall m, slot_of w wt m = None) -> counters_ok (wreg w) l ->
  bigmachine_task (let w0 := reset_nil (reset_nil w rw) rd in if wr then reset_nil w0 wt else w0)
                  wt rw rd t l = (w1, r) ->
  r = Ok tt /\ wf w1 /\ shape w w1 /\
  (forall m, (m < wreg w)%nat -> peek w1 t m = wrap (sum_incs m l)) /\
  (forall k m, k <> wt -> k <> rw -> k <> rd -> k <> t ->
               slot_of w1 k m = slot_of w k m /\ peek w1 k m = peek w k m) /\
  (forall m, peek w1 wt m = wrap (sum_incs m l)).
Proof.
  intros W Hwt Hrw Hrd Ht N1 N2 N3 N4 N5 N6 Fr Ck B.
  destruct (reset_nil_frame w rw W Hrw) as (Wa & Sha & _ & Fa).
  set (wa := reset_nil w rw) in *.
  destruct (reset_nil_frame wa rd Wa (shape_plen _ _ _ Sha Hrd)) as (Wb & Shb & _ & Fb).
  set (wb := reset_nil wa rd) in *.
  assert (Shab := shape_trans _ _ _ Sha Shb).
  assert (Fab : forall k m, k <> rw -> k <> rd -> slot_of wb k m = slot_of w k m /\ peek wb k m = peek w k m).
  { intros k m K1 K2. destruct (Fa k m K1) as (A1 & A2). destruct (Fb k m K2) as (B1 & B2). split; congruence. }
  cbv zeta in B.
  set (wc := if wr then reset_nil wb wt else wb) in *.
  assert (Hc : wf wc /\ shape w wc /\ (forall m, slot_of wc wt m = None) /\
               (forall k m, k <> wt -> k <> rw -> k <> rd ->
                  slot_of wc k m = slot_of w k m /\ peek wc k m = peek w k m)).
  { unfold wc. destruct wr.
    - destruct (reset_nil_frame wb wt Wb (shape_plen _ _ _ Shab Hwt)) as (Wc & Shc & Sc & Fc).
      splits; auto.
      + eapply shape_trans; eauto.
      + intros k m K1 K2 K3. destruct (Fc k m K1) as (C1 & C2). destruct (Fab k m K2 K3) as (D1 & D2).
        split; congruence.
    - destruct Fr as [Fr|Fr]; [discriminate|]. splits; auto.
      intro m. rewrite (proj1 (Fab wt m N1 N2)). apply Fr. }
  destruct Hc as (Wc & Shc & Sc & Fc).
  assert (Ckc : counters_ok (wreg wc) l) by (destruct Shc as (R' & _); rewrite R'; exact Ck).
  destruct (bigmachine_task_spec wc wt rw rd t l w1 r Wc
              (shape_plen _ _ _ Shc Hwt) (shape_plen _ _ _ Shc Hrw) (shape_plen _ _ _ Shc Hrd)
              (shape_plen _ _ _ Shc Ht) N1 N2 N3 N4 N5 N6 Sc Ckc B) as (-> & W1 & Sh1 & P1 & F1 & Q1).
  splits; auto.
  - eapply shape_trans; eauto.
  - intros m Hm. apply P1. destruct Shc as (R' & _). lia.
  - intros k m K1 K2 K3 K4. destruct (F1 k m K1 K2 K3 K4) as (A & B'). destruct (Fc k m K1 K2 K3) as (C & D).
    split; congruence.
Qed.

Lemma bigmachine_runs_spec (wr : bool) : forall runs w wt rw rd t w1 r,
  wf w -> (wt < plen w)%nat -> (rw < plen w)%nat -> (rd < plen w)%nat -> (t < plen w)%nat ->
  wt <> rw -> wt <> rd -> wt <> t -> rw <> rd -> rw <> t -> rd <> t ->
  (wr = true \/ ((forall m, slot_of w wt m = None) /\ (length runs <= 1)%nat)) ->
  runs_ok (wreg w) runs ->
  bigmachine_runs wr w wt rw rd t runs = (w1, r) ->
  r = Ok tt /\ wf w1 /\ shape w w1 /\
  (forall m, (m < wreg w)%nat -> peek w1 t m = after_runs (peek w t m) m runs) /\
  (forall k m, k <> wt -> k <> rw -> k <> rd -> k <> t ->
               slot_of w1 k m = slot_of w k m /\ peek w1 k m = peek w k m) /\
  (forall m, peek w1 wt m = after_runs (peek w wt m) m runs).
Proof.
  induction runs as [|l runs IH]; intros w wt rw rd t w1 r W Hwt Hrw Hrd Ht N1 N2 N3 N4 N5 N6 Cond Ck B.
  - simpl in B. inversion B; subst. splits; auto using shape_refl.
  - change (bigmachine_runs wr w wt rw rd t (l :: runs)) with
      (match bigmachine_task (let w0 := reset_nil (reset_nil w rw) rd in if wr then reset_nil w0 wt else w0)
               wt rw rd t l with
       | (w1, Ok _) => bigmachine_runs wr w1 wt rw rd t runs
       | (w1, Panic) => (w1, Panic)
       end) in B.
    destruct (bigmachine_task _ wt rw rd t l) as [wa ra] eqn:St.
    assert (Fr : wr = true \/ forall m, slot_of w wt m = None).
    { destruct Cond as [C|(C & _)]; auto. }
    destruct (bigmachine_run_step wr w wt rw rd t l wa ra W Hwt Hrw Hrd Ht N1 N2 N3 N4 N5 N6 Fr
                (Ck l (or_introl eq_refl)) St) as (-> & Wa & Sha & Pa & Fa & Qa).
    destruct Cond as [C|(C & Len)].
    + assert (Cka : runs_ok (wreg wa) runs).
      { intros l' Hin. destruct Sha as (R' & _). rewrite R'. apply Ck. right. exact Hin. }
      destruct (IH wa wt rw rd t w1 r Wa (shape_plen _ _ _ Sha Hwt) (shape_plen _ _ _ Sha Hrw)
                  (shape_plen _ _ _ Sha Hrd) (shape_plen _ _ _ Sha Ht) N1 N2 N3 N4 N5 N6 (or_introl C) Cka B)
        as (-> & W1 & Sh1 & P1 & F1 & Q1).
      splits; auto.
      * eapply shape_trans; eauto.
      * intros m Hm. rewrite P1 by (destruct Sha as (R' & _); lia). rewrite (Pa m Hm).
        symmetry. apply after_runs_cons.
      * intros k m K1 K2 K3 K4. destruct (F1 k m K1 K2 K3 K4) as (A & B'). destruct (Fa k m K1 K2 K3 K4) as (C' & D).
        split; congruence.
      * intro m. rewrite Q1, Qa. symmetry. apply after_runs_cons.
    + destruct runs; [|simpl in Len; lia]. simpl in B. inversion B; subst. splits; auto.
Qed.

Lemma run_bigmachine_tasks_runs_spec (wr : bool) : forall tasks w k w1 r,
  wf w -> (4 * (k + length tasks) < plen w)%nat ->
  (forall j m, (4 * k < j)%nat -> slot_of w j m = None) ->
  (wr = true \/ forall runs, In runs tasks -> (length runs <= 1)%nat) ->
  (forall runs, In runs tasks -> runs_ok (wreg w) runs) ->
  run_bigmachine_tasks_runs wr w k tasks = (w1, r) ->
  r = Ok tt /\ wf w1 /\ shape w w1 /\
  (forall n runs, nth_error tasks n = Some runs ->
     forall m, (m < wreg w)%nat -> peek w1 (1 + 4 * (k + n)) m = after_runs 0 m runs) /\
  (forall j m, (j <= 4 * k)%nat -> slot_of w1 j m = slot_of w j m /\ peek w1 j m = peek w j m).
Proof.
  induction tasks as [|runs tasks IH]; intros w k w1 r W Hk Fresh Cond Ck R.
  - simpl in R. inversion R; subst. splits; auto using shape_refl. intros [|n] l E; discriminate.
  - simpl in Hk.
    change (run_bigmachine_tasks_runs wr w k (runs :: tasks)) with
      (match bigmachine_runs wr w (2 + 4 * k) (3 + 4 * k) (4 + 4 * k) (1 + 4 * k) runs with
       | (w1, Ok _) => run_bigmachine_tasks_runs wr w1 (S k) tasks
       | (w1, Panic) => (w1, Panic)
       end) in R.
    destruct (bigmachine_runs wr w (2 + 4 * k) (3 + 4 * k) (4 + 4 * k) (1 + 4 * k) runs) as [wa ra] eqn:B.
    assert (Cond0 : wr = true \/ ((forall m, slot_of w (2 + 4 * k)%nat m = None) /\ (length runs <= 1)%nat)).
    { destruct Cond as [C|C]; [left; exact C|right]. split; [intro m; apply Fresh; lia|apply C; left; reflexivity]. }
    destruct (bigmachine_runs_spec wr runs w (2 + 4 * k)%nat (3 + 4 * k)%nat (4 + 4 * k)%nat (1 + 4 * k)%nat wa ra W
                ltac:(lia) ltac:(lia) ltac:(lia) ltac:(lia)
                ltac:(lia) ltac:(lia) ltac:(lia) ltac:(lia) ltac:(lia) ltac:(lia)
                Cond0 (Ck runs (or_introl eq_refl)) B)
      as (-> & Wa & Sha & Pa & Fa & _).
    assert (Hka : (4 * (S k + length tasks) < plen wa)%nat) by (destruct Sha as (_ & P & _); lia).
    assert (Fra : forall j m, (4 * S k < j)%nat -> slot_of wa j m = None).
    { intros j m Hj. rewrite (proj1 (Fa j m ltac:(lia) ltac:(lia) ltac:(lia) ltac:(lia))).
      apply Fresh. lia. }
    assert (Conda : wr = true \/ forall runs', In runs' tasks -> (length runs' <= 1)%nat).
    { destruct Cond as [C|C]; [left; exact C|right]. intros runs' Hin. apply C. right. exact Hin. }
    assert (Cka : forall l', In l' tasks -> runs_ok (wreg wa) l').
    { intros l' Hin. destruct Sha as (R' & _). rewrite R'. apply Ck. right. exact Hin. }
    destruct (IH wa (S k) w1 r Wa Hka Fra Conda Cka R) as (-> & W1 & Sh1 & P1 & F1).
    splits; auto.
    + eapply shape_trans; eauto.
    + intros [|n] l' E m Hm; simpl in E.
      * inversion E; subst l'.
        rewrite (proj2 (F1 (1 + 4 * (k + 0))%nat m ltac:(lia))).
        replace (1 + 4 * (k + 0))%nat with (1 + 4 * k)%nat by lia.
        rewrite (Pa m Hm). f_equal. apply peek_none. apply Fresh. lia.
      * replace (1 + 4 * (k + S n))%nat with (1 + 4 * (S k + n))%nat by lia.
        eapply P1; eauto. destruct Sha as (R' & _). lia.
    + intros j m Hj.
      destruct (F1 j m ltac:(lia)) as (A & B'). destruct (Fa j m ltac:(lia) ltac:(lia) ltac:(lia) ltac:(lia)) as (C & E).
      split; congruence.
Qed.

(* with a worker that resets its task scope before every run (the repaired code), or when
   no task runs twice, the bigmachine path reports each task's last run once *)
Theorem result_total_bigmachine_runs (wr : bool) reg tasks :
  (wr = true \/ forall runs, In runs tasks -> (length runs <= 1)%nat) ->
  (forall runs, In runs tasks -> runs_ok reg runs) ->
  exists w, run_bigmachine_runs wr reg tasks = (w, Ok tt) /\ wf w /\
  forall m, (m < reg)%nat -> peek w 0 m = wrap (sum_incs m (last_runs tasks)).
Proof.
  intros Cond Ck. unfold run_bigmachine_runs.
  set (n := length tasks). set (w0 := init reg (1 + 4 * n)).
  assert (W0 : wf w0) by apply wf_init.
  assert (P0 : plen w0 = (1 + 4 * n)%nat) by (unfold plen, w0, init; cbn [wpool]; apply repeat_length).
  destruct (run_bigmachine_tasks_runs wr w0 0 tasks) as [w1 r1] eqn:R.
  destruct (run_bigmachine_tasks_runs_spec wr tasks w0 0 w1 r1 W0) as (-> & W1 & Sh1 & P1 & F1); auto.
  { rewrite P0. unfold n. lia. }
  { intros j m _. apply slot_init. }
  assert (S0 : forall m, slot_of w1 0 m = None).
  { intro m. rewrite (proj1 (F1 0%nat m ltac:(lia))). apply slot_init. }
  destruct (merge_tasks w1 (map (fun k => (1 + 4 * k)%nat) (seq 0 n))) as [w2 r2] eqn:M.
  destruct (merge_tasks_spec (map (fun k => (1 + 4 * k)%nat) (seq 0 n)) w1 w2 r2 W1) as (-> & W2 & Sh2 & P2); auto.
  { destruct Sh1 as (_ & P & _). lia. }
  { apply private_of_none. exact S0. }
  { intros t Hin. apply in_map_iff in Hin. destruct Hin as (k & <- & Hin). apply in_seq in Hin.
    destruct Sh1 as (_ & P & _). split; lia. }
  exists w2. splits; auto.
  intros m Hm. rewrite P2 by (destruct Sh1 as (R' & _); rewrite R'; exact Hm).
  rewrite (peek_none _ _ _ (S0 m)), Z.add_0_l, last_runs_sum. f_equal. f_equal.
  rewrite !map_map.
  rewrite <- (map_nth_seq tasks []). rewrite map_map. fold n.
  apply map_ext_in. intros k Hin. apply in_seq in Hin.
  replace (1 + 4 * k)%nat with (1 + 4 * (0 + k))%nat by lia.
  rewrite (P1 k (nth k tasks [])); [|apply nth_error_nth'; unfold n in Hin; lia|exact Hm].
  destruct (nth k tasks []); reflexivity.
Qed.

(* the code as it is (no reset on the worker): a task run twice by the same worker is
   counted twice.  One task, two identical runs adding 21 to counter 1: 42 reported. *)
Theorem bigmachine_recompute_overcounts_refuted :
  exists tasks,
    (forall runs, In runs tasks -> runs_ok 2 runs) /\
    let '(w, r) := run_bigmachine_runs false 2 tasks in
    r = Ok tt /\ peek w 0 1 = 42 /\ wrap (sum_incs 1 (last_runs tasks)) = 21.
Proof.
  exists [[[(1%nat, 21)]; [(1%nat, 21)]]]. split.
  - intros runs [<-|[]] l [<-|[<-|[]]] c n [E|[]]; inversion E; subst; lia.
  - vm_compute. auto.
Qed.

(* ================= a task submitted again to the worker that still holds it ================= *)

(* the worker answers from its completed task and fills the reply: the driver's task
   scope ends with the values of the worker's task scope, which is not touched *)
Lemma bigmachine_answer_spec w wt rw rd t w1 r :
  wf w -> (wt < plen w)%nat -> (rw < plen w)%nat -> (rd < plen w)%nat -> (t < plen w)%nat ->
  wt <> rw -> wt <> rd -> wt <> t -> rw <> rd -> rw <> t -> rd <> t ->
  bigmachine_answer true w wt rw rd t = (w1, r) ->
  r = Ok tt /\ wf w1 /\ shape w w1 /\
  (forall m, (m < wreg w)%nat -> peek w1 t m = peek w wt m) /\
  (forall k m, k <> rw -> k <> rd -> k <> t ->
               slot_of w1 k m = slot_of w k m /\ peek w1 k m = peek w k m).
Proof.
  intros W Hwt Hrw Hrd Ht N1 N2 N3 N4 N5 N6 B. unfold bigmachine_answer in B.
  destruct (reset_nil_frame w rw W Hrw) as (Wa & Sha & _ & Fa).
  set (wa := reset_nil w rw) in *.
  destruct (reset_nil_frame wa rd Wa (shape_plen _ _ _ Sha Hrd)) as (Wb0 & Shb0 & _ & Fb0).
  set (w0 := reset_nil wa rd) in *.
  assert (Sh0 := shape_trans _ _ _ Sha Shb0).
  assert (F0 : forall k m, k <> rw -> k <> rd -> slot_of w0 k m = slot_of w k m /\ peek w0 k m = peek w k m).
  { intros k m K1 K2. destruct (Fa k m K1) as (A1 & A2). destruct (Fb0 k m K2) as (B1 & B2). split; congruence. }
  cbv zeta in B.
  destruct (reset w0 rw wt) as [wb rb] eqn:R1.
  destruct (reset_spec _ _ _ _ _ Wb0 (shape_plen _ _ _ Sh0 Hrw) (shape_plen _ _ _ Sh0 Hwt) R1)
    as (-> & Wb & Shb & Hb & Sb & Ob).
  assert (Shab := shape_trans _ _ _ Sh0 Shb).
  destruct (encode wb rw) as [wc rc] eqn:E.
  destruct (encode_spec _ _ _ _ Wb (shape_plen _ _ _ Shab Hrw) E)
    as (pl & -> & Lpl & Ppl & Rpl & Wc & Shc & Hc & Sc).
  assert (Shac := shape_trans _ _ _ Shab Shc).
  destruct (decode wc rd pl) as [wd rd'] eqn:Dc.
  assert (Lc : length pl = wreg wc) by (destruct Shc as (R' & _); lia).
  destruct (decode_spec _ _ _ _ _ Wc (shape_plen _ _ _ Shac Hrd) Lc Rpl Dc)
    as (-> & Wd & Shd & Pd & Od & _).
  assert (Shad := shape_trans _ _ _ Shac Shd).
  destruct (reset_spec _ _ _ _ _ Wd (shape_plen _ _ _ Shad Ht) (shape_plen _ _ _ Shad Hrd) B)
    as (-> & W1 & Sh1 & H1 & S1 & O1).
  splits; auto.
  - eapply shape_trans; eauto.
  - intros m Hm.
    rewrite (peek_alias wd w1 t rd m (S1 m) H1).
    rewrite Pd, Ppl by (destruct Shab as (R' & _); lia).
    rewrite (peek_alias w0 wb rw wt m (Sb m) Hb).
    apply (F0 wt m N1 N2).
  - intros k m K2 K3 K4.
    destruct (F0 k m K2 K3) as (A1 & A2). destruct (Od k m K3) as (D1 & D2).
    split.
    + rewrite (O1 k m K4), D1, Sc, (Ob k m K2). exact A1.
    + rewrite (peek_ext wd w1 k m (O1 k m K4) H1), D2.
      rewrite (peek_ext wb wc k m (Sc k m) Hc).
      rewrite (peek_ext w0 wb k m (Ob k m K2) Hb). exact A2.
Qed.

Lemma bigmachine_answers_spec : forall n w wt rw rd t w1 r,
  wf w -> (wt < plen w)%nat -> (rw < plen w)%nat -> (rd < plen w)%nat -> (t < plen w)%nat ->
  wt <> rw -> wt <> rd -> wt <> t -> rw <> rd -> rw <> t -> rd <> t ->
  (forall m, (m < wreg w)%nat -> peek w t m = peek w wt m) ->
  bigmachine_answers true w wt rw rd t n = (w1, r) ->
  r = Ok tt /\ wf w1 /\ shape w w1 /\
  (forall m, (m < wreg w)%nat -> peek w1 t m = peek w wt m) /\
  (forall k m, k <> wt -> k <> rw -> k <> rd -> k <> t ->
               slot_of w1 k m = slot_of w k m /\ peek w1 k m = peek w k m).
Proof.
  induction n as [|n IH]; intros w wt rw rd t w1 r W Hwt Hrw Hrd Ht N1 N2 N3 N4 N5 N6 Eq B; simpl in B.
  - inversion B; subst. splits; auto using shape_refl.
  - destruct (bigmachine_answer true w wt rw rd t) as [wa ra] eqn:A.
    destruct (bigmachine_answer_spec _ _ _ _ _ _ _ W Hwt Hrw Hrd Ht N1 N2 N3 N4 N5 N6 A)
      as (-> & Wa & Sha & Pa & Fa).
    assert (Eqa : forall m, (m < wreg wa)%nat -> peek wa t m = peek wa wt m).
    { intros m Hm. destruct Sha as (R' & _). rewrite Pa by lia.
      symmetry. apply (Fa wt m N1 N2 N3). }
    destruct (IH wa wt rw rd t w1 r Wa (shape_plen _ _ _ Sha Hwt) (shape_plen _ _ _ Sha Hrw)
                (shape_plen _ _ _ Sha Hrd) (shape_plen _ _ _ Sha Ht) N1 N2 N3 N4 N5 N6 Eqa B)
      as (-> & W1 & Sh1 & P1 & F1).
    splits; auto.
    + eapply shape_trans; eauto.
    + intros m Hm. rewrite P1 by (destruct Sha as (R' & _); lia). apply (Fa wt m N1 N2 N3).
    + intros k m K1 K2 K3 K4. destruct (F1 k m K1 K2 K3 K4) as (A1 & A2). destruct (Fa k m K2 K3 K4) as (C & D).
      split; congruence.
Qed.

Lemma bigmachine_task_resub_spec (wr : bool) w wt rw rd t ln w1 r :
  wf w -> (wt < plen w)%nat -> (rw < plen w)%nat -> (rd < plen w)%nat -> (t < plen w)%nat ->
  wt <> rw -> wt <> rd -> wt <> t -> rw <> rd -> rw <> t -> rd <> t ->
  (forall m, slot_of w wt m = None) -> counters_ok (wreg w) (fst ln) ->
  bigmachine_task_resub wr true w wt rw rd t ln = (w1, r) ->
  r = Ok tt /\ wf w1 /\ shape w w1 /\
  (forall m, (m < wreg w)%nat -> peek w1 t m = wrap (sum_incs m (fst ln))) /\
  (forall k m, k <> wt -> k <> rw -> k <> rd -> k <> t ->
               slot_of w1 k m = slot_of w k m /\ peek w1 k m = peek w k m).
Proof.
  intros W Hwt Hrw Hrd Ht N1 N2 N3 N4 N5 N6 Fresh Ck B. unfold bigmachine_task_resub in B.
  destruct (bigmachine_runs wr w wt rw rd t [fst ln]) as [wa ra] eqn:R.
  assert (Cond : wr = true \/ ((forall m, slot_of w wt m = None) /\ (length [fst ln] <= 1)%nat)).
  { right. split; auto. }
  assert (Ck' : runs_ok (wreg w) [fst ln]) by (intros l [<-|[]]; exact Ck).
  destruct (bigmachine_runs_spec wr [fst ln] w wt rw rd t wa ra W Hwt Hrw Hrd Ht N1 N2 N3 N4 N5 N6 Cond Ck' R)
    as (-> & Wa & Sha & Pa & Fa & Qa).
  assert (Eqa : forall m, (m < wreg wa)%nat -> peek wa t m = peek wa wt m).
  { intros m Hm. destruct Sha as (R' & _). rewrite Pa by lia. rewrite Qa. reflexivity. }
  destruct (bigmachine_answers_spec (snd ln) wa wt rw rd t w1 r Wa (shape_plen _ _ _ Sha Hwt)
              (shape_plen _ _ _ Sha Hrw) (shape_plen _ _ _ Sha Hrd) (shape_plen _ _ _ Sha Ht)
              N1 N2 N3 N4 N5 N6 Eqa B) as (-> & W1 & Sh1 & P1 & F1).
  splits; auto.
  - eapply shape_trans; eauto.
  - intros m Hm. rewrite P1 by (destruct Sha as (R' & _); lia). rewrite Qa. reflexivity.
  - intros k m K1 K2 K3 K4. destruct (F1 k m K1 K2 K3 K4) as (A1 & A2). destruct (Fa k m K1 K2 K3 K4) as (C & D).
    split; congruence.
Qed.

Lemma run_bigmachine_tasks_resub_spec (wr : bool) : forall tasks w k w1 r,
  wf w -> (4 * (k + length tasks) < plen w)%nat ->
  (forall j m, (4 * k < j)%nat -> slot_of w j m = None) ->
  (forall ln, In ln tasks -> counters_ok (wreg w) (fst ln)) ->
  run_bigmachine_tasks_resub wr true w k tasks = (w1, r) ->
  r = Ok tt /\ wf w1 /\ shape w w1 /\
  (forall n ln, nth_error tasks n = Some ln ->
     forall m, (m < wreg w)%nat -> peek w1 (1 + 4 * (k + n)) m = wrap (sum_incs m (fst ln))) /\
  (forall j m, (j <= 4 * k)%nat -> slot_of w1 j m = slot_of w j m /\ peek w1 j m = peek w j m).
Proof.
  induction tasks as [|ln tasks IH]; intros w k w1 r W Hk Fresh Ck R.
  - simpl in R. inversion R; subst. splits; auto using shape_refl. intros [|n] l E; discriminate.
  - simpl in Hk.
    change (run_bigmachine_tasks_resub wr true w k (ln :: tasks)) with
      (match bigmachine_task_resub wr true w (2 + 4 * k) (3 + 4 * k) (4 + 4 * k) (1 + 4 * k) ln with
       | (w1, Ok _) => run_bigmachine_tasks_resub wr true w1 (S k) tasks
       | (w1, Panic) => (w1, Panic)
       end) in R.
    destruct (bigmachine_task_resub wr true w (2 + 4 * k) (3 + 4 * k) (4 + 4 * k) (1 + 4 * k) ln) as [wa ra] eqn:B.
    assert (Fr0 : forall m, slot_of w (2 + 4 * k)%nat m = None) by (intro m; apply Fresh; lia).
    destruct (bigmachine_task_resub_spec wr w (2 + 4 * k)%nat (3 + 4 * k)%nat (4 + 4 * k)%nat (1 + 4 * k)%nat ln wa ra W
                ltac:(lia) ltac:(lia) ltac:(lia) ltac:(lia)
                ltac:(lia) ltac:(lia) ltac:(lia) ltac:(lia) ltac:(lia) ltac:(lia)
                Fr0 (Ck ln (or_introl eq_refl)) B)
      as (-> & Wa & Sha & Pa & Fa).
    assert (Hka : (4 * (S k + length tasks) < plen wa)%nat) by (destruct Sha as (_ & P & _); lia).
    assert (Fra : forall j m, (4 * S k < j)%nat -> slot_of wa j m = None).
    { intros j m Hj. rewrite (proj1 (Fa j m ltac:(lia) ltac:(lia) ltac:(lia) ltac:(lia))).
      apply Fresh. lia. }
    assert (Cka : forall l', In l' tasks -> counters_ok (wreg wa) (fst l')).
    { intros l' Hin. destruct Sha as (R' & _). rewrite R'. apply Ck. right. exact Hin. }
    destruct (IH wa (S k) w1 r Wa Hka Fra Cka R) as (-> & W1 & Sh1 & P1 & F1).
    splits; auto.
    + eapply shape_trans; eauto.
    + intros [|n] l' E m Hm; simpl in E.
      * inversion E; subst l'.
        rewrite (proj2 (F1 (1 + 4 * (k + 0))%nat m ltac:(lia))).
        replace (1 + 4 * (k + 0))%nat with (1 + 4 * k)%nat by lia.
        apply Pa. exact Hm.
      * replace (1 + 4 * (k + S n))%nat with (1 + 4 * (S k + n))%nat by lia.
        eapply P1; eauto. destruct Sha as (R' & _). lia.
    + intros j m Hj.
      destruct (F1 j m ltac:(lia)) as (A & B'). destruct (Fa j m ltac:(lia) ltac:(lia) ltac:(lia) ltac:(lia)) as (C & E).
      split; congruence.
Qed.

(* however many times tasks are submitted again to the worker that still holds them, the
   total is that of their one execution: the reply carries the completed task's scope *)
Theorem result_total_after_resubmission_to_same_worker (wr : bool) reg tasks :
  (forall ln, In ln tasks -> counters_ok reg (fst ln)) ->
  exists w, run_bigmachine_resub wr true reg tasks = (w, Ok tt) /\ wf w /\
  forall m, (m < reg)%nat -> peek w 0 m = wrap (sum_incs m (concat (map fst tasks))).
Proof.
  intro Ck. unfold run_bigmachine_resub.
  set (n := length tasks). set (w0 := init reg (1 + 4 * n)).
  assert (W0 : wf w0) by apply wf_init.
  assert (P0 : plen w0 = (1 + 4 * n)%nat) by (unfold plen, w0, init; cbn [wpool]; apply repeat_length).
  destruct (run_bigmachine_tasks_resub wr true w0 0 tasks) as [w1 r1] eqn:R.
  destruct (run_bigmachine_tasks_resub_spec wr tasks w0 0 w1 r1 W0) as (-> & W1 & Sh1 & P1 & F1); auto.
  { rewrite P0. unfold n. lia. }
  { intros j m _. apply slot_init. }
  assert (S0 : forall m, slot_of w1 0 m = None).
  { intro m. rewrite (proj1 (F1 0%nat m ltac:(lia))). apply slot_init. }
  destruct (merge_tasks w1 (map (fun k => (1 + 4 * k)%nat) (seq 0 n))) as [w2 r2] eqn:M.
  destruct (merge_tasks_spec (map (fun k => (1 + 4 * k)%nat) (seq 0 n)) w1 w2 r2 W1) as (-> & W2 & Sh2 & P2); auto.
  { destruct Sh1 as (_ & P & _). lia. }
  { apply private_of_none. exact S0. }
  { intros t Hin. apply in_map_iff in Hin. destruct Hin as (k & <- & Hin). apply in_seq in Hin.
    destruct Sh1 as (_ & P & _). split; lia. }
  exists w2. splits; auto.
  intros m Hm. rewrite P2 by (destruct Sh1 as (R' & _); rewrite R'; exact Hm).
  rewrite (peek_none _ _ _ (S0 m)), Z.add_0_l.
  rewrite sum_incs_concat.
  rewrite <- (wrap_zsum_wrap (map (sum_incs m) (map fst tasks))). f_equal. f_equal.
  rewrite !map_map.
  set (d := (@nil (nat * Z), 0%nat)).
  rewrite <- (map_nth_seq tasks d). rewrite map_map. fold n.
  apply map_ext_in. intros k Hin. apply in_seq in Hin.
  replace (1 + 4 * k)%nat with (1 + 4 * (0 + k))%nat by lia.
  apply (P1 k (nth k tasks d)); [apply nth_error_nth'; unfold n in Hin; lia|exact Hm].
Qed.

(* a worker whose early return leaves the reply empty: the driver's Reset(&reply.Scope)
   wipes the task.  One task adding 21 to counter 1, submitted again once: 0 reported. *)
Theorem resubmission_empty_reply_refuted :
  exists tasks,
    (forall ln, In ln tasks -> counters_ok 2 (fst ln)) /\
    let '(w, r) := run_bigmachine_resub true false 2 tasks in
    r = Ok tt /\ peek w 0 1 = 0 /\ wrap (sum_incs 1 (concat (map fst tasks))) = 21.
Proof.
  exists [([(1%nat, 21)], 1%nat)]. split.
  - intros ln [<-|[]] c n [E|[]]; inversion E; subst; lia.
  - vm_compute. auto.
Qed.

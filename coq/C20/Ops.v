(* C20 — specifications of Incr, Value, Merge, Reset, GobEncode and GobDecode on
   well-formed worlds, in terms of the pure observation [peek]. *)
From Coq Require Import List ZArith Lia Bool Arith.
Import ListNotations.
Require Import BS.C20.Model BS.C20.Base.
Local Open Scope Z_scope.

Lemma shape_plen w w' i : shape w w' -> (i < plen w)%nat -> (i < plen w')%nat.
Proof. intros (_ & P & _) H. lia. Qed.
Lemma shape_reg w w' m : shape w w' -> (m < wreg w)%nat -> (m < wreg w')%nat.
Proof. intros (R & _ & _) H. lia. Qed.

(* a cell holding the pointer returned by [instance] was already sharing it *)
Lemma fresh_not_old w k m p :
  wf w -> (length (wheap w) <= p)%nat -> slot_of w k m <> Some p.
Proof. intros W Hp E. pose proof (wf_ptr w W _ _ _ E). lia. Qed.

(* ---------------- Counter.Incr ---------------- *)
Lemma incr_spec w i c n w1 r :
  wf w -> (i < plen w)%nat -> (c < wreg w)%nat -> incr w i c n = (w1, r) ->
  r = Ok tt /\ wf w1 /\ shape w w1 /\
  peek w1 i c = wrap (peek w i c + n) /\
  (forall k m, m <> c -> peek w1 k m = peek w k m) /\
  (forall k, k <> i -> ~ shares w i k c -> peek w1 k c = peek w k c) /\
  (forall k m, (k <> i \/ m <> c) -> slot_of w1 k m = slot_of w k m) /\
  (slot_of w1 i c = slot_of w i c \/
   (slot_of w i c = None /\ exists p, slot_of w1 i c = Some p /\ (length (wheap w) <= p)%nat)).
Proof.
  intros W Hi Hc I. unfold incr in I.
  destruct (instance w i c) as [w' r'] eqn:In.
  destruct (instance_spec _ _ _ _ _ W Hi Hc In)
    as (p & -> & W' & Sh & Sp & Pp & Old & Oth & Hv & Pk).
  inversion I; subst w1 r. clear I.
  destruct (poke_spec w' p (wrap (hval w' p + n)) W' Pp (wrap_range _)) as (W2 & Sh2 & S2 & _ & P2).
  splits; auto.
  - eapply shape_trans; eauto.
  - rewrite P2, Sp, Nat.eqb_refl. rewrite <- (peek_some _ _ _ _ Sp), Pk. reflexivity.
  - intros k m N. rewrite P2. rewrite <- Pk. unfold peek.
    destruct (slot_of w' k m) as [q|] eqn:Sq; auto.
    destruct (Nat.eqb_spec q p) as [->|]; auto.
    exfalso. apply N. eapply (wf_col w' W'); eauto.
  - intros k N NS. rewrite P2. rewrite <- Pk. unfold peek.
    destruct (slot_of w' k c) as [q|] eqn:Sq; auto.
    destruct (Nat.eqb_spec q p) as [->|]; auto.
    exfalso. rewrite Oth in Sq by auto.
    destruct Old as [O|(O & Fr)].
    + apply NS. exists p. auto.
    + exact (fresh_not_old w k c p W Fr Sq).
  - rewrite S2, Sp. destruct Old as [O|(O & Fr)]; [left; auto|right]. split; auto. exists p. auto.
Qed.

(* ---------------- Counter.Value ---------------- *)
Lemma value_spec w i c w1 r :
  wf w -> (i < plen w)%nat -> (c < wreg w)%nat -> value w i c = (w1, r) ->
  r = Ok (peek w i c) /\ wf w1 /\ shape w w1 /\
  (forall k m, peek w1 k m = peek w k m) /\
  (forall k m, (k <> i \/ m <> c) -> slot_of w1 k m = slot_of w k m).
Proof.
  intros W Hi Hc V. unfold value in V.
  destruct (instance w i c) as [w' r'] eqn:In.
  destruct (instance_spec _ _ _ _ _ W Hi Hc In)
    as (p & -> & W' & Sh & Sp & Pp & Old & Oth & Hv & Pk).
  inversion V; subst w1 r. clear V.
  splits; auto.
  rewrite <- (peek_some _ _ _ _ Sp), Pk. reflexivity.
Qed.

(* ---------------- one iteration of Merge ---------------- *)
Lemma merge_step_spec i j w m w1 r :
  wf w -> (i < plen w)%nat -> (j < plen w)%nat -> (m < wreg w)%nat ->
  merge_step i j w m = (w1, r) ->
  r = Ok tt /\ wf w1 /\ shape w w1 /\
  peek w1 i m = wrap (peek w i m + peek w j m) /\
  (forall k m', m' <> m -> peek w1 k m' = peek w k m' /\ slot_of w1 k m' = slot_of w k m') /\
  (forall k, k <> i -> slot_of w1 k m = slot_of w k m) /\
  (forall k, k <> i -> ~ shares w i k m -> peek w1 k m = peek w k m) /\
  (slot_of w1 i m = slot_of w i m \/
   (slot_of w i m = None /\ exists p, slot_of w1 i m = Some p /\ (length (wheap w) <= p)%nat)).
Proof.
  intros W Hi Hj Hm St. unfold merge_step in St.
  destruct (load w j m) as [wa ra] eqn:L.
  destruct (load_spec _ _ _ _ _ W Hj Hm L) as (-> & Wa & Ra & Ha & Pa & Sa).
  assert (PkA : forall k m', peek wa k m' = peek w k m').
  { intros. unfold peek, hval. rewrite Sa, Ha. reflexivity. }
  destruct (slot_of w j m) as [q|] eqn:Sq.
  - (* u has an instance *)
    assert (Hia : (i < plen wa)%nat) by lia.
    assert (Hma : (m < wreg wa)%nat) by lia.
    destruct (instance wa i m) as [wb rb] eqn:In.
    destruct (instance_spec _ _ _ _ _ Wa Hia Hma In)
      as (p & -> & Wb & Shb & Sp & Pp & Old & Oth & Hv & Pk).
    inversion St; subst w1 r. clear St.
    destruct (poke_spec wb p (wrap (hval wb p + hval wb q)) Wb Pp (wrap_range _)) as (W2 & Sh2 & S2 & _ & P2).
    assert (ShA : shape w wa) by (unfold shape; splits; auto; rewrite Ha; lia).
    (* the source instance, as seen after [instance] *)
    assert (Sqb : slot_of wb j m = Some q).
    { destruct (Nat.eq_dec j i) as [->|N].
      - destruct Old as [O|(O & _)].
        + rewrite Sa, Sq in O. inversion O; subst. exact Sp.
        + rewrite Sa, Sq in O. discriminate.
      - rewrite Oth by auto. rewrite Sa. exact Sq. }
    assert (Hq : hval wb q = peek w j m).
    { rewrite <- (peek_some _ _ _ _ Sqb), Pk, PkA. reflexivity. }
    assert (Hpv : hval wb p = peek w i m).
    { rewrite <- (peek_some _ _ _ _ Sp), Pk, PkA. reflexivity. }
    splits; auto.
    + eapply shape_trans; [exact ShA|]. eapply shape_trans; eauto.
    + rewrite P2, Sp, Nat.eqb_refl, Hpv, Hq. reflexivity.
    + intros k m' N. split.
      * rewrite P2. rewrite <- PkA, <- Pk. unfold peek.
        destruct (slot_of wb k m') as [q'|] eqn:Sq'; auto.
        destruct (Nat.eqb_spec q' p) as [->|]; auto.
        exfalso. apply N. eapply (wf_col wb Wb); eauto.
      * rewrite S2, Oth by auto. apply Sa.
    + intros k N. rewrite S2, Oth by auto. apply Sa.
    + intros k N NS. rewrite P2. rewrite <- PkA, <- Pk. unfold peek.
      destruct (slot_of wb k m) as [q'|] eqn:Sq'; auto.
      destruct (Nat.eqb_spec q' p) as [->|]; auto.
      exfalso. rewrite Oth, Sa in Sq' by auto.
      destruct Old as [O|(O & Fr)].
      * apply NS. exists p. rewrite Sa in O. auto.
      * rewrite Ha in Fr. exact (fresh_not_old w k m p W Fr Sq').
    + rewrite S2, Sp. destruct Old as [O|(O & Fr)].
      * left. rewrite Sa in O. auto.
      * right. rewrite Sa in O. split; auto. exists p. rewrite Ha in Fr. auto.
  - (* inst == nil: continue *)
    inversion St; subst w1 r. clear St.
    splits; auto.
    + unfold shape; splits; auto. rewrite Ha. lia.
    + rewrite PkA, (peek_none _ _ _ Sq), Z.add_0_r.
      symmetry. apply wrap_small. apply peek_in64. exact W.
Qed.

(* ---------------- Scope.Merge ---------------- *)
Lemma merge_loop i j : forall ms w w1 r,
  wf w -> (i < plen w)%nat -> (j < plen w)%nat -> NoDup ms ->
  (forall m, In m ms -> (m < wreg w)%nat) ->
  for_metrics (merge_step i j) ms w = (w1, r) ->
  r = Ok tt /\ wf w1 /\ shape w w1 /\
  (forall m, In m ms -> peek w1 i m = wrap (peek w i m + peek w j m)) /\
  (forall k m, ~ In m ms -> peek w1 k m = peek w k m /\ slot_of w1 k m = slot_of w k m) /\
  (forall k m, k <> i -> slot_of w1 k m = slot_of w k m) /\
  (forall k m, k <> i -> ~ shares w i k m -> peek w1 k m = peek w k m) /\
  (forall m, slot_of w1 i m = slot_of w i m \/
             (slot_of w i m = None /\ exists p, slot_of w1 i m = Some p /\ (length (wheap w) <= p)%nat)).
Proof.
  induction ms as [|m0 r0 IH]; intros w w1 r W Hi Hj ND Hm F; simpl in F.
  - inversion F; subst. splits; auto using shape_refl.
    intros m [].
  - destruct (merge_step i j w m0) as [wa ra] eqn:St.
    assert (Hm0 : (m0 < wreg w)%nat) by (apply Hm; left; reflexivity).
    destruct (merge_step_spec _ _ _ _ _ _ W Hi Hj Hm0 St)
      as (-> & Wa & Sha & Pa & Fra & Ska & Nsa & Sla).
    inversion ND as [|? ? Nin ND']; subst.
    assert (Hia := shape_plen _ _ _ Sha Hi). assert (Hja := shape_plen _ _ _ Sha Hj).
    assert (Hma : forall m, In m r0 -> (m < wreg wa)%nat).
    { intros m Hin. eapply shape_reg; eauto. apply Hm. right. exact Hin. }
    destruct (IH wa w1 r Wa Hia Hja ND' Hma F) as (-> & W1 & Sh1 & P1 & Fr1 & Sk1 & Ns1 & Sl1).
    splits; auto.
    + eapply shape_trans; eauto.
    + intros m [<-|Hin].
      * rewrite (proj1 (Fr1 i m0 Nin)). exact Pa.
      * assert (m <> m0) by (intro; subst; contradiction).
        rewrite (P1 m Hin). rewrite (proj1 (Fra i m H)), (proj1 (Fra j m H)). reflexivity.
    + intros k m Nn.
      assert (m <> m0) by (intro; subst; apply Nn; left; reflexivity).
      assert (~ In m r0) by (intro; apply Nn; right; assumption).
      destruct (Fr1 k m H0) as (A & B). destruct (Fra k m H) as (C & D).
      split; congruence.
    + intros k m N. rewrite (Sk1 k m N).
      destruct (Nat.eq_dec m m0) as [->|Nm]; [apply Ska; exact N|apply (Fra k m Nm)].
    + intros k m N NS. destruct (Nat.eq_dec m m0) as [->|Nm].
      * rewrite (proj1 (Fr1 k m0 Nin)). apply Nsa; auto.
      * rewrite Ns1; auto. { apply (Fra k m Nm). }
        intros (p & A & B). apply NS. exists p.
        rewrite (proj2 (Fra i m Nm)) in A. rewrite (proj2 (Fra k m Nm)) in B. auto.
    + intro m. destruct (Nat.eq_dec m m0) as [->|Nm].
      * rewrite (proj2 (Fr1 i m0 Nin)). exact Sla.
      * destruct (Sl1 m) as [E|(E & p & E' & Fr)].
        -- left. rewrite E. apply (Fra i m Nm).
        -- rewrite (proj2 (Fra i m Nm)) in E. right. split; auto. exists p. split; auto.
           destruct Sha as (_ & _ & L). lia.
Qed.

Lemma merge_spec w i j w1 r :
  wf w -> (i < plen w)%nat -> (j < plen w)%nat -> merge w i j = (w1, r) ->
  r = Ok tt /\ wf w1 /\ shape w w1 /\
  (forall m, (m < wreg w)%nat -> peek w1 i m = wrap (peek w i m + peek w j m)) /\
  (forall k m, k <> i -> slot_of w1 k m = slot_of w k m) /\
  (forall k m, k <> i -> ~ shares w i k m -> peek w1 k m = peek w k m) /\
  (forall m, slot_of w1 i m = slot_of w i m \/
             (slot_of w i m = None /\ exists p, slot_of w1 i m = Some p /\ (length (wheap w) <= p)%nat)).
Proof.
  intros W Hi Hj Mg. unfold merge, metric_ids in Mg.
  destruct (merge_loop i j (seq 0 (wreg w)) w w1 r W Hi Hj (seq_NoDup _ _)) as (-> & W1 & Sh & P & _ & Sk & Ns & Sl); auto.
  - intros m Hin. apply in_seq in Hin. lia.
  - splits; auto. intros m Hm. apply P. apply in_seq. lia.
Qed.

(* ---------------- slots beyond the registry ---------------- *)
Lemma slot_beyond w i m : wf w -> (wreg w <= m)%nat -> slot_of w i m = None.
Proof.
  intros W Hm. unfold slot_of. destruct (get_scope w i) as [l|] eqn:G; auto.
  apply nth_overflow. rewrite (wf_len w W i l G). exact Hm.
Qed.

(* ---------------- Scope.Reset ---------------- *)
Lemma reset_step_spec i j w m w1 r :
  wf w -> (i < plen w)%nat -> (j < plen w)%nat -> (m < wreg w)%nat ->
  reset_step i j w m = (w1, r) ->
  r = Ok tt /\ wf w1 /\ shape w w1 /\ wheap w1 = wheap w /\
  slot_of w1 i m = slot_of w j m /\
  (forall k m', (k <> i \/ m' <> m) -> slot_of w1 k m' = slot_of w k m').
Proof.
  intros W Hi Hj Hm St. unfold reset_step in St.
  destruct (load w j m) as [wa ra] eqn:L.
  destruct (load_spec _ _ _ _ _ W Hj Hm L) as (-> & Wa & Ra & Ha & Pa & Sa).
  assert (Hia : (i < plen wa)%nat) by lia.
  assert (Hma : (m < wreg wa)%nat) by lia.
  assert (Hv : forall p, slot_of w j m = Some p -> (p < length (wheap wa))%nat /\
                         forall k m', slot_of wa k m' = Some p -> m' = m).
  { intros p E. split.
    - rewrite Ha. eapply (wf_ptr w W); eauto.
    - intros k m' E'. rewrite Sa in E'. eapply (wf_col w W); eauto. }
  destruct (store_spec _ _ _ _ _ _ Wa Hia Hma Hv St) as (-> & W1 & R1 & H1 & P1 & S1 & O1).
  splits; auto.
  - unfold shape. splits; try lia. rewrite H1, Ha. lia.
  - congruence.
  - intros k m' D. rewrite O1 by exact D. apply Sa.
Qed.

Lemma reset_loop i j : forall ms w w1 r,
  wf w -> (i < plen w)%nat -> (j < plen w)%nat -> NoDup ms ->
  (forall m, In m ms -> (m < wreg w)%nat) ->
  for_metrics (reset_step i j) ms w = (w1, r) ->
  r = Ok tt /\ wf w1 /\ shape w w1 /\ wheap w1 = wheap w /\
  (forall m, In m ms -> slot_of w1 i m = slot_of w j m) /\
  (forall k m, (k <> i \/ ~ In m ms) -> slot_of w1 k m = slot_of w k m).
Proof.
  induction ms as [|m0 r0 IH]; intros w w1 r W Hi Hj ND Hm F; simpl in F.
  - inversion F; subst. splits; auto using shape_refl. intros m [].
  - destruct (reset_step i j w m0) as [wa ra] eqn:St.
    assert (Hm0 : (m0 < wreg w)%nat) by (apply Hm; left; reflexivity).
    destruct (reset_step_spec _ _ _ _ _ _ W Hi Hj Hm0 St) as (-> & Wa & Sha & Ha & Sa & Oa).
    inversion ND as [|? ? Nin ND']; subst.
    assert (Hia := shape_plen _ _ _ Sha Hi). assert (Hja := shape_plen _ _ _ Sha Hj).
    assert (Hma : forall m, In m r0 -> (m < wreg wa)%nat).
    { intros m Hin. eapply shape_reg; eauto. apply Hm. right. exact Hin. }
    destruct (IH wa w1 r Wa Hia Hja ND' Hma F) as (-> & W1 & Sh1 & H1 & S1 & O1).
    splits; auto.
    + eapply shape_trans; eauto.
    + congruence.
    + intros m [<-|Hin].
      * rewrite O1 by (right; exact Nin). exact Sa.
      * assert (m <> m0) by (intro; subst; contradiction).
        rewrite (S1 m Hin). apply Oa. right. exact H.
    + intros k m D. rewrite O1.
      * apply Oa. destruct D as [D|D]; [left; exact D|right]. intro; subst. apply D. left. reflexivity.
      * destruct D as [D|D]; [left; exact D|right]. intro. apply D. right. assumption.
Qed.

Lemma reset_spec w i j w1 r :
  wf w -> (i < plen w)%nat -> (j < plen w)%nat -> reset w i j = (w1, r) ->
  r = Ok tt /\ wf w1 /\ shape w w1 /\ wheap w1 = wheap w /\
  (forall m, slot_of w1 i m = slot_of w j m) /\
  (forall k m, k <> i -> slot_of w1 k m = slot_of w k m).
Proof.
  intros W Hi Hj Rs. unfold reset, metric_ids in Rs.
  destruct (reset_loop i j (seq 0 (wreg w)) w w1 r W Hi Hj (seq_NoDup _ _)) as (-> & W1 & Sh & H1 & S1 & O1); auto.
  - intros m Hin. apply in_seq in Hin. lia.
  - splits; auto.
    intro m. destruct (Nat.lt_ge_cases m (wreg w)) as [L|L].
    + apply S1. apply in_seq. lia.
    + rewrite (slot_beyond w j m W L). apply slot_beyond; auto. destruct Sh as (R & _). lia.
Qed.

Lemma reset_nil_spec w i :
  wf w -> (i < plen w)%nat ->
  let w1 := reset_nil w i in
  wf w1 /\ shape w w1 /\ wheap w1 = wheap w /\
  (forall m, slot_of w1 i m = None) /\
  (forall k m, k <> i -> slot_of w1 k m = slot_of w k m).
Proof.
  intros W Hi w1.
  assert (Si : forall m, slot_of w1 i m = None).
  { intro m. unfold slot_of, w1, reset_nil. rewrite get_set_same by exact Hi. reflexivity. }
  assert (So : forall k m, k <> i -> slot_of w1 k m = slot_of w k m).
  { intros k m N. unfold slot_of, w1, reset_nil. rewrite get_set_other by exact N. reflexivity. }
  assert (Sany : forall k m p, slot_of w1 k m = Some p -> slot_of w k m = Some p).
  { intros k m p E. destruct (Nat.eq_dec k i) as [->|N]; [rewrite Si in E; discriminate|].
    rewrite So in E by exact N. exact E. }
  splits; auto.
  - constructor.
    + intros k l G. unfold w1, reset_nil in G. destruct (Nat.eq_dec k i) as [->|N].
      * rewrite get_set_same in G by exact Hi. discriminate.
      * rewrite get_set_other in G by exact N. exact (wf_len w W k l G).
    + intros k m p E. apply Sany in E. exact (wf_ptr w W k m p E).
    + intros k k' m m' p E E'. apply Sany in E. apply Sany in E'. exact (wf_col w W _ _ _ _ _ E E').
    + intro p. exact (wf_rng w W p).
  - unfold shape, plen, w1, reset_nil, set_scope; simpl. rewrite upd_length. splits; auto.
Qed.

(* ---------------- Scope.GobEncode ---------------- *)
Lemma encode_loop_spec i : forall ms w w1 r,
  wf w -> (i < plen w)%nat -> (forall m, In m ms -> (m < wreg w)%nat) ->
  encode_loop w i ms = (w1, r) ->
  r = Ok (map (fun m => option_map (hval w) (slot_of w i m)) ms) /\
  wf w1 /\ shape w w1 /\ wheap w1 = wheap w /\
  (forall k m, slot_of w1 k m = slot_of w k m).
Proof.
  induction ms as [|m0 r0 IH]; intros w w1 r W Hi Hm E; simpl in E.
  - inversion E; subst. splits; auto using shape_refl.
  - destruct (load w i m0) as [wa ra] eqn:L.
    assert (Hm0 : (m0 < wreg w)%nat) by (apply Hm; left; reflexivity).
    destruct (load_spec _ _ _ _ _ W Hi Hm0 L) as (-> & Wa & Ra & Ha & Pa & Sa).
    destruct (encode_loop wa i r0) as [wb rb] eqn:E'.
    assert (Hia : (i < plen wa)%nat) by lia.
    assert (Hma : forall m, In m r0 -> (m < wreg wa)%nat).
    { intros m Hin. rewrite Ra. apply Hm. right. exact Hin. }
    destruct (IH wa wb rb Wa Hia Hma E') as (-> & Wb & Shb & Hb & Sb).
    inversion E; subst w1 r. clear E.
    splits; auto.
    + f_equal. simpl. f_equal.
      * unfold hval. rewrite Ha. destruct (slot_of w i m0); reflexivity.
      * apply map_ext. intro m. rewrite Sa. unfold hval. rewrite Ha. reflexivity.
    + eapply shape_trans; [|exact Shb]. unfold shape. splits; auto. rewrite Ha. lia.
    + congruence.
    + intros k m. rewrite Sb. apply Sa.
Qed.

Lemma nth_map_seq {A} (f : nat -> A) n m d : (m < n)%nat -> nth m (map f (seq 0 n)) d = f m.
Proof.
  intro H. rewrite (nth_indep _ d (f 0%nat)) by (rewrite map_length, seq_length; exact H).
  rewrite map_nth. rewrite seq_nth by exact H. reflexivity.
Qed.

Lemma encode_spec w i w1 r :
  wf w -> (i < plen w)%nat -> encode w i = (w1, r) ->
  exists pl, r = Ok pl /\ length pl = wreg w /\
  (forall m, (m < wreg w)%nat -> plval pl m = peek w i m) /\
  (forall m z, nth m pl None = Some z -> in64 z) /\
  wf w1 /\ shape w w1 /\ wheap w1 = wheap w /\
  (forall k m, slot_of w1 k m = slot_of w k m).
Proof.
  intros W Hi E. unfold encode, metric_ids in E.
  destruct (encode_loop_spec i (seq 0 (wreg w)) w w1 r W Hi) as (-> & W1 & Sh & H1 & S1); auto.
  - intros m Hin. apply in_seq in Hin. lia.
  - eexists. split; [reflexivity|]. splits; auto.
    + rewrite map_length, seq_length. reflexivity.
    + intros m Hm. unfold plval. rewrite nth_map_seq by exact Hm. unfold peek.
      destruct (slot_of w i m); reflexivity.
    + intros m z Hn. destruct (Nat.lt_ge_cases m (wreg w)) as [L|L].
      * rewrite nth_map_seq in Hn by exact L.
        destruct (slot_of w i m) as [p|]; simpl in Hn; [|discriminate].
        inversion Hn. apply (wf_rng w W).
      * rewrite nth_overflow in Hn by (rewrite map_length, seq_length; exact L). discriminate.
Qed.

(* ---------------- Scope.GobDecode ---------------- *)
Definition somes (pl : list (option Z)) : list Z :=
  flat_map (fun e : option Z => match e with Some z => [z] | None => [] end) pl.

Lemma alloc_all_spec : forall pl h h' ps,
  alloc_all h pl = (h', ps) ->
  length ps = length pl /\ h' = h ++ somes pl /\
  (forall m p, nth m ps None = Some p ->
               (length h <= p < length h')%nat /\ nth m pl None = Some (nth p h' 0)) /\
  (forall m, nth m ps None = None -> nth m pl None = None) /\
  (forall m m' p, nth m ps None = Some p -> nth m' ps None = Some p -> m = m').
Proof.
  induction pl as [|e pl IH]; intros h h' ps A; simpl in A.
  - inversion A; subst. splits; auto.
    + simpl. rewrite app_nil_r. reflexivity.
    + intros [|m] p E; discriminate.
    + intros [|m]; reflexivity.
    + intros [|m] m' p E; discriminate.
  - destruct e as [z|].
    + destruct (alloc_all (h ++ [z]) pl) as [h1 ps1] eqn:A1.
      inversion A; subst h' ps. clear A.
      destruct (IH _ _ _ A1) as (L & Hh & PA & PB & PC).
      assert (Hlen : (length h < length h1)%nat).
      { rewrite Hh, !app_length. simpl. lia. }
      assert (Hz : nth (length h) h1 0 = z).
      { rewrite Hh. rewrite app_nth1 by (rewrite app_length; simpl; lia).
        rewrite app_nth2 by lia. rewrite Nat.sub_diag. reflexivity. }
      splits.
      * simpl. lia.
      * rewrite Hh. simpl. rewrite <- app_assoc. reflexivity.
      * intros [|m] p E; simpl in E.
        -- inversion E; subst p. simpl. rewrite Hz. split; [lia|reflexivity].
        -- destruct (PA m p E) as (B & C). rewrite app_length in B. simpl in B. simpl. split; [lia|exact C].
      * intros [|m] E; simpl in E; [discriminate|]. simpl. apply PB. exact E.
      * intros [|m] [|m'] p E E'; simpl in E, E'; auto.
        -- inversion E; subst p. destruct (PA m' _ E') as (B & _). rewrite app_length in B. simpl in B. lia.
        -- inversion E'; subst p. destruct (PA m _ E) as (B & _). rewrite app_length in B. simpl in B. lia.
        -- f_equal. eapply PC; eauto.
    + destruct (alloc_all h pl) as [h1 ps1] eqn:A1.
      inversion A; subst h' ps. clear A.
      destruct (IH _ _ _ A1) as (L & Hh & PA & PB & PC).
      splits.
      * simpl. lia.
      * exact Hh.
      * intros [|m] p E; simpl in E; [discriminate|]. simpl. apply PA. exact E.
      * intros [|m] E; simpl; auto.
      * intros [|m] [|m'] p E E'; simpl in E, E'; try discriminate.
        f_equal. eapply PC; eauto.
Qed.

Lemma store_loop i ps L : forall ms w w1 r,
  wf w -> (i < plen w)%nat -> NoDup ms -> (forall m, In m ms -> (m < wreg w)%nat) ->
  (forall m p, nth m ps None = Some p -> (L <= p < length (wheap w))%nat) ->
  (forall m m' p, nth m ps None = Some p -> nth m' ps None = Some p -> m = m') ->
  (forall k m' p, slot_of w k m' = Some p -> (L <= p)%nat -> k = i /\ nth m' ps None = Some p) ->
  for_metrics (fun w m => store w i m (nth m ps None)) ms w = (w1, r) ->
  r = Ok tt /\ wf w1 /\ shape w w1 /\ wheap w1 = wheap w /\
  (forall m, In m ms -> slot_of w1 i m = nth m ps None) /\
  (forall k m, (k <> i \/ ~ In m ms) -> slot_of w1 k m = slot_of w k m).
Proof.
  induction ms as [|m0 r0 IH]; intros w w1 r W Hi ND Hm Bd Inj Inv F; simpl in F.
  - inversion F; subst. splits; auto using shape_refl. intros m [].
  - destruct (store w i m0 (nth m0 ps None)) as [wa ra] eqn:St.
    assert (Hm0 : (m0 < wreg w)%nat) by (apply Hm; left; reflexivity).
    assert (Hv : forall p, nth m0 ps None = Some p -> (p < length (wheap w))%nat /\
                           forall k m', slot_of w k m' = Some p -> m' = m0).
    { intros p E. destruct (Bd _ _ E) as (B1 & B2). split; [exact B2|].
      intros k m' E'. destruct (Inv _ _ _ E' B1) as (_ & E''). eapply Inj; eauto. }
    destruct (store_spec _ _ _ _ _ _ W Hi Hm0 Hv St) as (-> & Wa & Ra & Ha & Pa & Sa & Oa).
    inversion ND as [|? ? Nin ND']; subst.
    assert (Sha : shape w wa) by (unfold shape; splits; auto; rewrite Ha; lia).
    assert (Hia : (i < plen wa)%nat) by lia.
    assert (Hma : forall m, In m r0 -> (m < wreg wa)%nat).
    { intros m Hin. rewrite Ra. apply Hm. right. exact Hin. }
    assert (Bda : forall m p, nth m ps None = Some p -> (L <= p < length (wheap wa))%nat).
    { intros m p E. rewrite Ha. eapply Bd; eauto. }
    assert (Inva : forall k m' p, slot_of wa k m' = Some p -> (L <= p)%nat -> k = i /\ nth m' ps None = Some p).
    { intros k m' p E Lp. destruct (Nat.eq_dec k i) as [->|N]; [destruct (Nat.eq_dec m' m0) as [->|N']|].
      - rewrite Sa in E. auto.
      - rewrite Oa in E by auto. eapply Inv; eauto.
      - rewrite Oa in E by auto. eapply Inv; eauto. }
    destruct (IH wa w1 r Wa Hia ND' Hma Bda Inj Inva F) as (-> & W1 & Sh1 & H1 & S1 & O1).
    splits; auto.
    + eapply shape_trans; eauto.
    + congruence.
    + intros m [<-|Hin].
      * rewrite O1 by (right; exact Nin). exact Sa.
      * apply S1. exact Hin.
    + intros k m D. rewrite O1.
      * apply Oa. destruct D as [D|D]; [left; exact D|right]. intro; subst. apply D. left. reflexivity.
      * destruct D as [D|D]; [left; exact D|right]. intro. apply D. right. assumption.
Qed.

Lemma in64_somes h pl :
  (forall q, in64 (nth q h 0)) -> (forall m z, nth m pl None = Some z -> in64 z) ->
  forall q, in64 (nth q (h ++ somes pl) 0).
Proof.
  intros Hh Hp q. destruct (Nat.lt_ge_cases q (length h)) as [L|L].
  - rewrite app_nth1 by exact L. apply Hh.
  - rewrite app_nth2 by exact L. clear Hh. revert Hp. generalize (q - length h)%nat. clear.
    induction pl as [|[z|] pl IH]; intros n Hp; simpl.
    + destruct n; apply in64_0.
    + destruct n as [|n].
      * apply (Hp 0%nat z). reflexivity.
      * apply IH. intros m z' E. apply (Hp (S m) z'). exact E.
    + apply IH. intros m z' E. apply (Hp (S m) z'). exact E.
Qed.

Lemma decode_incompatible w i pl :
  length pl <> wreg w -> decode w i pl = (w, DecIncompatible).
Proof.
  intro N. unfold decode. destruct (Nat.eqb_spec (length pl) (wreg w)); [contradiction|reflexivity].
Qed.

Lemma decode_spec w i pl w1 r :
  wf w -> (i < plen w)%nat -> length pl = wreg w ->
  (forall m z, nth m pl None = Some z -> in64 z) ->
  decode w i pl = (w1, r) ->
  r = DecOk /\ wf w1 /\ shape w w1 /\
  (forall m, peek w1 i m = plval pl m) /\
  (forall k m, k <> i -> slot_of w1 k m = slot_of w k m /\ peek w1 k m = peek w k m) /\
  private w1 i.
Proof.
  intros W Hi Len Rng D. unfold decode in D.
  rewrite Len, Nat.eqb_refl in D. simpl in D.
  destruct (alloc_all (wheap w) pl) as [h ps] eqn:A.
  destruct (alloc_all_spec _ _ _ _ A) as (Lps & Hh & PA & PB & PC).
  set (w0 := set_heap w h) in *.
  assert (W0 : wf w0).
  { constructor.
    - intros k l G. exact (wf_len w W k l G).
    - intros k m p E. unfold w0; simpl. rewrite Hh, app_length.
      pose proof (wf_ptr w W k m p E). lia.
    - intros k k' m m' p E E'. exact (wf_col w W _ _ _ _ _ E E').
    - intro q. unfold hval, w0; simpl. rewrite Hh. apply in64_somes; auto. exact (wf_rng w W). }
  destruct (for_metrics (fun w m => store w i m (nth m ps None)) (seq 0 (length ps)) w0) as [wb rb] eqn:F.
  destruct (store_loop i ps (length (wheap w)) (seq 0 (length ps)) w0 wb rb W0 Hi (seq_NoDup _ _))
    as (-> & Wb & Shb & Hb & Sb & Ob); auto.
  - intros m Hin. apply in_seq in Hin. unfold w0; simpl. lia.
  - intros m p E. apply (PA m p E).
  - intros k m' p E Lp. exfalso. pose proof (wf_ptr w W k m' p E). lia.
  - inversion D; subst w1 r. clear D.
    assert (Hold : forall q, (q < length (wheap w))%nat -> hval wb q = hval w q).
    { intros q Hq. unfold hval. rewrite Hb. unfold w0; simpl. rewrite Hh. apply app_nth1. exact Hq. }
    assert (Si : forall m, slot_of wb i m = nth m ps None).
    { intro m. destruct (Nat.lt_ge_cases m (length ps)) as [Lm|Lm].
      - apply Sb. apply in_seq. lia.
      - rewrite nth_overflow by exact Lm. apply slot_beyond; auto.
        destruct Shb as (R & _). rewrite R. unfold w0; simpl. lia. }
    splits; auto.
    + eapply shape_trans; [|exact Shb]. unfold shape, w0, plen; simpl. splits; auto.
      rewrite Hh, app_length. lia.
    + intro m. unfold peek, plval. rewrite Si.
      destruct (nth m ps None) as [p|] eqn:E.
      * destruct (PA m p E) as (_ & C). rewrite C. unfold hval. rewrite Hb. reflexivity.
      * rewrite (PB m E). reflexivity.
    + intros k m N. assert (E : slot_of wb k m = slot_of w k m) by (apply Ob; left; exact N).
      split; [exact E|]. unfold peek. rewrite E.
      destruct (slot_of w k m) as [q|] eqn:Sq; auto.
      apply Hold. exact (wf_ptr w W k m q Sq).
    + intros k m N (p & E & E'). rewrite Si in E. rewrite Ob in E' by (left; exact N).
      destruct (PA m p E) as (B & _). pose proof (wf_ptr w W k m p E'). lia.
Qed.

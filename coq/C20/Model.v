(* C20 — executable model of metrics.Scope / metrics.Counter (metrics/scope.go,
   metrics/metrics.go) and of the way the executors move task scopes around
   (exec/local.go:80, exec/bigmachine.go:438,764-770, exec/session.go:418).
   No proofs here: the model must still evaluate when a proof is broken.

   World = the global registry size len(metrics) (index 0 is the reserved
   zeroMetric), a heap of *counterValue instances (index = identity, cell = the
   int64 Value) and a pool of Scopes.  A Scope is its storage pointer: nil
   ([None]) or the []unsafe.Pointer list, whose length is len(metrics) AT THE TIME
   the list was created (scope.go:128) and whose entries are nil or a pointer
   to an instance.  Reset(u) copies the POINTERS (scope.go:68), so instances are
   shared afterwards; this is why identities are modelled.
   A Go run-time panic (index out of range when a scope's list is shorter than
   the registry) is the result [Panic]; the world at the moment of the panic is
   kept, because the Go loops have already performed their earlier iterations.
   The CAS loops (scope.go:86-94,123-132) are modelled for a single thread.
   Metric 0 (zeroMetric) is treated like any other index: no reachable scope
   ever holds an instance for it (only the zero Counter{} could create one,
   which is outside the property and never generated). *)
From Coq Require Import List ZArith Lia Bool.
Import ListNotations.
Local Open Scope Z_scope.

(* Go int64 arithmetic: atomic.AddInt64 wraps around *)
Definition wrap (z : Z) : Z :=
  (z + 9223372036854775808) mod 18446744073709551616 - 9223372036854775808.

Inductive res (A : Type) : Type := Ok (a : A) | Panic.
Arguments Ok {A} a.
Arguments Panic {A}.

Notation slot := (option nat) (only parsing).
Notation scope := (option (list (option nat))) (only parsing).

Record world := mkW {
  wreg : nat;              (* len(metrics), >= 1 *)
  wheap : list Z;          (* counterValue instances *)
  wpool : list scope       (* the Scope objects *)
}.

Fixpoint upd {A} (l : list A) (i : nat) (x : A) : list A :=
  match l, i with
  | [], _ => []
  | _ :: r, O => x :: r
  | y :: r, S k => y :: upd r k x
  end.

Definition get_scope (w : world) (i : nat) : scope := nth i (wpool w) None.
Definition set_scope (w : world) (i : nat) (s : scope) : world :=
  mkW (wreg w) (wheap w) (upd (wpool w) i s).
Definition set_heap (w : world) (h : list Z) : world := mkW (wreg w) h (wpool w).
Definition hval (w : world) (p : nat) : Z := nth p (wheap w) 0.

(* ---- Scope.list, scope.go:122: created on demand with the CURRENT registry size ---- *)
Definition touch (w : world) (i : nat) : world * list (option nat) :=
  match get_scope w i with
  | Some l => (w, l)
  | None => let l := repeat None (wreg w) in (set_scope w i (Some l), l)
  end.

(* ---- Scope.load, scope.go:98: list[m.metricID()] ---- *)
Definition load (w : world) (i m : nat) : world * res (option nat) :=
  let '(w1, l) := touch w i in
  (w1, if (m <? length l)%nat then Ok (nth m l None) else Panic).

(* ---- Scope.store, scope.go:109 ---- *)
Definition store (w : world) (i m : nat) (v : option nat) : world * res unit :=
  let '(w1, l) := touch w i in
  if (m <? length l)%nat then (set_scope w1 i (Some (upd l m v)), Ok tt) else (w1, Panic).

(* ---- Scope.instance, scope.go:75: load, else newInstance + CAS ---- *)
Definition instance (w : world) (i m : nat) : world * res nat :=
  let '(w1, l) := touch w i in
  if (m <? length l)%nat then
    match nth m l None with
    | Some p => (w1, Ok p)
    | None =>
        let p := length (wheap w1) in
        (mkW (wreg w1) (wheap w1 ++ [0]) (upd (wpool w1) i (Some (upd l m (Some p)))), Ok p)
    end
  else (w1, Panic).

(* ---- Counter.Incr / Counter.Value, metrics.go:73-80 ---- *)
Definition incr (w : world) (i c : nat) (n : Z) : world * res unit :=
  match instance w i c with
  | (w1, Ok p) => (set_heap w1 (upd (wheap w1) p (wrap (hval w1 p + n))), Ok tt)
  | (w1, Panic) => (w1, Panic)
  end.

Definition value (w : world) (i c : nat) : world * res Z :=
  match instance w i c with
  | (w1, Ok p) => (w1, Ok (hval w1 p))
  | (w1, Panic) => (w1, Panic)
  end.

(* ---- `for _, m := range metrics { ... }` with a body that may panic ---- *)
Fixpoint for_metrics (f : world -> nat -> world * res unit) (ms : list nat) (w : world)
  : world * res unit :=
  match ms with
  | [] => (w, Ok tt)
  | m :: r => match f w m with
              | (w1, Ok _) => for_metrics f r w1
              | (w1, Panic) => (w1, Panic)
              end
  end.

Definition metric_ids (w : world) : list nat := seq 0 (wreg w).

(* ---- Scope.Merge, scope.go:51 (s = pool index i, u = pool index j) ---- *)
Definition merge_step (i j : nat) (w : world) (m : nat) : world * res unit :=
  match load w j m with
  | (w1, Panic) => (w1, Panic)
  | (w1, Ok None) => (w1, Ok tt)                       (* inst == nil: continue *)
  | (w1, Ok (Some q)) =>
      match instance w1 i m with
      | (w2, Panic) => (w2, Panic)
      | (w2, Ok p) =>                                   (* counterValue.merge *)
          (set_heap w2 (upd (wheap w2) p (wrap (hval w2 p + hval w2 q))), Ok tt)
      end
  end.

Definition merge (w : world) (i j : nat) : world * res unit :=
  for_metrics (merge_step i j) (metric_ids w) w.

(* ---- Scope.Reset, scope.go:63 ---- *)
Definition reset_step (i j : nat) (w : world) (m : nat) : world * res unit :=
  match load w j m with
  | (w1, Panic) => (w1, Panic)
  | (w1, Ok v) => store w1 i m v                        (* the pointer is shared *)
  end.

Definition reset (w : world) (i j : nat) : world * res unit :=
  for_metrics (reset_step i j) (metric_ids w) w.

Definition reset_nil (w : world) (i : nat) : world := set_scope w i None.

(* ---- Scope.GobEncode, scope.go:24: one entry per registered metric, in
        registry order; nil where the scope has no instance.  gob flattens the
        *counterValue to its Value. ---- *)
Notation payload := (list (option Z)) (only parsing).

Fixpoint encode_loop (w : world) (i : nat) (ms : list nat) : world * res (list (option Z)) :=
  match ms with
  | [] => (w, Ok [])
  | m :: r =>
      match load w i m with
      | (w1, Panic) => (w1, Panic)
      | (w1, Ok v) =>
          match encode_loop w1 i r with
          | (w2, Ok pl) => (w2, Ok (match v with Some p => Some (hval w1 p) | None => None end :: pl))
          | (w2, Panic) => (w2, Panic)
          end
      end
  end.

Definition encode (w : world) (i : nat) : world * res (list (option Z)) :=
  encode_loop w i (metric_ids w).

(* ---- Scope.GobDecode, scope.go:35: gob materialises a fresh instance for
        every non-nil entry, then the length check, then one store per entry ---- *)
Fixpoint alloc_all (h : list Z) (pl : list (option Z)) : list Z * list (option nat) :=
  match pl with
  | [] => (h, [])
  | None :: r => let '(h', ps) := alloc_all h r in (h', None :: ps)
  | Some z :: r => let '(h', ps) := alloc_all (h ++ [z]) r in (h', Some (length h) :: ps)
  end.

Inductive dec_result := DecOk | DecIncompatible | DecPanic.

Definition decode (w : world) (i : nat) (pl : list (option Z)) : world * dec_result :=
  if negb (Nat.eqb (length pl) (wreg w)) then (w, DecIncompatible)
  else
    let '(h, ps) := alloc_all (wheap w) pl in
    match for_metrics (fun w m => store w i m (nth m ps None)) (seq 0 (length ps)) (set_heap w h) with
    | (w1, Ok _) => (w1, DecOk)
    | (w1, Panic) => (w1, DecPanic)
    end.

(* the value a payload carries for metric m (nil entry = no instance = 0) *)
Definition plval (pl : list (option Z)) (m : nat) : Z :=
  match nth m pl None with Some z => z | None => 0 end.

(* ---- pure observation (what Counter.Value would return, without creating
        the instance) ---- *)
Definition slot_of (w : world) (i m : nat) : option nat :=
  match get_scope w i with Some l => nth m l None | None => None end.

Definition peek (w : world) (i m : nat) : Z :=
  match slot_of w i m with Some p => hval w p | None => 0 end.

(* ================= operation sequences (for the correspondence) ================= *)

Inductive op :=
| ORegister                              (* metrics.NewCounter() *)
| OIncr (s c : nat) (n : Z)
| OValue (s c : nat)
| OMerge (s u : nat)
| OReset (s u : nat)
| OResetNil (s : nat)
| OEncode (s : nat)                      (* gob-encode the scope; reports the wire payload *)
| ODecode (pl : list (option Z)) (s : nat).  (* gob-decode a payload into the scope *)

Inductive out :=
| RUnit
| RPanic
| RNum (z : Z)
| RPayload (pl : list (option Z))
| RIncompatible.                         (* "incompatible metric set" error *)

Definition unit_out (r : res unit) : out := match r with Ok _ => RUnit | Panic => RPanic end.

Definition step (w : world) (o : op) : world * out :=
  match o with
  | ORegister => (mkW (S (wreg w)) (wheap w) (wpool w), RUnit)
  | OIncr s c n => let '(w1, r) := incr w s c n in (w1, unit_out r)
  | OValue s c =>
      match value w s c with (w1, Ok z) => (w1, RNum z) | (w1, Panic) => (w1, RPanic) end
  | OMerge s u => let '(w1, r) := merge w s u in (w1, unit_out r)
  | OReset s u => let '(w1, r) := reset w s u in (w1, unit_out r)
  | OResetNil s => (reset_nil w s, RUnit)
  | OEncode s =>
      match encode w s with (w1, Ok pl) => (w1, RPayload pl) | (w1, Panic) => (w1, RPanic) end
  | ODecode pl s =>
      match decode w s pl with
      | (w1, DecOk) => (w1, RUnit)
      | (w1, DecIncompatible) => (w1, RIncompatible)
      | (w1, DecPanic) => (w1, RPanic)
      end
  end.

Definition init (reg nscopes : nat) : world := mkW reg [] (repeat None nscopes).

(* what the harness dumps after every step: per scope nil or, per metric, nil or
   (instance identity, value) *)
Notation sdump := (option (list (option (nat * Z)))) (only parsing).

Definition dump (w : world) : list (option (list (option (nat * Z)))) :=
  map (fun s : option (list (option nat)) =>
         match s with
         | None => None
         | Some l => Some (map (fun sl : option nat =>
                                  match sl with None => None | Some p => Some (p, hval w p) end) l)
         end) (wpool w).

(* ================= the executors' use of scopes ================= *)

(* a task's successful run = the increments its user functions perform, in order *)
Notation incs := (list (nat * Z)) (only parsing).

Fixpoint do_incs (w : world) (i : nat) (l : list (nat * Z)) : world * res unit :=
  match l with
  | [] => (w, Ok tt)
  | (c, n) :: r => match incr w i c n with
                   | (w1, Ok _) => do_incs w1 i r
                   | (w1, Panic) => (w1, Panic)
                   end
  end.

(* exec/local.go:80-82: task.Scope.Reset(nil); run with ScopedContext(&task.Scope).
   Pool layout: 0 = Result.scope, 1.. = the task scopes. *)
Definition local_task (w : world) (t : nat) (l : list (nat * Z)) : world * res unit :=
  do_incs (reset_nil w t) t l.

(* exec/bigmachine.go:764-770 (worker) and 426-438 (driver).  Pool layout per task k:
   wt = worker-side task.Scope (a fresh Task object of the worker's compilation),
   rw = the worker's reply.Scope, rd = the driver's decoded reply.Scope,
   t = the driver-side task.Scope. *)
Definition bigmachine_task (w : world) (wt rw rd t : nat) (l : list (nat * Z)) : world * res unit :=
  match do_incs w wt l with
  | (w1, Panic) => (w1, Panic)
  | (w1, Ok _) =>
      match reset w1 rw wt with                        (* reply.Scope.Reset(&task.Scope) *)
      | (w2, Panic) => (w2, Panic)
      | (w2, Ok _) =>
          match encode w2 rw with                      (* rpc reply, gob *)
          | (w3, Panic) => (w3, Panic)
          | (w3, Ok pl) =>
              match decode w3 rd pl with
              | (w4, DecOk) => reset w4 t rd           (* task.Scope.Reset(&reply.Scope) *)
              | (w4, _) => (w4, Panic)
              end
          end
      end
  end.

(* Result.Scope, session.go:418: iterTasks visits every task of the graph once and
   merges its scope into r.scope (pool index 0). *)
Fixpoint merge_tasks (w : world) (ts : list nat) : world * res unit :=
  match ts with
  | [] => (w, Ok tt)
  | t :: r => match merge w 0 t with
              | (w1, Ok _) => merge_tasks w1 r
              | (w1, Panic) => (w1, Panic)
              end
  end.

(* failure-free run on the local executor: task k uses pool index k+1 *)
Fixpoint run_local_tasks (w : world) (k : nat) (tasks : list (list (nat * Z))) : world * res unit :=
  match tasks with
  | [] => (w, Ok tt)
  | l :: r => match local_task w (S k) l with
              | (w1, Ok _) => run_local_tasks w1 (S k) r
              | (w1, Panic) => (w1, Panic)
              end
  end.

Definition run_local (reg : nat) (tasks : list (list (nat * Z))) : world * res unit :=
  let n := length tasks in
  match run_local_tasks (init reg (S n)) 0 tasks with
  | (w1, Ok _) => merge_tasks w1 (seq 1 n)
  | (w1, Panic) => (w1, Panic)
  end.

(* failure-free run on the bigmachine executor: task k uses pool indices
   1+4k (driver task), 2+4k (worker task), 3+4k (worker reply), 4+4k (driver reply) *)
Fixpoint run_bigmachine_tasks (w : world) (k : nat) (tasks : list (list (nat * Z))) : world * res unit :=
  match tasks with
  | [] => (w, Ok tt)
  | l :: r =>
      let b := (4 * k)%nat in
      match bigmachine_task w (2 + b) (3 + b) (4 + b) (1 + b) l with
      | (w1, Ok _) => run_bigmachine_tasks w1 (S k) r
      | (w1, Panic) => (w1, Panic)
      end
  end.

Definition run_bigmachine (reg : nat) (tasks : list (list (nat * Z))) : world * res unit :=
  let n := length tasks in
  match run_bigmachine_tasks (init reg (1 + 4 * n)) 0 tasks with
  | (w1, Ok _) => merge_tasks w1 (map (fun k => (1 + 4 * k)%nat) (seq 0 n))
  | (w1, Panic) => (w1, Panic)
  end.

(* the sum of the increments of counter m in a list *)
Fixpoint sum_incs (m : nat) (l : list (nat * Z)) : Z :=
  match l with
  | [] => 0
  | (c, n) :: r => (if Nat.eqb c m then n else 0) + sum_incs m r
  end.

(* ================= tasks that are run more than once =================
   Result.Discard (exec/local.go Discard, exec/bigmachine.go Discard) turns a finished
   task into a lost one without any failed attempt; the evaluator runs it again
   when a later computation needs it.  A task is then a list of runs. *)

(* local executor: task.Scope.Reset(nil) precedes EVERY run (local.go:80) *)
Fixpoint local_runs (w : world) (t : nat) (runs : list (list (nat * Z))) : world * res unit :=
  match runs with
  | [] => (w, Ok tt)
  | l :: r => match local_task w t l with
              | (w1, Ok _) => local_runs w1 t r
              | (w1, Panic) => (w1, Panic)
              end
  end.

Fixpoint run_local_tasks_runs (w : world) (k : nat) (tasks : list (list (list (nat * Z))))
  : world * res unit :=
  match tasks with
  | [] => (w, Ok tt)
  | runs :: r => match local_runs w (S k) runs with
                 | (w1, Ok _) => run_local_tasks_runs w1 (S k) r
                 | (w1, Panic) => (w1, Panic)
                 end
  end.

Definition run_local_runs (reg : nat) (tasks : list (list (list (nat * Z)))) : world * res unit :=
  let n := length tasks in
  match run_local_tasks_runs (init reg (S n)) 0 tasks with
  | (w1, Ok _) => merge_tasks w1 (seq 1 n)
  | (w1, Panic) => (w1, Panic)
  end.

(* bigmachine executor, every run on the same worker: the worker-side Task and its
   Scope live as long as the worker and worker.Run does NOT reset the scope
   before a run (bigmachine.go:764) - unless [worker_resets], the switch that
   stands for the repaired code.  Both reply structs are new for every RPC. *)
Fixpoint bigmachine_runs (worker_resets : bool) (w : world) (wt rw rd t : nat)
         (runs : list (list (nat * Z))) : world * res unit :=
  match runs with
  | [] => (w, Ok tt)
  | l :: r =>
      let w0 := reset_nil (reset_nil w rw) rd in
      let w0' := if worker_resets then reset_nil w0 wt else w0 in
      match bigmachine_task w0' wt rw rd t l with
      | (w1, Ok _) => bigmachine_runs worker_resets w1 wt rw rd t r
      | (w1, Panic) => (w1, Panic)
      end
  end.

Fixpoint run_bigmachine_tasks_runs (worker_resets : bool) (w : world) (k : nat)
         (tasks : list (list (list (nat * Z)))) : world * res unit :=
  match tasks with
  | [] => (w, Ok tt)
  | runs :: r =>
      let b := (4 * k)%nat in
      match bigmachine_runs worker_resets w (2 + b) (3 + b) (4 + b) (1 + b) runs with
      | (w1, Ok _) => run_bigmachine_tasks_runs worker_resets w1 (S k) r
      | (w1, Panic) => (w1, Panic)
      end
  end.

Definition run_bigmachine_runs (worker_resets : bool) (reg : nat)
           (tasks : list (list (list (nat * Z)))) : world * res unit :=
  let n := length tasks in
  match run_bigmachine_tasks_runs worker_resets (init reg (1 + 4 * n)) 0 tasks with
  | (w1, Ok _) => merge_tasks w1 (map (fun k => (1 + 4 * k)%nat) (seq 0 n))
  | (w1, Panic) => (w1, Panic)
  end.

(* the increments of the last run of every task *)
Definition last_runs (tasks : list (list (list (nat * Z)))) : list (nat * Z) :=
  concat (map (fun runs : list (list (nat * Z)) => last runs []) tasks).

(* ================= a task submitted again to the worker that still holds it =================
   The driver may consider a task lost (or retry the Worker.Run call) although the
   worker still holds the task in TaskOk.  worker.Run then takes the `default`
   branch of its switch on task.state (bigmachine.go:795): nothing is executed, the
   scope is not reset, and the function returns; the deferred block registered
   BEFORE the switch fills reply.Scope from the completed task's scope.
   [filled] = that deferred block is registered before the switch (the code as it
   is); with [filled = false] the early return leaves the fresh reply empty. *)
Definition bigmachine_answer (filled : bool) (w : world) (wt rw rd t : nat) : world * res unit :=
  let w0 := reset_nil (reset_nil w rw) rd in              (* new reply structs for the RPC *)
  match (if filled then reset w0 rw wt else (w0, Ok tt)) with
  | (w1, Panic) => (w1, Panic)
  | (w1, Ok _) =>
      match encode w1 rw with
      | (w2, Panic) => (w2, Panic)
      | (w2, Ok pl) =>
          match decode w2 rd pl with
          | (w3, DecOk) => reset w3 t rd                  (* task.Scope.Reset(&reply.Scope) *)
          | (w3, _) => (w3, Panic)
          end
      end
  end.

Fixpoint bigmachine_answers (filled : bool) (w : world) (wt rw rd t : nat) (n : nat) : world * res unit :=
  match n with
  | O => (w, Ok tt)
  | S k => match bigmachine_answer filled w wt rw rd t with
           | (w1, Ok _) => bigmachine_answers filled w1 wt rw rd t k
           | (w1, Panic) => (w1, Panic)
           end
  end.

(* a task = the increments of its one execution and the number of times it was
   submitted again afterwards to the same worker *)
Definition bigmachine_task_resub (worker_resets filled : bool) (w : world) (wt rw rd t : nat)
           (ln : list (nat * Z) * nat) : world * res unit :=
  match bigmachine_runs worker_resets w wt rw rd t [fst ln] with
  | (w1, Ok _) => bigmachine_answers filled w1 wt rw rd t (snd ln)
  | (w1, Panic) => (w1, Panic)
  end.

Fixpoint run_bigmachine_tasks_resub (worker_resets filled : bool) (w : world) (k : nat)
         (tasks : list (list (nat * Z) * nat)) : world * res unit :=
  match tasks with
  | [] => (w, Ok tt)
  | ln :: r =>
      let b := (4 * k)%nat in
      match bigmachine_task_resub worker_resets filled w (2 + b) (3 + b) (4 + b) (1 + b) ln with
      | (w1, Ok _) => run_bigmachine_tasks_resub worker_resets filled w1 (S k) r
      | (w1, Panic) => (w1, Panic)
      end
  end.

Definition run_bigmachine_resub (worker_resets filled : bool) (reg : nat)
           (tasks : list (list (nat * Z) * nat)) : world * res unit :=
  let n := length tasks in
  match run_bigmachine_tasks_resub worker_resets filled (init reg (1 + 4 * n)) 0 tasks with
  | (w1, Ok _) => merge_tasks w1 (map (fun k => (1 + 4 * k)%nat) (seq 0 n))
  | (w1, Panic) => (w1, Panic)
  end.

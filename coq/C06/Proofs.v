From Coq Require Import List ZArith Bool Lia.
Import ListNotations.
Require Import BS.Gen.C03_params BS.C06.Model.
Local Open Scope Z_scope.

Lemma max_lost_is_5 : max_consecutive_lost = 5.
Proof. reflexivity. Qed.

(* a persistent failure always ends in an error from Run, after a bounded
   number of attempts: 1 for fatal failures, maxConsecutiveLost for temporary *)
Theorem persistent_failure_is_error s m :
  fst (run_task s m persistent) = RunErr /\
  (snd (run_task s m persistent) <= Z.to_nat max_consecutive_lost)%nat.
Proof. destruct s, m; vm_compute; split; (reflexivity || lia). Qed.

Theorem persistent_fatal_one_attempt s m :
  surfaces s m = SevFatal -> run_task s m persistent = (RunErr, 1%nat).
Proof. destruct s, m; vm_compute; intro H; (reflexivity || discriminate). Qed.

Theorem persistent_temporary_bounded s m :
  surfaces s m = SevTemporary -> run_task s m persistent = (RunErr, Z.to_nat max_consecutive_lost).
Proof. destruct s, m; vm_compute; intro H; (reflexivity || discriminate). Qed.

(* a temporary failure that goes away on retry does not fail the run *)
Theorem transient_recovers s m :
  surfaces s m = SevTemporary -> run_task s m one_shot = (RunOk, 2%nat).
Proof. destruct s, m; vm_compute; intro H; (reflexivity || discriminate). Qed.

(* more generally: any failure pattern with fewer than maxConsecutiveLost
   consecutive temporary failures before a success ends in success *)
Theorem temporary_then_success s m (n : nat) :
  surfaces s m = SevTemporary -> (Z.of_nat n < max_consecutive_lost) ->
  run_task s m (fun k => Nat.ltb k n) = (RunOk, S n).
Proof.
  intros Hs Hn. rewrite max_lost_is_5 in Hn.
  assert (n = 0 \/ n = 1 \/ n = 2 \/ n = 3 \/ n = 4)%nat as H by lia.
  destruct s, m; try discriminate Hs;
    destruct H as [->|[->|[->|[->| ->]]]]; vm_compute; reflexivity.
Qed.

(* a failure never yields success while it keeps firing *)
Theorem never_ok_while_failing s m fails :
  (forall k, fails k = true) -> fst (run_task s m fails) = RunErr.
Proof.
  intro H. unfold run_task. rewrite max_lost_is_5.
  assert (E : forall fuel k lost, fst (eval_task fuel s m fails k lost) = RunErr).
  { induction fuel as [|f IH]; intros k lost; simpl; [reflexivity|].
    rewrite H. unfold attempt. destruct (surfaces s m); simpl; [reflexivity|].
    destruct (max_consecutive_lost <=? lost + 1); [reflexivity|apply IH]. }
  apply E.
Qed.

(* message: reader and writer errors and every panic carry the user's message *)
Theorem message_preserved s m :
  (m = MPanic \/ ((s = SReader \/ s = SWriter) /\ m = MError)) -> msg_carried s m = true.
Proof.
  intros [Hm|[[Hs|Hs] Hm]]; subst; try reflexivity; destruct s; reflexivity.
Qed.

(* C06 — the failure-classification chain indexed by CALL SITE x MODE x EXECUTOR,
   driven by the tables that tools/goparams reads from the Go source
   (coq/Gen/C06_params.v):

     user function fails
       -> what the wrapper in slice.go returns / a panic        [wrap_class]
       -> the executor frame that sees it: a read-error exit,
          or the innermost deferred recover()                   [recover_sites, *_read_error_exits]
       -> the task state on the driver: local classification,
          or reviseSeverity + Worker.Run call + result switch   [local_run_classify, revise_*, bm_*]
       -> the evaluator's bounded resubmission                  [eval_*]

   No proofs in this file (see SitesProofs.v). *)
From Coq Require Import List ZArith Bool String.
Import ListNotations.
Require Import BS.Gen.C03_params BS.Gen.C06_params BS.C06.Model.
Local Open Scope Z_scope.

(* ---- call sites (finer than Model.site: the combiner is called in four places) ---- *)
Inductive csite :=
  | CReader | CWriter | CMap | CFilter | CFlatmap | CFold
  | CCombTable     (* task-local combining table: combiningFrame.Combine *)
  | CCombBuffer    (* per-partition combine buffer: combiner.Combine *)
  | CCombMerge     (* the consumer merging its sorted inputs: sortio.Reduce reader *)
  | CCombCommit    (* the merge of spilled runs when a combine buffer is committed: writeCombiner *)
  | CPartitioner | CScan.

Definition coarse (c : csite) : site :=
  match c with
  | CReader => SReader | CWriter => SWriter | CMap => SMap | CFilter => SFilter
  | CFlatmap => SFlatmap | CFold => SFold
  | CCombTable | CCombBuffer | CCombMerge | CCombCommit => SCombiner
  | CPartitioner => SPartitioner | CScan => SScan
  end.

(* only functions with an error result can fail by returning one; only the
   partitioner can return a partition index *)
Definition expressible (c : csite) (m : mode) : bool :=
  match m with
  | MPanic => true
  | MError | MTemp => match c with CReader | CWriter | CScan => true | _ => false end
  | MBadPart => match c with CPartitioner => true | _ => false end
  end.

(* [comb]: the task that runs the site has a map-side combiner (on a worker its
   rows are then read by runCombine instead of Run's own loops) *)
Definition applicable (c : csite) (x : xkind) (comb : bool) : bool :=
  match c, x with
  | CCombCommit, XLocal => false             (* the local executor has no combine buffers to commit *)
  | (CCombTable | CCombBuffer | CCombCommit), _ => comb
  | CScan, _ => negb comb                    (* a Scan task has no columns and no consumer *)
  | _, _ => true
  end.

(* ---- table lookups ---- *)
Fixpoint assocZ (k : string) (l : list (string * Z)) : option Z :=
  match l with
  | [] => None
  | (k', v) :: r => if String.eqb k k' then Some v else assocZ k r
  end.
Fixpoint assocB (k : string) (l : list (string * bool)) : option bool :=
  match l with
  | [] => None
  | (k', v) :: r => if String.eqb k k' then Some v else assocB k r
  end.
Definition find_rsite (f : string) : option rsite :=
  find (fun r => String.eqb (rs_func r) f) recover_sites.

(* ---- errors ---- *)
Inductive sevx := VFatal | VTemporary | VUnknown.
Record uerr := mkErr {
  e_sev : sevx;
  e_wrapped : bool;      (* inside a maybeTaskFatalErr{..} *)
  e_msg : bool           (* the text contains the user's message *)
}.
Definition is_fatal (e : uerr) : bool := match e_sev e with VFatal => true | _ => false end.
Definition is_temporary (e : uerr) : bool := match e_sev e with VTemporary => true | _ => false end.

(* ---- step 1: slice.go ---- *)
Definition wrapper_name (c : csite) : string :=
  match c with
  | CReader => "reader" | CWriter => "writer" | CMap => "map" | CFilter => "filter"
  | CFlatmap => "flatmap" | CFold => "fold" | CScan => "scan" | _ => ""
  end%string.

(* the severity with which a wrapper of class [cls] returns a user error of severity [user] *)
Definition wrap (cls : Z) (user : sevx) : option sevx :=
  if cls =? 2 then Some (match user with VTemporary => VTemporary | _ => VFatal end)
  else if cls =? 1 then Some VFatal
  else if cls =? 0 then Some user
  else if cls =? 3 then Some (match user with VTemporary => VFatal | s => s end)
  else None.

Inductive raised := Panic | IndexPanic | Returned (e : uerr) | RaiseUnmodelled.

Definition raise (c : csite) (m : mode) : raised :=
  match m with
  | MPanic => Panic
  | MBadPart =>
      (* Repartition stores the user's result unchecked; the executor's loop indexes with it *)
      if repartition_range_check then RaiseUnmodelled else IndexPanic
  | MError | MTemp =>
      let user := match m with MTemp => VTemporary | _ => VUnknown end in
      match assocZ (wrapper_name c) wrap_class with
      | Some cls =>
          match wrap cls user with
          | Some s => Returned (mkErr s false true)
          | None => RaiseUnmodelled
          end
      | None => RaiseUnmodelled
      end
  end.

(* ---- step 2: the executor frames around the call ---- *)
Definition stack (c : csite) (x : xkind) (comb : bool) : list string :=
  match x with
  | XLocal =>
      match c with
      | CCombTable | CCombBuffer => ["localExecutor.depReaders"; "localExecutor.Run"]  (* in-line combine of the consumer *)
      | CCombCommit => []
      | _ => ["bufferOutput"; "localExecutor.Run"]
      end
  | _ =>
      match c with
      | CCombCommit => ["worker.writeCombiner"]     (* a goroutine of its own *)
      | CCombTable | CCombBuffer => ["worker.runCombine"; "worker.Run"]
      | _ => if comb then ["worker.runCombine"; "worker.Run"] else ["worker.Run"]
      end
  end%string.

Fixpoint catch (stk : list string) : option rsite :=
  match stk with
  | [] => None
  | f :: r => match find_rsite f with Some s => Some s | None => catch r end
  end.

Inductive aresult := ACrash | ASwallowed | AErr (e : uerr) | AUnmodelled.

Definition recovered (r : rsite) (user_msg : bool) : aresult :=
  if rs_user_code_before r then AUnmodelled
  else if negb (rs_sets_result r) then ASwallowed     (* the function returns a nil error: the task looks successful *)
  else AErr (mkErr (if rs_fatal r then VFatal else VUnknown) (rs_wrapped r) (rs_msg r && user_msg)).

Definition nonempty_all (s : string) (l : list string) : bool :=
  match l with [] => false | _ => forallb (String.eqb s) l end.
Definition read_exit_local_plain : bool :=
  nonempty_all "return nil, err" buffer_output_read_error_exits && buffer_output_defer_first.
Definition read_exit_bm_wraps : bool :=
  nonempty_all "return maybeTaskFatalErr{err}" worker_run_read_error_exits
  && nonempty_all "return maybeTaskFatalErr{err}" run_combine_read_error_exits.

(* the merge of spilled runs at commit time does call the user's combiner, in a goroutine *)
Definition commit_merge_in_goroutine : bool :=
  commit_spawns_write_combiner && write_combiner_merges_in_goroutine && combiner_writeto_reads_merge.

(* [wr] is the generated switch write_combiner_recovers: does that goroutine recover?
   What its recover does is the generated record; for code without one, [wr = true]
   stands for `defer recoverFatal(&err)` on a named result, like the other users of the helper. *)
Definition commit_rsite : rsite :=
  match write_combiner_rsite with
  | r :: _ => r
  | [] => mkRsite "bigmachine" "worker.writeCombiner" true false true true false
  end.

(* the recovered error is recorded (combinerErrors) and CommitCombiner returns it inside a
   maybeTaskFatalErr{errors.E(..., err)}: errors.E inherits the severity of the error it wraps *)
Definition commit_error_returned : bool :=
  write_combiner_records_error
  && String.eqb commit_combiner_error_return
       "return maybeTaskFatalErr{errors.E(""error while writing combiner"", w.combinerErrors[key])}".

(* the outcome of ONE execution of the task in which the failure fires *)
Definition attempt_result (wr : bool) (c : csite) (m : mode) (x : xkind) (comb : bool) : aresult :=
  let stk := stack c x comb in
  match c, raise c m with
  | _, RaiseUnmodelled => AUnmodelled
  | CCombCommit, Panic =>
      if negb commit_merge_in_goroutine then AUnmodelled
      else if negb wr then ACrash                    (* nothing on that goroutine recovers *)
      else if negb commit_error_returned then AUnmodelled
      else
        match recovered commit_rsite true with
        | AErr e => AErr (mkErr (e_sev e) true (e_msg e))    (* as returned by CommitCombiner *)
        | a => a
        end
  | _, Returned e =>
      match x with
      | XLocal => if read_exit_local_plain then AErr e else AUnmodelled
      | _ => if read_exit_bm_wraps then AErr (mkErr (e_sev e) true (e_msg e)) else AUnmodelled
      end
  | _, Panic =>
      match catch stk with Some r => recovered r true | None => ACrash end
  | _, IndexPanic =>
      match stk with
      | f :: _ =>
          match assocB f partition_index_sites with
          | Some false => match catch stk with Some r => recovered r false | None => ACrash end
          | _ => AUnmodelled
          end
      | [] => AUnmodelled
      end
  end.

(* ---- step 3: the task state seen by the evaluator ---- *)
Definition tstate_of (s : string) : option tstate :=
  if String.eqb s "Err" then Some TErr
  else if String.eqb s "Lost" then Some TLost
  else if String.eqb s "Ok" then Some TOk else None.

(* local executor: row 0 classifies errors of depReaders, row 1 errors of bufferOutput *)
Definition local_state (c : csite) (e : uerr) : option tstate :=
  let row := match c with CCombTable | CCombBuffer => 0%nat | _ => 1%nat end in
  match nth_error local_run_classify row with
  | Some [cond; t; f] =>
      if String.eqb cond "errors.Match(fatalErr, err)" && String.eqb fatal_err_init "errors.E(errors.Fatal)"
      then tstate_of (if is_fatal e then t else f)
      else None
  | _ => None
  end.

(* worker: the deferred function of worker.Run revises the severity.
   [dt] is the generated switch worker_downgrades_temporary: does the
   maybeTaskFatalErr case of reviseSeverity turn a Temporary inner error into a
   plain (Unknown) one?  Without it the Temporary severity crosses the RPC. *)
Definition revise (dt : bool) (e : uerr) : uerr :=
  if negb worker_run_revises_severity then mkErr (if e_wrapped e then VUnknown else e_sev e) false (e_msg e)
  else if e_wrapped e then
    (if revise_unwraps_maybe_fatal
     then mkErr (if dt && is_temporary e then VUnknown else e_sev e) false (e_msg e)
     else mkErr VUnknown false (e_msg e))
  else if is_fatal e && revise_downgrades_plain_fatal && String.eqb revise_downgrade_to "errors.Unknown"
    then mkErr VUnknown false (e_msg e)
  else mkErr (e_sev e) false (e_msg e).

(* driver: the switch on the result of the Worker.Run call *)
Record rpc := mkRpc { r_nil : bool; r_ctx : bool; r_remote : bool; r_fatal : bool }.
Definition cond_holds (c : string) (r : rpc) : option bool :=
  if String.eqb c "err == nil" then Some (r_nil r)
  else if String.eqb c "ctx.Err() != nil" then Some (r_ctx r)
  else if String.eqb c "errors.Is(errors.Remote, err) && errors.Match(fatalErr, err)" then Some (r_remote r && r_fatal r)
  else if String.eqb c "default" then Some true
  else None.
Fixpoint switch (rows : list (list string)) (r : rpc) : option tstate :=
  match rows with
  | [c; t] :: rest =>
      match cond_holds c r with
      | Some true => tstate_of t
      | Some false => switch rest r
      | None => None
      end
  | _ => None
  end.

(* bigmachine's RetryCall repeats the call while the error is temporary, without a bound;
   Call does not *)
Definition call_retries_temporary : option bool :=
  if String.eqb bm_worker_run_call "RetryCall" then Some true
  else if String.eqb bm_worker_run_call "Call" then Some false else None.

(* the state in which one SUBMISSION of the task by the evaluator ends *)
Inductive tres := TRstate (t : tstate) (msg : bool) | TRcrash | TRhang | TRpartial | TRunmodelled.

Definition of_aresult (a : aresult) (k : aresult -> tres) : tres :=
  match a with
  | ACrash => TRcrash | ASwallowed => TRpartial | AUnmodelled => TRunmodelled
  | AErr _ => k a
  end.

(* [fails k]: does the failure fire in the k-th execution of the task?  The
   result carries the index of the next execution. *)
Definition local_submit (wr : bool) (c : csite) (m : mode) (comb : bool) (fails : nat -> bool) (k : nat)
  : tres * nat :=
  if fails k then
    match attempt_result wr c m XLocal comb with
    | ACrash => (TRcrash, S k)
    | ASwallowed => (TRpartial, S k)
    | AUnmodelled => (TRunmodelled, S k)
    | AErr e =>
        match local_state c e with
        | Some t => (TRstate t (e_msg e), S k)
        | None => (TRunmodelled, S k)
        end
    end
  else (TRstate TOk false, S k).

(* where the error of a failed commit reaches the driver: with machine combiners the consumer's
   bigmachineExecutor.Run commits the buffers of its dependencies itself, before it calls
   Worker.Run (`if err := g.Wait(); err != nil { task.Errorf(...); m.Done(..); return }`);
   otherwise runCombine commits its own buffer and the error leaves through Worker.Run *)
Definition commit_by_driver (c : csite) (x : xkind) : bool :=
  match c, x with
  | CCombCommit, XBigmachineMC => bm_run_commits_dependencies
  | _, _ => false
  end.
Definition own_commit_modelled : bool :=
  String.eqb run_combine_commit_cond "err == nil && task.CombineKey == """"".

Definition commit_call_retries_temporary : option bool :=
  if String.eqb bm_commit_call "RetryCall" then Some true
  else if String.eqb bm_commit_call "Call" then Some false else None.

Fixpoint bm_call (dt wr : bool) (fuel : nat) (c : csite) (m : mode) (x : xkind) (comb : bool)
  (fails : nat -> bool) (k : nat) : tres * nat :=
  match fuel with
  | O => (TRhang, k)                     (* the call is still being retried *)
  | S fuel' =>
      if fails k then
        match attempt_result wr c m x comb with
        | ACrash => (TRcrash, S k)
        | ASwallowed => (TRpartial, S k)
        | AUnmodelled => (TRunmodelled, S k)
        | AErr e0 =>
            if commit_by_driver c x then
              (* Worker.CommitCombiner's error, seen by the consumer's Run *)
              match commit_call_retries_temporary with
              | None => (TRunmodelled, S k)
              | Some rt =>
                  if rt && is_temporary e0 then bm_call dt wr fuel' c m x comb fails (S k)
                  else if negb bm_commit_failure_releases_and_returns then (TRunmodelled, S k)
                  else
                    match tstate_of bm_commit_failure_target with
                    | Some t => (TRstate t (e_msg e0 && bm_commit_failure_formats_error), S k)
                    | None => (TRunmodelled, S k)
                    end
              end
            else if match c with CCombCommit => negb own_commit_modelled | _ => false end
            then (TRunmodelled, S k)
            else
            let e := revise dt e0 in
            match call_retries_temporary with
            | None => (TRunmodelled, S k)
            | Some rt =>
                if rt && is_temporary e then bm_call dt wr fuel' c m x comb fails (S k)
                else
                  match switch bm_run_switch (mkRpc false false true (is_fatal e)) with
                  | Some t => (TRstate t (e_msg e), S k)
                  | None => (TRunmodelled, S k)
                  end
            end
        end
      else
        match switch bm_run_switch (mkRpc true false false false) with
        | Some t => (TRstate t false, S k)
        | None => (TRunmodelled, S k)
        end
  end.

(* ---- step 4: the evaluator (exec/eval.go, C03) ---- *)
Inductive result := ROk | RErr (msg : bool) | RCrash | RHang | RPartial | RUnmodelled.

Fixpoint drive (fuel : nat) (submit : nat -> tres * nat) (k : nat) (lost : Z) : result * nat :=
  match fuel with
  | O => (RHang, k)
  | S fuel' =>
      let '(t, k') := submit k in
      match t with
      | TRstate TOk _ => (ROk, k')
      | TRstate TErr b => (RErr b, k')
      | TRstate TLost _ =>
          (* task.consecutiveLost++; if task.consecutiveLost >= maxConsecutiveLost: TaskErr (TooManyTries,
             a fresh error: the text of the last loss is not kept) *)
          if eval_lost_bound_enabled && (eval_max_consecutive_lost <=? lost + 1) then (RErr false, k')
          else drive fuel' submit k' (lost + 1)
      | TRcrash => (RCrash, k')
      | TRhang => (RHang, k')
      | TRpartial => (RPartial, k')
      | TRunmodelled => (RUnmodelled, k')
      end
  end.

(* how long the model follows RetryCall before it reports the call as not returning *)
Definition retry_fuel : nat := 64.

Definition submit_of (dt wr : bool) (c : csite) (m : mode) (x : xkind) (comb : bool) (fails : nat -> bool)
  : nat -> tres * nat :=
  match x with
  | XLocal => local_submit wr c m comb fails
  | _ => bm_call dt wr retry_fuel c m x comb fails
  end.

(* what Run returns, and the number of executions of the failing task *)
Definition surface_with (dt wr : bool) (c : csite) (m : mode) (x : xkind) (comb : bool) (fails : nat -> bool)
  : result * nat :=
  drive (S (Z.to_nat eval_max_consecutive_lost)) (submit_of dt wr c m x comb fails) 0 0.

(* ... for the code as it is now *)
Definition surface := surface_with worker_downgrades_temporary write_combiner_recovers.

(* ---- the sets the theorems speak about ---- *)

(* failures that leave the task LOST (or are retried inside the call) rather than failed *)
Definition retried (c : csite) (m : mode) : bool :=
  match m, c with
  | MTemp, (CReader | CWriter | CScan) => true
  | MError, CScan => true      (* scanReader returns the callback's plain error: not Fatal *)
  | _, _ => false
  end.

(* the finding: unless reviseSeverity downgrades it ([dt]), a temporary error of a user
   function keeps its severity across Worker.Run and bigmachine's RetryCall repeats the
   call without a bound *)
Definition known_unbounded (dt : bool) (c : csite) (m : mode) (x : xkind) : bool :=
  if dt then false else
  match x, m, c with
  | (XBigmachine | XBigmachineMC), MTemp, (CReader | CWriter | CScan) => true
  | _, _, _ => false
  end.

(* the finding: unless that goroutine recovers ([wr]), a panic of the combiner in the merge of
   spilled runs at commit time kills the process *)
Definition known_crash (wr : bool) (c : csite) : bool :=
  if wr then false else match c with CCombCommit => true | _ => false end.

Definition is_bad (r : result) : bool :=
  match r with RCrash | RPartial | RUnmodelled => true | _ => false end.

(* C06 — how a failing user function surfaces: a small executable model of the
   classification chain
     user function -> reader wrapper (slice.go) -> executor recover (exec/local.go,
     exec/bigmachine.go) -> task state -> evaluator (exec/eval.go, C03).
   No proofs in this file. *)
From Coq Require Import List ZArith Bool.
Import ListNotations.
Require Import BS.Gen.C03_params.
Local Open Scope Z_scope.

Inductive site := SReader | SWriter | SMap | SFilter | SFlatmap | SFold | SCombiner | SPartitioner | SScan.
Inductive mode := MError | MTemp | MPanic | MBadPart.
Inductive xkind := XLocal | XBigmachine | XBigmachineMC.

(* severity with which the failing task's Do/Run ends *)
Inductive sev := SevFatal | SevTemporary.

(* slice.go: readerFuncSliceReader and writerFuncReader pass a temporary error
   through and wrap every other error as Fatal; scanReader returns the callback's
   error unchanged (not fatal: the task is lost and resubmitted, a bounded number of times);
   a panic anywhere in user code is recovered by the executor and turned into a
   Fatal error (local: recoverFatal in bufferOutput/depReaders; bigmachine:
   worker.Run's recover); an out-of-range partition index is an index panic in
   the executor's partitioning loop, recovered the same way. *)
Definition surfaces (s : site) (m : mode) : sev :=
  match m with
  | MTemp => match s with SReader | SWriter | SScan => SevTemporary | _ => SevFatal end
  | MError => match s with SScan => SevTemporary | _ => SevFatal end
      (* neither executor classifies a scan callback's error as fatal: the task is lost and retried *)
  | _ => SevFatal
  end.

(* does the error returned by Run carry the user's message? (reader/writer
   errors are wrapped with their cause; a recovered panic is formatted with the
   panic value) *)
Definition msg_carried (s : site) (m : mode) : bool :=
  match m with
  | MPanic => true
  | MError => match s with SReader | SWriter => true | _ => false end
  | MTemp => false  (* a persistent temporary failure ends in "too many tries": the evaluator's error, on every executor *)
  | MBadPart => false
  end.

Inductive tstate := TLost | TErr | TOk.

(* one attempt of the failing task: does the failure fire on this attempt? *)
Definition attempt (s : site) (m : mode) (fires : bool) : tstate :=
  if fires then match surfaces s m with SevFatal => TErr | SevTemporary => TLost end
  else TOk.

Inductive outcome := RunOk | RunErr.

(* the evaluator's treatment of the task (C03): OK -> done; ERR -> error;
   LOST -> consecutiveLost++, error when it reaches maxConsecutiveLost, else
   resubmit.  [fails k] tells whether the failure fires on attempt k. *)
Fixpoint eval_task (fuel : nat) (s : site) (m : mode) (fails : nat -> bool) (k : nat) (lost : Z)
  : outcome * nat :=
  match fuel with
  | O => (RunErr, k)
  | S fuel' =>
      match attempt s m (fails k) with
      | TOk => (RunOk, S k)
      | TErr => (RunErr, S k)
      | TLost => if max_consecutive_lost <=? lost + 1 then (RunErr, S k)
                 else eval_task fuel' s m fails (S k) (lost + 1)
      end
  end.

Definition run_task (s : site) (m : mode) (fails : nat -> bool) : outcome * nat :=
  eval_task (S (Z.to_nat max_consecutive_lost)) s m fails 0 0.

Definition persistent : nat -> bool := fun _ => true.
Definition one_shot : nat -> bool := fun k => Nat.eqb k 0.

(* C06 — theorems about the site x mode x executor model (C06/Sites.v), and the
   pins that tie every generated fact it uses to a named obligation. *)
From Coq Require Import List ZArith Bool String Lia.
Import ListNotations.
Require Import BS.Gen.C03_params BS.Gen.C06_params BS.C06.Model BS.C06.Proofs BS.C06.Sites.
Local Open Scope Z_scope.

(* ================= pins of the generated facts ================= *)

(* (a) slice.go *)
Lemma C06_gen_wrap_class :
  wrap_class = [("reader", 2); ("writer", 2); ("map", 0); ("filter", 0); ("flatmap", 0); ("fold", 0); ("scan", 0)]%string.
Proof. reflexivity. Qed.
Lemma C06_gen_wraps_fatal_unless_temporary :
  wraps_fatal_unless_temporary =
  [("reader", true); ("writer", true); ("map", false); ("filter", false); ("flatmap", false); ("fold", false); ("scan", false)]%string.
Proof. reflexivity. Qed.
Lemma C06_gen_reader_wrap_guard :
  last reader_if_conds ""%string = "err := e.(error); err == sliceio.EOF || errors.IsTemporary(err)"%string
  /\ nth 6 reader_if_conds ""%string = "e := rvs[1].Interface(); e != nil"%string.
Proof. split; reflexivity. Qed.
Lemma C06_gen_writer_wrap_guard :
  nth 3 writer_if_conds ""%string = "werr != nil && (err == nil || err == sliceio.EOF)"%string
  /\ nth 4 writer_if_conds ""%string = "errors.IsTemporary(werr)"%string
  /\ List.length writer_if_conds = 5%nat.
Proof. repeat split; reflexivity. Qed.
Lemma C06_gen_scan_read_kernel :
  scan_read_kernel =
  ["err = s.slice.scan(s.shard, sliceio.NewScanner(s.slice.Slice, sliceio.NopCloser(s.reader)))";
   "if err == nil"; "err = sliceio.EOF"; "return 0, err"]%string.
Proof. reflexivity. Qed.

(* (b) recover sites *)
Lemma C06_gen_recover_helpers : recover_helpers = ["recoverFatal"]%string.
Proof. reflexivity. Qed.
Lemma C06_gen_recover_sites :
  recover_sites =
  [mkRsite "local" "localExecutor.depReaders" true false true true false;
   mkRsite "local" "bufferOutput" true false true true false;
   mkRsite "bigmachine" "worker.Compile" true false true true false;
   mkRsite "bigmachine" "worker.Run" true true true true false;
   mkRsite "bigmachine" "worker.runCombine" true true true true false]%string.
Proof. reflexivity. Qed.
Lemma C06_gen_buffer_output_defer_first : buffer_output_defer_first = true.
Proof. reflexivity. Qed.
Lemma C06_gen_buffer_output_zero_column_kernel :
  buffer_output_zero_column_kernel =
  ["if task.NumOut() == 0"; "_, err = out.Read(ctx, frame.Empty)"; "if err == sliceio.EOF"; "err = nil"; "return nil, err"]%string.
Proof. reflexivity. Qed.

(* (c) classification *)
(* reviseSeverity is one of two known texts, and the switch the model takes from it
   (worker_downgrades_temporary) says which: HEAD, or HEAD + the fix that downgrades a
   temporary application error before it crosses the RPC *)
Definition revise_kernel_head : list string :=
  ["if err == nil"; "return nil";
   "if e, ok := err.(maybeTaskFatalErr); ok"; "return e.error";
   "if e, ok := err.(*errors.Error); ok && e != nil && e.Severity == errors.Fatal";
   "e.Severity = errors.Unknown"; "return e";
   "return err"]%string.
Definition revise_kernel_fixed : list string :=
  ["if err == nil"; "return nil";
   "if e, ok := err.(maybeTaskFatalErr); ok";
   "if errors.IsTemporary(e.error)"; "e := errors.Recover(e.error)"; "e.Severity = errors.Unknown"; "return e";
   "return e.error";
   "if e, ok := err.(*errors.Error); ok && e != nil && e.Severity == errors.Fatal";
   "e.Severity = errors.Unknown"; "return e";
   "return err"]%string.
Lemma C06_gen_revise_kernel :
  revise_kernel = if worker_downgrades_temporary then revise_kernel_fixed else revise_kernel_head.
Proof. reflexivity. Qed.
Lemma C06_gen_revise_order : revise_order = ["err == nil"; "maybeTaskFatalErr"; "*errors.Error"]%string.
Proof. reflexivity. Qed.
Lemma C06_gen_revise_flags :
  revise_unwraps_maybe_fatal = true /\ revise_downgrades_plain_fatal = true
  /\ revise_downgrade_to = "errors.Unknown"%string.
Proof. repeat split; reflexivity. Qed.
Lemma C06_gen_fatal_err_init : fatal_err_init = "errors.E(errors.Fatal)"%string.
Proof. reflexivity. Qed.
Lemma C06_gen_worker_run_defer_kernel :
  worker_run_defer_kernel =
  ["err = fmt.Errorf(""panic while evaluating slice: %v\n%s"", e, string(stack))";
   "err = maybeTaskFatalErr{errors.E(err, errors.Fatal)}";
   "if err != nil";
   "log.Error.Printf(""task %s error: %v"", req.Name, err)";
   "err = reviseSeverity(err)";
   "task.Error(errors.Recover(err))"]%string.
Proof. reflexivity. Qed.
Lemma C06_gen_worker_run_defer_flags :
  worker_run_revises_severity = true /\ worker_run_records_task_error = true.
Proof. split; reflexivity. Qed.
Lemma C06_gen_read_error_exits :
  worker_run_read_error_exits = ["return maybeTaskFatalErr{err}"; "return maybeTaskFatalErr{err}"; "return maybeTaskFatalErr{err}"]%string
  /\ run_combine_read_error_exits = ["return maybeTaskFatalErr{err}"]%string
  /\ buffer_output_read_error_exits = ["return nil, err"]%string.
Proof. repeat split; reflexivity. Qed.
Lemma C06_gen_local_run_classify :
  local_run_classify =
  [["errors.Match(fatalErr, err)"; "Err"; "Lost"]; ["errors.Match(fatalErr, err)"; "Err"; "Lost"]]%string.
Proof. reflexivity. Qed.

(* (d) the driver's switch *)
Lemma C06_gen_bm_worker_run_call : bm_worker_run_call = "RetryCall"%string.
Proof. reflexivity. Qed.
Lemma C06_gen_bm_run_switch :
  bm_run_switch =
  [["err == nil"; "Ok"];
   ["ctx.Err() != nil"; "Err"];
   ["errors.Is(errors.Remote, err) && errors.Match(fatalErr, err)"; "Err"];
   ["default"; "Lost"]]%string.
Proof. reflexivity. Qed.

(* (e) the partition index *)
Lemma C06_gen_repartition_kernel :
  repartition_kernel = ["args[0] = reflect.ValueOf(nshard)"; "shards[i] = int(result[0].Int())"]%string.
Proof. reflexivity. Qed.
Lemma C06_gen_repartition_range_check : repartition_range_check = false.
Proof. reflexivity. Qed.
Lemma C06_gen_partition_index_sites :
  partition_index_sites = [("bufferOutput", false); ("worker.Run", false); ("worker.runCombine", false)]%string.
Proof. reflexivity. Qed.

(* (f) the evaluator's bound *)
Lemma C06_gen_eval_max_consecutive_lost :
  eval_max_consecutive_lost = 5 /\ eval_max_consecutive_lost = max_consecutive_lost.
Proof. split; reflexivity. Qed.
(* the comparison that ends the resubmissions: "count >= max => error", or (after the
   evaluator refactoring that moves it into Task.countLost) "count < max => go on" *)
Lemma C06_gen_eval_lost_cmp :
  eval_lost_cmp = "task.consecutiveLost >= maxConsecutiveLost"%string
  \/ eval_lost_cmp = "t.consecutiveLost < maxConsecutiveLost"%string.
Proof. first [left; reflexivity | right; reflexivity]. Qed.
Lemma C06_gen_eval_lost_bound_enabled : eval_lost_bound_enabled = true.
Proof. reflexivity. Qed.

(* (g) the combiner *)
Lemma C06_gen_combiner_call_sites :
  combiner_call_sites = ["exec.combiningFrame.combine"; "sortio.reader.Read"]%string.
Proof. reflexivity. Qed.
Lemma C06_gen_commit_path :
  commit_spawns_write_combiner = true /\ write_combiner_merges_in_goroutine = true
  /\ combiner_writeto_reads_merge = true.
Proof. repeat split; reflexivity. Qed.
(* the merge goroutine of writeCombiner: `defer recoverFatal(&err)` on a named result (current
   source), or no recover at all (former source); the switch says which *)
Lemma C06_gen_write_combiner_rsite :
  write_combiner_rsite =
  if write_combiner_recovers
  then [mkRsite "bigmachine" "worker.writeCombiner" true false true true false]%string
  else [].
Proof. reflexivity. Qed.
Lemma C06_gen_commit_error_path :
  write_combiner_records_error = true
  /\ commit_combiner_error_return
     = "return maybeTaskFatalErr{errors.E(""error while writing combiner"", w.combinerErrors[key])}"%string
  /\ run_combine_commit_cond = "err == nil && task.CombineKey == """""%string.
Proof. repeat split; reflexivity. Qed.
Lemma C06_gen_bm_commit_failure :
  bm_commit_failure_kernel
  = ["task.Errorf(""failed to commit combiner: %v"", err)"; "m.Done(procs, err)"; "return"]%string
  /\ bm_commit_failure_target = "Err"%string
  /\ bm_commit_failure_formats_error = true /\ bm_commit_failure_releases_and_returns = true
  /\ bm_run_commits_dependencies = true /\ bm_commit_call = "RetryCall"%string.
Proof. repeat split; reflexivity. Qed.
Lemma C06_gen_combine_and_return :
  combine_and_return_hands_back_on_panic = true /\ run_combine_uses_combine_and_return = true
  /\ worker_run_calls_run_combine = true.
Proof. repeat split; reflexivity. Qed.

(* what the model derives from the tables *)
Lemma C06_gen_derived_switches :
  read_exit_local_plain = true /\ read_exit_bm_wraps = true /\ commit_merge_in_goroutine = true
  /\ commit_error_returned = true /\ own_commit_modelled = true
  /\ call_retries_temporary = Some true /\ commit_call_retries_temporary = Some true
  /\ commit_rsite = mkRsite "bigmachine" "worker.writeCombiner" true false true true false.
Proof. repeat split; reflexivity. Qed.

(* the switches as they are in the current source: reviseSeverity downgrades temporary application
   errors (da9420f), the merge goroutine of writeCombiner recovers (72da798) *)
Lemma C06_gen_switches_current :
  worker_downgrades_temporary = true /\ write_combiner_recovers = true.
Proof. split; reflexivity. Qed.

(* every frame the model puts on a stack and expects to recover is in the generated table *)
Lemma C06_gen_stack_frames_recover :
  forall f, In f ["localExecutor.depReaders"; "bufferOutput"; "worker.Run"; "worker.runCombine"]%string ->
  exists r, find_rsite f = Some r /\ rs_fatal r = true /\ rs_msg r = true /\ rs_sets_result r = true
            /\ rs_user_code_before r = false.
Proof.
  intros f H. simpl in H.
  repeat (destruct H as [<-|H]; [eexists; split; [reflexivity|repeat split; reflexivity]|]).
  contradiction.
Qed.

(* ================= the outcome table ================= *)

(* PERSISTENT FAILURE => ERROR, after a bounded number of executions: one for a
   failure fatal to the task, maxConsecutiveLost for one that loses the task.
   Guards, each tied to a generated switch: [known_unbounded dt] (without the downgrade in
   reviseSeverity, a temporary error on bigmachine is retried inside RetryCall) and
   [known_crash wr] (without a recover in writeCombiner's goroutine, the commit-time merge). *)
Theorem sites_persistent_is_error_with dt wr c m x comb :
  applicable c x comb = true -> expressible c m = true ->
  known_unbounded dt c m x = false -> known_crash wr c = false ->
  exists b, surface_with dt wr c m x comb persistent =
            (RErr b, if retried c m then Z.to_nat max_consecutive_lost else 1%nat).
Proof.
  destruct dt, wr, c, m, x, comb; intros A E U K; try discriminate A; try discriminate E;
    try discriminate U; try discriminate K; vm_compute; eexists; reflexivity.
Qed.

(* ... for the code as it is now, whatever the switches are *)
Theorem sites_persistent_is_error c m x comb :
  applicable c x comb = true -> expressible c m = true ->
  known_unbounded worker_downgrades_temporary c m x = false ->
  known_crash write_combiner_recovers c = false ->
  exists b, surface c m x comb persistent =
            (RErr b, if retried c m then Z.to_nat max_consecutive_lost else 1%nat).
Proof. apply sites_persistent_is_error_with. Qed.

(* ... with both fixes: no guard at all *)
Theorem sites_persistent_is_error_fixed c m x comb :
  applicable c x comb = true -> expressible c m = true ->
  exists b, surface_with true true c m x comb persistent =
            (RErr b, if retried c m then Z.to_nat max_consecutive_lost else 1%nat).
Proof. intros A E. apply sites_persistent_is_error_with; auto. Qed.

(* THE CURRENT SOURCE has both (C06_gen_switches_current): unconditionally, for every call
   site, mode and executor, a persistent failure ends in an error from Run after one
   execution, or maxConsecutiveLost executions for a failure that loses the task *)
Lemma surface_current : surface = surface_with true true.
Proof. reflexivity. Qed.

Theorem sites_persistent_is_error_current c m x comb :
  applicable c x comb = true -> expressible c m = true ->
  exists b, surface c m x comb persistent =
            (RErr b, if retried c m then Z.to_nat max_consecutive_lost else 1%nat).
Proof. rewrite surface_current. apply sites_persistent_is_error_fixed. Qed.

Example sites_persistent_is_error_witness :
  surface CReader MError XBigmachine false persistent = (RErr true, 1%nat)
  /\ surface CWriter MTemp XLocal false persistent = (RErr false, 5%nat)
  /\ surface CCombBuffer MPanic XBigmachineMC true persistent = (RErr true, 1%nat)
  /\ surface CPartitioner MBadPart XBigmachine true persistent = (RErr false, 1%nat)
  /\ surface CScan MError XLocal false persistent = (RErr false, 5%nat)
  /\ surface CReader MTemp XBigmachine false persistent = (RErr false, 5%nat)
  /\ surface CCombCommit MPanic XBigmachineMC true persistent = (RErr true, 1%nat)
  /\ surface CCombCommit MPanic XBigmachine true persistent = (RErr true, 1%nat).
Proof. repeat split; reflexivity. Qed.

(* without the downgrade the first guard is needed, exactly there: RetryCall never hands the
   error to the driver.  Whatever the patience [fuel] of the observer, the call is still
   being retried. *)
Lemma bm_call_temporary_unbounded dt wr c m x comb e0 :
  commit_by_driver c x = false -> c <> CCombCommit ->
  attempt_result wr c m x comb = AErr e0 -> is_temporary (revise dt e0) = true ->
  forall fuel k, bm_call dt wr fuel c m x comb persistent k = (TRhang, (fuel + k)%nat).
Proof.
  intros Hd Hc Ha Ht. induction fuel as [|f IH]; intro k; [reflexivity|].
  cbn [bm_call]. unfold persistent at 1. rewrite Ha, Hd. cbv zeta.
  replace (match c with CCombCommit => negb own_commit_modelled | _ => false end) with false
    by (destruct c; congruence).
  rewrite Ht.
  assert (call_retries_temporary = Some true) as -> by reflexivity.
  cbn [andb]. rewrite IH. f_equal. lia.
Qed.

Theorem sites_temporary_unbounded_refuted wr c m x comb :
  applicable c x comb = true -> known_unbounded false c m x = true ->
  (forall fuel k, bm_call false wr fuel c m x comb persistent k = (TRhang, (fuel + k)%nat))
  /\ fst (surface_with false wr c m x comb persistent) = RHang.
Proof.
  intros A U.
  destruct wr, c, m, x; try discriminate U; destruct comb; try discriminate A;
    (split; [eapply bm_call_temporary_unbounded; (discriminate || (vm_compute; reflexivity))
            | vm_compute; reflexivity]).
Qed.

Example sites_temporary_unbounded_witness :
  exists c m x comb, applicable c x comb = true /\ expressible c m = true
    /\ fst (surface_with false true c m x comb persistent) = RHang.
Proof. exists CReader, MTemp, XBigmachine, false. repeat split; reflexivity. Qed.

(* the same failure on the local executor is bounded either way *)
Example sites_temporary_bounded_locally : forall dt wr,
  surface_with dt wr CReader MTemp XLocal false persistent = (RErr false, Z.to_nat max_consecutive_lost).
Proof. destruct dt, wr; reflexivity. Qed.

(* MESSAGE: reader and writer errors and every recovered panic carry the user's message
   (a persistent TEMPORARY error ends in the evaluator's own TooManyTries error instead:
   the message clause is about plain errors and panics) *)
Theorem sites_message_preserved dt wr c m x comb :
  applicable c x comb = true -> known_crash wr c = false ->
  (m = MPanic \/ ((c = CReader \/ c = CWriter) /\ m = MError)) ->
  surface_with dt wr c m x comb persistent = (RErr true, 1%nat).
Proof.
  intros A K H.
  destruct dt, wr, c, m, x, comb; try discriminate A; try discriminate K;
    try (vm_compute; reflexivity);
    exfalso; destruct H as [H|[[H|H] H2]]; congruence.
Qed.

(* the current source: every panic, including one in the commit-time merge *)
Theorem sites_message_preserved_current c m x comb :
  applicable c x comb = true ->
  (m = MPanic \/ ((c = CReader \/ c = CWriter) /\ m = MError)) ->
  surface c m x comb persistent = (RErr true, 1%nat).
Proof. intros A H. rewrite surface_current. apply sites_message_preserved; auto. Qed.

Example sites_message_preserved_witness :
  surface CCombTable MPanic XLocal true persistent = (RErr true, 1%nat)
  /\ surface CWriter MError XBigmachineMC true persistent = (RErr true, 1%nat)
  /\ surface CCombCommit MPanic XBigmachineMC true persistent = (RErr true, 1%nat).
Proof. repeat split; reflexivity. Qed.

Example sites_temporary_error_is_too_many_tries : forall dt wr,
  surface_with dt wr CReader MTemp XLocal false persistent = (RErr false, 5%nat)
  /\ surface_with true wr CWriter MTemp XBigmachine false persistent = (RErr false, 5%nat).
Proof. destruct dt, wr; split; reflexivity. Qed.

(* NO CRASH, no swallowed failure, nothing outside the model: for every pattern of
   firing, given the generated recover-site table *)
Definition bad_t (t : tres) : bool :=
  match t with TRcrash | TRpartial | TRunmodelled => true | _ => false end.

Lemma drive_not_bad submit :
  (forall k, bad_t (fst (submit k)) = false) ->
  forall fuel k lost, is_bad (fst (drive fuel submit k lost)) = false.
Proof.
  intro H. induction fuel as [|f IH]; intros k lost; [reflexivity|].
  cbn [drive]. specialize (H k). destruct (submit k) as [t k'].
  destruct t as [[| |] b| | | |]; try discriminate H; try reflexivity.
  destruct (eval_lost_bound_enabled && (eval_max_consecutive_lost <=? lost + 1)); [reflexivity|apply IH].
Qed.

Definition good_attempt (dt wr : bool) (c : csite) (m : mode) (x : xkind) (comb : bool) : bool :=
  match attempt_result wr c m x comb with
  | AErr e =>
      match x with
      | XLocal => match local_state c e with Some _ => true | None => false end
      | _ =>
          if commit_by_driver c x then
            is_temporary e
            || (bm_commit_failure_releases_and_returns
                && match tstate_of bm_commit_failure_target with Some _ => true | None => false end)
          else if match c with CCombCommit => negb own_commit_modelled | _ => false end then false
          else is_temporary (revise dt e)
               || match switch bm_run_switch (mkRpc false false true (is_fatal (revise dt e))) with
                  | Some _ => true | None => false end
      end
  | _ => false
  end.

Lemma local_submit_not_bad dt wr c m comb fails :
  good_attempt dt wr c m XLocal comb = true ->
  forall k, bad_t (fst (local_submit wr c m comb fails k)) = false.
Proof.
  unfold good_attempt, local_submit. intros G k. destruct (fails k); [|reflexivity].
  destruct (attempt_result wr c m XLocal comb); try discriminate G.
  destruct (local_state c e); [reflexivity|discriminate G].
Qed.

Lemma bm_call_not_bad dt wr c m x comb fails :
  x <> XLocal -> good_attempt dt wr c m x comb = true ->
  forall fuel k, bad_t (fst (bm_call dt wr fuel c m x comb fails k)) = false.
Proof.
  intros Hx G. unfold good_attempt in G.
  induction fuel as [|f IH]; intro k; [reflexivity|].
  cbn [bm_call]. destruct (fails k); [|reflexivity].
  destruct (attempt_result wr c m x comb); try discriminate G.
  assert (call_retries_temporary = Some true) as -> by reflexivity.
  assert (commit_call_retries_temporary = Some true) as -> by reflexivity.
  cbv zeta. cbn [andb].
  revert G. destruct x; [congruence| |];
    (destruct (commit_by_driver c _);
     [ destruct (is_temporary e); [intros _; apply IH|];
       cbn [orb]; intro G; apply andb_prop in G as [G1 G2]; rewrite G1; cbn [negb];
       destruct (tstate_of bm_commit_failure_target); [reflexivity|discriminate G2]
     | destruct (match c with CCombCommit => negb own_commit_modelled | _ => false end); [discriminate|];
       destruct (is_temporary (revise dt e)); [intros _; apply IH|];
       cbn [orb]; intro G;
       destruct (switch bm_run_switch (mkRpc false false true (is_fatal (revise dt e)))); [reflexivity|discriminate G] ]).
Qed.

Lemma good_attempt_everywhere dt wr c m x comb :
  applicable c x comb = true -> expressible c m = true -> known_crash wr c = false ->
  good_attempt dt wr c m x comb = true.
Proof.
  destruct dt, wr, c, m, x, comb; intros A E K; try discriminate A; try discriminate E; try discriminate K;
    vm_compute; reflexivity.
Qed.

Theorem sites_no_crash_with dt wr c m x comb fails :
  applicable c x comb = true -> expressible c m = true -> known_crash wr c = false ->
  is_bad (fst (surface_with dt wr c m x comb fails)) = false.
Proof.
  intros A E K. pose proof (good_attempt_everywhere dt wr c m x comb A E K) as G.
  unfold surface_with. apply drive_not_bad. intro k. unfold submit_of.
  destruct x.
  - eapply local_submit_not_bad. exact G.
  - apply bm_call_not_bad; [discriminate|exact G].
  - apply bm_call_not_bad; [discriminate|exact G].
Qed.

Theorem sites_no_crash c m x comb fails :
  applicable c x comb = true -> expressible c m = true ->
  known_crash write_combiner_recovers c = false ->
  is_bad (fst (surface c m x comb fails)) = false.
Proof. apply sites_no_crash_with. Qed.

(* the current source: no guard *)
Theorem sites_no_crash_current c m x comb fails :
  applicable c x comb = true -> expressible c m = true ->
  is_bad (fst (surface c m x comb fails)) = false.
Proof. intros A E. rewrite surface_current. apply sites_no_crash_with; auto. Qed.

Example sites_no_crash_witness :
  fst (surface CCombTable MPanic XLocal true (fun k => Nat.even k)) = RErr true
  /\ fst (surface CScan MPanic XLocal false persistent) = RErr true
  /\ fst (surface CPartitioner MBadPart XBigmachineMC true one_shot) = RErr false
  /\ fst (surface CCombCommit MPanic XBigmachineMC true one_shot) = RErr true.
Proof. repeat split; reflexivity. Qed.

(* the second guard was needed for the former source: without a recover on its goroutine
   (wr = false), the commit of a combine buffer merges the spilled runs with the user's
   combiner and a panic there kills the process (observed; fixed by 72da798) *)
Theorem sites_commit_merge_crash_refuted :
  exists c m x comb, applicable c x comb = true /\ expressible c m = true
    /\ (forall dt, fst (surface_with dt false c m x comb persistent) = RCrash).
Proof.
  exists CCombCommit, MPanic, XBigmachine, true.
  split; [reflexivity|split; [reflexivity|intro dt; destruct dt; reflexivity]].
Qed.

(* ... with the recover, on both bigmachine shapes: the panic becomes the error of the commit,
   carrying the user's message; with machine combiners it is the consumer's Run that sees it *)
Example sites_commit_merge_recovered : forall dt,
  surface_with dt true CCombCommit MPanic XBigmachine true persistent = (RErr true, 1%nat)
  /\ surface_with dt true CCombCommit MPanic XBigmachineMC true persistent = (RErr true, 1%nat).
Proof. destruct dt; split; reflexivity. Qed.

(* a panicking combiner in the partition buffer still hands the buffer back (fix c6645f8):
   the hand-back is a deferred send, so the next user of the partition finds the buffer *)
Lemma combine_buffer_handed_back :
  combine_and_return_hands_back_on_panic && run_combine_uses_combine_and_return = true.
Proof. reflexivity. Qed.

(* TRANSIENT FAILURE: one that would only lose the task and goes away on retry
   does not fail the run, on every executor, whatever the switches *)
Theorem sites_transient_recovers_with dt wr c m x comb :
  applicable c x comb = true -> expressible c m = true -> retried c m = true ->
  surface_with dt wr c m x comb one_shot = (ROk, 2%nat).
Proof.
  destruct dt, wr, c, m, x, comb; intros A E R; try discriminate A; try discriminate E; try discriminate R;
    vm_compute; reflexivity.
Qed.

Theorem sites_transient_recovers c m x comb :
  applicable c x comb = true -> expressible c m = true -> retried c m = true ->
  surface c m x comb one_shot = (ROk, 2%nat).
Proof. apply sites_transient_recovers_with. Qed.

Example sites_transient_recovers_witness :
  surface CReader MTemp XBigmachine false one_shot = (ROk, 2%nat)
  /\ surface CWriter MTemp XLocal true one_shot = (ROk, 2%nat)
  /\ surface CReader MError XLocal false one_shot = (RErr true, 1%nat).   (* a fatal failure is not retried *)
Proof. repeat split; reflexivity. Qed.

(* fewer than maxConsecutiveLost consecutive losses before a success: success *)
Theorem sites_temporary_then_success dt wr c m x comb (n : nat) :
  applicable c x comb = true -> expressible c m = true -> retried c m = true ->
  (Z.of_nat n < max_consecutive_lost) ->
  surface_with dt wr c m x comb (fun k => Nat.ltb k n) = (ROk, S n).
Proof.
  intros A E R Hn. change max_consecutive_lost with 5 in Hn.
  assert (n = 0 \/ n = 1 \/ n = 2 \/ n = 3 \/ n = 4)%nat as H by lia.
  destruct dt, wr, c, m, x, comb; try discriminate A; try discriminate E; try discriminate R;
    destruct H as [->|[->|[->|[->| ->]]]]; vm_compute; reflexivity.
Qed.

(* ================= relation to the coarse model (C06/Model.v) ================= *)

(* wherever neither guard applies, the coarse chain and the site chain agree: Run fails,
   after the same number of executions of the failing task *)
Theorem sites_refine_model dt wr c m x comb :
  applicable c x comb = true -> expressible c m = true ->
  known_unbounded dt c m x = false -> known_crash wr c = false ->
  fst (run_task (coarse c) m persistent) = RunErr
  /\ (exists b, fst (surface_with dt wr c m x comb persistent) = RErr b)
  /\ snd (surface_with dt wr c m x comb persistent) = snd (run_task (coarse c) m persistent).
Proof.
  intros A E U K. split; [apply persistent_failure_is_error|].
  destruct (sites_persistent_is_error_with dt wr c m x comb A E U K) as [b H]. rewrite H. split.
  - exists b. reflexivity.
  - cbn [snd]. clear H. destruct c, m; try discriminate E; vm_compute; reflexivity.
Qed.

(* the severity table of the coarse model is the site chain's *)
Theorem sites_severity_agrees c m :
  expressible c m = true ->
  (retried c m = true <-> surfaces (coarse c) m = SevTemporary).
Proof.
  intros E. destruct c, m; try discriminate E;
    vm_compute; split; intro H; (reflexivity || discriminate H).
Qed.

(* in particular for the Scan callback: its plain error is not Fatal, the task is lost and rerun *)
Example coarse_model_scan_error_agrees :
  run_task SScan MError persistent = (RunErr, 5%nat)
  /\ surface CScan MError XLocal false persistent = (RErr false, 5%nat).
Proof. split; reflexivity. Qed.

(* C06 — judging failure-injection scenarios. *)
From Coq Require Import List ZArith Bool.
Import ListNotations.
Require Export BS.C01.Corr BS.C06.Model.
Local Open Scope Z_scope.

Record case := mkCase {
  cprog : list node;
  csite : site; cmode : mode; conce : bool; cx : xkind;
  cfires : nat;            (* how often the injected failure point fired *)
  cerr : errc;             (* outcome of Run (or crash / hang of the driver process) *)
  cobs : obs;              (* full observation when Run succeeded *)
  cafter : errc            (* a trivial follow-up run in the same session *)
}.

Definition is_error (e : errc) : bool :=
  match e with EUser | EOther => true | _ => false end.

Definition ok (c : case) : bool :=
  errc_eqb (cafter c) EOk &&          (* the session stays usable; never a crash or hang *)
  if Nat.eqb (cfires c) 0 then
    (* the failure point was never reached: an ordinary failure-free run *)
    errc_eqb (cerr c) EOk && ok_with (ref (cprog c)) (cprog c) (cobs c)
  else
    match fst (run_task (csite c) (cmode c) (if conce c then one_shot else persistent)) with
    | RunOk =>   (* a temporary failure that went away on retry *)
        errc_eqb (cerr c) EOk && ok_rows_with (ref (cprog c)) (cobs c)
    | RunErr =>  (* Run must return an error, with the user's message where the property says so,
                    after a bounded number of attempts *)
        is_error (cerr c)
        && (negb (msg_carried (csite c) (cmode c)) || errc_eqb (cerr c) EUser)
        && (cfires c <=? 320)%nat
    end.

Definition violations (cs : list case) : list nat := bad_indices ok cs.
Definition mismatches (cs : list case) : list nat := violations cs.

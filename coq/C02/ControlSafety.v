(* C02 — safety proofs about the control-plane model (C02/Control.v): invariants over all histories. *)
From Coq Require Import List ZArith Bool Arith Lia.
Import ListNotations.
Require Import BS.C02.Control.

(* ------------------------------------------------------------------ lists, machines *)

Lemma nth_set_nth {A} (l : list A) (i j : nat) (x d : A) :
  nth i (set_nth l j x) d = if Nat.eqb i j && Nat.ltb j (length l) then x else nth i l d.
Proof.
  revert i j. induction l as [|y l IH]; intros i j.
  - cbn [set_nth length]. destruct j; rewrite andb_false_r; reflexivity.
  - destruct j as [|j]; destruct i as [|i]; cbn [set_nth nth length]; try reflexivity.
    rewrite IH. replace (Nat.ltb (S j) (S (length l))) with (Nat.ltb j (length l)); [reflexivity|].
    destruct (Nat.ltb_spec j (length l)), (Nat.ltb_spec (S j) (S (length l))); (reflexivity || lia).
Qed.

Lemma length_set_nth {A} (l : list A) (j : nat) (x : A) : length (set_nth l j x) = length l.
Proof. revert j; induction l as [|y l IH]; intros [|j]; cbn [set_nth length]; auto. Qed.

Lemma getm_upd w m x m' :
  getm (upd_mach w m x) m' = if Nat.eqb m' m && Nat.ltb m (length (wms w)) then x else getm w m'.
Proof. unfold getm, upd_mach, set_ms. cbn [wms]. apply nth_set_nth. Qed.

Lemma getm_upd_same w m x : m < length (wms w) -> getm (upd_mach w m x) m = x.
Proof.
  intro H. rewrite getm_upd, Nat.eqb_refl. apply Nat.ltb_lt in H. rewrite H. reflexivity.
Qed.

Lemma getm_upd_other w m x m' : m' <> m -> getm (upd_mach w m x) m' = getm w m'.
Proof. intro H. rewrite getm_upd. apply Nat.eqb_neq in H. rewrite H. reflexivity. Qed.

Lemma getm_out w m : length (wms w) <= m -> getm w m = dead_mach.
Proof. intro H. unfold getm. apply nth_overflow. exact H. Qed.

Lemma getm_app w m x : m < length (wms w) -> nth m (wms w ++ [x]) dead_mach = getm w m.
Proof. intro H. unfold getm. apply app_nth1. exact H. Qed.

Lemma upd_same {A} (f : nat -> A) k v : upd f k v k = v.
Proof. unfold upd. rewrite Nat.eqb_refl. reflexivity. Qed.
Lemma upd_other {A} (f : nat -> A) k v x : x <> k -> upd f k v x = f x.
Proof. intro H. unfold upd. apply Nat.eqb_neq in H. rewrite H. reflexivity. Qed.

Lemma mem_In x l : mem x l = true <-> In x l.
Proof.
  unfold mem. rewrite existsb_exists. split.
  - intros [y [Hy He]]. apply Nat.eqb_eq in He. subst. exact Hy.
  - intro H. exists x. split; [exact H|apply Nat.eqb_refl].
Qed.

Lemma In_rm x y l : In y (rm x l) <-> In y l /\ y <> x.
Proof.
  unfold rm. rewrite filter_In. split; intros [H1 H2]; split; auto.
  - intro E. subst. rewrite Nat.eqb_refl in H2. discriminate.
  - apply negb_true_iff. apply Nat.eqb_neq. auto.
Qed.

Lemma lookup_In t s r : lookup t s = Some r -> In (t, r) s.
Proof.
  unfold lookup. destruct (find _ s) as [e|] eqn:E; [|discriminate].
  intro H. inversion H; subst. apply find_some in E as [Hin Hb].
  apply Nat.eqb_eq in Hb. destruct e as [t' r']. cbn in *. subst. exact Hin.
Qed.

Lemma lookup_cons t t' r s :
  lookup t ((t', r) :: s) = if Nat.eqb t' t then Some r else lookup t s.
Proof. unfold lookup. cbn [find fst snd]. destruct (Nat.eqb t' t); reflexivity. Qed.

Lemma mark_lost_spec st ts t :
  mark_lost st ts t = if mem t ts then TLost else st t.
Proof.
  unfold mark_lost. revert st. induction ts as [|x ts IH]; intro st; cbn [fold_left mem existsb].
  - reflexivity.
  - rewrite IH. fold (mem t ts). destruct (mem t ts); cbn [orb].
    + rewrite orb_true_r. reflexivity.
    + rewrite orb_false_r. unfold upd. reflexivity.
Qed.

Lemma firstn_S_nth {A} (l : list A) i x :
  nth_error l i = Some x -> firstn (S i) l = firstn i l ++ [x].
Proof.
  revert i. induction l as [|y l IH]; intros [|i] H; cbn in *; try discriminate.
  - inversion H; reflexivity.
  - rewrite (IH i H). reflexivity.
Qed.

Lemma firstn_none {A} (l : list A) i : nth_error l i = None -> firstn i l = l.
Proof. intro H. apply firstn_all2. apply nth_error_None. exact H. Qed.

Section Proofs.
Variable compute : nat -> list (list (list Z)) -> list (list Z).
Variable okb : bool.
Variable max_lost : nat.
Variable max_retry : nat.
Variable g : list (list nat).
Variable roots : list nat.
Hypothesis Hwf : wf_graph g roots = true.

Notation value := (value compute g).
Notation step := (step compute okb max_lost max_retry g roots).
Notation run := (run compute okb max_lost max_retry g roots).
Notation deps_of := (deps_of g).

(* ------------------------------------------------------------------ the failure-free value *)

Lemma deps_lt t d : In d (deps_of t) -> d < t.
Proof.
  intro H. destruct (Nat.lt_ge_cases t (length g)) as [Hlt|Hge].
  - unfold wf_graph in Hwf. apply andb_true_iff in Hwf as [H1 _].
    rewrite forallb_forall in H1. specialize (H1 t).
    assert (Hin : In t (seq 0 (ntasks g))) by (apply in_seq; unfold ntasks; lia).
    specialize (H1 Hin). rewrite forallb_forall in H1. apply Nat.ltb_lt. apply H1. exact H.
  - unfold Control.deps_of in H. rewrite nth_overflow in H by exact Hge. destruct H.
Qed.

Lemma value_f_stable : forall f1 f2 t, t < f1 -> t < f2 ->
  value_f compute g f1 t = value_f compute g f2 t.
Proof.
  induction f1 as [|f1 IH]; intros f2 t H1 H2; [lia|].
  destruct f2 as [|f2]; [lia|]. cbn [value_f]. f_equal.
  apply map_ext_in. intros d Hd. apply deps_lt in Hd. apply IH; lia.
Qed.

Lemma value_spec t : value t = compute t (map value (deps_of t)).
Proof.
  unfold Control.value. cbn [value_f]. f_equal. apply map_ext_in.
  intros d Hd. apply deps_lt in Hd.
  change (value_f compute g t d = value_f compute g (S d) d). apply value_f_stable; lia.
Qed.

(* ------------------------------------------------------------------ the invariant *)

Record Inv (w : world) : Prop := mkInv {
  (* every stored output is the failure-free value *)
  i_store : forall m t r, In (t, r) (mstore (getm w m)) -> r = value t;
  i_locb : forall t m, wloc w t = Some m -> m < length (wms w);
  i_phb : forall t m, wph w t = PReplied m \/ wph w t = PMid m -> m < length (wms w);
  (* an output that was committed is there as long as the machine lives *)
  i_has : forall t m, wph w t = PReplied m \/ wph w t = PMid m \/ wloc w t = Some m ->
          malive (getm w m) = true -> lookup t (mstore (getm w m)) = Some (value t);
  i_okloc : forall t, wst w t = TOk -> exists m, wloc w t = Some m;
  i_midloc : forall t m, wph w t = PMid m -> wloc w t = Some m;
  i_mode : match wmode w with
           | MScan i acc _ => acc = map value (firstn i roots)
           | MDone out => out = map value roots
           | _ => True
           end
}.

Lemma inv_init n : Inv (init_world n).
Proof.
  constructor; cbn; try discriminate; auto;
    try (intros t m [H|H]; discriminate); try (intros t m [H|[H|H]]; discriminate).
  intros m t r H. unfold getm in H. cbn [wms init_world] in H.
  destruct (Nat.lt_ge_cases m n) as [Hl|Hg].
  - rewrite (nth_indep _ _ (mkM true false [] [])) in H by (rewrite repeat_length; exact Hl).
    rewrite nth_repeat in H. destruct H.
  - rewrite nth_overflow in H by (rewrite repeat_length; exact Hg). destruct H.
Qed.

Lemma read_at_value w m d r : Inv w -> read_at w m d = Some r -> r = value d.
Proof.
  intros HI. unfold read_at. destruct (malive (getm w m)); [|discriminate].
  intro H. apply lookup_In in H. eapply i_store; eassumption.
Qed.

Lemma read_loc_value w d r : Inv w -> read_loc w d = Some r -> r = value d.
Proof.
  intros HI. unfold read_loc. destruct (wloc w d) as [m|]; [|discriminate].
  apply read_at_value. exact HI.
Qed.

Lemma gather_values w m : Inv w -> forall ds ins, gather w m ds = Some ins -> ins = map value ds.
Proof.
  intro HI. induction ds as [|d ds IH]; intros ins H; cbn [gather] in H.
  - inversion H. reflexivity.
  - destruct (read_dep w m d) as [r|] eqn:Er; [|discriminate].
    destruct (gather w m ds) as [l|] eqn:Eg; [|discriminate].
    inversion H; subst. cbn [map]. f_equal; [|apply IH; reflexivity].
    unfold read_dep in Er. destruct (read_at w m d) as [r'|] eqn:Ea.
    + inversion Er; subst. eapply read_at_value; eassumption.
    + eapply read_loc_value; eassumption.
Qed.

(* steps that change only task states (never to OK), counters, pending, err *)
Lemma inv_ext w w' :
  wms w' = wms w -> wph w' = wph w -> wloc w' = wloc w -> wmode w' = wmode w ->
  (forall t, wst w' t = TOk -> wst w t = TOk) -> Inv w -> Inv w'.
Proof.
  intros Hms Hph Hloc Hmode Hst HI.
  assert (Hg : forall m, getm w' m = getm w m) by (intro m; unfold getm; rewrite Hms; reflexivity).
  destruct HI as [H1 H2 H3 H4 H5 H6 H7].
  constructor.
  - intros m t r. rewrite Hg. apply H1.
  - intros t m. rewrite Hloc, Hms. apply H2.
  - intros t m. rewrite Hph, Hms. apply H3.
  - intros t m. rewrite Hph, Hloc, Hg. apply H4.
  - intros t Ht. rewrite Hloc. apply H5. apply Hst. exact Ht.
  - intros t m. rewrite Hph, Hloc. apply H6.
  - rewrite Hmode. exact H7.
Qed.

Lemma count_lost_frame w t :
  let w' := count_lost max_lost w t in
  wms w' = wms w /\ wph w' = wph w /\ wloc w' = wloc w /\ wmode w' = wmode w /\
  wpend w' = wpend w /\ werr w' = werr w /\
  (forall x, x <> t -> wst w' x = wst w x) /\
  (wst w' t = wst w t \/ wst w' t = TErr).
Proof using.
  unfold count_lost. destruct (wunc w t); [|cbn; repeat split; auto].
  destruct (Nat.ltb (S (wcl w t)) max_lost); cbn.
  - repeat split; auto.
  - repeat split; try reflexivity.
    + intros x Hx. apply upd_other. exact Hx.
    + right. apply upd_same.
Qed.

Lemma count_lost_ok w t x : wst (count_lost max_lost w t) x = TOk -> wst w x = TOk.
Proof using.
  destruct (count_lost_frame w t) as (_ & _ & _ & _ & _ & _ & Ho & Hs).
  destruct (Nat.eq_dec x t) as [->|Hn].
  - destruct Hs as [Hs|Hs]; rewrite Hs; [auto|discriminate].
  - rewrite (Ho x Hn). auto.
Qed.

Lemma inv_dispatch w t : Inv w -> Inv (step w (LDispatch t)).
Proof.
  intro HI. cbn [Control.step].
  destruct (active w && mem t (runnable g roots w)); [|exact HI].
  set (w1 := if st_eqb (wst w t) TLost then count_lost max_lost w t else w).
  assert (H1 : wms w1 = wms w /\ wph w1 = wph w /\ wloc w1 = wloc w /\ wmode w1 = wmode w /\
               forall x, wst w1 x = TOk -> wst w x = TOk).
  { unfold w1. destruct (st_eqb (wst w t) TLost); [|tauto].
    destruct (count_lost_frame w t) as (A & B & C & D & _). repeat split; auto.
    intro x. apply count_lost_ok. }
  destruct H1 as (A & B & C & D & E).
  destruct (st_eqb (wst w1 t) TErr).
  - apply (inv_ext w); auto.
  - apply (inv_ext w); auto. cbn. intros x Hx. apply E.
    unfold upd in Hx. destruct (Nat.eqb x t); [discriminate|exact Hx].
Qed.

Lemma inv_return w t : Inv w -> Inv (step w (LReturn t)).
Proof.
  intro HI. cbn [Control.step].
  destruct (active w && mem t (wpend w) && ge_ok (wst w t)); [|exact HI].
  set (w1 := match wst w t with
             | TOk => set_unc (set_cl w (upd (wcl w) t 0)) (upd (wunc w) t false)
             | TLost => count_lost max_lost w t
             | _ => w end).
  assert (H1 : wms w1 = wms w /\ wph w1 = wph w /\ wloc w1 = wloc w /\ wmode w1 = wmode w /\
               forall x, wst w1 x = TOk -> wst w x = TOk).
  { unfold w1. destruct (wst w t); try (cbn; tauto).
    destruct (count_lost_frame w t) as (A & B & C & D & _). repeat split; auto.
    intro x. apply count_lost_ok. }
  destruct H1 as (A & B & C & D & E).
  match goal with |- Inv (if ?c then _ else _) => destruct c end; apply (inv_ext w); auto.
Qed.

Lemma upd_mach_frame w m x :
  wst (upd_mach w m x) = wst w /\ wph (upd_mach w m x) = wph w /\ wloc (upd_mach w m x) = wloc w /\
  wmode (upd_mach w m x) = wmode w /\ length (wms (upd_mach w m x)) = length (wms w).
Proof using. unfold upd_mach, set_ms. cbn. rewrite length_set_nth. repeat split; reflexivity. Qed.

Lemma inv_run w t m : Inv w -> Inv (step w (LRun t m)).
Proof.
  intro HI. cbn [Control.step].
  destruct (wst w t) eqn:Est; try exact HI. destruct (wph w t) eqn:Eph; try exact HI.
  destruct (Nat.ltb m (length (wms w)) && negb (mlost (getm w m))) eqn:Eg; [|exact HI].
  apply andb_true_iff in Eg as [Hm _]. apply Nat.ltb_lt in Hm.
  destruct (if malive (getm w m) then gather w m (deps_of t) else None) as [ins|] eqn:Egat.
  2:{ apply (inv_ext w); auto. cbn. intros x Hx. unfold upd in Hx.
      destruct (Nat.eqb x t); [discriminate|exact Hx]. }
  assert (Hv : compute t ins = value t).
  { destruct (malive (getm w m)); [|discriminate].
    rewrite (gather_values w m HI _ _ Egat). symmetry. apply value_spec. }
  rewrite Hv. clear Egat Hv ins.
  destruct HI as [H1 H2 H3 H4 H5 H6 H7].
  match goal with |- Inv ?W => set (w' := W) end.
  set (x := mkM (malive (getm w m)) (mlost (getm w m)) (mtasks (getm w m))
                ((t, value t) :: mstore (getm w m))).
  assert (Fst : wst w' = upd (wst w) t TRunning) by reflexivity.
  assert (Fph : wph w' = upd (wph w) t (PReplied m)) by reflexivity.
  assert (Floc : wloc w' = wloc w) by reflexivity.
  assert (Fmode : wmode w' = wmode w) by reflexivity.
  assert (Flen : length (wms w') = length (wms w)) by (cbn; apply length_set_nth).
  assert (Hgm : forall m', getm w' m' = if Nat.eqb m' m then x else getm w m').
  { intro m'. change (getm w' m') with (getm (upd_mach w m x) m'). rewrite getm_upd.
    apply Nat.ltb_lt in Hm. rewrite Hm, andb_true_r. reflexivity. }
  clearbody w'.
  constructor.
  - intros m' t' r. rewrite Hgm.
    destruct (Nat.eqb_spec m' m) as [->|Hn]; [|apply H1].
    cbn [mstore x]. intros [Hin|Hin]; [inversion Hin; reflexivity|apply (H1 m); exact Hin].
  - intros t' m'. rewrite Floc, Flen. apply H2.
  - intros t' m'. rewrite Fph, Flen. unfold upd.
    destruct (Nat.eqb t' t).
    + intros [E|E]; inversion E; subst; exact Hm.
    + apply H3.
  - intros t' m' Hc Ha. rewrite Hgm in *. rewrite Fph, Floc in Hc.
    destruct (Nat.eqb_spec m' m) as [->|Hn].
    + cbn [mstore x]. rewrite lookup_cons. destruct (Nat.eqb_spec t t') as [->|Hnt]; [reflexivity|].
      cbn [malive x] in Ha. apply H4; [|exact Ha].
      unfold upd in Hc. apply Nat.neq_sym in Hnt. apply Nat.eqb_neq in Hnt. rewrite Hnt in Hc. exact Hc.
    + apply H4; [|exact Ha]. unfold upd in Hc. destruct (Nat.eqb_spec t' t) as [->|Hnt]; [|exact Hc].
      destruct Hc as [E|[E|E]]; try discriminate.
      * inversion E; subst. congruence.
      * right; right; exact E.
  - intros t'. rewrite Fst, Floc. unfold upd. destruct (Nat.eqb t' t); [discriminate|apply H5].
  - intros t' m'. rewrite Fph, Floc. unfold upd. destruct (Nat.eqb_spec t' t) as [->|Hn]; [discriminate|apply H6].
  - rewrite Fmode. exact H7.
Qed.

(* steps that keep every machine's liveness and store *)
Lemma inv_ext3 w w' :
  length (wms w') = length (wms w) ->
  (forall m, malive (getm w' m) = malive (getm w m) /\ mstore (getm w' m) = mstore (getm w m)) ->
  wmode w' = wmode w ->
  (forall t m, wph w' t = PReplied m -> wph w t = PReplied m) ->
  (forall t m, wph w' t = PMid m -> (wph w t = PMid m \/ wph w t = PReplied m) /\ wloc w' t = Some m) ->
  (forall t m, wloc w' t = Some m -> wloc w t = Some m \/ wph w t = PReplied m) ->
  (forall t m, wloc w t = Some m -> exists m', wloc w' t = Some m') ->
  (forall t, wst w' t = TOk -> wst w t = TOk \/ exists m, wloc w' t = Some m) ->
  Inv w -> Inv w'.
Proof.
  intros Hlen Hm Hmode Hrep Hmid Hloc Hkeep Hok [H1 H2 H3 H4 H5 H6 H7].
  constructor.
  - intros m t r. destruct (Hm m) as [_ E]. rewrite E. apply H1.
  - intros t m E. rewrite Hlen. apply Hloc in E as [E|E]; [eapply H2|eapply H3]; eauto.
  - intros t m [E|E]; rewrite Hlen.
    + apply Hrep in E. eapply H3; eauto.
    + apply Hmid in E as [[E|E] _]; eapply H3; eauto.
  - intros t m Hc Ha. destruct (Hm m) as [Ea Es]. rewrite Es. rewrite Ea in Ha.
    apply H4; [|exact Ha].
    destruct Hc as [E|[E|E]].
    + left. apply Hrep. exact E.
    + apply Hmid in E as [[E|E] _]; tauto.
    + apply Hloc in E as [E|E]; tauto.
  - intros t Ht. apply Hok in Ht as [Ht|Ht]; [|exact Ht].
    apply H5 in Ht as [m Ht]. eapply Hkeep; eauto.
  - intros t m E. apply Hmid in E as [_ E]. exact E.
  - rewrite Hmode. exact H7.
Qed.

Lemma assign_frame w m t :
  let w' := assign w m t in
  length (wms w') = length (wms w) /\
  (forall m', malive (getm w' m') = malive (getm w m') /\ mstore (getm w' m') = mstore (getm w m')
              /\ mlost (getm w' m') = mlost (getm w m')) /\
  wmode w' = wmode w /\ wph w' = wph w /\ wloc w' = wloc w /\
  wcl w' = wcl w /\ wunc w' = wunc w /\ wpend w' = wpend w /\ werr w' = werr w /\
  (forall x, x <> t -> wst w' x = wst w x) /\
  (wst w' t = wst w t \/ wst w' t = TLost).
Proof using.
  unfold assign. destruct (mlost (getm w m)) eqn:El.
  - cbn. repeat split; auto.
    + intros x Hx. apply upd_other. exact Hx.
    + right. apply upd_same.
  - destruct (upd_mach_frame w m (mkM (malive (getm w m)) false (t :: rm t (mtasks (getm w m)))
                                      (mstore (getm w m)))) as (A & B & C & D & E).
    repeat split; auto.
    all: try (rewrite getm_upd;
              destruct (Nat.eqb_spec m' m) as [->|Hn]; cbn [andb]; [|reflexivity];
              destruct (Nat.ltb m (length (wms w))); cbn; congruence).
Qed.

Lemma inv_reply1 w t : Inv w -> Inv (step w (LReply1 t)).
Proof.
  intro HI. cbn [Control.step]. destruct (wph w t) as [|m|m] eqn:Eph; try exact HI.
  set (w1 := set_loc w (upd (wloc w) t (Some m))).
  set (w2 := if okb then set_st w1 (upd (wst w1) t TOk) else assign w1 m t).
  assert (F : length (wms w2) = length (wms w) /\
              (forall m', malive (getm w2 m') = malive (getm w m') /\ mstore (getm w2 m') = mstore (getm w m')) /\
              wmode w2 = wmode w /\ wph w2 = wph w /\ wloc w2 = upd (wloc w) t (Some m) /\
              (forall x, x <> t -> wst w2 x = wst w x)).
  { unfold w2. destruct okb.
    - cbn. repeat split; auto. intros x Hx. apply upd_other. exact Hx.
    - destruct (assign_frame w1 m t) as (A & B & C & D & E & _ & _ & _ & _ & G & _).
      repeat split; auto; apply B. }
  destruct F as (A & B & C & D & E & G).
  apply (inv_ext3 w); cbn [wms wmode wph wloc wst set_ph]; auto.
  - intros x m'. rewrite D. unfold upd. destruct (Nat.eqb x t); [discriminate|auto].
  - intros x m'. rewrite D, E. unfold upd. destruct (Nat.eqb_spec x t) as [->|Hn].
    + intro H. inversion H; subst. split; [right; exact Eph|reflexivity].
    + intro H. split; [left; exact H|]. eapply i_midloc; eauto.
  - intros x m'. rewrite E. unfold upd. destruct (Nat.eqb_spec x t) as [->|Hn].
    + intro H. inversion H; subst. right. exact Eph.
    + auto.
  - intros x m'. rewrite E. unfold upd. destruct (Nat.eqb x t); eauto.
  - intros x. rewrite E. destruct (Nat.eq_dec x t) as [->|Hn].
    + intros _. right. rewrite upd_same. eauto.
    + rewrite (G x Hn). auto.
Qed.

Lemma inv_reply2 w t : Inv w -> Inv (step w (LReply2 t)).
Proof.
  intro HI. cbn [Control.step]. destruct (wph w t) as [|m|m] eqn:Eph; try exact HI.
  set (w2 := if okb then assign w m t else set_st w (upd (wst w) t TOk)).
  assert (F : length (wms w2) = length (wms w) /\
              (forall m', malive (getm w2 m') = malive (getm w m') /\ mstore (getm w2 m') = mstore (getm w m')) /\
              wmode w2 = wmode w /\ wph w2 = wph w /\ wloc w2 = wloc w /\
              (forall x, x <> t -> wst w2 x = wst w x)).
  { unfold w2. destruct okb.
    - destruct (assign_frame w m t) as (A & B & C & D & E & _ & _ & _ & _ & G & _).
      repeat split; auto; apply B.
    - cbn. repeat split; auto. intros x Hx. apply upd_other. exact Hx. }
  destruct F as (A & B & C & D & E & G).
  apply (inv_ext3 w); cbn [wms wmode wph wloc wst set_ph]; auto.
  - intros x m'. rewrite D. unfold upd. destruct (Nat.eqb x t); [discriminate|auto].
  - intros x m'. rewrite D, E. unfold upd. destruct (Nat.eqb_spec x t) as [->|Hn]; [discriminate|].
    intro H. split; [left; exact H|]. eapply i_midloc; eauto.
  - intros x m'. rewrite E. auto.
  - intros x m'. rewrite E. eauto.
  - intros x. rewrite E. destruct (Nat.eq_dec x t) as [->|Hn].
    + intros _. right. exists m. eapply i_midloc; eauto.
    + rewrite (G x Hn). auto.
Qed.

Lemma inv_notice w m : Inv w -> Inv (step w (LNotice m)).
Proof.
  intro HI. cbn [Control.step]. destruct (Nat.ltb m (length (wms w))) eqn:Hm; [|exact HI].
  set (x := mkM (malive (getm w m)) true [] (mstore (getm w m))).
  destruct (upd_mach_frame w m x) as (A & B & C & D & E).
  apply (inv_ext3 w); cbn [wms wmode wph wloc wst set_st]; auto.
  - intro m'. match goal with |- context [getm (set_st ?a ?b) m'] => change (getm (set_st a b) m') with (getm a m') end.
    rewrite getm_upd. destruct (Nat.eqb_spec m' m) as [->|Hn]; cbn [andb]; [|split; reflexivity].
    rewrite Hm. cbn. split; reflexivity.
  - intros t m'. rewrite B, C. intro H. split; [auto|]. eapply i_midloc; eauto.
  - intros t m'. rewrite C. eauto.
  - intros t. rewrite mark_lost_spec. destruct (mem t (mtasks (getm w m))); [discriminate|].
    rewrite A. auto.
Qed.

Lemma inv_kill w m : Inv w -> Inv (step w (LKill m)).
Proof.
  intro HI. cbn [Control.step]. destruct (Nat.ltb m (length (wms w))) eqn:Hm; [|exact HI].
  set (x := mkM false (mlost (getm w m)) (mtasks (getm w m)) []).
  destruct (upd_mach_frame w m x) as (A & B & C & D & E).
  assert (Hg : forall m', getm (upd_mach w m x) m' = if Nat.eqb m' m then x else getm w m').
  { intro m'. rewrite getm_upd, Hm, andb_true_r. reflexivity. }
  destruct HI as [H1 H2 H3 H4 H5 H6 H7].
  constructor.
  - intros m' t r. rewrite Hg. destruct (Nat.eqb m' m); [intros []|apply H1].
  - intros t m'. rewrite C, E. apply H2.
  - intros t m'. rewrite B, E. apply H3.
  - intros t m'. rewrite B, C, Hg. destruct (Nat.eqb m' m); [cbn; discriminate|apply H4].
  - intros t. rewrite A, C. apply H5.
  - intros t m'. rewrite B, C. apply H6.
  - rewrite D. exact H7.
Qed.

Lemma inv_start w : Inv w -> Inv (step w LStart).
Proof.
  intros [H1 H2 H3 H4 H5 H6 H7]. cbn [Control.step].
  set (x := mkM true false [] []).
  assert (Hg : forall m', m' < length (wms w) -> getm (set_ms w (wms w ++ [x])) m' = getm w m').
  { intros m' Hm. unfold getm at 1. cbn [wms set_ms]. apply getm_app. exact Hm. }
  assert (Hlen : length (wms (set_ms w (wms w ++ [x]))) = S (length (wms w))).
  { cbn. rewrite app_length. cbn. lia. }
  constructor; cbn [wst wph wloc wmode set_ms]; auto.
  - intros m' t r. destruct (Nat.lt_ge_cases m' (length (wms w))) as [Hl|Hge].
    + rewrite Hg by exact Hl. apply H1.
    + unfold getm. cbn [wms set_ms]. destruct (Nat.eq_dec m' (length (wms w))) as [->|Hn].
      * rewrite nth_middle. intros [].
      * rewrite nth_overflow; [intros []|]. rewrite app_length. cbn. lia.
  - intros t m' E. rewrite Hlen. apply H2 in E. lia.
  - intros t m' E. rewrite Hlen. apply H3 in E. lia.
  - intros t m' Hc. assert (Hl : m' < length (wms w)).
    { destruct Hc as [E|[E|E]]; [eapply H3|eapply H3|eapply H2]; eauto. }
    rewrite Hg by exact Hl. apply H4. exact Hc.
Qed.

Lemma inv_finish w : Inv w -> Inv (step w LFinish).
Proof.
  intro HI. cbn [Control.step]. destruct (wmode w) eqn:Em; try exact HI.
  match goal with |- Inv (if ?c then _ else _) => destruct c end; [|exact HI].
  destruct HI as [H1 H2 H3 H4 H5 H6 H7].
  constructor; cbn [wms wst wph wloc wmode set_mode]; auto.
  unfold scan_start. destruct (nth_error roots 0) eqn:E; [reflexivity|].
  destruct roots; [reflexivity|discriminate].
Qed.

Lemma inv_scan w : Inv w -> Inv (step w LScan).
Proof.
  intro HI. cbn [Control.step]. destruct (wmode w) as [|i acc k| |] eqn:Em; try exact HI.
  destruct (nth_error roots i) as [r|] eqn:Er; [|exact HI].
  match goal with |- Inv (if ?c then _ else _) => destruct c end; [|exact HI].
  pose proof (i_mode w HI) as Hmode. rewrite Em in Hmode.
  destruct (read_loc w r) as [rws|] eqn:Erd.
  - apply (read_loc_value w r rws HI) in Erd. subst rws.
    destruct HI as [H1 H2 H3 H4 H5 H6 H7].
    constructor; cbn [wms wst wph wloc wmode set_mode]; auto.
    assert (Hacc : acc ++ [value r] = map value (firstn (S i) roots)).
    { rewrite (firstn_S_nth roots i r Er), map_app, Hmode. reflexivity. }
    unfold scan_start. destruct (nth_error roots (S i)) eqn:E; [exact Hacc|].
    rewrite Hacc, (firstn_none roots (S i) E). reflexivity.
  - destruct HI as [H1 H2 H3 H4 H5 H6 H7].
    constructor; cbn [wms wst wph wloc wmode set_mode]; auto.
    destruct (Nat.ltb k max_retry); [exact Hmode|exact I].
Qed.

Lemma step_inv w l : Inv w -> Inv (step w l).
Proof.
  destruct l.
  - apply inv_dispatch. - apply inv_run. - apply inv_reply1. - apply inv_reply2.
  - apply inv_return. - apply inv_finish. - apply inv_scan.
  - apply inv_kill. - apply inv_notice. - apply inv_start.
Qed.

Lemma run_inv h : forall w, Inv w -> Inv (run w h).
Proof.
  induction h as [|l h IH]; intros w HI; cbn [Control.run fold_left]; [exact HI|].
  apply IH. apply step_inv. exact HI.
Qed.

(* ------------------------------------------------------------------ safety theorems *)

(* Over ALL histories (any interleaving of driver, worker and environment steps):
   every stored output is the failure-free value; a task is OK only if located;
   an OK task whose location is alive (a fortiori alive and not known lost) has
   its failure-free value stored there. *)
Theorem ctl_inv_all_histories : forall n h,
  let w := run (init_world n) h in
  (forall m t r, In (t, r) (mstore (getm w m)) -> r = value t) /\
  (forall t, wst w t = TOk -> exists m, wloc w t = Some m) /\
  (forall t m, wst w t = TOk -> wloc w t = Some m ->
     malive (getm w m) = true -> mlost (getm w m) = false ->
     lookup t (mstore (getm w m)) = Some (value t)).
Proof.
  intros n h w. assert (HI : Inv w) by (apply run_inv, inv_init).
  split; [apply (i_store w HI)|]. split; [apply (i_okloc w HI)|].
  intros t m _ Hl Ha _. apply (i_has w HI); auto.
Qed.

Lemma outcome_success_exact w out :
  Inv w -> outcome_of w = Some (Success out) -> out = ff_rows compute g roots.
Proof.
  intros HI H. unfold outcome_of in H. pose proof (i_mode w HI) as Hmd.
  destruct (wmode w); try discriminate.
  - destruct (werr w); discriminate.
  - destruct (werr w); discriminate.
  - inversion H; subst. reflexivity.
Qed.

(* NEVER WRONG ROWS, whole run: whatever the history, a run that reports success
   returns exactly the failure-free rows of the roots *)
Theorem ctl_success_is_exact : forall n h out,
  outcome_of (run (init_world n) h) = Some (Success out) -> out = ff_rows compute g roots.
Proof. intros n h out. apply outcome_success_exact. apply run_inv, inv_init. Qed.

(* the same for the fair scheduler, any fuel, any injections *)
Theorem ctl_drive_success_is_exact : forall fuel spares w inj out,
  Inv w ->
  drive compute okb max_lost max_retry g roots fuel spares w inj = Success out ->
  out = ff_rows compute g roots.
Proof.
  induction fuel as [|f IH]; intros spares w inj out HI H; cbn [drive] in H; [discriminate|].
  destruct (outcome_of w) as [o|] eqn:Eo.
  - subst o. eapply outcome_success_exact; eauto.
  - destruct inj as [|[[|k] e] r].
    + destruct (next g roots spares w) as [l|]; [|discriminate].
      eapply IH; [|exact H]. apply step_inv. exact HI.
    + eapply IH; [|exact H]. apply step_inv. exact HI.
    + destruct (next g roots spares w) as [l|]; (eapply IH; [|exact H]); apply step_inv; exact HI.
Qed.

(* ------------------------------------------------------------------ the C02-a class:
   who is responsible for marking a completed task LOST *)

Record K (w : world) : Prop := mkK {
  k_tasks : forall m t, In t (mtasks (getm w m)) ->
            wst w t = TOk /\ wloc w t = Some m /\ wph w t = PNone;
  k_settled : forall t m, wst w t = TOk -> wph w t = PNone -> wloc w t = Some m ->
              mlost (getm w m) = false /\ In t (mtasks (getm w m));
  k_mid : forall t m, wph w t = PMid m -> wst w t = TOk;
  k_rep : forall t m, wph w t = PReplied m -> wst w t = TRunning
}.

Lemma K_init n : K (init_world n).
Proof.
  constructor; cbn; try discriminate.
  intros m t H. exfalso. unfold getm in H. cbn [wms init_world] in H.
  destruct (Nat.lt_ge_cases m n) as [Hl|Hg].
  - rewrite (nth_indep _ _ (mkM true false [] [])) in H by (rewrite repeat_length; exact Hl).
    rewrite nth_repeat in H. destruct H.
  - rewrite nth_overflow in H by (rewrite repeat_length; exact Hg). destruct H.
Qed.

(* steps that only move tasks between non-OK, non-RUNNING states *)
Lemma K_ext w w' :
  wms w' = wms w -> wph w' = wph w -> wloc w' = wloc w ->
  (forall t, wst w' t = wst w t \/ (wst w t <> TOk /\ wst w t <> TRunning /\ wst w' t <> TOk)) ->
  K w -> K w'.
Proof.
  intros Hms Hph Hloc Hst [K1 K2 K3 K4].
  assert (Hg : forall m, getm w' m = getm w m) by (intro m; unfold getm; rewrite Hms; reflexivity).
  constructor.
  - intros m t. rewrite Hg, Hph, Hloc. intro H. destruct (K1 m t H) as (A & B & C).
    destruct (Hst t) as [E|(E & _)]; [rewrite E; auto|contradiction].
  - intros t m. rewrite Hg, Hph, Hloc. intro H.
    destruct (Hst t) as [E|(_ & _ & E)]; [rewrite E in H; auto|contradiction].
  - intros t m. rewrite Hph. intro H. pose proof (K3 t m H) as Ho.
    destruct (Hst t) as [E|(E & _)]; [rewrite E; auto|contradiction].
  - intros t m. rewrite Hph. intro H. pose proof (K4 t m H) as Ho.
    destruct (Hst t) as [E|(_ & E & _)]; [rewrite E; auto|contradiction].
Qed.

Lemma enq_sound w : forall f x t, In t (enq g f w x) ->
  (wst w t = TInit \/ wst w t = TLost) /\ mem t (wpend w) = false.
Proof.
  induction f as [|f IH]; intros x t H; cbn [enq] in H; [destruct H|].
  destruct (mem x (wpend w)) eqn:Ep; [destruct H|].
  destruct (wst w x) eqn:Es; try (destruct H; fail).
  - destruct (forallb _ (deps_of x)).
    + destruct H as [<-|[]]. auto.
    + apply in_flat_map in H as [d [_ Hd]]. eapply IH; eauto.
  - destruct (forallb _ (deps_of x)).
    + destruct H as [<-|[]]. auto.
    + apply in_flat_map in H as [d [_ Hd]]. eapply IH; eauto.
Qed.

Lemma runnable_sound w t : mem t (runnable g roots w) = true ->
  (wst w t = TInit \/ wst w t = TLost) /\ mem t (wpend w) = false.
Proof.
  intro H. apply mem_In in H. unfold runnable in H. apply in_flat_map in H as [x [_ Hx]].
  eapply enq_sound; eauto.
Qed.

Lemma count_lost_st w t x :
  wst (count_lost max_lost w t) x = wst w x \/
  (x = t /\ wst (count_lost max_lost w t) x = TErr).
Proof using.
  destruct (count_lost_frame w t) as (_ & _ & _ & _ & _ & _ & Ho & Hs).
  destruct (Nat.eq_dec x t) as [->|Hn]; [|left; apply Ho; exact Hn].
  destruct Hs; auto.
Qed.

Lemma K_dispatch w t : K w -> K (step w (LDispatch t)).
Proof.
  intro HK. cbn [Control.step].
  destruct (active w && mem t (runnable g roots w)) eqn:Eg; [|exact HK].
  apply andb_true_iff in Eg as [_ Hr]. apply runnable_sound in Hr as [Hs _].
  set (w1 := if st_eqb (wst w t) TLost then count_lost max_lost w t else w).
  assert (H1 : wms w1 = wms w /\ wph w1 = wph w /\ wloc w1 = wloc w /\
               forall x, wst w1 x = wst w x \/ (x = t /\ wst w1 x = TErr)).
  { unfold w1. destruct (st_eqb (wst w t) TLost); [|auto].
    destruct (count_lost_frame w t) as (A & B & C & _). repeat split; auto.
    intro x. apply count_lost_st. }
  destruct H1 as (A & B & C & D).
  assert (Hnot : wst w t <> TOk /\ wst w t <> TRunning) by (destruct Hs as [E|E]; rewrite E; split; discriminate).
  destruct (st_eqb (wst w1 t) TErr).
  - apply (K_ext w); auto. cbn. intro x. destruct (D x) as [E|[-> E]]; [auto|].
    right. rewrite E. repeat split; try tauto; discriminate.
  - apply (K_ext w); auto. cbn. intro x. unfold upd. destruct (Nat.eqb_spec x t) as [->|Hn].
    + right. repeat split; try tauto; discriminate.
    + destruct (D x) as [E|[E _]]; [auto|contradiction].
Qed.

Lemma K_return w t : K w -> K (step w (LReturn t)).
Proof.
  intro HK. cbn [Control.step].
  destruct (active w && mem t (wpend w) && ge_ok (wst w t)); [|exact HK].
  set (w1 := match wst w t with
             | TOk => set_unc (set_cl w (upd (wcl w) t 0)) (upd (wunc w) t false)
             | TLost => count_lost max_lost w t
             | _ => w end).
  assert (H1 : wms w1 = wms w /\ wph w1 = wph w /\ wloc w1 = wloc w /\
               forall x, wst w1 x = wst w x \/ (wst w x = TLost /\ wst w1 x = TErr)).
  { unfold w1. destruct (wst w t) eqn:Es; try (cbn; auto; fail).
    destruct (count_lost_frame w t) as (A & B & C & _). repeat split; auto.
    intro x. destruct (count_lost_st w t x) as [E|[-> E]]; auto. }
  destruct H1 as (A & B & C & D).
  assert (HK1 : K w1).
  { apply (K_ext w); auto. intro x. destruct (D x) as [E|[E1 E2]]; [auto|].
    right. rewrite E1, E2. repeat split; discriminate. }
  match goal with |- K (if ?c then _ else _) => destruct c end; apply (K_ext w1); auto.
Qed.

Lemma K_kill w m : K w -> K (step w (LKill m)).
Proof.
  intros [K1 K2 K3 K4]. cbn [Control.step]. destruct (Nat.ltb m (length (wms w))) eqn:Hm; [|constructor; auto].
  set (x := mkM false (mlost (getm w m)) (mtasks (getm w m)) []).
  destruct (upd_mach_frame w m x) as (A & B & C & _).
  assert (Hg : forall m', mtasks (getm (upd_mach w m x) m') = mtasks (getm w m') /\
                          mlost (getm (upd_mach w m x) m') = mlost (getm w m')).
  { intro m'. rewrite getm_upd, Hm, andb_true_r. destruct (Nat.eqb_spec m' m) as [->|]; auto. }
  constructor.
  - intros m' t. destruct (Hg m') as [E _]. rewrite E, A, B, C. apply K1.
  - intros t m'. destruct (Hg m') as [E1 E2]. rewrite E1, E2, A, B, C. apply K2.
  - intros t m'. rewrite A, B. apply K3.
  - intros t m'. rewrite A, B. apply K4.
Qed.

Lemma K_start w : Inv w -> K w -> K (step w LStart).
Proof.
  intros HI [K1 K2 K3 K4]. cbn [Control.step].
  set (x := mkM true false [] []).
  assert (Hg : forall m', m' < length (wms w) -> getm (set_ms w (wms w ++ [x])) m' = getm w m').
  { intros m' Hm. unfold getm at 1. cbn [wms set_ms]. apply getm_app. exact Hm. }
  constructor; cbn [wst wph wloc set_ms]; auto.
  - intros m' t. destruct (Nat.lt_ge_cases m' (length (wms w))) as [Hl|Hge].
    + rewrite Hg by exact Hl. apply K1.
    + unfold getm. cbn [wms set_ms]. destruct (Nat.eq_dec m' (length (wms w))) as [->|Hn].
      * rewrite nth_middle. intros [].
      * rewrite nth_overflow; [intros []|]. rewrite app_length. cbn. lia.
  - intros t m' Ho Hp Hl. rewrite Hg by (eapply i_locb; eauto). apply K2; auto.
Qed.

Lemma K_run w t m : K w -> K (step w (LRun t m)).
Proof.
  intro HK. cbn [Control.step].
  destruct (wst w t) eqn:Est; try exact HK. destruct (wph w t) eqn:Eph; try exact HK.
  destruct (Nat.ltb m (length (wms w)) && negb (mlost (getm w m))) eqn:Eg; [|exact HK].
  apply andb_true_iff in Eg as [Hm _].
  destruct (if malive (getm w m) then gather w m (deps_of t) else None) as [ins|].
  2:{ apply (K_ext w); auto. cbn. intro x. unfold upd. destruct (Nat.eqb_spec x t) as [->|]; [|auto].
      right. rewrite Est. repeat split; discriminate. }
  destruct HK as [K1 K2 K3 K4].
  match goal with |- K ?W => set (w' := W) end.
  set (x := mkM (malive (getm w m)) (mlost (getm w m)) (mtasks (getm w m))
                ((t, compute t ins) :: mstore (getm w m))).
  assert (Fst : wst w' = upd (wst w) t TRunning) by reflexivity.
  assert (Fph : wph w' = upd (wph w) t (PReplied m)) by reflexivity.
  assert (Floc : wloc w' = wloc w) by reflexivity.
  assert (Hg : forall m', mtasks (getm w' m') = mtasks (getm w m') /\
                          mlost (getm w' m') = mlost (getm w m')).
  { intro m'. change (getm w' m') with (getm (upd_mach w m x) m').
    rewrite getm_upd, Hm, andb_true_r. destruct (Nat.eqb_spec m' m) as [->|]; auto. }
  clearbody w'.
  constructor.
  - intros m' t'. destruct (Hg m') as [E _]. rewrite E, Fst, Fph, Floc. intro H.
    destruct (K1 m' t' H) as (A & B & C). unfold upd.
    destruct (Nat.eqb_spec t' t) as [->|]; [congruence|auto].
  - intros t' m'. destruct (Hg m') as [E1 E2]. rewrite E1, E2, Fst, Fph, Floc. unfold upd.
    destruct (Nat.eqb_spec t' t) as [->|]; [discriminate|apply K2].
  - intros t' m'. rewrite Fst, Fph. unfold upd.
    destruct (Nat.eqb_spec t' t) as [->|]; [discriminate|apply K3].
  - intros t' m'. rewrite Fst, Fph. unfold upd.
    destruct (Nat.eqb_spec t' t) as [->|]; [reflexivity|apply K4].
Qed.

Lemma K_reply1 w t : okb = true -> K w -> K (step w (LReply1 t)).
Proof.
  intros Hokb [K1 K2 K3 K4]. cbn [Control.step]. rewrite Hokb.
  destruct (wph w t) as [|m|m] eqn:Eph; try (constructor; auto; fail).
  pose proof (K4 t m Eph) as Hrun.
  constructor; cbn [wms wst wph wloc set_ph set_st set_loc];
    change (getm (set_ph ?a ?b)) with (getm w).
  - intros m' t' H. destruct (K1 m' t' H) as (A & B & C). unfold upd.
    destruct (Nat.eqb_spec t' t) as [->|]; [congruence|auto].
  - intros t' m'. unfold upd. destruct (Nat.eqb_spec t' t) as [->|]; [discriminate|apply K2].
  - intros t' m'. unfold upd. destruct (Nat.eqb_spec t' t) as [->|]; [reflexivity|apply K3].
  - intros t' m'. unfold upd. destruct (Nat.eqb_spec t' t) as [->|]; [discriminate|apply K4].
Qed.

Lemma K_reply2 w t : okb = true -> Inv w -> K w -> K (step w (LReply2 t)).
Proof.
  intros Hokb HI [K1 K2 K3 K4]. cbn [Control.step]. rewrite Hokb.
  destruct (wph w t) as [|m|m] eqn:Eph; try (constructor; auto; fail).
  pose proof (K3 t m Eph) as Hok. pose proof (i_midloc w HI t m Eph) as Hloc.
  unfold assign. destruct (mlost (getm w m)) eqn:El.
  - constructor; cbn [wms wst wph wloc set_ph set_st];
      change (getm (set_ph ?a ?b)) with (getm w).
    + intros m' t' H. destruct (K1 m' t' H) as (A & B & C). unfold upd.
      destruct (Nat.eqb_spec t' t) as [->|]; [congruence|auto].
    + intros t' m'. unfold upd. destruct (Nat.eqb_spec t' t) as [->|]; [discriminate|apply K2].
    + intros t' m'. unfold upd. destruct (Nat.eqb_spec t' t) as [->|]; [discriminate|apply K3].
    + intros t' m'. unfold upd. destruct (Nat.eqb_spec t' t) as [->|]; [discriminate|apply K4].
  - assert (Hm : Nat.ltb m (length (wms w)) = true).
    { apply Nat.ltb_lt. destruct (Nat.lt_ge_cases m (length (wms w))) as [H|H]; [exact H|].
      rewrite (getm_out w m H) in El. discriminate. }
    set (x := mkM (malive (getm w m)) false (t :: rm t (mtasks (getm w m))) (mstore (getm w m))).
    match goal with |- K ?W => set (w' := W) end.
    assert (Fst : wst w' = wst w) by reflexivity.
    assert (Fph : wph w' = upd (wph w) t PNone) by reflexivity.
    assert (Floc : wloc w' = wloc w) by reflexivity.
    assert (Hg : forall m', getm w' m' = if Nat.eqb m' m then x else getm w m').
    { intro m'. change (getm w' m') with (getm (upd_mach w m x) m').
      rewrite getm_upd, Hm, andb_true_r. reflexivity. }
    clearbody w'.
    constructor.
    + intros m' t'. rewrite Hg, Fst, Fph, Floc. unfold upd.
      destruct (Nat.eqb_spec m' m) as [->|Hnm].
      * cbn [mtasks x]. intros [<-|H].
        -- rewrite Nat.eqb_refl. auto.
        -- apply In_rm in H as [H Hn]. destruct (K1 m t' H) as (A & B & C).
           apply Nat.eqb_neq in Hn. rewrite Hn. auto.
      * intro H. destruct (K1 m' t' H) as (A & B & C).
        destruct (Nat.eqb_spec t' t) as [->|]; [congruence|auto].
    + intros t' m'. rewrite Hg, Fst, Fph, Floc. unfold upd.
      destruct (Nat.eqb_spec t' t) as [->|Hnt].
      * intros _ _ E. rewrite Hloc in E. inversion E; subst. rewrite Nat.eqb_refl.
        cbn [mlost mtasks x]. split; [reflexivity|left; reflexivity].
      * intros A B C. destruct (K2 t' m' A B C) as [D1 D2].
        destruct (Nat.eqb_spec m' m) as [->|]; [|auto].
        cbn [mlost mtasks x]. split; [reflexivity|]. right. apply In_rm. auto.
    + intros t' m'. rewrite Fst, Fph. unfold upd.
      destruct (Nat.eqb_spec t' t) as [->|]; [discriminate|apply K3].
    + intros t' m'. rewrite Fst, Fph. unfold upd.
      destruct (Nat.eqb_spec t' t) as [->|]; [discriminate|apply K4].
Qed.

Lemma K_notice w m : K w -> K (step w (LNotice m)).
Proof.
  intros [K1 K2 K3 K4]. cbn [Control.step].
  destruct (Nat.ltb m (length (wms w))) eqn:Hm; [|constructor; auto].
  set (x := mkM (malive (getm w m)) true [] (mstore (getm w m))).
  match goal with |- K ?W => set (w' := W) end.
  assert (Fst : forall t, wst w' t = if mem t (mtasks (getm w m)) then TLost else wst w t).
  { intro t. unfold w'. cbn [wst set_st]. rewrite mark_lost_spec. reflexivity. }
  assert (Fph : wph w' = wph w) by reflexivity.
  assert (Floc : wloc w' = wloc w) by reflexivity.
  assert (Hg : forall m', getm w' m' = if Nat.eqb m' m then x else getm w m').
  { intro m'. change (getm w' m') with (getm (upd_mach w m x) m').
    rewrite getm_upd, Hm, andb_true_r. reflexivity. }
  clearbody w'.
  constructor.
  - intros m' t. rewrite Hg, Fst, Fph, Floc. destruct (Nat.eqb_spec m' m) as [->|Hn]; [intros []|].
    intro H. destruct (K1 m' t H) as (A & B & C).
    destruct (mem t (mtasks (getm w m))) eqn:E; [|auto].
    apply mem_In in E. destruct (K1 m t E) as (_ & B' & _). congruence.
  - intros t m'. rewrite Hg, Fst, Fph, Floc.
    destruct (mem t (mtasks (getm w m))) eqn:E; [discriminate|].
    intros A B C. destruct (K2 t m' A B C) as [D1 D2].
    destruct (Nat.eqb_spec m' m) as [->|]; [|auto].
    apply mem_In in D2. congruence.
  - intros t m'. rewrite Fst, Fph. intro H.
    destruct (mem t (mtasks (getm w m))) eqn:E; [|eapply K3; eauto].
    apply mem_In in E. destruct (K1 m t E) as (_ & _ & C). congruence.
  - intros t m'. rewrite Fst, Fph. intro H.
    destruct (mem t (mtasks (getm w m))) eqn:E; [|eapply K4; eauto].
    apply mem_In in E. destruct (K1 m t E) as (_ & _ & C). congruence.
Qed.

Lemma K_mode w x : K w -> K (set_mode w x).
Proof. intros [K1 K2 K3 K4]. constructor; auto. Qed.

Lemma step_K w l : okb = true -> Inv w -> K w -> K (step w l).
Proof.
  intros Hokb HI HK. destruct l.
  - apply K_dispatch; auto. - apply K_run; auto. - apply K_reply1; auto.
  - apply K_reply2; auto. - apply K_return; auto.
  - cbn [Control.step]. destruct (wmode w); auto.
    match goal with |- K (if ?c then _ else _) => destruct c end; auto. apply K_mode; auto.
  - cbn [Control.step]. destruct (wmode w); auto. destruct (nth_error roots i); auto.
    match goal with |- K (if ?c then _ else _) => destruct c end; auto.
    destruct (read_loc w n); apply K_mode; auto.
  - apply K_kill; auto. - apply K_notice; auto. - apply K_start; auto.
Qed.

Lemma run_K h : okb = true -> forall w, Inv w -> K w -> Inv (run w h) /\ K (run w h).
Proof.
  intro Hokb. induction h as [|l h IH]; intros w HI HK; cbn [Control.run fold_left]; [auto|].
  apply IH; [apply step_inv|apply step_K]; auto.
Qed.

(* With the code's order (Set(TaskOk) before m.Assign(task)): in every reachable
   state, a task that is OK and located on a machine the driver knows lost is
   still inside Run, between the two statements, and the pending Assign marks it
   LOST.  So once Run has returned no completed task is stuck OK on a lost machine. *)
Theorem ctl_no_stuck_ok : okb = true -> forall n h t m,
  let w := run (init_world n) h in
  wst w t = TOk -> wloc w t = Some m -> mlost (getm w m) = true ->
  wph w t = PMid m /\ wst (step w (LReply2 t)) t = TLost.
Proof.
  intros Hokb n h t m w Hok Hloc Hlost.
  destruct (run_K h Hokb (init_world n) (inv_init n) (K_init n)) as [HI HK].
  fold w in HI, HK.
  destruct (wph w t) as [|m'|m'] eqn:Eph.
  - destruct (k_settled w HK t m Hok Eph Hloc) as [E _]. congruence.
  - rewrite (k_rep w HK t m' Eph) in Hok. discriminate.
  - pose proof (i_midloc w HI t m' Eph) as E. rewrite Hloc in E. inversion E; subst m'.
    split; [reflexivity|]. cbn [Control.step]. rewrite Eph, Hokb. unfold assign. rewrite Hlost.
    cbn. apply upd_same.
Qed.

Corollary ctl_no_stuck_ok_quiet : okb = true -> forall n h t m,
  let w := run (init_world n) h in
  wph w t = PNone -> wloc w t = Some m -> mlost (getm w m) = true -> wst w t <> TOk.
Proof.
  intros Hokb n h t m w Hph Hloc Hlost Hok.
  destruct (ctl_no_stuck_ok Hokb n h t m Hok Hloc Hlost) as [E _]. fold w in E. congruence.
Qed.

(* max_lost consecutive losses of one task end the run with an error: the
   waiter's bookkeeping puts the task in TaskErr and Return records it. *)
Theorem ctl_too_many_losses_is_error : forall w t,
  active w = true -> mem t (wpend w) = true -> wst w t = TLost -> wunc w t = true ->
  max_lost <= S (wcl w t) ->
  outcome_of (step w (LReturn t)) = Some Failed.
Proof.
  intros w t Ha Hp Hs Hu Hc. cbn [Control.step]. rewrite Ha, Hp, Hs. cbn [ge_ok andb].
  unfold count_lost. rewrite Hu.
  assert (E : Nat.ltb (S (wcl w t)) max_lost = false) by (apply Nat.ltb_ge; exact Hc).
  rewrite E. cbn [wst set_st set_pend set_cl set_unc]. rewrite upd_same. cbn [st_eqb].
  unfold outcome_of. cbn [wmode werr set_err set_pend set_st set_cl set_unc].
  unfold active in Ha. apply andb_true_iff in Ha as [_ Ha].
  destruct (wmode w); try discriminate; reflexivity.
Qed.
End Proofs.

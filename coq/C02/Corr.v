(* C02 — judging machine-loss scenarios. *)
From Coq Require Import List ZArith Bool.
Import ListNotations.
Require Export BS.C01.Corr.

Record case := mkCase {
  cprog : list node;
  ckilled : nat;     (* machines actually killed *)
  cunplanned : nat;  (* machines the driver gave up on although the harness did not kill them
                        (keepalive timed out on a starved host): losses outside the scenario's plan *)
  cfirst : obs;      (* the run (and scan) during which machines were killed *)
  cagain : obs       (* the same program run again in the same session after the losses stopped *)
}.

Definition is_error (e : errc) : bool := match e with EUser | EOther => true | _ => false end.

Fixpoint shards_safe (ordered : bool) (ex ob : list (list (list (list Z)))) (errs : list errc) : bool :=
  match ex, ob, errs with
  | [], [], _ => true
  | e :: ex', o :: ob', er :: errs' =>
      (* a shard read that reported success delivered exactly the shard; one that
         reported an error is not judged further *)
      (if errc_eqb er EOk then shard_ok ordered e o else is_error er) && shards_safe ordered ex' ob' errs'
  | _, _, _ => false
  end.

(* correct rows or an error; never success with other rows, never a hang *)
Definition obs_safe (r : result) (o : obs) : bool :=
  let v := rvalue r in
  if errc_eqb (oerr o) EOk then
    shards_safe (vordered v) (vshards v) (oshards o) (osherr o)
    && (if errc_eqb (oscanerr o) EOk then scanned_ok (vordered v) (vshards v) (oscanned o)
        else is_error (oscanerr o))
  else is_error (oerr o).

(* The scenarios kill at most two machines and replacements can always be
   started, so losses stop: the run itself must then complete successfully by
   recomputing what was lost (reads of the finished result during the scan may
   still report an error for a machine that died under them). *)
Definition ok (c : case) : bool :=
  let r := ref (cprog c) in
  if Nat.eqb (cunplanned c) 0
  then errc_eqb (oerr (cfirst c)) EOk && obs_safe r (cfirst c) && ok_rows_with r (cagain c)
  else
    (* losses did not stop where the scenario planned them to: only the safety clause applies
       (correct rows or an error, never other rows, never a hang) *)
    obs_safe r (cfirst c) && obs_safe r (cagain c).

Definition violations (cs : list case) : list nat := bad_indices ok cs.
Definition mismatches (cs : list case) : list nat := violations cs.

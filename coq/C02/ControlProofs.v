(* C02 — the control-plane theorems, instantiated with the switches read off the
   Go source (Gen/C02_params.v), the refutation of the swapped statement order,
   and non-vacuity examples.
     generic lemmas: C02/ControlSafety.v (all histories), C02/ControlLive.v (fair scheduler) *)
From Coq Require Import String.
From Coq Require Import List ZArith Bool Arith Lia.
Import ListNotations.
Require Import BS.C02.Control BS.C02.ControlSafety BS.C02.ControlLive.
Require Import BS.Gen.C02_params.

(* ------------------------------------------------------------------ pins to the source *)

(* bigmachine.go, `case err == nil`: task.Set(TaskOk) precedes m.Assign(task) *)
Lemma gen_ok_before_assign : ok_before_assign = true.
Proof. reflexivity. Qed.
(* ... and b.setLocation(task, m) precedes task.Set(TaskOk) (LReply1 sets the location first) *)
Lemma gen_setlocation_before_ok : setlocation_before_ok = true.
Proof. reflexivity. Qed.
(* the `default:` clause of the reply switch does task.Set(TaskLost) (LRun failure) *)
Lemma gen_run_lost_is_default : run_lost_is_default = true.
Proof. reflexivity. Qed.
(* sliceMachine.Assign: `if s.lost { task.Set(TaskLost) } else { s.tasks[task] = ... }` ([assign]) *)
Lemma gen_assign_marks_lost : assign_marks_lost_when_machine_lost = true.
Proof. reflexivity. Qed.
(* sliceMachine.Go after its loop: lost := true, every assigned task LOST (LNotice) *)
Lemma gen_notice_marks_assigned_lost : notice_marks_assigned_lost = true.
Proof. reflexivity. Qed.
Lemma gen_max_consecutive_lost : max_consecutive_lost = 5.
Proof. reflexivity. Qed.
Lemma gen_max_lost_pos : 1 <= max_consecutive_lost.
Proof. rewrite gen_max_consecutive_lost. lia. Qed.
Lemma gen_scan_read_retries : scan_read_retries = 5.
Proof. reflexivity. Qed.
(* Task.countLost, statement by statement ([count_lost]) *)
Lemma gen_count_lost_kernel : count_lost_kernel = [
  "if !enableMaxConsecutiveLost || !t.lossUncounted"; "return false";
  "t.lossUncounted = false"; "t.consecutiveLost++";
  "if t.consecutiveLost < maxConsecutiveLost"; "return false";
  "t.state = TaskErr";
  "t.err = errors.E( errors.TooManyTries, fmt.Sprintf(""lost on %d consecutive attempts"", t.consecutiveLost), )";
  "return true"]%string.
Proof. reflexivity. Qed.

(* the model with the switches of the code *)
Definition code_step compute := Control.step compute ok_before_assign max_consecutive_lost scan_read_retries.
Definition code_run compute := Control.run compute ok_before_assign max_consecutive_lost scan_read_retries.
Definition code_drive compute := drive compute ok_before_assign max_consecutive_lost scan_read_retries.
Definition code_fuel := fuel_bound max_consecutive_lost scan_read_retries.

Section Code.
Variable compute : nat -> list (list (list Z)) -> list (list Z).
Variable g : list (list nat).
Variable roots : list nat.
Hypothesis Hwf : wf_graph g roots = true.

(* the C02-a class, for the code as it is *)
Theorem ctl_no_stuck_ok_code : forall n h t m,
  let w := code_run compute g roots (init_world n) h in
  wst w t = TOk -> wloc w t = Some m -> mlost (getm w m) = true ->
  wph w t = PMid m /\ wst (code_step compute g roots w (LReply2 t)) t = TLost.
Proof.
  exact (ctl_no_stuck_ok compute ok_before_assign max_consecutive_lost scan_read_retries g roots
           Hwf gen_ok_before_assign).
Qed.

(* RECOVERY: finitely many machine losses at arbitrary points of the run (list
   [cs]: own steps before each loss, and the machine), each noticed by the driver
   at once, fewer of them than maxConsecutiveLost, and one replacement machine
   available per loss: with the explicit fuel bound the run ends in Success with
   exactly the failure-free rows — not Failed, not Stalled, not OutOfFuel. *)
Theorem ctl_recovery : forall k spares cs fuel,
  1 <= k -> length cs < max_consecutive_lost -> length cs <= spares ->
  code_fuel g roots (2 * length cs) spares <= fuel ->
  code_drive compute g roots fuel spares (init_world k) (crashes cs)
    = Success (ff_rows compute g roots).
Proof.
  unfold code_drive. rewrite gen_ok_before_assign.
  exact (recovery compute max_consecutive_lost scan_read_retries g roots Hwf gen_max_lost_pos).
Qed.

Corollary ctl_recovery_one_kill : forall k spares delay m fuel,
  1 <= k -> 1 <= spares -> code_fuel g roots 2 spares <= fuel ->
  code_drive compute g roots fuel spares (init_world k) [(delay, LKill m); (0, LNotice m)]
    = Success (ff_rows compute g roots).
Proof.
  intros k spares delay m fuel Hk Hs Hf.
  apply (ctl_recovery k spares [(delay, m)] fuel); auto.
  rewrite gen_max_consecutive_lost. cbn. lia.
Qed.

(* NEVER HANGS (model level): for ANY finite list of injected kills, notices and
   machine starts, in any positions, the fair scheduler reaches an outcome within
   the explicit bound. *)
Theorem ctl_never_hangs_model : forall k spares inj fuel,
  env_inj inj -> code_fuel g roots (length inj) spares <= fuel ->
  code_drive compute g roots fuel spares (init_world k) inj <> OutOfFuel.
Proof.
  unfold code_drive. rewrite gen_ok_before_assign.
  exact (never_hangs compute max_consecutive_lost scan_read_retries g roots Hwf gen_max_lost_pos).
Qed.

(* and whatever it reaches, success means exactly the failure-free rows *)
Theorem ctl_drive_success_is_exact_code : forall k spares inj fuel out,
  code_drive compute g roots fuel spares (init_world k) inj = Success out ->
  out = ff_rows compute g roots.
Proof.
  intros k spares inj fuel out.
  apply (ctl_drive_success_is_exact compute ok_before_assign max_consecutive_lost scan_read_retries
           g roots Hwf fuel spares (init_world k) inj out). apply inv_init.
Qed.
End Code.

(* ------------------------------------------------------------------ the swapped order is refuted *)

(* a concrete task function: the task's id followed by the rows of its inputs *)
Definition ex_compute (t : nat) (ins : list (list (list Z))) : list (list Z) :=
  [Z.of_nat t] :: concat ins.
(* a chain: task 1 reads task 0; one machine, one replacement available *)
Definition ex_chain : list (list nat) := [[]; [0]].
(* the machine dies, and the driver notices, between the two statements of the reply *)
Definition ex_history : list label :=
  [LDispatch 0; LRun 0 0; LReply1 0; LKill 0; LNotice 0; LReply2 0].

(* With m.Assign(task) BEFORE task.Set(TaskOk): there is a history reaching a state
   where task 0 is OK, located on a machine the driver knows lost, with Run
   finished; the driver's own steps never mark it LOST again (it is still OK when
   the run ends), its consumer is lost max_consecutive_lost times and the run fails
   although a replacement machine was started.  With the code's order the same
   history leaves task 0 LOST and the run recovers. *)
Theorem ctl_assign_before_ok_refuted :
  exists (g : list (list nat)) (roots : list nat) (h : list label),
    wf_graph g roots = true /\
    let w := Control.run ex_compute false max_consecutive_lost scan_read_retries g roots (init_world 1) h in
    wst w 0 = TOk /\ wloc w 0 = Some 0 /\ mlost (getm w 0) = true /\ wph w 0 = PNone /\
    drive ex_compute false max_consecutive_lost scan_read_retries g roots 200 1 w [] = Failed /\
    (let '(w', tr) := drive_world ex_compute false max_consecutive_lost scan_read_retries g roots 200 1 w [] in
     wst w' 0 = TOk /\ wcl w' 1 = max_consecutive_lost /\ existsb is_start tr = true) /\
    let wc := code_run ex_compute g roots (init_world 1) h in
    wst wc 0 = TLost /\
    code_drive ex_compute g roots 200 1 wc [] = Success (ff_rows ex_compute g roots).
Proof.
  exists ex_chain, [1], ex_history. vm_compute. repeat split; reflexivity.
Qed.

(* ------------------------------------------------------------------ non-vacuity *)

(* a diamond: 1 and 2 read 0, 3 reads 1 and 2; two machines and one replacement *)
Definition ex_diamond : list (list nat) := [[]; [0]; [0]; [1; 2]].
Definition runs_of (t : nat) (tr : list label) : nat :=
  List.length (filter (fun l => match l with LRun t' _ => Nat.eqb t t' | _ => false end) tr).

Example ex_diamond_wf : wf_graph ex_diamond [3] = true.
Proof. reflexivity. Qed.

Example ex_failure_free :
  code_drive ex_compute ex_diamond [3] 200 1 (init_world 2) []
  = Success [[[3]; [1]; [0]; [2]; [0]]]%Z.
Proof. vm_compute. reflexivity. Qed.

(* machine 0 dies while task 2 is running on it, after tasks 0 and 1 completed there:
   the run recovers on machine 1, with the same rows, and tasks 0 and 1 are run twice *)
Example ex_kill_in_the_middle :
  let inj := [(12, LKill 0); (0, LNotice 0)] in
  code_drive ex_compute ex_diamond [3] 400 1 (init_world 2) inj
    = Success (ff_rows ex_compute ex_diamond [3]) /\
  ff_rows ex_compute ex_diamond [3] = [[[3]; [1]; [0]; [2]; [0]]]%Z /\
  let tr := snd (drive_world ex_compute ok_before_assign max_consecutive_lost scan_read_retries
                   ex_diamond [3] 400 1 (init_world 2) inj) in
  runs_of 0 tr = 2 /\ runs_of 1 tr = 2 /\ runs_of 3 tr = 1.
Proof. vm_compute. repeat split; reflexivity. Qed.

(* both machines die in turn: the manager starts the replacement, the run still succeeds *)
Example ex_two_kills_one_spare :
  let inj := [(12, LKill 0); (0, LNotice 0); (9, LKill 1); (0, LNotice 1)] in
  code_drive ex_compute ex_diamond [3] 600 1 (init_world 2) inj
    = Success (ff_rows ex_compute ex_diamond [3]) /\
  existsb is_start (snd (drive_world ex_compute ok_before_assign max_consecutive_lost scan_read_retries
                           ex_diamond [3] 600 1 (init_world 2) inj)) = true.
Proof. vm_compute. split; reflexivity. Qed.

(* a loss the driver never notices: consumers of the dead machine's outputs are
   lost max_consecutive_lost times in a row and the run ends with an error (not a
   hang, not wrong rows) *)
Example ex_unnoticed_loss_is_error :
  code_drive ex_compute ex_diamond [3] 400 1 (init_world 2) [(12, LKill 0)] = Failed.
Proof. vm_compute. reflexivity. Qed.

(* every machine lost and no replacement can be started: Run waits for a machine *)
Example ex_no_machine_stalls :
  code_drive ex_compute ex_diamond [3] 400 0 (init_world 1) [(3, LKill 0); (0, LNotice 0)] = Stalled.
Proof. vm_compute. reflexivity. Qed.

(* the fuel bound of the theorems, on the diamond with one loss and one spare *)
Example ex_fuel_bound : code_fuel ex_diamond [3] 2 1 = 390.
Proof. vm_compute. reflexivity. Qed.

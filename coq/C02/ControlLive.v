(* C02 — liveness of the control-plane model with the code's statement order
   (ok_before_assign = true): a termination measure for the driver's own steps,
   hence an explicit fuel bound for [drive]; recovery after finitely many
   machine losses. *)
From Coq Require Import List ZArith Bool Arith Lia.
Import ListNotations.
Require Import BS.C02.Control BS.C02.ControlSafety.

Fixpoint sumf (f : nat -> nat) (n : nat) : nat :=
  match n with O => 0 | S k => sumf f k + f k end.

Lemma sumf_ext f f' n : (forall x, x < n -> f' x = f x) -> sumf f' n = sumf f n.
Proof.
  induction n as [|k IH]; intro H; cbn [sumf]; [reflexivity|].
  rewrite IH by (intros x Hx; apply H; lia). rewrite (H k) by lia. reflexivity.
Qed.

Lemma sumf_change f f' n t :
  t < n -> (forall x, x <> t -> f' x = f x) -> f' t < f t -> sumf f' n < sumf f n.
Proof.
  induction n as [|k IH]; intros Ht Ho Hlt; [lia|]. cbn [sumf].
  destruct (Nat.eq_dec t k) as [->|Hn].
  - rewrite (sumf_ext f f' k) by (intros x Hx; apply Ho; lia). lia.
  - rewrite (Ho k) by auto. assert (sumf f' k < sumf f k) by (apply IH; auto; lia). lia.
Qed.

Lemma sumf_le f n b : (forall x, f x <= b) -> sumf f n <= n * b.
Proof.
  intro H. induction n as [|k IH]; cbn [sumf]; [lia|]. specialize (H k). lia.
Qed.

Lemma mem_rm_same t l : mem t (rm t l) = false.
Proof.
  destruct (mem t (rm t l)) eqn:E; [|reflexivity].
  apply mem_In in E. apply In_rm in E as [_ E]. contradiction.
Qed.

Lemma mem_rm_other t x l : x <> t -> mem x (rm t l) = mem x l.
Proof.
  intro Hn. destruct (mem x l) eqn:E.
  - apply mem_In. apply In_rm. split; [apply mem_In; exact E|exact Hn].
  - destruct (mem x (rm t l)) eqn:E'; [|reflexivity].
    apply mem_In in E'. apply In_rm in E' as [E' _]. apply mem_In in E'. congruence.
Qed.

Lemma mem_cons_same t l : mem t (t :: l) = true.
Proof. unfold mem. cbn [existsb]. rewrite Nat.eqb_refl. reflexivity. Qed.

Lemma mem_cons_other t x l : x <> t -> mem x (t :: l) = mem x l.
Proof. intro H. unfold mem. cbn [existsb]. apply Nat.eqb_neq in H. rewrite H. reflexivity. Qed.

Section Live.
Variable compute : nat -> list (list (list Z)) -> list (list Z).
Variable max_lost : nat.
Variable max_retry : nat.
Variable g : list (list nat).
Variable roots : list nat.
Hypothesis Hwf : wf_graph g roots = true.
Hypothesis HML : 1 <= max_lost.

Notation stepT := (Control.step compute true max_lost max_retry g roots).
Notation nextT := (next g roots).
Notation driveT := (drive compute true max_lost max_retry g roots).
Notation n := (ntasks g).
Notation InvT := (Inv compute g roots).

(* ------------------------------------------------------------------ the measure *)

Definition A : nat := 6.
Definition W (c : nat) : nat := (max_lost - c) * A.

Definition tau (w : world) (t : nat) : nat :=
  match wst w t with
  | TInit | TLost => if mem t (wpend w) then W (S (wcl w t)) + 1 else W (wcl w t)
  | TWaiting => W (wcl w t) - 1
  | TRunning => W (wcl w t) - 2
  | TOk => match wph w t with
           | PMid m => if mlost (getm w m) then W (S (wcl w t)) + 2 else 2
           | _ => if mem t (wpend w) then 1 else 0
           end
  | TErr => 0
  end.

Definition Q : nat := max_retry + 2.
Definition nu (w : world) : nat :=
  match wmode w with
  | MEval => length roots * Q + 1
  | MScan i _ k => (length roots - i) * Q - k
  | _ => 0
  end.
Definition mu (w : world) : nat := nu w + sumf (tau w) n.
Definition Mbound : nat := length roots * Q + 1 + n * (max_lost * A).

Lemma W_le c : W c <= max_lost * A.
Proof. unfold W. apply Nat.mul_le_mono_r. lia. Qed.

Lemma W_S c : c < max_lost -> W c = W (S c) + A.
Proof. intro H. unfold W. replace (max_lost - c) with (S (max_lost - S c)) by lia. lia. Qed.

Lemma tau_le w t : tau w t <= max_lost * A.
Proof.
  unfold tau. pose proof (W_le (wcl w t)) as H0.
  assert (H1 : W (S (wcl w t)) + 2 <= max_lost * A).
  { unfold W, A. destruct (Nat.le_gt_cases max_lost (S (wcl w t))) as [H|H].
    - replace (max_lost - S (wcl w t)) with 0 by lia. lia.
    - nia. }
  assert (H2 : 2 <= max_lost * A) by (unfold A; lia).
  destruct (wst w t); try lia.
  - destruct (mem t (wpend w)); lia.
  - destruct (wph w t); try (destruct (mem t (wpend w)); lia).
    destruct (mlost (getm w m)); lia.
  - destruct (mem t (wpend w)); lia.
Qed.

Lemma mu_le w : mu w <= Mbound.
Proof.
  unfold mu, Mbound. pose proof (sumf_le (tau w) n (max_lost * A) (tau_le w)) as H.
  assert (nu w <= length roots * Q + 1); [|lia].
  unfold nu. destruct (wmode w); lia.
Qed.

(* tau of a task depends on its own fields and on which machines are known lost *)
Lemma tau_ext w w' t :
  wst w' t = wst w t -> wcl w' t = wcl w t -> wph w' t = wph w t ->
  mem t (wpend w') = mem t (wpend w) ->
  (forall m, mlost (getm w' m) = mlost (getm w m)) -> tau w' t = tau w t.
Proof.
  intros E1 E2 E3 E4 E5. unfold tau. rewrite E1, E2, E3, E4.
  destruct (wst w t); try reflexivity. destruct (wph w t); try reflexivity. rewrite E5. reflexivity.
Qed.

(* a step that touches one task *)
Lemma mu_dec_task w w' t :
  t < n -> wmode w' = wmode w ->
  (forall m, mlost (getm w' m) = mlost (getm w m)) ->
  (forall x, x <> t -> wst w' x = wst w x /\ wcl w' x = wcl w x /\ wph w' x = wph w x /\
                       mem x (wpend w') = mem x (wpend w)) ->
  tau w' t < tau w t -> mu w' < mu w.
Proof.
  intros Ht Hm Hl Ho Hlt. unfold mu.
  assert (nu w' = nu w) by (unfold nu; rewrite Hm; reflexivity).
  assert (sumf (tau w') n < sumf (tau w) n); [|lia].
  apply (sumf_change _ _ n t); auto.
  intros x Hx. destruct (Ho x Hx) as (E1 & E2 & E3 & E4). apply tau_ext; auto.
Qed.

(* a step that touches only the mode *)
Lemma mu_dec_mode w x : nu (set_mode w x) < nu w -> mu (set_mode w x) < mu w.
Proof.
  intro H. unfold mu.
  assert (sumf (tau (set_mode w x)) n = sumf (tau w) n); [|lia].
  apply sumf_ext. intros t _. apply tau_ext; reflexivity.
Qed.

(* ------------------------------------------------------------------ bookkeeping invariant *)

Record G (w : world) : Prop := mkG {
  g_cl : werr w = false -> forall t, wst w t <> TErr /\ wcl w t < max_lost;
  g_unc : forall t, mem t (wpend w) = true -> wunc w t = true;
  g_wait : forall t, wst w t = TWaiting -> mem t (wpend w) = true /\ wph w t = PNone;
  g_mid : forall t m, wph w t = PMid m -> mem t (wpend w) = true;
  g_rep : forall t m, wph w t = PReplied m -> mem t (wpend w) = true;
  g_lt : forall t, mem t (wpend w) = true -> t < n;
  g_phlt : forall t, wph w t <> PNone -> t < n;
  g_scan : match wmode w with
           | MScan i _ k => i < length roots /\ k <= max_retry
           | _ => True
           end
}.

Lemma G_init k : G (init_world k).
Proof.
  constructor; cbn; try discriminate; auto.
  - intros _ t. split; [discriminate|lia].
  - intros t H. contradiction.
Qed.

Definition Good (w : world) : Prop := InvT w /\ K w /\ G w.

Lemma enq_lt w : forall f x t, x < n -> In t (enq g f w x) -> t < n.
Proof.
  induction f as [|f IH]; intros x t Hx H; cbn [enq] in H; [destruct H|].
  destruct (mem x (wpend w)); [destruct H|].
  assert (Hd : forall d, In d (deps_of g x) -> d < n).
  { intros d Hd. pose proof (deps_lt g roots Hwf x d Hd). lia. }
  destruct (wst w x); try (destruct H; fail).
  - destruct (forallb _ (deps_of g x)).
    + destruct H as [<-|[]]. exact Hx.
    + apply in_flat_map in H as [d [Hin Hd']]. eapply IH; [|exact Hd']. auto.
  - destruct (forallb _ (deps_of g x)).
    + destruct H as [<-|[]]. exact Hx.
    + apply in_flat_map in H as [d [Hin Hd']]. eapply IH; [|exact Hd']. auto.
Qed.

Lemma roots_lt r : In r roots -> r < n.
Proof.
  intro H. unfold wf_graph in Hwf. apply andb_true_iff in Hwf as [_ H2].
  rewrite forallb_forall in H2. apply Nat.ltb_lt. apply H2. exact H.
Qed.

Lemma targets_lt w r : In r (targets roots w) -> r < n.
Proof.
  unfold targets. destruct (wmode w); try (intros []; fail).
  - apply roots_lt.
  - destruct (nth_error roots i) eqn:E; [|intros []].
    intros [<-|[]]. apply roots_lt. eapply nth_error_In; eauto.
Qed.

Lemma runnable_lt w t : In t (runnable g roots w) -> t < n.
Proof.
  unfold runnable. intro H. apply in_flat_map in H as [x [Hx Ht]].
  eapply enq_lt; [|exact Ht]. eapply targets_lt; eauto.
Qed.

(* ------------------------------------------------------------------ LReply2 *)

Lemma reply2_frame w t m : wph w t = PMid m ->
  let w' := stepT w (LReply2 t) in
  wmode w' = wmode w /\ wcl w' = wcl w /\ wunc w' = wunc w /\ wpend w' = wpend w /\ werr w' = werr w /\
  (forall m', mlost (getm w' m') = mlost (getm w m')) /\
  wph w' = upd (wph w) t PNone /\
  (forall x, x <> t -> wst w' x = wst w x) /\
  wst w' t = (if mlost (getm w m) then TLost else wst w t).
Proof.
  intros Eph. cbn [Control.step]. rewrite Eph.
  destruct (assign_frame w m t) as (_ & B & C & D & _ & E & F & G0 & H & I & _).
  cbn [wmode wcl wunc wpend werr wph wst set_ph].
  change (getm (set_ph ?a ?b)) with (getm (assign w m t)).
  rewrite D. repeat split; auto.
  - intro m'. apply B.
  - unfold assign. destruct (mlost (getm w m)); [apply upd_same|reflexivity].
Qed.

Lemma G_reply2 w t m : G w -> K w -> wph w t = PMid m -> G (stepT w (LReply2 t)).
Proof.
  intros [G1 G2 G3 G4 G5 G6 G7 G8] HK Eph.
  destruct (reply2_frame w t m Eph) as (F1 & F2 & F3 & F4 & F5 & F6 & F7 & F8 & F9).
  pose proof (k_mid w HK t m Eph) as Hok.
  set (w' := stepT w (LReply2 t)) in *. clearbody w'.
  constructor.
  - rewrite F5, F2. intros He x. destruct (G1 He x) as [a b]. split; [|exact b].
    destruct (Nat.eq_dec x t) as [->|Hn]; [|rewrite F8; auto].
    rewrite F9. destruct (mlost (getm w m)); [discriminate|exact a].
  - rewrite F3, F4. exact G2.
  - intros x. rewrite F4, F7. destruct (Nat.eq_dec x t) as [->|Hn].
    + rewrite F9, Hok. destruct (mlost (getm w m)); discriminate.
    + rewrite F8, upd_other by exact Hn. apply G3.
  - intros x m'. rewrite F4, F7. unfold upd. destruct (Nat.eqb_spec x t); [discriminate|apply G4].
  - intros x m'. rewrite F4, F7. unfold upd. destruct (Nat.eqb_spec x t); [discriminate|apply G5].
  - rewrite F4. exact G6.
  - intros x. rewrite F7. unfold upd. destruct (Nat.eqb_spec x t); [congruence|apply G7].
  - rewrite F1. exact G8.
Qed.

Lemma dec_reply2 w t m : G w -> K w -> wph w t = PMid m -> mu (stepT w (LReply2 t)) < mu w.
Proof.
  intros HG HK Eph.
  destruct (reply2_frame w t m Eph) as (F1 & F2 & F3 & F4 & F5 & F6 & F7 & F8 & F9).
  pose proof (k_mid w HK t m Eph) as Hok. pose proof (g_mid w HG t m Eph) as Hp.
  assert (Ht : t < n) by (apply (g_lt w HG); exact Hp).
  set (w' := stepT w (LReply2 t)) in *. clearbody w'.
  apply (mu_dec_task w w' t); auto.
  - intros x Hx. rewrite F8, F2, F7, F4 by exact Hx. rewrite upd_other by exact Hx. auto.
  - unfold tau. rewrite F9, F7, F2, F4, upd_same, Hok, Eph, Hp.
    destruct (mlost (getm w m)); lia.
Qed.

(* ------------------------------------------------------------------ LReply1 *)

Lemma reply1_frame w t m : wph w t = PReplied m ->
  let w' := stepT w (LReply1 t) in
  wmode w' = wmode w /\ wcl w' = wcl w /\ wunc w' = wunc w /\ wpend w' = wpend w /\ werr w' = werr w /\
  wms w' = wms w /\
  wph w' = upd (wph w) t (PMid m) /\ wst w' = upd (wst w) t TOk /\
  wloc w' = upd (wloc w) t (Some m).
Proof. intros Eph. cbn [Control.step]. rewrite Eph. cbn. repeat split; reflexivity. Qed.

Lemma getm_ms w w' m : wms w' = wms w -> getm w' m = getm w m.
Proof. intro H. unfold getm. rewrite H. reflexivity. Qed.

Lemma G_reply1 w t m : G w -> wph w t = PReplied m -> G (stepT w (LReply1 t)).
Proof.
  intros [G1 G2 G3 G4 G5 G6 G7 G8] Eph.
  destruct (reply1_frame w t m Eph) as (F1 & F2 & F3 & F4 & F5 & F6 & F7 & F8 & F9).
  set (w' := stepT w (LReply1 t)) in *. clearbody w'.
  constructor.
  - rewrite F5, F2, F8. intros He x. destruct (G1 He x) as [a b]. split; [|exact b].
    unfold upd. destruct (Nat.eqb x t); [discriminate|exact a].
  - rewrite F3, F4. exact G2.
  - intros x. rewrite F4, F7, F8. unfold upd. destruct (Nat.eqb_spec x t); [discriminate|apply G3].
  - intros x m'. rewrite F4, F7. unfold upd. destruct (Nat.eqb_spec x t) as [->|]; [|apply G4].
    intros _. eapply G5; eauto.
  - intros x m'. rewrite F4, F7. unfold upd. destruct (Nat.eqb_spec x t); [discriminate|apply G5].
  - rewrite F4. exact G6.
  - intros x. rewrite F7. unfold upd. destruct (Nat.eqb_spec x t) as [->|]; [|apply G7].
    intros _. apply G7. congruence.
  - rewrite F1. exact G8.
Qed.

Lemma dec_reply1 w t m : G w -> K w -> werr w = false -> wph w t = PReplied m ->
  mu (stepT w (LReply1 t)) < mu w.
Proof.
  intros HG HK He Eph.
  destruct (reply1_frame w t m Eph) as (F1 & F2 & F3 & F4 & F5 & F6 & F7 & F8 & F9).
  pose proof (k_rep w HK t m Eph) as Hrun. pose proof (g_rep w HG t m Eph) as Hp.
  assert (Ht : t < n) by (apply (g_lt w HG); exact Hp).
  destruct (g_cl w HG He t) as [_ Hc].
  set (w' := stepT w (LReply1 t)) in *. clearbody w'.
  apply (mu_dec_task w w' t); auto.
  - intro m'. rewrite (getm_ms w w') by exact F6. reflexivity.
  - intros x Hx. rewrite F8, F2, F7, F4. rewrite !upd_other by exact Hx. auto.
  - unfold tau. rewrite F8, F7, F2, !upd_same, Hrun. rewrite (getm_ms w w') by exact F6.
    pose proof (W_S (wcl w t) Hc) as E. unfold A in E.
    destruct (mlost (getm w m)); lia.
Qed.

(* ------------------------------------------------------------------ LRun *)

Lemma run_frame w t m : wst w t = TWaiting -> wph w t = PNone ->
  m < length (wms w) -> mlost (getm w m) = false ->
  let w' := stepT w (LRun t m) in
  wmode w' = wmode w /\ wcl w' = wcl w /\ wunc w' = wunc w /\ wpend w' = wpend w /\ werr w' = werr w /\
  wloc w' = wloc w /\
  (forall m', mlost (getm w' m') = mlost (getm w m')) /\
  ((wst w' = upd (wst w) t TRunning /\ wph w' = upd (wph w) t (PReplied m)) \/
   (wst w' = upd (wst w) t TLost /\ wph w' = wph w)).
Proof.
  intros Est Eph Hm Hl. cbn [Control.step]. rewrite Est, Eph.
  apply Nat.ltb_lt in Hm. rewrite Hm, Hl. cbn [negb andb].
  destruct (if malive (getm w m) then gather w m (deps_of g t) else None) as [ins|].
  - cbn [wmode wcl wunc wpend werr wloc wst wph set_ph set_st].
    change (getm (set_ph ?a ?b)) with (getm (commit w m t (compute t ins))).
    repeat split; auto.
    intro m'. unfold commit. rewrite getm_upd.
    destruct (Nat.eqb_spec m' m) as [->|]; cbn [andb]; [|reflexivity].
    rewrite Hm. reflexivity.
  - cbn. repeat split; auto.
Qed.

Lemma G_run w t m : G w -> wst w t = TWaiting -> wph w t = PNone ->
  m < length (wms w) -> mlost (getm w m) = false -> G (stepT w (LRun t m)).
Proof.
  intros [G1 G2 G3 G4 G5 G6 G7 G8] Est Eph Hm Hl.
  destruct (run_frame w t m Est Eph Hm Hl) as (F1 & F2 & F3 & F4 & F5 & F6 & F7 & F8).
  destruct (G3 t Est) as [Hp _].
  set (w' := stepT w (LRun t m)) in *. clearbody w'.
  destruct F8 as [[F8 F9]|[F8 F9]].
  - constructor.
    + rewrite F5, F2, F8. intros He x. destruct (G1 He x) as [a b]. split; [|exact b].
      unfold upd. destruct (Nat.eqb x t); [discriminate|exact a].
    + rewrite F3, F4. exact G2.
    + intros x. rewrite F4, F8, F9. unfold upd. destruct (Nat.eqb_spec x t); [discriminate|apply G3].
    + intros x m'. rewrite F4, F9. unfold upd. destruct (Nat.eqb_spec x t); [discriminate|apply G4].
    + intros x m'. rewrite F4, F9. unfold upd. destruct (Nat.eqb_spec x t) as [->|]; [auto|apply G5].
    + rewrite F4. exact G6.
    + intros x. rewrite F9. unfold upd. destruct (Nat.eqb_spec x t) as [->|]; [|apply G7].
      intros _. apply G6. exact Hp.
    + rewrite F1. exact G8.
  - constructor.
    + rewrite F5, F2, F8. intros He x. destruct (G1 He x) as [a b]. split; [|exact b].
      unfold upd. destruct (Nat.eqb x t); [discriminate|exact a].
    + rewrite F3, F4. exact G2.
    + intros x. rewrite F4, F8, F9. unfold upd. destruct (Nat.eqb_spec x t); [discriminate|apply G3].
    + rewrite F4, F9. exact G4.
    + rewrite F4, F9. exact G5.
    + rewrite F4. exact G6.
    + rewrite F9. exact G7.
    + rewrite F1. exact G8.
Qed.

Lemma dec_run w t m : G w -> werr w = false -> wst w t = TWaiting -> wph w t = PNone ->
  m < length (wms w) -> mlost (getm w m) = false -> mu (stepT w (LRun t m)) < mu w.
Proof.
  intros HG He Est Eph Hm Hl.
  destruct (run_frame w t m Est Eph Hm Hl) as (F1 & F2 & F3 & F4 & F5 & F6 & F7 & F8).
  destruct (g_wait w HG t Est) as [Hp _].
  assert (Ht : t < n) by (apply (g_lt w HG); exact Hp).
  destruct (g_cl w HG He t) as [_ Hc].
  pose proof (W_S (wcl w t) Hc) as E. unfold A in E.
  set (w' := stepT w (LRun t m)) in *. clearbody w'.
  apply (mu_dec_task w w' t); auto.
  - intros x Hx. rewrite F2, F4. destruct F8 as [[F8 F9]|[F8 F9]]; rewrite F8, F9;
      rewrite ?upd_other by exact Hx; auto.
  - unfold tau. rewrite F2, F4, Est. destruct F8 as [[F8 F9]|[F8 F9]]; rewrite F8, upd_same.
    + lia.
    + rewrite Hp. lia.
Qed.

(* ------------------------------------------------------------------ LReturn *)

Lemma return_frame w t : G w -> werr w = false ->
  active w = true -> mem t (wpend w) = true -> ge_ok (wst w t) = true ->
  let w' := stepT w (LReturn t) in
  wmode w' = wmode w /\ wms w' = wms w /\ wph w' = wph w /\ wloc w' = wloc w /\
  wpend w' = rm t (wpend w) /\
  (forall x, x <> t -> wst w' x = wst w x /\ wcl w' x = wcl w x /\ wunc w' x = wunc w x) /\
  ((wst w t = TOk /\ wst w' t = TOk /\ wcl w' t = 0 /\ wunc w' t = false /\ werr w' = false) \/
   (wst w t = TLost /\ S (wcl w t) < max_lost /\ wst w' t = TLost /\ wcl w' t = S (wcl w t) /\
    wunc w' t = false /\ werr w' = false) \/
   (wst w t = TLost /\ max_lost <= S (wcl w t) /\ wst w' t = TErr /\ werr w' = true)).
Proof.
  intros HG He Ha Hp Hge. cbn [Control.step]. rewrite Ha, Hp, Hge. cbn [andb].
  destruct (wst w t) eqn:Est; try discriminate.
  - cbn [wst set_pend set_unc set_cl]. rewrite Est. cbn [st_eqb].
    cbn [wmode wms wph wloc wpend wst wcl wunc werr set_pend set_unc set_cl].
    repeat split; auto; try (rewrite upd_other by assumption; reflexivity).
    left. rewrite ?upd_same. repeat split; auto.
  - exfalso. destruct (g_cl w HG He t) as [a _]. contradiction.
  - unfold count_lost. rewrite (g_unc w HG t Hp).
    destruct (Nat.ltb_spec (S (wcl w t)) max_lost) as [Hlt|Hge'].
    + cbn [wst set_pend set_unc set_cl]. rewrite Est. cbn [st_eqb].
      cbn [wmode wms wph wloc wpend wst wcl wunc werr set_pend set_unc set_cl].
      repeat split; auto; try (rewrite upd_other by assumption; reflexivity).
      right; left. rewrite ?upd_same. repeat split; auto.
    + cbn [wst set_pend set_unc set_cl set_st]. rewrite upd_same. cbn [st_eqb].
      cbn [wmode wms wph wloc wpend wst wcl wunc werr set_pend set_unc set_cl set_st set_err].
      repeat split; auto; try (rewrite upd_other by assumption; reflexivity).
      right; right. rewrite ?upd_same. repeat split; auto.
Qed.

Lemma G_return w t : G w -> werr w = false ->
  active w = true -> mem t (wpend w) = true -> ge_ok (wst w t) = true -> wph w t = PNone ->
  G (stepT w (LReturn t)).
Proof.
  intros HG He Ha Hp Hge Eph.
  destruct (return_frame w t HG He Ha Hp Hge) as (F1 & F2 & F3 & F4 & F5 & F6 & F7).
  destruct HG as [G1 G2 G3 G4 G5 G6 G7 G8].
  set (w' := stepT w (LReturn t)) in *. clearbody w'.
  constructor.
  - intros He' x. destruct (Nat.eq_dec x t) as [->|Hn].
    + destruct F7 as [(a & b & c & d & e)|[(a & b & c & d & e & f)|(a & b & c & d)]].
      * rewrite b, c. split; [discriminate|lia].
      * rewrite c, d. split; [discriminate|lia].
      * congruence.
    + destruct (F6 x Hn) as (a & b & _). rewrite a, b. apply G1. exact He.
  - intros x. rewrite F5. intro H. apply mem_In in H. apply In_rm in H as [H Hn].
    destruct (F6 x Hn) as (_ & _ & c). rewrite c. apply G2. apply mem_In. exact H.
  - intros x Hx. rewrite F5, F3. destruct (Nat.eq_dec x t) as [->|Hn].
    + exfalso. destruct F7 as [(a & b & _)|[(a & b & c & _)|(a & b & c & d)]]; congruence.
    + destruct (F6 x Hn) as (a & _). rewrite a in Hx. rewrite mem_rm_other by exact Hn. apply G3. exact Hx.
  - intros x m'. rewrite F5, F3. intro H. destruct (Nat.eq_dec x t) as [->|Hn]; [congruence|].
    rewrite mem_rm_other by exact Hn. eapply G4; eauto.
  - intros x m'. rewrite F5, F3. intro H. destruct (Nat.eq_dec x t) as [->|Hn]; [congruence|].
    rewrite mem_rm_other by exact Hn. eapply G5; eauto.
  - intros x. rewrite F5. intro H. apply mem_In in H. apply In_rm in H as [H _].
    apply G6. apply mem_In. exact H.
  - rewrite F3. exact G7.
  - rewrite F1. exact G8.
Qed.

Lemma dec_return w t : G w -> werr w = false ->
  active w = true -> mem t (wpend w) = true -> ge_ok (wst w t) = true -> wph w t = PNone ->
  mu (stepT w (LReturn t)) < mu w.
Proof.
  intros HG He Ha Hp Hge Eph.
  destruct (return_frame w t HG He Ha Hp Hge) as (F1 & F2 & F3 & F4 & F5 & F6 & F7).
  assert (Ht : t < n) by (apply (g_lt w HG); exact Hp).
  set (w' := stepT w (LReturn t)) in *. clearbody w'.
  apply (mu_dec_task w w' t); auto.
  - intro m'. rewrite (getm_ms w w') by exact F2. reflexivity.
  - intros x Hx. destruct (F6 x Hx) as (a & b & _). rewrite a, b, F3, F5.
    rewrite mem_rm_other by exact Hx. auto.
  - unfold tau. rewrite F3, F5, mem_rm_same, Hp, Eph.
    destruct F7 as [(a & b & c & d & e)|[(a & b & c & d & e & f)|(a & b & c & d)]].
    + rewrite a, b. lia.
    + rewrite a, c, d. lia.
    + rewrite a, c. lia.
Qed.

(* ------------------------------------------------------------------ LDispatch *)

Lemma dispatch_frame w t : G w -> werr w = false ->
  active w = true -> mem t (runnable g roots w) = true ->
  let w' := stepT w (LDispatch t) in
  wmode w' = wmode w /\ wms w' = wms w /\ wph w' = wph w /\ wloc w' = wloc w /\
  (forall x, x <> t -> wst w' x = wst w x /\ wcl w' x = wcl w x /\ wunc w' x = wunc w x) /\
  ((wst w' t = TWaiting /\ wcl w t <= wcl w' t /\ wcl w' t < max_lost /\ wunc w' t = true /\
    wpend w' = t :: wpend w /\ werr w' = false) \/
   (wst w' t = TErr /\ werr w' = true /\ wpend w' = wpend w)).
Proof.
  intros HG He Ha Hr. cbn [Control.step]. rewrite Ha, Hr. cbn [andb].
  destruct (runnable_sound g roots w t Hr) as [Hs _].
  destruct (g_cl w HG He t) as [Hne Hc].
  destruct (st_eqb (wst w t) TLost) eqn:El.
  - unfold count_lost. destruct (wunc w t).
    + destruct (Nat.ltb_spec (S (wcl w t)) max_lost) as [Hlt|Hge'].
      * cbn [wst set_cl set_unc]. destruct (st_eqb (wst w t) TErr) eqn:E2.
        { destruct (wst w t); discriminate. }
        cbn [wmode wms wph wloc wpend wst wcl wunc werr set_pend set_unc set_cl set_st].
        repeat split; auto; try (rewrite !upd_other by assumption; reflexivity).
        left. rewrite ?upd_same. repeat split; auto.
      * cbn [wst set_cl set_unc set_st]. rewrite upd_same. cbn [st_eqb].
        cbn [wmode wms wph wloc wpend wst wcl wunc werr set_err set_unc set_cl set_st].
        repeat split; auto; try (rewrite !upd_other by assumption; reflexivity).
        right. rewrite ?upd_same. repeat split; auto.
    + destruct (st_eqb (wst w t) TErr) eqn:E2.
      { destruct (wst w t); discriminate. }
      cbn [wmode wms wph wloc wpend wst wcl wunc werr set_pend set_unc set_cl set_st].
      repeat split; auto; try (rewrite !upd_other by assumption; reflexivity).
      left. rewrite ?upd_same. repeat split; auto.
  - destruct (st_eqb (wst w t) TErr) eqn:E2.
    { destruct Hs as [E|E]; rewrite E in E2; discriminate. }
    cbn [wmode wms wph wloc wpend wst wcl wunc werr set_pend set_unc set_cl set_st].
    repeat split; auto; try (rewrite !upd_other by assumption; reflexivity).
    left. rewrite ?upd_same. repeat split; auto.
Qed.

Lemma idle_phase w t : K w -> wst w t = TInit \/ wst w t = TLost -> wph w t = PNone.
Proof.
  intros HK Hs. destruct (wph w t) as [|m|m] eqn:E; [reflexivity| |].
  - rewrite (k_rep w HK t m E) in Hs. destruct Hs; discriminate.
  - rewrite (k_mid w HK t m E) in Hs. destruct Hs; discriminate.
Qed.

Lemma G_dispatch w t : G w -> K w -> werr w = false ->
  active w = true -> mem t (runnable g roots w) = true -> G (stepT w (LDispatch t)).
Proof.
  intros HG HK He Ha Hr.
  destruct (dispatch_frame w t HG He Ha Hr) as (F1 & F2 & F3 & F4 & F6 & F7).
  destruct (runnable_sound g roots w t Hr) as [Hs Hnp].
  pose proof (idle_phase w t HK Hs) as Eph.
  assert (Ht : t < n) by (apply runnable_lt with w; apply mem_In; exact Hr).
  destruct HG as [G1 G2 G3 G4 G5 G6 G7 G8].
  set (w' := stepT w (LDispatch t)) in *. clearbody w'.
  destruct F7 as [(a & b & c & d & e & f)|(a & b & c)].
  - constructor.
    + intros _ x. destruct (Nat.eq_dec x t) as [->|Hn].
      * rewrite a. split; [discriminate|exact c].
      * destruct (F6 x Hn) as (p & q & _). rewrite p, q. apply G1. exact He.
    + intros x. rewrite e. destruct (Nat.eq_dec x t) as [->|Hn]; [auto|].
      rewrite mem_cons_other by exact Hn. destruct (F6 x Hn) as (_ & _ & r). rewrite r. apply G2.
    + intros x. rewrite e, F3. destruct (Nat.eq_dec x t) as [->|Hn].
      * intros _. rewrite mem_cons_same. auto.
      * rewrite mem_cons_other by exact Hn. destruct (F6 x Hn) as (p & _). rewrite p. apply G3.
    + intros x m'. rewrite e, F3. intro H. destruct (Nat.eq_dec x t) as [->|Hn]; [congruence|].
      rewrite mem_cons_other by exact Hn. eapply G4; eauto.
    + intros x m'. rewrite e, F3. intro H. destruct (Nat.eq_dec x t) as [->|Hn]; [congruence|].
      rewrite mem_cons_other by exact Hn. eapply G5; eauto.
    + intros x. rewrite e. destruct (Nat.eq_dec x t) as [->|Hn]; [auto|].
      rewrite mem_cons_other by exact Hn. apply G6.
    + rewrite F3. exact G7.
    + rewrite F1. exact G8.
  - constructor.
    + rewrite b. discriminate.
    + intros x. rewrite c. intro H. destruct (Nat.eq_dec x t) as [->|Hn]; [congruence|].
      destruct (F6 x Hn) as (_ & _ & r). rewrite r. apply G2. exact H.
    + intros x. rewrite c, F3. destruct (Nat.eq_dec x t) as [->|Hn]; [congruence|].
      destruct (F6 x Hn) as (p & _). rewrite p. apply G3.
    + rewrite c, F3. exact G4.
    + rewrite c, F3. exact G5.
    + rewrite c. exact G6.
    + rewrite F3. exact G7.
    + rewrite F1. exact G8.
Qed.

Lemma dec_dispatch w t : G w -> K w -> werr w = false ->
  active w = true -> mem t (runnable g roots w) = true -> mu (stepT w (LDispatch t)) < mu w.
Proof.
  intros HG HK He Ha Hr.
  destruct (dispatch_frame w t HG He Ha Hr) as (F1 & F2 & F3 & F4 & F6 & F7).
  destruct (runnable_sound g roots w t Hr) as [Hs Hnp].
  assert (Ht : t < n) by (apply runnable_lt with w; apply mem_In; exact Hr).
  destruct (g_cl w HG He t) as [_ Hc].
  pose proof (W_S (wcl w t) Hc) as E. unfold A in E.
  set (w' := stepT w (LDispatch t)) in *. clearbody w'.
  apply (mu_dec_task w w' t); auto.
  - intro m'. rewrite (getm_ms w w') by exact F2. reflexivity.
  - intros x Hx. destruct (F6 x Hx) as (a & b & _). rewrite a, b, F3.
    destruct F7 as [(_ & _ & _ & _ & e & _)|(_ & _ & c)].
    + rewrite e, mem_cons_other by exact Hx. auto.
    + rewrite c. auto.
  - unfold tau at 2. rewrite Hnp.
    assert (Hold : W (wcl w t) = match wst w t with TInit | TLost => W (wcl w t) | _ => 0 end)
      by (destruct Hs as [Es|Es]; rewrite Es; reflexivity).
    assert (Hw : (match wst w t with TInit | TLost => W (wcl w t) | TWaiting => W (wcl w t) - 1
                  | TRunning => W (wcl w t) - 2
                  | TOk => match wph w t with PMid m => if mlost (getm w m) then W (S (wcl w t)) + 2 else 2
                                              | _ => 0 end
                  | TErr => 0 end) = W (wcl w t))
      by (destruct Hs as [Es|Es]; rewrite Es; reflexivity).
    rewrite Hw. unfold tau.
    destruct F7 as [(a & b & c & d & e & f)|(a & b & c)]; rewrite a.
    + assert (W (wcl w' t) <= W (wcl w t)) by (unfold W; apply Nat.mul_le_mono_r; lia). lia.
    + lia.
Qed.

(* ------------------------------------------------------------------ LFinish, LScan *)

Lemma G_mode w x :
  G w -> match x with MScan i _ k => i < length roots /\ k <= max_retry | _ => True end ->
  G (set_mode w x).
Proof. intros [G1 G2 G3 G4 G5 G6 G7 G8] H. constructor; auto. Qed.

Lemma scan_start_ok i acc :
  match scan_start roots i acc with MScan i _ k => i < length roots /\ k <= max_retry | _ => True end.
Proof.
  unfold scan_start. destruct (nth_error roots i) eqn:E; [|exact I].
  split; [|lia]. apply nth_error_Some. congruence.
Qed.

Lemma finish_eq w : finish_ok roots w = true ->
  stepT w LFinish = set_mode w (scan_start roots 0 []) /\ wmode w = MEval.
Proof.
  unfold finish_ok. cbn [Control.step]. destruct (wmode w); try discriminate.
  unfold nopend. intro H. rewrite H. auto.
Qed.

Lemma dec_finish w : finish_ok roots w = true -> mu (stepT w LFinish) < mu w.
Proof.
  intro H. destruct (finish_eq w H) as [E Em]. rewrite E. apply mu_dec_mode.
  unfold nu. cbn [wmode set_mode]. rewrite Em. unfold scan_start.
  destruct (nth_error roots 0); lia.
Qed.

Lemma G_finish w : G w -> finish_ok roots w = true -> G (stepT w LFinish).
Proof.
  intros HG H. destruct (finish_eq w H) as [E _]. rewrite E. apply G_mode; [exact HG|apply scan_start_ok].
Qed.

Lemma scan_eq w : scan_ok roots w = true ->
  exists i acc k r, wmode w = MScan i acc k /\ nth_error roots i = Some r /\
    wst w r = TOk /\ wpend w = [] /\
    stepT w LScan = set_mode w (match read_loc w r with
                                | Some rws => scan_start roots (S i) (acc ++ [rws])
                                | None => if Nat.ltb k max_retry then MScan i acc (S k) else MFail
                                end).
Proof.
  unfold scan_ok. cbn [Control.step]. destruct (wmode w) as [|i acc k| |]; try discriminate.
  destruct (nth_error roots i) as [r|] eqn:Er; [|discriminate].
  unfold nopend. intro H. rewrite H. exists i, acc, k, r.
  apply andb_true_iff in H as [H H3]. apply andb_true_iff in H as [H1 H2].
  repeat split; auto.
  - unfold is_ok in H3. destruct (wst w r); try discriminate; reflexivity.
  - destruct (wpend w); [reflexivity|discriminate].
  - destruct (read_loc w r); reflexivity.
Qed.

Lemma dec_scan w : G w -> scan_ok roots w = true -> mu (stepT w LScan) < mu w.
Proof.
  intros HG H. destruct (scan_eq w H) as (i & acc & k & r & Em & Er & _ & _ & E). rewrite E.
  apply mu_dec_mode. pose proof (g_scan w HG) as Hs. rewrite Em in Hs. destruct Hs as [Hi Hk].
  unfold nu. cbn [wmode set_mode]. rewrite Em.
  assert (HQ : (length roots - i) * Q = (length roots - S i) * Q + Q).
  { replace (length roots - i) with (S (length roots - S i)) by lia. lia. }
  assert (Hk2 : k + 2 <= Q) by (unfold Q; lia).
  destruct (read_loc w r).
  - unfold scan_start. destruct (nth_error roots (S i)); rewrite HQ; generalize ((length roots - S i) * Q); intro X; lia.
  - destruct (Nat.ltb_spec k max_retry); rewrite HQ; generalize ((length roots - S i) * Q); intro X; lia.
Qed.

Lemma G_scan w : G w -> scan_ok roots w = true -> G (stepT w LScan).
Proof.
  intros HG H. destruct (scan_eq w H) as (i & acc & k & r & Em & Er & _ & _ & E). rewrite E.
  pose proof (g_scan w HG) as Hs. rewrite Em in Hs. destruct Hs as [Hi Hk].
  apply G_mode; [exact HG|]. destruct (read_loc w r); [apply scan_start_ok|].
  destruct (Nat.ltb_spec k max_retry); [split; lia|exact I].
Qed.

(* ------------------------------------------------------------------ environment steps *)

Lemma G_kill w m : G w -> G (stepT w (LKill m)).
Proof.
  intros [G1 G2 G3 G4 G5 G6 G7 G8]. cbn [Control.step].
  destruct (Nat.ltb m (length (wms w))); constructor; auto.
Qed.

Lemma G_start w : G w -> G (stepT w LStart).
Proof. intros [G1 G2 G3 G4 G5 G6 G7 G8]. constructor; auto. Qed.

Lemma G_notice w m : G w -> G (stepT w (LNotice m)).
Proof.
  intros [G1 G2 G3 G4 G5 G6 G7 G8]. cbn [Control.step].
  destruct (Nat.ltb m (length (wms w))); [|constructor; auto].
  constructor; cbn [wst wcl wunc wph wpend werr wmode set_st]; auto.
  - intros He x. destruct (G1 He x) as [a b]. split; [|exact b].
    rewrite mark_lost_spec. destruct (mem x _); [discriminate|exact a].
  - intros x. rewrite mark_lost_spec. destruct (mem x _); [discriminate|apply G3].
Qed.

Lemma mu_start w : InvT w -> mu (stepT w LStart) = mu w.
Proof.
  intro HI. unfold mu. f_equal. apply sumf_ext. intros t _. unfold tau.
  cbn [Control.step wst wcl wph wpend set_ms].
  destruct (wst w t); try reflexivity. destruct (wph w t) as [| |m] eqn:Eph; try reflexivity.
  assert (Hm : m < length (wms w)) by (apply (i_phb compute g roots w HI t m); auto).
  unfold getm at 1. cbn [wms set_ms]. rewrite getm_app by exact Hm. reflexivity.
Qed.

(* ------------------------------------------------------------------ every own step decreases *)

Lemma Good_step_IK w l : Good w -> InvT (stepT w l) /\ K (stepT w l).
Proof.
  intros (HI & HK & _). split.
  - apply step_inv; assumption.
  - apply step_K; auto.
Qed.

Lemma find_task_some p t : find_task g p = Some t -> t < n /\ p t = true.
Proof.
  unfold find_task. intro H. apply find_some in H as [H1 H2]. apply in_seq in H1. split; [lia|exact H2].
Qed.

Lemma find_task_none p : find_task g p = None -> forall t, t < n -> p t = false.
Proof.
  unfold find_task. intros H t Ht. apply (find_none _ _ H). apply in_seq. lia.
Qed.

Lemma phase_none w t :
  find_task g (fun t => is_mid (wph w t)) = None ->
  find_task g (fun t => is_replied (wph w t)) = None -> t < n -> wph w t = PNone.
Proof.
  intros H1 H2 Ht. pose proof (find_task_none _ H1 t Ht) as A1. pose proof (find_task_none _ H2 t Ht) as A2.
  cbn beta in A1, A2. destruct (wph w t); [reflexivity|discriminate|discriminate].
Qed.

Lemma pick_machine_some w m : pick_machine w = Some m ->
  m < length (wms w) /\ mlost (getm w m) = false.
Proof.
  unfold pick_machine. intro H. apply find_some in H as [H1 H2]. apply in_seq in H1.
  split; [lia|]. apply negb_true_iff in H2. exact H2.
Qed.

Definition spend (l : label) (spares : nat) : nat := if is_start l then pred spares else spares.

Lemma next_progress spares w l :
  Good w -> werr w = false -> nextT spares w = Some l ->
  Good (stepT w l) /\ mu (stepT w l) + spend l spares < mu w + spares.
Proof.
  intros HGood He Hn. destruct (Good_step_IK w l HGood) as [HI' HK'].
  destruct HGood as (HI & HK & HG).
  assert (Hgoal : G (stepT w l) /\ mu (stepT w l) + spend l spares < mu w + spares);
    [|destruct Hgoal as [Ha Hb]; split; [split; [exact HI'|split; [exact HK'|exact Ha]]|exact Hb]].
  clear HI' HK'. unfold next in Hn.
  destruct (find_task g (fun t => is_mid (wph w t))) as [t|] eqn:Fm.
  { inversion Hn; subst l. apply find_task_some in Fm as [Ht Hp].
    destruct (wph w t) as [| |m] eqn:Eph; try discriminate.
    split; [eapply G_reply2; eauto|]. unfold spend. cbn [is_start].
    pose proof (dec_reply2 w t m HG HK Eph). lia. }
  destruct (find_task g (fun t => is_replied (wph w t))) as [t|] eqn:Fr.
  { inversion Hn; subst l. apply find_task_some in Fr as [Ht Hp].
    destruct (wph w t) as [|m|] eqn:Eph; try discriminate.
    split; [eapply G_reply1; eauto|]. unfold spend. cbn [is_start].
    pose proof (dec_reply1 w t m HG HK He Eph). lia. }
  assert (Hrest :
    match (if active w then find (fun t => ge_ok (wst w t)) (wpend w) else None) with
    | Some t => Some (LReturn t)
    | None => match (if active w then runnable g roots w else []) with
              | t :: _ => Some (LDispatch t)
              | [] => if finish_ok roots w then Some LFinish
                      else if scan_ok roots w then Some LScan else None
              end
    end = Some l -> G (stepT w l) /\ mu (stepT w l) + spend l spares < mu w + spares).
  { clear Hn. intro Hn.
    destruct (if active w then find (fun t => ge_ok (wst w t)) (wpend w) else None) as [t|] eqn:Fret.
    { inversion Hn; subst l. destruct (active w) eqn:Ha; [|discriminate].
      apply find_some in Fret as [Hin Hge]. apply mem_In in Hin.
      assert (Ht : t < n) by (apply (g_lt w HG); exact Hin).
      pose proof (phase_none w t Fm Fr Ht) as Eph.
      split; [apply G_return; auto|]. unfold spend. cbn [is_start].
      pose proof (dec_return w t HG He Ha Hin Hge Eph). lia. }
    destruct (if active w then runnable g roots w else []) as [|t rest] eqn:Frun.
    2:{ inversion Hn; subst l. destruct (active w) eqn:Ha; [|discriminate].
        assert (Hr : mem t (runnable g roots w) = true) by (apply mem_In; rewrite Frun; left; reflexivity).
        split; [apply G_dispatch; auto|]. unfold spend. cbn [is_start].
        pose proof (dec_dispatch w t HG HK He Ha Hr). lia. }
    destruct (finish_ok roots w) eqn:Ff.
    { inversion Hn; subst l. split; [apply G_finish; auto|]. unfold spend. cbn [is_start].
      pose proof (dec_finish w Ff). lia. }
    destruct (scan_ok roots w) eqn:Fs; [|discriminate].
    inversion Hn; subst l. split; [apply G_scan; auto|]. unfold spend. cbn [is_start].
    pose proof (dec_scan w HG Fs). lia. }
  destruct (find_task g (fun t => st_eqb (wst w t) TWaiting && is_none (wph w t))) as [t|] eqn:Fw;
    [|apply Hrest; exact Hn].
  apply find_task_some in Fw as [Ht Hp]. apply andb_true_iff in Hp as [Hp1 Hp2].
  assert (Est : wst w t = TWaiting) by (destruct (wst w t); try discriminate; reflexivity).
  assert (Eph : wph w t = PNone) by (destruct (wph w t); try discriminate; reflexivity).
  destruct (pick_machine w) as [m|] eqn:Fp.
  { inversion Hn; subst l. apply pick_machine_some in Fp as [Hm Hl].
    split; [apply G_run; auto|]. unfold spend. cbn [is_start].
    pose proof (dec_run w t m HG He Est Eph Hm Hl). lia. }
  destruct spares as [|sp]; [apply Hrest; exact Hn|].
  inversion Hn; subst l. split; [apply G_start; auto|]. unfold spend. cbn [is_start pred].
  rewrite (mu_start w HI). lia.
Qed.

(* ------------------------------------------------------------------ never out of fuel *)

Definition is_env (l : label) : bool :=
  match l with LKill _ | LNotice _ | LStart => true | _ => false end.

Lemma Good_env w l : is_env l = true -> Good w -> Good (stepT w l).
Proof.
  intros He HGood. destruct (Good_step_IK w l HGood) as [HI' HK']. destruct HGood as (_ & _ & HG).
  split; [exact HI'|]. split; [exact HK'|].
  destruct l; try discriminate; [apply G_kill|apply G_notice|apply G_start]; exact HG.
Qed.

Lemma Good_init k : Good (init_world k).
Proof. unfold Good. refine (conj _ (conj _ _)); [apply inv_init|apply K_init|apply G_init]. Qed.

Lemma outcome_none w : outcome_of w = None ->
  werr w = false /\ (wmode w = MEval \/ exists i acc k, wmode w = MScan i acc k).
Proof.
  unfold outcome_of. destruct (wmode w); try discriminate; destruct (werr w); try discriminate;
    intros _; split; eauto.
Qed.

Lemma outcome_not_oof w : outcome_of w <> Some OutOfFuel.
Proof. unfold outcome_of. destruct (wmode w); try discriminate; destruct (werr w); discriminate. Qed.

Definition env_inj (inj : list (nat * label)) : Prop := Forall (fun p => is_env (snd p) = true) inj.

Lemma drive_no_oof : forall fuel spares w inj,
  Good w -> env_inj inj ->
  length inj * (Mbound + 2) + mu w + spares < fuel ->
  driveT fuel spares w inj <> OutOfFuel.
Proof.
  induction fuel as [|f IH]; intros spares w inj HGood Henv Hf; [lia|].
  cbn [drive]. destruct (outcome_of w) as [o|] eqn:Eo.
  { intro E. subst o. exact (outcome_not_oof w Eo). }
  destruct (outcome_none w Eo) as [He _].
  assert (Henvstep : forall k e r, inj = (k, e) :: r ->
            driveT f spares (stepT w e) r <> OutOfFuel).
  { intros k e r E. subst inj. inversion Henv as [|p q Hp Hq]; subst. cbn [snd] in Hp.
    apply IH; [apply Good_env; assumption|exact Hq|].
    pose proof (mu_le (stepT w e)). cbn [length] in Hf. lia. }
  destruct inj as [|[[|k] e] r].
  - destruct (nextT spares w) as [l|] eqn:En; [|discriminate].
    destruct (next_progress spares w l HGood He En) as [HG' Hdec]. unfold spend in Hdec.
    apply IH; [exact HG'|constructor|]. cbn [length] in *. lia.
  - eapply Henvstep; reflexivity.
  - destruct (nextT spares w) as [l|] eqn:En; [|eapply Henvstep; reflexivity].
    destruct (next_progress spares w l HGood He En) as [HG' Hdec]. unfold spend in Hdec.
    apply IH; [exact HG'| |].
    + inversion Henv; subst. constructor; assumption.
    + cbn [length] in *. lia.
Qed.

Definition fuel_bound (ninj spares : nat) : nat := S (ninj * (Mbound + 2) + Mbound + spares).

(* the model-level "never blocks forever": with the explicit fuel bound the fair
   scheduler always reaches an outcome (success, error, or waiting for a machine
   that the system never provides), whatever finite list of losses is injected *)
Theorem never_hangs : forall k spares inj fuel,
  env_inj inj -> fuel_bound (length inj) spares <= fuel ->
  driveT fuel spares (init_world k) inj <> OutOfFuel.
Proof.
  intros k spares inj fuel Henv Hf. apply drive_no_oof; [apply Good_init|exact Henv|].
  pose proof (mu_le (init_world k)). unfold fuel_bound in Hf. lia.
Qed.

(* ------------------------------------------------------------------ recovery: the loss budget *)

Definition readable (w : world) (d : nat) : bool :=
  is_ok (wst w d) && match read_loc w d with Some _ => true | None => false end.

(* 1 if the current attempt of t is already doomed (or lost and not yet counted) *)
Definition debt (w : world) (t : nat) : nat :=
  match wst w t with
  | TWaiting => if forallb (readable w) (deps_of g t) then 0 else 1
  | TRunning => match wph w t with PReplied m => if mlost (getm w m) then 1 else 0 | _ => 0 end
  | TOk => match wph w t with PMid m => if mlost (getm w m) then 1 else 0 | _ => 0 end
  | TInit | TLost => if mem t (wpend w) then 1 else 0
  | TErr => 0
  end.

Lemma debt_le1 w t : debt w t <= 1.
Proof.
  unfold debt. destruct (wst w t); try lia.
  - destruct (mem t (wpend w)); lia.
  - destruct (forallb _ _); lia.
  - destruct (wph w t); try lia. destruct (mlost _); lia.
  - destruct (wph w t); try lia. destruct (mlost _); lia.
  - destruct (mem t (wpend w)); lia.
Qed.

(* c = number of machine losses so far *)
Record Rec (w : world) (c : nat) : Prop := mkRec {
  r_alive : forall m, mlost (getm w m) = false -> malive (getm w m) = true;
  r_dead : forall m, mlost (getm w m) = true -> malive (getm w m) = false;
  r_err : werr w = false /\ wmode w <> MFail;
  r_debt : forall t, wcl w t + debt w t <= c;
  r_run : forall t, wst w t = TRunning -> exists m, wph w t = PReplied m;
  r_init : forall t, mem t (wpend w) = true -> wst w t <> TInit;
  r_unc : forall t, wunc w t = true -> mem t (wpend w) = true
}.

Lemma getm_init k m : getm (init_world k) m = if Nat.ltb m k then mkM true false [] [] else dead_mach.
Proof.
  unfold getm. cbn [wms init_world]. destruct (Nat.ltb_spec m k) as [Hl|Hg].
  - rewrite (nth_indep _ _ (mkM true false [] [])) by (rewrite repeat_length; exact Hl).
    apply nth_repeat.
  - apply nth_overflow. rewrite repeat_length. exact Hg.
Qed.

Lemma Rec_init k : Rec (init_world k) 0.
Proof.
  constructor.
  - intros m. rewrite getm_init. destruct (Nat.ltb m k); cbn; auto.
  - intros m. rewrite getm_init. destruct (Nat.ltb m k); cbn; auto.
  - split; [reflexivity|discriminate].
  - intro t. cbn. lia.
  - cbn. discriminate.
  - cbn. discriminate.
  - cbn. discriminate.
Qed.

Lemma Rec_weaken w c c' : c <= c' -> Rec w c -> Rec w c'.
Proof.
  intros Hc [R1 R1' R2 R3 R4 R5 R6]. constructor; auto. intro t. specialize (R3 t). lia.
Qed.

(* own steps other than LStart do not touch liveness or loss flags *)
Lemma own_machines w l :
  match l with LKill _ | LNotice _ | LStart => False | _ => True end ->
  forall m, malive (getm (stepT w l) m) = malive (getm w m) /\
            mlost (getm (stepT w l) m) = mlost (getm w m).
Proof.
  intros Hl m. destruct l; try contradiction; cbn [Control.step].
  - destruct (active w && mem t (runnable g roots w)); [|auto].
    match goal with |- context [if ?c then count_lost _ _ _ else _] => destruct c end;
      unfold count_lost; repeat match goal with |- context [if ?c then _ else _] => destruct c end; auto.
  - destruct (wst w t); auto. destruct (wph w t); auto.
    destruct (Nat.ltb m0 (length (wms w)) && negb (mlost (getm w m0))) eqn:E; auto.
    destruct (if malive (getm w m0) then gather w m0 (deps_of g t) else None); auto.
    change (getm (set_ph ?a ?b)) with (getm (commit w m0 t (compute t l))).
    unfold commit. rewrite getm_upd. apply andb_true_iff in E as [E _]. rewrite E, andb_true_r.
    destruct (Nat.eqb_spec m m0) as [->|]; auto.
  - destruct (wph w t); auto.
  - destruct (wph w t); auto. change (getm (set_ph ?a ?b)) with (getm (assign w m0 t)).
    destruct (assign_frame w m0 t) as (_ & B & _). destruct (B m) as (b1 & _ & b3). auto.
  - destruct (active w && mem t (wpend w) && ge_ok (wst w t)); auto.
    destruct (wst w t); unfold count_lost;
      repeat match goal with |- context [if ?c then _ else _] => destruct c end; auto.
  - destruct (wmode w); auto. match goal with |- context [if ?c then _ else _] => destruct c end; auto.
  - destruct (wmode w); auto. destruct (nth_error roots i) as [r|]; auto.
    match goal with |- context [if ?c && _ && _ then _ else _] => destruct c end; cbn [andb]; auto.
    match goal with |- context [if ?c && _ then _ else _] => destruct c end; cbn [andb]; auto.
    destruct (is_ok (wst w r)); auto.
    destruct (read_loc w r); auto.
Qed.

Lemma readable_ext w w' d :
  (wst w d = TOk -> wst w' d = TOk) -> wloc w' d = wloc w d ->
  (forall m, wloc w d = Some m -> read_at w m d <> None -> read_at w' m d <> None) ->
  readable w d = true -> readable w' d = true.
Proof.
  intros Hs Hl Hr. unfold readable, read_loc. rewrite Hl. intro H.
  apply andb_true_iff in H as [H1 H2].
  assert (E : wst w d = TOk) by (unfold is_ok in H1; destruct (wst w d); try discriminate; reflexivity).
  rewrite (Hs E). cbn [is_ok st_eqb andb].
  destruct (wloc w d) as [m|]; [|discriminate].
  specialize (Hr m eq_refl). destruct (read_at w m d); [|discriminate].
  destruct (read_at w' m d); [reflexivity|]. exfalso. apply Hr; [discriminate|reflexivity].
Qed.

Lemma debt_other w w' x :
  wst w' x = wst w x -> wph w' x = wph w x -> mem x (wpend w') = mem x (wpend w) ->
  (forall m, mlost (getm w' m) = mlost (getm w m)) ->
  (forall d, readable w d = true -> readable w' d = true) ->
  debt w' x <= debt w x.
Proof.
  intros E1 E2 E3 E4 E5. unfold debt. rewrite E1, E2, E3.
  destruct (wst w x); try lia.
  - destruct (forallb (readable w) (deps_of g x)) eqn:F.
    + assert (F' : forallb (readable w') (deps_of g x) = true).
      { rewrite forallb_forall in *. intros d Hd. apply E5. apply F. exact Hd. }
      rewrite F'. lia.
    + destruct (forallb (readable w') (deps_of g x)); lia.
  - destruct (wph w x); try lia. rewrite E4. lia.
  - destruct (wph w x); try lia. rewrite E4. lia.
Qed.

(* a step that keeps machines, locations and OK states keeps readability *)
Lemma readable_same w w' :
  wms w' = wms w -> wloc w' = wloc w -> (forall d, wst w d = TOk -> wst w' d = TOk) ->
  forall d, readable w d = true -> readable w' d = true.
Proof.
  intros Hm Hl Hs d. apply readable_ext; auto.
  - rewrite Hl. reflexivity.
  - intros m _. unfold read_at. rewrite (getm_ms w w') by exact Hm. auto.
Qed.

Lemma Rec_task_step w w' c t :
  Rec w c ->
  (forall m, malive (getm w' m) = malive (getm w m) /\ mlost (getm w' m) = mlost (getm w m)) ->
  werr w' = false -> wmode w' <> MFail ->
  (forall x, x <> t -> wst w' x = wst w x /\ wph w' x = wph w x /\ wcl w' x = wcl w x /\
                       mem x (wpend w') = mem x (wpend w) /\ wunc w' x = wunc w x) ->
  (forall d, readable w d = true -> readable w' d = true) ->
  wcl w' t + debt w' t <= c ->
  (wst w' t = TRunning -> exists m, wph w' t = PReplied m) ->
  (mem t (wpend w') = true -> wst w' t <> TInit) ->
  (wunc w' t = true -> mem t (wpend w') = true) ->
  Rec w' c.
Proof.
  intros [R1 R1' R2 R3 R4 R5 R6] Hm He Hmo Ho Hr Hd Hrun Hinit Hunc.
  constructor.
  - intros m. destruct (Hm m) as [a b]. rewrite a, b. apply R1.
  - intros m. destruct (Hm m) as [a b]. rewrite a, b. apply R1'.
  - auto.
  - intros x. destruct (Nat.eq_dec x t) as [->|Hn]; [exact Hd|].
    destruct (Ho x Hn) as (a & b & c' & d & e). rewrite c'.
    assert (debt w' x <= debt w x); [|specialize (R3 x); lia].
    apply debt_other; auto. intro m. apply Hm.
  - intros x. destruct (Nat.eq_dec x t) as [->|Hn]; [exact Hrun|].
    destruct (Ho x Hn) as (a & b & _). rewrite a, b. apply R4.
  - intros x. destruct (Nat.eq_dec x t) as [->|Hn]; [exact Hinit|].
    destruct (Ho x Hn) as (a & _ & _ & d & _). rewrite a, d. apply R5.
  - intros x. destruct (Nat.eq_dec x t) as [->|Hn]; [exact Hunc|].
    destruct (Ho x Hn) as (_ & _ & _ & d & e). rewrite d, e. apply R6.
Qed.

Lemma readable_inv w d : readable w d = true ->
  wst w d = TOk /\ exists m r, wloc w d = Some m /\ malive (getm w m) = true /\
                               lookup d (mstore (getm w m)) = Some r.
Proof.
  unfold readable, read_loc, read_at. intro H. apply andb_true_iff in H as [H1 H2]. split.
  - unfold is_ok in H1. destruct (wst w d); try discriminate; reflexivity.
  - destruct (wloc w d) as [m|]; [|discriminate]. destruct (malive (getm w m)) eqn:Ea; [|discriminate].
    destruct (lookup d (mstore (getm w m))) as [r|] eqn:El; [|discriminate]. eauto.
Qed.

Lemma readable_intro w d m r : wst w d = TOk -> wloc w d = Some m -> malive (getm w m) = true ->
  lookup d (mstore (getm w m)) = Some r -> readable w d = true.
Proof.
  intros H1 H2 H3 H4. unfold readable, read_loc, read_at. rewrite H1, H2, H3, H4. reflexivity.
Qed.

(* ---- LReply2 ---- *)
Lemma Rec_reply2 w c t m : Good w -> Rec w c -> wph w t = PMid m -> Rec (stepT w (LReply2 t)) c.
Proof.
  intros (HI & HK & HG) HR Eph.
  destruct (reply2_frame w t m Eph) as (F1 & F2 & F3 & F4 & F5 & F6 & F7 & F8 & F9).
  pose proof (k_mid w HK t m Eph) as Hok. pose proof (g_mid w HG t m Eph) as Hp.
  pose proof (i_midloc compute g roots w HI t m Eph) as Hloc.
  pose proof (own_machines w (LReply2 t) I) as Hm.
  assert (Hwloc : wloc (stepT w (LReply2 t)) = wloc w).
  { cbn [Control.step]. rewrite Eph. cbn [wloc set_ph].
    destruct (assign_frame w m t) as (_ & _ & _ & _ & E & _). exact E. }
  assert (Hstore : forall m', mstore (getm (stepT w (LReply2 t)) m') = mstore (getm w m')).
  { intro m'. cbn [Control.step]. rewrite Eph.
    change (getm (set_ph ?a ?b)) with (getm (assign w m t)).
    destruct (assign_frame w m t) as (_ & B & _). apply B. }
  destruct HR as [R1 R1' R2 R3 R4 R5 R6].
  pose proof (R3 t) as Hd. unfold debt in Hd. rewrite Hok, Eph in Hd.
  set (w' := stepT w (LReply2 t)) in *. clearbody w'.
  apply (Rec_task_step w w' c t); auto.
  - constructor; auto.
  - rewrite F5. apply R2.
  - rewrite F1. apply R2.
  - intros x Hx. rewrite F8, F7, F2, F4, F3 by exact Hx. rewrite upd_other by exact Hx. auto.
  - intros d Hd'. destruct (readable_inv w d Hd') as (A1 & m' & r & A2 & A3 & A4).
    apply (readable_intro w' d m' r).
    + destruct (Nat.eq_dec d t) as [->|Hn]; [|rewrite F8; auto].
      rewrite F9. rewrite Hloc in A2. inversion A2; subst m'.
      destruct (mlost (getm w m)) eqn:El; [|exact A1].
      rewrite (R1' m El) in A3. discriminate.
    + rewrite Hwloc. exact A2.
    + destruct (Hm m') as [a _]. rewrite a. exact A3.
    + rewrite Hstore. exact A4.
  - rewrite F2. unfold debt. rewrite F9, F7, F4, upd_same.
    destruct (mlost (getm w m)); [rewrite Hp; lia|rewrite Hok; lia].
  - rewrite F9, Hok. destruct (mlost (getm w m)); discriminate.
  - rewrite F9, Hok. destruct (mlost (getm w m)); discriminate.
  - rewrite F3, F4. apply R6.
Qed.

(* ---- LReply1 ---- *)
Lemma Rec_reply1 w c t m : Good w -> Rec w c -> wph w t = PReplied m -> Rec (stepT w (LReply1 t)) c.
Proof.
  intros (HI & HK & HG) HR Eph.
  destruct (reply1_frame w t m Eph) as (F1 & F2 & F3 & F4 & F5 & F6 & F7 & F8 & F9).
  pose proof (k_rep w HK t m Eph) as Hrun.
  destruct HR as [R1 R1' R2 R3 R4 R5 R6].
  pose proof (R3 t) as Hd. unfold debt in Hd. rewrite Hrun, Eph in Hd.
  set (w' := stepT w (LReply1 t)) in *. clearbody w'.
  apply (Rec_task_step w w' c t); auto.
  - constructor; auto.
  - intro m'. rewrite (getm_ms w w') by exact F6. auto.
  - rewrite F5. apply R2.
  - rewrite F1. apply R2.
  - intros x Hx. rewrite F8, F7, F2, F4, F3. rewrite !upd_other by exact Hx. auto.
  - intros d Hd'. destruct (readable_inv w d Hd') as (A1 & m' & r & A2 & A3 & A4).
    assert (Hn : d <> t) by (intro E; subst d; congruence).
    apply (readable_intro w' d m' r).
    + rewrite F8, upd_other by exact Hn. exact A1.
    + rewrite F9, upd_other by exact Hn. exact A2.
    + rewrite (getm_ms w w') by exact F6. exact A3.
    + rewrite (getm_ms w w') by exact F6. exact A4.
  - rewrite F2. unfold debt. rewrite F8, F7, !upd_same. rewrite (getm_ms w w') by exact F6. exact Hd.
  - rewrite F8, upd_same. discriminate.
  - rewrite F8, upd_same. discriminate.
  - rewrite F3, F4. apply R6.
Qed.

(* ---- LRun ---- *)
Lemma gather_ok w m ds : (forall d, In d ds -> read_loc w d <> None) -> gather w m ds <> None.
Proof.
  induction ds as [|d ds IH]; intro H; cbn [gather]; [discriminate|].
  assert (Hd : read_dep w m d <> None).
  { unfold read_dep. destruct (read_at w m d); [discriminate|]. apply H. left. reflexivity. }
  destruct (read_dep w m d); [|contradiction].
  destruct (gather w m ds) eqn:E; [discriminate|]. exfalso. apply IH; [|reflexivity].
  intros d' Hd'. apply H. right. exact Hd'.
Qed.

Lemma Rec_run w c t m : Good w -> Rec w c -> wst w t = TWaiting -> wph w t = PNone ->
  m < length (wms w) -> mlost (getm w m) = false -> Rec (stepT w (LRun t m)) c.
Proof.
  intros (HI & HK & HG) HR Est Eph Hm Hl.
  destruct (run_frame w t m Est Eph Hm Hl) as (F1 & F2 & F3 & F4 & F5 & F6 & F7 & F8).
  pose proof (own_machines w (LRun t m) I) as Hmach.
  destruct (g_wait w HG t Est) as [Hp _].
  pose proof HR as [R1 R1' R2 R3 R4 R5 R6].
  pose proof (R3 t) as Hd. unfold debt in Hd. rewrite Est in Hd.
  (* readability is kept: the store of m only grows *)
  assert (Hread : forall d, readable w d = true -> readable (stepT w (LRun t m)) d = true).
  { intros d Hd'. destruct (readable_inv w d Hd') as (A1 & m' & r & A2 & A3 & A4).
    assert (Hn : d <> t) by (intro E; subst d; congruence).
    cbn [Control.step]. rewrite Est, Eph. apply Nat.ltb_lt in Hm. rewrite Hm, Hl. cbn [negb andb].
    destruct (if malive (getm w m) then gather w m (deps_of g t) else None) as [ins|].
    - assert (Hlk : exists r', lookup d (mstore (getm (commit w m t (compute t ins)) m')) = Some r').
      { unfold commit. rewrite getm_upd, Hm, andb_true_r.
        destruct (Nat.eqb_spec m' m) as [->|]; [|eauto].
        cbn [mstore]. rewrite lookup_cons. apply Nat.neq_sym in Hn. apply Nat.eqb_neq in Hn.
        rewrite Hn. eauto. }
      destruct Hlk as [r' Hlk].
      apply (readable_intro _ d m' r'); cbn [wst wloc set_ph set_st].
      + change (wst (commit w m t (compute t ins))) with (wst w). rewrite upd_other by exact Hn. exact A1.
      + exact A2.
      + change (getm (set_ph ?a ?b)) with (getm (commit w m t (compute t ins))).
        unfold commit. rewrite getm_upd, Hm, andb_true_r.
        destruct (Nat.eqb_spec m' m) as [->|]; [cbn [malive]|]; exact A3.
      + exact Hlk.
    - apply (readable_intro _ d m' r); cbn [wst wloc set_st]; auto.
      rewrite upd_other by exact Hn. exact A1. }
  (* if every dependency was readable the attempt succeeds *)
  assert (Hsucc : forallb (readable w) (deps_of g t) = true ->
                  wst (stepT w (LRun t m)) t = TRunning).
  { intro Hall. cbn [Control.step]. rewrite Est, Eph.
    pose proof Hm as Hm'. apply Nat.ltb_lt in Hm'. rewrite Hm', Hl. cbn [negb andb].
    rewrite (R1 m Hl).
    assert (Hg : gather w m (deps_of g t) <> None).
    { apply gather_ok. intros d Hd'. rewrite forallb_forall in Hall. specialize (Hall d Hd').
      unfold readable in Hall. apply andb_true_iff in Hall as [_ Hall].
      destruct (read_loc w d); [discriminate|discriminate]. }
    destruct (gather w m (deps_of g t)); [|contradiction].
    cbn [wst set_ph set_st]. apply upd_same. }
  set (w' := stepT w (LRun t m)) in *. clearbody w'.
  apply (Rec_task_step w w' c t); auto.
  - rewrite F5. apply R2.
  - rewrite F1. apply R2.
  - intros x Hx. rewrite F2, F4, F3. destruct F8 as [[F8 F9]|[F8 F9]]; rewrite F8, F9;
      rewrite ?upd_other by exact Hx; auto.
  - rewrite F2. unfold debt. destruct F8 as [[F8 F9]|[F8 F9]]; rewrite F8, upd_same.
    + rewrite F9, upd_same. destruct (Hmach m) as [_ b]. rewrite b, Hl. destruct (forallb _ _); lia.
    + rewrite F4, Hp. destruct (forallb (readable w) (deps_of g t)) eqn:Fall; [|exact Hd].
      specialize (Hsucc eq_refl). rewrite F8, upd_same in Hsucc. discriminate.
  - intros Hr. destruct F8 as [[F8 F9]|[F8 F9]].
    + rewrite F9, upd_same. eauto.
    + rewrite F8, upd_same in Hr. discriminate.
  - destruct F8 as [[F8 F9]|[F8 F9]]; rewrite F8, upd_same; discriminate.
  - rewrite F3, F4. apply R6.
Qed.

(* ---- LReturn ---- *)
Lemma Rec_return w c t : Good w -> Rec w c -> c < max_lost ->
  active w = true -> mem t (wpend w) = true -> ge_ok (wst w t) = true -> wph w t = PNone ->
  Rec (stepT w (LReturn t)) c.
Proof.
  intros (HI & HK & HG) HR Hc Ha Hp Hge Eph.
  pose proof HR as [R1 R1' R2 R3 R4 R5 R6]. destruct R2 as [He Hmo].
  destruct (return_frame w t HG He Ha Hp Hge) as (F1 & F2 & F3 & F4 & F5 & F6 & F7).
  pose proof (R3 t) as Hd. unfold debt in Hd. rewrite Hp in Hd.
  assert (F7' : (wst w t = TOk /\ wst (stepT w (LReturn t)) t = TOk /\ wcl (stepT w (LReturn t)) t = 0 /\
                 wunc (stepT w (LReturn t)) t = false /\ werr (stepT w (LReturn t)) = false) \/
                (wst w t = TLost /\ wst (stepT w (LReturn t)) t = TLost /\
                 wcl (stepT w (LReturn t)) t = S (wcl w t) /\ S (wcl w t) <= c /\
                 wunc (stepT w (LReturn t)) t = false /\ werr (stepT w (LReturn t)) = false)).
  { destruct F7 as [H|[(a & b & c' & d & e & f)|(a & b & _)]]; [left; exact H| |].
    - right. rewrite a in Hd. repeat split; auto. lia.
    - exfalso. rewrite a in Hd. lia. }
  clear F7.
  set (w' := stepT w (LReturn t)) in *. clearbody w'.
  apply (Rec_task_step w w' c t); auto.
  - intro m'. rewrite (getm_ms w w') by exact F2. auto.
  - destruct F7' as [(_ & _ & _ & _ & e)|(_ & _ & _ & _ & _ & e)]; exact e.
  - rewrite F1. exact Hmo.
  - intros x Hx. destruct (F6 x Hx) as (a & b & c'). rewrite a, b, c', F3, F5.
    rewrite mem_rm_other by exact Hx. auto.
  - apply readable_same; auto. intros d Hd'. destruct (Nat.eq_dec d t) as [->|Hn].
    + destruct F7' as [(_ & b & _)|(a & _)]; [exact b|congruence].
    + destruct (F6 d Hn) as (a & _). rewrite a. exact Hd'.
  - unfold debt. rewrite F3, F5, mem_rm_same, Eph.
    destruct F7' as [(a & b & c' & _)|(a & b & c' & d & _)]; rewrite b, c'; lia.
  - destruct F7' as [(_ & b & _)|(_ & b & _)]; rewrite b; discriminate.
  - rewrite F5, mem_rm_same. discriminate.
  - destruct F7' as [(_ & _ & _ & d & _)|(_ & _ & _ & _ & d & _)]; rewrite d; discriminate.
Qed.

(* ---- LDispatch ---- *)
Lemma enq_ready w : forall f x t, In t (enq g f w x) ->
  forallb (fun d => is_ok (wst w d)) (deps_of g t) = true.
Proof.
  induction f as [|f IH]; intros x t H; cbn [enq] in H; [destruct H|].
  destruct (mem x (wpend w)); [destruct H|].
  destruct (wst w x); try (destruct H; fail).
  - destruct (forallb _ (deps_of g x)) eqn:E.
    + destruct H as [<-|[]]. exact E.
    + apply in_flat_map in H as [d [_ Hd]]. eapply IH; eauto.
  - destruct (forallb _ (deps_of g x)) eqn:E.
    + destruct H as [<-|[]]. exact E.
    + apply in_flat_map in H as [d [_ Hd]]. eapply IH; eauto.
Qed.

Lemma dispatch_eq w t : active w = true -> mem t (runnable g roots w) = true -> wunc w t = false ->
  stepT w (LDispatch t) =
  set_pend (set_unc (set_st w (upd (wst w) t TWaiting)) (upd (wunc w) t true)) (t :: wpend w).
Proof.
  intros Ha Hr Hu. cbn [Control.step]. rewrite Ha, Hr. cbn [andb].
  destruct (runnable_sound g roots w t Hr) as [Hs _].
  unfold count_lost. rewrite Hu.
  assert (E : (if st_eqb (wst w t) TLost then w else w) = w) by (destruct (st_eqb _ _); reflexivity).
  rewrite E. destruct (st_eqb (wst w t) TErr) eqn:E2; [|reflexivity].
  destruct Hs as [Es|Es]; rewrite Es in E2; discriminate.
Qed.

(* an OK task that Run has finished with is readable *)
Lemma settled_readable w c d : Good w -> Rec w c -> wst w d = TOk -> wph w d = PNone ->
  readable w d = true.
Proof.
  intros (HI & HK & HG) HR Hok Eph.
  destruct (i_okloc compute g roots w HI d Hok) as [m Hl].
  destruct (k_settled w HK d m Hok Eph Hl) as [Hnl _].
  pose proof (r_alive w c HR m Hnl) as Ha.
  apply (readable_intro w d m (value compute g d)); auto.
  apply (i_has compute g roots w HI); auto.
Qed.

Lemma Rec_dispatch w c t : Good w -> Rec w c ->
  (forall x, x < n -> wph w x = PNone) ->
  active w = true -> mem t (runnable g roots w) = true -> Rec (stepT w (LDispatch t)) c.
Proof.
  intros HGood HR Hnone Ha Hr.
  destruct (runnable_sound g roots w t Hr) as [Hs Hnp].
  assert (Ht : t < n) by (apply runnable_lt with w; apply mem_In; exact Hr).
  pose proof HR as [R1 R1' R2 R3 R4 R5 R6].
  assert (Hu : wunc w t = false).
  { destruct (wunc w t) eqn:E; [|reflexivity]. rewrite (R6 t E) in Hnp. discriminate. }
  rewrite (dispatch_eq w t Ha Hr Hu).
  assert (Hdeps : forallb (readable w) (deps_of g t) = true).
  { apply mem_In in Hr. unfold runnable in Hr. apply in_flat_map in Hr as [x [_ Hx]].
    pose proof (enq_ready w _ x t Hx) as Hok. rewrite forallb_forall in *.
    intros d Hd. specialize (Hok d Hd). unfold is_ok in Hok.
    apply (settled_readable w c); auto.
    - destruct (wst w d); try discriminate; reflexivity.
    - apply Hnone. pose proof (deps_lt g roots Hwf t d Hd). lia. }
  match goal with |- Rec ?W c => set (w' := W) end.
  assert (Hread : forall d, readable w d = true -> readable w' d = true).
  { apply readable_same; try reflexivity. intros d Hd. unfold w'. cbn [wst set_pend set_unc set_st].
    unfold upd. destruct (Nat.eqb_spec d t) as [->|]; [|exact Hd].
    destruct Hs as [E|E]; congruence. }
  apply (Rec_task_step w w' c t); auto.
  - apply R2.
  - apply R2.
  - intros x Hx. unfold w'. cbn [wst wph wcl wpend wunc set_pend set_unc set_st].
    rewrite !upd_other by exact Hx. rewrite mem_cons_other by exact Hx. auto.
  - unfold debt. unfold w' at 1 2. cbn [wst wcl set_pend set_unc set_st]. rewrite upd_same.
    assert (F : forallb (readable w') (deps_of g t) = true).
    { rewrite forallb_forall in *. intros d Hd. apply Hread. apply Hdeps. exact Hd. }
    rewrite F. specialize (R3 t). lia.
  - unfold w'. cbn [wst set_pend set_unc set_st]. rewrite upd_same. discriminate.
  - unfold w'. cbn [wst set_pend set_unc set_st]. rewrite upd_same. discriminate.
  - intros _. unfold w'. cbn [wpend set_pend]. apply mem_cons_same.
Qed.

(* ---- mode steps ---- *)
Lemma Rec_mode w c x : Rec w c -> x <> MFail -> Rec (set_mode w x) c.
Proof.
  intros [R1 R1' R2 R3 R4 R5 R6] Hx. constructor; auto. split; [apply R2|exact Hx].
Qed.

Lemma scan_start_nofail i acc : scan_start roots i acc <> MFail.
Proof. unfold scan_start. destruct (nth_error roots i); discriminate. Qed.

Lemma Rec_finish w c : Rec w c -> finish_ok roots w = true -> Rec (stepT w LFinish) c.
Proof.
  intros HR H. destruct (finish_eq w H) as [E _]. rewrite E. apply Rec_mode; [exact HR|apply scan_start_nofail].
Qed.

Lemma Rec_scan w c : Good w -> Rec w c -> (forall x, x < n -> wph w x = PNone) ->
  scan_ok roots w = true -> Rec (stepT w LScan) c.
Proof.
  intros HGood HR Hnone H. destruct (scan_eq w H) as (i & acc & k & r & Em & Er & Hok & _ & E). rewrite E.
  apply Rec_mode; [exact HR|].
  assert (Hr : r < n) by (apply roots_lt; eapply nth_error_In; eauto).
  pose proof (settled_readable w c r HGood HR Hok (Hnone r Hr)) as Hrd.
  unfold readable in Hrd. apply andb_true_iff in Hrd as [_ Hrd].
  destruct (read_loc w r); [apply scan_start_nofail|discriminate].
Qed.

(* ---- LStart ---- *)
Lemma getm_start w m : m < length (wms w) -> getm (stepT w LStart) m = getm w m.
Proof. intro H. cbn [Control.step]. unfold getm at 1. cbn [wms set_ms]. apply getm_app. exact H. Qed.

Lemma getm_start_new w : getm (stepT w LStart) (length (wms w)) = mkM true false [] [].
Proof. cbn [Control.step]. unfold getm. cbn [wms set_ms]. apply nth_middle. Qed.

Lemma getm_start_out w m : length (wms w) < m -> getm (stepT w LStart) m = dead_mach.
Proof.
  intro H. cbn [Control.step]. unfold getm. cbn [wms set_ms]. apply nth_overflow.
  rewrite app_length. cbn. lia.
Qed.

Lemma Rec_start w c : Good w -> Rec w c -> Rec (stepT w LStart) c.
Proof.
  intros (HI & HK & HG) [R1 R1' R2 R3 R4 R5 R6].
  assert (Hread : forall d, readable w d = true -> readable (stepT w LStart) d = true).
  { intros d Hd. destruct (readable_inv w d Hd) as (A1 & m' & r & A2 & A3 & A4).
    pose proof (i_locb compute g roots w HI d m' A2) as Hlt.
    apply (readable_intro _ d m' r); auto; rewrite getm_start by exact Hlt; assumption. }
  constructor; auto.
  - intro m. destruct (Nat.lt_trichotomy m (length (wms w))) as [Hl|[->|Hg]].
    + rewrite getm_start by exact Hl. apply R1.
    + rewrite getm_start_new. reflexivity.
    + rewrite getm_start_out by exact Hg. discriminate.
  - intro m. destruct (Nat.lt_trichotomy m (length (wms w))) as [Hl|[->|Hg]].
    + rewrite getm_start by exact Hl. apply R1'.
    + rewrite getm_start_new. discriminate.
    + rewrite getm_start_out by exact Hg. reflexivity.
  - intro t. change (wcl (stepT w LStart) t) with (wcl w t).
    assert (debt (stepT w LStart) t <= debt w t); [|specialize (R3 t); lia].
    pose proof (getm_start w) as Hg.
    set (w' := stepT w LStart) in *.
    assert (E1 : wst w' = wst w) by reflexivity.
    assert (E2 : wph w' = wph w) by reflexivity.
    assert (E3 : wpend w' = wpend w) by reflexivity.
    clearbody w'. unfold debt. rewrite E1, E2, E3.
    destruct (wst w t); try lia.
    + destruct (forallb (readable w) (deps_of g t)) eqn:F.
      * assert (F' : forallb (readable w') (deps_of g t) = true).
        { rewrite forallb_forall in *. intros d Hd. apply Hread. apply F. exact Hd. }
        rewrite F'. lia.
      * destruct (forallb (readable w') (deps_of g t)); auto with arith.
    + destruct (wph w t) as [|m|m] eqn:Eph; try lia.
      rewrite Hg by (apply (i_phb compute g roots w HI t m); auto). lia.
    + destruct (wph w t) as [|m|m] eqn:Eph; try lia.
      rewrite Hg by (apply (i_phb compute g roots w HI t m); auto). lia.
Qed.

(* ---- a machine loss: kill, noticed at once ---- *)
Definition crash (w : world) (m : nat) : world := stepT (stepT w (LKill m)) (LNotice m).

Lemma crash_out w m : length (wms w) <= m -> crash w m = w.
Proof.
  intro H. unfold crash. cbn [Control.step].
  apply Nat.ltb_ge in H. rewrite H. rewrite H. reflexivity.
Qed.

Lemma crash_in w m : m < length (wms w) ->
  let w' := crash w m in
  (forall m', getm w' m' = if Nat.eqb m' m then mkM false true [] [] else getm w m') /\
  length (wms w') = length (wms w) /\
  (forall t, wst w' t = if mem t (mtasks (getm w m)) then TLost else wst w t) /\
  wph w' = wph w /\ wcl w' = wcl w /\ wunc w' = wunc w /\ wloc w' = wloc w /\
  wpend w' = wpend w /\ werr w' = werr w /\ wmode w' = wmode w.
Proof.
  intro Hm. unfold crash. cbn [Control.step]. apply Nat.ltb_lt in Hm.
  rewrite Hm. set (x := mkM false (mlost (getm w m)) (mtasks (getm w m)) []).
  assert (Hlen : length (wms (upd_mach w m x)) = length (wms w)) by (cbn; apply length_set_nth).
  rewrite Hlen, Hm.
  assert (Hx : getm (upd_mach w m x) m = x) by (apply getm_upd_same; apply Nat.ltb_lt; exact Hm).
  rewrite Hx. cbn [malive mlost mtasks mstore x].
  repeat split; auto.
  - intro m'. change (getm (set_st ?a ?b)) with (getm a). rewrite getm_upd.
    rewrite Hlen, Hm, andb_true_r.
    destruct (Nat.eqb_spec m' m) as [->|Hn]; [reflexivity|].
    rewrite getm_upd. apply Nat.eqb_neq in Hn. rewrite Hn. reflexivity.
  - cbn. rewrite !length_set_nth. reflexivity.
  - intro t. cbn [wst set_st]. rewrite mark_lost_spec. reflexivity.
Qed.

Lemma Rec_crash w c m : Rec w c -> Rec (crash w m) (S c).
Proof.
  intro HR. destruct (Nat.lt_ge_cases m (length (wms w))) as [Hm|Hm].
  2:{ rewrite crash_out by exact Hm. apply (Rec_weaken w c); [lia|exact HR]. }
  destruct (crash_in w m Hm) as (Cg & Clen & Cst & Cph & Ccl & Cunc & Cloc & Cpend & Cerr & Cmode).
  destruct HR as [R1 R1' R2 R3 R4 R5 R6].
  set (w' := crash w m) in *. clearbody w'.
  constructor.
  - intro m'. rewrite Cg. destruct (Nat.eqb m' m); [discriminate|apply R1].
  - intro m'. rewrite Cg. destruct (Nat.eqb m' m); [reflexivity|apply R1'].
  - rewrite Cerr, Cmode. exact R2.
  - intro t. rewrite Ccl. pose proof (debt_le1 w' t). pose proof (R3 t). lia.
  - intro t. rewrite Cst, Cph. destruct (mem t _); [discriminate|apply R4].
  - intro t. rewrite Cst, Cpend. intro H. destruct (mem t (mtasks _)); [discriminate|apply R5; exact H].
  - rewrite Cunc, Cpend. exact R6.
Qed.

Lemma Good_crash w m : Good w -> Good (crash w m).
Proof. intro H. unfold crash. apply Good_env; [reflexivity|]. apply Good_env; [reflexivity|exact H]. Qed.

(* ---- every own step keeps the loss budget ---- *)
Lemma all_none w :
  G w ->
  find_task g (fun t => is_mid (wph w t)) = None ->
  find_task g (fun t => is_replied (wph w t)) = None -> forall x, wph w x = PNone.
Proof.
  intros HG H1 H2 x. destruct (wph w x) eqn:E; [reflexivity| |].
  - assert (Hx : x < n) by (apply (g_phlt w HG); congruence).
    rewrite (phase_none w x H1 H2 Hx) in E. discriminate.
  - assert (Hx : x < n) by (apply (g_phlt w HG); congruence).
    rewrite (phase_none w x H1 H2 Hx) in E. discriminate.
Qed.

Lemma Rec_own spares w c l :
  Good w -> Rec w c -> c < max_lost -> nextT spares w = Some l -> Rec (stepT w l) c.
Proof.
  intros HGood HR Hc Hn. pose proof HGood as (HI & HK & HG).
  unfold next in Hn.
  destruct (find_task g (fun t => is_mid (wph w t))) as [t|] eqn:Fm.
  { inversion Hn; subst l. apply find_task_some in Fm as [Ht Hp].
    destruct (wph w t) as [| |m] eqn:Eph; try discriminate. eapply Rec_reply2; eauto. }
  destruct (find_task g (fun t => is_replied (wph w t))) as [t|] eqn:Fr.
  { inversion Hn; subst l. apply find_task_some in Fr as [Ht Hp].
    destruct (wph w t) as [|m|] eqn:Eph; try discriminate. eapply Rec_reply1; eauto. }
  pose proof (all_none w HG Fm Fr) as Hnone.
  assert (Hrest :
    match (if active w then find (fun t => ge_ok (wst w t)) (wpend w) else None) with
    | Some t => Some (LReturn t)
    | None => match (if active w then runnable g roots w else []) with
              | t :: _ => Some (LDispatch t)
              | [] => if finish_ok roots w then Some LFinish
                      else if scan_ok roots w then Some LScan else None
              end
    end = Some l -> Rec (stepT w l) c).
  { clear Hn. intro Hn.
    destruct (if active w then find (fun t => ge_ok (wst w t)) (wpend w) else None) as [t|] eqn:Fret.
    { inversion Hn; subst l. destruct (active w) eqn:Ha; [|discriminate].
      apply find_some in Fret as [Hin Hge]. apply mem_In in Hin.
      apply Rec_return; auto. }
    destruct (if active w then runnable g roots w else []) as [|t rest] eqn:Frun.
    2:{ inversion Hn; subst l. destruct (active w) eqn:Ha; [|discriminate].
        assert (Hr : mem t (runnable g roots w) = true) by (apply mem_In; rewrite Frun; left; reflexivity).
        apply Rec_dispatch; auto. }
    destruct (finish_ok roots w) eqn:Ff.
    { inversion Hn; subst l. apply Rec_finish; auto. }
    destruct (scan_ok roots w) eqn:Fs; [|discriminate].
    inversion Hn; subst l. apply Rec_scan; auto. }
  destruct (find_task g (fun t => st_eqb (wst w t) TWaiting && is_none (wph w t))) as [t|] eqn:Fw;
    [|apply Hrest; exact Hn].
  apply find_task_some in Fw as [Ht Hp]. apply andb_true_iff in Hp as [Hp1 Hp2].
  assert (Est : wst w t = TWaiting) by (destruct (wst w t); try discriminate; reflexivity).
  destruct (pick_machine w) as [m|] eqn:Fp.
  { inversion Hn; subst l. apply pick_machine_some in Fp as [Hm Hl]. apply Rec_run; auto. }
  destruct spares as [|sp]; [apply Hrest; exact Hn|].
  inversion Hn; subst l. apply Rec_start; auto.
Qed.

(* ---- a machine is available, or can still be started ---- *)
Definition has_machine (w : world) : nat := match pick_machine w with Some _ => 1 | None => 0 end.

Lemma find_ext' {X} (p q : X -> bool) l : (forall x, p x = q x) -> find p l = find q l.
Proof. intro H. induction l as [|x l IH]; cbn [find]; [reflexivity|]. rewrite H, IH. reflexivity. Qed.

Lemma pick_ext w w' : length (wms w') = length (wms w) ->
  (forall m, mlost (getm w' m) = mlost (getm w m)) -> pick_machine w' = pick_machine w.
Proof.
  intros Hl Hm. unfold pick_machine. rewrite Hl. apply find_ext'. intro m. rewrite Hm. reflexivity.
Qed.

Lemma own_length w l :
  match l with LKill _ | LNotice _ | LStart => False | _ => True end ->
  length (wms (stepT w l)) = length (wms w).
Proof.
  intros Hl. destruct l; try contradiction; cbn [Control.step].
  - destruct (active w && mem t (runnable g roots w)); [|auto].
    match goal with |- context [if ?c then count_lost _ _ _ else _] => destruct c end;
      unfold count_lost; repeat match goal with |- context [if ?c then _ else _] => destruct c end; auto.
  - destruct (wst w t); auto. destruct (wph w t); auto.
    destruct (Nat.ltb m (length (wms w)) && negb (mlost (getm w m))); auto.
    destruct (if malive (getm w m) then gather w m (deps_of g t) else None); auto.
    cbn. apply length_set_nth.
  - destruct (wph w t); auto.
  - destruct (wph w t); auto. cbn [wms set_ph].
    destruct (assign_frame w m t) as (A & _). exact A.
  - destruct (active w && mem t (wpend w) && ge_ok (wst w t)); auto.
    destruct (wst w t); unfold count_lost;
      repeat match goal with |- context [if ?c then _ else _] => destruct c end; auto.
  - destruct (wmode w); auto. match goal with |- context [if ?c then _ else _] => destruct c end; auto.
  - destruct (wmode w); auto. destruct (nth_error roots i) as [r|]; auto.
    match goal with |- context [if ?c && _ && _ then _ else _] => destruct c end; cbn [andb]; auto.
    match goal with |- context [if ?c && _ then _ else _] => destruct c end; cbn [andb]; auto.
    destruct (is_ok (wst w r)); auto.
    destruct (read_loc w r); auto.
Qed.

Lemma next_kind spares w l : nextT spares w = Some l ->
  (l = LStart /\ pick_machine w = None /\ exists sp, spares = S sp) \/
  match l with LKill _ | LNotice _ | LStart => False | _ => True end.
Proof.
  unfold next. intro H.
  repeat match type of H with
  | match ?c with _ => _ end = _ => destruct c eqn:?
  | (if ?c then _ else _) = _ => destruct c eqn:?
  end; inversion H; subst; try (right; exact I); try discriminate.
  left. repeat split; eauto.
Qed.

Lemma has_start w : has_machine (stepT w LStart) = 1.
Proof.
  pose proof (getm_start_new w) as Hnew.
  assert (Hlen : length (wms (stepT w LStart)) = S (length (wms w))).
  { cbn. rewrite app_length. cbn. lia. }
  set (w' := stepT w LStart) in *. clearbody w'.
  unfold has_machine, pick_machine. destruct (find _ _) eqn:E; [reflexivity|].
  exfalso. pose proof (find_none _ _ E (length (wms w))) as H. cbn beta in H.
  rewrite Hnew in H. cbn in H. assert (false = true); [|discriminate].
  symmetry. apply H. apply in_seq. lia.
Qed.

Lemma has_own spares w l : nextT spares w = Some l ->
  has_machine (stepT w l) + spend l spares = has_machine w + spares.
Proof.
  intro Hn. destruct (next_kind spares w l Hn) as [(-> & Hp & sp & ->)|Hk].
  - rewrite has_start. unfold has_machine. rewrite Hp. unfold spend. cbn. lia.
  - assert (E : pick_machine (stepT w l) = pick_machine w).
    { apply pick_ext; [apply own_length; exact Hk|]. intro m. apply (own_machines w l Hk). }
    unfold has_machine. rewrite E. unfold spend. destruct l; try contradiction; reflexivity.
Qed.

(* ---- the driver is never stuck while a machine is available or can be started ---- *)
Lemma flat_map_nil {X Y} (f : X -> list Y) l : flat_map f l = [] -> forall x, In x l -> f x = [].
Proof.
  induction l as [|y l IH]; intros H x Hx; [destruct Hx|]. cbn [flat_map] in H.
  apply app_eq_nil in H as [H1 H2]. destruct Hx as [<-|Hx]; auto.
Qed.

Lemma enq_nil w : wpend w = [] ->
  (forall t, wst w t = TInit \/ wst w t = TLost \/ wst w t = TOk) ->
  forall f x, x < f -> enq g f w x = [] -> wst w x = TOk.
Proof.
  intros Hp Hs. induction f as [|f IH]; intros x Hx H; [lia|]. cbn [enq] in H.
  rewrite Hp in H. cbn [mem existsb] in H.
  assert (Hdeps : flat_map (enq g f w) (deps_of g x) = [] ->
                  forallb (fun d => is_ok (wst w d)) (deps_of g x) = true).
  { intro Hf. apply forallb_forall. intros d Hd.
    pose proof (deps_lt g roots Hwf x d Hd) as Hlt.
    rewrite (IH d); [reflexivity|lia|]. apply (flat_map_nil _ _ Hf d Hd). }
  destruct (Hs x) as [E|[E|E]]; [| |exact E]; rewrite E in H.
  - destruct (forallb (fun d => is_ok (wst w d)) (deps_of g x)) eqn:F; [discriminate H|].
    discriminate (Hdeps H).
  - destruct (forallb (fun d => is_ok (wst w d)) (deps_of g x)) eqn:F; [discriminate H|].
    discriminate (Hdeps H).
Qed.

Lemma no_stall spares w c :
  Good w -> Rec w c -> outcome_of w = None -> 0 < has_machine w + spares ->
  nextT spares w <> None.
Proof.
  intros (HI & HK & HG) HR Ho Hpos Hn.
  destruct (outcome_none w Ho) as [He Hmode].
  assert (Ha : active w = true).
  { unfold active. rewrite He. destruct Hmode as [->|(i & acc & k & ->)]; reflexivity. }
  unfold next in Hn.
  destruct (find_task g (fun t => is_mid (wph w t))) eqn:Fm; [discriminate|].
  destruct (find_task g (fun t => is_replied (wph w t))) eqn:Fr; [discriminate|].
  pose proof (all_none w HG Fm Fr) as Hnone.
  assert (Hnw : forall t, wst w t <> TWaiting).
  { intros t Et. destruct (g_wait w HG t Et) as [Hp _].
    pose proof (g_lt w HG t Hp) as Ht.
    destruct (find_task g (fun t => st_eqb (wst w t) TWaiting && is_none (wph w t))) eqn:Fw.
    - unfold has_machine in Hpos. destruct (pick_machine w); [discriminate|].
      destruct spares; [lia|discriminate].
    - pose proof (find_task_none _ Fw t Ht) as Hf. cbn beta in Hf.
      rewrite Et, (Hnone t) in Hf. discriminate. }
  assert (Hrest :
    match (if active w then find (fun t => ge_ok (wst w t)) (wpend w) else None) with
    | Some t => Some (LReturn t)
    | None => match (if active w then runnable g roots w else []) with
              | t :: _ => Some (LDispatch t)
              | [] => if finish_ok roots w then Some LFinish
                      else if scan_ok roots w then Some LScan else None
              end
    end = None).
  { destruct (find_task g (fun t => st_eqb (wst w t) TWaiting && is_none (wph w t))); [|exact Hn].
    destruct (pick_machine w); [discriminate|]. destruct spares; [exact Hn|discriminate]. }
  clear Hn. rewrite Ha in Hrest.
  destruct (find (fun t => ge_ok (wst w t)) (wpend w)) eqn:Fret; [discriminate|].
  assert (Hst : forall t, wst w t = TInit \/ wst w t = TLost \/ wst w t = TOk).
  { intro t. destruct (wst w t) eqn:E; auto.
    - exfalso. exact (Hnw t E).
    - exfalso. destruct (r_run w c HR t E) as [m Hm]. rewrite (Hnone t) in Hm. discriminate.
    - exfalso. destruct (g_cl w HG He t) as [Hne _]. contradiction. }
  assert (Hpend : wpend w = []).
  { destruct (wpend w) as [|t l] eqn:Ep; [reflexivity|]. exfalso.
    assert (Hin : In t (wpend w)) by (rewrite Ep; left; reflexivity).
    rewrite <- Ep in Fret. pose proof (find_none _ _ Fret t Hin) as Hge. cbn beta in Hge.
    apply mem_In in Hin. pose proof (r_init w c HR t Hin) as Hni.
    destruct (Hst t) as [E|[E|E]]; rewrite E in *; try discriminate. contradiction. }
  destruct (runnable g roots w) eqn:Frun; [|discriminate].
  assert (Htargets : forall r, In r (targets roots w) -> wst w r = TOk).
  { intros r Hr. apply (enq_nil w Hpend Hst (S n) r).
    - pose proof (targets_lt w r Hr). lia.
    - unfold runnable in Frun. apply (flat_map_nil _ _ Frun r Hr). }
  destruct Hmode as [Em|(i & acc & k & Em)].
  - assert (Hf : finish_ok roots w = true).
    { unfold finish_ok. rewrite Em, Ha. unfold nopend. rewrite Hpend. cbn [andb].
      apply forallb_forall. intros r Hr. rewrite (Htargets r); [reflexivity|].
      unfold targets. rewrite Em. exact Hr. }
    rewrite Hf in Hrest. discriminate.
  - pose proof (g_scan w HG) as Hs. rewrite Em in Hs. destruct Hs as [Hi _].
    destruct (nth_error roots i) as [r|] eqn:Er; [|apply nth_error_None in Er; lia].
    assert (Hs : scan_ok roots w = true).
    { unfold scan_ok. rewrite Em, Er, Ha. unfold nopend. rewrite Hpend. cbn [andb].
      rewrite (Htargets r); [reflexivity|]. unfold targets. rewrite Em, Er. left. reflexivity. }
    assert (Hf : finish_ok roots w = false) by (unfold finish_ok; rewrite Em; reflexivity).
    rewrite Hf, Hs in Hrest. discriminate.
Qed.

(* ------------------------------------------------------------------ recovery *)

(* machine losses: (own steps before the loss, machine).  The driver notices a
   loss at once (no own step between the death and the notice). *)
Definition crashes (cs : list (nat * nat)) : list (nat * label) :=
  flat_map (fun p => [(fst p, LKill (snd p)); (0, LNotice (snd p))]) cs.

Lemma outcome_kill w m : outcome_of (stepT w (LKill m)) = outcome_of w.
Proof. cbn [Control.step]. destruct (Nat.ltb m (length (wms w))); reflexivity. Qed.

Lemma has_le1 w : has_machine w <= 1.
Proof. unfold has_machine. destruct (pick_machine w); lia. Qed.

Lemma drive_rec : forall fuel spares w cs c,
  Good w -> Rec w c -> c + length cs < max_lost -> length cs < has_machine w + spares ->
  driveT fuel spares w (crashes cs) = Success (ff_rows compute g roots) \/
  driveT fuel spares w (crashes cs) = OutOfFuel.
Proof.
  induction fuel as [fuel IH] using lt_wf_ind. intros spares w cs c HGood HR Hc Hh.
  destruct fuel as [|f]; [right; reflexivity|].
  cbn [drive]. destruct (outcome_of w) as [o|] eqn:Eo.
  { left. destruct HGood as (HI & _). destruct (r_err w c HR) as [He Hmo].
    unfold outcome_of in Eo. destruct (wmode w) eqn:Em; try congruence.
    - rewrite He in Eo. discriminate.
    - rewrite He in Eo. discriminate.
    - inversion Eo; subst o. f_equal.
      apply (outcome_success_exact compute g roots w out HI).
      unfold outcome_of. rewrite Em. reflexivity. }
  assert (Hown : forall l cs', nextT spares w = Some l -> length cs' = length cs ->
     driveT f (if is_start l then pred spares else spares) (stepT w l) (crashes cs')
       = Success (ff_rows compute g roots) \/
     driveT f (if is_start l then pred spares else spares) (stepT w l) (crashes cs') = OutOfFuel).
  { intros l cs' En Hl. destruct (outcome_none w Eo) as [He _].
    destruct (next_progress spares w l HGood He En) as [HG' _].
    apply (IH f (Nat.lt_succ_diag_r f) _ _ cs' c); auto.
    - eapply Rec_own; eauto. lia.
    - lia.
    - pose proof (has_own spares w l En) as E. unfold spend in E. lia. }
  destruct cs as [|[k m] cs'].
  - cbn [crashes flat_map]. destruct (nextT spares w) as [l|] eqn:En.
    + apply (Hown l []); auto.
    + exfalso. apply (no_stall spares w c HGood HR Eo); [cbn [length] in Hh; lia|exact En].
  - assert (Hkill : driveT f spares (stepT w (LKill m)) ((0, LNotice m) :: crashes cs')
                      = Success (ff_rows compute g roots) \/
                    driveT f spares (stepT w (LKill m)) ((0, LNotice m) :: crashes cs') = OutOfFuel).
    { destruct f as [|f']; [right; reflexivity|]. cbn [drive]. rewrite outcome_kill, Eo.
      fold (crash w m). cbn [length] in *.
      apply (IH f') with (c := S c); [lia|apply Good_crash; exact HGood|apply Rec_crash; exact HR|lia|].
      pose proof (has_le1 w). lia. }
    change (crashes ((k, m) :: cs')) with ((k, LKill m) :: (0, LNotice m) :: crashes cs').
    destruct k as [|k']; [exact Hkill|].
    destruct (nextT spares w) as [l|] eqn:En; [|exact Hkill].
    change ((k', LKill m) :: (0, LNotice m) :: crashes cs') with (crashes ((k', m) :: cs')).
    apply (Hown l ((k', m) :: cs')); auto.
Qed.

Lemma crashes_env cs : env_inj (crashes cs).
Proof.
  unfold env_inj, crashes. induction cs as [|p cs IH]; cbn [flat_map app]; [constructor|].
  constructor; [reflexivity|]. constructor; [reflexivity|exact IH].
Qed.

Lemma crashes_length cs : length (crashes cs) = 2 * length cs.
Proof. induction cs as [|p cs IH]; cbn [crashes flat_map app length] in *; [reflexivity|]. unfold crashes in IH. lia. Qed.

(* RECOVERY.  From [k] >= 1 machines, with [ncrash] machine losses at arbitrary
   points of the run (each noticed at once), fewer losses than maxConsecutiveLost,
   and as many replacement machines available as there are losses: the run
   completes successfully with exactly the failure-free rows. *)
Theorem recovery : forall k spares cs fuel,
  1 <= k -> length cs < max_lost -> length cs <= spares ->
  fuel_bound (2 * length cs) spares <= fuel ->
  driveT fuel spares (init_world k) (crashes cs) = Success (ff_rows compute g roots).
Proof.
  intros k spares cs fuel Hk Hml Hsp Hf.
  assert (Hhas : has_machine (init_world k) = 1).
  { unfold has_machine, pick_machine. destruct (find _ _) eqn:E; [reflexivity|]. exfalso.
    pose proof (find_none _ _ E 0) as H. cbn beta in H. rewrite getm_init in H.
    assert (Hin : In 0 (seq 0 (length (wms (init_world k))))).
    { apply in_seq. cbn [wms init_world]. rewrite repeat_length. lia. }
    specialize (H Hin). destruct (Nat.ltb_spec 0 k); [discriminate|lia]. }
  destruct (drive_rec fuel spares (init_world k) cs 0 (Good_init k) (Rec_init k)) as [H|H]; auto.
  - rewrite Hhas. lia.
  - exfalso. revert H. apply never_hangs; [apply crashes_env|]. rewrite crashes_length. exact Hf.
Qed.
End Live.

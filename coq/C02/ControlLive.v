(* C02 — liveness of the control-plane model with the code's statement order
   (ok_before_assign = true): a termination measure for the driver's own steps,
   hence an explicit fuel bound for [drive]; recovery after finitely many
   machine losses. *)
From Coq Require Import List ZArith Bool Arith Lia.
Import ListNotations.
Require Import BS.C02.Control BS.C02.ControlSafety.

Fixpoint sumf (f : nat -> nat) (n : nat) : nat :=
  match n with O => 0 | S k => sumf f k + f k end.

Lemma sumf_ext f f' n : (forall x, x < n -> f' x = f x) -> sumf f' n = sumf f n.
Proof.
  induction n as [|k IH]; intro H; cbn [sumf]; [reflexivity|].
  rewrite IH by (intros x Hx; apply H; lia). rewrite (H k) by lia. reflexivity.
Qed.

Lemma sumf_change f f' n t :
  t < n -> (forall x, x <> t -> f' x = f x) -> f' t < f t -> sumf f' n < sumf f n.
Proof.
  induction n as [|k IH]; intros Ht Ho Hlt; [lia|]. cbn [sumf].
  destruct (Nat.eq_dec t k) as [->|Hn].
  - rewrite (sumf_ext f f' k) by (intros x Hx; apply Ho; lia). lia.
  - rewrite (Ho k) by auto. assert (sumf f' k < sumf f k) by (apply IH; auto; lia). lia.
Qed.

Lemma sumf_le f n b : (forall x, f x <= b) -> sumf f n <= n * b.
Proof.
  intro H. induction n as [|k IH]; cbn [sumf]; [lia|]. specialize (H k). lia.
Qed.

Lemma mem_rm_same t l : mem t (rm t l) = false.
Proof.
  destruct (mem t (rm t l)) eqn:E; [|reflexivity].
  apply mem_In in E. apply In_rm in E as [_ E]. contradiction.
Qed.

Lemma mem_rm_other t x l : x <> t -> mem x (rm t l) = mem x l.
Proof.
  intro Hn. destruct (mem x l) eqn:E.
  - apply mem_In. apply In_rm. split; [apply mem_In; exact E|exact Hn].
  - destruct (mem x (rm t l)) eqn:E'; [|reflexivity].
    apply mem_In in E'. apply In_rm in E' as [E' _]. apply mem_In in E'. congruence.
Qed.

Lemma mem_cons_same t l : mem t (t :: l) = true.
Proof. unfold mem. cbn [existsb]. rewrite Nat.eqb_refl. reflexivity. Qed.

Lemma mem_cons_other t x l : x <> t -> mem x (t :: l) = mem x l.
Proof. intro H. unfold mem. cbn [existsb]. apply Nat.eqb_neq in H. rewrite H. reflexivity. Qed.

Section Live.
Variable compute : nat -> list (list (list Z)) -> list (list Z).
Variable max_lost : nat.
Variable max_retry : nat.
Variable g : list (list nat).
Variable roots : list nat.
Hypothesis Hwf : wf_graph g roots = true.
Hypothesis HML : 1 <= max_lost.

Notation stepT := (Control.step compute true max_lost max_retry g roots).
Notation nextT := (next g roots).
Notation driveT := (drive compute true max_lost max_retry g roots).
Notation n := (ntasks g).
Notation InvT := (Inv compute g roots).

(* ------------------------------------------------------------------ the measure *)

Definition A : nat := 6.
Definition W (c : nat) : nat := (max_lost - c) * A.

Definition tau (w : world) (t : nat) : nat :=
  match wst w t with
  | TInit | TLost => if mem t (wpend w) then W (S (wcl w t)) + 1 else W (wcl w t)
  | TWaiting => W (wcl w t) - 1
  | TRunning => W (wcl w t) - 2
  | TOk => match wph w t with
           | PMid m => if mlost (getm w m) then W (S (wcl w t)) + 2 else 2
           | _ => if mem t (wpend w) then 1 else 0
           end
  | TErr => 0
  end.

Definition Q : nat := max_retry + 2.
Definition nu (w : world) : nat :=
  match wmode w with
  | MEval => length roots * Q + 1
  | MScan i _ k => (length roots - i) * Q - k
  | _ => 0
  end.
Definition mu (w : world) : nat := nu w + sumf (tau w) n.
Definition Mbound : nat := length roots * Q + 1 + n * (max_lost * A).

Lemma W_le c : W c <= max_lost * A.
Proof. unfold W. apply Nat.mul_le_mono_r. lia. Qed.

Lemma W_S c : c < max_lost -> W c = W (S c) + A.
Proof. intro H. unfold W. replace (max_lost - c) with (S (max_lost - S c)) by lia. lia. Qed.

Lemma tau_le w t : tau w t <= max_lost * A.
Proof.
  unfold tau. pose proof (W_le (wcl w t)) as H0.
  assert (H1 : W (S (wcl w t)) + 2 <= max_lost * A).
  { unfold W, A. destruct (Nat.le_gt_cases max_lost (S (wcl w t))) as [H|H].
    - replace (max_lost - S (wcl w t)) with 0 by lia. lia.
    - nia. }
  assert (H2 : 2 <= max_lost * A) by (unfold A; lia).
  destruct (wst w t); try lia.
  - destruct (mem t (wpend w)); lia.
  - destruct (wph w t); try (destruct (mem t (wpend w)); lia).
    destruct (mlost (getm w m)); lia.
  - destruct (mem t (wpend w)); lia.
Qed.

Lemma mu_le w : mu w <= Mbound.
Proof.
  unfold mu, Mbound. pose proof (sumf_le (tau w) n (max_lost * A) (tau_le w)) as H.
  assert (nu w <= length roots * Q + 1); [|lia].
  unfold nu. destruct (wmode w); lia.
Qed.

(* tau of a task depends on its own fields and on which machines are known lost *)
Lemma tau_ext w w' t :
  wst w' t = wst w t -> wcl w' t = wcl w t -> wph w' t = wph w t ->
  mem t (wpend w') = mem t (wpend w) ->
  (forall m, mlost (getm w' m) = mlost (getm w m)) -> tau w' t = tau w t.
Proof.
  intros E1 E2 E3 E4 E5. unfold tau. rewrite E1, E2, E3, E4.
  destruct (wst w t); try reflexivity. destruct (wph w t); try reflexivity. rewrite E5. reflexivity.
Qed.

(* a step that touches one task *)
Lemma mu_dec_task w w' t :
  t < n -> wmode w' = wmode w ->
  (forall m, mlost (getm w' m) = mlost (getm w m)) ->
  (forall x, x <> t -> wst w' x = wst w x /\ wcl w' x = wcl w x /\ wph w' x = wph w x /\
                       mem x (wpend w') = mem x (wpend w)) ->
  tau w' t < tau w t -> mu w' < mu w.
Proof.
  intros Ht Hm Hl Ho Hlt. unfold mu.
  assert (nu w' = nu w) by (unfold nu; rewrite Hm; reflexivity).
  assert (sumf (tau w') n < sumf (tau w) n); [|lia].
  apply (sumf_change _ _ n t); auto.
  intros x Hx. destruct (Ho x Hx) as (E1 & E2 & E3 & E4). apply tau_ext; auto.
Qed.

(* a step that touches only the mode *)
Lemma mu_dec_mode w x : nu (set_mode w x) < nu w -> mu (set_mode w x) < mu w.
Proof.
  intro H. unfold mu.
  assert (sumf (tau (set_mode w x)) n = sumf (tau w) n); [|lia].
  apply sumf_ext. intros t _. apply tau_ext; reflexivity.
Qed.

(* ------------------------------------------------------------------ bookkeeping invariant *)

Record G (w : world) : Prop := mkG {
  g_cl : werr w = false -> forall t, wst w t <> TErr /\ wcl w t < max_lost;
  g_unc : forall t, mem t (wpend w) = true -> wunc w t = true;
  g_wait : forall t, wst w t = TWaiting -> mem t (wpend w) = true /\ wph w t = PNone;
  g_mid : forall t m, wph w t = PMid m -> mem t (wpend w) = true;
  g_rep : forall t m, wph w t = PReplied m -> mem t (wpend w) = true;
  g_lt : forall t, mem t (wpend w) = true -> t < n;
  g_phlt : forall t, wph w t <> PNone -> t < n;
  g_scan : match wmode w with
           | MScan i _ k => i < length roots /\ k <= max_retry
           | _ => True
           end
}.

Lemma G_init k : G (init_world k).
Proof.
  constructor; cbn; try discriminate; auto.
  - intros _ t. split; [discriminate|lia].
  - intros t H. contradiction.
Qed.

Definition Good (w : world) : Prop := InvT w /\ K w /\ G w.

Lemma enq_lt w : forall f x t, x < n -> In t (enq g f w x) -> t < n.
Proof.
  induction f as [|f IH]; intros x t Hx H; cbn [enq] in H; [destruct H|].
  destruct (mem x (wpend w)); [destruct H|].
  assert (Hd : forall d, In d (deps_of g x) -> d < n).
  { intros d Hd. pose proof (deps_lt g roots Hwf x d Hd). lia. }
  destruct (wst w x); try (destruct H; fail).
  - destruct (forallb _ (deps_of g x)).
    + destruct H as [<-|[]]. exact Hx.
    + apply in_flat_map in H as [d [Hin Hd']]. eapply IH; [|exact Hd']. auto.
  - destruct (forallb _ (deps_of g x)).
    + destruct H as [<-|[]]. exact Hx.
    + apply in_flat_map in H as [d [Hin Hd']]. eapply IH; [|exact Hd']. auto.
Qed.

Lemma roots_lt r : In r roots -> r < n.
Proof.
  intro H. unfold wf_graph in Hwf. apply andb_true_iff in Hwf as [_ H2].
  rewrite forallb_forall in H2. apply Nat.ltb_lt. apply H2. exact H.
Qed.

Lemma targets_lt w r : In r (targets roots w) -> r < n.
Proof.
  unfold targets. destruct (wmode w); try (intros []; fail).
  - apply roots_lt.
  - destruct (nth_error roots i) eqn:E; [|intros []].
    intros [<-|[]]. apply roots_lt. eapply nth_error_In; eauto.
Qed.

Lemma runnable_lt w t : In t (runnable g roots w) -> t < n.
Proof.
  unfold runnable. intro H. apply in_flat_map in H as [x [Hx Ht]].
  eapply enq_lt; [|exact Ht]. eapply targets_lt; eauto.
Qed.

(* ------------------------------------------------------------------ LReply2 *)

Lemma reply2_frame w t m : wph w t = PMid m ->
  let w' := stepT w (LReply2 t) in
  wmode w' = wmode w /\ wcl w' = wcl w /\ wunc w' = wunc w /\ wpend w' = wpend w /\ werr w' = werr w /\
  (forall m', mlost (getm w' m') = mlost (getm w m')) /\
  wph w' = upd (wph w) t PNone /\
  (forall x, x <> t -> wst w' x = wst w x) /\
  wst w' t = (if mlost (getm w m) then TLost else wst w t).
Proof.
  intros Eph. cbn [Control.step]. rewrite Eph.
  destruct (assign_frame w m t) as (_ & B & C & D & _ & E & F & G0 & H & I & _).
  cbn [wmode wcl wunc wpend werr wph wst set_ph].
  change (getm (set_ph ?a ?b)) with (getm (assign w m t)).
  rewrite D. repeat split; auto.
  - intro m'. apply B.
  - unfold assign. destruct (mlost (getm w m)); [apply upd_same|reflexivity].
Qed.

Lemma G_reply2 w t m : G w -> K w -> wph w t = PMid m -> G (stepT w (LReply2 t)).
Proof.
  intros [G1 G2 G3 G4 G5 G6 G7 G8] HK Eph.
  destruct (reply2_frame w t m Eph) as (F1 & F2 & F3 & F4 & F5 & F6 & F7 & F8 & F9).
  pose proof (k_mid w HK t m Eph) as Hok.
  set (w' := stepT w (LReply2 t)) in *. clearbody w'.
  constructor.
  - rewrite F5, F2. intros He x. destruct (G1 He x) as [a b]. split; [|exact b].
    destruct (Nat.eq_dec x t) as [->|Hn]; [|rewrite F8; auto].
    rewrite F9. destruct (mlost (getm w m)); [discriminate|exact a].
  - rewrite F3, F4. exact G2.
  - intros x. rewrite F4, F7. destruct (Nat.eq_dec x t) as [->|Hn].
    + rewrite F9, Hok. destruct (mlost (getm w m)); discriminate.
    + rewrite F8, upd_other by exact Hn. apply G3.
  - intros x m'. rewrite F4, F7. unfold upd. destruct (Nat.eqb_spec x t); [discriminate|apply G4].
  - intros x m'. rewrite F4, F7. unfold upd. destruct (Nat.eqb_spec x t); [discriminate|apply G5].
  - rewrite F4. exact G6.
  - intros x. rewrite F7. unfold upd. destruct (Nat.eqb_spec x t); [congruence|apply G7].
  - rewrite F1. exact G8.
Qed.

Lemma dec_reply2 w t m : G w -> K w -> wph w t = PMid m -> mu (stepT w (LReply2 t)) < mu w.
Proof.
  intros HG HK Eph.
  destruct (reply2_frame w t m Eph) as (F1 & F2 & F3 & F4 & F5 & F6 & F7 & F8 & F9).
  pose proof (k_mid w HK t m Eph) as Hok. pose proof (g_mid w HG t m Eph) as Hp.
  assert (Ht : t < n) by (apply (g_lt w HG); exact Hp).
  set (w' := stepT w (LReply2 t)) in *. clearbody w'.
  apply (mu_dec_task w w' t); auto.
  - intros x Hx. rewrite F8, F2, F7, F4 by exact Hx. rewrite upd_other by exact Hx. auto.
  - unfold tau. rewrite F9, F7, F2, F4, upd_same, Hok, Eph, Hp.
    destruct (mlost (getm w m)); lia.
Qed.

(* ------------------------------------------------------------------ LReply1 *)

Lemma reply1_frame w t m : wph w t = PReplied m ->
  let w' := stepT w (LReply1 t) in
  wmode w' = wmode w /\ wcl w' = wcl w /\ wunc w' = wunc w /\ wpend w' = wpend w /\ werr w' = werr w /\
  wms w' = wms w /\
  wph w' = upd (wph w) t (PMid m) /\ wst w' = upd (wst w) t TOk /\
  wloc w' = upd (wloc w) t (Some m).
Proof. intros Eph. cbn [Control.step]. rewrite Eph. cbn. repeat split; reflexivity. Qed.

Lemma getm_ms w w' m : wms w' = wms w -> getm w' m = getm w m.
Proof. intro H. unfold getm. rewrite H. reflexivity. Qed.

Lemma G_reply1 w t m : G w -> wph w t = PReplied m -> G (stepT w (LReply1 t)).
Proof.
  intros [G1 G2 G3 G4 G5 G6 G7 G8] Eph.
  destruct (reply1_frame w t m Eph) as (F1 & F2 & F3 & F4 & F5 & F6 & F7 & F8 & F9).
  set (w' := stepT w (LReply1 t)) in *. clearbody w'.
  constructor.
  - rewrite F5, F2, F8. intros He x. destruct (G1 He x) as [a b]. split; [|exact b].
    unfold upd. destruct (Nat.eqb x t); [discriminate|exact a].
  - rewrite F3, F4. exact G2.
  - intros x. rewrite F4, F7, F8. unfold upd. destruct (Nat.eqb_spec x t); [discriminate|apply G3].
  - intros x m'. rewrite F4, F7. unfold upd. destruct (Nat.eqb_spec x t) as [->|]; [|apply G4].
    intros _. eapply G5; eauto.
  - intros x m'. rewrite F4, F7. unfold upd. destruct (Nat.eqb_spec x t); [discriminate|apply G5].
  - rewrite F4. exact G6.
  - intros x. rewrite F7. unfold upd. destruct (Nat.eqb_spec x t) as [->|]; [|apply G7].
    intros _. apply G7. congruence.
  - rewrite F1. exact G8.
Qed.

Lemma dec_reply1 w t m : G w -> K w -> werr w = false -> wph w t = PReplied m ->
  mu (stepT w (LReply1 t)) < mu w.
Proof.
  intros HG HK He Eph.
  destruct (reply1_frame w t m Eph) as (F1 & F2 & F3 & F4 & F5 & F6 & F7 & F8 & F9).
  pose proof (k_rep w HK t m Eph) as Hrun. pose proof (g_rep w HG t m Eph) as Hp.
  assert (Ht : t < n) by (apply (g_lt w HG); exact Hp).
  destruct (g_cl w HG He t) as [_ Hc].
  set (w' := stepT w (LReply1 t)) in *. clearbody w'.
  apply (mu_dec_task w w' t); auto.
  - intro m'. rewrite (getm_ms w w') by exact F6. reflexivity.
  - intros x Hx. rewrite F8, F2, F7, F4. rewrite !upd_other by exact Hx. auto.
  - unfold tau. rewrite F8, F7, F2, !upd_same, Hrun. rewrite (getm_ms w w') by exact F6.
    pose proof (W_S (wcl w t) Hc) as E. unfold A in E.
    destruct (mlost (getm w m)); lia.
Qed.

(* ------------------------------------------------------------------ LRun *)

Lemma run_frame w t m : wst w t = TWaiting -> wph w t = PNone ->
  m < length (wms w) -> mlost (getm w m) = false ->
  let w' := stepT w (LRun t m) in
  wmode w' = wmode w /\ wcl w' = wcl w /\ wunc w' = wunc w /\ wpend w' = wpend w /\ werr w' = werr w /\
  wloc w' = wloc w /\
  (forall m', mlost (getm w' m') = mlost (getm w m')) /\
  ((wst w' = upd (wst w) t TRunning /\ wph w' = upd (wph w) t (PReplied m)) \/
   (wst w' = upd (wst w) t TLost /\ wph w' = wph w)).
Proof.
  intros Est Eph Hm Hl. cbn [Control.step]. rewrite Est, Eph.
  apply Nat.ltb_lt in Hm. rewrite Hm, Hl. cbn [negb andb].
  destruct (if malive (getm w m) then gather w m (deps_of g t) else None) as [ins|].
  - cbn [wmode wcl wunc wpend werr wloc wst wph set_ph set_st].
    change (getm (set_ph ?a ?b)) with (getm (commit w m t (compute t ins))).
    repeat split; auto.
    intro m'. unfold commit. rewrite getm_upd.
    destruct (Nat.eqb_spec m' m) as [->|]; cbn [andb]; [|reflexivity].
    rewrite Hm. reflexivity.
  - cbn. repeat split; auto.
Qed.

Lemma G_run w t m : G w -> wst w t = TWaiting -> wph w t = PNone ->
  m < length (wms w) -> mlost (getm w m) = false -> G (stepT w (LRun t m)).
Proof.
  intros [G1 G2 G3 G4 G5 G6 G7 G8] Est Eph Hm Hl.
  destruct (run_frame w t m Est Eph Hm Hl) as (F1 & F2 & F3 & F4 & F5 & F6 & F7 & F8).
  destruct (G3 t Est) as [Hp _].
  set (w' := stepT w (LRun t m)) in *. clearbody w'.
  destruct F8 as [[F8 F9]|[F8 F9]].
  - constructor.
    + rewrite F5, F2, F8. intros He x. destruct (G1 He x) as [a b]. split; [|exact b].
      unfold upd. destruct (Nat.eqb x t); [discriminate|exact a].
    + rewrite F3, F4. exact G2.
    + intros x. rewrite F4, F8, F9. unfold upd. destruct (Nat.eqb_spec x t); [discriminate|apply G3].
    + intros x m'. rewrite F4, F9. unfold upd. destruct (Nat.eqb_spec x t); [discriminate|apply G4].
    + intros x m'. rewrite F4, F9. unfold upd. destruct (Nat.eqb_spec x t) as [->|]; [auto|apply G5].
    + rewrite F4. exact G6.
    + intros x. rewrite F9. unfold upd. destruct (Nat.eqb_spec x t) as [->|]; [|apply G7].
      intros _. apply G6. exact Hp.
    + rewrite F1. exact G8.
  - constructor.
    + rewrite F5, F2, F8. intros He x. destruct (G1 He x) as [a b]. split; [|exact b].
      unfold upd. destruct (Nat.eqb x t); [discriminate|exact a].
    + rewrite F3, F4. exact G2.
    + intros x. rewrite F4, F8, F9. unfold upd. destruct (Nat.eqb_spec x t); [discriminate|apply G3].
    + rewrite F4, F9. exact G4.
    + rewrite F4, F9. exact G5.
    + rewrite F4. exact G6.
    + rewrite F9. exact G7.
    + rewrite F1. exact G8.
Qed.

Lemma dec_run w t m : G w -> werr w = false -> wst w t = TWaiting -> wph w t = PNone ->
  m < length (wms w) -> mlost (getm w m) = false -> mu (stepT w (LRun t m)) < mu w.
Proof.
  intros HG He Est Eph Hm Hl.
  destruct (run_frame w t m Est Eph Hm Hl) as (F1 & F2 & F3 & F4 & F5 & F6 & F7 & F8).
  destruct (g_wait w HG t Est) as [Hp _].
  assert (Ht : t < n) by (apply (g_lt w HG); exact Hp).
  destruct (g_cl w HG He t) as [_ Hc].
  pose proof (W_S (wcl w t) Hc) as E. unfold A in E.
  set (w' := stepT w (LRun t m)) in *. clearbody w'.
  apply (mu_dec_task w w' t); auto.
  - intros x Hx. rewrite F2, F4. destruct F8 as [[F8 F9]|[F8 F9]]; rewrite F8, F9;
      rewrite ?upd_other by exact Hx; auto.
  - unfold tau. rewrite F2, F4, Est. destruct F8 as [[F8 F9]|[F8 F9]]; rewrite F8, upd_same.
    + lia.
    + rewrite Hp. lia.
Qed.

(* ------------------------------------------------------------------ LReturn *)

Lemma return_frame w t : G w -> werr w = false ->
  active w = true -> mem t (wpend w) = true -> ge_ok (wst w t) = true ->
  let w' := stepT w (LReturn t) in
  wmode w' = wmode w /\ wms w' = wms w /\ wph w' = wph w /\ wloc w' = wloc w /\
  wpend w' = rm t (wpend w) /\
  (forall x, x <> t -> wst w' x = wst w x /\ wcl w' x = wcl w x /\ wunc w' x = wunc w x) /\
  ((wst w t = TOk /\ wst w' t = TOk /\ wcl w' t = 0 /\ wunc w' t = false /\ werr w' = false) \/
   (wst w t = TLost /\ S (wcl w t) < max_lost /\ wst w' t = TLost /\ wcl w' t = S (wcl w t) /\
    wunc w' t = false /\ werr w' = false) \/
   (wst w t = TLost /\ max_lost <= S (wcl w t) /\ wst w' t = TErr /\ werr w' = true)).
Proof.
  intros HG He Ha Hp Hge. cbn [Control.step]. rewrite Ha, Hp, Hge. cbn [andb].
  destruct (wst w t) eqn:Est; try discriminate.
  - cbn [wst set_pend set_unc set_cl]. rewrite Est. cbn [st_eqb].
    cbn [wmode wms wph wloc wpend wst wcl wunc werr set_pend set_unc set_cl].
    repeat split; auto; try (rewrite upd_other by assumption; reflexivity).
    left. rewrite ?upd_same. repeat split; auto.
  - exfalso. destruct (g_cl w HG He t) as [a _]. contradiction.
  - unfold count_lost. rewrite (g_unc w HG t Hp).
    destruct (Nat.ltb_spec (S (wcl w t)) max_lost) as [Hlt|Hge'].
    + cbn [wst set_pend set_unc set_cl]. rewrite Est. cbn [st_eqb].
      cbn [wmode wms wph wloc wpend wst wcl wunc werr set_pend set_unc set_cl].
      repeat split; auto; try (rewrite upd_other by assumption; reflexivity).
      right; left. rewrite ?upd_same. repeat split; auto.
    + cbn [wst set_pend set_unc set_cl set_st]. rewrite upd_same. cbn [st_eqb].
      cbn [wmode wms wph wloc wpend wst wcl wunc werr set_pend set_unc set_cl set_st set_err].
      repeat split; auto; try (rewrite upd_other by assumption; reflexivity).
      right; right. rewrite ?upd_same. repeat split; auto.
Qed.

Lemma G_return w t : G w -> werr w = false ->
  active w = true -> mem t (wpend w) = true -> ge_ok (wst w t) = true -> wph w t = PNone ->
  G (stepT w (LReturn t)).
Proof.
  intros HG He Ha Hp Hge Eph.
  destruct (return_frame w t HG He Ha Hp Hge) as (F1 & F2 & F3 & F4 & F5 & F6 & F7).
  destruct HG as [G1 G2 G3 G4 G5 G6 G7 G8].
  set (w' := stepT w (LReturn t)) in *. clearbody w'.
  constructor.
  - intros He' x. destruct (Nat.eq_dec x t) as [->|Hn].
    + destruct F7 as [(a & b & c & d & e)|[(a & b & c & d & e & f)|(a & b & c & d)]].
      * rewrite b, c. split; [discriminate|lia].
      * rewrite c, d. split; [discriminate|lia].
      * congruence.
    + destruct (F6 x Hn) as (a & b & _). rewrite a, b. apply G1. exact He.
  - intros x. rewrite F5. intro H. apply mem_In in H. apply In_rm in H as [H Hn].
    destruct (F6 x Hn) as (_ & _ & c). rewrite c. apply G2. apply mem_In. exact H.
  - intros x Hx. rewrite F5, F3. destruct (Nat.eq_dec x t) as [->|Hn].
    + exfalso. destruct F7 as [(a & b & _)|[(a & b & c & _)|(a & b & c & d)]]; congruence.
    + destruct (F6 x Hn) as (a & _). rewrite a in Hx. rewrite mem_rm_other by exact Hn. apply G3. exact Hx.
  - intros x m'. rewrite F5, F3. intro H. destruct (Nat.eq_dec x t) as [->|Hn]; [congruence|].
    rewrite mem_rm_other by exact Hn. eapply G4; eauto.
  - intros x m'. rewrite F5, F3. intro H. destruct (Nat.eq_dec x t) as [->|Hn]; [congruence|].
    rewrite mem_rm_other by exact Hn. eapply G5; eauto.
  - intros x. rewrite F5. intro H. apply mem_In in H. apply In_rm in H as [H _].
    apply G6. apply mem_In. exact H.
  - rewrite F3. exact G7.
  - rewrite F1. exact G8.
Qed.

Lemma dec_return w t : G w -> werr w = false ->
  active w = true -> mem t (wpend w) = true -> ge_ok (wst w t) = true -> wph w t = PNone ->
  mu (stepT w (LReturn t)) < mu w.
Proof.
  intros HG He Ha Hp Hge Eph.
  destruct (return_frame w t HG He Ha Hp Hge) as (F1 & F2 & F3 & F4 & F5 & F6 & F7).
  assert (Ht : t < n) by (apply (g_lt w HG); exact Hp).
  set (w' := stepT w (LReturn t)) in *. clearbody w'.
  apply (mu_dec_task w w' t); auto.
  - intro m'. rewrite (getm_ms w w') by exact F2. reflexivity.
  - intros x Hx. destruct (F6 x Hx) as (a & b & _). rewrite a, b, F3, F5.
    rewrite mem_rm_other by exact Hx. auto.
  - unfold tau. rewrite F3, F5, mem_rm_same, Hp, Eph.
    destruct F7 as [(a & b & c & d & e)|[(a & b & c & d & e & f)|(a & b & c & d)]].
    + rewrite a, b. lia.
    + rewrite a, c, d. lia.
    + rewrite a, c. lia.
Qed.

(* ------------------------------------------------------------------ LDispatch *)

Lemma dispatch_frame w t : G w -> werr w = false ->
  active w = true -> mem t (runnable g roots w) = true ->
  let w' := stepT w (LDispatch t) in
  wmode w' = wmode w /\ wms w' = wms w /\ wph w' = wph w /\ wloc w' = wloc w /\
  (forall x, x <> t -> wst w' x = wst w x /\ wcl w' x = wcl w x /\ wunc w' x = wunc w x) /\
  ((wst w' t = TWaiting /\ wcl w t <= wcl w' t /\ wcl w' t < max_lost /\ wunc w' t = true /\
    wpend w' = t :: wpend w /\ werr w' = false) \/
   (wst w' t = TErr /\ werr w' = true /\ wpend w' = wpend w)).
Proof.
  intros HG He Ha Hr. cbn [Control.step]. rewrite Ha, Hr. cbn [andb].
  destruct (runnable_sound g roots w t Hr) as [Hs _].
  destruct (g_cl w HG He t) as [Hne Hc].
  destruct (st_eqb (wst w t) TLost) eqn:El.
  - unfold count_lost. destruct (wunc w t).
    + destruct (Nat.ltb_spec (S (wcl w t)) max_lost) as [Hlt|Hge'].
      * cbn [wst set_cl set_unc]. destruct (st_eqb (wst w t) TErr) eqn:E2.
        { destruct (wst w t); discriminate. }
        cbn [wmode wms wph wloc wpend wst wcl wunc werr set_pend set_unc set_cl set_st].
        repeat split; auto; try (rewrite !upd_other by assumption; reflexivity).
        left. rewrite ?upd_same. repeat split; auto.
      * cbn [wst set_cl set_unc set_st]. rewrite upd_same. cbn [st_eqb].
        cbn [wmode wms wph wloc wpend wst wcl wunc werr set_err set_unc set_cl set_st].
        repeat split; auto; try (rewrite !upd_other by assumption; reflexivity).
        right. rewrite ?upd_same. repeat split; auto.
    + destruct (st_eqb (wst w t) TErr) eqn:E2.
      { destruct (wst w t); discriminate. }
      cbn [wmode wms wph wloc wpend wst wcl wunc werr set_pend set_unc set_cl set_st].
      repeat split; auto; try (rewrite !upd_other by assumption; reflexivity).
      left. rewrite ?upd_same. repeat split; auto.
  - destruct (st_eqb (wst w t) TErr) eqn:E2.
    { destruct Hs as [E|E]; rewrite E in E2; discriminate. }
    cbn [wmode wms wph wloc wpend wst wcl wunc werr set_pend set_unc set_cl set_st].
    repeat split; auto; try (rewrite !upd_other by assumption; reflexivity).
    left. rewrite ?upd_same. repeat split; auto.
Qed.

Lemma idle_phase w t : K w -> wst w t = TInit \/ wst w t = TLost -> wph w t = PNone.
Proof.
  intros HK Hs. destruct (wph w t) as [|m|m] eqn:E; [reflexivity| |].
  - rewrite (k_rep w HK t m E) in Hs. destruct Hs; discriminate.
  - rewrite (k_mid w HK t m E) in Hs. destruct Hs; discriminate.
Qed.

Lemma G_dispatch w t : G w -> K w -> werr w = false ->
  active w = true -> mem t (runnable g roots w) = true -> G (stepT w (LDispatch t)).
Proof.
  intros HG HK He Ha Hr.
  destruct (dispatch_frame w t HG He Ha Hr) as (F1 & F2 & F3 & F4 & F6 & F7).
  destruct (runnable_sound g roots w t Hr) as [Hs Hnp].
  pose proof (idle_phase w t HK Hs) as Eph.
  assert (Ht : t < n) by (apply runnable_lt with w; apply mem_In; exact Hr).
  destruct HG as [G1 G2 G3 G4 G5 G6 G7 G8].
  set (w' := stepT w (LDispatch t)) in *. clearbody w'.
  destruct F7 as [(a & b & c & d & e & f)|(a & b & c)].
  - constructor.
    + intros _ x. destruct (Nat.eq_dec x t) as [->|Hn].
      * rewrite a. split; [discriminate|exact c].
      * destruct (F6 x Hn) as (p & q & _). rewrite p, q. apply G1. exact He.
    + intros x. rewrite e. destruct (Nat.eq_dec x t) as [->|Hn]; [auto|].
      rewrite mem_cons_other by exact Hn. destruct (F6 x Hn) as (_ & _ & r). rewrite r. apply G2.
    + intros x. rewrite e, F3. destruct (Nat.eq_dec x t) as [->|Hn].
      * intros _. rewrite mem_cons_same. auto.
      * rewrite mem_cons_other by exact Hn. destruct (F6 x Hn) as (p & _). rewrite p. apply G3.
    + intros x m'. rewrite e, F3. intro H. destruct (Nat.eq_dec x t) as [->|Hn]; [congruence|].
      rewrite mem_cons_other by exact Hn. eapply G4; eauto.
    + intros x m'. rewrite e, F3. intro H. destruct (Nat.eq_dec x t) as [->|Hn]; [congruence|].
      rewrite mem_cons_other by exact Hn. eapply G5; eauto.
    + intros x. rewrite e. destruct (Nat.eq_dec x t) as [->|Hn]; [auto|].
      rewrite mem_cons_other by exact Hn. apply G6.
    + rewrite F3. exact G7.
    + rewrite F1. exact G8.
  - constructor.
    + rewrite b. discriminate.
    + intros x. rewrite c. intro H. destruct (Nat.eq_dec x t) as [->|Hn]; [congruence|].
      destruct (F6 x Hn) as (_ & _ & r). rewrite r. apply G2. exact H.
    + intros x. rewrite c, F3. destruct (Nat.eq_dec x t) as [->|Hn]; [congruence|].
      destruct (F6 x Hn) as (p & _). rewrite p. apply G3.
    + rewrite c, F3. exact G4.
    + rewrite c, F3. exact G5.
    + rewrite c. exact G6.
    + rewrite F3. exact G7.
    + rewrite F1. exact G8.
Qed.

Lemma dec_dispatch w t : G w -> K w -> werr w = false ->
  active w = true -> mem t (runnable g roots w) = true -> mu (stepT w (LDispatch t)) < mu w.
Proof.
  intros HG HK He Ha Hr.
  destruct (dispatch_frame w t HG He Ha Hr) as (F1 & F2 & F3 & F4 & F6 & F7).
  destruct (runnable_sound g roots w t Hr) as [Hs Hnp].
  assert (Ht : t < n) by (apply runnable_lt with w; apply mem_In; exact Hr).
  destruct (g_cl w HG He t) as [_ Hc].
  pose proof (W_S (wcl w t) Hc) as E. unfold A in E.
  set (w' := stepT w (LDispatch t)) in *. clearbody w'.
  apply (mu_dec_task w w' t); auto.
  - intro m'. rewrite (getm_ms w w') by exact F2. reflexivity.
  - intros x Hx. destruct (F6 x Hx) as (a & b & _). rewrite a, b, F3.
    destruct F7 as [(_ & _ & _ & _ & e & _)|(_ & _ & c)].
    + rewrite e, mem_cons_other by exact Hx. auto.
    + rewrite c. auto.
  - unfold tau at 2. rewrite Hnp.
    assert (Hold : W (wcl w t) = match wst w t with TInit | TLost => W (wcl w t) | _ => 0 end)
      by (destruct Hs as [Es|Es]; rewrite Es; reflexivity).
    assert (Hw : (match wst w t with TInit | TLost => W (wcl w t) | TWaiting => W (wcl w t) - 1
                  | TRunning => W (wcl w t) - 2
                  | TOk => match wph w t with PMid m => if mlost (getm w m) then W (S (wcl w t)) + 2 else 2
                                              | _ => 0 end
                  | TErr => 0 end) = W (wcl w t))
      by (destruct Hs as [Es|Es]; rewrite Es; reflexivity).
    rewrite Hw. unfold tau.
    destruct F7 as [(a & b & c & d & e & f)|(a & b & c)]; rewrite a.
    + assert (W (wcl w' t) <= W (wcl w t)) by (unfold W; apply Nat.mul_le_mono_r; lia). lia.
    + lia.
Qed.

(* ------------------------------------------------------------------ LFinish, LScan *)

Lemma G_mode w x :
  G w -> match x with MScan i _ k => i < length roots /\ k <= max_retry | _ => True end ->
  G (set_mode w x).
Proof. intros [G1 G2 G3 G4 G5 G6 G7 G8] H. constructor; auto. Qed.

Lemma scan_start_ok i acc :
  match scan_start roots i acc with MScan i _ k => i < length roots /\ k <= max_retry | _ => True end.
Proof.
  unfold scan_start. destruct (nth_error roots i) eqn:E; [|exact I].
  split; [|lia]. apply nth_error_Some. congruence.
Qed.

Lemma finish_eq w : finish_ok roots w = true ->
  stepT w LFinish = set_mode w (scan_start roots 0 []) /\ wmode w = MEval.
Proof.
  unfold finish_ok. cbn [Control.step]. destruct (wmode w); try discriminate.
  unfold nopend. intro H. rewrite H. auto.
Qed.

Lemma dec_finish w : finish_ok roots w = true -> mu (stepT w LFinish) < mu w.
Proof.
  intro H. destruct (finish_eq w H) as [E Em]. rewrite E. apply mu_dec_mode.
  unfold nu. cbn [wmode set_mode]. rewrite Em. unfold scan_start.
  destruct (nth_error roots 0); lia.
Qed.

Lemma G_finish w : G w -> finish_ok roots w = true -> G (stepT w LFinish).
Proof.
  intros HG H. destruct (finish_eq w H) as [E _]. rewrite E. apply G_mode; [exact HG|apply scan_start_ok].
Qed.

Lemma scan_eq w : scan_ok roots w = true ->
  exists i acc k r, wmode w = MScan i acc k /\ nth_error roots i = Some r /\
    wst w r = TOk /\ wpend w = [] /\
    stepT w LScan = set_mode w (match read_loc w r with
                                | Some rws => scan_start roots (S i) (acc ++ [rws])
                                | None => if Nat.ltb k max_retry then MScan i acc (S k) else MFail
                                end).
Proof.
  unfold scan_ok. cbn [Control.step]. destruct (wmode w) as [|i acc k| |]; try discriminate.
  destruct (nth_error roots i) as [r|] eqn:Er; [|discriminate].
  unfold nopend. intro H. rewrite H. exists i, acc, k, r.
  apply andb_true_iff in H as [H H3]. apply andb_true_iff in H as [H1 H2].
  repeat split; auto.
  - unfold is_ok in H3. destruct (wst w r); try discriminate; reflexivity.
  - destruct (wpend w); [reflexivity|discriminate].
  - destruct (read_loc w r); reflexivity.
Qed.

Lemma dec_scan w : G w -> scan_ok roots w = true -> mu (stepT w LScan) < mu w.
Proof.
  intros HG H. destruct (scan_eq w H) as (i & acc & k & r & Em & Er & _ & _ & E). rewrite E.
  apply mu_dec_mode. pose proof (g_scan w HG) as Hs. rewrite Em in Hs. destruct Hs as [Hi Hk].
  unfold nu. cbn [wmode set_mode]. rewrite Em.
  assert (HQ : (length roots - i) * Q = (length roots - S i) * Q + Q).
  { replace (length roots - i) with (S (length roots - S i)) by lia. lia. }
  assert (Hk2 : k + 2 <= Q) by (unfold Q; lia).
  destruct (read_loc w r).
  - unfold scan_start. destruct (nth_error roots (S i)); rewrite HQ; generalize ((length roots - S i) * Q); intro X; lia.
  - destruct (Nat.ltb_spec k max_retry); rewrite HQ; generalize ((length roots - S i) * Q); intro X; lia.
Qed.

Lemma G_scan w : G w -> scan_ok roots w = true -> G (stepT w LScan).
Proof.
  intros HG H. destruct (scan_eq w H) as (i & acc & k & r & Em & Er & _ & _ & E). rewrite E.
  pose proof (g_scan w HG) as Hs. rewrite Em in Hs. destruct Hs as [Hi Hk].
  apply G_mode; [exact HG|]. destruct (read_loc w r); [apply scan_start_ok|].
  destruct (Nat.ltb_spec k max_retry); [split; lia|exact I].
Qed.

(* ------------------------------------------------------------------ environment steps *)

Lemma G_kill w m : G w -> G (stepT w (LKill m)).
Proof.
  intros [G1 G2 G3 G4 G5 G6 G7 G8]. cbn [Control.step].
  destruct (Nat.ltb m (length (wms w))); constructor; auto.
Qed.

Lemma G_start w : G w -> G (stepT w LStart).
Proof. intros [G1 G2 G3 G4 G5 G6 G7 G8]. constructor; auto. Qed.

Lemma G_notice w m : G w -> G (stepT w (LNotice m)).
Proof.
  intros [G1 G2 G3 G4 G5 G6 G7 G8]. cbn [Control.step].
  destruct (Nat.ltb m (length (wms w))); [|constructor; auto].
  constructor; cbn [wst wcl wunc wph wpend werr wmode set_st]; auto.
  - intros He x. destruct (G1 He x) as [a b]. split; [|exact b].
    rewrite mark_lost_spec. destruct (mem x _); [discriminate|exact a].
  - intros x. rewrite mark_lost_spec. destruct (mem x _); [discriminate|apply G3].
Qed.

Lemma mu_start w : InvT w -> mu (stepT w LStart) = mu w.
Proof.
  intro HI. unfold mu. f_equal. apply sumf_ext. intros t _. apply tau_ext; try reflexivity.
Abort.

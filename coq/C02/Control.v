(* C02 — control plane of the distributed executor under machine loss.
   Executable model, NO proofs.  Anchors (grailbio/bigslice):
     exec/bigmachine.go  bigmachineExecutor.Run   :298-460  (offer, Worker.Run, reply switch)
     exec/bigmachine.go  worker.Run               :738-1046 (dependency reads; a failed read is a
                                                      non-fatal error => `default:` => TaskLost)
     exec/bigmachine.go  evalOpenerAt.OpenAt / retryReader.Read (scan of the roots)
     exec/slicemachine.go sliceMachine.Assign :118, sliceMachine.Go :216-226 (loss handling)
     exec/eval.go        Eval dispatch loop, Task.countLost, state.Enqueue/Return

   Tasks are indices into the graph [g] (dependency lists; ids are a topological
   numbering).  Machines are indices into [wms]; a replacement gets a fresh index.

   Atomic steps (labels).  Driver:
     LDispatch t   eval.go: the main loop takes t from Runnable(): countLost, LOST->INIT,
                   INIT->WAITING, lossUncounted:=true, go executor.Run(t)
     LRun t m      Run: the manager offers m (never a machine it knows lost), the
                   Worker.Run RPC is executed by m: reads every dependency (local store,
                   else through the location table), commits the output.  RPC failure
                   (m dead, or a dependency unreadable) is the `default:` case: TaskLost.
     LReply1 t     `case err == nil`, first half: setLocation; then Set(TaskOk)
                   (ok_before_assign = true, the code) or Assign (swapped order)
     LReply2 t     second half: the other statement.  Assign on a machine already known
                   lost sets TaskLost (slicemachine.go:121).
     LReturn t     the waiter goroutine sees state >= TaskOk, does the consecutive-loss
                   bookkeeping, and the main loop calls state.Return(t)
     LFinish       Eval returns nil (no todo, nothing pending): scanning starts
     LScan         one attempt of the reader of the current root: Eval([root]) has
                   returned nil, Worker.Read through the location table
   Environment:
     LKill m       machine m dies: store gone, RPCs to it fail
     LNotice m     sliceMachine.Go leaves its loop: lost:=true, every assigned task LOST
     LStart        a replacement machine comes up (empty)

   Abstraction of the evaluator's waitlist (deps/counts/todo): [runnable] is what
   state.Enqueue(roots) would put in todo if called now.  The code calls Enqueue
   only from Return, so its dispatches are a subset of the model's; the evaluator's
   own bookkeeping is the subject of C03. *)
From Coq Require Import List ZArith Bool Arith.
Import ListNotations.

Notation rows := (list (list Z)) (only parsing).

Inductive tstate := TInit | TWaiting | TRunning | TOk | TErr | TLost.
Definition st_eqb (a b : tstate) : bool :=
  match a, b with
  | TInit, TInit | TWaiting, TWaiting | TRunning, TRunning | TOk, TOk | TErr, TErr | TLost, TLost => true
  | _, _ => false
  end.
(* state >= TaskOk *)
Definition ge_ok (s : tstate) : bool :=
  match s with TOk | TErr | TLost => true | _ => false end.

(* where bigmachineExecutor.Run stands for a task *)
Inductive tphase :=
| PNone
| PReplied (m : nat)   (* Worker.Run returned nil from m; reply not yet processed *)
| PMid (m : nat).      (* between the two statements Set(TaskOk) / m.Assign(task) *)

Record mach := mkM {
  malive : bool;                 (* the process is up *)
  mlost : bool;                  (* sliceMachine.lost (and machineManager health = lost) *)
  mtasks : list nat;             (* sliceMachine.tasks *)
  mstore : list (nat * list (list Z))  (* committed task outputs *)
}.

Inductive mode :=
| MEval                                            (* Session.run: Eval(roots) *)
| MScan (i : nat) (acc : list (list (list Z))) (retries : nat)  (* reading root number i *)
| MDone (out : list (list (list Z)))
| MFail.

Record world := mkW {
  wms : list mach;
  wst : nat -> tstate;
  wph : nat -> tphase;
  wcl : nat -> nat;              (* Task.consecutiveLost *)
  wunc : nat -> bool;            (* Task.lossUncounted *)
  wloc : nat -> option nat;      (* bigmachineExecutor.locations *)
  wpend : list nat;              (* state.pending of the running Eval *)
  werr : bool;                   (* state.err != nil *)
  wmode : mode
}.

Inductive label :=
| LDispatch (t : nat) | LRun (t m : nat) | LReply1 (t : nat) | LReply2 (t : nat)
| LReturn (t : nat) | LFinish | LScan
| LKill (m : nat) | LNotice (m : nat) | LStart.

Inductive outcome := Success (out : list (list (list Z))) | Failed | Stalled | OutOfFuel.

Definition upd {A} (f : nat -> A) (k : nat) (v : A) : nat -> A :=
  fun x => if Nat.eqb x k then v else f x.
Definition mem (x : nat) (l : list nat) : bool := existsb (Nat.eqb x) l.
Definition rm (x : nat) (l : list nat) : list nat := filter (fun y => negb (Nat.eqb x y)) l.
Definition dead_mach : mach := mkM false true [] [].
Definition getm (w : world) (m : nat) : mach := nth m (wms w) dead_mach.
Fixpoint set_nth {A} (l : list A) (i : nat) (x : A) : list A :=
  match l, i with
  | [], _ => []
  | _ :: r, O => x :: r
  | y :: r, S j => y :: set_nth r j x
  end.
Definition lookup (t : nat) (s : list (nat * list (list Z))) : option (list (list Z)) :=
  match find (fun e => Nat.eqb (fst e) t) s with Some e => Some (snd e) | None => None end.

(* world updates *)
Definition set_ms (w : world) (x : list mach) : world :=
  mkW x (wst w) (wph w) (wcl w) (wunc w) (wloc w) (wpend w) (werr w) (wmode w).
Definition set_st (w : world) (x : nat -> tstate) : world :=
  mkW (wms w) x (wph w) (wcl w) (wunc w) (wloc w) (wpend w) (werr w) (wmode w).
Definition set_ph (w : world) (x : nat -> tphase) : world :=
  mkW (wms w) (wst w) x (wcl w) (wunc w) (wloc w) (wpend w) (werr w) (wmode w).
Definition set_cl (w : world) (x : nat -> nat) : world :=
  mkW (wms w) (wst w) (wph w) x (wunc w) (wloc w) (wpend w) (werr w) (wmode w).
Definition set_unc (w : world) (x : nat -> bool) : world :=
  mkW (wms w) (wst w) (wph w) (wcl w) x (wloc w) (wpend w) (werr w) (wmode w).
Definition set_loc (w : world) (x : nat -> option nat) : world :=
  mkW (wms w) (wst w) (wph w) (wcl w) (wunc w) x (wpend w) (werr w) (wmode w).
Definition set_pend (w : world) (x : list nat) : world :=
  mkW (wms w) (wst w) (wph w) (wcl w) (wunc w) (wloc w) x (werr w) (wmode w).
Definition set_err (w : world) (x : bool) : world :=
  mkW (wms w) (wst w) (wph w) (wcl w) (wunc w) (wloc w) (wpend w) x (wmode w).
Definition set_mode (w : world) (x : mode) : world :=
  mkW (wms w) (wst w) (wph w) (wcl w) (wunc w) (wloc w) (wpend w) (werr w) x.

Definition init_world (nmach : nat) : world :=
  mkW (repeat (mkM true false [] []) nmach) (fun _ => TInit) (fun _ => PNone)
      (fun _ => 0) (fun _ => false) (fun _ => None) [] false MEval.

Section Control.
(* the deterministic function of a task: its output given its inputs' outputs *)
Variable compute : nat -> list (list (list Z)) -> list (list Z).
(* true = the statement order of the code: Set(TaskOk) before m.Assign(task) *)
Variable okb : bool.
(* maxConsecutiveLost (eval.go) *)
Variable max_lost : nat.
(* tries of the scanning reader's retry policy (bigmachine.go retryPolicy) *)
Variable max_retry : nat.
(* the compiled task graph: dependencies of each task, and the root tasks *)
Variable g : list (list nat).
Variable roots : list nat.

Definition deps_of (t : nat) : list nat := nth t g [].
Definition ntasks : nat := length g.
(* ids are a topological numbering *)
Definition wf_graph : bool :=
  forallb (fun t => forallb (fun d => Nat.ltb d t) (deps_of t)) (seq 0 ntasks)
  && forallb (fun r => Nat.ltb r ntasks) roots.

(* the failure-free value of a task, by recursion on the DAG (fuel = S t suffices) *)
Fixpoint value_f (fuel : nat) (t : nat) : list (list Z) :=
  match fuel with
  | O => []
  | S f => compute t (map (value_f f) (deps_of t))
  end.
Definition value (t : nat) : list (list Z) := value_f (S t) t.
Definition ff_rows : list (list (list Z)) := map value roots.

(* ---- reads ---- *)
(* Worker.Read / Worker.Stat on machine m for task d *)
Definition read_at (w : world) (m d : nat) : option (list (list Z)) :=
  if malive (getm w m) then lookup d (mstore (getm w m)) else None.
(* through the driver's location table *)
Definition read_loc (w : world) (d : nat) : option (list (list Z)) :=
  match wloc w d with Some m => read_at w m d | None => None end.
(* worker.Run on machine m: the local store first (bigmachine.go:874), else the
   location sent with the request *)
Definition read_dep (w : world) (m d : nat) : option (list (list Z)) :=
  match read_at w m d with Some r => Some r | None => read_loc w d end.
Fixpoint gather (w : world) (m : nat) (ds : list nat) : option (list (list (list Z))) :=
  match ds with
  | [] => Some []
  | d :: rest => match read_dep w m d, gather w m rest with
                 | Some r, Some l => Some (r :: l)
                 | _, _ => None
                 end
  end.

(* ---- the evaluator ---- *)
Definition is_ok (s : tstate) : bool := st_eqb s TOk.
(* what state.Enqueue(t) schedules: t if all its dependencies are OK, else what
   Enqueue of the dependencies schedules.  Pending tasks are not scheduled again. *)
Fixpoint enq (fuel : nat) (w : world) (t : nat) : list nat :=
  match fuel with
  | O => []
  | S f =>
      if mem t (wpend w) then []
      else match wst w t with
           | TInit | TLost =>
               if forallb (fun d => is_ok (wst w d)) (deps_of t) then [t]
               else flat_map (enq f w) (deps_of t)
           | _ => []
           end
  end.
(* the roots of the running Eval: all roots, or the root being read *)
Definition targets (w : world) : list nat :=
  match wmode w with
  | MEval => roots
  | MScan i _ _ => match nth_error roots i with Some r => [r] | None => [] end
  | _ => []
  end.
Definition runnable (w : world) : list nat := flat_map (enq (S ntasks) w) (targets w).
Definition active (w : world) : bool :=
  negb (werr w) && match wmode w with MEval | MScan _ _ _ => true | _ => false end.

(* Task.countLost, eval.go *)
Definition count_lost (w : world) (t : nat) : world :=
  if wunc w t then
    let c := S (wcl w t) in
    let w1 := set_cl (set_unc w (upd (wunc w) t false)) (upd (wcl w) t c) in
    if Nat.ltb c max_lost then w1 else set_st w1 (upd (wst w1) t TErr)
  else w.

(* ---- machines ---- *)
Definition upd_mach (w : world) (m : nat) (x : mach) : world := set_ms w (set_nth (wms w) m x).
(* sliceMachine.Assign, slicemachine.go:118-126 *)
Definition assign (w : world) (m t : nat) : world :=
  let mm := getm w m in
  if mlost mm then set_st w (upd (wst w) t TLost)
  else upd_mach w m (mkM (malive mm) (mlost mm) (t :: rm t (mtasks mm)) (mstore mm)).
Definition commit (w : world) (m t : nat) (r : list (list Z)) : world :=
  let mm := getm w m in
  upd_mach w m (mkM (malive mm) (mlost mm) (mtasks mm) ((t, r) :: mstore mm)).
Definition mark_lost (st : nat -> tstate) (ts : list nat) : nat -> tstate :=
  fold_left (fun s t => upd s t TLost) ts st.

Definition scan_start (i : nat) (acc : list (list (list Z))) : mode :=
  match nth_error roots i with Some _ => MScan i acc 0 | None => MDone acc end.

(* ---- one atomic step; a label whose guard fails leaves the world unchanged ---- *)
Definition step (w : world) (l : label) : world :=
  match l with
  | LDispatch t =>
      if active w && mem t (runnable w) then
        let w1 := if st_eqb (wst w t) TLost then count_lost w t else w in
        if st_eqb (wst w1 t) TErr then set_err w1 true
        else set_pend (set_unc (set_st w1 (upd (wst w1) t TWaiting)) (upd (wunc w1) t true))
                      (t :: wpend w1)
      else w
  | LRun t m =>
      match wst w t, wph w t with
      | TWaiting, PNone =>
          if Nat.ltb m (length (wms w)) && negb (mlost (getm w m)) then
            match (if malive (getm w m) then gather w m (deps_of t) else None) with
            | Some ins =>
                let w1 := commit w m t (compute t ins) in
                set_ph (set_st w1 (upd (wst w1) t TRunning)) (upd (wph w1) t (PReplied m))
            | None => set_st w (upd (wst w) t TLost)       (* `default:` bigmachine.go:453 *)
            end
          else w
      | _, _ => w
      end
  | LReply1 t =>
      match wph w t with
      | PReplied m =>
          let w1 := set_loc w (upd (wloc w) t (Some m)) in
          let w2 := if okb then set_st w1 (upd (wst w1) t TOk) else assign w1 m t in
          set_ph w2 (upd (wph w2) t (PMid m))
      | _ => w
      end
  | LReply2 t =>
      match wph w t with
      | PMid m =>
          let w2 := if okb then assign w m t else set_st w (upd (wst w) t TOk) in
          set_ph w2 (upd (wph w2) t PNone)
      | _ => w
      end
  | LReturn t =>
      if active w && mem t (wpend w) && ge_ok (wst w t) then
        let w1 := match wst w t with
                  | TOk => set_unc (set_cl w (upd (wcl w) t 0)) (upd (wunc w) t false)
                  | TLost => count_lost w t
                  | _ => w
                  end in
        let w2 := set_pend w1 (rm t (wpend w1)) in
        if st_eqb (wst w2 t) TErr then set_err w2 true else w2
      else w
  | LFinish =>
      match wmode w with
      | MEval =>
          if active w && match wpend w with [] => true | _ => false end
             && forallb (fun r => is_ok (wst w r)) roots
          then set_mode w (scan_start 0 []) else w
      | _ => w
      end
  | LScan =>
      match wmode w with
      | MScan i acc k =>
          match nth_error roots i with
          | Some r =>
              if active w && match wpend w with [] => true | _ => false end && is_ok (wst w r) then
                match read_loc w r with
                | Some rws => set_mode w (scan_start (S i) (acc ++ [rws]))
                | None => set_mode w (if Nat.ltb k max_retry then MScan i acc (S k) else MFail)
                end
              else w
          | None => w
          end
      | _ => w
      end
  | LKill m =>
      if Nat.ltb m (length (wms w)) then
        let mm := getm w m in upd_mach w m (mkM false (mlost mm) (mtasks mm) [])
      else w
  | LNotice m =>
      if Nat.ltb m (length (wms w)) then
        let mm := getm w m in
        let w1 := upd_mach w m (mkM (malive mm) true [] (mstore mm)) in
        set_st w1 (mark_lost (wst w1) (mtasks mm))
      else w
  | LStart => set_ms w (wms w ++ [mkM true false [] []])
  end.

(* an arbitrary history *)
Definition run (w : world) (h : list label) : world := fold_left step h w.

Definition outcome_of (w : world) : option outcome :=
  match wmode w with
  | MDone out => Some (Success out)
  | MFail => Some Failed
  | _ => if werr w then Some Failed else None
  end.

(* ---- the fair scheduler ---- *)
Definition nopend (w : world) : bool := match wpend w with [] => true | _ => false end.
Definition finish_ok (w : world) : bool :=
  match wmode w with
  | MEval => active w && nopend w && forallb (fun r => is_ok (wst w r)) roots
  | _ => false
  end.
Definition scan_ok (w : world) : bool :=
  match wmode w with
  | MScan i _ _ =>
      match nth_error roots i with
      | Some r => active w && nopend w && is_ok (wst w r)
      | None => false
      end
  | _ => false
  end.
Definition find_task (p : nat -> bool) : option nat := find p (seq 0 ntasks).
Definition is_mid (p : tphase) : bool := match p with PMid _ => true | _ => false end.
Definition is_replied (p : tphase) : bool := match p with PReplied _ => true | _ => false end.
Definition is_none (p : tphase) : bool := match p with PNone => true | _ => false end.
(* the machine the manager offers: one it does not know to be lost *)
Definition pick_machine (w : world) : option nat :=
  find (fun m => negb (mlost (getm w m))) (seq 0 (length (wms w))).

(* the driver's next own step: finish what Run has in hand, then hand waiting
   tasks to a machine (starting a replacement when every machine is lost and the
   system can still provide one), then the waiters, then the dispatch loop, then
   the end of Eval and the scan.  None = nothing is enabled. *)
Definition next (spares : nat) (w : world) : option label :=
  match find_task (fun t => is_mid (wph w t)) with
  | Some t => Some (LReply2 t)
  | None =>
  match find_task (fun t => is_replied (wph w t)) with
  | Some t => Some (LReply1 t)
  | None =>
  match find_task (fun t => st_eqb (wst w t) TWaiting && is_none (wph w t)),
        pick_machine w, spares with
  | Some t, Some m, _ => Some (LRun t m)
  | Some t, None, S _ => Some LStart
  | _, _, _ =>
  match (if active w then find (fun t => ge_ok (wst w t)) (wpend w) else None) with
  | Some t => Some (LReturn t)
  | None =>
  match (if active w then runnable w else []) with
  | t :: _ => Some (LDispatch t)
  | [] => if finish_ok w then Some LFinish else if scan_ok w then Some LScan else None
  end end end end end.

Definition is_start (l : label) : bool := match l with LStart => true | _ => false end.

(* [inj] = the environment's events, each with the number of own steps the
   driver takes before it.  After the last one the driver runs until it has an
   outcome or nothing is enabled (Stalled: tasks wait for a machine that the
   system never provides; Run blocks in `case m = <-offerc`, bigmachine.go:338). *)
Fixpoint drive (fuel spares : nat) (w : world) (inj : list (nat * label)) : outcome :=
  match fuel with
  | O => OutOfFuel
  | S f =>
      match outcome_of w with
      | Some o => o
      | None =>
          match inj with
          | (S k, e) :: r =>
              match next spares w with
              | Some l => drive f (if is_start l then pred spares else spares) (step w l) ((k, e) :: r)
              | None => drive f spares (step w e) r
              end
          | (O, e) :: r => drive f spares (step w e) r
          | [] =>
              match next spares w with
              | Some l => drive f (if is_start l then pred spares else spares) (step w l) []
              | None => Stalled
              end
          end
      end
  end.

(* the world reached (same schedule), for inspection *)
Fixpoint drive_world (fuel spares : nat) (w : world) (inj : list (nat * label)) : world * list label :=
  match fuel with
  | O => (w, [])
  | S f =>
      match outcome_of w with
      | Some o => (w, [])
      | None =>
          match inj with
          | (S k, e) :: r =>
              match next spares w with
              | Some l => let '(w', tr) := drive_world f (if is_start l then pred spares else spares) (step w l) ((k, e) :: r) in (w', l :: tr)
              | None => let '(w', tr) := drive_world f spares (step w e) r in (w', e :: tr)
              end
          | (O, e) :: r => let '(w', tr) := drive_world f spares (step w e) r in (w', e :: tr)
          | [] =>
              match next spares w with
              | Some l => let '(w', tr) := drive_world f (if is_start l then pred spares else spares) (step w l) [] in (w', l :: tr)
              | None => (w, [])
              end
          end
      end
  end.
End Control.

(* C02 — a small model of the distributed executor's data plane under machine
   loss: task outputs live in per-machine stores, the driver keeps a location
   table, machines die at arbitrary moments. No proofs in this file. *)
From Coq Require Import List ZArith Bool.
Import ListNotations.

Notation rows := (list (list Z)) (only parsing).

Record world := mkW {
  alive : list nat;                       (* machines that are up *)
  store : list (nat * nat * list (list Z)); (* (machine, task, committed output) *)
  loc : list (nat * nat)                  (* driver's location table: task -> machine (task state OK) *)
}.

Definition lookup_loc (w : world) (t : nat) : option nat :=
  match find (fun p => Nat.eqb (fst p) t) (loc w) with Some p => Some (snd p) | None => None end.
Definition is_alive (w : world) (m : nat) : bool := existsb (Nat.eqb m) (alive w).
Definition stored (w : world) (m t : nat) : option (list (list Z)) :=
  match find (fun e => Nat.eqb (fst (fst e)) m && Nat.eqb (snd (fst e)) t) (store w) with
  | Some e => Some (snd e) | None => None end.

(* reading task t's output as a consumer or the final scan does: through the
   location table, from the machine's store; a dead or unknown location is an error *)
Inductive rd := Got (r : list (list Z)) | RdErr.
Definition read (w : world) (t : nat) : rd :=
  match lookup_loc w t with
  | Some m => if is_alive w m then match stored w m t with Some r => Got r | None => RdErr end else RdErr
  | None => RdErr
  end.

Inductive ev :=
| ERun (t m : nat) (deps : list nat)   (* run task t on machine m *)
| EKill (m : nat)                      (* machine m dies (its store is gone) *)
| ENotice (m : nat)                    (* the driver notices: tasks located on m become LOST *)
| EStart (m : nat).                    (* a replacement machine comes up, empty *)

(* the deterministic function of a task: its output given its inputs' outputs *)
Section Exec.
Variable compute : nat -> list (list (list Z)) -> list (list Z).

Fixpoint gather (w : world) (deps : list nat) : option (list (list (list Z))) :=
  match deps with
  | [] => Some []
  | d :: rest => match read w d, gather w rest with
                 | Got r, Some l => Some (r :: l)
                 | _, _ => None
                 end
  end.

Definition step (w : world) (e : ev) : world :=
  match e with
  | ERun t m deps =>
      if is_alive w m then
        match gather w deps with
        | Some ins =>   (* commit, reply, setLocation *)
            mkW (alive w) ((m, t, compute t ins) :: store w) ((t, m) :: loc w)
        | None => w     (* a dependency could not be read: the task is lost, nothing recorded *)
        end
      else w
  | EKill m => mkW (filter (fun x => negb (Nat.eqb x m)) (alive w))
                   (filter (fun e => negb (Nat.eqb (fst (fst e)) m)) (store w)) (loc w)
  | ENotice m => mkW (alive w) (store w) (filter (fun p => negb (Nat.eqb (snd p) m)) (loc w))
  | EStart m => if is_alive w m then w else mkW (m :: alive w) (filter (fun e => negb (Nat.eqb (fst (fst e)) m)) (store w)) (loc w)
  end.

Definition run (w : world) (h : list ev) : world := fold_left step h w.
End Exec.

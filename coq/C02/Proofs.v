From Coq Require Import List ZArith Bool Lia.
Import ListNotations.
Require Import BS.C02.Model.

Section Proofs.
Variable compute : nat -> list (list (list Z)) -> list (list Z).
(* the dependency structure of the compiled graph and the failure-free value of a task *)
Variable deps_of : nat -> list nat.
Variable value : nat -> list (list Z).
Hypothesis value_spec : forall t, value t = compute t (map value (deps_of t)).

(* every stored output is the task's failure-free value *)
Definition Inv (w : world) : Prop :=
  forall m t r, In (m, t, r) (store w) -> r = value t.

Definition well_run (e : ev) : Prop :=
  match e with ERun t _ deps => deps = deps_of t | _ => True end.

Lemma stored_in w m t r : stored w m t = Some r -> In (m, t, r) (store w).
Proof.
  unfold stored. destruct (find _ (store w)) as [e|] eqn:E; [|discriminate].
  intro H. inversion H; subst. apply find_some in E as [Hin Hb].
  apply andb_true_iff in Hb as [H1 H2]. apply Nat.eqb_eq in H1, H2.
  destruct e as [[m' t'] r']. simpl in *. subst. exact Hin.
Qed.

Lemma read_value w t r : Inv w -> read w t = Got r -> r = value t.
Proof.
  intros HI. unfold read. destruct (lookup_loc w t) as [m|]; [|discriminate].
  destruct (is_alive w m); [|discriminate].
  destruct (stored w m t) as [r'|] eqn:E; [|discriminate].
  intro H. inversion H; subst. apply (HI m t). apply stored_in. exact E.
Qed.

Lemma gather_values w : Inv w -> forall ds ins, gather w ds = Some ins -> ins = map value ds.
Proof.
  intro HI. induction ds as [|d ds IH]; intros ins H; simpl in H.
  - inversion H. reflexivity.
  - destruct (read w d) as [r|] eqn:Er; [|discriminate].
    destruct (gather w ds) as [l|] eqn:Eg; [|discriminate].
    inversion H; subst. simpl. f_equal; [eapply read_value; eassumption|apply IH; reflexivity].
Qed.

Lemma step_inv w e : Inv w -> well_run e -> Inv (step compute w e).
Proof.
  intros HI Hw. destruct e as [t m ds|m|m|m]; simpl.
  - destruct (is_alive w m); [|exact HI].
    destruct (gather w ds) as [ins|] eqn:Eg; [|exact HI].
    intros m' t' r [H|H].
    + inversion H; subst. simpl in Hw. subst ds. rewrite (gather_values w HI _ _ Eg). symmetry. apply value_spec.
    + apply (HI m' t' r H).
  - intros m' t' r H. simpl in H. apply filter_In in H as [H _]. apply (HI m' t' r H).
  - exact HI.
  - destruct (is_alive w m); [exact HI|].
    intros m' t' r H. simpl in H. apply filter_In in H as [H _]. apply (HI m' t' r H).
Qed.

Theorem inv_all_histories : forall h w, Inv w -> Forall well_run h -> Inv (run compute w h).
Proof.
  induction h as [|e h IH]; intros w HI Hh; simpl; [exact HI|].
  inversion Hh; subst. apply IH; [apply step_inv; assumption|assumption].
Qed.

(* NEVER WRONG ROWS: after any history of task runs, machine deaths (noticed or
   not yet noticed by the driver) and replacements, a read that succeeds returns
   exactly the rows of a failure-free run; anything else is an error *)
Theorem never_wrong_rows : forall h t r,
  Forall well_run h ->
  read (run compute (mkW [] [] []) h) t = Got r -> r = value t.
Proof.
  intros h t r Hh H. eapply read_value; [|exact H].
  apply inv_all_histories; [intros m t' r' []|exact Hh].
Qed.

(* reading from a machine that died is an error even before the driver notices *)
Theorem dead_location_is_error : forall w m t,
  lookup_loc w t = Some m -> is_alive w m = false -> read w t = RdErr.
Proof. intros w m t Hl Ha. unfold read. rewrite Hl, Ha. reflexivity. Qed.

(* recomputation: on a live machine, with readable dependencies, a run makes the
   task readable again, with the failure-free value *)
Theorem rerun_restores : forall w t m,
  Inv w -> is_alive w m = true -> (forall d, In d (deps_of t) -> exists r, read w d = Got r) ->
  read (step compute w (ERun t m (deps_of t))) t = Got (value t).
Proof.
  intros w t m HI Ha Hd. simpl. rewrite Ha.
  assert (Hg : exists ins, gather w (deps_of t) = Some ins).
  { induction (deps_of t) as [|d ds IH]; [exists []; reflexivity|].
    destruct (Hd d (or_introl eq_refl)) as [r Hr].
    destruct IH as [l Hl]; [intros d' Hd'; apply Hd; right; exact Hd'|].
    exists (r :: l). simpl. rewrite Hr, Hl. reflexivity. }
  destruct Hg as [ins Hg]. rewrite Hg.
  unfold read, lookup_loc, stored, is_alive. simpl. rewrite !Nat.eqb_refl. simpl.
  unfold is_alive in Ha. rewrite Ha. rewrite (gather_values w HI _ _ Hg). rewrite <- value_spec. reflexivity.
Qed.
End Proofs.

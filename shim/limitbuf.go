package limitbuf

import "strings"

// Logger is like strings.Builder, but with maximum length.  If the caller tries
// to add data beyond the capacity, they will be dropped, and Logger.String()
// will append "(truncated)" at the end.
type Logger struct {
	maxLen       int
	truncated    bool
	addedTrailer bool
	b            strings.Builder
}

// NewLogger creates a new Logger object with the given capacity.
func NewLogger(maxLen int, opts ...LoggerOption) *Logger {
	return &Logger{maxLen: maxLen}
}

// LoggerOption (verif shim) is accepted and ignored.
type LoggerOption func(*Logger)

// LogIfTruncatingMaxMultiple (verif shim) is accepted and ignored.
func LogIfTruncatingMaxMultiple(float64) LoggerOption { return func(*Logger) {} }

// Write implements io.Writer interface.
func (b *Logger) Write(data []byte) (int, error) {
	n := b.maxLen - b.b.Len()
	if n > len(data) {
		n = len(data)
	}
	if n > 0 {
		b.b.Write(data[:n])
	}
	if n < len(data) {
		b.truncated = true
	}
	return len(data), nil
}

// String reports the data written so far. If the length of the data exceeds the
// buffer capacity, the prefix of the data, plus "(truncated)" will be reported.
func (b *Logger) String() string {
	if b.truncated {
		if !b.addedTrailer {
			b.b.WriteString("(truncated)")
			b.addedTrailer = true
		}
	}
	return b.b.String()
}

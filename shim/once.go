// Copyright 2018 GRAIL, Inc. All rights reserved.
// Use of this source code is governed by the Apache-2.0
// license that can be found in the LICENSE file.

package errors

import (
	"context"
	"sync"
	"sync/atomic"
	"unsafe"
)

// Once captures at most one error. Errors are safely set across
// multiple goroutines.
//
// A zero Once is ready to use.
//
// Example:
// 	var e errors.Once
// 	e.Set(errors.New("test error 0"))
type Once struct {
	// Ignored is a list of errors that will be dropped in Set(). Ignored
	// typically includes io.EOF.
	Ignored []error
	mu      sync.Mutex
	err     unsafe.Pointer // stores *error
}

// Err returns the first non-nil error passed to Set.  Calling Err is
// cheap (~1ns).
func (e *Once) Err() error {
	p := atomic.LoadPointer(&e.err) // Acquire load
	if p == nil {
		return nil
	}
	return *(*error)(p)
}

// Set sets this instance's error to err. Only the first error
// is set; subsequent calls are ignored.
func (e *Once) Set(err error) {
	if err != nil {
		for _, ignored := range e.Ignored {
			if err == ignored {
				return
			}
		}
		e.mu.Lock()
		if e.err == nil && err != nil {
			atomic.StorePointer(&e.err, unsafe.Pointer(&err)) // Release store
		}
		e.mu.Unlock()
	}
}

// CleanUp (verif shim; absent from base v0.0.9) sets *dst to the error of
// cleanUp if *dst is nil.
func CleanUp(cleanUp func() error, dst *error) {
	if err := cleanUp(); err != nil && *dst == nil {
		*dst = err
	}
}

// CleanUpCtx is CleanUp for clean-up functions taking a context.
func CleanUpCtx(ctx context.Context, cleanUp func(context.Context) error, dst *error) {
	if err := cleanUp(ctx); err != nil && *dst == nil {
		*dst = err
	}
}

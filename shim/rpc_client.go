// Copyright 2018 GRAIL, Inc. All rights reserved.
// Use of this source code is governed by the Apache 2.0
// license that can be found in the LICENSE file.

package rpc

import (
	"bytes"
	"context"
	"encoding/gob"
	"fmt"
	"io"
	"io/ioutil"
	"net/http"
	"strings"
	"sync"
	"time"

	"github.com/grailbio/base/errors"
	"github.com/grailbio/base/limitbuf"
	"github.com/grailbio/base/log"
	"golang.org/x/net/context/ctxhttp"
	"golang.org/x/time/rate"
)

const (
	gobContentType = "application/x-gob"

	// We warn on RPC payloads above this size.
	largeRpcPayload = 64 << 20
)

// Loggers used to inform the user of large payloads, but without
// spamming them.
var (
	largeArgLogger   = &rateLimitingOutputter{rate.NewLimiter(rate.Every(time.Minute), 2), log.GetOutputter()}
	largeReplyLogger = &rateLimitingOutputter{rate.NewLimiter(rate.Every(time.Minute), 2), log.GetOutputter()}
)

// clientState stores the state of a single client to a single server;
// used to reset client connections when needed.
type clientState struct {
	addr    string
	factory func() *http.Client

	once   sync.Once
	cached *http.Client
}

func (c *clientState) init() {
	c.cached = c.factory()
}

func (c *clientState) Client() *http.Client {
	c.once.Do(c.init)
	return c.cached
}

// A Client invokes remote methods on RPC servers.
type Client struct {
	factory func() *http.Client
	prefix  string

	// Loggers contains a rate limiting logger per client;
	// use getLogger to retrieve it.
	loggers sync.Map // map[string]*rateLimitingOutputter

	mu      sync.Mutex
	clients map[string]*clientState
}

// NewClient creates a new RPC client.  clientFactory is called to create a new
// http.Client object. It may be called repeatedly and concurrently. prefix is
// prepended to the service method when constructing an URL.
func NewClient(clientFactory func() *http.Client, prefix string) (*Client, error) {
	return &Client{
		factory: clientFactory,
		prefix:  prefix,
		clients: make(map[string]*clientState),
	}, nil
}

func (c *Client) getClient(addr string) *clientState {
	c.mu.Lock()
	defer c.mu.Unlock()
	h := c.clients[addr]
	if h == nil {
		h = &clientState{
			addr:    addr,
			factory: c.factory,
		}
		c.clients[addr] = h
	}
	return h
}

// updateClientState updates h based on its current state and err.
func (c *Client) updateClientState(h *clientState, err error, serviceMethod string) {
	c.mu.Lock()
	defer c.mu.Unlock()
	if err != nil && c.clients[h.addr] == h {
		log.Outputf(c.getLogger(h.addr), log.Error, "resetting http client %s while calling to %s: %s", h.addr, serviceMethod, err.Error())
		delete(c.clients, h.addr)
	}
	if c.clients[h.addr] != h {
		// h is defunct, so we close idle connections to enable collection.
		h.cached.CloseIdleConnections()
	}
}

func (c *Client) getLogger(addr string) *rateLimitingOutputter {
	v, ok := c.loggers.Load(addr)
	if ok {
		return v.(*rateLimitingOutputter)
	}
	v, _ = c.loggers.LoadOrStore(addr, &rateLimitingOutputter{rate.NewLimiter(rate.Every(time.Minute), 1), log.GetOutputter()})
	return v.(*rateLimitingOutputter)
}

// Call invokes a method on the server named by the provided address.
// The method syntax is "Service.Method": Service is the name of the
// registered service; Method names the method to invoke.
//
// The argument and reply are encoded in accordance with the
// description of the package docs.
//
// If the argument is an io.Reader, it is streamed directly to the
// server method. In this case, Call does not return until the data
// are fully streamed. If the reply is an *io.ReadCloser, the reply
// is streamed directly from the server method. In this case, Call
// returns once the stream is available, and the client is
// responsible for fully reading the data and closing the reader. If
// an error occurs while the response is streamed, the returned
// io.ReadCloser errors on read.
//
// If the argument is a (func () io.Reader), it is called to get a reader
// streamed directly to the server method as above. This is mostly useful when
// using Call in a retry loop, as you often want to create a new reader for each
// call, as opposed to continuing from whatever unknown state remains from
// previously attempted calls.
//
// Remote errors are decoded into *errors.Error and returned.
// (Non-*errors.Error errors are converted by the server.) The RPC
// client does not pass on errors of kind errors.Net; these are
// converted to errors.Other. This way, any error of the kind
// errors.Net is guaranteed to originate from the immediate call;
// they are never from the application.
func (c *Client) Call(ctx context.Context, addr, serviceMethod string, arg, reply interface{}) (err error) {
	done := clientstats.Start(addr, serviceMethod)
	var (
		requestBytes = -1
		replyBytes   = -1
	)
	defer func() {
		done(int64(requestBytes), int64(replyBytes), err)
	}()
	url := strings.TrimRight(addr, "/") + c.prefix + serviceMethod
	if log.At(log.Debug) {
		call := fmt.Sprint("call ", addr, " ", serviceMethod, " ", truncatef(arg))
		log.Debug.Print(call)
		defer func() {
			if err != nil {
				log.Debug.Print(call, " error: ", err)
			} else {
				log.Debug.Print(call, " ok: ", truncatef(reply))
			}
		}()
	}
	var (
		body        io.Reader
		contentType string
	)
	switch arg := arg.(type) {
	case func() io.Reader:
		body = arg()
		contentType = "application/octet-stream"
	case io.Reader:
		body = arg
		contentType = "application/octet-stream"
	case func() (io.Reader, error): // verif shim: later bigmachine API used by bigslice
		var rerr error
		body, rerr = arg()
		if rerr != nil {
			return rerr
		}
		contentType = "application/octet-stream"
	default:
		b := new(bytes.Buffer)
		enc := gob.NewEncoder(b)
		if err := enc.Encode(arg); err != nil {
			// Because we are writing into a Buffer, any error we see is a
			// failure to encode, which will not succeed on retry without
			// intervention.
			return errors.E(errors.Fatal, errors.Invalid, err)
		}
		requestBytes = b.Len()
		if requestBytes > largeRpcPayload {
			log.Outputf(largeArgLogger, log.Info, "call %s %s: large argument: %d bytes", addr, serviceMethod, requestBytes)
		}
		body = b
		contentType = gobContentType
	}

	h := c.getClient(addr)
	defer func() {
		c.updateClientState(h, err, serviceMethod)
	}()
	resp, err := ctxhttp.Post(ctx, h.Client(), url, contentType, body)
	switch err {
	case nil:
	case context.DeadlineExceeded, context.Canceled:
		return err
	default:
		return errors.E(errors.Net, errors.Temporary, err)
	}
	if InjectFailures {
		resp.Body = &rpcFaultInjector{label: fmt.Sprintf("%s(%s)", serviceMethod, addr), in: resp.Body}
	}
	switch arg := reply.(type) {
	case *io.ReadCloser:
		if resp.StatusCode == 200 {
			// Wrap the actual response in a stream reader so that errors are
			// propagated properly. Callers are responsible for closing the
			// stream.
			*arg = streamReader{resp}
			return nil
		}
		// In all other cases, we close the body.
		defer resp.Body.Close()
		switch {
		case resp.StatusCode == methodErrorCode:
			dec := gob.NewDecoder(resp.Body)
			return decodeError(serviceMethod, dec)
		case 400 <= resp.StatusCode && resp.StatusCode < 500:
			body, err := ioutil.ReadAll(resp.Body)
			return errors.E(errors.Fatal, errors.Invalid, fmt.Sprintf("%s: client error %s, %v, %v", url, resp.Status, string(body), err))
		default:
			body, err := ioutil.ReadAll(resp.Body)
			return errors.E(errors.Fatal, errors.Invalid, fmt.Sprintf("%s: bad reply status %s, %v, %v", url, resp.Status, string(body), err))
		}
	default:
		defer resp.Body.Close()
		sizeReader := &sizeTrackingReader{Reader: resp.Body}
		dec := gob.NewDecoder(sizeReader)
		switch {
		case resp.StatusCode == methodErrorCode:
			return decodeError(serviceMethod, dec)
		case resp.StatusCode == 200:
			err := dec.Decode(reply)
			if err != nil {
				err = errors.E(errors.Invalid, errors.Temporary, "error while decoding reply for "+serviceMethod, err)
			}
			replyBytes = sizeReader.Len()
			if replyBytes > largeRpcPayload {
				log.Outputf(largeReplyLogger, log.Info, "call %s %s: large reply: %d bytes", addr, serviceMethod, replyBytes)
			}
			return err
		case 400 <= resp.StatusCode && resp.StatusCode < 500:
			body, err := ioutil.ReadAll(resp.Body)
			return errors.E(errors.Fatal, errors.Invalid, fmt.Sprintf("%s: client error %s, %v, %v", url, resp.Status, string(body), err))
		default:
			body, err := ioutil.ReadAll(resp.Body)
			return errors.E(errors.Fatal, errors.Invalid, fmt.Sprintf("%s: bad reply status %s, %v, %v", url, resp.Status, string(body), err))
		}
	}
}

// StreamReader reads a bigmachine byte stream, propagating
// any errors that may be set in a response's trailer.
type streamReader struct{ *http.Response }

func (r streamReader) Read(p []byte) (n int, err error) {
	n, err = r.Body.Read(p)
	if err != io.EOF {
		return n, err
	}
	if e := r.Trailer.Get(bigmachineErrorTrailer); e != "" {
		err = errors.New(e)
	}
	return n, err
}

func (r streamReader) Close() error {
	return r.Body.Close()
}

func truncatef(v interface{}) string {
	b := limitbuf.NewLogger(512)
	fmt.Fprint(b, v)
	return b.String()
}

// decodeErrors decodes a serialized error from the codec stream dec. It wraps
// errors with an errors.Remote so that callers can distinguish between errors
// in the machinery to execute the RPC and errors returned by the RPC itself.
func decodeError(serviceMethod string, dec *gob.Decoder) error {
	e := new(errors.Error)
	if err := dec.Decode(e); err != nil {
		return errors.E(errors.Invalid, errors.Temporary, "error while decoding error for "+serviceMethod, err)
	}
	return errors.E(errors.Remote, e)
}

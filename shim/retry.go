// Copyright 2018 GRAIL, Inc. All rights reserved.
// Use of this source code is governed by the Apache 2.0
// license that can be found in the LICENSE file.

// Package retry contains utilities for implementing retry logic.
package retry

import (
	"context"
	"fmt"
	"math"
	"math/rand"
	"time"

	"github.com/grailbio/base/errors"
)

// A Policy is an interface that abstracts retry policies. Typically
// users will not call methods directly on a Policy but rather use
// the package function retry.Wait.
type Policy interface {
	// Retry tells whether the a new retry should be attempted,
	// and after how long.
	Retry(retry int) (bool, time.Duration)
}

// Wait queries the provided policy at the provided retry number and
// sleeps until the next try should be attempted. Wait returns an
// error if the policy prohibits further tries or if the context was
// canceled, or if its deadline would run out while waiting for the
// next try.
func Wait(ctx context.Context, policy Policy, retry int) error {
	keepgoing, wait := policy.Retry(retry)
	if !keepgoing {
		return errors.E(errors.TooManyTries, fmt.Sprintf("gave up after %d tries", retry))
	}
	if deadline, ok := ctx.Deadline(); ok && time.Until(deadline) < wait {
		return errors.E(errors.Timeout, "ran out of time while waiting for retry")
	}
	select {
	case <-time.After(wait):
		return nil
	case <-ctx.Done():
		return ctx.Err()
	}
}

type backoff struct {
	factor       float64
	initial, max time.Duration
}

// maxInt64Convertible is the maximum float64 that can be converted to an int64
// accurately. We use this to prevent overflow when computing the exponential
// backoff, which we compute with float64s. It is important that we push it
// through float64 then int64 so that we get compilation error if we use a
// value that cannot be represented as an int64. This value was produced with:
//   math.Nextafter(float64(math.MaxInt64), 0)
const maxInt64Convertible = int64(float64(9223372036854774784))

// MaxBackoffMax is the maximum value that can be passed as max to Backoff.
const MaxBackoffMax = time.Duration(maxInt64Convertible)

// Backoff returns a Policy that initially waits for the amount of
// time specified by parameter initial; on each try this value is
// multiplied by the provided factor, up to the max duration.
func Backoff(initial, max time.Duration, factor float64) Policy {
	if max > MaxBackoffMax {
		panic("max > MaxBackoffMax")
	}
	return &backoff{
		initial: initial,
		max:     max,
		factor:  factor,
	}
}

func (b *backoff) Retry(retries int) (bool, time.Duration) {
	if retries < 0 {
		panic("retries < 0")
	}
	nsfloat64 := float64(b.initial) * math.Pow(b.factor, float64(retries))
	nsfloat64 = math.Min(nsfloat64, float64(b.max))
	return true, time.Duration(int64(nsfloat64))
}

type jitter struct {
	policy Policy
	// frac is the fraction of the wait time to "jitter".
	// Eg: if frac is 0.2, the policy will retain 80% of the wait time
	// and jitter the remaining 20%
	frac float64
}

// Jitter returns a policy that jitters 'frac' fraction of the wait times
// returned  by the provided policy.  For example, setting frac to 1.0 and 0.5
// will implement "full jitter" and "equal jitter" approaches respectively.
// These approaches are describer here:
//
func Jitter(policy Policy, frac float64) Policy {
	return &jitter{policy, frac}
}

func (b *jitter) Retry(retries int) (bool, time.Duration) {
	ok, wait := b.policy.Retry(retries)
	if wait > 0 {
		prop := time.Duration(b.frac * float64(wait))
		wait = wait - prop + time.Duration(rand.Int63n(prop.Nanoseconds()))
	}
	return ok, wait
}

type maxtries struct {
	policy Policy
	max    int
}

// MaxTries returns a policy that enforces a maximum number of
// attempts. The provided policy is invoked when the current number
// of tries is within the permissible limit. If policy is nil, the
// returned policy will permit an immediate retry when the number of
// tries is within the allowable limits.
func MaxTries(policy Policy, n int) Policy {
	if n < 1 {
		panic("retry.MaxTries: n < 1")
	}
	return &maxtries{policy, n - 1}
}

// MaxRetries (verif shim; absent from base v0.0.9) permits n retries after
// the first attempt.
func MaxRetries(policy Policy, n int) Policy {
	if n < 1 {
		panic("retry.MaxRetries: n < 1")
	}
	return &maxtries{policy, n}
}

func (m *maxtries) Retry(retries int) (bool, time.Duration) {
	if retries > m.max {
		return false, time.Duration(0)
	}
	if m.policy != nil {
		return m.policy.Retry(retries)
	}
	return true, time.Duration(0)
}

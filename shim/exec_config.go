// verif shim: exec/config.go needs generic base/config (absent offline).
package exec

package main

import (
	"fmt"
	"os"
	"time"

	"github.com/grailbio/base/errors"
	"github.com/grailbio/bigslice/exec"
	"verifharness/prog"
)

func main() {
	prog.MakeTemp = func(msg string) error { return errors.E(errors.Temporary, msg) }
	exec.ProbationTimeout = 200 * time.Millisecond
	p := prog.Prog{Nodes: []prog.Node{
		{Op: "readerfunc", N: 2, Types: []string{"i", "i"}, A: 10, B: 1, Fail: &prog.Fail{Mode: "temp", Shard: -1, Row: 2}},
	}}
	if len(os.Args) > 1 {
		p.Nodes = append(p.Nodes, prog.Node{Op: "reduce", In: []int{0}, Comb: "sum"})
	}
	for _, cfg := range []prog.Cfg{{Kind: "local", Parallelism: 2}, {Kind: "bigmachine", Parallelism: 4, Procs: 2}} {
		s := prog.Start(cfg)
		o, _ := prog.RunOnce(s, p, "", 60*time.Second)
		msg := o.ErrMsg
		if len(msg) > 150 {
			msg = msg[:150]
		}
		fmt.Println(cfg, o.Err, o.Fires, o.Wall, msg)
	}
}

package main

import (
	"context"
	"fmt"

	"github.com/grailbio/bigslice"
	"github.com/grailbio/bigslice/exec"
	"github.com/grailbio/bigslice/sliceio"
)

var f = bigslice.Func(func(n int) bigslice.Slice {
	xs := make([]int, n)
	for i := range xs {
		xs[i] = i % 5
	}
	s := bigslice.Const(3, xs, xs)
	return bigslice.Reduce(s, func(a, b int) int { return a + b })
})

func main() {
	sess := exec.Start(exec.Local)
	res, err := sess.Run(context.Background(), f, 100)
	if err != nil {
		panic(err)
	}
	sc := res.Scanner()
	var k, v int
	for sc.Scan(context.Background(), &k, &v) {
		fmt.Println(k, v)
	}
	_ = sliceio.EOF
	fmt.Println(sc.Err())
}

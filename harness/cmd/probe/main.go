package main

import (
	"flag"
	"fmt"
	"os"
	"time"

	"verifharness/prog"
)

func main() {
	chunk := os.Args[1]
	flag.Set("bigslice-internal-default-chunk-rows", chunk)
	p := prog.Prog{Nodes: []prog.Node{
		{Op: "const", N: 3, Types: []string{"i", "i"}, Cols: [][]int64{{1, 2, 1, 2, 3}, {10, 20, 30, 40, 50}}},
		{Op: "reduce", In: []int{0}, Comb: "sum"},
	}}
	for _, cfg := range []prog.Cfg{{Kind: "local", Parallelism: 2}, {Kind: "bigmachine", Parallelism: 1, Procs: 1}} {
		s := prog.Start(cfg)
		o, _ := prog.RunOnce(s, p, "", 15*time.Second)
		fmt.Println(cfg, o.Err, o.ErrMsg, o.Shards, o.Wall)
		o, _ = prog.RunOnce(s, p, "", 15*time.Second)
		fmt.Println(" again:", o.Err, o.ErrMsg, o.Wall)
	}
}

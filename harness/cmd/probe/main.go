package main

import (
	"fmt"
	"time"

	"verifharness/prog"
)

func counts(o prog.Obs) []int {
	var c []int
	for _, s := range o.Shards {
		c = append(c, len(s))
	}
	return c
}

func main() {
	cols := [][]int64{make([]int64, 40), make([]int64, 40)}
	for i := range cols[0] {
		cols[0][i], cols[1][i] = int64(i%7), int64(i)
	}
	base := prog.Prog{Nodes: []prog.Node{
		{Op: "const", N: 4, Types: []string{"i", "i"}, Cols: cols},
		{Op: "reshuffle", In: []int{0}},
	}}
	arg := prog.Node{Op: "arg", N: 4, Types: []string{"i", "i"}, N2: 1}
	repart := prog.Prog{Nodes: []prog.Node{arg, {Op: "repartition", In: []int{0}, Exprs: []prog.Expr{{K: "const", A: 1}}}}}
	resh := prog.Prog{Nodes: []prog.Node{arg, {Op: "reshuffle", In: []int{0}}}}
	for _, cfg := range []prog.Cfg{{Kind: "local", Parallelism: 4}, {Kind: "bigmachine", Parallelism: 4, Procs: 2}, {Kind: "bigmachine", Parallelism: 1, Procs: 1}, {Kind: "bigmachine", Parallelism: 8, Procs: 1}} {
		s := prog.Start(cfg)
		o, res := prog.RunOnce(s, base, "", 30*time.Second)
		fmt.Println(cfg, "base", o.Err, counts(o))
		for i := 0; i < 3; i++ {
			o1, _ := prog.RunArgOnce(s, repart, res, 30*time.Second)
			fmt.Println("   repartition(R)", o1.Err, counts(o1))
			o2, _ := prog.RunArgOnce(s, resh, res, 30*time.Second)
			fmt.Println("   reshuffle(R)  ", o2.Err, counts(o2))
		}
	}
}

// Command c01 generates slice programs, runs them on the real executors and
// writes the Coq case file judged against the reference semantics (coq/C01).
package main

import (
	"fmt"
	"os"
	"time"

	"verifharness/prog"
	"verifharness/vf"
)

type Desc struct {
	Cfg  prog.Cfg  `json:"cfg"`
	Prog prog.Prog `json:"prog"`
}

func main() {
	opts := vf.ParseFlags()
	out := &vf.Output{ID: "C01", Import: "BS.C01.Corr",
		Rule: "seeded random well-typed operator DAGs (<= 7 nodes, 16 operators, shared sub-slices, multi-input cogroup, nested shuffles, prefixes > 1, int and string columns, sizes 0..300 straddling the 128-row vector, skewed keys, 1-4 shards) run on the Local executor and on bigmachine/testsystem; non-trivial = contains a shuffle operator or a side-effecting operator; distinct by program text"}
	var descs []Desc
	if opts.Replay != "" {
		if err := vf.LoadReplay(opts.Replay, &descs); err != nil {
			fmt.Fprintln(os.Stderr, err)
			os.Exit(2)
		}
	} else {
		n := 150
		if opts.Tier == "thorough" {
			n = 600
		}
		n *= opts.Scale
		root := vf.NewRand(opts.Seed)
		for i := 0; i < n; i++ {
			r := root.Split()
			cfg := prog.Cfg{Kind: "local", Parallelism: 4}
			if i%3 == 2 {
				cfg = prog.Cfg{Kind: "bigmachine", Parallelism: 4, Procs: 2}
			}
			if i%8 == 7 {
				descs = append(descs, Desc{cfg, prog.GenDirected(r, i/8)})
			} else {
				descs = append(descs, Desc{cfg, prog.Gen(r, prog.DefaultGen())})
			}
		}
	}
	sessions := map[string]*prog.Sess{}
	defer func() {
		for _, s := range sessions {
			s.Close()
		}
	}()
	for _, d := range descs {
		key := d.Cfg.String()
		s := sessions[key]
		if s == nil {
			s = prog.Start(d.Cfg)
			sessions[key] = s
		}
		o, _ := prog.RunOnce(s, d.Prog, "", 120*time.Second)
		term := vf.App("mkCase", d.Prog.Term(), o.Term())
		nontriv, sig := "", "program-rows"
		for _, n := range d.Prog.Nodes {
			switch n.Op {
			case "reduce", "fold", "cogroup", "reshuffle", "reshard", "repartition", "scan", "writerfunc":
				nontriv = vf.Hash(d.Prog.Term())
			case "scanreader":
				sig = "program-rows+scanreader"
			}
		}
		out.Add(vf.Case{Term: term, Desc: d, Sig: sig, Nontriv: nontriv, Kind: d.Cfg.Kind + "/" + d.Prog.Nodes[len(d.Prog.Nodes)-1].Op,
			Observed: map[string]interface{}{"err": o.Err, "msg": o.ErrMsg, "shards": len(o.Shards), "rows": len(o.Scanned)}})
	}
	if err := out.Write(opts.Out, opts); err != nil {
		fmt.Fprintln(os.Stderr, err)
		os.Exit(2)
	}
}

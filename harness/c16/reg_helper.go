package main

// Registrations made from another file and through helpers, for the registry
// part of the C16 check. Every call of bigslice.Func in this program is
// preceded by note(here(1)): the program's own record of where (file:line) and
// in which order it created its Funcs.

import (
	"fmt"
	"path/filepath"
	"runtime"
	"strings"

	"github.com/grailbio/bigslice"
)

var (
	regSites []string // creation sites of the Funcs this program registered, in order
	regBase  = -1     // number of Funcs registered before the first of them
)

// here returns base(file):line of its caller, shifted by delta lines.
func here(delta int) string {
	_, file, line, _ := runtime.Caller(1)
	return fmt.Sprintf("%s:%d", filepath.Base(file), line+delta)
}

// note records that the next bigslice.Func call is made at site.
func note(site string) {
	if regBase < 0 {
		regBase = len(bigslice.FuncLocations())
	}
	regSites = append(regSites, site)
}

// canonLoc strips the directory from a "dir/file.go:line" location.
func canonLoc(s string) string { return s[strings.LastIndex(s, "/")+1:] }

// ownLocations returns what bigslice.FuncLocations() says about the Funcs this
// program registered (everything after the first regBase entries).
func ownLocations() []string {
	locs := bigslice.FuncLocations()
	if regBase < 0 || regBase > len(locs) {
		return nil
	}
	out := make([]string, 0, len(locs)-regBase)
	for _, l := range locs[regBase:] {
		out = append(out, canonLoc(l))
	}
	return out
}

func helperSlice() bigslice.Slice { return bigslice.Const(1, []int{1}) }

// newHelperFunc registers a Func from inside a helper: its location is the line
// in this helper, not the helper's caller.
func newHelperFunc(k int) *bigslice.FuncValue {
	if k%2 == 0 {
		note(here(1))
		return bigslice.Func(func() bigslice.Slice { return helperSlice() })
	}
	note(here(1))
	return bigslice.Func(func(x int) bigslice.Slice { return helperSlice() })
}

var (
	fHelperA = newHelperFunc(0)
	fHelperB = newHelperFunc(1)
	// two Funcs created by the same line: they share a location (FuncLocations's
	// documented imprecision)
	fHelperLoop = func() (fs []*bigslice.FuncValue) {
		for i := 0; i < 2; i++ {
			note(here(1))
			fs = append(fs, bigslice.Func(func(s string) bigslice.Slice { return helperSlice() }))
		}
		return fs
	}()
)

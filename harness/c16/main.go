// Command c16 is the correspondence driver of property C16.
//
// (a) bigslice.FuncLocationsDiff is run on pairs of location lists (all pairs
// over a 3-letter alphabet up to a length bound, plus random longer, similar
// lists); the returned lines are written verbatim into the case file.
//
// (b) Invocations over a small universe of parameter and argument kinds are
// sent the way the bigmachine executor sends them, using the real code through
// the add-only hooks of exec/verif_hooks_c16.go: FuncValue.Invocation
// (typecheck), execInvocation.GobEncode/GobDecode alone, and then
// (*bigmachineExecutor).Run up to the request for a machine (addInvocation +
// eager serialisation check), invocationReader, (*worker).Compile. The
// arguments the Func is applied to on the worker side are recorded by the Func
// itself and canonicalised into the model's argument terms.
//
// coq/C16/Corr.v judges the case file.
package main

import (
	"context"
	"encoding/gob"
	"fmt"
	"os"
	"reflect"
	"sort"
	"strings"
	"sync"
	"time"

	"github.com/grailbio/bigslice"
	"github.com/grailbio/bigslice/exec"
	"github.com/grailbio/bigslice/typecheck"
	"verifharness/vf"
)

// ---------------------------------------------------------------- universe

type pair struct {
	A int
	S string
}
type shape interface{ Area() int }
type sq struct{ N int }

func (s sq) Area() int { return s.N * s.N }

type psq struct{ N int }

func (s *psq) Area() int { return s.N }

type unreg struct{ N int }

func (u unreg) Area() int { return u.N }

func init() {
	// what travels inside interface values must be registered, as with plain gob
	gob.Register(sq{})
	gob.Register(&psq{})
	gob.Register(pair{})
	gob.Register([]int{})
	gob.Register(map[string]int{})
	// not registered on purpose: unreg, *pair
}

// concrete types, in the order of Coq's ctype
var ctNames = []string{"CInt", "CString", "CBool", "CInts", "CMap", "CStruct", "CSq", "CUnreg",
	"CPtr", "CPsq", "CChan", "CFunc", "CResult", "CRef"}

var theChan = make(chan int)
var theFunc = func() {}

var ctTypes = map[string]reflect.Type{
	"CInt": reflect.TypeOf(int(0)), "CString": reflect.TypeOf(""), "CBool": reflect.TypeOf(false),
	"CInts": reflect.TypeOf([]int(nil)), "CMap": reflect.TypeOf(map[string]int(nil)),
	"CStruct": reflect.TypeOf(pair{}), "CSq": reflect.TypeOf(sq{}), "CUnreg": reflect.TypeOf(unreg{}),
	"CPtr": reflect.TypeOf((*pair)(nil)), "CPsq": reflect.TypeOf((*psq)(nil)),
	"CChan": reflect.TypeOf(theChan), "CFunc": reflect.TypeOf(theFunc),
	"CResult": reflect.TypeOf((*exec.Result)(nil)),
}

// value tables: the id of a value is its index; for slices and maps id 0 is
// "no elements" (gob does not distinguish nil from empty)
var ctValues = map[string][]interface{}{
	"CInt":    {0, 7, -3, 1 << 40},
	"CString": {"", "x", "héllo wörld"},
	"CBool":   {false, true},
	"CInts":   {[]int(nil), []int{1, 2}, []int{5}},
	"CMap":    {map[string]int(nil), map[string]int{"a": 1}, map[string]int{"k": 2, "z": -1}},
	"CStruct": {pair{}, pair{1, "a"}, pair{-2, "b"}},
	"CSq":     {sq{0}, sq{3}},
	"CUnreg":  {unreg{1}, unreg{2}},
	"CPtr":    {&pair{}, &pair{1, "a"}}, // id v points to a copy of CStruct's id v
	"CPsq":    {&psq{4}, &psq{0}},
	"CChan":   {theChan},
	"CFunc":   {theFunc},
}

var (
	typAny    = reflect.TypeOf((*interface{})(nil)).Elem()
	typShape  = reflect.TypeOf((*shape)(nil)).Elem()
	typSliceI = reflect.TypeOf((*bigslice.Slice)(nil)).Elem()
)

func nilableCT(c string) bool {
	switch c {
	case "CInts", "CMap", "CPtr", "CPsq", "CChan", "CFunc", "CResult":
		return true
	}
	return false
}
func pointerCT(c string) bool { return c == "CPtr" || c == "CPsq" || c == "CResult" }

// parameter type names: "PC <ctype>", "PAny", "PShape", "PSliceI"
func paramType(p string) reflect.Type {
	switch p {
	case "PAny":
		return typAny
	case "PShape":
		return typShape
	case "PSliceI":
		return typSliceI
	}
	return ctTypes[strings.TrimPrefix(p, "PC ")]
}
func paramTerm(p string) string {
	if strings.HasPrefix(p, "PC ") {
		return "(" + p + ")"
	}
	return p
}

// ---------------------------------------------------------------- descriptions

// ArgOp is one (parameter, argument) position of an invocation. P == "" means
// an extra argument without parameter, A == "" a parameter without argument.
type ArgOp struct {
	P string `json:"p"`           // parameter type
	A string `json:"a"`           // "nil" | "val" | "tnil" | "res" | ""
	C string `json:"c,omitempty"` // concrete type of val / tnil
	V int    `json:"v,omitempty"` // value id, or local result id
	E bool   `json:"e,omitempty"` // for id 0 of CInts/CMap: empty non-nil instead of nil
}

type Desc struct {
	K    string   `json:"k"` // "diff" | "inv"
	L    []string `json:"l,omitempty"`
	R    []string `json:"r,omitempty"`
	Ops  []ArgOp  `json:"ops,omitempty"`
	NRes int      `json:"nres,omitempty"` // results produced (and compiled on the worker) beforehand
	// deps cases (K == "deps"): earlier result k was produced from nothing (-1)
	// or from earlier result Pre[k]; none of them is compiled on the worker,
	// which is a fresh machine reached through the executor's compile.
	Pre []int `json:"pre,omitempty"`
	// registry cases: K == "reg" with Which "static" (the Funcs created before
	// main) or "all"; K == "regpair" compares the registries LF and RF (indices
	// into the static Funcs with pairwise distinct creation sites)
	Which string `json:"which,omitempty"`
	LF    []int  `json:"lf,omitempty"`
	RF    []int  `json:"rf,omitempty"`
	Kind  string `json:"kind"`
}

// ---------------------------------------------------------------- (a) diff

func strTerm(s string) string {
	return "\"" + strings.ReplaceAll(s, "\"", "\"\"") + "\"%string"
}
func strList(xs []string) string {
	ss := make([]string, len(xs))
	for i, x := range xs {
		ss[i] = strTerm(x)
	}
	return vf.List(ss)
}

func runDiff(d Desc) (term string, observed interface{}, nontriv bool) {
	var (
		lines    []string
		panicked bool
	)
	func() {
		defer func() {
			if e := recover(); e != nil {
				panicked = true
			}
		}()
		lines = bigslice.FuncLocationsDiff(append([]string{}, d.L...), append([]string{}, d.R...))
	}()
	obs := "DObsPanic"
	if !panicked {
		obs = vf.App("DObs", vf.Bool(lines == nil), strList(lines))
	}
	keeps, changes := 0, 0
	for _, l := range lines {
		if strings.HasPrefix(l, "+ ") || strings.HasPrefix(l, "- ") {
			changes++
		} else {
			keeps++
		}
	}
	return vf.App("CDiff", strList(d.L), strList(d.R), obs), lines, keeps > 0 && changes > 0
}

// ---------------------------------------------------------------- (b) invocations

// calls records the arguments of every application of a Func made by funcFor.
var calls [][]interface{}

var funcCache = map[string]*bigslice.FuncValue{}

// funcFor returns the (cached) bigslice.Func with the given parameter types.
// Its body records its arguments and builds a slice whose shard count depends
// on them, so that compiled task names depend on the arguments.
func funcFor(params []string) *bigslice.FuncValue {
	key := strings.Join(params, ",")
	if f, ok := funcCache[key]; ok {
		return f
	}
	in := make([]reflect.Type, len(params))
	for i, p := range params {
		in[i] = paramType(p)
	}
	ft := reflect.FuncOf(in, []reflect.Type{typSliceI}, false)
	fn := reflect.MakeFunc(ft, func(args []reflect.Value) []reflect.Value {
		vals := make([]interface{}, len(args))
		w := 0
		for i, a := range args {
			vals[i] = a.Interface()
			w += weight(vals[i])
		}
		logMu.Lock()
		calls = append(calls, vals)
		logMu.Unlock()
		s := bigslice.Const(1+w%3, []int{1, 2, 3, 4, 5, 6})
		return []reflect.Value{reflect.ValueOf(&s).Elem()}
	})
	note(here(1))
	f := bigslice.Func(fn.Interface())
	funcCache[key] = f
	return f
}

var fConst = func() *bigslice.FuncValue {
	note(here(1))
	return bigslice.Func(func(n int) bigslice.Slice { return bigslice.Const(n, []int{1, 2, 3}) })
}()

// Funcs that exist only to populate the registry at distinct, known lines.
var (
	fReg1 = func() *bigslice.FuncValue {
		note(here(1))
		return bigslice.Func(func() bigslice.Slice { return bigslice.Const(2, []string{"a", "b"}) })
	}()
	fReg2 = func() *bigslice.FuncValue {
		note(here(1))
		return bigslice.Func(func(a, b int) bigslice.Slice { return bigslice.Const(1, []int{a, b}) })
	}()
	fReg3 = func() *bigslice.FuncValue {
		note(here(1))
		return bigslice.Func(func(s []string) bigslice.Slice { return bigslice.Const(1, s) })
	}()
)

// producers of the deps cases: each records (tag, slice it returned), on the
// driver and again on the worker, so that a worker-local Result is recognised
// by the slice it wraps
type prodRec struct {
	tag   int
	slice bigslice.Slice
}

var (
	logMu    sync.Mutex
	produced []prodRec
)

func recordProduced(tag int, s bigslice.Slice) bigslice.Slice {
	logMu.Lock()
	produced = append(produced, prodRec{tag, s})
	logMu.Unlock()
	return s
}

var fProd = func() *bigslice.FuncValue {
	note(here(1))
	return bigslice.Func(func(tag int) bigslice.Slice {
		return recordProduced(tag, bigslice.Const(1+tag%3, []int{1, 2, 3}))
	})
}()
var fNest = func() *bigslice.FuncValue {
	note(here(1))
	return bigslice.Func(func(tag int, r *exec.Result) bigslice.Slice {
		return recordProduced(tag, bigslice.Map(r, func(x int) int { return x + 1 }))
	})
}()

func producedTag(r *exec.Result) (tag int, ok bool) {
	defer func() {
		if recover() != nil {
			ok = false
		}
	}()
	logMu.Lock()
	defer logMu.Unlock()
	s := exec.VerifC16ResultSlice(r)
	for _, p := range produced {
		if p.slice == s {
			return p.tag, true
		}
	}
	return 0, false
}

// world is the per-case state: the exec-side world and the results made so far.
type world struct {
	x       *exec.VerifC16World
	results []*exec.Result // local id -> driver-side Result
}

// canon maps a Go argument value to the model's argument term.
func (w *world) canon(v interface{}) string {
	if v == nil {
		return "ANil"
	}
	if r, ok := v.(*exec.Result); ok {
		if r == nil {
			return "(ATNil CResult)"
		}
		if tag, ok := producedTag(r); ok && tag >= 0 && tag < len(w.results) {
			return vf.App("AResult", vf.Z(int64(tag)))
		}
		widx, onWorker := w.x.WorkerResultIndex(r)
		for id, dr := range w.results {
			if dr == r || onWorker && widx == exec.VerifC16ResultIndex(dr) {
				return vf.App("AResult", vf.Z(int64(id)))
			}
		}
		return "(AResult (-1))"
	}
	if idx, ok := exec.VerifC16RefIndex(v); ok {
		for id, dr := range w.results {
			if exec.VerifC16ResultIndex(dr) == idx {
				return vf.App("ARef", vf.Z(int64(id)))
			}
		}
		return "(ARef (-1))"
	}
	rv := reflect.ValueOf(v)
	for _, c := range ctNames {
		if ctTypes[c] != rv.Type() {
			continue
		}
		switch rv.Kind() {
		case reflect.Ptr, reflect.Chan, reflect.Func:
			if rv.IsNil() {
				return vf.App("ATNil", c)
			}
		case reflect.Slice, reflect.Map:
			if rv.Len() == 0 {
				return vf.App("AVal", c, "0")
			}
		}
		if c == "CChan" || c == "CFunc" {
			return vf.App("AVal", c, "0")
		}
		for id, tv := range ctValues[c] {
			if reflect.DeepEqual(tv, v) {
				return vf.App("AVal", c, vf.Z(int64(id)))
			}
		}
		return vf.App("AVal", c, "(-1)")
	}
	return "(AVal CRef (-1))" // a type outside the universe
}

func (w *world) canonList(vs []interface{}) string {
	ss := make([]string, len(vs))
	for i, v := range vs {
		ss[i] = w.canon(v)
	}
	return vf.List(ss)
}

// weight is a small number derived from an argument's value.
func weight(v interface{}) int {
	if v == nil {
		return 1
	}
	if r, ok := v.(*exec.Result); ok {
		if r == nil {
			return 2
		}
		return r.NumShard()
	}
	rv := reflect.ValueOf(v)
	switch rv.Kind() {
	case reflect.Int:
		return int(rv.Int()&3) + 1
	case reflect.String, reflect.Slice, reflect.Map:
		return rv.Len()
	case reflect.Bool:
		if rv.Bool() {
			return 1
		}
	case reflect.Struct:
		return int(rv.Field(0).Int()&3) + 2
	case reflect.Ptr:
		if !rv.IsNil() {
			return int(rv.Elem().Field(0).Int()&3) + 3
		}
	}
	return 0
}

// value builds the Go value of an argument description.
func (w *world) value(o ArgOp) interface{} {
	switch o.A {
	case "nil":
		return nil
	case "tnil":
		return reflect.Zero(ctTypes[o.C]).Interface()
	case "res":
		if o.V >= 0 && o.V < len(w.results) {
			return w.results[o.V]
		}
		return (*exec.Result)(nil)
	case "val":
		tab := ctValues[o.C]
		v := tab[o.V%len(tab)]
		if o.V%len(tab) == 0 && o.E {
			switch o.C {
			case "CInts":
				return []int{}
			case "CMap":
				return map[string]int{}
			}
		}
		return v
	}
	return nil
}

func argTerm(o ArgOp, nres int) string {
	switch o.A {
	case "nil":
		return "ANil"
	case "tnil":
		return vf.App("ATNil", o.C)
	case "res":
		if o.V >= 0 && o.V < nres {
			return vf.App("AResult", vf.Z(int64(o.V)))
		}
		return "(ATNil CResult)"
	case "val":
		return vf.App("AVal", o.C, vf.Z(int64(o.V%len(ctValues[o.C]))))
	}
	return "ANil"
}

func sameStrings(a, b []string) bool {
	if len(a) != len(b) {
		return false
	}
	for i := range a {
		if a[i] != b[i] {
			return false
		}
	}
	return true
}

// The nil *Result test lives in Session.run, ahead of everything the hooks
// restate, so it is observed through a real session: sessionRejects calls
// (*Session).Run on a local session when one of the arguments is a nil
// *exec.Result, and tells whether Run returned an error (and did not panic).
var localSess *exec.Session

func hasNilResult(args []interface{}) bool {
	for _, a := range args {
		if r, ok := a.(*exec.Result); ok && r == nil {
			return true
		}
	}
	return false
}

func sessionRejects(f *bigslice.FuncValue, args []interface{}) (rejected bool) {
	if !hasNilResult(args) {
		return false
	}
	if localSess == nil {
		localSess = exec.Start(exec.Local)
	}
	defer func() {
		if recover() != nil {
			rejected = false // e.g. a typecheck panic: Run got past the test
		}
	}()
	_, err := localSess.Run(context.Background(), f, append([]interface{}{}, args...)...)
	return err != nil
}

// guarded runs f with a watchdog; it reports false if f did not finish.
func guarded(f func()) bool {
	done := make(chan struct{})
	go func() {
		defer close(done)
		f()
	}()
	select {
	case <-done:
		return true
	case <-time.After(60 * time.Second):
		return false
	}
}

func runInv(d Desc) (term string, observed interface{}, sig string) {
	w := &world{x: exec.VerifC16NewWorld()}
	defer w.x.Close()
	var notes []string
	// results of earlier invocations, known to the executor and compiled on the worker
	for k := 0; k < d.NRes; k++ {
		res, _, err := w.x.Driver(fConst.Invocation("c16-pre", 1+k%3))
		if err != nil {
			panic(fmt.Sprintf("c16: cannot prepare result: %v", err))
		}
		idx := exec.VerifC16ResultIndex(res)
		if returned, _, _ := w.x.RunPrefix(idx); returned {
			panic("c16: preparing a result: Run returned before asking for a machine")
		}
		if stage, _, _, err := w.x.Ship(idx); err != nil {
			panic(fmt.Sprintf("c16: cannot ship result invocation (%s): %v", stage, err))
		}
		w.results = append(w.results, res)
	}
	var (
		params   []string
		pterms   []string
		args     []interface{}
		aterms   []string
		hasRes   bool
		known    []string
		codec    = "None"
		hdr      = true
		names    = true
		outcome  string
		typeErr  bool
		finished bool
	)
	for k := range w.results {
		known = append(known, vf.Z(int64(k)))
	}
	for _, o := range d.Ops {
		if o.P != "" {
			params = append(params, o.P)
			pterms = append(pterms, paramTerm(o.P))
		}
		if o.A != "" {
			args = append(args, w.value(o))
			aterms = append(aterms, argTerm(o, d.NRes))
			if o.A == "res" && o.V >= 0 && o.V < d.NRes {
				hasRes = true
			}
		}
	}
	f := funcFor(params)
	mkInv := func() (inv bigslice.Invocation, class string) {
		defer func() {
			if e := recover(); e != nil {
				if _, ok := e.(*typecheck.Error); ok {
					class = "type"
				} else {
					class = "panic"
					notes = append(notes, fmt.Sprintf("Invocation panicked: %v", e))
				}
			}
		}()
		return f.Invocation("c16", append([]interface{}{}, args...)...), ""
	}
	finished = guarded(func() {
		if sessionRejects(f, args) {
			outcome = "OSessErr"
			return
		}
		inv, class := mkInv()
		switch class {
		case "type":
			typeErr = true
			outcome = "OTypeErr"
			return
		case "panic":
			outcome = "ORunPanic"
			return
		}
		// the codec alone
		if !hasRes {
			func() {
				defer func() {
					if e := recover(); e != nil {
						codec = vf.Some("CPanic")
					}
				}()
				out, stage, err := exec.VerifC16Codec(inv)
				switch {
				case err != nil && stage == "encode":
					codec = vf.Some("CEncErr")
				case err != nil:
					codec = vf.Some("CDecErr")
				default:
					codec = vf.Some(vf.App("COk", w.canonList(out.Args)))
					hdr = out.Index == inv.Index && out.Func == inv.Func &&
						out.Exclusive == inv.Exclusive && out.Location == inv.Location
				}
			}()
		}
		// the whole way, with a fresh invocation of the same Func and arguments
		inv2, class := mkInv()
		if class != "" {
			outcome = "ORunPanic"
			return
		}
		calls = nil
		res, namesD, err := w.x.Driver(inv2)
		if err != nil {
			notes = append(notes, fmt.Sprintf("driver-side invoke/compile failed: %v", err))
			outcome = "OWorkerErr"
			return
		}
		idx := exec.VerifC16ResultIndex(res)
		returned, state, panicked := w.x.RunPrefix(idx)
		switch {
		case returned && panicked:
			outcome = "ORunPanic"
			return
		case returned && state == exec.TaskErr:
			outcome = "ORunErr"
			// a later request for the same invocation's encoding (another task of the
			// invocation, or a dependent invocation being compiled on a machine) must be
			// refused on the driver as well: nothing may reach a worker's Compile
			if stage2, _, _, err2 := w.x.Ship(idx); err2 == nil || stage2 == "compile" || strings.HasPrefix(stage2, "panic") {
				notes = append(notes, fmt.Sprintf("after Run refused the invocation, a second request for its encoding was not refused on the driver (stage %q, err %v)", stage2, err2))
				outcome = "OWorkerErr"
			}
			return
		case returned:
			notes = append(notes, fmt.Sprintf("Run returned in state %v without asking for a machine", state))
			outcome = "OWorkerErr"
			return
		}
		ncalls := len(calls)
		stage, namesW, _, err := w.x.Ship(idx)
		if err != nil {
			notes = append(notes, fmt.Sprintf("ship failed at %s", stage))
			outcome = "OWorkerErr"
			return
		}
		if len(calls) != ncalls+1 {
			notes = append(notes, "the Func was not applied exactly once on the worker")
			outcome = "OWorkerErr"
			return
		}
		outcome = vf.App("OArrived", w.canonList(calls[len(calls)-1]))
		names = sameStrings(namesD, namesW)
	})
	if !finished {
		notes = append(notes, "watchdog: the case did not finish within 60 s")
		outcome = "OWorkerErr"
	}
	_ = typeErr
	obs := vf.App("mkIObs", codec, vf.Bool(hdr), outcome, vf.Bool(names))
	term = vf.App("CInv", vf.List(pterms), vf.List(aterms), vf.List(known), vf.List(known), obs)
	return term, map[string]interface{}{"codec": codec, "world": outcome, "names_equal": names, "notes": notes}, invSig(d)
}

// runDeps sends an invocation with Result arguments to a fresh machine through
// the executor's own compile, which must first send the invocations behind the
// Results (transitively).
func runDeps(d Desc) (term string, observed interface{}) {
	w := &world{x: exec.VerifC16NewWorld()}
	defer w.x.Close()
	var notes []string
	logMu.Lock()
	produced, calls = nil, nil
	logMu.Unlock()
	var gterms []string
	for k, parent := range d.Pre {
		var inv bigslice.Invocation
		deps := "[]"
		if parent >= 0 && parent < k {
			inv = fNest.Invocation("c16-pre", k, w.results[parent])
			deps = vf.List([]string{vf.Z(int64(parent))})
		} else {
			inv = fProd.Invocation("c16-pre", k)
		}
		res, _, err := w.x.Driver(inv)
		if err != nil {
			panic(fmt.Sprintf("c16: cannot prepare result: %v", err))
		}
		// known to the executor (addInvocation + serialisation check), compiled nowhere
		if returned, _, _ := w.x.RunPrefix(exec.VerifC16ResultIndex(res)); returned {
			panic("c16: preparing a result: Run returned before asking for a machine")
		}
		w.results = append(w.results, res)
		gterms = append(gterms, vf.Tuple(vf.Z(int64(k)), deps))
	}
	var (
		params, pterms, aterms []string
		args                   []interface{}
		outcome                = "OWorkerErr"
		odeps                  []string
	)
	for _, o := range d.Ops {
		if o.P != "" {
			params = append(params, o.P)
			pterms = append(pterms, paramTerm(o.P))
		}
		if o.A != "" {
			args = append(args, w.value(o))
			aterms = append(aterms, argTerm(o, len(d.Pre)))
		}
	}
	f := funcFor(params)
	finished := guarded(func() {
		if sessionRejects(f, args) {
			outcome = "OSessErr"
			return
		}
		var inv bigslice.Invocation
		class := ""
		func() {
			defer func() {
				if e := recover(); e != nil {
					class = "panic"
					if _, ok := e.(*typecheck.Error); ok {
						class = "type"
					}
				}
			}()
			inv = f.Invocation("c16", append([]interface{}{}, args...)...)
		}()
		switch class {
		case "type":
			outcome = "OTypeErr"
			return
		case "panic":
			outcome = "ORunPanic"
			return
		}
		res, _, err := w.x.Driver(inv)
		if err != nil {
			notes = append(notes, fmt.Sprintf("driver-side invoke/compile failed: %v", err))
			return
		}
		idx := exec.VerifC16ResultIndex(res)
		returned, state, panicked := w.x.RunPrefix(idx)
		for _, dep := range w.x.Deps(idx) {
			id := int64(-1)
			for k, dr := range w.results {
				if exec.VerifC16ResultIndex(dr) == dep {
					id = int64(k)
				}
			}
			odeps = append(odeps, vf.Z(id))
		}
		switch {
		case returned && panicked:
			outcome = "ORunPanic"
			return
		case returned && state == exec.TaskErr:
			outcome = "ORunErr"
			return
		case returned:
			notes = append(notes, fmt.Sprintf("Run returned in state %v without asking for a machine", state))
			return
		}
		m, err := w.x.FreshMachine()
		if err != nil {
			panic(fmt.Sprintf("c16: cannot start a test machine: %v", err))
		}
		defer w.x.ShutdownMachine(m)
		logMu.Lock()
		ncalls := len(calls)
		logMu.Unlock()
		if fatal, err := w.x.CompileOn(m, idx); err != nil {
			msg := err.Error()
			if len(msg) > 200 {
				msg = msg[:200]
			}
			notes = append(notes, fmt.Sprintf("compile failed (fatal=%v): %s", fatal, msg))
			return
		}
		logMu.Lock()
		n, last := len(calls), calls[len(calls)-1]
		logMu.Unlock()
		if n != ncalls+1 {
			notes = append(notes, "the Func was not applied exactly once on the worker")
			return
		}
		outcome = vf.App("OArrived", w.canonList(last))
	})
	if !finished {
		notes = append(notes, "watchdog: the case did not finish within 60 s")
		outcome = "OWorkerErr"
	}
	term = vf.App("CDeps", vf.List(gterms), vf.List(pterms), vf.List(aterms), vf.List(odeps), outcome)
	return term, map[string]interface{}{"world": outcome, "deps": odeps, "notes": notes}
}

// fixedDeps: 2 and 3 Result arguments from different invocations in different
// orders and positions, repeated Results, nested Results (a Result whose own
// invocation took a Result), through every parameter type a Result fits.
func fixedDeps() []Desc {
	res := func(p string, v int) ArgOp { return ArgOp{P: p, A: "res", V: v} }
	intv := ArgOp{P: "PC CInt", A: "val", C: "CInt", V: 1}
	R, S, A := "PC CResult", "PSliceI", "PAny"
	mk := func(pre []int, ops ...ArgOp) Desc { return Desc{K: "deps", Pre: pre, Ops: ops, Kind: "inv/deps"} }
	flat2, flat3 := []int{-1, -1}, []int{-1, -1, -1}
	return []Desc{
		mk([]int{-1}, res(R, 0)),
		mk(flat2, res(R, 0), res(R, 1)),
		mk(flat2, res(R, 1), res(R, 0)),
		mk(flat2, res(S, 0), intv, res(A, 1)),
		mk(flat2, res(A, 1), res(S, 0)),
		mk(flat2, res(R, 0), res(R, 0), res(R, 1)),
		mk(flat2, res(R, 1), res(R, 0), res(R, 0)),
		mk(flat3, res(R, 0), res(R, 1), res(R, 2)),
		mk(flat3, res(R, 2), res(R, 0), res(R, 1)),
		mk(flat3, res(S, 1), res(A, 2), intv, res(R, 0)),
		mk(flat3, res(A, 2), res(S, 1)),
		mk([]int{-1, 0}, res(R, 1)),
		mk([]int{-1, 0}, res(R, 1), res(R, 0)),
		mk([]int{-1, 0}, res(R, 0), res(R, 1)),
		mk([]int{-1, 0, 1}, res(R, 2)),
		mk([]int{-1, 0, -1}, res(S, 1), res(A, 2)),
		mk([]int{-1, 0, -1}, res(R, 2), res(R, 1)),
		mk([]int{-1, -1, 0, 1}, res(R, 2), res(R, 3)),
		mk([]int{-1, -1, 0, 1}, res(R, 3), intv, res(R, 2)),
		mk([]int{-1, 0, 0}, res(R, 1), res(R, 2)),
		mk([]int{-1, 0, 0}, res(R, 2), res(R, 1), res(R, 0)),
		mk(flat2, intv),
		mk(flat2, res(R, 0), ArgOp{P: "PC CChan", A: "val", C: "CChan"}, res(R, 1)),
	}
}

func genDeps(r *vf.Rand) Desc {
	n := r.Range(2, 4)
	pre := make([]int, n)
	for k := range pre {
		pre[k] = -1
		if k > 0 && r.Chance(2, 5) {
			pre[k] = r.Intn(k)
		}
	}
	d := Desc{K: "deps", Pre: pre, Kind: "inv/deps"}
	m := r.Range(2, 4)
	for i := 0; i < m; i++ {
		switch k := r.Intn(10); {
		case k < 7:
			d.Ops = append(d.Ops, ArgOp{P: []string{"PC CResult", "PC CResult", "PSliceI", "PAny"}[r.Intn(4)], A: "res", V: r.Intn(n)})
		case k < 9:
			c := []string{"CInt", "CString", "CInts", "CStruct"}[r.Intn(4)]
			d.Ops = append(d.Ops, ArgOp{P: "PC " + c, A: "val", C: c, V: r.Intn(len(ctValues[c]))})
		default:
			d.Ops = append(d.Ops, ArgOp{P: "PAny", A: "nil"})
		}
	}
	return d
}

// nStatic is the number of Funcs this program had created when main started.
var nStatic int

// distinctStatic lists the static Funcs (indices into regSites) by first
// occurrence of each creation site.
func distinctStatic() []int {
	seen := map[string]bool{}
	var idx []int
	for k := 0; k < nStatic && k < len(regSites); k++ {
		if !seen[regSites[k]] {
			seen[regSites[k]] = true
			idx = append(idx, k)
		}
	}
	return idx
}

func runReg(d Desc) (term string, observed interface{}) {
	sites, obs := regSites, ownLocations()
	if d.Which == "static" {
		sites = regSites[:nStatic]
		if len(obs) > nStatic {
			obs = obs[:nStatic]
		}
	}
	return vf.App("CReg", strList(sites), strList(obs)), map[string]interface{}{"n": len(obs), "first": first(obs, 4)}
}

func first(xs []string, n int) []string {
	if len(xs) > n {
		return xs[:n]
	}
	return xs
}

// runRegPair builds two registries out of real registrations and runs the real
// FuncLocationsDiff on their real locations.
func runRegPair(d Desc) (term string, observed interface{}) {
	idx := distinctStatic()
	own := ownLocations()
	var sites []string
	for _, k := range idx {
		sites = append(sites, regSites[k])
	}
	locs := func(fs []int) []string {
		out := make([]string, len(fs))
		for i, f := range fs {
			out[i] = "?"
			if f >= 0 && f < len(idx) && idx[f] < len(own) {
				out[i] = own[idx[f]]
			}
		}
		return out
	}
	ll, rl := locs(d.LF), locs(d.RF)
	var (
		lines    []string
		panicked bool
	)
	func() {
		defer func() {
			if recover() != nil {
				panicked = true
			}
		}()
		lines = bigslice.FuncLocationsDiff(append([]string{}, ll...), append([]string{}, rl...))
	}()
	obs := "DObsPanic"
	if !panicked {
		obs = vf.App("DObs", vf.Bool(lines == nil), strList(lines))
	}
	return vf.App("CRegPair", strList(sites), vf.IntList(d.LF), vf.IntList(d.RF), strList(ll), strList(rl), obs), lines
}

// genRegPairs: the identity, every swap of two Funcs, one Func replaced by
// another (equal length), rotations, a dropped and an added Func, random
// permutations.
func genRegPairs(r *vf.Rand, nrand int) []Desc {
	n := len(distinctStatic())
	id := make([]int, n)
	for i := range id {
		id[i] = i
	}
	cp := func() []int { return append([]int{}, id...) }
	var ds []Desc
	add := func(rf []int) { ds = append(ds, Desc{K: "regpair", LF: cp(), RF: rf, Kind: "reg/pair"}) }
	add(cp())
	for i := 0; i < n; i++ {
		for j := i + 1; j < n; j++ {
			p := cp()
			p[i], p[j] = p[j], p[i]
			add(p)
		}
	}
	for i := 0; i < n; i++ {
		p := cp()
		p[i] = (i + 1) % n // a different Func at index i, same length
		add(p)
	}
	add(append(cp()[1:], 0))
	add(cp()[:n-1])
	add(append(cp(), 0))
	for k := 0; k < nrand; k++ {
		p := cp()
		for i := n - 1; i > 0; i-- {
			j := r.Intn(i + 1)
			p[i], p[j] = p[j], p[i]
		}
		add(p)
	}
	return ds
}

// invSig names the reason a case can fail for: an untyped nil argument for a
// non-interface parameter, which the code accepts but does not ship (the only
// listed finding; typed nil pointers and nil *Results must fail with an error).
func invSig(d Desc) string {
	for _, o := range d.Ops {
		iface := !strings.HasPrefix(o.P, "PC ")
		switch {
		case o.P == "" || o.A == "":
			continue
		case o.A == "nil" && !iface && nilableCT(strings.TrimPrefix(o.P, "PC ")) && o.P != "PC CChan" && o.P != "PC CFunc":
			return "c16:untyped-nil-for-concrete-param:not-shipped"
		}
	}
	return "inv"
}

// ---------------------------------------------------------------- generators

var alphabet = []string{"a", "b", "c"}

func allLists(maxLen int) [][]string {
	out := [][]string{{}}
	prev := [][]string{{}}
	for n := 1; n <= maxLen; n++ {
		var cur [][]string
		for _, p := range prev {
			for _, a := range alphabet {
				cur = append(cur, append(append([]string{}, p...), a))
			}
		}
		out = append(out, cur...)
		prev = cur
	}
	return out
}

func genLongDiff(r *vf.Rand) Desc {
	// file:line-like locations; rhs is lhs with a few insertions, deletions and replacements
	n := r.Range(3, 12)
	names := []string{"/src/a.go:10", "/src/a.go:12", "/src/b.go:7", "/src/c.go:101", "/src/c.go:7"}
	l := make([]string, n)
	for i := range l {
		l[i] = names[r.Intn(len(names))]
	}
	var rr []string
	for _, x := range l {
		switch k := r.Intn(10); {
		case k < 6:
			rr = append(rr, x)
		case k < 7: // delete
		case k < 8:
			rr = append(rr, names[r.Intn(len(names))], x)
		default:
			rr = append(rr, names[r.Intn(len(names))])
		}
	}
	if r.Chance(1, 8) {
		rr = append([]string{}, l...)
	}
	if r.Bool() {
		l, rr = rr, l
	}
	return Desc{K: "diff", L: l, R: rr, Kind: "diff/random-long"}
}

var valueCTs = []string{"CInt", "CString", "CBool", "CInts", "CMap", "CStruct", "CSq", "CUnreg", "CPtr", "CPsq"}
var shapeCTs = []string{"CSq", "CUnreg", "CPsq"}

func genInv(r *vf.Rand) Desc {
	d := Desc{K: "inv", NRes: r.Pick([]int{0, 0, 1, 2})}
	n := r.Pick([]int{0, 1, 1, 2, 2, 3, 4})
	flavour := r.Intn(100) // <70 shipped only, <82 one nil case, <92 unencodable, else ill-typed
	special := -1
	if n > 0 && flavour >= 70 {
		special = r.Intn(n)
	}
	val := func(c string) ArgOp {
		return ArgOp{A: "val", C: c, V: r.Intn(len(ctValues[c])), E: r.Chance(1, 3)}
	}
	kind := "inv/plain"
	for i := 0; i < n; i++ {
		var o ArgOp
		// parameter type
		switch k := r.Intn(100); {
		case k < 50:
			o.P = "PC " + valueCTs[r.Intn(len(valueCTs))]
		case k < 65:
			o.P = "PAny"
		case k < 75:
			o.P = "PShape"
		case k < 82:
			o.P = "PSliceI"
		case k < 92:
			o.P = "PC CResult"
		case k < 96:
			o.P = "PC CChan"
		default:
			o.P = "PC CFunc"
		}
		iface := !strings.HasPrefix(o.P, "PC ")
		pc := strings.TrimPrefix(o.P, "PC ")
		// an argument the code ships
		good := func() ArgOp {
			switch {
			case o.P == "PAny":
				switch k := r.Intn(10); {
				case k < 6:
					c := valueCTs[r.Intn(len(valueCTs))]
					for c == "CUnreg" || c == "CPtr" {
						c = valueCTs[r.Intn(len(valueCTs))]
					}
					return val(c)
				case k < 8 && d.NRes > 0:
					return ArgOp{A: "res", V: r.Intn(d.NRes)}
				default:
					return ArgOp{A: "nil"}
				}
			case o.P == "PShape":
				if r.Chance(1, 5) {
					return ArgOp{A: "nil"}
				}
				return val([]string{"CSq", "CPsq"}[r.Intn(2)])
			case o.P == "PSliceI" || pc == "CResult":
				if d.NRes > 0 {
					return ArgOp{A: "res", V: r.Intn(d.NRes)}
				}
				if iface {
					return ArgOp{A: "nil"}
				}
				d.NRes = 1
				return ArgOp{A: "res", V: 0}
			case pc == "CChan" || pc == "CFunc":
				return val(pc) // never shipped; counted as unencodable below
			}
			return val(pc)
		}
		a := good()
		if i == special {
			switch {
			case flavour < 82: // a nil the code accepts but does not ship
				switch k := r.Intn(8); {
				case k < 3:
					c := []string{"CInts", "CMap", "CPtr", "CPsq"}[r.Intn(4)]
					o.P, a = "PC "+c, ArgOp{A: "nil"}
				case k < 5:
					c := []string{"CPtr", "CPsq"}[r.Intn(2)]
					o.P, a = "PC "+c, ArgOp{A: "tnil", C: c}
				case k < 7:
					o.P, a = []string{"PAny", "PShape"}[r.Intn(2)], ArgOp{A: "tnil", C: "CPsq"}
				default:
					o.P, a = []string{"PC CResult", "PSliceI", "PAny"}[r.Intn(3)], ArgOp{A: "tnil", C: "CResult"}
				}
				iface = !strings.HasPrefix(o.P, "PC ")
				pc = strings.TrimPrefix(o.P, "PC ")
				kind = "inv/nil" // untyped nil for a non-interface parameter: the listed finding
				switch {
				case a.A == "tnil" && a.C == "CResult":
					kind = "inv/nilres" // Session.run must return an error
				case a.A == "tnil" && iface:
					kind = "inv/unencodable" // gob cannot represent a nil pointer inside an interface
				case a.A == "tnil":
					kind = "inv/nilptr" // GobEncode must return an error
				}
			case flavour < 92: // cannot be encoded
				switch {
				case o.P == "PAny":
					a = val([]string{"CUnreg", "CPtr", "CChan", "CFunc"}[r.Intn(4)])
					if r.Chance(1, 4) {
						a = ArgOp{A: "tnil", C: []string{"CChan", "CFunc"}[r.Intn(2)]}
					}
				case o.P == "PShape":
					a = val("CUnreg")
				default:
					o.P = "PC " + []string{"CChan", "CFunc"}[r.Intn(2)]
					a = val(strings.TrimPrefix(o.P, "PC "))
					if r.Chance(1, 3) {
						a = ArgOp{A: "tnil", C: strings.TrimPrefix(o.P, "PC ")}
					}
				}
				kind = "inv/unencodable"
				if a.A == "val" && a.C == "CPtr" {
					kind = "inv/retyped" // travels under pair's registration and arrives as a pair
				}
			default: // ill-typed
				switch {
				case o.P == "PAny":
					o.P, a = "PC CInt", ArgOp{A: "nil"}
				case o.P == "PShape":
					a = val([]string{"CInt", "CStruct", "CPtr"}[r.Intn(3)])
				case o.P == "PSliceI":
					a = val([]string{"CInt", "CSq"}[r.Intn(2)])
				case r.Chance(1, 4):
					a = ArgOp{} // missing argument
				case !nilableCT(pc) && r.Chance(1, 3):
					a = ArgOp{A: "nil"}
				default:
					c := valueCTs[r.Intn(len(valueCTs))]
					for c == pc {
						c = valueCTs[r.Intn(len(valueCTs))]
					}
					a = val(c)
				}
				iface = !strings.HasPrefix(o.P, "PC ")
				pc = strings.TrimPrefix(o.P, "PC ")
				kind = "inv/illtyped"
			}
		}
		o.A, o.C, o.V, o.E = a.A, a.C, a.V, a.E
		if kind == "inv/plain" {
			switch {
			case o.A == "res":
				kind = "inv/result"
			case iface:
				kind = "inv/iface"
			}
		}
		if (pc == "CChan" || pc == "CFunc") && kind != "inv/illtyped" && kind != "inv/nil" {
			kind = "inv/unencodable"
		}
		d.Ops = append(d.Ops, o)
	}
	if n > 0 && flavour >= 92 && r.Chance(1, 4) {
		d.Ops = append(d.Ops, ArgOp{A: "val", C: "CInt", V: 1}) // extra argument
		kind = "inv/illtyped"
	}
	d.Kind = kind
	return d
}

// fixedInv are the cases every run starts with: one per branch of the codec.
func fixedInv() []Desc {
	one := func(kind string, nres int, ops ...ArgOp) Desc {
		return Desc{K: "inv", Ops: ops, NRes: nres, Kind: kind}
	}
	var ds []Desc
	for _, c := range valueCTs {
		for v := range ctValues[c] {
			ds = append(ds, one("inv/plain", 0, ArgOp{P: "PC " + c, A: "val", C: c, V: v}))
			k := "inv/iface"
			switch c {
			case "CUnreg":
				k = "inv/unencodable"
			case "CPtr":
				k = "inv/retyped"
			}
			ds = append(ds, one(k, 0, ArgOp{P: "PAny", A: "val", C: c, V: v}))
		}
		if nilableCT(c) {
			ds = append(ds, one("inv/nil", 0, ArgOp{P: "PC " + c, A: "nil"}))
		}
		if pointerCT(c) {
			ds = append(ds, one("inv/nilptr", 0, ArgOp{P: "PC " + c, A: "tnil", C: c}))
			ds = append(ds, one("inv/unencodable", 0, ArgOp{P: "PAny", A: "tnil", C: c}))
		}
	}
	ds = append(ds, one("inv/plain", 0, ArgOp{P: "PC CInts", A: "val", C: "CInts", V: 0, E: true}))
	ds = append(ds, one("inv/plain", 0, ArgOp{P: "PC CMap", A: "val", C: "CMap", V: 0, E: true}))
	for _, c := range shapeCTs {
		k := "inv/iface"
		if c == "CUnreg" {
			k = "inv/unencodable"
		}
		ds = append(ds, one(k, 0, ArgOp{P: "PShape", A: "val", C: c, V: 1}))
	}
	ds = append(ds, one("inv/iface", 0, ArgOp{P: "PShape", A: "nil"}))
	ds = append(ds, one("inv/iface", 0, ArgOp{P: "PAny", A: "nil"}))
	ds = append(ds, one("inv/iface", 0, ArgOp{P: "PSliceI", A: "nil"}))
	ds = append(ds, one("inv/unencodable", 0, ArgOp{P: "PShape", A: "tnil", C: "CPsq"}))
	for _, c := range []string{"CChan", "CFunc"} {
		ds = append(ds, one("inv/unencodable", 0, ArgOp{P: "PC " + c, A: "val", C: c}))
		ds = append(ds, one("inv/unencodable", 0, ArgOp{P: "PC " + c, A: "tnil", C: c}))
		ds = append(ds, one("inv/unencodable", 0, ArgOp{P: "PC " + c, A: "nil"}))
		ds = append(ds, one("inv/unencodable", 0, ArgOp{P: "PAny", A: "val", C: c}))
	}
	for _, p := range []string{"PC CResult", "PSliceI", "PAny"} {
		ds = append(ds, one("inv/result", 1, ArgOp{P: p, A: "res", V: 0}))
		ds = append(ds, one("inv/result", 2, ArgOp{P: p, A: "res", V: 1}, ArgOp{P: "PC CInt", A: "val", C: "CInt", V: 1}, ArgOp{P: p, A: "res", V: 0}))
		ds = append(ds, one("inv/nilres", 0, ArgOp{P: p, A: "tnil", C: "CResult"}))
		ds = append(ds, one("inv/nilres", 1, ArgOp{P: "PC CInt", A: "val", C: "CInt", V: 1}, ArgOp{P: p, A: "tnil", C: "CResult"}, ArgOp{P: p, A: "res", V: 0}))
	}
	ds = append(ds, one("inv/nil", 0, ArgOp{P: "PC CResult", A: "nil"}))
	ds = append(ds, one("inv/plain", 0))
	ds = append(ds, one("inv/illtyped", 0, ArgOp{P: "PC CInt", A: "val", C: "CString", V: 1}))
	ds = append(ds, one("inv/illtyped", 0, ArgOp{P: "PC CInt", A: "nil"}))
	ds = append(ds, one("inv/illtyped", 0, ArgOp{P: "PShape", A: "val", C: "CInt", V: 1}))
	ds = append(ds, one("inv/illtyped", 0, ArgOp{P: "PSliceI", A: "val", C: "CSq", V: 1}))
	ds = append(ds, one("inv/illtyped", 0, ArgOp{P: "PC CStruct", A: "val", C: "CSq", V: 1}))
	ds = append(ds, one("inv/illtyped", 0, ArgOp{P: "PC CPtr", A: "val", C: "CStruct", V: 1}))
	ds = append(ds, one("inv/illtyped", 0, ArgOp{P: "PC CInt"}))
	ds = append(ds, one("inv/illtyped", 0, ArgOp{A: "val", C: "CInt", V: 1}))
	ds = append(ds, one("inv/illtyped", 1, ArgOp{P: "PC CInt", A: "res", V: 0}))
	// ill-typed AND a nil *Result: Session.run's test comes before the typecheck
	ds = append(ds, one("inv/nilres", 0, ArgOp{P: "PC CInt", A: "tnil", C: "CResult"}))
	ds = append(ds, one("inv/nilres", 0, ArgOp{P: "PC CResult", A: "tnil", C: "CResult"}, ArgOp{P: "PC CInt", A: "val", C: "CString", V: 1}))
	// a nil pointer after and before an argument that ships / cannot be encoded
	ds = append(ds, one("inv/nilptr", 0, ArgOp{P: "PC CInt", A: "val", C: "CInt", V: 1}, ArgOp{P: "PC CPtr", A: "tnil", C: "CPtr"}))
	ds = append(ds, one("inv/nilptr", 0, ArgOp{P: "PC CPsq", A: "tnil", C: "CPsq"}, ArgOp{P: "PC CChan", A: "val", C: "CChan"}))
	ds = append(ds, one("inv/nilptr", 1, ArgOp{P: "PC CResult", A: "res", V: 0}, ArgOp{P: "PC CPtr", A: "tnil", C: "CPtr"}))
	return ds
}

func main() {
	nStatic = len(regSites)
	opts := vf.ParseFlags()
	out := &vf.Output{ID: "C16", Import: "BS.C16.Corr", Prelude: "From Coq Require Import String.\n",
		Rule: "diff: pairs of location lists (all pairs over {a,b,c} up to a length bound, sampled pairs up to length 4, random similar lists up to length 12); " +
			"non-trivial = the returned diff has both kept and +/- lines. inv: parameter/argument lists (0-4) over 13 concrete types and 3 interface types, " +
			"0-2 earlier Results; non-trivial = well-typed with an interface parameter, a Result or a nil argument. " +
			"registry: bigslice.FuncLocations() against the creation sites this program recorded for every Func it registered (package-level, through helpers in another file, dynamically), " +
			"and the real FuncLocationsDiff on registries built from these real registrations (every swap, every single replacement, rotations, random permutations). Distinct by case term.",
		Extra: map[string]interface{}{}}
	var descs []Desc
	if opts.Replay != "" {
		if err := vf.LoadReplay(opts.Replay, &descs); err != nil {
			fmt.Fprintln(os.Stderr, err)
			os.Exit(2)
		}
	} else {
		root := vf.NewRand(opts.Seed)
		thorough := opts.Tier == "thorough"
		bound := 2
		if thorough {
			bound = 4
		}
		lists := allLists(bound)
		for _, l := range lists {
			for _, r := range lists {
				descs = append(descs, Desc{K: "diff", L: l, R: r, Kind: "diff/exhaustive"})
			}
		}
		out.Extra["exhaustive"] = thorough
		out.Extra["exhaustive_space"] = fmt.Sprintf("FuncLocationsDiff on all %d ordered pairs of lists over a 3-letter alphabet with length <= %d", len(lists)*len(lists), bound)
		if !thorough {
			all4 := allLists(4)
			r := root.Split()
			for i := 0; i < 150*opts.Scale; i++ {
				descs = append(descs, Desc{K: "diff", L: all4[r.Intn(len(all4))], R: all4[r.Intn(len(all4))], Kind: "diff/sampled"})
			}
		}
		nlong, ninv := 60, 160
		if thorough {
			nlong, ninv = 1500, 3000
		}
		for i := 0; i < nlong*opts.Scale; i++ {
			descs = append(descs, genLongDiff(root.Split()))
		}
		descs = append(descs, Desc{K: "reg", Which: "static", Kind: "reg/locations"})
		nperm := 10
		if thorough {
			nperm = 200
		}
		descs = append(descs, genRegPairs(root.Split(), nperm*opts.Scale)...)
		descs = append(descs, fixedInv()...)
		descs = append(descs, fixedDeps()...)
		ndeps := 12
		if thorough {
			ndeps = 150
		}
		for i := 0; i < ndeps*opts.Scale; i++ {
			descs = append(descs, genDeps(root.Split()))
		}
		for i := 0; i < ninv*opts.Scale; i++ {
			descs = append(descs, genInv(root.Split()))
		}
	}
	if opts.Replay == "" {
		descs = append(descs, Desc{K: "reg", Which: "all", Kind: "reg/locations"})
	}
	for _, d := range descs {
		switch d.K {
		case "reg":
			term, obs := runReg(d)
			out.Add(vf.Case{Term: term, Desc: d, Sig: "registry", Nontriv: vf.Hash(term), Kind: "reg/locations", Observed: obs})
		case "regpair":
			term, obs := runRegPair(d)
			out.Add(vf.Case{Term: term, Desc: d, Sig: "registry", Nontriv: vf.Hash(term), Kind: "reg/pair", Observed: obs})
		case "diff":
			term, obs, nt := runDiff(d)
			nontriv := ""
			if nt {
				nontriv = vf.Hash(term)
			}
			out.Add(vf.Case{Term: term, Desc: d, Sig: "diff", Nontriv: nontriv, Kind: d.Kind, Observed: obs})
		case "deps":
			term, obs := runDeps(d)
			out.Add(vf.Case{Term: term, Desc: d, Sig: "inv-deps", Nontriv: vf.Hash(term), Kind: "inv/deps", Observed: obs})
		case "inv":
			term, obs, sig := runInv(d)
			nontriv := ""
			if d.Kind != "inv/plain" && d.Kind != "inv/illtyped" && d.Kind != "inv/unencodable" && d.Kind != "inv/retyped" {
				nontriv = vf.Hash(term)
			}
			kind := d.Kind
			if kind == "" {
				kind = "inv/replay"
			}
			out.Add(vf.Case{Term: term, Desc: d, Sig: sig, Nontriv: nontriv, Kind: kind, Observed: obs})
		}
	}
	sigs := map[string]int{}
	for _, c := range out.Cases {
		sigs[c.Sig]++
	}
	var ss []string
	for s, n := range sigs {
		ss = append(ss, fmt.Sprintf("%s=%d", s, n))
	}
	sort.Strings(ss)
	out.Notes = append(out.Notes, "cases by signature: "+strings.Join(ss, " "))
	if err := out.Write(opts.Out, opts); err != nil {
		fmt.Fprintln(os.Stderr, err)
		os.Exit(2)
	}
}

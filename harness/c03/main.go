// Command c03 drives the evaluator of package exec in two ways and writes the
// Coq case file judged by coq/C03/Corr.v:
//
//	(i)  synchronously, through the add-only hook on the unexported type state:
//	     random task graphs built from real *exec.Task values, random sequences of
//	     Enqueue / Return / Runnable and external Task.Set calls, the complete
//	     scheduling state dumped after every operation;
//	(ii) the real exec.Eval (one evaluation, and two concurrent evaluations
//	     sharing tasks) with an Executor whose Run only records the call, driven
//	     in lock-step: one event is injected, then the driver waits until a full
//	     goroutine dump shows every goroutine of Eval parked, and only then reads
//	     the Run calls, Eval's result and the task states.
package main

import (
	"bytes"
	"context"
	"errors"
	"flag"
	"fmt"
	"net/http"
	"os"
	"runtime"
	"sort"
	"strings"
	"sync"
	"sync/atomic"
	"time"

	"github.com/grailbio/base/eventlog"
	"github.com/grailbio/base/log"
	"github.com/grailbio/bigslice/exec"
	"github.com/grailbio/bigslice/sliceio"
	"verifharness/vf"
)

// ---------------------------------------------------------------- descriptions

type Node struct {
	Deps  []int `json:"deps"`
	Group []int `json:"group,omitempty"`
}

// Op is one driver operation. Sync mode: enq/ret/runnable/set. Eval mode:
// start (evaluator E) / set.
type Op struct {
	K string `json:"k"`
	T int    `json:"t"`
	S string `json:"s,omitempty"`
	E int    `json:"e,omitempty"`
}

type Desc struct {
	Mode  string   `json:"mode"` // "sync" | "eval"
	Shape string   `json:"shape"`
	Graph []Node   `json:"graph"`
	Init  []string `json:"init"`
	Roots [][]int  `json:"roots,omitempty"` // per evaluator (eval mode)
	Ops   []Op     `json:"ops"`
	// Cl: record Task.consecutiveLost also with several evaluations (scripted
	// scenarios, where it does not depend on goroutine timing).
	Cl bool `json:"cl,omitempty"`
	// Procs: GOMAXPROCS while the case runs (0 = leave alone); schedule perturbation
	// for the free-running trials, no effect on what a correct Eval lets us observe.
	Procs int `json:"procs,omitempty"`
}

var stateNames = []string{"INIT", "WAITING", "RUNNING", "OK", "ERROR", "LOST"}
var stateByName = map[string]exec.TaskState{
	"INIT": exec.TaskInit, "WAITING": exec.TaskWaiting, "RUNNING": exec.TaskRunning,
	"OK": exec.TaskOk, "ERROR": exec.TaskErr, "LOST": exec.TaskLost,
}
var coqState = map[string]string{
	"INIT": "TInit", "WAITING": "TWaiting", "RUNNING": "TRunning", "OK": "TOk", "ERROR": "TErr", "LOST": "TLost",
}

// Coq's parser is slow on the [a; b; c] notation for big nested terms (seconds per
// 100 kB); the case terms use explicit cons/nil, which parse an order of magnitude faster.
func list(xs []string) string {
	var b strings.Builder
	for _, x := range xs {
		b.WriteString("(cons ")
		b.WriteString(x)
		b.WriteByte(' ')
	}
	b.WriteString("nil")
	for range xs {
		b.WriteByte(')')
	}
	return b.String()
}

// Numerals are slow to interpret too: small numbers are printed as the identifiers
// n0..n31 / z0..z9 defined in the prelude of the case file.
const natIdents, zIdents = 32, 10

func natT(x int) string {
	if x >= 0 && x < natIdents {
		return fmt.Sprintf("n%d", x)
	}
	return vf.Nat(x)
}

func zT(x int64) string {
	if x >= 0 && x < zIdents {
		return fmt.Sprintf("z%d", x)
	}
	return vf.Z(x)
}

func prelude() string {
	var b strings.Builder
	for i := 0; i < natIdents; i++ {
		fmt.Fprintf(&b, "Definition n%d : nat := %d%%nat.\n", i, i)
	}
	for i := 0; i < zIdents; i++ {
		fmt.Fprintf(&b, "Definition z%d : Z := %d%%Z.\n", i, i)
	}
	return b.String()
}

func natList(xs []int) string {
	ss := make([]string, len(xs))
	for i, x := range xs {
		ss[i] = natT(x)
	}
	return list(ss)
}

func zList(xs []int64) string {
	ss := make([]string, len(xs))
	for i, x := range xs {
		ss[i] = zT(x)
	}
	return list(ss)
}

var errInjected = errors.New("injected task failure")

// setState is the environment's only way of changing a task: the public
// Task.Set / Task.Error (both broadcast to waiters).
func setState(t *exec.Task, s string) {
	if s == "ERROR" {
		t.Error(errInjected)
		return
	}
	t.Set(stateByName[s])
}

// buildTasks makes real tasks for a described graph, in their initial states.
func buildTasks(d *Desc) []*exec.Task {
	ts := make([]*exec.Task, len(d.Graph))
	for i := range ts {
		ts[i] = &exec.Task{Name: exec.TaskName{Op: fmt.Sprintf("t%d", i), Shard: 0, NumShard: 1}}
	}
	for i, n := range d.Graph {
		for _, dep := range n.Deps {
			ts[i].Deps = append(ts[i].Deps, exec.TaskDep{Head: ts[dep]})
		}
		for _, m := range n.Group {
			ts[i].Group = append(ts[i].Group, ts[m])
		}
	}
	for i, s := range d.Init {
		if s != "INIT" {
			setState(ts[i], s)
		}
	}
	return ts
}

func graphTerm(d *Desc) string {
	ns := make([]string, len(d.Graph))
	for i, n := range d.Graph {
		ns[i] = vf.App("mkT", natList(n.Deps), natList(n.Group))
	}
	return list(ns)
}

func statesTerm(ss []string) string {
	xs := make([]string, len(ss))
	for i, s := range ss {
		xs[i] = coqState[s]
	}
	return list(xs)
}

func ids(index map[*exec.Task]int, ts []*exec.Task) []int {
	out := make([]int, len(ts))
	for i, t := range ts {
		out[i] = index[t]
	}
	sort.Ints(out)
	return out
}

func readStates(ts []*exec.Task) []string {
	out := make([]string, len(ts))
	for i, t := range ts {
		out[i] = t.State().String()
	}
	return out
}

// ---------------------------------------------------------------- (i) synchronous mode

type syncGen func(states []string, todo, pending []int) (Op, bool)

// runSync executes a sync case. If gen != nil the ops are produced on the fly
// (and recorded in d.Ops); otherwise d.Ops is replayed.
func runSync(d *Desc, gen syncGen) (term string, nret int, errTouched bool) {
	ts := buildTasks(d)
	index := map[*exec.Task]int{}
	for i, t := range ts {
		index[t] = i
	}
	st := exec.VerifC03NewState()
	var steps []string
	valid := func(i int) bool { return i >= 0 && i < len(ts) }
	for k := 0; ; k++ {
		var o Op
		if gen != nil {
			var ok bool
			if o, ok = gen(readStates(ts), ids(index, st.TodoSet()), ids(index, st.PendingSet())); !ok {
				break
			}
		} else {
			if k >= len(d.Ops) {
				break
			}
			o = d.Ops[k]
		}
		var opT, outT string
		switch o.K {
		case "enq":
			if !valid(o.T) {
				continue
			}
			fresh := true
			for _, t := range ts {
				if _, ok := st.Wait(t); ok {
					fresh = false
				}
			}
			before := map[int]bool{}
			for _, t := range ids(index, st.TodoSet()) {
				before[t] = true
			}
			opT, outT = vf.App("SEnq", natT(o.T)), vf.App("SNum", natT(st.Enqueue(ts[o.T])))
			if fresh {
				// a task scheduled although one of its dependencies is in ERR
				states := readStates(ts)
				for _, u := range ids(index, st.TodoSet()) {
					if before[u] || (states[u] != "INIT" && states[u] != "LOST") {
						continue
					}
					for _, dep := range d.Graph[u].Deps {
						for _, v := range phaseOfGraph(d.Graph, dep) {
							if states[v] == "ERROR" {
								errTouched = true
							}
						}
					}
				}
			}
		case "ret":
			if !valid(o.T) {
				continue
			}
			opT = vf.App("SRet", natT(o.T))
			if st.Return(ts[o.T]) {
				outT = "SPanic"
			} else {
				outT = "SUnit"
				nret++
			}
		case "runnable":
			opT, outT = "SRunnable", vf.App("STasks", natList(ids(index, st.Runnable())))
		case "set":
			if !valid(o.T) || coqState[o.S] == "" {
				continue
			}
			setState(ts[o.T], o.S)
			opT, outT = vf.App("SSet", natT(o.T), coqState[o.S]), "SUnit"
		default:
			continue
		}
		if gen != nil {
			d.Ops = append(d.Ops, o)
		}
		counts := make([]int64, len(ts))
		deps := make([]string, len(ts))
		wait := make([]string, len(ts))
		for i, t := range ts {
			counts[i] = int64(st.Count(t))
			deps[i] = natList(ids(index, st.Deps(t)))
			if n, ok := st.Wait(t); ok {
				wait[i] = vf.Some(natT(n))
			} else {
				wait[i] = "None"
			}
		}
		dump := vf.App("mkDump", natList(ids(index, st.TodoSet())), natList(ids(index, st.PendingSet())),
			vf.Bool(st.Done()), vf.Bool(st.HasErr()), zList(counts), list(deps), list(wait), statesTerm(readStates(ts)))
		steps = append(steps, vf.Tuple(opT, outT, dump))
	}
	return vf.App("CSync", graphTerm(d), statesTerm(d.Init), list(steps)), nret, errTouched
}

// ---------------------------------------------------------------- (ii) the real Eval in lock-step

type recExec struct {
	mu    sync.Mutex
	calls []*exec.Task
}

func (*recExec) Name() string                              { return "c03-recorder" }
func (*recExec) Start(*exec.Session) (shutdown func())     { return func() {} }
func (*recExec) Reader(*exec.Task, int) sliceio.ReadCloser { panic("not used") }
func (*recExec) Discard(context.Context, *exec.Task)       {}
func (*recExec) Eventer() eventlog.Eventer                 { return eventlog.Nop{} }
func (*recExec) HandleDebug(*http.ServeMux)                {}
func (x *recExec) Run(t *exec.Task)                        { x.mu.Lock(); x.calls = append(x.calls, t); x.mu.Unlock() }
func (x *recExec) take() []*exec.Task {
	x.mu.Lock()
	defer x.mu.Unlock()
	c := x.calls
	x.calls = nil
	return c
}
func (x *recExec) count() int { x.mu.Lock(); defer x.mu.Unlock(); return len(x.calls) }

type evalRun struct {
	ex      *recExec
	cancel  context.CancelFunc
	mu      sync.Mutex
	started bool
	entered atomic.Bool // the goroutine calling Eval is running (it is invisible in dumps before)
	done    bool
	err     error
	paniced bool
}

func (r *evalRun) result() (done bool, err error, paniced bool) {
	r.mu.Lock()
	defer r.mu.Unlock()
	return r.done, r.err, r.paniced
}

// c03EvalWrapper is the goroutine that calls exec.Eval; its name is looked for
// in goroutine dumps.
func c03EvalWrapper(ctx context.Context, r *evalRun, roots []*exec.Task) {
	r.entered.Store(true)
	defer func() {
		if p := recover(); p != nil {
			r.mu.Lock()
			r.done, r.paniced = true, true
			r.mu.Unlock()
		}
	}()
	err := exec.Eval(ctx, r.ex, roots, nil)
	r.mu.Lock()
	r.done, r.err = true, err
	r.mu.Unlock()
}

var (
	stackBuf     = make([]byte, 1<<20)
	dumpFallback bool // frame names not found: quiescence by settle timeout only
	nSteps       int
	settleTotal  time.Duration
)

// parked reports whether every goroutine that belongs to an evaluation (a frame
// of exec.Eval, of the wrapper, or of the recording executor) is blocked in a
// select, channel receive or channel send. found = at least one such goroutine.
func parked() (ok bool, found int) {
	var n int
	for {
		n = runtime.Stack(stackBuf, true)
		if n < len(stackBuf) {
			break
		}
		stackBuf = make([]byte, 2*len(stackBuf))
	}
	dump := stackBuf[:n]
	for len(dump) > 0 {
		var blk []byte
		if i := bytes.Index(dump, []byte("\n\n")); i >= 0 {
			blk, dump = dump[:i], dump[i+2:]
		} else {
			blk, dump = dump, nil
		}
		if !bytes.Contains(blk, []byte("exec.Eval")) && !bytes.Contains(blk, []byte("c03EvalWrapper")) &&
			!bytes.Contains(blk, []byte("recExec).Run")) {
			continue
		}
		found++
		// "goroutine 12 [select, 2 minutes]:"
		l := bytes.IndexByte(blk, '[')
		r := bytes.IndexByte(blk, ']')
		if l < 0 || r < l {
			return false, found
		}
		st := string(blk[l+1 : r])
		if i := strings.IndexByte(st, ','); i >= 0 {
			st = st[:i]
		}
		switch st {
		case "select", "chan receive", "chan send":
		default:
			return false, found
		}
	}
	return true, found
}

// settle waits for quiescence: two consecutive dumps in which everything is
// parked and the observable counters did not move. false = watchdog expired.
func settle(evs []*evalRun, limit time.Duration) bool {
	t0 := time.Now()
	defer func() { nSteps++; settleTotal += time.Since(t0) }()
	finger := func() string {
		var b strings.Builder
		for _, r := range evs {
			d, _, _ := r.result()
			fmt.Fprintf(&b, "%d/%v;", r.ex.count(), d)
		}
		return b.String()
	}
	prev, have := "", false
	pause := 10 * time.Microsecond
	for {
		runtime.Gosched()
		ok, found := parked()
		for _, r := range evs {
			// a goroutine that has not run yet shows only its compiler-generated
			// wrapper in a dump: wait until Eval's caller has announced itself
			if r.started && !r.entered.Load() {
				ok = false
			}
		}
		if ok && found == 0 {
			for _, r := range evs {
				if d, _, _ := r.result(); r.started && !d {
					// an evaluation is live but no goroutine of it was recognised
					dumpFallback = true
					time.Sleep(20 * time.Millisecond)
				}
			}
		}
		if ok {
			f := finger()
			if have && f == prev {
				return true
			}
			prev, have = f, true
		} else {
			have = false
		}
		if time.Since(t0) > limit {
			return false
		}
		time.Sleep(pause) // polling only; never relied upon for ordering
		if pause < time.Millisecond {
			pause *= 2
		}
	}
}

const watchdog = 30 * time.Second

type evalGen func(states []string, started []bool, results []int, outstanding [][]int) (Op, bool)

type evalStats struct {
	runs, losses, steps int
	errTouched          bool // the ERR-as-done behaviour was exercised
	hung                bool
}

// runEval executes an eval-mode case in lock-step.
func runEval(d *Desc, gen evalGen) (term string, stats evalStats) {
	if d.Procs > 0 {
		defer runtime.GOMAXPROCS(runtime.GOMAXPROCS(d.Procs))
	}
	ts := buildTasks(d)
	index := map[*exec.Task]int{}
	for i, t := range ts {
		index[t] = i
	}
	ne := len(d.Roots)
	evs := make([]*evalRun, ne)
	for e := range evs {
		evs[e] = &evalRun{ex: &recExec{}}
	}
	defer func() {
		// stop whatever is still evaluating, so that its goroutines park for good
		for _, r := range evs {
			if r.cancel != nil {
				r.cancel()
			}
		}
		settle(evs, watchdog)
		nSteps--
	}()
	outstanding := make([][]int, ne) // tasks handed out by evaluator e and not yet finished
	resultsOf := func() []int {
		out := make([]int, ne)
		for e, r := range evs {
			done, err, paniced := r.result()
			switch {
			case !done:
				out[e] = 0
			case paniced:
				out[e] = 3
			case err == nil:
				out[e] = 1
			default:
				out[e] = 2
			}
		}
		return out
	}
	startedOf := func() []bool {
		out := make([]bool, ne)
		for e, r := range evs {
			out[e] = r.started
		}
		return out
	}
	phaseOf := func(t int) []int {
		if len(d.Graph[t].Group) > 0 {
			return d.Graph[t].Group
		}
		return []int{t}
	}
	var steps []string
	for k := 0; ; k++ {
		var o Op
		if gen != nil {
			var ok bool
			if o, ok = gen(readStates(ts), startedOf(), resultsOf(), outstanding); !ok {
				break
			}
		} else {
			if k >= len(d.Ops) {
				break
			}
			o = d.Ops[k]
		}
		var lab string
		pre := readStates(ts)
		switch o.K {
		case "start":
			if o.E < 0 || o.E >= ne || evs[o.E].started {
				continue
			}
			r := evs[o.E]
			r.started = true
			var roots []*exec.Task
			for _, t := range d.Roots[o.E] {
				roots = append(roots, ts[t])
			}
			ctx, cancel := context.WithCancel(context.Background())
			r.cancel = cancel
			go c03EvalWrapper(ctx, r, roots)
			lab = vf.App("LStart", natT(o.E))
		case "set":
			if o.T < 0 || o.T >= len(ts) || coqState[o.S] == "" {
				continue
			}
			setState(ts[o.T], o.S)
			pre[o.T] = o.S
			lab = vf.App("LSet", natT(o.T), coqState[o.S])
			for e := range outstanding {
				if o.S == "OK" || o.S == "ERROR" || o.S == "LOST" {
					for i, u := range outstanding[e] {
						if u == o.T {
							outstanding[e] = append(outstanding[e][:i:i], outstanding[e][i+1:]...)
							if o.S == "LOST" {
								stats.losses++
							}
							break
						}
					}
				}
			}
		default:
			continue
		}
		if gen != nil {
			d.Ops = append(d.Ops, o)
		}
		hung := !settle(evs, watchdog)
		if hung {
			stats.hung = true
		}
		stats.steps++
		// Which of two evaluations resubmits a shared lost task is decided by goroutine
		// timing; with more than one evaluation only the union of the Run calls is recorded.
		var runs []string
		var union []int
		res := resultsOf()
		for e, r := range evs {
			got := ids(index, r.ex.take())
			if ne == 1 {
				runs = append(runs, natList(got))
			}
			union = append(union, got...)
			stats.runs += len(got)
			for _, t := range got {
				outstanding[e] = append(outstanding[e], t)
				for _, dep := range d.Graph[t].Deps {
					for _, u := range phaseOf(dep) {
						if pre[u] == "ERROR" {
							stats.errTouched = true
						}
					}
				}
			}
			if res[e] == 1 {
				for _, t := range d.Roots[e] {
					if ts[t].State() == exec.TaskErr {
						stats.errTouched = true
					}
				}
			}
		}
		if ne > 1 {
			sort.Ints(union)
			runs = []string{natList(union)}
		}
		rs := make([]string, ne)
		for e, x := range res {
			rs[e] = natT(x)
		}
		// Task.consecutiveLost: recorded for single evaluations and for the scripted
		// multi-evaluation scenarios. (In the random two-evaluation histories an
		// evaluation whose waiter missed a loss re-traverses its roots later than the
		// model's schedule says, which is visible in other tasks' counters.)
		var cls []int64
		if ne == 1 || d.Cl {
			for _, t := range ts {
				cls = append(cls, int64(exec.VerifC03ConsecutiveLost(t)))
			}
		}
		obs := vf.App("mkObs", list(runs), list(rs), statesTerm(readStates(ts)), zList(cls), vf.Bool(hung))
		steps = append(steps, vf.Tuple(lab, obs))
		if hung {
			break
		}
	}
	rootss := make([]string, ne)
	for e, r := range d.Roots {
		rootss[e] = natList(r)
	}
	return vf.App("CEval", graphTerm(d), statesTerm(d.Init), list(rootss), list(steps)), stats
}

// ---------------------------------------------------------------- generators

// genGraph builds a random DAG of phases in topological id order. A phase is a
// single ungrouped task or a group (shuffle phase) of 1-3 tasks; dependencies
// name phase heads, as compile does.
func genGraph(r *vf.Rand, shape string, maxTasks int) (g []Node, heads []int) {
	addPhase := func(size int, grouped bool, deps []int, extra func(m int) []int) {
		first := len(g)
		var grp []int
		if grouped {
			for m := 0; m < size; m++ {
				grp = append(grp, first+m)
			}
		}
		for m := 0; m < size; m++ {
			ds := append([]int{}, deps...)
			if extra != nil {
				ds = append(ds, extra(m)...)
			}
			g = append(g, Node{Deps: ds, Group: append([]int{}, grp...)})
		}
		heads = append(heads, first)
	}
	switch shape {
	case "chain":
		n := r.Range(2, 5)
		for i := 0; i < n; i++ {
			var deps []int
			if i > 0 {
				deps = []int{heads[i-1]}
			}
			addPhase(1, false, deps, nil)
		}
	case "diamond":
		addPhase(1, false, nil, nil)
		addPhase(1, false, []int{0}, nil)
		addPhase(1, false, []int{0}, nil)
		addPhase(1, false, []int{1, 2}, nil)
		if r.Bool() {
			addPhase(1, false, []int{3}, nil)
		}
	case "multiroot":
		k := r.Range(1, 2)
		for i := 0; i < k; i++ {
			addPhase(1, false, nil, nil)
		}
		m := r.Range(2, 4)
		for i := 0; i < m; i++ {
			var deps []int
			for j := 0; j < k; j++ {
				if r.Chance(2, 3) {
					deps = append(deps, j)
				}
			}
			addPhase(1, false, deps, nil)
		}
	case "shuffle":
		// phases of groups: every task of a phase depends on the whole previous phase
		np := r.Range(2, 3)
		for p := 0; p < np; p++ {
			var deps []int
			if p > 0 {
				deps = []int{heads[p-1]}
			}
			addPhase(r.Range(1, 3), true, deps, nil)
		}
		if r.Bool() { // an ungrouped consumer of the last phase
			addPhase(1, false, []int{heads[len(heads)-1]}, nil)
		}
	default: // "mixed": anything goes, shared and repeated dependencies
		for len(g) < maxTasks {
			size, grouped := 1, false
			if r.Chance(2, 5) {
				size, grouped = r.Range(1, 3), true
			}
			if len(g)+size > maxTasks {
				break
			}
			var deps []int
			if len(heads) > 0 {
				nd := r.Intn(3)
				for i := 0; i < nd; i++ {
					if r.Chance(1, 2) {
						deps = append(deps, heads[len(heads)-1-r.Intn(min(2, len(heads)))])
					} else {
						deps = append(deps, heads[r.Intn(len(heads))])
					}
				}
			}
			hs := append([]int{}, heads...)
			addPhase(size, grouped, deps, func(m int) []int {
				if len(hs) > 0 && r.Chance(1, 4) {
					return []int{hs[r.Intn(len(hs))]} // a dependency private to one member
				}
				return nil
			})
			if len(g) >= 3 && r.Chance(1, 5) {
				break
			}
		}
	}
	return g, heads
}

func phaseOfGraph(g []Node, t int) []int {
	if len(g[t].Group) > 0 {
		return g[t].Group
	}
	return []int{t}
}

// genInit picks initial task states. profile "fresh": all INIT; "reuse": a
// dependency-closed set already OK (an earlier invocation), some of them lost
// since; "any": every state possible (ERR only if allowErr).
func genInit(r *vf.Rand, g []Node, profile string, allowErr bool) []string {
	init := make([]string, len(g))
	for i := range init {
		init[i] = "INIT"
	}
	switch profile {
	case "fresh":
	case "reuse":
		for i := range g {
			ok := r.Chance(2, 3)
			for _, d := range g[i].Deps {
				for _, u := range phaseOfGraph(g, d) {
					if init[u] == "INIT" {
						ok = false
					}
				}
			}
			if ok {
				init[i] = "OK"
			}
		}
		for i := range g {
			if init[i] == "OK" && r.Chance(1, 5) {
				init[i] = "LOST"
			}
		}
	default:
		for i := range g {
			switch k := r.Intn(20); {
			case k < 8:
			case k < 13:
				init[i] = "OK"
			case k < 15:
				init[i] = "LOST"
			case k < 17:
				init[i] = "WAITING"
			case k < 19:
				init[i] = "RUNNING"
			default:
				if allowErr {
					init[i] = "ERROR"
				} else {
					init[i] = "OK"
				}
			}
		}
	}
	return init
}

func genRoots(r *vf.Rand, g []Node, heads []int) []int {
	// mostly the last phase (what a Func invocation returns), sometimes more
	last := heads[len(heads)-1]
	roots := append([]int{}, phaseOfGraph(g, last)...)
	if len(roots) > 1 && r.Chance(1, 4) {
		roots = roots[:1+r.Intn(len(roots)-1)] // part of a group only
	}
	for _, h := range heads[:len(heads)-1] {
		if r.Chance(1, 6) {
			roots = append(roots, phaseOfGraph(g, h)...)
		}
	}
	if r.Chance(1, 10) && len(roots) > 0 {
		roots = append(roots, roots[0]) // a root listed twice
	}
	return roots
}

var shapes = []string{"chain", "diamond", "multiroot", "shuffle", "mixed", "mixed"}

func genSyncCase(r *vf.Rand, i int) Desc {
	shape := shapes[i%len(shapes)]
	g, heads := genGraph(r, shape, 8)
	profile := []string{"fresh", "reuse", "any", "any"}[r.Intn(4)]
	d := Desc{Mode: "sync", Shape: shape, Graph: g, Init: genInit(r, g, profile, r.Chance(1, 3))}
	roots := genRoots(r, g, heads)
	nops := 8 + r.Intn(22)
	k := 0
	var retNext []int // tasks to Return right after their final state was set
	gen := func(states []string, todo, pending []int) (Op, bool) {
		if k >= nops {
			return Op{}, false
		}
		k++
		if len(retNext) > 0 {
			t := retNext[0]
			retNext = retNext[1:]
			return Op{K: "ret", T: t}, true
		}
		if k <= len(roots) && r.Chance(4, 5) {
			return Op{K: "enq", T: roots[k-1]}, true
		}
		switch x := r.Intn(100); {
		case x < 15:
			return Op{K: "enq", T: r.Intn(len(g))}, true
		case x < 22:
			return Op{K: "enq", T: roots[r.Intn(len(roots))]}, true
		case x < 40:
			return Op{K: "runnable"}, true
		case x < 72:
			// what Eval does: a pending task reaches a final state and is returned
			if len(pending) > 0 {
				t := pending[r.Intn(len(pending))]
				if r.Chance(3, 4) {
					s := []string{"OK", "OK", "OK", "LOST", "LOST", "ERROR", "RUNNING", "WAITING", "INIT"}[r.Intn(9)]
					retNext = append(retNext, t)
					return Op{K: "set", T: t, S: s}, true
				}
				return Op{K: "ret", T: t}, true
			}
			return Op{K: "ret", T: r.Intn(len(g))}, true // not pending: panics
		case x < 90:
			t := r.Intn(len(g))
			var s string
			switch states[t] {
			case "INIT":
				s = []string{"WAITING", "LOST", "OK"}[r.Intn(3)]
			case "WAITING":
				s = []string{"RUNNING", "OK", "LOST", "ERROR"}[r.Intn(4)]
			case "RUNNING":
				s = []string{"OK", "OK", "LOST", "ERROR"}[r.Intn(4)]
			case "OK":
				s = []string{"LOST", "LOST", "RUNNING"}[r.Intn(3)]
			case "LOST":
				s = []string{"WAITING", "INIT"}[r.Intn(2)]
			default:
				s = stateNames[r.Intn(len(stateNames))]
			}
			return Op{K: "set", T: t, S: s}, true
		default:
			return Op{K: "set", T: r.Intn(len(g)), S: stateNames[r.Intn(len(stateNames))]}, true
		}
	}
	runSync(&d, gen)
	return d
}

// genEvalCase generates (by running) an eval-mode case with ne evaluators.
func genEvalCase(r *vf.Rand, i, ne int) Desc {
	shape := shapes[i%len(shapes)]
	g, heads := genGraph(r, shape, 7)
	profile := []string{"fresh", "fresh", "reuse", "reuse", "any"}[r.Intn(5)]
	d := Desc{Mode: "eval", Shape: shape, Graph: g, Init: genInit(r, g, profile, r.Chance(1, 2))}
	roots := genRoots(r, g, heads)
	d.Roots = append(d.Roots, roots)
	for e := 1; e < ne; e++ {
		if r.Chance(2, 3) {
			d.Roots = append(d.Roots, append([]int{}, roots...))
		} else {
			d.Roots = append(d.Roots, genRoots(r, g, heads[:1+r.Intn(len(heads))]))
		}
	}
	// environment profile: "normal", "lossy" (one victim task keeps being lost), "fatal"
	env := []string{"normal", "normal", "lossy", "lossy", "fatal"}[r.Intn(5)]
	victim := r.Intn(len(g))
	maxSteps := 10 + r.Intn(16)
	startAt := make([]int, ne)
	for e := 1; e < ne; e++ {
		startAt[e] = []int{1, 1, 2, 4}[r.Intn(4)]
	}
	k := 0
	after := -1 // events still to inject after every evaluation has returned
	// Two evaluations that both wait for the same task race when it is lost: the one
	// whose main loop resubmits it first resets it to WAITING, and the other one's
	// waiter goroutine may or may not have seen LOST by then. Since 0540c52 the loss
	// is counted exactly once either way, but an evaluation whose waiter missed the
	// loss does not call Return and so re-traverses its roots later than one that saw
	// it: in a random history that shows in which other lost tasks it picks up when.
	// The random two-evaluation histories therefore never lose a task that is
	// WAITING/RUNNING and needed by two live evaluations (it may still complete, fail,
	// or be lost once it is OK); shared tasks are lost in the scripted scenarios
	// (genScenario) and in the free-running trials (genTrial), where only the lost
	// task changes during the streak and the outcome at quiescence is determined.
	cones := make([]map[int]bool, ne)
	for e := range cones {
		cones[e] = map[int]bool{}
		var visit func(t int)
		visit = func(t int) {
			for _, u := range phaseOfGraph(g, t) {
				if cones[e][u] {
					continue
				}
				cones[e][u] = true
				for _, dep := range g[u].Deps {
					visit(dep)
				}
			}
		}
		for _, t := range d.Roots[e] {
			visit(t)
		}
	}
	racy := func(t int, started []bool, results []int) bool {
		n := 0
		for e := 0; e < ne; e++ {
			if started[e] && results[e] == 0 && cones[e][t] {
				n++
			}
		}
		return n > 1
	}
	gen := func(states []string, started []bool, results []int, outstanding [][]int) (Op, bool) {
		k++
		if k > maxSteps {
			return Op{}, false
		}
		for e := 0; e < ne; e++ {
			if !started[e] && k > startAt[e] {
				return Op{K: "start", E: e}, true
			}
		}
		alldone := true
		for e := 0; e < ne; e++ {
			if results[e] == 0 {
				alldone = false
			}
		}
		if alldone {
			if after < 0 {
				after = r.Intn(3)
			}
			if after == 0 {
				return Op{}, false
			}
			after--
		}
		// candidate events, legal for an executor / another invocation / machine loss
		type cand struct {
			t int
			s string
			w int
		}
		var cs []cand
		for t, s := range states {
			switch s {
			case "WAITING":
				cs = append(cs, cand{t, "RUNNING", 6}, cand{t, "OK", 8}, cand{t, "LOST", 3}, cand{t, "ERROR", 1})
			case "RUNNING":
				cs = append(cs, cand{t, "OK", 10}, cand{t, "LOST", 4}, cand{t, "ERROR", 1})
			case "OK":
				cs = append(cs, cand{t, "LOST", 1}, cand{t, "RUNNING", 1}) // later loss; discard in progress
			case "LOST", "INIT":
				// resubmitted / taken by another invocation - which, like this one, only
				// runs a task whose dependencies are there
				ready := true
				for _, dep := range g[t].Deps {
					for _, u := range phaseOfGraph(g, dep) {
						if states[u] != "OK" {
							ready = false
						}
					}
				}
				if ready {
					cs = append(cs, cand{t, "WAITING", 1})
				}
			}
		}
		for i := range cs {
			c := &cs[i]
			if c.s == "LOST" && (states[c.t] == "WAITING" || states[c.t] == "RUNNING") && racy(c.t, started, results) {
				c.w = 0
			}
			switch env {
			case "lossy":
				if c.t == victim && c.s == "LOST" {
					c.w *= 40
				}
			case "fatal":
				if c.s == "ERROR" {
					c.w *= 6
				}
			}
		}
		total := 0
		for _, c := range cs {
			total += c.w
		}
		if total == 0 {
			return Op{}, false
		}
		x := r.Intn(total)
		for _, c := range cs {
			if x < c.w {
				return Op{K: "set", T: c.t, S: c.s}, true
			}
			x -= c.w
		}
		return Op{}, false
	}
	_, _ = runEval(&d, gen)
	return d
}

// ---- scripted loss scenarios: ne evaluations share a small graph; the victim is
// lost k times in a row while handed out (nothing else changes meanwhile), then
// everything that is handed out completes. Error exactly at the max-th consecutive
// loss, exactly one hand-out per loss, one count per loss - whatever the goroutine
// schedule.
type scenario struct {
	name   string
	graph  []Node
	roots  []int
	victim int
}

var scenarios = []scenario{
	{"single", []Node{{}}, []int{0}, 0},
	{"chain-dep", []Node{{}, {Deps: []int{0}}}, []int{1}, 0},
	{"chain-root", []Node{{}, {Deps: []int{0}}}, []int{1}, 1},
	{"group-member", []Node{{Group: []int{0, 1}}, {Group: []int{0, 1}}, {Deps: []int{0}}}, []int{2}, 1},
	{"group-consumer", []Node{{Group: []int{0, 1}}, {Group: []int{0, 1}}, {Deps: []int{0}}}, []int{2}, 2},
	{"diamond-mid", []Node{{}, {Deps: []int{0}}, {Deps: []int{0}}, {Deps: []int{1, 2}}}, []int{3}, 2},
}

func genScenario(sc scenario, ne, k, procs int, shape string) Desc {
	d := Desc{Mode: "eval", Shape: shape, Graph: sc.graph, Cl: true, Procs: procs}
	for range sc.graph {
		d.Init = append(d.Init, "INIT")
	}
	for e := 0; e < ne; e++ {
		d.Roots = append(d.Roots, append([]int{}, sc.roots...))
	}
	step, losses := 0, 0
	gen := func(states []string, started []bool, results []int, outstanding [][]int) (Op, bool) {
		step++
		if step > 60 {
			return Op{}, false
		}
		for e := 0; e < ne; e++ {
			if !started[e] {
				return Op{K: "start", E: e}, true
			}
		}
		live := false
		for e := 0; e < ne; e++ {
			if results[e] == 0 {
				live = true
			}
		}
		if !live {
			return Op{}, false
		}
		if v := states[sc.victim]; (v == "WAITING" || v == "RUNNING") && losses < k {
			losses++
			return Op{K: "set", T: sc.victim, S: "LOST"}, true
		}
		for t, s := range states {
			if s == "WAITING" || s == "RUNNING" {
				return Op{K: "set", T: t, S: "OK"}, true
			}
		}
		return Op{}, false
	}
	runEval(&d, gen)
	return d
}

// exhaustive sweep: every assignment of initial states to a fixed small graph,
// one evaluation started, then every WAITING task completes.
func sweepCases(g []Node, roots []int, shape string) []Desc {
	var out []Desc
	n := len(g)
	total := 1
	for i := 0; i < n; i++ {
		total *= 6
	}
	for x := 0; x < total; x++ {
		init := make([]string, n)
		y := x
		for i := 0; i < n; i++ {
			init[i] = stateNames[y%6]
			y /= 6
		}
		d := Desc{Mode: "eval", Shape: shape, Graph: g, Init: init, Roots: [][]int{roots}}
		k := 0
		gen := func(states []string, started []bool, results []int, outstanding [][]int) (Op, bool) {
			k++
			if k == 1 {
				return Op{K: "start", E: 0}, true
			}
			if results[0] != 0 || k > 2*n+2 {
				return Op{}, false
			}
			for t, s := range states {
				if s == "WAITING" || s == "RUNNING" {
					return Op{K: "set", T: t, S: "OK"}, true
				}
			}
			return Op{}, false
		}
		runEval(&d, gen)
		out = append(out, d)
	}
	return out
}

// ---------------------------------------------------------------- main

func kindOf(d *Desc) string {
	if d.Mode == "sync" {
		return "sync/" + d.Shape
	}
	if strings.HasPrefix(d.Shape, "loss") || strings.HasPrefix(d.Shape, "trial") {
		return d.Shape
	}
	return fmt.Sprintf("eval%d/%s", len(d.Roots), d.Shape)
}

const sigDefect = "eval-err-dep-treated-as-done"

// quietLog drops the evaluator's log lines ("resubmitting lost task ...").
type quietLog struct{}

func (quietLog) Level() log.Level                    { return log.Off }
func (quietLog) Output(int, log.Level, string) error { return nil }

// probeTwoEvaluators is a diagnostic, not part of the check (its outcome depends on
// goroutine timing): one task, two evaluations of it, the task lost again and again
// while handed out. It reports how often the limit of maxConsecutiveLost is bypassed
// because the runner's waiter misses a loss that the other evaluation resubmits first.
func probeTwoEvaluators(trials int) {
	max := exec.VerifC03MaxConsecutiveLost()
	bypass := 0
	for i := 0; i < trials; i++ {
		d := Desc{Mode: "eval", Graph: []Node{{}}, Init: []string{"INIT"}, Roots: [][]int{{0}, {0}}}
		k, final := 0, ""
		gen := func(states []string, started []bool, results []int, outstanding [][]int) (Op, bool) {
			k++
			final = states[0]
			switch {
			case k <= 2:
				return Op{K: "start", E: k - 1}, true
			case k <= 2+max && states[0] == "WAITING":
				return Op{K: "set", T: 0, S: "LOST"}, true
			}
			return Op{}, false
		}
		runEval(&d, gen)
		if k == 3+max && final != "ERROR" {
			bypass++
		}
	}
	fmt.Printf("two evaluations, one task, %d consecutive losses of the handed-out task: "+
		"limit bypassed (task not in ERROR, no evaluation failed) in %d of %d trials\n", max, bypass, trials)
}

func main() {
	probe := flag.Int("probe2", 0, "diagnostic: N trials of the two-evaluation loss-counter race, then exit")
	opts := vf.ParseFlags()
	log.SetOutputter(quietLog{})
	if *probe > 0 {
		probeTwoEvaluators(*probe)
		return
	}
	out := &vf.Output{ID: "C03", Import: "BS.C03.Corr", Prelude: prelude(),
		Rule: "random DAGs of phases (chains, diamonds, multi-root, shuffle groups, mixed with shared/repeated deps), " +
			"all initial task states; (i) op sequences on the hooked scheduling state, (ii) the real Eval in lock-step, " +
			"one and two evaluations, scripted loss streaks and free-running loss trials with two and three; non-trivial = sync: at least one Return executed; eval: at least one Run handed out " +
			"and (a loss of a handed-out task, a second evaluation, or a non-INIT initial state); distinct by case text",
		Extra: map[string]interface{}{}}
	var descs []Desc
	if opts.Replay != "" {
		if err := vf.LoadReplay(opts.Replay, &descs); err != nil {
			fmt.Fprintln(os.Stderr, err)
			os.Exit(2)
		}
	} else {
		nSync, nEval1, nEval2 := 110, 120, 60
		if opts.Tier == "thorough" {
			nSync, nEval1, nEval2 = 1000, 1200, 600
		}
		nSync, nEval1, nEval2 = nSync*opts.Scale, nEval1*opts.Scale, nEval2*opts.Scale
		root := vf.NewRand(opts.Seed)
		for i := 0; i < nSync; i++ {
			descs = append(descs, genSyncCase(root.Split(), i))
		}
		for i := 0; i < nEval1; i++ {
			descs = append(descs, genEvalCase(root.Split(), i, 1))
		}
		for i := 0; i < nEval2; i++ {
			descs = append(descs, genEvalCase(root.Split(), i, 2))
		}
		// scripted loss scenarios, 2 and 3 evaluations, k = 1..6 consecutive losses
		maxLost := exec.VerifC03MaxConsecutiveLost()
		for _, ne := range []int{2, 3} {
			for _, sc := range scenarios {
				for k := 1; k <= maxLost+1; k++ {
					descs = append(descs, genScenario(sc, ne, k, 0, fmt.Sprintf("loss%d/%s", ne, sc.name)))
				}
			}
		}
		// released work starts at once: a shuffle phase {0,1} feeds task 2 while the
		// independent root 3 keeps the evaluation busy; 2 must start when 1 (not the
		// head of its phase) completes, not only when nothing else is pending
		release := scenario{"group-nonhead", []Node{{Group: []int{0, 1}}, {Group: []int{0, 1}}, {Deps: []int{0}}, {}}, []int{2, 3}, 0}
		for _, ne := range []int{1, 2, 3} {
			descs = append(descs, genScenario(release, ne, 0, 0, fmt.Sprintf("loss%d/release-%s", ne, release.name)))
		}
		// free-running trials of the loss accounting: one task, 2 or 3 evaluations,
		// lost every time it is handed out, under varying GOMAXPROCS
		nTrial := 300
		if opts.Tier == "thorough" {
			nTrial = 3000
		}
		nTrial *= opts.Scale
		for i := 0; i < nTrial; i++ {
			procs := []int{0, 2, 3, 4, 8}[i%5]
			descs = append(descs, genScenario(scenarios[0], 2+i%2, maxLost+1, procs, fmt.Sprintf("trial%d", 2+i%2)))
		}
		out.Extra["loss_trials"] = nTrial
		chain2 := []Node{{}, {Deps: []int{0}}}
		descs = append(descs, sweepCases(chain2, []int{1}, "sweep-chain2")...)
		sweeps := []string{"chain2: all 36 initial states"}
		if opts.Tier == "thorough" {
			chain3 := []Node{{}, {Deps: []int{0}}, {Deps: []int{1}}}
			join3 := []Node{{}, {}, {Deps: []int{0, 1}}}
			grp3 := []Node{{Group: []int{0, 1}}, {Group: []int{0, 1}}, {Deps: []int{0}}}
			descs = append(descs, sweepCases(chain3, []int{2}, "sweep-chain3")...)
			descs = append(descs, sweepCases(join3, []int{2}, "sweep-join3")...)
			descs = append(descs, sweepCases(grp3, []int{2}, "sweep-group3")...)
			sweeps = append(sweeps, "chain3, join3, group3: all 216 initial states each")
		}
		out.Extra["initial_state_sweeps"] = sweeps
	}
	// every case is (re-)run from its description: generation and judging see the same run
	nSteps, settleTotal = 0, 0
	hangs := 0
	for i := range descs {
		d := &descs[i]
		ops := d.Ops
		d.Ops = append([]Op{}, ops...)
		var c vf.Case
		func() {
			defer func() {
				if p := recover(); p != nil {
					c = vf.Case{Term: "CPanic", Desc: *d, Sig: "driver-panic", Kind: kindOf(d), Observed: fmt.Sprint(p)}
				}
			}()
			if d.Mode == "sync" {
				term, nret, errTouched := runSync(d, nil)
				nontriv := ""
				if nret > 0 {
					nontriv = vf.Hash(term)
				}
				sig := "state-sync"
				if errTouched {
					sig = sigDefect
				}
				c = vf.Case{Term: term, Desc: *d, Sig: sig, Nontriv: nontriv, Kind: kindOf(d),
					Observed: fmt.Sprintf("%d ops, %d returns", len(d.Ops), nret)}
			} else {
				term, st := runEval(d, nil)
				nontriv := ""
				nonInit := false
				for _, s := range d.Init {
					if s != "INIT" {
						nonInit = true
					}
				}
				if st.runs > 0 && (st.losses > 0 || len(d.Roots) > 1 || nonInit) {
					nontriv = vf.Hash(term)
				}
				sig := "eval-lockstep"
				if strings.HasPrefix(d.Shape, "loss") || strings.HasPrefix(d.Shape, "trial") {
					sig = "eval-loss-accounting"
				}
				if strings.Contains(d.Shape, "/release-") {
					sig = "eval-released-work"
				}
				if st.errTouched {
					sig = sigDefect
				}
				if st.hung {
					sig = "eval-hang"
					hangs++
				}
				c = vf.Case{Term: term, Desc: *d, Sig: sig, Nontriv: nontriv, Kind: kindOf(d),
					Observed: fmt.Sprintf("%d steps, %d runs, %d losses", st.steps, st.runs, st.losses)}
			}
		}()
		out.Add(c)
	}
	if nSteps > 0 {
		out.Extra["lockstep_steps"] = nSteps
		out.Extra["settle_us_per_step"] = int(settleTotal.Microseconds()) / nSteps
	}
	out.Extra["hangs"] = hangs
	if dumpFallback {
		out.Notes = append(out.Notes, "goroutine frame names not found: quiescence by settle timeout only")
	}
	if err := out.Write(opts.Out, opts); err != nil {
		fmt.Fprintln(os.Stderr, err)
		os.Exit(2)
	}
}

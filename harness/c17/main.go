// Command c17 drives the real bigslice readers (operators through
// Slice.Reader(shard, deps) with scripted upstream readers; the sliceio, sortio
// and exec readers through their constructors / the verif hook) with varying
// destination sizes, and writes the Coq case file judged by coq/C17/Corr.v.
package main

import (
	"bytes"
	"context"
	stderrors "errors"
	"fmt"
	"os"
	"reflect"
	"sort"
	"strconv"
	"strings"
	"time"

	baseerrors "github.com/grailbio/base/errors"
	"github.com/grailbio/bigslice"
	"github.com/grailbio/bigslice/exec"
	"github.com/grailbio/bigslice/frame"
	"github.com/grailbio/bigslice/sliceio"
	"github.com/grailbio/bigslice/slicetype"
	"github.com/grailbio/bigslice/sortio"
	"verifharness/vf"
)

// ---------------------------------------------------------------- column types

const (
	sentinel = 424242 // every destination cell holds this before a Read
	zeroMark = -5555  // the Go zero value of a string / slice column
	badMark  = -7777  // a Go value the harness never wrote
)

type colType struct {
	name string
	typ  reflect.Type
	mk   func(z int64) reflect.Value
	toZ  func(v reflect.Value) int64
}

var colTypes = []*colType{
	{"int", reflect.TypeOf(int(0)),
		func(z int64) reflect.Value { return reflect.ValueOf(int(z)) },
		func(v reflect.Value) int64 { return v.Int() }},
	// order-preserving for 0 <= z < 10^7 (keys of merge-based readers)
	{"string", reflect.TypeOf(""),
		func(z int64) reflect.Value { return reflect.ValueOf(fmt.Sprintf("s%07d", z)) },
		func(v reflect.Value) int64 {
			s := v.String()
			if s == "" {
				return zeroMark
			}
			if len(s) < 2 || s[0] != 's' {
				return badMark
			}
			n, err := strconv.ParseInt(s[1:], 10, 64)
			if err != nil {
				return badMark
			}
			return n
		}},
	// a column with interior pointers: aliasing of delivered rows would show here
	{"ints", reflect.TypeOf([]int(nil)),
		func(z int64) reflect.Value { return reflect.ValueOf([]int{int(z), int(z) + 1}) },
		func(v reflect.Value) int64 {
			s := v.Interface().([]int)
			if len(s) == 0 {
				return zeroMark
			}
			if len(s) != 2 || s[1] != s[0]+1 {
				return badMark
			}
			return int64(s[0])
		}},
}

func ctByName(n string) *colType {
	for _, c := range colTypes {
		if c.name == n {
			return c
		}
	}
	panic("unknown column type " + n)
}

func schemaOf(names []string) []*colType {
	s := make([]*colType, len(names))
	for i, n := range names {
		s[i] = ctByName(n)
	}
	return s
}

func typesOf(s []*colType) []reflect.Type {
	t := make([]reflect.Type, len(s))
	for i, c := range s {
		t[i] = c.typ
	}
	return t
}

// an output column of the reader under test
type outCol struct {
	typ  reflect.Type
	sent func() reflect.Value
	toZs func(v reflect.Value) []int64
}

func plainOut(s []*colType) []outCol {
	o := make([]outCol, len(s))
	for i, c := range s {
		c := c
		o[i] = outCol{c.typ, func() reflect.Value { return c.mk(sentinel) }, func(v reflect.Value) []int64 { return []int64{c.toZ(v)} }}
	}
	return o
}

// a cogroup value column: the group's values (canonically sorted), then -1
func groupOut() outCol {
	return outCol{reflect.TypeOf([]int(nil)),
		func() reflect.Value { return reflect.ValueOf([]int{sentinel}) },
		func(v reflect.Value) []int64 {
			s := append([]int(nil), v.Interface().([]int)...)
			sort.Ints(s)
			r := make([]int64, 0, len(s)+1)
			for _, x := range s {
				r = append(r, int64(x))
			}
			return append(r, -1)
		}}
}

// ---------------------------------------------------------------- descriptions

type Resp struct {
	K    string    `json:"k"` // rows | eof | fail
	Rows [][]int64 `json:"rows,omitempty"`
	E    int       `json:"e,omitempty"`
}

type Desc struct {
	Kind   string   `json:"kind"`
	P      []int64  `json:"p,omitempty"`
	Schema []string `json:"schema"`
	Ins    [][]Resp `json:"ins"`
	Ops    []int    `json:"ops"` // demand of each Read call
	// W != 0: the destination of call i is a window backing.Slice(pre, pre+d) of a
	// larger sentinel-filled frame; (pre, post) derive from W and i (see window).
	W uint64 `json:"w,omitempty"`
}

// window gives the rows before and behind the destination window of call ci.
// About half of the calls get a plain frame (Len == Cap, offset 0).
func (d Desc) window(ci int) (pre, post int) {
	if d.W == 0 {
		return 0, 0
	}
	rr := vf.NewRand(d.W + uint64(ci)*7919)
	if rr.Bool() {
		return 0, 0
	}
	pre = []int{0, 0, 1, 2, 3}[rr.Intn(5)]
	post = []int{0, 1, 2, 3, 5, 8, 13, 130}[rr.Intn(8)]
	return pre, post
}

func (d Desc) p(i int) int64 {
	if i < len(d.P) {
		return d.P[i]
	}
	return 0
}

// ---------------------------------------------------------------- errors

func mkErr(e int) error {
	if e == 2 {
		return baseerrors.E(baseerrors.Temporary, "scripted temporary failure")
	}
	return stderrors.New("scripted failure")
}

// status term of an error: classes only
func classify(err error) string {
	switch {
	case err == nil:
		return "SOk"
	case err == sliceio.EOF:
		return "SEof"
	}
	if e, ok := err.(*baseerrors.Error); ok && e.Severity == baseerrors.Fatal {
		return "(SErr 3)"
	}
	if baseerrors.IsTemporary(err) {
		return "(SErr 2)"
	}
	if strings.Contains(fmt.Sprintf("%T", err), "typecheck") {
		return "(SErr 4)"
	}
	return "(SErr 1)"
}

// ---------------------------------------------------------------- scripted upstream

// scripted is the Go twin of Model.up_read.
type scripted struct {
	sch    []*colType
	s      []Resp
	closes int
}

func newScripted(sch []*colType, s []Resp) *scripted {
	return &scripted{sch: sch, s: append([]Resp(nil), s...)}
}

func (u *scripted) put(f frame.Frame, rows [][]int64) {
	for i, r := range rows {
		for c, ct := range u.sch {
			f.Index(c, i).Set(ct.mk(r[c]))
		}
	}
}

func (u *scripted) Read(ctx context.Context, f frame.Frame) (int, error) {
	d := f.Len()
	if len(u.s) == 0 {
		return 0, sliceio.EOF
	}
	h := &u.s[0]
	if h.K == "fail" {
		return 0, mkErr(h.E)
	}
	if len(h.Rows) <= d {
		n := len(h.Rows)
		u.put(f, h.Rows)
		if h.K == "eof" {
			u.s = nil
			return n, sliceio.EOF
		}
		u.s = u.s[1:]
		return n, nil
	}
	u.put(f, h.Rows[:d])
	h.Rows = h.Rows[d:]
	return d, nil
}

func (u *scripted) Close() error { u.closes++; return nil }

// ---------------------------------------------------------------- the menu (twin of Model.v)

func hd0(r []int64) int64 {
	if len(r) == 0 {
		return 0
	}
	return r[0]
}
func mod(a, m int64) int64 { return ((a % m) + m) % m }

func applyMap(id, k int64, r []int64) []int64 {
	switch id {
	case 0:
		o := make([]int64, len(r))
		for i, x := range r {
			o[i] = x + k
		}
		return o
	case 1:
		return append([]int64(nil), r[:1]...)
	default:
		return append(append([]int64(nil), r...), r[0])
	}
}
func mapOutSchema(id int64, s []string) []string {
	switch id {
	case 0:
		return s
	case 1:
		return s[:1]
	default:
		return append(append([]string(nil), s...), s[0])
	}
}
func mapTerm(id, k int64) string {
	switch id {
	case 0:
		return vf.App("MAddK", vf.Z(k))
	case 1:
		return "MFirst"
	default:
		return "MDupCol"
	}
}
func applyPred(id, k int64, r []int64) bool {
	switch id {
	case 0:
		return mod(hd0(r), 2) == 0
	case 1:
		return true
	case 2:
		return false
	case 3:
		return hd0(r) < k
	default:
		return mod(hd0(r), 3) != 0
	}
}
func predTerm(id, k int64) string {
	switch id {
	case 0:
		return "PEven"
	case 1:
		return "PAll"
	case 2:
		return "PNone"
	case 3:
		return vf.App("PLt", vf.Z(k))
	default:
		return "PMod3"
	}
}
func applyFlat(id, k int64, r []int64) [][]int64 {
	var out [][]int64
	switch id {
	case 0:
		for i := int64(0); i < k; i++ {
			out = append(out, r)
		}
	case 1:
		for i := int64(0); i < mod(hd0(r), k); i++ {
			out = append(out, r)
		}
	default:
		for i := int64(0); i < mod(hd0(r), k); i++ {
			o := make([]int64, len(r))
			for j, x := range r {
				o[j] = x + i
			}
			out = append(out, o)
		}
	}
	return out
}
func flatTerm(id, k int64) string {
	switch id {
	case 0:
		return vf.App("FDup", vf.Nat(int(k)))
	case 1:
		return vf.App("FByVal", vf.Z(k))
	default:
		return vf.App("FSeq", vf.Z(k))
	}
}
func applyFold(id, acc, v int64) int64 {
	switch id {
	case 0:
		return acc + v
	case 1:
		return acc + 1
	default:
		return mod(acc*3+v, 1000003)
	}
}

var foldTerms = []string{"AccSum", "AccCount", "AccPoly"}

func rowOf(sch []*colType, args []reflect.Value) []int64 {
	r := make([]int64, len(sch))
	for i, c := range sch {
		r[i] = c.toZ(args[i])
	}
	return r
}

var (
	typInt   = reflect.TypeOf(int(0))
	typBool  = reflect.TypeOf(true)
	typError = reflect.TypeOf((*error)(nil)).Elem()
)

func sliceTypes(ts []reflect.Type) []reflect.Type {
	o := make([]reflect.Type, len(ts))
	for i, t := range ts {
		o[i] = reflect.SliceOf(t)
	}
	return o
}

// parent returns a typed, empty Const slice: the operators only need its type.
func parent(sch []*colType) bigslice.Slice {
	cols := make([]interface{}, len(sch))
	for i, c := range sch {
		cols[i] = reflect.MakeSlice(reflect.SliceOf(c.typ), 0, 0).Interface()
	}
	return bigslice.Const(1, cols...)
}

// ---------------------------------------------------------------- building the reader under test

type built struct {
	r     sliceio.Reader
	out   []outCol
	kind  string        // Coq kind term
	side  func() string // Coq term of the side observation (after the run)
	noout bool          // Read is called with frame.Empty (Scan)
	scan  *sliceio.Scanner
	sch   []*colType
}

func noSide() string { return "[]" }

func rowsTerm(rows [][]int64) string { return vf.ZListList(rows) }

// changedTerm lists every (index, row) of the re-read rows that differs from
// the rows as delivered: a lossless encoding of the re-read.
func changedTerm(now, later [][]int64) string {
	var items []string
	for i := range later {
		if i >= len(now) || !reflect.DeepEqual(now[i], later[i]) {
			items = append(items, vf.Tuple(vf.Nat(i), vf.ZList(later[i])))
		}
	}
	return vf.List(items)
}

// rleTerm is a lossless run-length encoding of rows: [(row, repetitions); ...].
func rleTerm(rows [][]int64) string {
	var items []string
	for i := 0; i < len(rows); {
		j := i + 1
		for j < len(rows) && reflect.DeepEqual(rows[i], rows[j]) {
			j++
		}
		items = append(items, vf.Tuple(vf.ZList(rows[i]), vf.Nat(j-i)))
		i = j
	}
	return vf.List(items)
}

func build(d Desc) (b built, err error) {
	defer func() {
		if e := recover(); e != nil {
			err = fmt.Errorf("cannot build %s: %v", d.Kind, e)
		}
	}()
	sch := schemaOf(d.Schema)
	ups := make([]*scripted, len(d.Ins))
	deps := make([]sliceio.Reader, len(d.Ins))
	for i := range d.Ins {
		ups[i] = newScripted(sch, d.Ins[i])
		deps[i] = ups[i]
	}
	b.side = noSide
	b.sch = sch
	allRows := func(i int) [][]int64 { // rows_of
		var rs [][]int64
		for _, r := range d.Ins[i] {
			if r.K == "fail" {
				break
			}
			rs = append(rs, r.Rows...)
			if r.K == "eof" {
				break
			}
		}
		return rs
	}
	kind := d.Kind
	inner := ""
	if strings.HasPrefix(kind, "bufout:") {
		inner, kind = kind[len("bufout:"):], kind[len("bufout:"):]
	}
	switch kind {
	case "map":
		id, k := d.p(0), d.p(1)
		osch := schemaOf(mapOutSchema(id, d.Schema))
		fn := reflect.MakeFunc(reflect.FuncOf(typesOf(sch), typesOf(osch), false), func(args []reflect.Value) []reflect.Value {
			o := applyMap(id, k, rowOf(sch, args))
			res := make([]reflect.Value, len(osch))
			for i, c := range osch {
				res[i] = c.mk(o[i])
			}
			return res
		})
		b.r = bigslice.Map(parent(sch), fn.Interface()).Reader(0, deps)
		b.out, b.kind = plainOut(osch), vf.App("KMap", mapTerm(id, k))
	case "filter":
		id, k := d.p(0), d.p(1)
		fn := reflect.MakeFunc(reflect.FuncOf(typesOf(sch), []reflect.Type{typBool}, false), func(args []reflect.Value) []reflect.Value {
			return []reflect.Value{reflect.ValueOf(applyPred(id, k, rowOf(sch, args)))}
		})
		b.r = bigslice.Filter(parent(sch), fn.Interface()).Reader(0, deps)
		b.out, b.kind = plainOut(sch), vf.App("KFilter", predTerm(id, k))
	case "flatmap":
		id, k := d.p(0), d.p(1)
		fn := reflect.MakeFunc(reflect.FuncOf(typesOf(sch), sliceTypes(typesOf(sch)), false), func(args []reflect.Value) []reflect.Value {
			rows := applyFlat(id, k, rowOf(sch, args))
			res := make([]reflect.Value, len(sch))
			for c, ct := range sch {
				col := reflect.MakeSlice(reflect.SliceOf(ct.typ), len(rows), len(rows))
				for i, r := range rows {
					col.Index(i).Set(ct.mk(r[c]))
				}
				res[c] = col
			}
			return res
		})
		b.r = bigslice.Flatmap(parent(sch), fn.Interface()).Reader(0, deps)
		b.out, b.kind = plainOut(sch), vf.App("KFlatmap", flatTerm(id, k))
	case "head":
		b.r = bigslice.Head(parent(sch), int(d.p(0))).Reader(0, deps)
		b.out, b.kind = plainOut(sch), vf.App("KHead", vf.Z(d.p(0)))
	case "const":
		rows := allRows(0)
		cols := make([]interface{}, len(sch))
		for c, ct := range sch {
			col := reflect.MakeSlice(reflect.SliceOf(ct.typ), len(rows), len(rows))
			for i, r := range rows {
				col.Index(i).Set(ct.mk(r[c]))
			}
			cols[c] = col.Interface()
		}
		b.r = bigslice.Const(int(d.p(0)), cols...).Reader(int(d.p(1)), nil)
		b.out, b.kind = plainOut(sch), vf.App("KConst", vf.Z(d.p(0)), vf.Z(d.p(1)))
	case "multi-sliceio":
		rcs := make([]sliceio.ReadCloser, len(ups))
		for i := range ups {
			rcs[i] = ups[i]
		}
		b.r = sliceio.MultiReader(rcs...)
		b.out, b.kind = plainOut(sch), "KMultiSliceio"
	case "multi-exec":
		b.r = exec.VerifC17MultiReader(deps)
		b.out, b.kind = plainOut(sch), "KMultiExec"
	case "frame":
		rows := allRows(0)
		f := frame.Make(slicetype.New(typesOf(sch)...), len(rows), len(rows))
		for i, r := range rows {
			for c, ct := range sch {
				f.Index(c, i).Set(ct.mk(r[c]))
			}
		}
		b.r = sliceio.FrameReader(f)
		b.out, b.kind = plainOut(sch), "KFrame"
	case "fold":
		id := d.p(0)
		fn := func(acc, v int) int { return int(applyFold(id, int64(acc), int64(v))) }
		s := bigslice.Fold(parent(sch), fn)
		b.r = s.Reader(0, deps)
		b.out, b.kind = plainOut([]*colType{sch[0], ctByName("int")}), vf.App("KFold", foldTerms[id])
	case "readerfunc":
		in := append([]reflect.Type{typInt, typInt}, sliceTypes(typesOf(sch))...)
		u := ups[0]
		fn := reflect.MakeFunc(reflect.FuncOf(in, []reflect.Type{typInt, typError}, false), func(args []reflect.Value) []reflect.Value {
			// the user function is the script: it fills at most len(col) rows
			cols := args[2:]
			d := cols[0].Len()
			ev := reflect.Zero(typError)
			n := 0
			if len(u.s) == 0 {
				ev = reflect.ValueOf(&sliceio.EOF).Elem()
			} else if h := &u.s[0]; h.K == "fail" {
				e := mkErr(h.E)
				ev = reflect.ValueOf(&e).Elem()
			} else {
				take := h.Rows
				if len(take) > d {
					take = take[:d]
				}
				n = len(take)
				for i, r := range take {
					for c, ct := range sch {
						cols[c].Index(i).Set(ct.mk(r[c]))
					}
				}
				if len(h.Rows) > d {
					h.Rows = h.Rows[d:]
				} else if h.K == "eof" {
					u.s = nil
					ev = reflect.ValueOf(&sliceio.EOF).Elem()
				} else {
					u.s = u.s[1:]
				}
			}
			return []reflect.Value{reflect.ValueOf(n), ev}
		})
		b.r = bigslice.ReaderFunc(1, fn.Interface()).Reader(0, nil)
		b.out, b.kind = plainOut(sch), "KReaderFunc"
	case "writerfunc":
		mode, k, e := d.p(0), d.p(1), d.p(2)
		in := append([]reflect.Type{typInt, typInt, typError}, sliceTypes(typesOf(sch))...)
		var seen [][]int64
		calls := int64(0)
		fn := reflect.MakeFunc(reflect.FuncOf(in, []reflect.Type{typError}, false), func(args []reflect.Value) []reflect.Value {
			cols := args[3:]
			for i := 0; i < cols[0].Len(); i++ {
				r := make([]int64, len(sch))
				for c, ct := range sch {
					r[c] = ct.toZ(cols[c].Index(i))
				}
				seen = append(seen, r)
			}
			ev := reflect.Zero(typError)
			if mode == 1 && calls == k {
				er := mkErr(int(e))
				ev = reflect.ValueOf(&er).Elem()
			}
			calls++
			return []reflect.Value{ev}
		})
		b.r = bigslice.WriterFunc(parent(sch), fn.Interface()).Reader(0, deps)
		b.out = plainOut(sch)
		if mode == 1 {
			b.kind = vf.App("KWriterFunc", vf.App("WFailOn", vf.Nat(int(k)), vf.Z(e)))
		} else {
			b.kind = vf.App("KWriterFunc", "WNever")
		}
		b.side = func() string { return rowsTerm(seen) }
	case "scan":
		var seen [][]int64
		s := bigslice.Scan(parent(sch), func(shard int, sc *sliceio.Scanner) error {
			ptrs := make([]interface{}, len(sch))
			vals := make([]reflect.Value, len(sch))
			for i, c := range sch {
				vals[i] = reflect.New(c.typ)
				ptrs[i] = vals[i].Interface()
			}
			for sc.Scan(context.Background(), ptrs...) {
				r := make([]int64, len(sch))
				for i, c := range sch {
					r[i] = c.toZ(vals[i].Elem())
				}
				seen = append(seen, r)
			}
			return sc.Err()
		})
		b.r = s.Reader(0, deps)
		b.kind, b.noout = "KScan", true
		b.side = func() string { return rowsTerm(seen) }
	case "taskbuf":
		parts := make([][]frame.Frame, len(d.Ins))
		for i, ins := range d.Ins {
			for _, r := range ins {
				if r.K == "fail" {
					continue
				}
				f := frame.Make(slicetype.New(typesOf(sch)...), len(r.Rows), len(r.Rows))
				ups[i].put(f, r.Rows)
				parts[i] = append(parts[i], f)
			}
		}
		b.r = exec.VerifC17TaskBufferReader(parts, int(d.p(0)))
		b.out, b.kind = plainOut(sch), vf.App("KTaskBuf", vf.Nat(int(d.p(0))))
	case "cogroup":
		ss := make([]bigslice.Slice, len(deps))
		for i := range ss {
			ss[i] = parent(sch)
		}
		b.r = bigslice.Cogroup(ss...).Reader(0, deps)
		b.out = plainOut(sch[:1])
		for range deps {
			b.out = append(b.out, groupOut())
		}
		b.kind = "KCogroup"
	case "decoding", "head-decoding":
		var buf bytes.Buffer
		enc := sliceio.NewEncodingWriter(&buf)
		corrupt := false
		for _, r := range d.Ins[0] {
			if r.K == "fail" {
				corrupt = true
				break
			}
			f := frame.Make(slicetype.New(typesOf(sch)...), len(r.Rows), len(r.Rows))
			ups[0].put(f, r.Rows)
			if werr := enc.Write(context.Background(), f); werr != nil {
				panic(werr)
			}
		}
		if corrupt { // the stream turns into garbage after the last whole batch
			buf.Write([]byte{0x03, 0xff, 0xfe, 0xfd, 0x07, 0x07, 0x07, 0x07})
		}
		b.r = sliceio.NewDecodingReader(&buf)
		b.out, b.kind = plainOut(sch), "KDecoding"
		if kind == "head-decoding" {
			// Head(n) directly over the decoded stream: headReader hands the
			// window out.Slice(0, h.n) to the decoder
			b.r = bigslice.Head(parent(sch), int(d.p(0))).Reader(0, []sliceio.Reader{b.r})
			b.kind = vf.App("KHeadDecoding", vf.Z(d.p(0)))
		}
	case "closing":
		b.r = sliceio.NewClosingReader(ups[0])
		b.out, b.kind = plainOut(sch), "KClosing"
		u := ups[0]
		b.side = func() string { return rowsTerm([][]int64{{int64(u.closes)}}) }
	case "scanner", "scanbad":
		b.scan = sliceio.NewScanner(slicetype.New(typesOf(sch)...), ups[0])
		b.out = plainOut(sch)
		if kind == "scanner" {
			b.kind = "KScanner"
		} else {
			b.kind = vf.App("KScanBad", vf.Nat(int(d.p(0))), vf.Bool(d.p(1) == 1))
		}
	case "merge":
		m, merr := sortio.NewMergeReader(context.Background(), slicetype.New(typesOf(sch)...), deps)
		if merr != nil {
			m = sliceio.ErrReader(merr)
		}
		b.r = m
		b.out, b.kind = plainOut(sch), "KMerge"
	case "reduce":
		s := bigslice.Reduce(parent(sch), func(a, c int) int { return a + c })
		b.r = s.Reader(0, deps)
		b.out, b.kind = plainOut(sch), "KReduce"
	default:
		return b, fmt.Errorf("unknown kind %q", d.Kind)
	}
	if inner != "" {
		types := make([]reflect.Type, len(b.out))
		for i, o := range b.out {
			types[i] = o.typ
		}
		// bufferOutput reads to EOF: bound the number of reads so that a reader
		// that never ends is an observation (an error), not a hang of the driver
		limit := 64
		for _, in := range d.Ins {
			limit += len(in)
			for _, rs := range in {
				limit += 8 * len(rs.Rows)
			}
		}
		frames, berr := exec.VerifC17BufferOutput(context.Background(), slicetype.New(types...), &limited{r: b.r, left: limit})
		if berr != nil {
			b.r = sliceio.ErrReader(berr)
		} else {
			b.r = exec.VerifC17TaskBufferReader(frames, 0)
		}
		b.kind = vf.App("KBufOut", b.kind)
	}
	return b, nil
}

// limited fails after a number of reads (harness watchdog for read-to-EOF loops).
type limited struct {
	r    sliceio.Reader
	left int
}

func (l *limited) Read(ctx context.Context, f frame.Frame) (int, error) {
	if l.left <= 0 {
		return 0, stderrors.New("harness: reader did not end within the read limit")
	}
	l.left--
	return l.r.Read(ctx, f)
}

// ---------------------------------------------------------------- driving

type callObs struct {
	d, n    int
	st      string
	backing frame.Frame // the frame the destination is a window of
	off     int         // offset of the window in backing
	pre     [][]int64   // rows of backing before the window, after the call
	dest    [][]int64   // the window and the rows of backing behind it, after the call
	later   [][]int64
}

func dump(out []outCol, f frame.Frame, lo, hi int) [][]int64 {
	rows := make([][]int64, 0, hi-lo)
	for i := lo; i < hi; i++ {
		var r []int64
		for c, oc := range out {
			r = append(r, oc.toZs(f.Index(c, i))...)
		}
		rows = append(rows, r)
	}
	return rows
}

type readResult struct {
	n   int
	err error
	pan bool
}

// guarded runs f with a recover and a watchdog: a panic or a hang of the code
// under test is an observation, not a crash of the driver.
func guarded(f func() (int, error)) (res readResult, hung bool) {
	ch := make(chan readResult, 1)
	go func() {
		defer func() {
			if e := recover(); e != nil {
				ch <- readResult{pan: true}
			}
		}()
		n, err := f()
		ch <- readResult{n: n, err: err}
	}()
	select {
	case res = <-ch:
		return res, false
	case <-time.After(20 * time.Second):
		return readResult{}, true
	}
}

// newDest makes a sentinel-filled backing frame of pre+d+post rows and the
// destination window backing.Slice(pre, pre+d): Len d, Cap d+post.
func newDest(out []outCol, d, pre, post int) (backing, window frame.Frame) {
	types := make([]reflect.Type, len(out))
	for i, o := range out {
		types[i] = o.typ
	}
	n := pre + d + post
	backing = frame.Make(slicetype.New(types...), n, n)
	for c, o := range out {
		for i := 0; i < n; i++ {
			backing.Index(c, i).Set(o.sent())
		}
	}
	return backing, backing.Slice(pre, pre+d)
}

// scanv reads up to d rows through Scanner.Scan into the destination frame.
func scanInto(sc *sliceio.Scanner, out []outCol, f frame.Frame, lo, hi int, bad int) (int, error) {
	ctx := context.Background()
	for i := lo; i < hi; i++ {
		ptrs := make([]interface{}, len(out))
		for c := range out {
			ptrs[c] = f.Index(c, i).Addr().Interface()
		}
		switch bad {
		case 1: // wrong arity
			ptrs = append(ptrs, new(int))
		case 2: // wrong type for column 0
			ptrs[0] = new(float64)
		}
		if !sc.Scan(ctx, ptrs...) {
			err := sc.Err()
			if err == nil {
				err = sliceio.EOF
			}
			return i - lo, err
		}
	}
	return hi - lo, nil
}

func runCase(d Desc) (vf.Case, error) {
	b, err := build(d)
	if err != nil {
		return vf.Case{}, err
	}
	ctx := context.Background()
	var calls []callObs
	stopEarly := d.Kind != "scanbad"
	ops := d.Ops
	if strings.HasSuffix(d.Kind, "fold") {
		// Which keys a truncated run of Fold delivers depends on Go's map order;
		// to keep the case file a function of the seed, Fold is always read to
		// its end: the described demands are followed by demands of 7.
		ops = append([]int(nil), d.Ops...)
		extra := 4
		for _, in := range d.Ins {
			for _, rs := range in {
				extra += len(rs.Rows)
			}
		}
		for i := 0; i < extra; i++ {
			ops = append(ops, 7)
		}
	}
	for ci, dm := range ops {
		if dm < 1 {
			continue // the property is about destinations of length >= 1
		}
		var f, backing frame.Frame
		pre, post := 0, 0
		if b.noout {
			f = frame.Empty
		} else {
			pre, post = d.window(ci)
			backing, f = newDest(b.out, dm, pre, post)
		}
		res, hung := guarded(func() (int, error) {
			switch {
			case b.scan != nil && d.Kind == "scanbad":
				bad := 0
				if ci == int(d.p(0)) {
					bad = 2
					if d.p(1) == 1 {
						bad = 1
					}
				}
				return scanInto(b.scan, b.out, f, 0, 1, bad)
			case b.scan != nil:
				return scanInto(b.scan, b.out, f, 0, dm, 0)
			default:
				return b.r.Read(ctx, f)
			}
		})
		c := callObs{d: dm, backing: backing, off: pre}
		switch {
		case hung:
			c.st = "(SErr 10)"
		case res.pan:
			c.st = "(SErr 9)"
		default:
			c.n, c.st = res.n, classify(res.err)
		}
		if !b.noout {
			c.pre = dump(b.out, backing, 0, pre)
			c.dest = dump(b.out, backing, pre, pre+dm+post)
		}
		calls = append(calls, c)
		if hung || res.pan || (stopEarly && c.st != "SOk") {
			break
		}
	}
	tailTouched := false
	for i := range calls {
		c := &calls[i]
		n := c.n
		if n > c.d {
			n = c.d
		}
		if n < 0 {
			n = 0
		}
		if !b.noout {
			c.later = dump(b.out, c.backing, c.off, c.off+n)
			for _, r := range c.pre {
				for _, z := range r {
					if z != sentinel && z != -1 {
						tailTouched = true
					}
				}
			}
			if c.st == "SOk" || c.st == "SEof" {
				for _, r := range c.dest[n:] {
					for _, z := range r {
						if z != sentinel && z != -1 {
							tailTouched = true
						}
					}
				}
			}
		}
	}
	// Fold drains a Go map: which keys a call delivers is not fixed by anything.
	// Canonicalise (for a byte-identical case file): sort the concatenation of
	// the delivered rows, apply the same permutation to the re-read rows, and
	// hand the rows back to the calls in order, keeping every call's count.
	if strings.HasSuffix(d.Kind, "fold") {
		type pr struct{ now, later []int64 }
		var all []pr
		for _, c := range calls {
			k := len(c.later)
			for i := 0; i < k; i++ {
				all = append(all, pr{c.dest[i], c.later[i]})
			}
		}
		sort.SliceStable(all, func(i, j int) bool {
			a, b := all[i].now, all[j].now
			for x := 0; x < len(a) && x < len(b); x++ {
				if a[x] != b[x] {
					return a[x] < b[x]
				}
			}
			return len(a) < len(b)
		})
		p := 0
		for ci := range calls {
			c := &calls[ci]
			for i := range c.later {
				c.dest[i], c.later[i] = all[p].now, all[p].later
				p++
			}
		}
	}
	// terms
	ins := make([]string, len(d.Ins))
	emptyRead, eofRows, fails := false, false, false
	nrows := 0
	for i, s := range d.Ins {
		rs := make([]string, len(s))
		for j, r := range s {
			switch r.K {
			case "rows":
				rs[j] = vf.App("Rows", rowsTerm(r.Rows))
				emptyRead = emptyRead || len(r.Rows) == 0
			case "eof":
				rs[j] = vf.App("EofWith", rowsTerm(r.Rows))
				eofRows = eofRows || len(r.Rows) > 0
			default:
				rs[j] = vf.App("Fail", vf.Z(int64(r.E)))
				fails = true
			}
			nrows += len(r.Rows)
		}
		ins[i] = vf.List(rs)
	}
	cs := make([]string, len(calls))
	final := "SOk"
	total := 0
	for i, c := range calls {
		n := c.n
		if n < 0 {
			n = 0
		}
		k := n
		if k > len(c.dest) {
			k = len(c.dest)
		}
		cs[i] = vf.App("mkCall", vf.Nat(c.d), vf.Nat(n), c.st, rleTerm(c.pre), rowsTerm(c.dest[:k]), rleTerm(c.dest[k:]), changedTerm(c.dest[:k], c.later))
		final = c.st
		total += n
	}
	term := vf.App("mkCase", b.kind, vf.List(ins), vf.List(cs), b.side())
	// finding signature: the reader kind plus the one input/observation feature
	// that explains a violation of this kind (identical for cases failing for
	// the same reason).  The multi-*/head signatures name defects that were
	// repaired in /repo (commits d00fa90, b23d5f2): such cases now pass, and the
	// signature is kept so that a regression is reported under its old name.
	sig := d.Kind
	pan, hang := false, false
	for _, c := range calls {
		pan = pan || c.st == "(SErr 9)"
		hang = hang || c.st == "(SErr 10)"
	}
	switch {
	case pan:
		sig += ":panic"
	case hang:
		sig += ":hang"
	case strings.HasPrefix(d.Kind, "multi-") && eofRows:
		sig += ":rows-returned-with-eof-dropped"
	case d.Kind == "reduce" && emptyRead:
		sig += ":empty-read-ends-input"
	case tailTouched && !rowsDiffer(d, calls, final):
		sig += ":destination-written-past-count"
	}
	nontriv := ""
	if len(calls) >= 2 && total > 0 {
		nontriv = vf.Hash(term)
	}
	bucket := d.Kind
	if fails {
		bucket += "/failing-input"
	}
	return vf.Case{Term: term, Desc: d, Sig: sig, Nontriv: nontriv, Kind: bucket,
		Observed: map[string]interface{}{"calls": len(calls), "rows": total, "final": final, "input_rows": nrows}}, nil
}

// rowsDiffer is used for finding signatures only (never for the verdict): for
// the two readers whose known deviation is "writes past the reported count",
// it tells whether the delivered rows ALSO deviate from the expected ones, so
// that such a case does not carry the known signature.
func rowsDiffer(d Desc, calls []callObs, final string) bool {
	if d.Kind != "head" && d.Kind != "readerfunc" {
		return false
	}
	var want [][]int64
	for _, r := range d.Ins[0] {
		if r.K == "fail" {
			break
		}
		want = append(want, r.Rows...)
		if r.K == "eof" {
			break
		}
	}
	if d.Kind == "head" {
		n := int(d.p(0))
		if n < 0 {
			n = 0
		}
		if n < len(want) {
			want = want[:n]
		}
	}
	var got [][]int64
	for _, c := range calls {
		n := c.n
		if n > len(c.dest) {
			n = len(c.dest)
		}
		if n > 0 {
			got = append(got, c.dest[:n]...)
		}
	}
	if len(got) > len(want) || (final == "SEof" && len(got) != len(want)) {
		return true
	}
	for i := range got {
		if !reflect.DeepEqual(got[i], want[i]) {
			return true
		}
	}
	return false
}

// ---------------------------------------------------------------- generators

var demandMenu = []int{1, 2, 3, 7, 127, 128, 129}

func genDemand(r *vf.Rand, big bool) int {
	switch k := r.Intn(100); {
	case big && k < 60:
		return []int{127, 128, 129, 64, 200, 255, 256, 257}[r.Intn(8)]
	case k < 55:
		return r.Range(1, 3)
	case k < 70:
		return 7
	case k < 80:
		return demandMenu[r.Intn(len(demandMenu))]
	default:
		return r.Range(1, 12)
	}
}

type scriptOpts struct {
	nrows     int
	ncols     int
	empties   bool  // reads of zero rows without ending
	eofRows   bool  // rows may come together with EOF
	mayFail   bool  // may end in a failure
	sortedKey bool  // keys ascending, distinct; value determined by key
	keyStep   int64 // for sortedKey: key = base + i*keyStep
	keyBase   int64
	maxChunk  int
	valMax    int
}

func genScript(r *vf.Rand, o scriptOpts) []Resp {
	rows := make([][]int64, o.nrows)
	for i := range rows {
		row := make([]int64, o.ncols)
		for c := range row {
			row[c] = int64(r.Range(0, o.valMax))
		}
		if o.sortedKey {
			row[0] = o.keyBase + int64(i)*o.keyStep
			for c := 1; c < o.ncols; c++ {
				row[c] = row[0]%7 + int64(c)
			}
		}
		rows[i] = row
	}
	var s []Resp
	i := 0
	for i < len(rows) {
		if o.empties && r.Chance(1, 5) {
			s = append(s, Resp{K: "rows", Rows: [][]int64{}})
			continue
		}
		n := r.Range(1, o.maxChunk)
		if i+n > len(rows) {
			n = len(rows) - i
		}
		s = append(s, Resp{K: "rows", Rows: rows[i : i+n]})
		i += n
	}
	if o.empties && r.Chance(1, 4) {
		s = append(s, Resp{K: "rows", Rows: [][]int64{}})
	}
	switch k := r.Intn(100); {
	case o.mayFail && k < 18:
		s = append(s, Resp{K: "fail", E: 1 + r.Intn(2)})
	case o.eofRows && k < 55 && len(s) > 0 && len(s[len(s)-1].Rows) > 0:
		s[len(s)-1].K = "eof"
	case k < 70:
		s = append(s, Resp{K: "eof", Rows: [][]int64{}})
	}
	return s
}

var schemas = [][]string{{"int"}, {"string"}, {"int", "string"}, {"int", "ints"}, {"string", "int"}, {"ints", "int"}}
var keyedSchemas = [][]string{{"int", "int"}, {"string", "int"}}

var kinds = []string{"map", "filter", "flatmap", "head", "const", "multi-sliceio", "frame", "fold",
	"readerfunc", "writerfunc", "scan", "taskbuf", "multi-exec", "cogroup", "decoding", "head-decoding", "closing",
	"scanner", "scanbad", "merge", "reduce", "bufout:flatmap", "bufout:map", "bufout:filter", "bufout:fold"}

// genCase makes one case of the given kind. size: 0 small, 1 medium, 2 big (crosses the 128-row buffers).
func genCase(r *vf.Rand, kind string, size int) Desc {
	d := Desc{Kind: kind}
	base := strings.TrimPrefix(kind, "bufout:")
	nrows := r.Range(0, 9)
	maxChunk := 4
	switch size {
	case 1:
		nrows, maxChunk = r.Range(8, 30), 9
	case 2:
		nrows, maxChunk = r.Range(130, 300), 140
	}
	o := scriptOpts{nrows: nrows, empties: true, eofRows: true, mayFail: true, maxChunk: maxChunk, valMax: 60}
	d.Schema = schemas[r.Intn(len(schemas))]
	nin := 1
	switch base {
	case "map":
		d.P = []int64{int64(r.Intn(3)), int64(r.Range(0, 9))}
	case "filter":
		d.P = []int64{int64(r.Intn(5)), int64(r.Range(0, 60))}
	case "flatmap":
		id := int64(r.Intn(3))
		k := int64(r.Range(0, 3))
		if id != 0 {
			k = int64(r.Range(1, 4))
		}
		d.P = []int64{id, k}
	case "head":
		d.P = []int64{int64(r.Range(0, nrows+2))}
	case "const":
		ns := r.Range(1, 4)
		d.P = []int64{int64(ns), int64(r.Intn(ns))}
		o.empties, o.eofRows, o.mayFail = false, false, false
	case "frame":
		o.empties, o.eofRows, o.mayFail = false, false, false
	case "multi-sliceio", "multi-exec":
		nin = r.Range(0, 4)
	case "fold":
		d.Schema = keyedSchemas[r.Intn(2)]
		d.P = []int64{int64(r.Intn(3))}
		o.valMax = 6
	case "writerfunc":
		if r.Chance(1, 3) {
			d.P = []int64{1, int64(r.Range(0, 4)), int64(1 + r.Intn(2))}
		} else {
			d.P = []int64{0, 0, 0}
		}
	case "taskbuf":
		nin = r.Range(1, 3)
		d.P = []int64{int64(r.Intn(nin))}
		o.eofRows, o.mayFail = false, false
	case "cogroup":
		nin = r.Range(1, 3)
		d.Schema = keyedSchemas[r.Intn(2)]
		o.valMax = 8
	case "decoding":
		o.eofRows = false
	case "head-decoding":
		o.eofRows = false
		d.P = []int64{int64(r.Range(0, nrows+2))}
		if maxChunk < 9 {
			o.maxChunk = 9 // batches longer than most destinations
		}
	case "scanbad":
		d.P = []int64{0, int64(r.Intn(2))}
	case "merge":
		nin = r.Range(1, 3)
		d.Schema = keyedSchemas[r.Intn(2)]
		o.sortedKey, o.empties = true, false
	case "reduce":
		nin = r.Range(2, 3)
		d.Schema = keyedSchemas[r.Intn(2)]
		o.sortedKey = true
		o.empties = r.Chance(1, 4) // an operator reader: must tolerate them
	}
	o.ncols = len(d.Schema)
	for i := 0; i < nin; i++ {
		oi := o
		if nin > 1 && size < 2 {
			oi.nrows = r.Range(0, nrows)
		}
		if o.sortedKey {
			oi.keyBase, oi.keyStep = int64(r.Range(0, 3)), int64(r.Range(1, 3))
		}
		if base == "cogroup" || base == "fold" {
			oi.valMax = 8
		}
		d.Ins = append(d.Ins, genScript(r, oi))
	}
	if base == "decoding" || base == "head-decoding" { // an unreadable stream has one error class
		for i := range d.Ins[0] {
			if d.Ins[0][i].K == "fail" {
				d.Ins[0][i].E = 1
			}
		}
	}
	if base == "cogroup" || base == "fold" { // keys collide, values are arbitrary
		for _, s := range d.Ins {
			for _, rs := range s {
				for _, row := range rs.Rows {
					row[1] = int64(r.Range(0, 40))
				}
			}
		}
	}
	if base == "scanbad" {
		n := 0
		for _, rs := range d.Ins[0] {
			if rs.K == "fail" {
				break
			}
			n += len(rs.Rows)
		}
		after := 0
		if n > 0 {
			after = r.Intn(n)
		}
		d.P[0] = int64(after)
		d.Ops = make([]int, after+2)
		for i := range d.Ops {
			d.Ops[i] = 1
		}
		return d
	}
	// demands: either enough calls to reach the end, or a short truncated run
	total := 0
	for _, s := range d.Ins {
		total += len(s)
		for _, rs := range s {
			total += 6 * len(rs.Rows)
		}
	}
	ncalls := 8 + len(d.Ins) + total
	if r.Chance(1, 4) {
		ncalls = r.Range(1, 5)
	}
	if base == "scan" {
		ncalls = 1
	}
	for i := 0; i < ncalls; i++ {
		d.Ops = append(d.Ops, genDemand(r, size == 2))
	}
	return d
}

// ---------------------------------------------------------------- directed families
//
// Situations that random scripts reach only rarely, each reachable by a single
// wrong line in a reader:
//   tail:  the LAST rows arrive together with EOF (or as a frame/batch larger
//          than the destination) while the reader still holds a non-empty
//          stash/buffer, and the run is read to its end with demands 1 or 2;
//   big:   merge-based readers (cogroup, merge, reduce) over inputs of more
//          than 128 rows with overlapping key sets, so that a FrameBuffer is
//          refilled in the middle of gathering a key that another input still
//          holds; and the 128-row internal vectors of Scanner, Fold and
//          bufferOutput crossed several times.

func scriptRows(s []Resp) int {
	n := 0
	for _, r := range s {
		n += len(r.Rows)
	}
	return n
}

func constDemands(dm, n int) []int {
	ops := make([]int, n)
	for i := range ops {
		ops[i] = dm
	}
	return ops
}

// genTail: variant v in 0..3; demands are all 1 (v even) or all 2 (v odd).
func genTail(r *vf.Rand, kind string, v int) (Desc, bool) {
	base := strings.TrimPrefix(kind, "bufout:")
	noEofRows := base == "const" || base == "frame" || base == "taskbuf" || base == "decoding" || base == "head-decoding"
	for try := 0; try < 200; try++ {
		d := genCase(r.Split(), kind, try%2)
		ok := len(d.Ins) > 0
		total := 0
		for i, in := range d.Ins {
			// cut the script after its last response that carries rows; no failure
			last := -1
			for j, rs := range in {
				if rs.K == "fail" {
					break
				}
				if len(rs.Rows) > 0 {
					last = j
				}
			}
			if last < 0 || scriptRows(in[:last+1]) < 2 {
				ok = false
				break
			}
			in = append([]Resp(nil), in[:last+1]...)
			if noEofRows {
				in[last].K = "rows"
				// the last frame / batch must exceed the demand
				if len(in[last].Rows) < 3 && last > 0 {
					merged := append(append([][]int64(nil), in[last-1].Rows...), in[last].Rows...)
					in = append(in[:last-1], Resp{K: "rows", Rows: merged})
				}
			} else {
				in[last].K = "eof"
			}
			d.Ins[i] = in
			total += scriptRows(in)
		}
		if !ok || total > 40 {
			continue
		}
		dm := 1 + v%2
		switch base {
		case "flatmap": // the expansion of the last row overflows the destination
			fan := int64(2 + (v/2)%2)
			d.P = []int64{0, fan}
			if v%2 == 1 {
				dm = int(fan) - 1
			}
		case "head", "head-decoding": // the limit falls on, or just before, the last row
			d.P = []int64{int64(total - v/2)}
		case "scan", "scanbad":
			return d, base == "scan"
		}
		d.Ops = constDemands(dm, 8+len(d.Ins)+7*total)
		return d, true
	}
	return Desc{}, false
}

var bigDemands = []int{7, 64, 127, 128, 129, 200, 33, 256}

func chunked(r *vf.Rand, rows [][]int64, maxChunk int, empties, eofRows bool) []Resp {
	var s []Resp
	for i := 0; i < len(rows); {
		if empties && r.Chance(1, 6) {
			s = append(s, Resp{K: "rows", Rows: [][]int64{}})
			continue
		}
		n := r.Range(1, maxChunk)
		if i+n > len(rows) {
			n = len(rows) - i
		}
		s = append(s, Resp{K: "rows", Rows: rows[i : i+n]})
		i += n
	}
	if eofRows && len(s) > 0 && len(s[len(s)-1].Rows) > 0 && r.Bool() {
		s[len(s)-1].K = "eof"
	}
	return s
}

// genBigMerge: inputs of more than 128 rows with overlapping key sets.
func genBigMerge(r *vf.Rand, kind string, v int) Desc {
	d := Desc{Kind: kind, Schema: keyedSchemas[v%2]}
	nA := r.Range(200, 300)
	nB := r.Range(130, 300)
	val := func(k int64) int64 { return k%7 + 1 }
	var a, b, c [][]int64
	switch kind {
	case "cogroup": // unsorted inputs, repeated keys, arbitrary values
		for i := 0; i < nA; i++ {
			a = append(a, []int64{int64(i / 2), int64(r.Range(0, 40))})
		}
		for j := 0; j < nB; j++ {
			b = append(b, []int64{int64((3 * j) % 150), int64(r.Range(0, 40))})
		}
		for j := 0; j < r.Range(0, 20); j++ {
			c = append(c, []int64{int64(r.Range(0, 160)), int64(r.Range(0, 40))})
		}
		if v%2 == 1 { // the long input second
			a, b = b, a
		}
	case "merge": // sorted, repeated keys, value determined by key
		for i := 0; i < nA; i++ {
			a = append(a, []int64{int64(i / 2), val(int64(i / 2))})
		}
		for j := 0; j < nB; j++ {
			b = append(b, []int64{int64(3 * (j / 2)), val(int64(3 * (j / 2)))})
		}
		for j := 0; j < r.Range(0, 20); j++ {
			c = append(c, []int64{int64(7 * j), val(int64(7 * j))})
		}
	default: // reduce: sorted, distinct keys within an input
		for i := 0; i < nA; i++ {
			a = append(a, []int64{int64(i), val(int64(i))})
		}
		for j := 0; j < nB; j++ {
			b = append(b, []int64{int64(2 * j), val(int64(2 * j))})
		}
		for j := 0; j < r.Range(0, 20); j++ {
			c = append(c, []int64{int64(5 * j), val(int64(5 * j))})
		}
	}
	empties := kind == "cogroup"
	d.Ins = [][]Resp{chunked(r, a, 140, empties, true), chunked(r, b, 140, empties, true)}
	if len(c) > 0 || kind == "reduce" && v >= 2 {
		d.Ins = append(d.Ins, chunked(r, c, 9, empties, true))
	}
	n := 24
	if v == 0 { // small destinations: many refills between calls
		d.Ops = constDemands(7, 8+(nA+nB+len(c))/7+8)
		return d
	}
	for i := 0; i < n+(nA+nB)/7; i++ {
		d.Ops = append(d.Ops, bigDemands[r.Intn(len(bigDemands))])
	}
	return d
}

func directed(r *vf.Rand, scale int) []Desc {
	var ds []Desc
	for _, k := range kinds {
		if k == "scanbad" {
			continue
		}
		for v := 0; v < 4*scale; v++ {
			if d, ok := genTail(r.Split(), k, v%4); ok {
				ds = append(ds, d)
			}
		}
	}
	for _, k := range []string{"cogroup", "merge", "reduce"} {
		for v := 0; v < 4*scale; v++ {
			ds = append(ds, genBigMerge(r.Split(), k, v%4))
		}
	}
	for _, k := range []string{"scanner", "scan", "fold", "bufout:flatmap", "bufout:fold", "flatmap", "decoding", "head-decoding"} {
		for v := 0; v < 2*scale; v++ {
			ds = append(ds, genCase(r.Split(), k, 2))
		}
	}
	return ds
}

// allDemands enumerates every demand sequence of length <= 4 over {1,2,3}.
func allDemands() [][]int {
	var out [][]int
	var rec func(cur []int)
	rec = func(cur []int) {
		if len(cur) > 0 {
			out = append(out, append([]int(nil), cur...))
		}
		if len(cur) == 4 {
			return
		}
		for _, x := range []int{1, 2, 3} {
			rec(append(cur, x))
		}
	}
	rec(nil)
	return out
}

func main() {
	opts := vf.ParseFlags()
	out := &vf.Output{ID: "C17", Import: "BS.C17.Corr",
		Rule: "scripted upstreams (chunk sizes, empty reads, rows together with EOF, failures) x PRNG demand sequences over " +
			"{1,2,3,7,127,128,129,random} on sentinel-filled destinations, 25 reader kinds, 6 column schemas, about half of the destinations windows backing.Slice(pre, pre+d) of a larger sentinel-filled frame (Len < Cap and/or offset > 0) whose every row is recorded after the call; plus directed families " +
			"(last rows together with EOF read with demands 1/2 while a stash or buffer is non-empty; merge-based readers over inputs of >128 rows with overlapping keys; 128-row vectors crossed); " +
			"non-trivial = at least two Read calls and at least one row delivered; distinct by case text",
		Extra: map[string]interface{}{}}
	var descs []Desc
	if opts.Replay != "" {
		if err := vf.LoadReplay(opts.Replay, &descs); err != nil {
			fmt.Fprintln(os.Stderr, err)
			os.Exit(2)
		}
	} else {
		root := vf.NewRand(opts.Seed)
		per := 40
		if opts.Tier == "thorough" {
			per = 200
		}
		per *= opts.Scale
		for _, k := range kinds {
			for i := 0; i < per; i++ {
				size := 0
				if i%5 == 3 {
					size = 1
				}
				if i%20 == 19 && i < 40 {
					size = 2
				}
				descs = append(descs, genCase(root.Split(), k, size))
			}
		}
		dsc := opts.Scale
		if opts.Tier == "thorough" {
			dsc *= 5
		}
		descs = append(descs, directed(root.Split(), dsc)...)
		if opts.Tier == "thorough" {
			// exhaustive: every demand sequence of length <= 4 over {1,2,3} for scripts of <= 6 rows
			seqs := allDemands()
			n := 0
			for _, k := range kinds {
				if k == "scan" || k == "scanbad" {
					continue
				}
				for j := 0; j < 2*opts.Scale; j++ {
					base := genCase(root.Split(), k, 0)
					rows := 0
					for _, s := range base.Ins {
						for _, rs := range s {
							rows += len(rs.Rows)
						}
					}
					if rows > 6 {
						continue
					}
					for _, sq := range seqs {
						dd := base
						dd.Ops = sq
						descs = append(descs, dd)
						n++
					}
				}
			}
			out.Extra["exhaustive"] = true
			out.Extra["exhaustive_cases"] = n
			out.Notes = append(out.Notes, "exhaustive: all 120 demand sequences of length <= 4 over {1,2,3} for two scripts of <= 6 rows per reader kind")
		}
	}
	if opts.Replay == "" {
		// destination windows: an own PRNG stream, so that the scripts and
		// demands of a seed do not depend on it
		wr := vf.NewRand(opts.Seed + 0xC17D)
		for i := range descs {
			descs[i].W = wr.Uint64() | 1
		}
	}
	for _, d := range descs {
		c, err := runCase(d)
		if err != nil {
			fmt.Fprintln(os.Stderr, err)
			os.Exit(2)
		}
		out.Add(c)
	}
	if err := out.Write(opts.Out, opts); err != nil {
		fmt.Fprintln(os.Stderr, err)
		os.Exit(2)
	}
}

// Command c19 starts sets of Run calls concurrently in one session — independent
// programs, Funcs sharing a Result argument, scans of that Result alongside —
// under varying GOMAXPROCS and injected yields, and records what every run
// returned. Built with -race (thorough tier) it also turns data-race reports
// whose stacks lie in bigslice into a failing case.
package main

import (
	"context"
	"fmt"
	"os"
	"path/filepath"
	"regexp"
	"runtime"
	"sort"
	"strings"
	"sync"
	"time"

	"github.com/grailbio/base/errors"
	"verifharness/prog"
	"verifharness/vf"
)

type Desc struct {
	Cfg       prog.Cfg    `json:"cfg"`
	Procs     int         `json:"gomaxprocs"`
	Yield     bool        `json:"yield"`
	Base      prog.Prog   `json:"base"`      // produces the shared Result
	Consumers []prog.Prog `json:"consumers"` // Funcs over the Result (node 0 = arg), run concurrently
	Indep     []prog.Prog `json:"indep"`     // independent programs, run concurrently
	Scans     int         `json:"scans"`     // concurrent scans of the Result
	Discard   string      `json:"discard"`   // "": none; "before": the shared Result is discarded right before the concurrent runs start (they all await its recomputation); "during": it is also discarded while they run
}

func combined(base, cons prog.Prog) prog.Prog {
	off := len(base.Nodes)
	p := prog.Prog{Nodes: append([]prog.Node{}, base.Nodes...)}
	for i, n := range cons.Nodes {
		m := n
		if i == 0 {
			m = prog.Node{Op: "cache", In: []int{off - 1}}
		} else {
			m.In = make([]int, len(n.In))
			for j, x := range n.In {
				m.In[j] = x + off
			}
		}
		p.Nodes = append(p.Nodes, m)
	}
	return p
}

func genDesc(r *vf.Rand, i int) Desc {
	g := prog.DefaultGen()
	g.NoSide = true
	g.MaxNodes = 4
	g.Sizes = []int{0, 5, 40, 130, 300}
	var base prog.Prog
	var sch []prog.Schema
	for {
		base = prog.Gen(r, g)
		sch, _ = base.Schemas()
		if len(sch) > 0 && len(sch[len(sch)-1].Types) > 0 {
			break
		}
	}
	root := sch[len(sch)-1]
	arg := prog.Node{Op: "arg", N: root.NShard, Types: root.Types, N2: root.Prefix}
	d := Desc{Base: base, Cfg: prog.Cfg{Kind: "local", Parallelism: 4}, Procs: r.Pick([]int{1, 2, 16}), Yield: r.Bool(), Scans: r.Intn(3)}
	if i%2 == 1 {
		d.Cfg = prog.Cfg{Kind: "bigmachine", Parallelism: 4, Procs: 2}
	}
	keyable := true
	for c := 0; c < root.Prefix; c++ {
		if root.Types[c] != "i" && root.Types[c] != "s" {
			keyable = false
		}
	}
	cands := []prog.Prog{
		{Nodes: []prog.Node{arg, {Op: "filter", In: []int{0}, Exprs: []prog.Expr{{K: "true"}}}}},
		{Nodes: []prog.Node{arg, {Op: "flatmap", In: []int{0}, Exprs: []prog.Expr{{K: "const", A: 2}}}}},
		{Nodes: []prog.Node{arg, {Op: "repartition", In: []int{0}, Exprs: []prog.Expr{{K: "const", A: 1}}}}},
	}
	if keyable {
		cands = append(cands, prog.Prog{Nodes: []prog.Node{arg, {Op: "reshuffle", In: []int{0}}}},
			prog.Prog{Nodes: []prog.Node{arg, {Op: "reshard", In: []int{0}, N: root.NShard + 1}}})
	}
	n := r.Range(1, 3)
	switch i % 4 {
	case 2:
		d.Discard = "before"
		n = r.Range(2, 4)
		d.Scans = 0 // a scan of a discarded Result may legitimately fail
	case 3:
		d.Discard = "during"
		n = r.Range(5, 7) // many runs awaiting the same recomputed tasks
		d.Scans = 0
	}
	if i%8 == 5 {
		// four transient losses of a shared task while many runs await it: the base is a
		// ReaderFunc whose first read fails with a temporary error, armed only in the
		// concurrent phase; each run alone survives a single loss
		d.Base = prog.Prog{Nodes: []prog.Node{{Op: "readerfunc", N: r.Range(1, 2), Types: []string{"i", "i"}, A: int64(r.Range(5, 60)), B: 1, N2: 2,
			Fail: &prog.Fail{Mode: "temp", Shard: -1, Row: 1, Once: true, Times: 4}}}}
		d.Discard = "before"
		d.Scans = 0
		d.Indep = nil
		n = r.Range(6, 8)
		arg2 := prog.Node{Op: "arg", N: d.Base.Nodes[0].N, Types: []string{"i", "i"}, N2: 1}
		for j := 0; j < n; j++ {
			d.Consumers = append(d.Consumers, prog.Prog{Nodes: []prog.Node{arg2, {Op: "filter", In: []int{0}, Exprs: []prog.Expr{{K: "true"}}}}})
		}
		d.Cfg = prog.Cfg{Kind: "local", Parallelism: 8}
		// four consecutive transient losses stay below the limit of five when each loss
		// is counted once, however many runs await the task
		d.Procs = r.Pick([]int{2, 16})
		d.Yield = false
		return d
	}
	for j := 0; j < n; j++ {
		d.Consumers = append(d.Consumers, cands[r.Intn(len(cands))])
	}
	m := r.Range(0, 2)
	for j := 0; j < m; j++ {
		d.Indep = append(d.Indep, prog.Gen(r, g))
	}
	return d
}

func obsTerm(o prog.Obs) string {
	if o.Err == "ok" {
		return o.Term()
	}
	e := o.Err
	return vf.App("mkObs", "E"+string(e[0]-32)+e[1:], "[]", "[]", "[]", "EOk", "[]", "[]")
}

var frameRe = regexp.MustCompile(`github\.com/grailbio/bigslice/([A-Za-z0-9_/]+)\.([A-Za-z0-9_.()*]+)\(`)

// raceSigs extracts, for each race report, the innermost bigslice function of
// each of its two stacks (reports with no bigslice frame in either are not ours).
func raceSigs(dir string) []string {
	files, _ := filepath.Glob(filepath.Join(dir, "race.*"))
	seen := map[string]bool{}
	for _, f := range files {
		data, err := os.ReadFile(f)
		if err != nil {
			continue
		}
		for _, rep := range strings.Split(string(data), "WARNING: DATA RACE")[1:] {
			parts := strings.SplitN(rep, "\nPrevious ", 2)
			if len(parts) != 2 {
				continue
			}
			stack2 := strings.SplitN(parts[1], "\nGoroutine ", 2)[0]
			a, b := frameRe.FindStringSubmatch(parts[0]), frameRe.FindStringSubmatch(stack2)
			if a == nil || b == nil {
				continue
			}
			fs := []string{a[1] + "." + a[2], b[1] + "." + b[2]}
			sort.Strings(fs)
			seen["race:"+fs[0]+"|"+fs[1]] = true
		}
	}
	var out []string
	for k := range seen {
		out = append(out, k)
	}
	sort.Strings(out)
	return out
}

func main() {
	opts := vf.ParseFlags()
	out := &vf.Output{ID: "C19", Import: "BS.C19.Corr",
		Rule: "a generated program produces a Result; then 1-3 Funcs over that Result (pipelined and redistributing), 0-2 independent generated programs and 0-2 scans of the Result all start concurrently in the same session; GOMAXPROCS in {1,2,16}, optional runtime.Gosched in every user function; local and bigmachine(testsystem); non-trivial = at least two concurrent runs share the Result; distinct by description. Thorough: the driver is built with -race and every data-race report with both stacks in bigslice is a failing case."}
	var descs []Desc
	if opts.Replay != "" {
		if err := vf.LoadReplay(opts.Replay, &descs); err != nil {
			fmt.Fprintln(os.Stderr, err)
			os.Exit(2)
		}
	} else {
		n := 40
		if opts.Tier == "thorough" {
			n = 300
		}
		n *= opts.Scale
		root := vf.NewRand(opts.Seed)
		for i := 0; i < n; i++ {
			descs = append(descs, genDesc(root.Split(), i))
		}
	}
	sessions := map[string]*prog.Sess{}
	defer func() {
		for _, s := range sessions {
			s.Close()
		}
	}()
	ctx := context.Background()
	defer runtime.GOMAXPROCS(runtime.GOMAXPROCS(0))
	for _, d := range descs {
		if d.Procs > 0 {
			runtime.GOMAXPROCS(d.Procs)
		}
		prog.Yield = d.Yield
		key := d.Cfg.String()
		s := sessions[key]
		if s == nil {
			s = prog.Start(d.Cfg)
			sessions[key] = s
		}
		baseSch, _ := d.Base.Schemas()
		prog.MakeTemp = func(msg string) error { return errors.E(errors.Temporary, msg) }
		prog.FailArmed.Store(false) // the base run itself is failure-free
		o0, res := prog.RunOnce(s, d.Base, "", 60*time.Second)
		prog.FailArmed.Store(true)
		runs := []string{vf.Tuple(d.Base.Term(), obsTerm(o0))}
		summary := []string{"base:" + o0.Err}
		wedged := false
		if res != nil {
			type slot struct {
				p prog.Prog
				o prog.Obs
			}
			var slots []*slot
			var wg sync.WaitGroup
			start := make(chan struct{})
			for _, c := range d.Consumers {
				sl := &slot{p: combined(d.Base, c)}
				slots = append(slots, sl)
				wg.Add(1)
				go func(c prog.Prog) {
					defer wg.Done()
					<-start
					sl.o, _ = prog.RunArgOnce(s, c, res, 40*time.Second)
				}(c)
			}
			for _, p := range d.Indep {
				sl := &slot{p: p}
				slots = append(slots, sl)
				wg.Add(1)
				go func(p prog.Prog) {
					defer wg.Done()
					<-start
					sl.o, _ = prog.RunOnce(s, p, "", 40*time.Second)
				}(p)
			}
			for j := 0; j < d.Scans; j++ {
				sl := &slot{p: d.Base}
				slots = append(slots, sl)
				wg.Add(1)
				go func() {
					defer wg.Done()
					defer func() {
						if e := recover(); e != nil {
							sl.o = prog.Obs{Err: "panic", ErrMsg: fmt.Sprint(e)}
						}
					}()
					<-start
					sl.o.Err = "ok"
					prog.Observe(ctx, res, baseSch[len(baseSch)-1], 0, &sl.o)
					for _, e := range sl.o.ShardEr {
						if e != "ok" {
							sl.o.Err = "other"
						}
					}
					if sl.o.ScanErr != "ok" {
						sl.o.Err = "other"
					}
				}()
			}
			if d.Discard != "" {
				res.Discard(ctx)
			}
			var gate chan struct{}
			if d.Base.Nodes[0].Fail != nil {
				// hold the failing attempt of the shared task until the other runs await it
				gate = make(chan struct{})
				prog.Gate.Store(gate)
			}
			close(start)
			if gate != nil {
				time.Sleep(300 * time.Millisecond) // detection power only: the verdict on a correct tree does not depend on it
				close(gate)
			}
			if d.Discard == "during" {
				// lose the shared tasks again while the runs are under way
				for j := 0; j < 3; j++ {
					runtime.Gosched()
					res.Discard(ctx)
				}
			}
			done := make(chan struct{})
			go func() { wg.Wait(); close(done) }()
			select {
			case <-done:
			case <-time.After(60 * time.Second):
				wedged = true
			}
			for _, sl := range slots {
				o := sl.o
				if wedged && o.Err == "" {
					o = prog.Obs{Err: "hang"}
				}
				if o.Err == "timeout" || o.Err == "hang" {
					wedged = true // a run that did not return: the session is not reused
				}
				runs = append(runs, vf.Tuple(sl.p.Term(), obsTerm(o)))
				summary = append(summary, sl.p.Nodes[len(sl.p.Nodes)-1].Op+":"+o.Err)
			}
		}
		if wedged {
			delete(sessions, key)
		}
		term := vf.List(runs)
		nt := ""
		if len(d.Consumers)+d.Scans >= 2 {
			nt = vf.Hash(term)
		}
		out.Add(vf.Case{Term: term, Desc: d, Sig: "concurrent-runs/" + d.Cfg.Kind, Nontriv: nt,
			Kind: fmt.Sprintf("%s/procs%d/yield%v", d.Cfg.Kind, d.Procs, d.Yield), Observed: summary})
		nwedged := 0
		if wedged {
			nwedged++
		}
		if nwedged > 0 && opts.Replay == "" {
			break // a run that blocks is recorded; do not pay the watchdog again and again
		}
	}
	prog.Yield = false
	// data races reported by the race runtime (GORACE=log_path=<out>/race)
	for _, sig := range raceSigs(opts.Out) {
		out.Add(vf.Case{Term: vf.List([]string{vf.Tuple("[]", vf.App("mkObs", "EPanic", "[]", "[]", "[]", "EOk", "[]", "[]"))}),
			Desc: map[string]string{"race": sig}, Sig: sig, Nontriv: vf.Hash(sig), Kind: "race-report", Observed: sig})
	}
	if err := out.Write(opts.Out, opts); err != nil {
		fmt.Fprintln(os.Stderr, err)
		os.Exit(2)
	}
}

// Command c06 injects failures into user functions of generated programs and
// observes what Run does with them on both executors. Every scenario runs in a
// child process (the same binary with -child), so that a crash of the driver
// process or a hang is an observation, not a failure of the harness.
package main

import (
	"bufio"
	"encoding/json"
	"flag"
	"fmt"
	"io"
	"os"
	osexec "os/exec"
	"strings"
	"time"

	"github.com/grailbio/base/errors"
	"github.com/grailbio/bigslice/exec"
	"verifharness/prog"
	"verifharness/vf"
)

// Scenario: a program with exactly one failing node.
type Scenario struct {
	Cfg   prog.Cfg  `json:"cfg"`
	Prog  prog.Prog `json:"prog"`
	Node  int       `json:"node"`
	Chunk int       `json:"chunk,omitempty"` // vector size for this scenario (0: the default, 128)
}

// Outcome is what the child reports for one scenario.
type Outcome struct {
	Err      string   `json:"err"` // ok user other timeout hang panic crash
	Msg      string   `json:"msg,omitempty"`
	Fires    int      `json:"fires"` // how many times the failure point fired
	RowsOK   bool     `json:"-"`     // judged by Coq, not here
	Obs      prog.Obs `json:"obs"`   // full observation (used when the failure never fired or went away)
	After    string   `json:"after"` // outcome of a trivial follow-up run in the same session
	Wall     float64  `json:"wall"`
	Crashlog string   `json:"crashlog,omitempty"`
}

var followUp = prog.Prog{Nodes: []prog.Node{
	{Op: "const", N: 2, Types: []string{"i", "i"}, Cols: [][]int64{{1, 2, 1}, {5, 6, 7}}},
	{Op: "reduce", In: []int{0}, Comb: "sum"},
}}

func siteOf(op string) string {
	switch op {
	case "readerfunc":
		return "SReader"
	case "writerfunc":
		return "SWriter"
	case "map":
		return "SMap"
	case "filter":
		return "SFilter"
	case "flatmap":
		return "SFlatmap"
	case "fold":
		return "SFold"
	case "reduce":
		return "SCombiner"
	case "repartition":
		return "SPartitioner"
	case "scan":
		return "SScan"
	}
	return ""
}

func modeTerm(m string) string {
	return map[string]string{"error": "MError", "temp": "MTemp", "panic": "MPanic", "badpart": "MBadPart"}[m]
}

// ---------------------------------------------------------------- child

func child() {
	prog.MakeTemp = func(msg string) error { return errors.E(errors.Temporary, msg) }
	// machines that returned errors sit out ProbationTimeout (30 s) before they get
	// work again; retries of temporary failures would take minutes of wall clock
	exec.ProbationTimeout = 200 * time.Millisecond
	in := bufio.NewReader(os.Stdin)
	dec := json.NewDecoder(in)
	enc := json.NewEncoder(os.Stdout)
	sessions := map[string]*prog.Sess{}
	for {
		var sc Scenario
		if err := dec.Decode(&sc); err != nil {
			return
		}
		key := sc.Cfg.String()
		s := sessions[key]
		if s == nil {
			s = prog.Start(sc.Cfg)
			sessions[key] = s
		}
		if sc.Chunk > 0 {
			flag.Set("bigslice-internal-default-chunk-rows", fmt.Sprint(sc.Chunk))
		}
		o, _ := prog.RunOnce(s, sc.Prog, "", 20*time.Second)
		flag.Set("bigslice-internal-default-chunk-rows", "128")
		out := Outcome{Err: o.Err, Msg: o.ErrMsg, Fires: o.Fires, Obs: o, Wall: o.Wall}
		if o.Err == "timeout" || o.Err == "hang" {
			// the session may be wedged; the follow-up is still attempted, briefly
			a, _ := prog.RunOnce(s, followUp, "", 10*time.Second)
			out.After = a.Err
			delete(sessions, key)
		} else {
			a, _ := prog.RunOnce(s, followUp, "", 30*time.Second)
			out.After = a.Err
		}
		if err := enc.Encode(out); err != nil {
			return
		}
	}
}

// ---------------------------------------------------------------- parent

type worker struct {
	cmd *osexec.Cmd
	in  io.WriteCloser
	out *json.Decoder
	log *strings.Builder
}

func startWorker() *worker {
	cmd := osexec.Command(os.Args[0], "-child")
	cmd.Args = []string{os.Args[0], "-child"}
	in, _ := cmd.StdinPipe()
	out, _ := cmd.StdoutPipe()
	var log strings.Builder
	cmd.Stderr = &tail{b: &log}
	if err := cmd.Start(); err != nil {
		panic(err)
	}
	return &worker{cmd, in, json.NewDecoder(out), &log}
}

// tail keeps the last 4 kB written.
type tail struct{ b *strings.Builder }

func (t *tail) Write(p []byte) (int, error) {
	t.b.Write(p)
	if t.b.Len() > 8192 {
		s := t.b.String()
		t.b.Reset()
		t.b.WriteString(s[len(s)-4096:])
	}
	return len(p), nil
}

func (w *worker) stop() {
	w.in.Close()
	done := make(chan struct{})
	go func() { w.cmd.Wait(); close(done) }()
	select {
	case <-done:
	case <-time.After(5 * time.Second):
		w.cmd.Process.Kill()
		<-done
	}
}

// runScenario sends one scenario; a dead or silent child is an observation.
func runScenario(w **worker, sc Scenario) Outcome {
	if *w == nil {
		*w = startWorker()
	}
	enc := json.NewEncoder((*w).in)
	if err := enc.Encode(sc); err != nil {
		(*w).stop()
		*w = nil
		return Outcome{Err: "crash", Crashlog: "child not accepting input"}
	}
	type res struct {
		o   Outcome
		err error
	}
	ch := make(chan res, 1)
	go func() {
		var o Outcome
		err := (*w).out.Decode(&o)
		ch <- res{o, err}
	}()
	select {
	case r := <-ch:
		if r.err != nil {
			// the child died: a crash of the driver process
			log := (*w).log.String()
			(*w).cmd.Wait()
			*w = nil
			if i := strings.Index(log, "panic:"); i >= 0 {
				log = log[i:]
			}
			if len(log) > 600 {
				log = log[:600]
			}
			return Outcome{Err: "crash", Crashlog: log}
		}
		return r.o
	case <-time.After(120 * time.Second):
		(*w).cmd.Process.Kill()
		(*w).cmd.Wait()
		*w = nil
		return Outcome{Err: "hang"}
	}
}

func neededNodes(p prog.Prog) map[int]bool {
	need := map[int]bool{len(p.Nodes) - 1: true}
	for k := len(p.Nodes) - 1; k >= 0; k-- {
		if need[k] {
			for _, i := range p.Nodes[k].In {
				need[i] = true
			}
		}
	}
	return need
}

func genScenario(r *vf.Rand, i int) (Scenario, bool) {
	g := prog.DefaultGen()
	g.Sizes = []int{1, 5, 17, 128, 129, 300}
	g.WithPragma = false
	p := prog.Gen(r, g)
	need := neededNodes(p)
	var cands []int
	for k, n := range p.Nodes {
		if need[k] && siteOf(n.Op) != "" {
			cands = append(cands, k)
		}
	}
	if len(cands) == 0 {
		return Scenario{}, false
	}
	k := cands[r.Intn(len(cands))]
	op := p.Nodes[k].Op
	var modes []string
	switch op {
	case "readerfunc", "writerfunc":
		modes = []string{"error", "temp", "panic", "temp"}
	case "scan":
		modes = []string{"error", "panic", "temp"}
	case "repartition":
		modes = []string{"panic", "badpart", "badpart"}
	default:
		modes = []string{"panic"}
	}
	f := &prog.Fail{Mode: modes[r.Intn(len(modes))], Shard: -1, Row: r.Pick([]int{1, 1, 1, 2, 2, 5, 128, 129, 100000})}
	if op == "readerfunc" && f.Mode != "panic" {
		f.WithRows = r.Bool()
	}
	if f.Mode == "temp" {
		f.Once = r.Bool()
	}
	p.Nodes[k].Fail = f
	cfg := prog.Cfg{Kind: "local", Parallelism: 4}
	if i%2 == 1 {
		cfg = prog.Cfg{Kind: "bigmachine", Parallelism: 4, Procs: 2}
		if i%4 == 3 {
			cfg.MachCombiner = true
		}
	}
	return Scenario{cfg, p, k, 0}, true
}

// matrix is the fixed part of every run: for each executor kind, every failure
// site with every mode it can express, on small programs in which the failing
// function is certainly reached (the random scenarios add positions and shapes).
func matrix() []Scenario {
	cols := [][]int64{{0, 1, 2, 3, 4, 0, 1, 2, 3, 4, 0, 1}, {1, 2, 3, 4, 5, 6, 7, 8, 9, 10, 11, 12}}
	src := prog.Node{Op: "const", N: 3, Types: []string{"i", "i"}, Cols: cols}
	rdr := prog.Node{Op: "readerfunc", N: 2, Types: []string{"i", "i"}, A: 20, B: 3, N2: 2}
	f := func(mode string, row int, once, ateof bool) *prog.Fail {
		return &prog.Fail{Mode: mode, Shard: -1, Row: row, Once: once, AtEOF: ateof}
	}
	col0 := prog.Expr{K: "col", I: 0}
	type pn struct {
		p    prog.Prog
		node int
	}
	mk := func(nodes ...prog.Node) prog.Prog { return prog.Prog{Nodes: nodes} }
	with := func(n prog.Node, fl *prog.Fail) prog.Node { n.Fail = fl; return n }
	var ps []pn
	for _, fl := range []*prog.Fail{f("error", 1, false, false), f("panic", 2, false, false), f("temp", 1, true, false), f("temp", 1, false, false)} {
		ps = append(ps, pn{mk(with(rdr, fl), prog.Node{Op: "reduce", In: []int{0}, Comb: "sum"}), 0})
	}
	for _, fl := range []*prog.Fail{f("error", 1, false, false), f("error", 1, false, true), f("panic", 1, false, false), f("temp", 1, true, false), f("temp", 2, false, false)} {
		ps = append(ps, pn{mk(src, with(prog.Node{Op: "writerfunc", In: []int{0}}, fl), prog.Node{Op: "reshuffle", In: []int{1}}), 1})
	}
	// a reader error that arrives together with rows, consumed by a Scan callback in the same task,
	// by a WriterFunc and across a shuffle
	wr := f("error", 1, false, false)
	wr.WithRows = true
	ps = append(ps, pn{mk(with(rdr, wr), prog.Node{Op: "scan", In: []int{0}}), 0})
	ps = append(ps, pn{mk(with(rdr, wr), prog.Node{Op: "writerfunc", In: []int{0}}, prog.Node{Op: "reshuffle", In: []int{1}}), 0})
	ps = append(ps, pn{mk(with(rdr, wr), prog.Node{Op: "reduce", In: []int{0}, Comb: "sum"}), 0})
	ps = append(ps, pn{mk(src, with(prog.Node{Op: "map", In: []int{0}, Exprs: []prog.Expr{col0, {K: "col", I: 1}}}, f("panic", 2, false, false))), 1})
	ps = append(ps, pn{mk(src, with(prog.Node{Op: "filter", In: []int{0}, Exprs: []prog.Expr{{K: "true"}}}, f("panic", 1, false, false)), prog.Node{Op: "reduce", In: []int{1}, Comb: "max"}), 1})
	ps = append(ps, pn{mk(src, with(prog.Node{Op: "flatmap", In: []int{0}, Exprs: []prog.Expr{{K: "const", A: 2}}}, f("panic", 3, false, false))), 1})
	ps = append(ps, pn{mk(src, with(prog.Node{Op: "fold", In: []int{0}}, f("panic", 1, false, false))), 1})
	// the combiner is called only when a key is met twice: in the task-local table, in
	// the per-partition buffer, and when the consumer merges its inputs
	ps = append(ps, pn{mk(src, with(prog.Node{Op: "reduce", In: []int{0}, Comb: "sum"}, f("panic", 1, false, false))), 1})
	ps = append(ps, pn{mk(src, with(prog.Node{Op: "reduce", In: []int{0}, Comb: "sum"}, f("panic", 4, false, false)), prog.Node{Op: "map", In: []int{1}, Exprs: []prog.Expr{col0}}), 1})
	ps = append(ps, pn{mk(src, with(prog.Node{Op: "repartition", In: []int{0}, Exprs: []prog.Expr{col0}}, f("panic", 1, false, false))), 1})
	ps = append(ps, pn{mk(src, with(prog.Node{Op: "repartition", In: []int{0}, Exprs: []prog.Expr{col0}}, f("badpart", 2, false, false))), 1})
	ps = append(ps, pn{mk(src, with(prog.Node{Op: "scan", In: []int{0}}, f("error", 1, false, false))), 1})
	ps = append(ps, pn{mk(src, with(prog.Node{Op: "scan", In: []int{0}}, f("temp", 1, false, false))), 1})
	ps = append(ps, pn{mk(src, with(prog.Node{Op: "scan", In: []int{0}}, f("temp", 2, true, false))), 1})
	ps = append(ps, pn{mk(src, prog.Node{Op: "reduce", In: []int{0}, Comb: "sum"}, with(prog.Node{Op: "scan", In: []int{1}}, f("panic", 1, false, false))), 2})
	var out []Scenario
	for _, cfg := range []prog.Cfg{{Kind: "local", Parallelism: 4}, {Kind: "bigmachine", Parallelism: 4, Procs: 2}, {Kind: "bigmachine", Parallelism: 4, Procs: 2, MachCombiner: true}} {
		for _, x := range ps {
			out = append(out, Scenario{cfg, x.p, x.node, 0})
		}
	}
	// the combiner is first called when the spilled runs of a machine combiner are merged
	// at commit time: keys distinct inside each task (so neither the task table nor the
	// shared buffer combines anything), more keys than the buffer holds before it spills
	// (100 vectors; the vector size is 4 rows in this scenario)
	const nk = 1000
	big := [][]int64{make([]int64, 2*nk), make([]int64, 2*nk)}
	for i := 0; i < 2*nk; i++ {
		big[0][i], big[1][i] = int64(i%nk), 1
	}
	out = append(out, Scenario{prog.Cfg{Kind: "bigmachine", Parallelism: 1, Procs: 1, MachCombiner: true},
		mk(prog.Node{Op: "const", N: 2, Types: []string{"i", "i"}, Cols: big},
			with(prog.Node{Op: "reduce", In: []int{0}, Comb: "sum"}, f("panic", 1, false, false))), 1, 4})
	return out
}

func main() {
	if len(os.Args) > 1 && os.Args[1] == "-child" {
		child()
		return
	}
	opts := vf.ParseFlags()
	out := &vf.Output{ID: "C06", Import: "BS.C06.Corr",
		Rule: "generated programs (as C01) with one user function failing: site in {reader, writer, map, filter, flatmap, fold, reduce combiner, partitioner, scan callback} x mode {error, temporary, panic, out-of-range partition} x persistent/one-shot x invocation position {1,2,5,127,128,129,never} x {local, bigmachine(testsystem), +machine combiners}; each scenario in a child process; non-trivial = the failure point fired; distinct by scenario text"}
	var scs []Scenario
	if opts.Replay != "" {
		if err := vf.LoadReplay(opts.Replay, &scs); err != nil {
			fmt.Fprintln(os.Stderr, err)
			os.Exit(2)
		}
	} else {
		n := 40
		if opts.Tier == "thorough" {
			n = 700
		}
		n *= opts.Scale
		scs = append(scs, matrix()...)
		n += len(scs)
		root := vf.NewRand(opts.Seed)
		for i := 0; len(scs) < n; i++ {
			if sc, ok := genScenario(root.Split(), i); ok {
				scs = append(scs, sc)
			}
		}
	}
	var w *worker
	for _, sc := range scs {
		o := runScenario(&w, sc)
		n := sc.Prog.Nodes[sc.Node]
		site, mode := siteOf(n.Op), n.Fail.Mode
		errT := "E" + strings.ToUpper(o.Err[:1]) + o.Err[1:]
		if o.Err == "crash" {
			errT = "EPanic" // the driver process died: a panic nobody recovered
		}
		obsT := vf.App("mkObs", errT, "[]", "[]", "[]", "EOk", "[]", "[]")
		if o.Err != "crash" && o.Err != "hang" {
			obsT = o.Obs.Term()
		}
		after := o.After
		if after == "" {
			after = "other"
		}
		exec := "XLocal"
		if sc.Cfg.Kind == "bigmachine" {
			exec = "XBigmachine"
			if sc.Cfg.MachCombiner {
				exec = "XBigmachineMC"
			}
		}
		term := vf.App("mkCase", sc.Prog.Term(), site, modeTerm(mode), vf.Bool(n.Fail.Once), exec,
			vf.Nat(o.Fires), errT, obsT, "E"+strings.ToUpper(after[:1])+after[1:])
		sig := fmt.Sprintf("%s/%s/%s/%s", sc.Cfg.Kind, n.Op, mode, o.Err)
		nontriv := ""
		if o.Fires > 0 {
			nontriv = vf.Hash(term)
		}
		out.Add(vf.Case{Term: term, Desc: sc, Sig: sig, Nontriv: nontriv, Kind: fmt.Sprintf("%s/%s/%s", sc.Cfg.Kind, n.Op, mode),
			Observed: map[string]interface{}{"err": o.Err, "msg": o.Msg, "fires": o.Fires, "after": o.After, "crashlog": o.Crashlog}})
	}
	if w != nil {
		w.stop()
	}
	if err := out.Write(opts.Out, opts); err != nil {
		fmt.Fprintln(os.Stderr, err)
		os.Exit(2)
	}
}

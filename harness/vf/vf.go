// Package vf holds what every property driver shares: the splittable PRNG all
// random choices derive from, the printer of Coq terms for case files, and the
// stats/record file each driver writes next to its case file.
package vf

import (
	"encoding/json"
	"flag"
	"fmt"
	"os"
	"path/filepath"
	"runtime"
	"sort"
	"strconv"
	"strings"
	"time"
)

// ---------------------------------------------------------------- PRNG

// Rand is splitmix64; Split derives an independent stream, so every case has
// its own sub-seed and replays alone.
type Rand struct{ s uint64 }

func NewRand(seed uint64) *Rand { return &Rand{seed*0x9E3779B97F4A7C15 + 0x1234567} }

func (r *Rand) Uint64() uint64 {
	r.s += 0x9E3779B97F4A7C15
	z := r.s
	z = (z ^ (z >> 30)) * 0xBF58476D1CE4E5B9
	z = (z ^ (z >> 27)) * 0x94D049BB133111EB
	return z ^ (z >> 31)
}
func (r *Rand) Split() *Rand { return &Rand{r.Uint64()} }
func (r *Rand) Intn(n int) int {
	if n <= 0 {
		return 0
	}
	return int(r.Uint64() % uint64(n))
}
func (r *Rand) Range(lo, hi int) int { return lo + r.Intn(hi-lo+1) } // inclusive
func (r *Rand) Bool() bool           { return r.Uint64()&1 == 1 }
func (r *Rand) Chance(num, den int) bool {
	return r.Intn(den) < num
}
func (r *Rand) Pick(xs []int) int { return xs[r.Intn(len(xs))] }

// Hash is a short stable digest (FNV-1a) used as the key for distinct counting.
func Hash(s string) string {
	h := uint64(14695981039346656037)
	for i := 0; i < len(s); i++ {
		h ^= uint64(s[i])
		h *= 1099511628211
	}
	return fmt.Sprintf("%016x", h)
}

// ---------------------------------------------------------------- Coq terms

// Z prints an integer as a Coq Z literal (parenthesised when negative).
func Z(x int64) string {
	if x < 0 {
		return fmt.Sprintf("(%d)", x)
	}
	return fmt.Sprintf("%d", x)
}
func ZU(x uint64) string { return fmt.Sprintf("%d", x) }
func Nat(x int) string {
	if x < 0 {
		panic("vf.Nat: negative")
	}
	return fmt.Sprintf("%d%%nat", x)
}
func Bool(b bool) string {
	if b {
		return "true"
	}
	return "false"
}
func List(xs []string) string { return "[" + strings.Join(xs, "; ") + "]" }
func ZList(xs []int64) string {
	ss := make([]string, len(xs))
	for i, x := range xs {
		ss[i] = Z(x)
	}
	return List(ss)
}
func IntList(xs []int) string {
	ss := make([]string, len(xs))
	for i, x := range xs {
		ss[i] = Z(int64(x))
	}
	return List(ss)
}
func NatList(xs []int) string {
	ss := make([]string, len(xs))
	for i, x := range xs {
		ss[i] = Nat(x)
	}
	return List(ss)
}
func ZListList(xss [][]int64) string {
	ss := make([]string, len(xss))
	for i, xs := range xss {
		ss[i] = ZList(xs)
	}
	return List(ss)
}
func Tuple(xs ...string) string { return "(" + strings.Join(xs, ", ") + ")" }
func App(f string, args ...string) string {
	if len(args) == 0 {
		return f
	}
	return "(" + f + " " + strings.Join(args, " ") + ")"
}
func Bytes(b []byte) string {
	ss := make([]string, len(b))
	for i, x := range b {
		ss[i] = fmt.Sprintf("%d", x)
	}
	return List(ss)
}
func Some(x string) string { return "(Some " + x + ")" }

// ---------------------------------------------------------------- driver I/O

// Opts are the flags every driver takes.
type Opts struct {
	Seed   uint64
	Tier   string
	Out    string
	Replay string
	Scale  int // multiplies case counts (search mode)
}

func ParseFlags() Opts {
	var o Opts
	flag.Uint64Var(&o.Seed, "seed", 1, "PRNG seed")
	flag.StringVar(&o.Tier, "tier", "quick", "quick|thorough")
	flag.StringVar(&o.Out, "out", ".", "output directory")
	flag.StringVar(&o.Replay, "replay", "", "replay file (records json) to re-run instead of generating")
	flag.IntVar(&o.Scale, "scale", 1, "case count multiplier")
	flag.Parse()
	// a driver that does not finish is reported by check.py as a broken tie; leave a goroutine
	// dump behind so that the hang can be located
	if d, err := strconv.Atoi(os.Getenv("VERIF_DRIVER_DEADLINE")); err == nil && d > 0 {
		time.AfterFunc(time.Duration(d)*time.Second, func() {
			buf := make([]byte, 1<<22)
			n := runtime.Stack(buf, true)
			fmt.Fprintf(os.Stderr, "driver deadline of %d s exceeded; goroutines:\n%s\n", d, buf[:n])
			os.Exit(4)
		})
	}
	return o
}

// Case is one correspondence case: the Coq term (of the property's `case`
// type) holding input and observed output, plus a JSON-able description used
// for evidence samples, replay and known-finding signatures.
type Case struct {
	Term     string      `json:"-"`
	Desc     interface{} `json:"desc"`    // replayable description (input)
	Sig      string      `json:"sig"`     // signature for known-finding matching
	Nontriv  string      `json:"nontriv"` // "" = trivial; else key for distinct counting
	Kind     string      `json:"kind"`    // distribution bucket
	SubSeed  uint64      `json:"subseed"`
	Observed interface{} `json:"observed,omitempty"`
}

// Output collects cases and writes cases_<ID>.v and cases_<ID>.json.
type Output struct {
	ID      string
	Import  string // e.g. "BS.C11.Corr"
	Rule    string
	Cases   []Case
	Notes   []string
	Extra   map[string]interface{}
	Prelude string // extra Coq text before the case list
}

func (o *Output) Add(c Case) { o.Cases = append(o.Cases, c) }

func (o *Output) Write(dir string, opts Opts) error {
	if err := os.MkdirAll(dir, 0o755); err != nil {
		return err
	}
	var b strings.Builder
	fmt.Fprintf(&b, "(* generated by harness/%s: seed=%d tier=%s *)\n", strings.ToLower(o.ID), opts.Seed, opts.Tier)
	fmt.Fprintf(&b, "From Coq Require Import List ZArith.\nImport ListNotations.\nRequire Import %s.\nLocal Open Scope Z_scope.\n", o.Import)
	b.WriteString(o.Prelude)
	// Cases are emitted in chunks so that no single term is enormous.
	const chunk = 50
	var names []string
	for i := 0; i < len(o.Cases); i += chunk {
		j := i + chunk
		if j > len(o.Cases) {
			j = len(o.Cases)
		}
		name := fmt.Sprintf("cases_%d", i/chunk)
		names = append(names, name)
		fmt.Fprintf(&b, "Definition %s : list case := [\n", name)
		for k := i; k < j; k++ {
			sep := ";"
			if k == j-1 {
				sep = ""
			}
			fmt.Fprintf(&b, "  %s%s\n", o.Cases[k].Term, sep)
		}
		b.WriteString("].\n")
	}
	fmt.Fprintf(&b, "Definition cases : list case := %s.\n", strings.Join(append(names, "[]"), " ++ "))
	b.WriteString("Definition NCASES := Eval vm_compute in List.length cases.\n")
	b.WriteString("Definition MISMATCH := Eval vm_compute in mismatches cases.\n")
	b.WriteString("Definition VIOL := Eval vm_compute in violations cases.\n")
	b.WriteString("Print NCASES.\nPrint MISMATCH.\nPrint VIOL.\n")
	if err := os.WriteFile(filepath.Join(dir, "cases_"+o.ID+".v"), []byte(b.String()), 0o644); err != nil {
		return err
	}
	// stats
	kinds := map[string]int{}
	distinct := map[string]bool{}
	for _, c := range o.Cases {
		kinds[c.Kind]++
		if c.Nontriv != "" {
			distinct[c.Nontriv] = true
		}
	}
	var samples []interface{}
	step := len(o.Cases)/5 + 1
	for i := 0; i < len(o.Cases); i += step {
		samples = append(samples, map[string]interface{}{"index": i, "kind": o.Cases[i].Kind, "input": o.Cases[i].Desc, "observed": o.Cases[i].Observed})
	}
	kk := make([]string, 0, len(kinds))
	for k := range kinds {
		kk = append(kk, k)
	}
	sort.Strings(kk)
	rec := map[string]interface{}{
		"id": o.ID, "seed": opts.Seed, "tier": opts.Tier,
		"evaluations": len(o.Cases), "distinct_nontrivial": len(distinct),
		"rule": o.Rule, "distribution": kinds, "samples": samples,
		"cases": o.Cases, "notes": o.Notes, "extra": o.Extra,
	}
	js, err := json.MarshalIndent(rec, "", " ")
	if err != nil {
		return err
	}
	return os.WriteFile(filepath.Join(dir, "cases_"+o.ID+".json"), js, 0o644)
}

// LoadReplay reads the "cases" descs of a records/replay file into v (a
// pointer to a slice of the driver's desc type).
func LoadReplay(path string, v interface{}) error {
	data, err := os.ReadFile(path)
	if err != nil {
		return err
	}
	var rec struct {
		Cases []struct {
			Desc json.RawMessage `json:"desc"`
		} `json:"cases"`
	}
	if err := json.Unmarshal(data, &rec); err != nil {
		return err
	}
	var raws []json.RawMessage
	for _, c := range rec.Cases {
		raws = append(raws, c.Desc)
	}
	js, _ := json.Marshal(raws)
	return json.Unmarshal(js, v)
}

// Command c05 checks keyed redistribution against the Coq model of coq/C05:
//
//	(i)   frame.Frame.Hash / HashWithSeed through the public frame API, every key
//	      observed at several placements (frame sizes, view offsets, row indices,
//	      rows appended one by one the way the executors buffer partitions);
//	(ii)  end to end: small programs (Reduce, Fold, Cogroup, Reshuffle, Reshard,
//	      Repartition) on the local and the bigmachine (testsystem) executors, a
//	      WriterFunc appended after the operator records (shard, key) pairs;
//	(iii) a second OS process recomputes a compact set of key hashes in every tier
//	      (kind xproc) and, in the thorough tier, every observation.
//
// It writes the Coq case file judged by coq/C05/Corr.v.
package main

import (
	"context"
	"encoding/hex"
	"encoding/json"
	"flag"
	"fmt"
	"log"
	"math"
	"os"
	osexec "os/exec"
	"reflect"
	"sort"
	"strings"
	"sync"
	"time"

	"github.com/grailbio/bigmachine/testsystem"
	"github.com/grailbio/bigslice"
	"github.com/grailbio/bigslice/exec"
	"github.com/grailbio/bigslice/frame"
	"github.com/grailbio/bigslice/sliceio"
	"verifharness/vf"
)

// ---------------------------------------------------------------- values

// Val is a JSON-able key value of one of the Go column types with registered
// hashing. U holds integers as two's complement, floats as IEEE bits, bools as
// 0/1; S holds the bytes of strings and byte slices in hex.
type Val struct {
	T string `json:"t"`
	U uint64 `json:"u,omitempty"`
	S string `json:"s,omitempty"`
}

var typeOf = map[string]reflect.Type{
	"string": reflect.TypeOf(""), "bytes": reflect.TypeOf([]byte(nil)), "bool": reflect.TypeOf(false),
	"uint": reflect.TypeOf(uint(0)), "uint8": reflect.TypeOf(uint8(0)), "uint16": reflect.TypeOf(uint16(0)),
	"uint32": reflect.TypeOf(uint32(0)), "uint64": reflect.TypeOf(uint64(0)), "uintptr": reflect.TypeOf(uintptr(0)),
	"int": reflect.TypeOf(int(0)), "int8": reflect.TypeOf(int8(0)), "int16": reflect.TypeOf(int16(0)),
	"int32": reflect.TypeOf(int32(0)), "int64": reflect.TypeOf(int64(0)),
	"float32": reflect.TypeOf(float32(0)), "float64": reflect.TypeOf(float64(0)),
}

var allTypes = []string{"string", "bytes", "bool", "uint", "uint8", "uint16", "uint32", "uint64", "uintptr",
	"int", "int8", "int16", "int32", "int64", "float32", "float64"}

func (v Val) bytes() []byte {
	b, err := hex.DecodeString(v.S)
	if err != nil {
		panic(err)
	}
	return b
}

// Go returns the Go value.
func (v Val) Go() reflect.Value {
	r := reflect.New(typeOf[v.T]).Elem()
	switch v.T {
	case "string":
		r.SetString(string(v.bytes()))
	case "bytes":
		r.SetBytes(v.bytes())
	case "bool":
		r.SetBool(v.U != 0)
	case "uint", "uint8", "uint16", "uint32", "uint64", "uintptr":
		r.SetUint(v.U)
	case "int", "int8", "int16", "int32", "int64":
		r.SetInt(int64(v.U))
	case "float32":
		r.SetFloat(float64(math.Float32frombits(uint32(v.U))))
	case "float64":
		r.SetFloat(math.Float64frombits(v.U))
	default:
		panic("unknown type " + v.T)
	}
	return r
}

// valOf reads a Go value back.
func valOf(t string, r reflect.Value) Val {
	switch t {
	case "string":
		return Val{T: t, S: hex.EncodeToString([]byte(r.String()))}
	case "bytes":
		return Val{T: t, S: hex.EncodeToString(r.Bytes())}
	case "bool":
		if r.Bool() {
			return Val{T: t, U: 1}
		}
		return Val{T: t}
	case "uint", "uint8", "uint16", "uint32", "uint64", "uintptr":
		return Val{T: t, U: r.Uint()}
	case "int", "int8", "int16", "int32", "int64":
		return Val{T: t, U: uint64(r.Int())}
	case "float32":
		return Val{T: t, U: uint64(math.Float32bits(float32(r.Float())))}
	case "float64":
		return Val{T: t, U: math.Float64bits(r.Float())}
	}
	panic("unknown type " + t)
}

var coqCtor = map[string]string{
	"string": "VString", "bytes": "VBytes", "bool": "VBool", "uint": "VUint", "uint8": "VUint8",
	"uint16": "VUint16", "uint32": "VUint32", "uint64": "VUint64", "uintptr": "VUintptr", "int": "VInt",
	"int8": "VInt8", "int16": "VInt16", "int32": "VInt32", "int64": "VInt64", "float32": "VFloat32", "float64": "VFloat64",
}

func nlist(b []byte) string { return vf.Bytes(b) + "%N" }

// Coq prints the kval term.
func (v Val) Coq() string {
	c := coqCtor[v.T]
	switch v.T {
	case "string", "bytes":
		return vf.App(c, nlist(v.bytes()))
	case "bool":
		return vf.App(c, vf.Bool(v.U != 0))
	case "int", "int8", "int16", "int32", "int64":
		return vf.App(c, vf.Z(int64(v.U)))
	default:
		return vf.App(c, vf.ZU(v.U))
	}
}

func keyCoq(k []Val) string {
	ss := make([]string, len(k))
	for i, v := range k {
		ss[i] = v.Coq()
	}
	return vf.List(ss)
}

func u32list(xs []uint32) string {
	ss := make([]string, len(xs))
	for i, x := range xs {
		ss[i] = fmt.Sprint(x)
	}
	return vf.List(ss) + "%N"
}

func isNaN(v Val) bool {
	switch v.T {
	case "float32":
		f := math.Float32frombits(uint32(v.U))
		return f != f
	case "float64":
		f := math.Float64frombits(v.U)
		return f != f
	}
	return false
}

// randVal draws a value of type t: edge values, small values (collisions) and
// uniformly random bit patterns. NaN is never produced; negZero says whether
// -0.0 may be (it is Go-equal to +0.0 and must hash like it: frame hashes the
// bits of x+0 since the fix of the former float-negzero-key finding).
func randVal(r *vf.Rand, t string, negZero bool) Val {
	for {
		v := randVal1(r, t)
		if isNaN(v) {
			continue
		}
		if !negZero && ((t == "float32" && v.U == 0x80000000) || (t == "float64" && v.U == 1<<63)) {
			v.U = 0
		}
		return v
	}
}

func randVal1(r *vf.Rand, t string) Val {
	bits := map[string]uint{"uint": 64, "uint8": 8, "uint16": 16, "uint32": 32, "uint64": 64, "uintptr": 64,
		"int": 64, "int8": 8, "int16": 16, "int32": 32, "int64": 64}
	switch t {
	case "string", "bytes":
		n := 0
		switch r.Intn(4) {
		case 0:
			n = r.Range(0, 4)
		case 1:
			n = r.Range(5, 12)
		default:
			n = r.Range(0, 41)
		}
		b := make([]byte, n)
		for i := range b {
			if r.Chance(1, 3) {
				b[i] = byte(r.Intn(256))
			} else {
				b[i] = byte('a' + r.Intn(26))
			}
		}
		return Val{T: t, S: hex.EncodeToString(b)}
	case "bool":
		return Val{T: t, U: uint64(r.Intn(2))}
	case "float32":
		switch r.Intn(6) {
		case 5: // the two zeros: equal keys with different bit patterns
			return Val{T: t, U: uint64(r.Intn(2)) << 31}
		case 0:
			return Val{T: t, U: uint64(math.Float32bits(float32(r.Range(-3, 3))))}
		case 1:
			return Val{T: t, U: uint64(math.Float32bits(float32(r.Range(-1000, 1000)) / 8))}
		}
		return Val{T: t, U: r.Uint64() & 0xFFFFFFFF}
	case "float64":
		switch r.Intn(6) {
		case 5:
			return Val{T: t, U: uint64(r.Intn(2)) << 63}
		case 0:
			return Val{T: t, U: math.Float64bits(float64(r.Range(-3, 3)))}
		case 1:
			return Val{T: t, U: math.Float64bits(float64(r.Range(-1000, 1000)) / 8)}
		}
		return Val{T: t, U: r.Uint64()}
	}
	w := bits[t]
	signed := strings.HasPrefix(t, "int")
	var x uint64
	switch r.Intn(6) {
	case 0: // edges
		edges := []uint64{0, 1, ^uint64(0), 1 << (w - 1), 1<<(w-1) - 1, 1<<(w-1) + 1, 0xFF, 0x100, 0xFFFF, 0x10000, 0xFFFFFFFF, 1 << 32}
		x = edges[r.Intn(len(edges))]
	case 1: // small, possibly negative
		x = uint64(int64(r.Range(-20, 20)))
	case 2: // a single high byte set: catches dropped upper bytes
		x = uint64(r.Range(1, 255)) << (8 * uint(r.Intn(int(w/8))))
	default:
		x = r.Uint64()
	}
	if w < 64 {
		x &= 1<<w - 1
		if signed && x&(1<<(w-1)) != 0 { // sign extend into the int64 carried by U
			x |= ^uint64(0) << w
		}
	}
	return Val{T: t, U: x}
}

// ---------------------------------------------------------------- descriptions

// Place is one placement of a key in a frame: the frame has Size rows, the view
// is Slice(Off, Size), the key sits at row Idx of the view. Mode 1 rebuilds the
// view by appending single-row slices to a fresh frame (how exec/local.go
// buffers partitions) before hashing.
type Place struct {
	Size int `json:"size"`
	Off  int `json:"off"`
	Idx  int `json:"idx"`
	Mode int `json:"mode,omitempty"`
}

// Row is one input row of an end-to-end program.
type Row struct {
	In   int   `json:"in,omitempty"` // input slice (Cogroup has two)
	P    int   `json:"p"`            // producer shard
	B    int   `json:"b"`            // batch within the producer
	Key  []Val `json:"key"`          // the prefix columns
	Want int   `json:"want"`         // what Repartition's function returns for the row
	// what the second custom function of a pair program returns for the row
	Want2 int `json:"want2,omitempty"`
}

// Desc describes one case; it is everything needed to re-run it.
type Desc struct {
	Kind string `json:"kind"` // hash | range | xproc | e2e
	ID   int    `json:"id"`
	// hash
	Key    []Val   `json:"key,omitempty"`
	Seed   uint32  `json:"seed,omitempty"`
	Places []Place `json:"places,omitempty"`
	Fill   uint64  `json:"fill,omitempty"`  // seed of the filler rows
	NS     []int   `json:"ns,omitempty"`    // xproc: shard counts for which the shards are compared
	Extra  int     `json:"extra,omitempty"` // value columns after the prefix
	// range
	T  string `json:"t,omitempty"`
	Lo int64  `json:"lo,omitempty"`
	N  int    `json:"n,omitempty"`
	// e2e
	Op     string   `json:"op,omitempty"`
	Exec   string   `json:"exec,omitempty"` // local | bigmachine | bigmachine-mc
	Types  []string `json:"types,omitempty"`
	NIn    []int    `json:"nin,omitempty"`  // producer shards of each input slice
	NOut   int      `json:"nout,omitempty"` // Reshard target
	Chunk  int      `json:"chunk,omitempty"`
	Rows   []Row    `json:"ops,omitempty"` // named ops so that check.py's shrinker drops rows
	Tag    string   `json:"tag,omitempty"` // finding signature of deliberately aimed cases
	Prefix int      `json:"prefix,omitempty"`
	// pair programs: ONE upstream slice value is a shuffle dependency of two
	// consumers with the same shard count in one invocation,
	// Cogroup(record(Pair[0](s)), record(Pair[1](s))); each of Pair is reshuffle |
	// repartition (function Want) | repartition2 (function Want2). The case
	// observes the operator Pair[Which]; Op is its kind.
	Pair  []string `json:"pair,omitempty"`
	Which int      `json:"which,omitempty"`
	// re-keyed result programs: invocation 1 returns a slice keyed by its first K
	// columns (Prefixed(input, K), reduced when that leaves one value column);
	// its *Result is the argument of invocation 2 = Op(Prefixed(result, J)). The
	// case observes Op; its producers are the result's shards, its key is the
	// first J columns: the prefix of the slice being shuffled, not of the tasks
	// that produced the result.
	Rekey bool `json:"rekey,omitempty"`
	K     int  `json:"k,omitempty"`
	J     int  `json:"j,omitempty"`
}

// Obs is what running a Desc observed.
type Obs struct {
	Hashes  []uint32 `json:"hashes,omitempty"`  // hash: one per placement; range: placement A
	HashesB []uint32 `json:"hashesb,omitempty"` // range: placement B
	Failed  bool     `json:"failed,omitempty"`
	Err     string   `json:"err,omitempty"`
	Outs    []Out    `json:"outs,omitempty"`
	Stage1  []Out    `json:"stage1,omitempty"` // re-keyed programs: (shard, whole row) of the first invocation's result
}

// Out is a (shard, key) pair recorded by the writer after the operator.
type Out struct {
	Shard int   `json:"shard"`
	Key   []Val `json:"key"`
}

// ---------------------------------------------------------------- (i) hashing

// buildFrame makes a frame of size rows with the key's column types plus extra
// int columns, filler rows from fill, and the key at row at.
func buildFrame(key []Val, extra int, size, at int, fill uint64) frame.Frame {
	fr := vf.NewRand(fill)
	cols := make([]interface{}, 0, len(key)+extra)
	for _, kv := range key {
		s := reflect.MakeSlice(reflect.SliceOf(typeOf[kv.T]), size, size)
		for i := 0; i < size; i++ {
			if i == at {
				s.Index(i).Set(kv.Go())
			} else {
				s.Index(i).Set(randVal(fr, kv.T, true).Go())
			}
		}
		cols = append(cols, s.Interface())
	}
	for e := 0; e < extra; e++ {
		s := make([]int, size)
		for i := range s {
			s[i] = int(fr.Uint64())
		}
		cols = append(cols, s)
	}
	return frame.Slices(cols...).Prefixed(len(key))
}

func hashAt(d *Desc, p Place) uint32 {
	f := buildFrame(d.Key, d.Extra, p.Size, p.Off+p.Idx, d.Fill+uint64(p.Size)*1000003)
	v := f.Slice(p.Off, p.Size)
	idx := p.Idx
	if p.Mode == 1 {
		g := frame.Make(v, 0, 2)
		for i := 0; i <= p.Idx; i++ {
			g = frame.AppendFrame(g, v.Slice(i, i+1))
		}
		v, idx = g, g.Len()-1
	}
	h := v.HashWithSeed(idx, d.Seed)
	if d.Seed == 0 {
		if h0 := v.Hash(idx); h0 != h {
			// Hash must be HashWithSeed(., 0); report the disagreeing value as the observation
			return h0
		}
	}
	return h
}

func runHash(d *Desc) Obs {
	var o Obs
	for _, p := range d.Places {
		o.Hashes = append(o.Hashes, hashAt(d, p))
	}
	return o
}

var rangeBits = map[string]uint{"int8": 8, "uint8": 8, "int16": 16, "uint16": 16}

func rangeVal(t string, x int64) Val {
	if strings.HasPrefix(t, "int") {
		return Val{T: t, U: uint64(x)}
	}
	return Val{T: t, U: uint64(x)}
}

// runRange hashes the keys lo..lo+n-1 of an 8/16-bit type: placement A is a frame
// holding exactly the run; placement B is a longer frame, sliced at an offset
// that varies with the run, holding the run in reverse order.
func runRange(d *Desc) Obs {
	typ := typeOf[d.T]
	a := reflect.MakeSlice(reflect.SliceOf(typ), d.N, d.N)
	off := int(uint64(d.Lo)%7) + 1
	b := reflect.MakeSlice(reflect.SliceOf(typ), d.N+off+2, d.N+off+2)
	for j := 0; j < d.N; j++ {
		v := rangeVal(d.T, d.Lo+int64(j)).Go()
		a.Index(j).Set(v)
		b.Index(off + d.N - 1 - j).Set(v)
	}
	fa := frame.Slices(a.Interface())
	fb := frame.Slices(b.Interface(), make([]int, d.N+off+2)).Slice(off, off+d.N)
	var o Obs
	for j := 0; j < d.N; j++ {
		o.Hashes = append(o.Hashes, fa.HashWithSeed(j, d.Seed))
		o.HashesB = append(o.HashesB, fb.HashWithSeed(d.N-1-j, d.Seed))
	}
	return o
}

// ---------------------------------------------------------------- (ii) end to end

var (
	typeOfError = reflect.TypeOf((*error)(nil)).Elem()
	typeOfInt   = reflect.TypeOf(0)
	nilError    = reflect.Zero(typeOfError)
)

var (
	recMu sync.Mutex
	rec   = map[int][]Out{}
)

type rstate struct{ batch int }

// input builds the ReaderFunc slice of input `which`: producer shard p emits its
// batches in order, one batch per read. Columns: the key columns, then the row
// number (an int value column).
func input(d *Desc, which int) bigslice.Slice {
	nshard := d.NIn[which]
	batches := make([][][]int, nshard) // shard -> batch -> row indices
	for i, r := range d.Rows {
		if r.In != which {
			continue
		}
		for len(batches[r.P]) <= r.B {
			batches[r.P] = append(batches[r.P], nil)
		}
		batches[r.P][r.B] = append(batches[r.P][r.B], i)
	}
	in := []reflect.Type{typeOfInt, reflect.TypeOf(&rstate{})}
	for _, t := range d.Types {
		in = append(in, reflect.SliceOf(typeOf[t]))
	}
	in = append(in, reflect.TypeOf([]int(nil)))
	ft := reflect.FuncOf(in, []reflect.Type{typeOfInt, typeOfError}, false)
	read := reflect.MakeFunc(ft, func(args []reflect.Value) []reflect.Value {
		shard := int(args[0].Int())
		st := args[1].Interface().(*rstate)
		ret := func(n int, err error) []reflect.Value {
			ev := nilError
			if err != nil {
				ev = reflect.ValueOf(&err).Elem()
			}
			return []reflect.Value{reflect.ValueOf(n), ev}
		}
		if st.batch >= len(batches[shard]) {
			return ret(0, sliceio.EOF)
		}
		b := batches[shard][st.batch]
		st.batch++
		if args[2].Len() < len(b) {
			return ret(0, fmt.Errorf("c05: batch of %d rows does not fit a read of %d", len(b), args[2].Len()))
		}
		for j, ri := range b {
			for c := range d.Types {
				args[2+c].Index(j).Set(d.Rows[ri].Key[c].Go())
			}
			args[2+len(d.Types)].Index(j).SetInt(int64(ri))
		}
		return ret(len(b), nil)
	})
	var s bigslice.Slice = bigslice.ReaderFunc(nshard, read.Interface())
	if d.Prefix > 1 && !d.Rekey {
		s = bigslice.Prefixed(s, d.Prefix)
	}
	return s
}

// record appends a writer recording the first nkey columns of s with the shard.
func record(d *Desc, s bigslice.Slice, nkey int) bigslice.Slice {
	return recordAs(d, s, nkey, recID(d, -1))
}

// recID is the recorder slot of a case: slot 0 for plain programs, 1+i for
// operator i of a pair program.
func recID(d *Desc, which int) int { return d.ID*4 + 1 + which }

func recordAs(d *Desc, s bigslice.Slice, nkey int, id int) bigslice.Slice {
	in := []reflect.Type{typeOfInt, typeOfInt, typeOfError}
	for c := 0; c < s.NumOut(); c++ {
		in = append(in, reflect.SliceOf(s.Out(c)))
	}
	ft := reflect.FuncOf(in, []reflect.Type{typeOfError}, false)
	types := append(append([]string(nil), d.Types...), "int") // the row number column follows the key columns
	w := reflect.MakeFunc(ft, func(args []reflect.Value) []reflect.Value {
		shard := int(args[0].Int())
		n := args[3].Len()
		outs := make([]Out, 0, n)
		for i := 0; i < n; i++ {
			k := make([]Val, nkey)
			for c := 0; c < nkey; c++ {
				k[c] = valOf(types[c], args[3+c].Index(i))
			}
			outs = append(outs, Out{Shard: shard, Key: k})
		}
		recMu.Lock()
		rec[id] = append(rec[id], outs...)
		recMu.Unlock()
		return []reflect.Value{nilError}
	})
	return bigslice.WriterFunc(s, w.Interface())
}

// repartitionBy wraps s in a Repartition whose function returns want(row).
func repartitionBy(d *Desc, s bigslice.Slice, want func(r *Row) int) bigslice.Slice {
	in := []reflect.Type{typeOfInt}
	for c := 0; c < s.NumOut(); c++ {
		in = append(in, s.Out(c))
	}
	ft := reflect.FuncOf(in, []reflect.Type{typeOfInt}, false)
	fn := reflect.MakeFunc(ft, func(args []reflect.Value) []reflect.Value {
		ri := int(args[len(args)-1].Int()) // the row number column
		return []reflect.Value{reflect.ValueOf(want(&d.Rows[ri]))}
	})
	return bigslice.Repartition(s, fn.Interface())
}

// buildPair: the same slice value s shuffled twice with equal shard counts, by
// the default hash partitioner and/or custom functions; (shard, key) recorded
// after each operator; Cogroup joins the two so that both are one invocation
// and fixes the order in which they are compiled.
func buildPair(d *Desc) bigslice.Slice {
	s := input(d, 0)
	var sides [2]bigslice.Slice
	for i, op := range d.Pair {
		switch op {
		case "reshuffle":
			sides[i] = recordAs(d, bigslice.Reshuffle(s), d.Prefix, recID(d, i))
		case "repartition":
			sides[i] = recordAs(d, repartitionBy(d, s, func(r *Row) int { return r.Want }), len(d.Types)+1, recID(d, i))
		case "repartition2":
			sides[i] = recordAs(d, repartitionBy(d, s, func(r *Row) int { return r.Want2 }), len(d.Types)+1, recID(d, i))
		default:
			panic("unknown pair op " + op)
		}
	}
	return bigslice.Cogroup(sides[0], sides[1])
}

// buildStage1 is invocation 1 of a re-keyed result program: the input keyed by
// its first K columns, reduced if that is typeable; all columns recorded.
func buildStage1(d *Desc) bigslice.Slice {
	s := bigslice.Prefixed(input(d, 0), d.K)
	if d.K == len(d.Types) { // exactly one value column (the row number) is left
		s = bigslice.Reduce(s, func(a, b int) int { return a + b })
	}
	return recordAs(d, s, len(d.Types)+1, recID(d, 0))
}

// buildStage2 is invocation 2: the operator applied directly to the re-keyed result.
func buildStage2(d *Desc, res bigslice.Slice) bigslice.Slice {
	in0 := bigslice.Prefixed(res, d.J)
	switch d.Op {
	case "reshuffle":
		return record(d, bigslice.Reshuffle(in0), d.J)
	case "reshard":
		return record(d, bigslice.Reshard(in0, d.NOut), d.J)
	case "cogroup":
		return record(d, bigslice.Cogroup(in0), d.J)
	case "reduce":
		return record(d, bigslice.Reduce(in0, func(a, b int) int { return a + b }), d.J)
	case "fold":
		in := []reflect.Type{typeOfInt}
		for c := 1; c < in0.NumOut(); c++ {
			in = append(in, in0.Out(c))
		}
		ft := reflect.FuncOf(in, []reflect.Type{typeOfInt}, false)
		fn := reflect.MakeFunc(ft, func(args []reflect.Value) []reflect.Value {
			return []reflect.Value{reflect.ValueOf(int(args[0].Int()) + 1)}
		})
		return record(d, bigslice.Fold(in0, fn.Interface()), 1)
	}
	panic("unknown re-keyed op " + d.Op)
}

// build constructs the program of an e2e case.
func build(d *Desc) bigslice.Slice {
	if len(d.Pair) == 2 {
		return buildPair(d)
	}
	switch d.Op {
	case "reduce":
		s := bigslice.Reduce(input(d, 0), func(a, b int) int { return a + b })
		return record(d, s, d.Prefix)
	case "fold":
		in0 := input(d, 0)
		// func(acc int, t2, ..., tn) int
		in := []reflect.Type{typeOfInt}
		for c := 1; c < in0.NumOut(); c++ {
			in = append(in, in0.Out(c))
		}
		ft := reflect.FuncOf(in, []reflect.Type{typeOfInt}, false)
		fn := reflect.MakeFunc(ft, func(args []reflect.Value) []reflect.Value {
			return []reflect.Value{reflect.ValueOf(int(args[0].Int()) + 1)}
		})
		return record(d, bigslice.Fold(in0, fn.Interface()), 1)
	case "cogroup":
		return record(d, bigslice.Cogroup(input(d, 0), input(d, 1)), d.Prefix)
	case "reshuffle":
		return record(d, bigslice.Reshuffle(input(d, 0)), d.Prefix)
	case "reshard":
		return record(d, bigslice.Reshard(input(d, 0), d.NOut), d.Prefix)
	case "repartition":
		s := repartitionBy(d, input(d, 0), func(r *Row) int { return r.Want })
		return record(d, s, len(d.Types)+1)
	}
	panic("unknown op " + d.Op)
}

// nPart is the number of partitions of the shuffle in front of the operator.
func nPart(d *Desc) int {
	switch d.Op {
	case "reshard":
		return d.NOut
	case "cogroup":
		if len(d.NIn) > 1 && d.NIn[1] > d.NIn[0] {
			return d.NIn[1]
		}
	}
	return d.NIn[0]
}

var prog = bigslice.Func(func(js string) bigslice.Slice {
	var d Desc
	if err := json.Unmarshal([]byte(js), &d); err != nil {
		panic(err)
	}
	return build(&d)
})

var prog1 = bigslice.Func(func(js string) bigslice.Slice {
	var d Desc
	if err := json.Unmarshal([]byte(js), &d); err != nil {
		panic(err)
	}
	return buildStage1(&d)
})

var prog2 = bigslice.Func(func(js string, res bigslice.Slice) bigslice.Slice {
	var d Desc
	if err := json.Unmarshal([]byte(js), &d); err != nil {
		panic(err)
	}
	return buildStage2(&d, res)
})

var sessions = map[string]*exec.Session{}

func session(kind string) *exec.Session {
	if s, ok := sessions[kind]; ok {
		return s
	}
	var s *exec.Session
	switch kind {
	case "local":
		s = exec.Start(exec.Local)
	case "bigmachine":
		s = exec.Start(exec.Bigmachine(testsystem.New()), exec.Parallelism(4))
	case "bigmachine-mc":
		s = exec.Start(exec.Bigmachine(testsystem.New()), exec.Parallelism(4), exec.MachineCombiners)
	default:
		panic("unknown executor " + kind)
	}
	sessions[kind] = s
	return s
}

func runE2E(d *Desc) (o Obs) {
	if err := flag.Set("bigslice-internal-default-chunk-rows", fmt.Sprint(d.Chunk)); err != nil {
		panic(err)
	}
	js, _ := json.Marshal(d)
	slot := recID(d, -1)
	if len(d.Pair) == 2 {
		slot = recID(d, d.Which)
	}
	clearRec := func() {
		for w := -1; w < 2; w++ {
			delete(rec, recID(d, w))
		}
	}
	recMu.Lock()
	clearRec()
	recMu.Unlock()
	done := make(chan error, 1)
	go func() {
		defer func() {
			if r := recover(); r != nil {
				done <- fmt.Errorf("panic: %v", r)
			}
		}()
		if d.Rekey {
			sess := session(d.Exec)
			res, err := sess.Run(context.Background(), prog1, string(js))
			if err == nil {
				_, err = sess.Run(context.Background(), prog2, string(js), res)
			}
			done <- err
			return
		}
		_, err := session(d.Exec).Run(context.Background(), prog, string(js))
		done <- err
	}()
	var err error
	select {
	case err = <-done:
	case <-time.After(60 * time.Second): // watchdog: a hang is an observation
		err = fmt.Errorf("watchdog: run did not finish")
		delete(sessions, d.Exec) // the session is wedged; later cases get a fresh one
	}
	if err != nil {
		o.Failed = true
		o.Err = strings.SplitN(err.Error(), "\n", 2)[0]
		if len(o.Err) > 160 {
			o.Err = o.Err[:160]
		}
		return o
	}
	recMu.Lock()
	o.Outs = append([]Out(nil), rec[slot]...)
	if d.Rekey {
		o.Stage1 = append([]Out(nil), rec[recID(d, 0)]...)
	}
	clearRec()
	recMu.Unlock()
	sortOuts(o.Stage1)
	// An aggregating operator emits one of the Go-equal keys it merged (+0.0 or
	// -0.0, whichever row came first: goroutine order); the representative is not
	// fixed by anything, so it is canonicalised to +0.0.
	if d.Op == "reduce" || d.Op == "cogroup" || d.Op == "fold" {
		for i := range o.Outs {
			for c, v := range o.Outs[i].Key {
				if (v.T == "float32" && v.U == 1<<31) || (v.T == "float64" && v.U == 1<<63) {
					o.Outs[i].Key[c].U = 0
				}
			}
		}
	}
	sortOuts(o.Outs)
	return o
}

func sortOuts(outs []Out) {
	sort.SliceStable(outs, func(i, j int) bool {
		if outs[i].Shard != outs[j].Shard {
			return outs[i].Shard < outs[j].Shard
		}
		return keyCoq(outs[i].Key) < keyCoq(outs[j].Key)
	})
}

func run(d *Desc) (o Obs) {
	defer func() {
		if r := recover(); r != nil {
			o = Obs{Failed: true, Err: fmt.Sprintf("panic: %v", r)}
		}
	}()
	switch d.Kind {
	case "hash", "xproc":
		return runHash(d)
	case "range":
		return runRange(d)
	case "e2e":
		return runE2E(d)
	}
	panic("unknown kind " + d.Kind)
}

// ---------------------------------------------------------------- Coq terms

var opCoq = map[string]string{"reduce": "OReduce", "fold": "OFold", "cogroup": "OCogroup",
	"reshuffle": "OReshuffle", "reshard": "OReshard", "repartition": "ORepartition"}

func outsCoq(outs []Out) string {
	ss := make([]string, len(outs))
	for i, o := range outs {
		ss[i] = vf.App("mkOut", keyCoq(o.Key), vf.Z(int64(o.Shard)))
	}
	return vf.List(ss)
}

func term(d *Desc, o Obs, other *Obs) string {
	switch d.Kind {
	case "hash":
		hs := o.Hashes
		if other != nil {
			hs = append(append([]uint32(nil), hs...), other.Hashes...)
		}
		return vf.App("CHash", keyCoq(d.Key), fmt.Sprint(d.Seed), u32list(hs))
	case "xproc":
		var second []uint32
		if other != nil && !other.Failed {
			second = other.Hashes
		}
		return vf.App("CCross", keyCoq(d.Key), fmt.Sprint(d.Seed), vf.IntList(d.NS), u32list(o.Hashes), u32list(second))
	case "range":
		// the second observation: placement B, or any observation of the second
		// process that disagrees with placement A
		b := o.HashesB
		if other != nil && reflect.DeepEqual(o.Hashes, o.HashesB) {
			if !reflect.DeepEqual(other.Hashes, o.Hashes) {
				b = other.Hashes
			} else if !reflect.DeepEqual(other.HashesB, o.Hashes) {
				b = other.HashesB
			}
		}
		return vf.App("CHashRange", map[string]string{"int8": "TInt8", "uint8": "TUint8", "int16": "TInt16", "uint16": "TUint16"}[d.T],
			fmt.Sprint(d.Seed), vf.Z(d.Lo), u32list(o.Hashes), u32list(b))
	case "e2e":
		// producers of all inputs, in input order; batches in order
		var prods []string
		if d.Rekey { // the producers are the shards of the first invocation's result
			for p := 0; p < d.NIn[0]; p++ {
				var rows []string
				for _, r := range o.Stage1 {
					if r.Shard == p {
						rows = append(rows, vf.App("mkIn", keyCoq(r.Key[:d.J]), "0"))
					}
				}
				prods = append(prods, vf.List([]string{vf.List(rows)}))
			}
		}
		for in := range d.NIn {
			if d.Rekey {
				break
			}
			for p := 0; p < d.NIn[in]; p++ {
				var batches [][]string
				for ri, r := range d.Rows {
					if r.In != in || r.P != p {
						continue
					}
					for len(batches) <= r.B {
						batches = append(batches, nil)
					}
					k := r.Key
					if d.Op == "repartition" { // Repartition's function sees the whole row
						k = append(append([]Val(nil), k...), Val{T: "int", U: uint64(ri)})
					}
					want := r.Want
					if len(d.Pair) == 2 && d.Pair[d.Which] == "repartition2" {
						want = r.Want2
					}
					batches[r.B] = append(batches[r.B], vf.App("mkIn", keyCoq(k), vf.Z(int64(want))))
				}
				bs := make([]string, len(batches))
				for i, b := range batches {
					bs[i] = vf.List(b)
				}
				prods = append(prods, vf.List(bs))
			}
		}
		oth := "None"
		if other != nil && !other.Failed {
			oth = vf.Some(outsCoq(other.Outs))
		}
		outs := o.Outs
		if o.Failed {
			outs = nil
		}
		return vf.App("CPart", opCoq[d.Op], vf.Z(int64(nPart(d))), vf.List(prods), vf.Bool(o.Failed), outsCoq(outs), oth)
	}
	panic("unknown kind")
}

// ---------------------------------------------------------------- generators

func genPlaces(r *vf.Rand, n int) []Place {
	ps := make([]Place, n)
	for i := range ps {
		size := r.Range(1, 40)
		off := r.Intn(size)
		ps[i] = Place{Size: size, Off: off, Idx: r.Intn(size - off)}
		if r.Chance(1, 4) {
			ps[i].Mode = 1
		}
	}
	// always one placement at the origin of a one-row frame
	ps[0] = Place{Size: 1}
	return ps
}

func genHash(r *vf.Rand, id int, types []string) Desc {
	d := Desc{Kind: "hash", ID: id, Fill: r.Uint64(), Extra: r.Intn(2)}
	for _, t := range types {
		d.Key = append(d.Key, randVal(r, t, true))
	}
	switch r.Intn(3) {
	case 0:
		d.Seed = 0
	case 1:
		d.Seed = []uint32{1, 0xFFFFFFFF, 0x80000000, 0x9747b28c}[r.Intn(4)]
	default:
		d.Seed = uint32(r.Uint64())
	}
	d.Places = genPlaces(r, r.Range(2, 4))
	return d
}

// genCross: keys whose hash is computed by this process and by a separately
// started one: every key type, strings and byte slices of the lengths around
// the block and small-buffer boundaries, and multi-column prefixes with a long
// string.
func genCross(r *vf.Rand, next func() int) []Desc {
	var ds []Desc
	add := func(key []Val) {
		d := Desc{Kind: "xproc", ID: next(), Key: key, Fill: r.Uint64(), Extra: r.Intn(2),
			NS: []int{2, 3, 7, 16, 1000}, Places: genPlaces(r, 2)}
		if r.Bool() {
			d.Seed = uint32(r.Uint64())
		}
		ds = append(ds, d)
	}
	bytesOf := func(n int) string {
		b := make([]byte, n)
		for i := range b {
			b[i] = byte('a' + r.Intn(26))
		}
		return hex.EncodeToString(b)
	}
	for _, t := range allTypes {
		add([]Val{randVal(r, t, true)})
		add([]Val{randVal(r, t, true)})
	}
	for _, t := range []string{"string", "bytes"} {
		for _, n := range []int{0, 1, 31, 32, 33, 64, 200} {
			add([]Val{{T: t, S: bytesOf(n)}})
		}
	}
	add([]Val{{T: "string", S: bytesOf(40)}, randVal(r, "int", true)})
	add([]Val{randVal(r, "int16", true), {T: "string", S: bytesOf(100)}, {T: "bytes", S: bytesOf(70)}})
	return ds
}

var e2eKeyTypes = [][]string{
	{"int"}, {"string"}, {"int64"}, {"int16"}, {"int8"}, {"uint8"}, {"uint16"}, {"int32"}, {"uint32"}, {"uint64"}, {"uint"},
	{"bytes"}, {"bool"}, {"float64"}, {"float32"}, {"uintptr"},
	{"string", "int"}, {"int", "int16"}, {"int8", "bool"}, {"bytes", "float64"}, {"uint16", "string"},
	{"int", "string", "int32"}, {"bool", "int8", "uint64"},
}

func genE2E(r *vf.Rand, id int, op, ex string, oob bool) Desc {
	d := Desc{Kind: "e2e", ID: id, Op: op, Exec: ex}
	switch op {
	case "fold": // key must be string, int or int64; the value columns follow
		d.Types = [][]string{{"string"}, {"int"}, {"int64"}}[r.Intn(3)]
	default:
		d.Types = e2eKeyTypes[r.Intn(len(e2eKeyTypes))]
	}
	d.Prefix = len(d.Types)
	d.Chunk = []int{1, 2, 3, 5, 8, 16, 128}[r.Intn(7)]
	if op == "reduce" { // the combiner's hash table is sized by the chunk size and wants a power of two
		d.Chunk = []int{8, 16, 64, 128}[r.Intn(4)]
	}
	nin := []int{1, 2, 3, 4, 5, 7, 8, 13}[r.Intn(8)]
	d.NIn = []int{nin}
	if op == "cogroup" {
		d.NIn = []int{nin, []int{1, 2, 3, 5, 8}[r.Intn(5)]}
	}
	if op == "reshard" {
		d.NOut = []int{1, 2, 3, 4, 6, 9, 16, 31}[r.Intn(8)]
		if d.NOut == nin { // Reshard returns its argument then: nothing is redistributed
			d.NOut++
		}
	}
	// a pool of distinct keys; rows draw from it so that keys recur across producers, batches and offsets
	pool := make([][]Val, r.Range(2, 14))
	for i := range pool {
		for _, t := range d.Types {
			pool[i] = append(pool[i], randVal(r, t, true))
		}
	}
	n := nPart(&d)
	nrows := r.Range(1, 60)
	for in := range d.NIn {
		fill := make([]int, d.NIn[in]) // rows in the current batch of each producer
		batch := make([]int, d.NIn[in])
		for i := 0; i < nrows; i++ {
			p := r.Intn(d.NIn[in])
			if fill[p] >= d.Chunk || (fill[p] > 0 && r.Chance(1, 4)) {
				batch[p]++
				fill[p] = 0
			}
			fill[p]++
			row := Row{In: in, P: p, B: batch[p], Key: pool[r.Intn(len(pool))]}
			d.Rows = append(d.Rows, row)
		}
	}
	if op == "repartition" {
		for i := range d.Rows {
			d.Rows[i].Want = r.Intn(n)
		}
		if oob { // one row whose function value is not a shard
			d.Rows[r.Intn(len(d.Rows))].Want = []int{-1, n, n + 3, -7}[r.Intn(4)]
		}
	}
	return d
}

// genPair: a program in which one slice value is shuffled twice with the same
// shard count (see Desc.Pair). Few distinct keys and independent function values,
// so that a producer wrongly shared between the two consumers shows: equal keys
// with different function values, rows whose function value differs from their
// hash shard and from the other function's value.
func genPair(r *vf.Rand, id int, pair [2]string, which int, ex string) Desc {
	d := Desc{Kind: "e2e", ID: id, Exec: ex, Pair: pair[:], Which: which}
	d.Op = strings.TrimSuffix(pair[which], "2")
	d.Types = e2eKeyTypes[r.Intn(len(e2eKeyTypes))]
	d.Prefix = len(d.Types)
	d.Chunk = []int{2, 5, 16, 128}[r.Intn(4)]
	n := []int{2, 3, 4, 5, 8}[r.Intn(5)]
	d.NIn = []int{n}
	pool := make([][]Val, r.Range(2, 6))
	for i := range pool {
		for _, t := range d.Types {
			pool[i] = append(pool[i], randVal(r, t, true))
		}
	}
	nrows := r.Range(12, 40)
	fill := make([]int, n)
	batch := make([]int, n)
	for i := 0; i < nrows; i++ {
		p := r.Intn(n)
		if fill[p] >= d.Chunk || (fill[p] > 0 && r.Chance(1, 4)) {
			batch[p]++
			fill[p] = 0
		}
		fill[p]++
		d.Rows = append(d.Rows, Row{P: p, B: batch[p], Key: pool[r.Intn(len(pool))], Want: r.Intn(n), Want2: r.Intn(n)})
	}
	return d
}

var rekeyTypes = [][]string{
	{"string", "int"}, {"int", "int16"}, {"int64", "string"}, {"string", "uint8", "int"},
	{"int", "bool", "string"}, {"string", "float64"}, {"int", "bytes", "int8"},
}

// genRekey: a re-keyed result program (see Desc.Rekey). rel says how the
// consumer's prefix J relates to the result's prefix K: smaller (the interesting
// case: rows with equal new key differ in the dropped key columns), equal, or
// larger (controls). Every column draws from a pool of two or three values, and
// the last column is the row number, so equal J-prefixes with different
// K-prefixes abound. ok is false when the combination cannot be typed.
func genRekey(r *vf.Rand, id int, op string, rel int, ex string) (Desc, bool) {
	d := Desc{Kind: "e2e", ID: id, Op: op, Exec: ex, Rekey: true}
	d.Types = rekeyTypes[r.Intn(len(rekeyTypes))]
	if op == "reduce" && rel > 0 {
		d.Types = rekeyTypes[3+r.Intn(2)] // needs K < J = ncols-1: four columns
		if r.Bool() {
			d.Types = rekeyTypes[6]
		}
	}
	ncols := len(d.Types) + 1
	switch op {
	case "reduce": // exactly one value column after the prefix
		d.J = ncols - 1
	case "fold": // folds by the first column (string, int or int64 in every rekeyTypes entry)
		d.J = 1
	case "cogroup":
		d.J = r.Range(1, ncols-1)
	default:
		d.J = r.Range(1, ncols)
	}
	switch {
	case rel < 0:
		if d.J == ncols {
			d.J--
		}
		d.K = r.Range(d.J+1, ncols)
	case rel == 0:
		d.K = d.J
	default:
		if d.J == 1 {
			if op == "fold" {
				return d, false
			}
			d.J = 2
		}
		d.K = r.Range(1, d.J-1)
	}
	d.Prefix = d.J
	d.Chunk = []int{8, 16, 64, 128}[r.Intn(4)] // a Reduce may be involved: the combiner wants a power of two
	n := []int{2, 3, 4, 5, 7}[r.Intn(5)]
	d.NIn = []int{n}
	if op == "reshard" {
		d.NOut = []int{2, 3, 4, 6, 9}[r.Intn(5)]
		if d.NOut == n {
			d.NOut++
		}
	}
	pools := make([][]Val, len(d.Types))
	for c, t := range d.Types {
		for i := 0; i < r.Range(2, 3); i++ {
			pools[c] = append(pools[c], randVal(r, t, false))
		}
	}
	nrows := r.Range(16, 40)
	fill := make([]int, n)
	batch := make([]int, n)
	for i := 0; i < nrows; i++ {
		p := r.Intn(n)
		if fill[p] >= d.Chunk || (fill[p] > 0 && r.Chance(1, 4)) {
			batch[p]++
			fill[p] = 0
		}
		fill[p]++
		key := make([]Val, len(d.Types))
		for c := range key {
			key[c] = pools[c][r.Intn(len(pools[c]))]
		}
		d.Rows = append(d.Rows, Row{P: p, B: batch[p], Key: key})
	}
	return d, true
}

// aimed cases for the two defects found while modelling (kept in the model; see
// the final report): they carry their own signatures.
func aimed(id *int, ex string) []Desc {
	s := func(x string) Val { return Val{T: "string", S: hex.EncodeToString([]byte(x))} }
	i := func(x int) Val { return Val{T: "int", U: uint64(int64(x))} }
	var ds []Desc
	next := func() int { *id++; return *id }
	// Fold over a slice whose prefix is 2: shuffled by (col0, col1), folded by col0
	fold := Desc{Kind: "e2e", ID: next(), Op: "fold", Exec: ex, Types: []string{"string", "int"}, Prefix: 2,
		NIn: []int{3}, Chunk: 128, Tag: "fold-prefixed-input"}
	for k := 0; k < 6; k++ {
		fold.Rows = append(fold.Rows, Row{P: k % 3, Key: []Val{s("a"), i(k + 1)}})
	}
	ds = append(ds, fold)
	// +0.0 and -0.0 are equal keys: they must meet in one shard and be aggregated
	// together (ordinary cases since the float hash normalises -0.0; a split would
	// be an unlisted violation)
	for _, t := range []string{"float64", "float32"} {
		f := func(x float64) Val {
			if t == "float32" {
				return Val{T: t, U: uint64(math.Float32bits(float32(x)))}
			}
			return Val{T: t, U: math.Float64bits(x)}
		}
		nz := math.Copysign(0, -1)
		keys := []float64{0, nz, 0, nz, 1, 1, 2, 2, nz, 0}
		for _, n := range []int{4, 7} {
			red := Desc{Kind: "e2e", ID: next(), Op: "reduce", Exec: ex, Types: []string{t}, Prefix: 1,
				NIn: []int{n}, Chunk: 128}
			cog := Desc{Kind: "e2e", ID: next(), Op: "cogroup", Exec: ex, Types: []string{t}, Prefix: 1,
				NIn: []int{n, 3}, Chunk: 16}
			for k, x := range keys {
				red.Rows = append(red.Rows, Row{P: k % n, Key: []Val{f(x)}})
				cog.Rows = append(cog.Rows, Row{In: k % 2, P: k % 3, Key: []Val{f(x)}})
			}
			ds = append(ds, red, cog)
		}
	}
	return ds
}

func generate(opts vf.Opts) []Desc {
	root := vf.NewRand(opts.Seed)
	thorough := opts.Tier == "thorough"
	var ds []Desc
	id := 0
	next := func() int { id++; return id }
	// --- 8- and 16-bit sweeps
	seeds := []uint32{0}
	if thorough {
		seeds = []uint32{0, uint32(root.Split().Uint64())}
	}
	for _, seed := range seeds {
		for _, t := range []string{"int8", "uint8"} { // complete in both tiers
			lo := int64(0)
			if t == "int8" {
				lo = -128
			}
			ds = append(ds, Desc{Kind: "range", ID: next(), T: t, Seed: seed, Lo: lo, N: 256})
		}
		for _, t := range []string{"int16", "uint16"} {
			lo := int64(0)
			if t == "int16" {
				lo = -32768
			}
			if thorough {
				for k := int64(0); k < 256; k++ {
					ds = append(ds, Desc{Kind: "range", ID: next(), T: t, Seed: seed, Lo: lo + 256*k, N: 256})
				}
			} else {
				r := root.Split()
				for k := 0; k < 5*opts.Scale; k++ {
					ds = append(ds, Desc{Kind: "range", ID: next(), T: t, Seed: seed, Lo: lo + int64(r.Intn(65536-256+1)), N: 256})
				}
			}
		}
	}
	// --- the compact set recomputed by a second OS process in every tier
	ds = append(ds, genCross(root.Split(), next)...)
	// --- single keys of every type, 2- and 3-column prefixes
	nhash := 40
	if thorough {
		nhash = 600
	}
	nhash *= opts.Scale
	for _, t := range allTypes {
		for k := 0; k < nhash; k++ {
			ds = append(ds, genHash(root.Split(), next(), []string{t}))
		}
	}
	for k := 0; k < 6*nhash; k++ {
		r := root.Split()
		nc := r.Range(2, 3)
		ts := make([]string, nc)
		for c := range ts {
			ts[c] = allTypes[r.Intn(len(allTypes))]
		}
		ds = append(ds, genHash(r, next(), ts))
	}
	// --- end to end
	ne2e := 8
	if thorough {
		ne2e = 60
	}
	ne2e *= opts.Scale
	execs := []string{"local", "bigmachine"}
	for _, op := range []string{"reduce", "fold", "cogroup", "reshuffle", "reshard", "repartition"} {
		for k := 0; k < ne2e; k++ {
			ex := execs[k%2]
			if op == "reduce" && k%4 == 3 {
				ex = "bigmachine-mc"
			}
			ds = append(ds, genE2E(root.Split(), next(), op, ex, k%3 == 2))
		}
	}
	// --- one slice shuffled twice in one invocation (both compile orders, both executors)
	pairOps := []string{"reshuffle", "repartition", "repartition2"}
	npair := 1
	if thorough {
		npair = 6
	}
	npair *= opts.Scale
	for k := 0; k < npair; k++ {
		for _, a := range pairOps {
			for _, b := range pairOps {
				if a == b {
					continue
				}
				for _, ex := range execs {
					seed := root.Split().Uint64()
					for which := 0; which < 2; which++ { // the same program, observed after either operator
						ds = append(ds, genPair(vf.NewRand(seed), next(), [2]string{a, b}, which, ex))
					}
				}
			}
		}
	}
	// --- a *Result of one invocation re-keyed and redistributed by a second one
	nrekey := 1
	if thorough {
		nrekey = 8
	}
	nrekey *= opts.Scale
	for k := 0; k < nrekey; k++ {
		for _, op := range []string{"reshuffle", "reshard", "cogroup", "reduce", "fold"} {
			for _, rel := range []int{-1, 0, 1} { // J < K, J = K, J > K
				for _, ex := range execs {
					if d, ok := genRekey(root.Split(), next(), op, rel, ex); ok {
						ds = append(ds, d)
					}
				}
			}
		}
	}
	for _, ex := range execs {
		ds = append(ds, aimed(&id, ex)...)
	}
	return ds
}

// ---------------------------------------------------------------- main

func nontriv(d *Desc, t string) string {
	switch d.Kind {
	case "hash":
		for _, p := range d.Places {
			if p.Off > 0 || p.Idx > 0 {
				return vf.Hash(keyCoq(d.Key) + fmt.Sprint(d.Seed))
			}
		}
	case "range":
		return vf.Hash(fmt.Sprint(d.T, d.Lo, d.Seed))
	case "xproc":
		return vf.Hash(keyCoq(d.Key) + fmt.Sprint(d.Seed))
	case "e2e":
		// some key has rows in two producers
		seen := map[string]int{}
		for _, r := range d.Rows {
			k := keyCoq(r.Key)
			if p, ok := seen[k]; ok && p != r.P+1000*r.In {
				return vf.Hash(t)
			}
			seen[k] = r.P + 1000*r.In
		}
	}
	return ""
}

func kindOf(d *Desc) string {
	switch d.Kind {
	case "hash", "xproc":
		ts := make([]string, len(d.Key))
		for i, v := range d.Key {
			ts[i] = v.T
		}
		if len(ts) > 1 {
			return fmt.Sprintf("%s/%d-col", d.Kind, len(ts))
		}
		return d.Kind + "/" + ts[0]
	case "range":
		return "range/" + d.T
	}
	if d.Rekey {
		rel := "j=k"
		if d.J < d.K {
			rel = "j<k"
		} else if d.J > d.K {
			rel = "j>k"
		}
		return fmt.Sprintf("e2e/rekeyed-result:%s:%s/%s", d.Op, rel, d.Exec)
	}
	if len(d.Pair) == 2 {
		return fmt.Sprintf("e2e/pair:%s+%s@%d/%s", d.Pair[0], d.Pair[1], d.Which, d.Exec)
	}
	return "e2e/" + d.Op + "/" + d.Exec
}

func sigOf(d *Desc) string {
	if d.Tag != "" {
		return d.Tag
	}
	if d.Kind == "xproc" {
		return "cross-process-hash"
	}
	if d.Kind == "e2e" && d.Rekey {
		return "e2e-rekeyed-result-" + d.Op
	}
	if d.Kind == "e2e" && len(d.Pair) == 2 {
		return "e2e-pair-" + d.Pair[0] + "+" + d.Pair[1]
	}
	if d.Kind == "e2e" {
		return "e2e-" + d.Op
	}
	return d.Kind
}

func main() {
	child := flag.String("child", "", "internal: read descs from this file, write observations to -childout")
	childOut := flag.String("childout", "", "internal: where the child writes its observations")
	opts := vf.ParseFlags()
	log.SetOutput(os.Stderr)
	if *child != "" {
		data, err := os.ReadFile(*child)
		if err != nil {
			fmt.Fprintln(os.Stderr, err)
			os.Exit(2)
		}
		var ds []Desc
		if err := json.Unmarshal(data, &ds); err != nil {
			fmt.Fprintln(os.Stderr, err)
			os.Exit(2)
		}
		obs := make([]Obs, len(ds))
		for i := range ds {
			obs[i] = run(&ds[i])
		}
		js, _ := json.Marshal(obs)
		if err := os.WriteFile(*childOut, js, 0o644); err != nil {
			fmt.Fprintln(os.Stderr, err)
			os.Exit(2)
		}
		return
	}
	out := &vf.Output{ID: "C05", Import: "BS.C05.Corr",
		Rule: "hash cases: a key (16 column types, 1-3 column prefixes, random seeds) hashed through frame.Frame at 2-4 placements; " +
			"range cases: 256 consecutive 8/16-bit keys at two placements; e2e cases: Reduce/Fold/Cogroup/Reshuffle/Reshard/Repartition " +
			"on the local and bigmachine(testsystem) executors with (shard,key) recorded by a WriterFunc. non-trivial = a hash case with a " +
			"placement at offset or index > 0, a range case, or an e2e case in which some key has rows in two producers; distinct by key/term",
		Extra: map[string]interface{}{}}
	var descs []Desc
	if opts.Replay != "" {
		if err := vf.LoadReplay(opts.Replay, &descs); err != nil {
			fmt.Fprintln(os.Stderr, err)
			os.Exit(2)
		}
		for i := range descs { // ids must be distinct within a run
			descs[i].ID = i + 1
		}
	} else {
		descs = generate(opts)
	}
	obs := make([]Obs, len(descs))
	for i := range descs {
		obs[i] = run(&descs[i])
	}
	// (iii) second OS process: every case in the thorough tier, the compact
	// cross-process set (kind xproc) always
	others := make([]*Obs, len(descs))
	var send []int
	for i := range descs {
		if opts.Tier == "thorough" || descs[i].Kind == "xproc" {
			send = append(send, i)
		}
	}
	if len(send) > 0 {
		dir, err := os.MkdirTemp("", "c05-child")
		if err != nil {
			fmt.Fprintln(os.Stderr, err)
			os.Exit(2)
		}
		defer os.RemoveAll(dir)
		sub := make([]Desc, len(send))
		for k, i := range send {
			sub[k] = descs[i]
		}
		js, _ := json.Marshal(sub)
		in := dir + "/descs.json"
		if err := os.WriteFile(in, js, 0o644); err != nil {
			fmt.Fprintln(os.Stderr, err)
			os.Exit(2)
		}
		var got []Obs
		cmd := osexec.Command(os.Args[0], "-child", in, "-childout", dir+"/obs.json")
		err = cmd.Run()
		if err == nil {
			var data []byte
			if data, err = os.ReadFile(dir + "/obs.json"); err == nil {
				err = json.Unmarshal(data, &got)
			}
		}
		if err != nil || len(got) != len(send) {
			fmt.Fprintln(os.Stderr, "c05: second process failed:", err)
			os.Exit(2)
		}
		for k, i := range send {
			others[i] = &got[k]
		}
		out.Notes = append(out.Notes, fmt.Sprintf("recomputed in a second OS process (pid differs, fresh sessions): %d cases", len(send)))
		out.Extra["second_process_cases"] = len(send)
	}
	if opts.Tier == "thorough" {
		out.Extra["second_process"] = true
		out.Extra["exhaustive"] = true // all 2^8 and 2^16 keys of int8/uint8/int16/uint16 enumerated above
		out.Extra["exhaustive_what"] = "all int8, uint8, int16, uint16 key values under seed 0 and one random seed"
	} else {
		out.Extra["exhaustive_what"] = "all int8 and uint8 key values (seed 0); int16/uint16 sampled"
	}
	for i := range descs {
		d := &descs[i]
		oth := others[i]
		t := term(d, obs[i], oth)
		var observed interface{} = obs[i]
		if d.Kind != "e2e" {
			observed = fmt.Sprintf("%d hashes", len(obs[i].Hashes)+len(obs[i].HashesB))
		}
		out.Add(vf.Case{Term: t, Desc: d, Sig: sigOf(d), Nontriv: nontriv(d, t), Kind: kindOf(d), Observed: observed})
	}
	if err := out.Write(opts.Out, opts); err != nil {
		fmt.Fprintln(os.Stderr, err)
		os.Exit(2)
	}
}

// Command c11 drives the public frame API with sequences of operations on a
// pool of views sharing storage, dumps every cell of every allocation after
// every step and writes the Coq case file judged by coq/C11/Corr.v.
package main

import (
	"fmt"
	"os"
	"reflect"
	"sort"
	"strconv"

	"github.com/grailbio/bigslice/frame"
	"github.com/grailbio/bigslice/slicetype"
	"verifharness/vf"
)

// ---------------------------------------------------------------- column types

type pair struct {
	A int
	S string
}

// vint has a registered custom codec (Encode/Decode on index ranges).
type vint int

type enc struct{ vals []int64 }

func (e *enc) State(frame.Key, interface{}) bool { return false }
func (e *enc) Encode(v interface{}) error        { e.vals = append(e.vals, int64(v.(vint))); return nil }

type dec struct{ vals []int64 }

func (d *dec) State(frame.Key, interface{}) bool { return false }
func (d *dec) Decode(v interface{}) error {
	*(v.(*vint)) = vint(d.vals[0])
	d.vals = d.vals[1:]
	return nil
}

func init() {
	frame.RegisterOps(func(slice []vint) frame.Ops {
		return frame.Ops{
			Less:         func(i, j int) bool { return slice[i] < slice[j] },
			HashWithSeed: func(i int, seed uint32) uint32 { return uint32(slice[i]) + seed },
			Encode: func(e frame.Encoder, i, j int) error {
				for k := i; k < j; k++ {
					if err := e.Encode(slice[k]); err != nil {
						return err
					}
				}
				return nil
			},
			Decode: func(d frame.Decoder, i, j int) error {
				for k := i; k < j; k++ {
					if err := d.Decode(&slice[k]); err != nil {
						return err
					}
				}
				return nil
			},
		}
	})
}

var ptrPool = func() []*int {
	p := make([]*int, 64)
	for i := range p {
		v := i
		p[i] = &v
	}
	return p
}()

const bad = -7777 // a cell whose Go value is not one the harness ever wrote

type colType struct {
	name string
	typ  reflect.Type
	key  bool // has Less
	mk   func(z int64) reflect.Value
	toZ  func(v reflect.Value) int64
}

func str(prefix string, z int64) string {
	if z == 0 {
		return ""
	}
	return fmt.Sprintf("%s%03d", prefix, z)
}
func unstr(prefix, s string) int64 {
	if s == "" {
		return 0
	}
	if len(s) != len(prefix)+3 || s[:len(prefix)] != prefix {
		return bad
	}
	n, err := strconv.Atoi(s[len(prefix):])
	if err != nil {
		return bad
	}
	return int64(n)
}

var colTypes = []colType{
	{"int", reflect.TypeOf(int(0)), true,
		func(z int64) reflect.Value { return reflect.ValueOf(int(z)) },
		func(v reflect.Value) int64 { return v.Int() }},
	{"int8", reflect.TypeOf(int8(0)), true,
		func(z int64) reflect.Value { return reflect.ValueOf(int8(z)) },
		func(v reflect.Value) int64 { return v.Int() }},
	{"string", reflect.TypeOf(""), true,
		func(z int64) reflect.Value { return reflect.ValueOf(str("s", z)) },
		func(v reflect.Value) int64 { return unstr("s", v.String()) }},
	{"bytes", reflect.TypeOf([]byte(nil)), true,
		func(z int64) reflect.Value {
			if z == 0 {
				return reflect.ValueOf([]byte(nil))
			}
			return reflect.ValueOf([]byte(str("b", z)))
		},
		func(v reflect.Value) int64 { return unstr("b", string(v.Bytes())) }},
	{"pair", reflect.TypeOf(pair{}), false,
		func(z int64) reflect.Value { return reflect.ValueOf(pair{int(z), str("p", z)}) },
		func(v reflect.Value) int64 {
			p := v.Interface().(pair)
			if unstr("p", p.S) != int64(p.A) {
				return bad
			}
			return int64(p.A)
		}},
	{"ints", reflect.TypeOf([]int(nil)), false,
		func(z int64) reflect.Value {
			if z == 0 {
				return reflect.ValueOf([]int(nil))
			}
			return reflect.ValueOf([]int{int(z), int(z) + 1})
		},
		func(v reflect.Value) int64 {
			s := v.Interface().([]int)
			if len(s) == 0 {
				return 0
			}
			if len(s) != 2 || s[1] != s[0]+1 {
				return bad
			}
			return int64(s[0])
		}},
	{"ptr", reflect.TypeOf((*int)(nil)), false,
		func(z int64) reflect.Value { // 0 -> nil
			if z == 0 {
				return reflect.ValueOf((*int)(nil))
			}
			return reflect.ValueOf(ptrPool[z])
		},
		func(v reflect.Value) int64 {
			p := v.Interface().(*int)
			if p == nil {
				return 0
			}
			return int64(*p)
		}},
	// two-byte elements: the values differ in their high bytes too
	{"int16", reflect.TypeOf(int16(0)), true,
		func(z int64) reflect.Value { return reflect.ValueOf(int16(z * 259)) },
		func(v reflect.Value) int64 {
			if v.Int()%259 != 0 {
				return bad
			}
			return v.Int() / 259
		}},
	{"u8x2", reflect.TypeOf([2]uint8{}), false,
		func(z int64) reflect.Value { return reflect.ValueOf([2]uint8{uint8(z), uint8(3 * z)}) },
		func(v reflect.Value) int64 {
			a := v.Interface().([2]uint8)
			if a[1] != uint8(3*int64(a[0])) {
				return bad
			}
			return int64(a[0])
		}},
	{"vint", reflect.TypeOf(vint(0)), true,
		func(z int64) reflect.Value { return reflect.ValueOf(vint(z)) },
		func(v reflect.Value) int64 { return v.Int() }},
}

func ctByName(n string) *colType {
	for i := range colTypes {
		if colTypes[i].name == n {
			return &colTypes[i]
		}
	}
	panic("unknown column type " + n)
}

// ---------------------------------------------------------------- ops

// Op is the JSON-able description of one operation (replayable).
type Op struct {
	K    string    `json:"k"`
	F    int       `json:"f,omitempty"`
	G    int       `json:"g,omitempty"` // second frame (src); -1 = zero Frame{} as dst
	I    int       `json:"i,omitempty"`
	J    int       `json:"j,omitempty"`
	C    int       `json:"c,omitempty"`
	Cols [][]int64 `json:"cols,omitempty"`
	Vals []int64   `json:"vals,omitempty"`
}

type Desc struct {
	Sig []string `json:"sig"`
	Ops []Op     `json:"ops"`
}

type view struct {
	f     frame.Frame
	alloc int
	off   int
}

type world struct {
	sig   []*colType
	pool  []view
	roots []frame.Frame // one full-extent view per allocation
	// allocations made of columns with unequal capacities (frame.Values) are dumped from the
	// columns themselves, each over its own capacity
	raw map[int][]reflect.Value
}

func (w *world) dumpHeap() string {
	as := make([]string, len(w.roots))
	for a, r := range w.roots {
		cs := make([]string, len(w.sig))
		if rc, ok := w.raw[a]; ok {
			for c, ct := range w.sig {
				full := rc[c].Slice(0, rc[c].Cap())
				col := make([]int64, full.Len())
				for i := range col {
					col[i] = ct.toZ(full.Index(i))
				}
				cs[c] = vf.ZList(col)
			}
			as[a] = vf.List(cs)
			continue
		}
		for c, ct := range w.sig {
			col := make([]int64, r.Len())
			for i := 0; i < r.Len(); i++ {
				col[i] = ct.toZ(r.Index(c, i))
			}
			cs[c] = vf.ZList(col)
		}
		as[a] = vf.List(cs)
	}
	return vf.List(as)
}

func base(f frame.Frame) uintptr { return uintptr(f.UnsafeIndexPointer(0, 0)) }

// addResult registers the frame g produced from parent p (nil = fresh) and
// returns the Coq term of the observed RFrame.
func (w *world) addResult(g frame.Frame, p *view, deltaOff int) string {
	var v view
	if p != nil && g.Cap() > 0 && p.f.Cap() > 0 && base(g) == base(p.f)+uintptr(deltaOff)*g.Out(0).Size() {
		v = view{g, p.alloc, p.off + deltaOff}
	} else if p != nil && (g.Cap() == 0 || p.f.Cap() == 0) && g.Cap() <= p.f.Cap() {
		// zero-capacity views carry no distinguishing pointer; they stay in the parent allocation
		v = view{g, p.alloc, p.off + deltaOff}
	} else {
		w.roots = append(w.roots, g.Slice(0, g.Cap()))
		v = view{g, len(w.roots) - 1, 0}
	}
	w.pool = append(w.pool, v)
	return vf.App("RFrame", vf.Nat(v.alloc), vf.Nat(v.off), vf.Nat(g.Len()), vf.Nat(g.Cap()), vf.Nat(g.Prefix()-1))
}

func optNat(i int) string {
	if i < 0 {
		return "None"
	}
	return vf.Some(vf.Nat(i))
}

// apply runs op on the real frames; returns the Coq op term and observed out term,
// or ok=false if the op is not applicable in this state (replay of shrunk cases).
func (w *world) apply(o Op) (opTerm, outTerm string, ok bool) {
	defer func() {
		if r := recover(); r != nil {
			outTerm, ok = "RPanic", opTerm != ""
		}
	}()
	valid := func(i int) bool { return i >= 0 && i < len(w.pool) }
	switch o.K {
	case "slices":
		if len(o.Cols) != len(w.sig) {
			return "", "", false
		}
		cols := make([]interface{}, len(w.sig))
		for c, ct := range w.sig {
			s := reflect.MakeSlice(reflect.SliceOf(ct.typ), len(o.Cols[c]), len(o.Cols[c]))
			for i, z := range o.Cols[c] {
				s.Index(i).Set(ct.mk(z))
			}
			cols[c] = s.Interface()
		}
		opTerm = vf.App("OSlices", vf.ZListList(o.Cols))
		g := frame.Slices(cols...)
		return opTerm, w.addResult(g, nil, 0), true
	case "values":
		if len(o.Cols) != len(w.sig) || len(o.Vals) != len(w.sig) {
			return "", "", false
		}
		cols := make([]reflect.Value, len(w.sig))
		extra := make([]int, len(w.sig))
		for c, ct := range w.sig {
			extra[c] = int(o.Vals[c])
			s := reflect.MakeSlice(reflect.SliceOf(ct.typ), len(o.Cols[c]), len(o.Cols[c])+extra[c])
			for i, z := range o.Cols[c] {
				s.Index(i).Set(ct.mk(z))
			}
			cols[c] = s
		}
		opTerm = vf.App("OValues", vf.ZListList(o.Cols), vf.NatList(extra))
		g := frame.Values(cols)
		if w.raw == nil {
			w.raw = map[int][]reflect.Value{}
		}
		w.raw[len(w.roots)] = cols
		return opTerm, w.addResult(g, nil, 0), true
	case "make":
		types := make([]reflect.Type, len(w.sig))
		for c, ct := range w.sig {
			types[c] = ct.typ
		}
		opTerm = vf.App("OMake", vf.Nat(len(w.sig)), vf.Nat(o.I), vf.Nat(o.J))
		g := frame.Make(slicetype.New(types...), o.I, o.J)
		return opTerm, w.addResult(g, nil, 0), true
	case "slice":
		if !valid(o.F) {
			return "", "", false
		}
		p := w.pool[o.F]
		opTerm = vf.App("OSlice", vf.Nat(o.F), vf.Z(int64(o.I)), vf.Z(int64(o.J)))
		g := p.f.Slice(o.I, o.J)
		return opTerm, w.addResult(g, &p, o.I), true
	case "copy":
		if !valid(o.F) || !valid(o.G) {
			return "", "", false
		}
		opTerm = vf.App("OCopy", vf.Nat(o.F), vf.Nat(o.G))
		n := frame.Copy(w.pool[o.F].f, w.pool[o.G].f)
		return opTerm, vf.App("RNum", vf.Z(int64(n))), true
	case "append":
		if (o.F >= 0 && !valid(o.F)) || !valid(o.G) {
			return "", "", false
		}
		opTerm = vf.App("OAppend", optNat(o.F), vf.Nat(o.G))
		var dst frame.Frame
		var p *view
		if o.F >= 0 {
			pp := w.pool[o.F]
			p, dst = &pp, pp.f
		}
		g := frame.AppendFrame(dst, w.pool[o.G].f)
		return opTerm, w.addResult(g, p, 0), true
	case "grow", "ensure":
		if !valid(o.F) || o.I < 0 {
			return "", "", false
		}
		p := w.pool[o.F]
		var g frame.Frame
		if o.K == "grow" {
			opTerm = vf.App("OGrow", vf.Nat(o.F), vf.Nat(o.I))
			g = p.f.Grow(o.I)
		} else {
			opTerm = vf.App("OEnsure", vf.Nat(o.F), vf.Nat(o.I))
			g = p.f.Ensure(o.I)
		}
		return opTerm, w.addResult(g, &p, 0), true
	case "swap":
		if !valid(o.F) || o.I < 0 || o.J < 0 || o.I >= w.pool[o.F].f.Len() || o.J >= w.pool[o.F].f.Len() {
			return "", "", false
		}
		opTerm = vf.App("OSwap", vf.Nat(o.F), vf.Nat(o.I), vf.Nat(o.J))
		w.pool[o.F].f.Swap(o.I, o.J)
		return opTerm, "RUnit", true
	case "zero":
		if !valid(o.F) {
			return "", "", false
		}
		opTerm = vf.App("OZero", vf.Nat(o.F))
		w.pool[o.F].f.Zero()
		return opTerm, "RUnit", true
	case "less":
		if !valid(o.F) || o.I < 0 || o.J < 0 || o.I >= w.pool[o.F].f.Len() || o.J >= w.pool[o.F].f.Len() {
			return "", "", false
		}
		f := w.pool[o.F].f
		for c := 0; c < f.Prefix(); c++ {
			if !w.sig[c].key {
				return "", "", false
			}
		}
		opTerm = vf.App("OLess", vf.Nat(o.F), vf.Nat(o.I), vf.Nat(o.J))
		return opTerm, vf.App("RBool", vf.Bool(f.Less(o.I, o.J))), true
	case "index":
		if !valid(o.F) || o.I < 0 || o.I >= w.pool[o.F].f.Len() || o.C < 0 || o.C >= len(w.sig) {
			return "", "", false
		}
		opTerm = vf.App("OIndex", vf.Nat(o.F), vf.Nat(o.C), vf.Nat(o.I))
		return opTerm, vf.App("RNum", vf.Z(w.sig[o.C].toZ(w.pool[o.F].f.Index(o.C, o.I)))), true
	case "value": // Frame.Value(col): the whole column of the view, judged like encode
		if !valid(o.F) || o.C < 0 || o.C >= len(w.sig) {
			return "", "", false
		}
		opTerm = vf.App("OEncode", vf.Nat(o.F), vf.Nat(o.C))
		v := w.pool[o.F].f.Value(o.C)
		vals := make([]int64, v.Len())
		for i := range vals {
			vals[i] = w.sig[o.C].toZ(v.Index(i))
		}
		return opTerm, vf.App("RVals", vf.ZList(vals)), true
	case "encode":
		if !valid(o.F) || o.C < 0 || o.C >= len(w.sig) || w.sig[o.C].name != "vint" {
			return "", "", false
		}
		opTerm = vf.App("OEncode", vf.Nat(o.F), vf.Nat(o.C))
		e := &enc{vals: []int64{}}
		if err := w.pool[o.F].f.Encode(o.C, e); err != nil {
			panic(err)
		}
		return opTerm, vf.App("RVals", vf.ZList(e.vals)), true
	case "decode":
		if !valid(o.F) || o.C < 0 || o.C >= len(w.sig) || w.sig[o.C].name != "vint" || len(o.Vals) != w.pool[o.F].f.Len() {
			return "", "", false
		}
		opTerm = vf.App("ODecode", vf.Nat(o.F), vf.Nat(o.C), vf.ZList(o.Vals))
		d := &dec{vals: append([]int64{}, o.Vals...)}
		if err := w.pool[o.F].f.Decode(o.C, d); err != nil {
			panic(err)
		}
		return opTerm, "RUnit", true
	case "sort":
		if !valid(o.F) {
			return "", "", false
		}
		f := w.pool[o.F].f
		for c := 0; c < f.Prefix(); c++ {
			if !w.sig[c].key {
				return "", "", false
			}
		}
		opTerm = vf.App("OSort", vf.Nat(o.F))
		sort.Sort(f)
		return opTerm, "RUnit", true
	case "prefixed":
		if !valid(o.F) {
			return "", "", false
		}
		p := w.pool[o.F]
		opTerm = vf.App("OPrefixed", vf.Nat(o.F), vf.Z(int64(o.I)))
		g := p.f.Prefixed(o.I)
		return opTerm, w.addResult(g, &p, 0), true
	}
	return "", "", false
}

// runCase executes a described case and returns its Coq term.
func runCase(d Desc) (term string, kinds map[string]int, nsteps int) {
	w := &world{}
	for _, n := range d.Sig {
		w.sig = append(w.sig, ctByName(n))
	}
	kinds = map[string]int{}
	var steps []string
	for _, o := range d.Ops {
		ot, out, ok := w.apply(o)
		if !ok {
			continue
		}
		kinds[o.K]++
		steps = append(steps, vf.App("mkObs", ot, out, w.dumpHeap()))
	}
	return vf.List(steps), kinds, len(steps)
}

// ---------------------------------------------------------------- generator

var sigs = [][]string{
	{"int"}, {"int", "string"}, {"string", "int"}, {"int8", "pair"}, {"bytes", "ints"},
	{"int", "ptr", "string"}, {"vint", "int"}, {"string", "string", "int"}, {"int", "int8", "vint"},
	{"int16"}, {"int16", "string"}, {"u8x2", "int"}, {"int8", "int16", "u8x2"},
}

func genCase(r *vf.Rand, nops int) Desc {
	sig := sigs[r.Intn(len(sigs))]
	d := Desc{Sig: sig}
	w := &world{}
	for _, n := range sig {
		w.sig = append(w.sig, ctByName(n))
	}
	emit := func(o Op) {
		if _, _, ok := w.apply(o); ok {
			d.Ops = append(d.Ops, o)
		}
	}
	val := func() int64 {
		if r.Chance(1, 4) {
			return int64(r.Range(0, 3)) // collisions and zero values
		}
		return int64(r.Range(0, 40))
	}
	mkCols := func(n int) [][]int64 {
		cols := make([][]int64, len(sig))
		for c := range cols {
			cols[c] = make([]int64, n)
			for i := range cols[c] {
				cols[c][i] = val()
			}
		}
		return cols
	}
	// start with one or two backing allocations
	if r.Chance(1, 4) {
		// columns handed over with different spare capacities
		ex := make([]int64, len(sig))
		for c := range ex {
			ex[c] = int64(r.Range(0, 5))
		}
		emit(Op{K: "values", Cols: mkCols(r.Range(2, 6)), Vals: ex})
	}
	emit(Op{K: "slices", Cols: mkCols(r.Range(3, 9))})
	if r.Bool() {
		emit(Op{K: "slices", Cols: mkCols(r.Range(1, 6))})
	}
	for len(d.Ops) < nops {
		f := r.Intn(len(w.pool))
		fl, fc := w.pool[f].f.Len(), w.pool[f].f.Cap()
		switch k := r.Intn(100); {
		case k < 22: // slice (mostly valid, up to cap)
			if r.Chance(1, 12) {
				emit(Op{K: "slice", F: f, I: r.Range(-1, fc+1), J: r.Range(-1, fc+2)})
			} else {
				i := r.Range(0, fc)
				emit(Op{K: "slice", F: f, I: i, J: r.Range(i, fc)})
			}
		case k < 30:
			emit(Op{K: "copy", F: f, G: r.Intn(len(w.pool))})
		case k < 34:
			// a copy of exactly one row on both sides (the single-element fast path)
			g := r.Intn(len(w.pool))
			gl := w.pool[g].f.Len()
			if fl > 0 && gl > 0 {
				i, j := r.Intn(fl), r.Intn(gl)
				n0 := len(w.pool)
				emit(Op{K: "slice", F: f, I: i, J: i + 1})
				emit(Op{K: "slice", F: g, I: j, J: j + 1})
				if len(w.pool) == n0+2 {
					emit(Op{K: "copy", F: n0, G: n0 + 1})
				}
			}
		case k < 44:
			dst := f
			if r.Chance(1, 6) {
				dst = -1
			}
			emit(Op{K: "append", F: dst, G: r.Intn(len(w.pool))})
		case k < 50:
			emit(Op{K: "grow", F: f, I: r.Range(0, 5)})
		case k < 57:
			emit(Op{K: "ensure", F: f, I: r.Range(0, fc+3)})
		case k < 72:
			if fl > 0 {
				emit(Op{K: "swap", F: f, I: r.Intn(fl), J: r.Intn(fl)})
			}
		case k < 77:
			emit(Op{K: "zero", F: f})
		case k < 85:
			if fl > 0 {
				emit(Op{K: "less", F: f, I: r.Intn(fl), J: r.Intn(fl)})
			}
		case k < 89:
			if fl > 0 {
				emit(Op{K: "index", F: f, C: r.Intn(len(sig)), I: r.Intn(fl)})
			}
		case k < 92:
			emit(Op{K: "value", F: f, C: r.Intn(len(sig))})
		case k < 94:
			emit(Op{K: "encode", F: f, C: r.Intn(len(sig))})
		case k < 96:
			vals := make([]int64, fl)
			for i := range vals {
				vals[i] = val()
			}
			emit(Op{K: "decode", F: f, C: r.Intn(len(sig)), Vals: vals})
		case k < 97:
			emit(Op{K: "prefixed", F: f, I: r.Range(1, len(sig))})
		case k < 99:
			emit(Op{K: "sort", F: f})
		default:
			// invalid prefixes only: Prefixed(0) is accepted by the code and yields a
			// frame without key columns, which no operation is defined on
			emit(Op{K: "prefixed", F: f, I: []int{-1, len(sig) + 1, -2}[r.Intn(3)]})
		}
		if len(w.pool) > 14 { // keep dumps small
			break
		}
	}
	return d
}

// genKeyCase aims at comparison, hashing-free ordering and sorting through views
// with a non-zero offset and multi-column key prefixes: a frame whose leading
// key column has many ties, re-prefixed, sliced, then compared pairwise and sorted.
func genKeyCase(r *vf.Rand) Desc {
	sig := [][]string{{"int", "int8", "vint"}, {"string", "string", "int"}, {"int", "string"}, {"string", "int"}, {"int8", "int", "bytes"}}[r.Intn(5)]
	d := Desc{Sig: sig}
	n := r.Range(5, 9)
	cols := make([][]int64, len(sig))
	for c := range cols {
		cols[c] = make([]int64, n)
		for i := range cols[c] {
			if c == 0 {
				cols[c][i] = int64(r.Range(0, 2)) // ties in the leading column
			} else {
				cols[c][i] = int64(r.Range(0, 6))
			}
		}
	}
	d.Ops = append(d.Ops, Op{K: "slices", Cols: cols})
	nkey := 0
	for _, t := range sig {
		if !ctByName(t).key {
			break
		}
		nkey++
	}
	p := r.Range(1, nkey)
	d.Ops = append(d.Ops, Op{K: "prefixed", F: 0, I: p})
	i := r.Range(0, n-2)
	j := r.Range(i+2, n)
	d.Ops = append(d.Ops, Op{K: "slice", F: 1, I: i, J: j}) // view 2: offset i, prefix p
	m := j - i
	for a := 0; a < m; a++ {
		for b := 0; b < m; b++ {
			if r.Chance(2, 3) {
				d.Ops = append(d.Ops, Op{K: "less", F: 2, I: a, J: b})
			}
		}
	}
	d.Ops = append(d.Ops, Op{K: "sort", F: 2})
	if r.Bool() {
		d.Ops = append(d.Ops, Op{K: "sort", F: 1})
	}
	return d
}

func main() {
	opts := vf.ParseFlags()
	out := &vf.Output{ID: "C11", Import: "BS.C11.Corr",
		Rule: "random op sequences over a pool of views sharing 1-3 allocations, 9 column-type signatures; " +
			"non-trivial = the sequence contains a mutating op (copy/append/swap/zero/decode/grow) applied through a view with offset>0 or len<cap; distinct by op-sequence text"}
	var descs []Desc
	if opts.Replay != "" {
		if err := vf.LoadReplay(opts.Replay, &descs); err != nil {
			fmt.Fprintln(os.Stderr, err)
			os.Exit(2)
		}
	} else {
		n := 150
		if opts.Tier == "thorough" {
			n = 1500
		}
		n *= opts.Scale
		root := vf.NewRand(opts.Seed)
		for i := 0; i < n; i++ {
			if i%5 == 4 {
				descs = append(descs, genKeyCase(root.Split()))
			} else {
				descs = append(descs, genCase(root.Split(), 6+i%14))
			}
		}
	}
	for _, d := range descs {
		term, kinds, nsteps := runCase(d)
		nontriv := ""
		for _, k := range []string{"copy", "append", "swap", "zero", "decode", "grow"} {
			if kinds[k] > 0 && kinds["slice"] > 0 {
				nontriv = vf.Hash(term)
			}
		}
		kind := fmt.Sprintf("sig=%d-col", len(d.Sig))
		sig := "frame-ops"
		if kinds["swap"] > 0 {
			sig = "frame-ops+swap"
		}
		out.Add(vf.Case{Term: term, Desc: d, Sig: sig, Nontriv: nontriv, Kind: kind, Observed: fmt.Sprintf("%d steps", nsteps)})
	}
	if err := out.Write(opts.Out, opts); err != nil {
		fmt.Fprintln(os.Stderr, err)
		os.Exit(2)
	}
}

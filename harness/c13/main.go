// Command c13 runs programs with Cache / CachePartial / ReadCache operators in
// several phases over one cache directory (fresh run with optional injected file
// faults, re-run, re-run after deleting some shard files, ReadCache) and records
// rows, which shards executed their upstream computation, and the decoded content
// of every shard file after each phase.
package main

import (
	"context"
	"fmt"
	"os"
	"path/filepath"
	"time"

	"github.com/grailbio/base/compress/zstd"
	"github.com/grailbio/base/file"
	"github.com/grailbio/bigslice/sliceio"
	"verifharness/faultfs"
	"verifharness/prog"
	"verifharness/vf"
)

type Phase struct {
	Fault  string `json:"fault"` // "", create, write, close, stat
	K      int    `json:"k"`
	Delete []int  `json:"delete"` // shard files removed before the phase
	Read   bool   `json:"read"`   // run the ReadCache variant of the program
	UpFail int    `json:"upfail"` // > 0: the source (a ReaderFunc) fails at that call in this phase
}

type Desc struct {
	Cfg    prog.Cfg  `json:"cfg"`
	Prog   prog.Prog `json:"prog"`
	W      int       `json:"w"`    // the writerfunc node just below the cache node
	C      int       `json:"c"`    // the cache node
	Head   bool      `json:"head"` // a Head sits above the cache node
	Phases []Phase   `json:"phases"`
}

func pathOf(dir, label string, shard, n int) string {
	return fmt.Sprintf("%s/%s-%04d-of-%04d", dir, label, shard, n)
}

// readFile decodes a shard file: (rows, "ok") | (nil, "absent") | (nil, "corrupt").
func readFile(ctx context.Context, path string, types []prog.Col) ([]prog.Row, string) {
	f, err := file.Open(ctx, path)
	if err != nil {
		return nil, "absent"
	}
	defer f.Close(ctx)
	zr, err := zstd.NewReader(f.Reader(ctx))
	if err != nil {
		return nil, "corrupt"
	}
	defer zr.Close()
	rows, err := prog.ReadAll(ctx, sliceio.NewDecodingReader(zr), types, []int{7, 128})
	if err != nil {
		return nil, "corrupt"
	}
	return rows, "ok"
}

func genDesc(r *vf.Rand, i int) Desc {
	var p prog.Prog
	add := func(n prog.Node) int { p.Nodes = append(p.Nodes, n); return len(p.Nodes) - 1 }
	nshard := r.Range(1, 3)
	rows := r.Pick([]int{0, 1, 5, 40, 130, 300})
	cols := [][]int64{make([]int64, rows), make([]int64, rows)}
	for j := 0; j < rows; j++ {
		cols[0][j], cols[1][j] = int64(r.Intn(9)), int64(r.Intn(50))
	}
	k := add(prog.Node{Op: "const", N: nshard, Types: []string{"i", "i"}, Cols: cols})
	src := -1
	if r.Chance(1, 3) {
		p.Nodes[k] = prog.Node{Op: "readerfunc", N: nshard, Types: []string{"i", "i"}, A: int64(r.Intn(40)), B: int64(r.Intn(13)), N2: r.Intn(9)}
		src = k
	}
	switch r.Intn(4) {
	case 0:
		k = add(prog.Node{Op: "map", In: []int{k}, Exprs: []prog.Expr{{K: "col", I: 0}, {K: "addmod", E: &prog.Expr{K: "col", I: 1}, A: 3, B: 97}}})
	case 1:
		k = add(prog.Node{Op: "reduce", In: []int{k}, Comb: "sum"}) // cache after a shuffle
	case 2:
		k = add(prog.Node{Op: "reshuffle", In: []int{k}})
	}
	w := add(prog.Node{Op: "writerfunc", In: []int{k}})
	kind := "cache"
	if r.Bool() {
		kind = "cachepartial"
	}
	c := add(prog.Node{Op: kind, In: []int{w}, Cache: "c"})
	head := false
	switch r.Intn(7) {
	case 6:
		// the cache operator wrapped by Prefixed (a type-only wrapper), then keyed by it
		pf := add(prog.Node{Op: "prefixed", In: []int{c}, N: 1})
		add(prog.Node{Op: "reduce", In: []int{pf}, Comb: "sum"})
	case 0:
		add(prog.Node{Op: "map", In: []int{c}, Exprs: []prog.Expr{{K: "col", I: 1}, {K: "col", I: 0}}})
	case 1:
		add(prog.Node{Op: "reduce", In: []int{c}, Comb: "max"})
	case 2:
		add(prog.Node{Op: "reshuffle", In: []int{c}})
	case 3:
		if p.Nodes[k].Op != "reshuffle" { // Head needs a fixed row order
			add(prog.Node{Op: "head", In: []int{c}, N: r.Pick([]int{0, 1, 3, 1000})})
			head = true
		}
	}
	d := Desc{Prog: p, W: w, C: c, Head: head, Cfg: prog.Cfg{Kind: "local", Parallelism: 4}}
	if i%3 == 2 {
		d.Cfg = prog.Cfg{Kind: "bigmachine", Parallelism: 4, Procs: 2}
	}
	// phase 1: fresh directory, maybe a fault
	p1 := Phase{}
	if r.Chance(1, 2) {
		p1.Fault = []string{"create", "write", "close", "stat"}[r.Intn(4)]
		p1.K = r.Range(1, 3)
	} else if src >= 0 && r.Chance(2, 3) {
		p1.UpFail = r.Range(1, 4) // the cached computation itself fails part-way
	}
	d.Phases = append(d.Phases, p1, Phase{})
	var del []int
	for s := 0; s < nshard; s++ {
		if r.Chance(1, 3) {
			del = append(del, s)
		}
	}
	d.Phases = append(d.Phases, Phase{Delete: del})
	if r.Chance(1, 2) {
		d.Phases = append(d.Phases, Phase{Read: true})
	}
	return d
}

func main() {
	opts := vf.ParseFlags()
	out := &vf.Output{ID: "C13", Import: "BS.C13.Corr",
		Rule: "programs source -> [map|reduce|reshuffle] -> WriterFunc -> Cache|CachePartial -> [map|reduce|reshuffle|head], 1-3 shards, 0-300 rows, on the local and bigmachine(testsystem) executors, each run in 3-4 phases over one cache directory (fresh run with an optional injected fault at the k-th create/write/close/stat; re-run; re-run after deleting a random subset of shard files; ReadCache); non-trivial = a fault fired or files were deleted or a Head sits above the cache; distinct by description"}
	var descs []Desc
	if opts.Replay != "" {
		if err := vf.LoadReplay(opts.Replay, &descs); err != nil {
			fmt.Fprintln(os.Stderr, err)
			os.Exit(2)
		}
	} else {
		n := 60
		if opts.Tier == "thorough" {
			n = 600
		}
		n *= opts.Scale
		root := vf.NewRand(opts.Seed)
		for i := 0; i < n; i++ {
			descs = append(descs, genDesc(root.Split(), i))
		}
	}
	ctx := context.Background()
	tmp, err := os.MkdirTemp("", "c13-")
	if err != nil {
		panic(err)
	}
	defer os.RemoveAll(tmp)
	sessions := map[string]*prog.Sess{}
	defer func() {
		for _, s := range sessions {
			s.Close()
		}
	}()
	for ci, d := range descs {
		key := d.Cfg.String()
		s := sessions[key]
		if s == nil {
			s = prog.Start(d.Cfg)
			sessions[key] = s
		}
		schemas, err := d.Prog.Schemas()
		if err != nil {
			fmt.Fprintln(os.Stderr, "ill-formed:", err)
			continue
		}
		wsch := schemas[d.W]
		dir := fmt.Sprintf("cfault://c13/case%d", ci)
		real := filepath.Join(tmp, fmt.Sprintf("case%d", ci))
		os.MkdirAll(real, 0o755)
		var phases []string
		nontriv := ""
		var summary []string
		filesNow := func() ([]string, []bool) {
			faultfs.Reset(tmp+"/", "", 0)
			terms := make([]string, wsch.NShard)
			present := make([]bool, wsch.NShard)
			for sh := 0; sh < wsch.NShard; sh++ {
				rows, st := readFile(ctx, pathOf(dir, "c", sh, wsch.NShard), wsch.Types)
				switch st {
				case "absent":
					terms[sh] = "FAbsent"
				case "corrupt":
					terms[sh] = "FCorrupt"
					present[sh] = true
				default:
					terms[sh] = vf.App("FRows", prog.RowsTerm(rows))
					present[sh] = true
				}
			}
			return terms, present
		}
		// everything under c13/ maps below tmp: cfault://c13/caseN/c-.. -> tmp/c13/caseN/..
		os.MkdirAll(filepath.Join(tmp, "c13", fmt.Sprintf("case%d", ci)), 0o755)
		_, pre := filesNow()
		for _, ph := range d.Phases {
			for _, sh := range ph.Delete {
				if sh < wsch.NShard {
					os.Remove(faultfs.Real(pathOf(dir, "c", sh, wsch.NShard)))
				}
			}
			_, pre = filesNow()
			p := d.Prog
			if ph.UpFail > 0 && d.Prog.Nodes[0].Op == "readerfunc" {
				p = prog.Prog{Nodes: append([]prog.Node{}, d.Prog.Nodes...)}
				p.Nodes[0].Fail = &prog.Fail{Mode: "error", Shard: -1, Row: ph.UpFail}
			}
			if ph.Read {
				// replace the cache operator by ReadCache of the same prefix
				p = prog.Prog{Nodes: append([]prog.Node{}, d.Prog.Nodes...)}
				p.Nodes[d.C].Op = "readcache"
			}
			faultfs.Reset(tmp+"/", ph.Fault, ph.K)
			o, _ := prog.RunOnce(s, p, dir, 60*time.Second)
			fired := faultfs.Fired() + o.Fires
			files, _ := filesNow()
			var ws []prog.SideRec
			wmap := map[string][]prog.SideRec{}
			for k, v := range o.Writer {
				var node, sh int
				fmt.Sscanf(k, "%d:%d", &node, &sh)
				if node == d.W {
					wmap[k] = v
					ws = append(ws, v...)
				}
			}
			obsT := vf.App("mkObs", "E"+upper(o.Err), "[]", "[]", "[]", "EOk", "[]", "[]")
			if o.Err == "ok" {
				obsT = o.Term()
			}
			preT := make([]string, len(pre))
			for i, b := range pre {
				preT[i] = vf.Bool(b)
			}
			phases = append(phases, vf.App("mkPhase", vf.List(preT), vf.Bool(ph.Fault != "" || ph.UpFail > 0), vf.Nat(fired), vf.Bool(ph.Read), obsT, prog.SideTerm(wmap), vf.List(files)))
			summary = append(summary, fmt.Sprintf("fault=%s/%d fired=%d read=%v err=%s wstreams=%d", ph.Fault, ph.K, fired, ph.Read, o.Err, len(ws)))
			if fired > 0 || len(ph.Delete) > 0 || d.Head {
				nontriv = "x"
			}
			if o.Err == "timeout" || o.Err == "hang" {
				delete(sessions, key)
				go s.Close()
				s = prog.Start(d.Cfg)
				sessions[key] = s
			}
		}
		partial := "KCache"
		if d.Prog.Nodes[d.C].Op == "cachepartial" {
			partial = "KCachePartial"
		}
		term := vf.App("mkCase", d.Prog.Term(), vf.Nat(d.W), vf.Nat(d.C), partial, vf.Bool(d.Head), vf.List(phases))
		if nontriv != "" {
			nontriv = vf.Hash(term)
		}
		out.Add(vf.Case{Term: term, Desc: d, Sig: "cache/" + d.Prog.Nodes[d.C].Op + "/" + d.Cfg.Kind, Nontriv: nontriv,
			Kind: d.Cfg.Kind + "/" + d.Prog.Nodes[d.C].Op, Observed: summary})
	}
	if err := out.Write(opts.Out, opts); err != nil {
		fmt.Fprintln(os.Stderr, err)
		os.Exit(2)
	}
}

func upper(s string) string {
	if s == "" {
		return "Other"
	}
	return string(s[0]-32) + s[1:]
}

// Command c07 drives the real row-stream codec of /repo:
//
//	sliceio.NewEncodingWriter -> bytes -> sliceio.NewDecodingReader
//
// over a small type universe (int, string, a struct column that goes through
// gob, a custom-codec column with per-stream session state), for all
// batch/destination size pairs of a grid plus random ones, and then DAMAGES the
// encoded bytes (single-bit flips, truncations, short bursts) and classifies
// what the reader does. It writes the Coq case file judged by coq/C07/Corr.v.
//
// The token<->byte codec of the Coq model is a parameter (gob is not modelled
// byte-wise); for the correspondence it is instantiated by a RECORDING of the
// real gob: this driver re-reads every stream with a plain gob.Decoder making
// the same sequence of Decode calls as codec.go ("oracle") and records, per
// call, the value decoded and the number of bytes consumed, or gob's failure
// (io.EOF | io.ErrUnexpectedEOF | other). The model then runs the reader
// over the real bytes with that script, computing real CRC-32 values itself.
//
// Damaged streams are decoded in a child process of this binary (address-space
// limit + allocation accounting): a corrupted length can request terabytes.
package main

import (
	"bufio"
	"bytes"
	"context"
	"encoding/base64"
	"encoding/gob"
	"encoding/json"
	"fmt"
	"io"
	"os"
	"os/exec"
	"reflect"
	"runtime"
	"runtime/debug"
	"strconv"
	"strings"
	"syscall"
	"time"

	"github.com/grailbio/base/errors"
	"github.com/grailbio/bigslice/frame"
	"github.com/grailbio/bigslice/sliceio"
	"verifharness/vf"
)

// ---------------------------------------------------------------- column types

type pair struct {
	A int
	S string
}

// vint has a registered custom codec: delta coding against the last value
// seen on this stream, kept in the per-stream session (frame.Session.State).
type vint int

type vstate struct{ last int64 }

var vintKey = frame.FreshKey()

func init() {
	frame.RegisterOps(func(slice []vint) frame.Ops {
		return frame.Ops{
			Less:         func(i, j int) bool { return slice[i] < slice[j] },
			HashWithSeed: func(i int, seed uint32) uint32 { return uint32(slice[i]) + seed },
			Encode: func(e frame.Encoder, i, j int) error {
				var st *vstate
				e.State(vintKey, &st)
				for k := i; k < j; k++ {
					d := int64(slice[k]) - st.last
					st.last = int64(slice[k])
					if err := e.Encode(d); err != nil {
						return err
					}
				}
				return nil
			},
			Decode: func(d frame.Decoder, i, j int) error {
				var st *vstate
				d.State(vintKey, &st)
				for k := i; k < j; k++ {
					var dv int64
					if err := d.Decode(&dv); err != nil {
						return err
					}
					st.last += dv
					slice[k] = vint(st.last)
				}
				return nil
			},
		}
	})
}

// vtag has a registered custom codec of the other common shape: the whole
// slice is one gob value, and Decode copies what it received (copy checks no
// length). With only such columns nothing but the checksum protects the batch
// length.
type vtag int

func init() {
	frame.RegisterOps(func(slice []vtag) frame.Ops {
		return frame.Ops{
			Less:         func(i, j int) bool { return slice[i] < slice[j] },
			HashWithSeed: func(i int, seed uint32) uint32 { return uint32(slice[i]) + seed },
			Encode: func(e frame.Encoder, i, j int) error {
				return e.Encode(slice[i:j])
			},
			Decode: func(d frame.Decoder, i, j int) error {
				var p []vtag
				if err := d.Decode(&p); err != nil {
					return err
				}
				copy(slice[i:j], p)
				return nil
			},
		}
	})
}

const junk = 7777 // every field of every destination cell before a Read
const bad = -987654321

func str(z int64) string {
	if z == 0 {
		return ""
	}
	return "s" + strconv.FormatInt(z, 10)
}
func unstr(s string) int64 {
	if s == "" {
		return 0
	}
	if s[0] != 's' {
		return bad
	}
	n, err := strconv.ParseInt(s[1:], 10, 64)
	if err != nil || n == 0 {
		return bad
	}
	return n
}

type colType struct {
	name  string
	kind  string // Coq kind
	arity int
	typ   reflect.Type
	mk    func(c []int64) reflect.Value
	toZ   func(v reflect.Value) []int64
}

var colTypes = []colType{
	{"int", "KGob", 1, reflect.TypeOf(int(0)),
		func(c []int64) reflect.Value { return reflect.ValueOf(int(c[0])) },
		func(v reflect.Value) []int64 { return []int64{v.Int()} }},
	{"string", "KGob", 1, reflect.TypeOf(""),
		func(c []int64) reflect.Value { return reflect.ValueOf(str(c[0])) },
		func(v reflect.Value) []int64 { return []int64{unstr(v.String())} }},
	{"pair", "KStruct", 2, reflect.TypeOf(pair{}),
		func(c []int64) reflect.Value { return reflect.ValueOf(pair{int(c[0]), str(c[1])}) },
		func(v reflect.Value) []int64 {
			p := v.Interface().(pair)
			return []int64{int64(p.A), unstr(p.S)}
		}},
	{"vint", "KCodec", 1, reflect.TypeOf(vint(0)),
		func(c []int64) reflect.Value { return reflect.ValueOf(vint(c[0])) },
		func(v reflect.Value) []int64 { return []int64{v.Int()} }},
	{"vtag", "KCodecBulk", 1, reflect.TypeOf(vtag(0)),
		func(c []int64) reflect.Value { return reflect.ValueOf(vtag(c[0])) },
		func(v reflect.Value) []int64 { return []int64{v.Int()} }},
}

func ct(name string) *colType {
	for i := range colTypes {
		if colTypes[i].name == name {
			return &colTypes[i]
		}
	}
	panic("unknown column type " + name)
}

// A Batch is column-major: Batch[col][row] = fields of the cell.
type Batch [][][]int64

func nrows(b Batch) int {
	if len(b) == 0 {
		return 0
	}
	return len(b[0])
}

func mkFrame(sch []string, b Batch) frame.Frame {
	cols := make([]interface{}, len(sch))
	for c, name := range sch {
		t := ct(name)
		n := len(b[c])
		s := reflect.MakeSlice(reflect.SliceOf(t.typ), n, n)
		for i, cell := range b[c] {
			s.Index(i).Set(t.mk(cell))
		}
		cols[c] = s.Interface()
	}
	return frame.Slices(cols...)
}

func junkFrame(sch []string, m int) frame.Frame {
	b := make(Batch, len(sch))
	for c, name := range sch {
		t := ct(name)
		b[c] = make([][]int64, m)
		for i := range b[c] {
			cell := make([]int64, t.arity)
			for k := range cell {
				cell[k] = junk
			}
			b[c][i] = cell
		}
	}
	return mkFrame(sch, b)
}

func dump(sch []string, f frame.Frame, n int) Batch {
	b := make(Batch, len(sch))
	for c, name := range sch {
		t := ct(name)
		b[c] = make([][]int64, n)
		for i := 0; i < n; i++ {
			b[c][i] = t.toZ(f.Index(c, i))
		}
	}
	return b
}

// ---------------------------------------------------------------- encoding

type recWriter struct {
	buf  bytes.Buffer
	ends []int // end offset of every Write call = gob message boundaries
}

func (w *recWriter) Write(p []byte) (int, error) {
	w.buf.Write(p)
	w.ends = append(w.ends, w.buf.Len())
	return len(p), nil
}

func encodeStream(sch []string, batches []Batch) (stream []byte, msgEnds []int, err error) {
	w := &recWriter{}
	enc := sliceio.NewEncodingWriter(w)
	for _, b := range batches {
		if err := enc.Write(context.Background(), mkFrame(sch, b)); err != nil {
			return nil, nil, err
		}
	}
	return w.buf.Bytes(), w.ends, nil
}

// ---------------------------------------------------------------- oracle (plain gob)

type Tok struct {
	K    string    `json:"k"` // len flag col val bulk crc
	N    int64     `json:"n,omitempty"`
	B    bool      `json:"b,omitempty"`
	Data [][]int64 `json:"data,omitempty"`
	Used int       `json:"used"`
}

func (t Tok) same(u Tok) bool {
	return t.K == u.K && t.N == u.N && t.B == u.B && t.Used == u.Used && reflect.DeepEqual(t.Data, u.Data)
}

func (t Tok) term() string {
	switch t.K {
	case "len":
		return vf.App("TLen", vf.Z(t.N))
	case "flag":
		return vf.App("TFlag", vf.Bool(t.B))
	case "col":
		return vf.App("TCol", vf.ZListList(t.Data))
	case "val":
		return vf.App("TVal", vf.ZList(t.Data[0]))
	case "bulk":
		return vf.App("TBulk", vf.ZListList(t.Data))
	case "crc":
		return vf.App("TCrc", fmt.Sprintf("%d%%N", t.N))
	}
	panic("tok kind")
}

type countReader struct {
	b   []byte
	pos int
}

func (r *countReader) Read(p []byte) (int, error) {
	if r.pos >= len(r.b) {
		return 0, io.EOF
	}
	n := copy(p, r.b[r.pos:])
	r.pos += n
	return n, nil
}
func (r *countReader) ReadByte() (byte, error) {
	if r.pos >= len(r.b) {
		return 0, io.EOF
	}
	c := r.b[r.pos]
	r.pos++
	return c, nil
}

func termOf(err error) string {
	switch err {
	case io.EOF:
		return "SIoEOF"
	case io.ErrUnexpectedEOF:
		return "SUnexpected"
	}
	return "SMalformed"
}

const oracleMaxRows = 1 << 16

// tokenize makes, with a plain gob.Decoder, exactly the Decode calls that
// decodingReader makes on this stream (batch length, then per column the codec
// flag and either one value per row from the custom codec or the gob-encoded
// column, then the checksum) and records each result. term is gob's failure at
// the next call, or "SStop": the reader asks for nothing more (it returns an
// error at this point) or nothing is known beyond.
func tokenize(stream []byte, sch []string) (toks []Tok, term string) {
	defer func() {
		if r := recover(); r != nil {
			term = "SStop" // gob panicked on garbage: no information
		}
	}()
	cr := &countReader{b: stream}
	dec := gob.NewDecoder(cr)
	last := 0
	push := func(t Tok) {
		t.Used = cr.pos - last
		last = cr.pos
		toks = append(toks, t)
	}
	for {
		var n int
		if err := dec.Decode(&n); err != nil {
			return toks, termOf(err)
		}
		if n > oracleMaxRows {
			// not even given to the model: it would allocate that many rows, as the code does
			return toks, "SStop"
		}
		push(Tok{K: "len", N: int64(n)})
		if n < 0 {
			return toks, "SStop" // Read returns "invalid batch length"
		}
		for _, name := range sch {
			t := ct(name)
			var b bool
			if err := dec.Decode(&b); err != nil {
				return toks, termOf(err)
			}
			push(Tok{K: "flag", B: b})
			if b && t.kind != "KCodec" && t.kind != "KCodecBulk" {
				return toks, "SStop" // decode returns "no codec available"
			}
			if b && t.kind == "KCodecBulk" { // the custom Decode: one slice value, copied
				pv := reflect.New(reflect.SliceOf(t.typ))
				if err := dec.DecodeValue(pv); err != nil {
					return toks, termOf(err)
				}
				sl := pv.Elem()
				if sl.Len() > oracleMaxRows {
					return toks, "SStop"
				}
				data := make([][]int64, sl.Len())
				for i := range data {
					data[i] = t.toZ(sl.Index(i))
				}
				push(Tok{K: "bulk", Data: data})
				continue
			}
			if b {
				for k := 0; k < n; k++ {
					var dv int64
					if err := dec.Decode(&dv); err != nil {
						return toks, termOf(err)
					}
					push(Tok{K: "val", Data: [][]int64{{dv}}})
				}
				continue
			}
			pv := reflect.New(reflect.SliceOf(t.typ))
			if err := dec.DecodeValue(pv); err != nil {
				return toks, termOf(err)
			}
			sl := pv.Elem()
			if sl.Len() > oracleMaxRows {
				return toks, "SStop"
			}
			data := make([][]int64, sl.Len())
			for i := range data {
				data[i] = t.toZ(sl.Index(i))
			}
			push(Tok{K: "col", Data: data})
			if sl.Len() != n {
				return toks, "SStop" // decode returns "column length does not match batch length"
			}
		}
		var c uint32
		if err := dec.Decode(&c); err != nil {
			return toks, termOf(err)
		}
		push(Tok{K: "crc", N: int64(c)})
	}
}

// ---------------------------------------------------------------- decoding

type Res struct {
	K    string `json:"k"` // ok err panic
	N    int    `json:"n,omitempty"`
	Rows Batch  `json:"rows,omitempty"`
	E    string `json:"e,omitempty"`
	Msg  string `json:"msg,omitempty"`
}

func (r Res) term() string {
	switch r.K {
	case "ok":
		cs := make([]string, len(r.Rows))
		for i, c := range r.Rows {
			cs[i] = vf.ZListList(c)
		}
		return vf.App("ROk", vf.Nat(r.N), vf.List(cs))
	case "err":
		return vf.App("RErr", r.E)
	}
	return "RPanic"
}

func errClass(err error) string {
	switch {
	case err == sliceio.EOF:
		return "EEOF"
	case err == io.EOF:
		return "ERawEOF"
	case err == io.ErrUnexpectedEOF:
		return "EUnexpected"
	case strings.Contains(err.Error(), "invalid batch length"):
		return "EBadLen" // errors.Integrity: negative batch length
	case errors.Is(errors.Integrity, err):
		return "EIntegrity"
	case strings.Contains(err.Error(), "no codec available"):
		return "ENoCodec"
	}
	return "EMalformed"
}

// The reader must behave the same whatever the byte source: one that implements
// io.ByteReader (bytes.Reader: NewDecodingReader reads it directly), a plain
// io.Reader (as an *os.File in Spiller.Readers or a network stream:
// NewDecodingReader inserts a bufio.Reader, which reads ahead), and a plain
// reader that delivers 1..7 bytes per call. Every stream is decoded through all.
var sources = []string{"bytes", "plain", "short"}

type shortReader struct {
	b []byte
	k int
}

func (r *shortReader) Read(p []byte) (int, error) {
	if len(r.b) == 0 {
		return 0, io.EOF
	}
	n := 1 + (r.k*3)%7
	r.k++
	if n > len(p) {
		n = len(p)
	}
	if n > len(r.b) {
		n = len(r.b)
	}
	copy(p, r.b[:n])
	r.b = r.b[n:]
	return n, nil
}

func openSrc(stream []byte, src string) io.Reader {
	switch src {
	case "plain":
		return struct{ io.Reader }{bytes.NewReader(stream)} // hides ReadByte
	case "short":
		return &shortReader{b: stream}
	}
	return bytes.NewReader(stream)
}

func srcList(only string) []string {
	if only != "" {
		return []string{only}
	}
	return sources
}

// runReads makes one Read per destination size (cycling through dests) until
// the first error, then one more (the error must be sticky), or until a panic.
// It returns the sizes actually used, one per call.
func runReads(stream []byte, src string, sch []string, dests []int, maxCalls int) (used []int, results []Res) {
	defer func() {
		if r := recover(); r != nil {
			results = append(results, Res{K: "panic", Msg: fmt.Sprint(r)})
		}
	}()
	rd := sliceio.NewDecodingReader(openSrc(stream, src))
	after := 0
	for i := 0; i < maxCalls; i++ {
		m := dests[i%len(dests)]
		f := junkFrame(sch, m)
		used = append(used, m)
		n, err := rd.Read(context.Background(), f)
		if err != nil {
			msg := err.Error()
			if len(msg) > 120 {
				msg = msg[:120]
			}
			if n != 0 {
				msg = fmt.Sprintf("n=%d with error: %s", n, msg)
				results = append(results, Res{K: "err", E: "EMalformed", Msg: msg})
			} else {
				results = append(results, Res{K: "err", E: errClass(err), Msg: msg})
			}
			after++
			if after == 2 {
				break
			}
			continue
		}
		if after > 0 { // a successful Read after an error: not sticky
			results = append(results, Res{K: "ok", N: n, Rows: dump(sch, f, n)})
			break
		}
		results = append(results, Res{K: "ok", N: n, Rows: dump(sch, f, n)})
	}
	return
}

// ---------------------------------------------------------------- child process (damaged streams)

type job struct {
	Src      string   `json:"src"`
	Sch      []string `json:"sch"`
	Stream   string   `json:"stream"`
	Dests    []int    `json:"dests"`
	MaxCalls int      `json:"max"`
}
type jobOut struct {
	Used    []int  `json:"used"`
	Results []Res  `json:"results"`
	Alloc   uint64 `json:"alloc"`
}

const childAS = 6 << 30     // address-space limit of the child
const hugeAlloc = 256 << 20 // bytes allocated by one decode of a <= few kB stream

func childMain() {
	lim := syscall.Rlimit{Cur: childAS, Max: childAS}
	_ = syscall.Setrlimit(syscall.RLIMIT_AS, &lim)
	debug.SetGCPercent(50)
	in := bufio.NewReaderSize(os.Stdin, 1<<20)
	out := bufio.NewWriter(os.Stdout)
	for {
		line, err := in.ReadBytes('\n')
		if len(line) == 0 && err != nil {
			return
		}
		var j job
		if e := json.Unmarshal(line, &j); e != nil {
			fmt.Fprintln(os.Stderr, "child: bad job:", e)
			os.Exit(3)
		}
		stream, _ := base64.StdEncoding.DecodeString(j.Stream)
		var m0, m1 runtime.MemStats
		runtime.ReadMemStats(&m0)
		used, res := runReads(stream, j.Src, j.Sch, j.Dests, j.MaxCalls)
		runtime.ReadMemStats(&m1)
		js, _ := json.Marshal(jobOut{used, res, m1.TotalAlloc - m0.TotalAlloc})
		out.Write(js)
		out.WriteByte('\n')
		out.Flush()
		if m1.TotalAlloc-m0.TotalAlloc > hugeAlloc {
			debug.FreeOSMemory()
		}
		if err != nil {
			return
		}
	}
}

type child struct {
	cmd    *exec.Cmd
	in     io.WriteCloser
	out    *bufio.Reader
	stderr *bytes.Buffer
}

func startChild() *child {
	cmd := exec.Command(os.Args[0], "-child")
	cmd.Env = append(os.Environ(), "GOMAXPROCS=2")
	in, _ := cmd.StdinPipe()
	outp, _ := cmd.StdoutPipe()
	c := &child{cmd: cmd, in: in, out: bufio.NewReaderSize(outp, 1<<20), stderr: &bytes.Buffer{}}
	cmd.Stderr = c.stderr
	if err := cmd.Start(); err != nil {
		fatal("cannot start child: %v", err)
	}
	return c
}

var theChild *child

const caseTimeout = 60 * time.Second

// decodeGuarded runs runReads in the child; crash is "" or one of
// "OOom" (the runtime could not get the memory), "OHuge" (one decode allocated
// more than hugeAlloc), "OHang", "OCrash" (the process died otherwise).
func decodeGuarded(stream []byte, src string, sch []string, dests []int, maxCalls int) (used []int, results []Res, crash string, note string) {
	if theChild == nil {
		theChild = startChild()
	}
	c := theChild
	js, _ := json.Marshal(job{src, sch, base64.StdEncoding.EncodeToString(stream), dests, maxCalls})
	type reply struct {
		line []byte
		err  error
	}
	ch := make(chan reply, 1)
	go func() {
		if _, err := c.in.Write(append(js, '\n')); err != nil {
			ch <- reply{nil, err}
			return
		}
		line, err := c.out.ReadBytes('\n')
		ch <- reply{line, err}
	}()
	select {
	case r := <-ch:
		if r.err == nil {
			var o jobOut
			if e := json.Unmarshal(r.line, &o); e != nil {
				fatal("bad child reply: %v", e)
			}
			if o.Alloc > hugeAlloc {
				return o.Used, o.Results, "OHuge", fmt.Sprintf("%d MB allocated", o.Alloc>>20)
			}
			return o.Used, o.Results, "", ""
		}
		// the child died
		c.in.Close()
		_ = c.cmd.Wait()
		theChild = nil
		se := c.stderr.String()
		first := se
		if i := strings.IndexByte(first, '\n'); i >= 0 {
			first = first[:i]
		}
		if strings.Contains(se, "out of memory") || strings.Contains(se, "cannot allocate memory") {
			return nil, nil, "OOom", first
		}
		return nil, nil, "OCrash", first
	case <-time.After(caseTimeout):
		_ = c.cmd.Process.Kill()
		_ = c.cmd.Wait()
		theChild = nil
		return nil, nil, "OHang", "no answer within the watchdog"
	}
}

func fatal(format string, args ...interface{}) {
	fmt.Fprintf(os.Stderr, "c07: "+format+"\n", args...)
	os.Exit(2)
}

// ---------------------------------------------------------------- cases

type Damage struct {
	K    string `json:"k"` // flip trunc burst
	Pos  int    `json:"pos"`
	Xors []int  `json:"xors,omitempty"`
}

type Desc struct {
	Sch   []string `json:"sch"`
	Ops   []Batch  `json:"ops"` // the batches written (named ops for the generic shrinker)
	Dests []int    `json:"dests"`
	Dmg   *Damage  `json:"dmg,omitempty"`
	Src   string   `json:"src,omitempty"` // byte source the observation was made with (replay: only this one)
}

type streamInfo struct {
	sch     []string
	batches []Batch
	bytes   []byte
	msgEnds []int
	toks    []Tok
	name    string // Coq name when shared through the prelude
	def     string // Coq term
}

func nbytes(b []byte) string { return "(" + vf.Bytes(b) + ")%N" }

func buildStream(sch []string, batches []Batch) *streamInfo {
	bs, ends, err := encodeStream(sch, batches)
	if err != nil {
		fatal("encoding failed: %v", err)
	}
	toks, term := tokenize(bs, sch)
	if term != "SIoEOF" {
		fatal("oracle cannot re-read an undamaged stream: %s after %d tokens", term, len(toks))
	}
	s := &streamInfo{sch: sch, batches: batches, bytes: bs, msgEnds: ends, toks: toks}
	kinds := make([]string, len(sch))
	for i, n := range sch {
		kinds[i] = ct(n).kind
	}
	bts := make([]string, len(batches))
	for i, b := range batches {
		cs := make([]string, len(b))
		for c := range b {
			cs[c] = vf.ZListList(b[c])
		}
		bts[i] = vf.List(cs)
	}
	tt := make([]string, len(toks))
	pos, mi := 0, 0
	for i, t := range toks {
		end := pos + t.Used
		for mi < len(ends) && ends[mi] <= end {
			mi++
		}
		if mi == 0 || ends[mi-1] != end {
			fatal("token %d does not end at a gob message boundary", i)
		}
		tt[i] = vf.Tuple(t.term(), nbytes(bs[pos:end]))
		pos = end
	}
	s.def = vf.App("mkStream", vf.List(kinds), vf.List(bts), vf.List(tt))
	return s
}

func resultsTerm(rs []Res) string {
	ss := make([]string, len(rs))
	for i, r := range rs {
		ss[i] = r.term()
	}
	return vf.List(ss)
}

func totalRows(bs []Batch) int {
	n := 0
	for _, b := range bs {
		n += nrows(b)
	}
	return n
}

func (s *streamInfo) ref() string {
	if s.name != "" {
		return s.name
	}
	return s.def
}

// roundCases decodes the stream through every byte source and returns one case
// per distinct observation (one, when the reader is source-agnostic as it must be).
func roundCases(s *streamInfo, dests []int, only string) []vf.Case {
	max := totalRows(s.batches) + len(s.batches) + 3
	maxb := 0
	for _, b := range s.batches {
		if nrows(b) > maxb {
			maxb = nrows(b)
		}
	}
	buffered := false
	for _, d := range dests {
		if d < maxb {
			buffered = true
		}
	}
	kind := "round/direct"
	if buffered {
		kind = "round/buffered"
	}
	var cases []vf.Case
	seen := map[string]int{}
	for _, src := range srcList(only) {
		used, res := runReads(s.bytes, src, s.sch, dests, max)
		term := vf.App("CRound", s.ref(), vf.NatList(used), resultsTerm(res), "ONone")
		if k, ok := seen[term]; ok {
			cases[k].Observed = cases[k].Observed.(string) + "+" + src
			continue
		}
		seen[term] = len(cases)
		nt := ""
		if len(s.batches) > 0 && totalRows(s.batches) > 0 {
			nt = vf.Hash(term)
		}
		kd := kind
		if len(cases) > 0 {
			kd += "/differs-with-source"
		}
		cases = append(cases, vf.Case{Term: term, Desc: Desc{Sch: s.sch, Ops: s.batches, Dests: dests, Src: src}, Sig: "codec-roundtrip", Nontriv: nt, Kind: kd,
			Observed: fmt.Sprintf("%d bytes, %d reads, last=%s, sources=%s", len(s.bytes), len(res), lastOf(res), src)})
	}
	return cases
}

func lastOf(res []Res) string {
	if len(res) == 0 {
		return "none"
	}
	r := res[len(res)-1]
	if r.K == "err" {
		return r.E
	}
	return r.K
}

func applyDamage(b []byte, d Damage) []byte {
	out := append([]byte{}, b...)
	switch d.K {
	case "flip":
		out[d.Pos/8] ^= 1 << uint(d.Pos%8)
	case "trunc":
		out = out[:d.Pos]
	case "burst":
		for i, x := range d.Xors {
			if d.Pos+i < len(out) {
				out[d.Pos+i] ^= byte(x)
			}
		}
	}
	return out
}

func nlit(x int) string { return fmt.Sprintf("%d%%N", x) }

func (d Damage) term() string {
	switch d.K {
	case "flip":
		return vf.App("DFlip", nlit(d.Pos))
	case "trunc":
		return vf.App("DTrunc", nlit(d.Pos))
	}
	xs := make([]string, len(d.Xors))
	for i, x := range d.Xors {
		xs[i] = fmt.Sprintf("%d", x)
	}
	return vf.App("DBurst", nlit(d.Pos), "("+vf.List(xs)+")%N")
}

// observed result lists of damage cases repeat a lot (the same correct prefix,
// the same error): they are defined once in the prelude
var obsDefs []string
var obsIndex = map[string]int{}

func shareObs(term string) string {
	if len(term) < 40 {
		return term
	}
	i, ok := obsIndex[term]
	if !ok {
		i = len(obsDefs)
		obsIndex[term] = i
		obsDefs = append(obsDefs, term)
	}
	return fmt.Sprintf("obs_%d", i)
}

// batchEnds returns the byte offset at which each batch ends.
func (s *streamInfo) batchEnds() []int {
	var ends []int
	pos := 0
	for _, t := range s.toks {
		pos += t.Used
		if t.K == "crc" {
			ends = append(ends, pos)
		}
	}
	return ends
}

// crcPrefixDamage reports whether every damaged byte of d is the first byte (the
// gob message length prefix) of the checksum token of one batch, with a damaged
// value equal to the number of bytes that follow it in the stream, and which batch.
func (s *streamInfo) crcPrefixDamage(d Damage) (batch int, ok bool) {
	var first, n int
	switch d.K {
	case "flip":
		first, n = d.Pos/8, 1
	case "burst":
		first, n = d.Pos, len(d.Xors)
	default:
		return 0, false
	}
	if n != 1 {
		return 0, false
	}
	pos, k := 0, 0
	for _, t := range s.toks {
		if t.K == "crc" {
			if pos == first {
				// ... and the damaged prefix announces exactly the bytes left in the stream
				nb := applyDamage(s.bytes, d)[pos]
				return k, int(nb) == len(s.bytes)-pos-1
			}
			k++
		}
		pos += t.Used
	}
	return 0, false
}

// classify the observed behaviour on a damaged stream (for Sig/Kind only; the
// verdict is computed by Coq from the same observations).
func classify(s *streamInfo, d Damage, res []Res, crash string) (outcome, sig string) {
	switch crash {
	case "OOom", "OHuge":
		return "unbounded-alloc", "codec-unbounded-alloc-on-corrupt-length"
	case "OHang":
		return "hang", "codec-hang-on-corrupt-stream"
	case "OCrash":
		return "crash", "codec-crash-on-corrupt-stream"
	}
	// flatten the rows written, column 0 suffices for counting; compare all columns
	var want, got Batch
	want = make(Batch, len(s.sch))
	got = make(Batch, len(s.sch))
	for _, b := range s.batches {
		for c := range b {
			want[c] = append(want[c], b[c]...)
		}
	}
	firstErr := ""
	for _, r := range res {
		switch r.K {
		case "ok":
			if firstErr != "" {
				return "ok-after-error", "codec-error-not-sticky"
			}
			for c := range r.Rows {
				got[c] = append(got[c], r.Rows[c]...)
			}
		case "err":
			if firstErr == "" {
				firstErr = r.E
			}
		case "panic":
			if strings.Contains(r.Msg, "frame.Slice") || strings.Contains(r.Msg, "frame.Make") || strings.Contains(r.Msg, "makeslice") {
				return "panic", "codec-panic-on-corrupt-length"
			}
			if strings.Contains(r.Msg, "gob reallocated a slice") {
				return "panic", "codec-panic-gob-reallocated-slice"
			}
			return "panic", "codec-panic-on-corrupt-stream"
		}
	}
	for c := range got {
		if len(got[c]) > len(want[c]) {
			return "wrong-rows", "codec-wrong-rows"
		}
		for i := range got[c] {
			if !reflect.DeepEqual(got[c][i], want[c][i]) {
				return "wrong-rows", "codec-wrong-rows"
			}
		}
	}
	ngot := nrows(got)
	atBoundary := false
	rowsBefore := 0
	if d.K == "trunc" {
		ends := s.batchEnds()
		if d.Pos == 0 {
			atBoundary = true
		}
		for i, e := range ends {
			if e == d.Pos {
				atBoundary = true
				rowsBefore = totalRows(s.batches[:i+1])
			}
		}
	}
	switch firstErr {
	case "":
		return "no-error", "codec-no-error-on-damaged-stream"
	case "EEOF":
		if atBoundary && ngot == rowsBefore {
			return "valid-prefix", "codec-damage"
		}
		// A special position: the damage is confined to the length prefix of the
		// checksum message of batch k (bytes that no checksum covers), batch k is
		// accepted with its correct rows, and everything after it is lost.
		if k, ok := s.crcPrefixDamage(d); ok && ngot == totalRows(s.batches[:k+1]) && ngot < totalRows(s.batches) {
			return "silent-eof", "codec-crc-prefix-swallows-rest-of-stream"
		}
		return "silent-eof", "codec-silent-eof-on-damaged-framing"
	}
	if ngot == 0 {
		return "error", "codec-damage"
	}
	return "prefix-then-error", "codec-damage"
}

func damageCases(s *streamInfo, d Damage, dests []int, only string) ([]vf.Case, []string) {
	dam := applyDamage(s.bytes, d)
	otoks, term := tokenize(dam, s.sch)
	keep := 0
	for keep < len(otoks) && keep < len(s.toks) && otoks[keep].same(s.toks[keep]) {
		keep++
	}
	// when the oracle read the damaged stream to its end, its last entries are usually
	// those of the original script again: refer to them instead of repeating them
	tail := 0
	if term == "SIoEOF" {
		for tail < len(otoks)-keep && tail < len(s.toks)-keep && otoks[len(otoks)-1-tail].same(s.toks[len(s.toks)-1-tail]) {
			tail++
		}
	}
	resume := "None"
	if tail > 0 {
		resume = vf.Some(nlit(len(s.toks) - tail))
	}
	extra := make([]string, 0, len(otoks)-keep-tail)
	for _, t := range otoks[keep : len(otoks)-tail] {
		extra = append(extra, vf.Tuple(t.term(), nlit(t.Used)))
	}
	max := totalRows(s.batches) + len(s.batches) + 3
	var cases []vf.Case
	var outcomes []string
	seen := map[string]int{}
	for _, src := range srcList(only) {
		used, res, crash, note := decodeGuarded(dam, src, s.sch, dests, max)
		if used == nil { // the child died: the calls are unknown, give the model the nominal ones
			for i := 0; i < max; i++ {
				used = append(used, dests[i%len(dests)])
			}
		}
		cr := crash
		if cr == "" {
			cr = "ONone"
		}
		tm := vf.App("CDamage", s.ref(), d.term(), nlit(keep), vf.List(extra), resume, term, vf.NatList(used), shareObs(resultsTerm(res)), cr)
		if k, ok := seen[tm]; ok {
			cases[k].Observed = cases[k].Observed.(string) + "+" + src
			continue
		}
		seen[tm] = len(cases)
		outcome, sig := classify(s, d, res, crash)
		obs := fmt.Sprintf("%s oracle=%s@tok%d last=%s %s", outcome, term, len(otoks), lastOf(res), note)
		for _, r := range res {
			if r.K == "panic" {
				obs += " panic: " + r.Msg
			}
		}
		kd := "damage/" + d.K + "/" + outcome
		if len(cases) > 0 {
			kd += "/differs-with-source"
		}
		dd := d
		cases = append(cases, vf.Case{Term: tm, Desc: Desc{Sch: s.sch, Ops: s.batches, Dests: dests, Dmg: &dd, Src: src}, Sig: sig,
			Nontriv: vf.Hash(tm), Kind: kd, Observed: strings.TrimSpace(obs) + " sources=" + src})
		outcomes = append(outcomes, outcome)
		if crash != "" {
			break // an allocation of that size is not repeated for the other sources
		}
	}
	return cases, outcomes
}

// ---------------------------------------------------------------- generators

var schemas = [][]string{
	{"int"}, {"string"}, {"pair"}, {"vint"}, {"int", "string"}, {"pair", "vint"},
	{"string", "pair", "vint"}, {"vint", "int"}, {"int", "pair"},
	{"vtag"}, {"vtag", "vint"}, {"vtag", "vtag"}, {"int", "vtag"},
}

func genCell(r *vf.Rand, t *colType) []int64 {
	cell := make([]int64, t.arity)
	for k := range cell {
		switch r.Intn(8) {
		case 0, 1:
			cell[k] = 0 // zero values: gob omits zero struct fields
		case 2:
			cell[k] = int64(r.Range(-3, 3))
		case 3:
			cell[k] = int64(r.Range(-70000, 70000))
		case 4:
			cell[k] = int64(r.Uint64()>>24) - (1 << 39)
		default:
			cell[k] = int64(r.Range(1, 200))
		}
		if t.name == "string" || (t.name == "pair" && k == 1) {
			if cell[k] < 0 {
				cell[k] = -cell[k]
			}
		}
	}
	return cell
}

func genBatch(r *vf.Rand, sch []string, n int) Batch {
	b := make(Batch, len(sch))
	for c, name := range sch {
		t := ct(name)
		b[c] = make([][]int64, n)
		for i := range b[c] {
			b[c][i] = genCell(r, t)
		}
	}
	return b
}

var gridBatch = []int{0, 1, 2, 127, 128, 129}
var gridDest = []int{1, 2, 127, 128, 129}

func main() {
	if len(os.Args) > 1 && os.Args[1] == "-child" {
		childMain()
		return
	}
	opts := vf.ParseFlags()
	thorough := opts.Tier == "thorough"
	out := &vf.Output{ID: "C07", Import: "BS.C07.Corr",
		Rule: "every stream is decoded through three byte sources (bytes.Reader; a plain io.Reader without ReadByte; a plain reader delivering 1..7 bytes per call), one case per distinct observation; " +
			"round trips over 9 column signatures (int, string, gob struct, session codec), the size grid {0,1,2,127,128,129}x{1,2,127,128,129} and random batch/destination sequences; " +
			"then every single-bit flip and every truncation point of small streams, sampled flips/truncations and random 1-4 byte bursts of larger ones; " +
			"non-trivial = a stream with at least one row (round trips) / every damage case; distinct by case text",
		Extra: map[string]interface{}{}}
	root := vf.NewRand(opts.Seed)
	var shared []*streamInfo
	share := func(s *streamInfo) *streamInfo {
		s.name = fmt.Sprintf("strm_%d", len(shared))
		shared = append(shared, s)
		return s
	}
	outcomes := map[string]int{}
	only := ""
	addRound := func(s *streamInfo, dests []int) {
		for _, c := range roundCases(s, dests, only) {
			out.Add(c)
		}
	}
	addDamageOc := func(s *streamInfo, d Damage, dests []int) string {
		cs, ocs := damageCases(s, d, dests, only)
		for i, c := range cs {
			outcomes[ocs[i]]++
			out.Add(c)
		}
		// the worst outcome over the sources, for the per-stream tallies
		oc := ocs[0]
		for _, o := range ocs {
			if o != "error" && o != "prefix-then-error" && o != "valid-prefix" {
				oc = o
			}
		}
		return oc
	}
	addDamage := func(s *streamInfo, d Damage, dests []int) { addDamageOc(s, d, dests) }

	if opts.Replay != "" {
		var descs []Desc
		if err := vf.LoadReplay(opts.Replay, &descs); err != nil {
			fatal("%v", err)
		}
		for _, d := range descs {
			if len(d.Dests) == 0 {
				d.Dests = []int{1}
			}
			only = d.Src
			for i, b := range d.Ops { // a shrunk description may be ragged: skip broken batches
				if len(b) != len(d.Sch) {
					d.Ops = append(d.Ops[:i:i], d.Ops[i+1:]...)
					break
				}
			}
			s := buildStream(d.Sch, d.Ops)
			if d.Dmg == nil {
				addRound(s, d.Dests)
				continue
			}
			dm := *d.Dmg
			limit := len(s.bytes)
			if dm.K == "flip" {
				limit *= 8
			}
			if limit == 0 {
				addRound(s, d.Dests)
				continue
			}
			dm.Pos %= limit
			addDamage(share(s), dm, d.Dests)
		}
	} else {
		// ---- round trips: the grid
		gr := root.Split()
		gridSchemas := [][]string{{"int"}, {"pair", "vint"}}
		if thorough {
			gridSchemas = [][]string{{"int"}, {"string"}, {"pair"}, {"vint"}, {"string", "pair", "vint"}}
		}
		for si, sch := range gridSchemas {
			for bi, bn := range gridBatch {
				for di, dn := range gridDest {
					if !thorough && si > 0 && (bi+di)%3 != 0 {
						continue // quick tier: the full grid on the first signature, a third of it on the others
					}
					// the grid batch between two small ones, so that buffering state is carried over
					bs := []Batch{genBatch(gr, sch, gr.Range(0, 2)), genBatch(gr, sch, bn), genBatch(gr, sch, gr.Range(1, 3))}
					addRound(buildStream(sch, bs), []int{dn})
				}
			}
		}
		// ---- round trips: random
		nr := 60
		if thorough {
			nr = 600
		}
		nr *= opts.Scale
		rr := root.Split()
		for i := 0; i < nr; i++ {
			r := rr.Split()
			sch := schemas[r.Intn(len(schemas))]
			nb := r.Range(0, 5)
			var bs []Batch
			for k := 0; k < nb; k++ {
				n := r.Range(0, 9)
				if r.Chance(1, 8) {
					n = r.Pick(gridBatch)
				}
				bs = append(bs, genBatch(r, sch, n))
			}
			nd := r.Range(1, 4)
			dests := make([]int, nd)
			for k := range dests {
				dests[k] = r.Range(1, 6)
				if r.Chance(1, 8) {
					dests[k] = r.Pick(gridDest)
				}
			}
			addRound(buildStream(sch, bs), dests)
		}
		// ---- damage
		dr := root.Split()
		exhaustive := []interface{}{}
		sweep := func(s *streamInfo, dests []int) {
			share(s)
			tally := map[string]int{}
			badAt := map[string][]int{}
			note := func(kind string, pos int, oc string) {
				tally[kind+"/"+oc]++
				if oc != "error" && oc != "prefix-then-error" && oc != "valid-prefix" {
					badAt[kind+"/"+oc] = append(badAt[kind+"/"+oc], pos)
				}
			}
			for bit := 0; bit < 8*len(s.bytes); bit++ {
				note("flip", bit, addDamageOc(s, Damage{K: "flip", Pos: bit}, dests))
			}
			for cut := 0; cut < len(s.bytes); cut++ {
				note("trunc", cut, addDamageOc(s, Damage{K: "trunc", Pos: cut}, dests))
			}
			exhaustive = append(exhaustive, map[string]interface{}{
				"stream": s.name, "columns": s.sch, "bytes": len(s.bytes), "rows": totalRows(s.batches),
				"flips": 8 * len(s.bytes), "truncations": len(s.bytes), "outcomes": tally, "bad_positions": badAt})
		}
		sample := func(s *streamInfo, r *vf.Rand, nflip, ntrunc, nburst int, dests []int) {
			share(s)
			for i := 0; i < nflip; i++ {
				addDamage(s, Damage{K: "flip", Pos: r.Intn(8 * len(s.bytes))}, dests)
			}
			for i := 0; i < ntrunc; i++ {
				addDamage(s, Damage{K: "trunc", Pos: r.Intn(len(s.bytes))}, dests)
			}
			for i := 0; i < nburst; i++ {
				n := r.Range(1, 4)
				xs := make([]int, n)
				for k := range xs {
					xs[k] = r.Range(1, 255)
				}
				addDamage(s, Damage{K: "burst", Pos: r.Intn(len(s.bytes)), Xors: xs}, dests)
			}
		}
		// the stream of the design probe: one batch [1,2,3] of one int column (36 bytes)
		probe := buildStream([]string{"int"}, []Batch{{{{1}, {2}, {3}}}})
		sweep(probe, []int{4})
		// crafted 9-byte bursts over the length message of the probe stream: the batch length
		// becomes a multi-byte gob integer n (the next message is swallowed as its bytes)
		for _, n := range []uint64{1 << 20, 1 << 26, 1 << 36} {
			want := []byte{8, 4, 0, 0xFB, byte(n >> 31), byte(n >> 23), byte(n >> 15), byte(n >> 7), byte(n << 1)}
			xs := make([]int, len(want))
			for i := range want {
				xs[i] = int(want[i] ^ probe.bytes[i])
			}
			addDamage(probe, Damage{K: "burst", Pos: 0, Xors: xs}, []int{4})
		}
		// streams whose columns ALL have custom codecs: no gob column, hence no
		// column-length cross-check; only the checksum protects the batch length.
		// Swept exhaustively in both tiers, destinations below/equal/above the batch sizes.
		sweep(buildStream([]string{"vtag"}, []Batch{{{{5}, {0}, {9}}}, {{{7}, {300}}}}), []int{2, 3, 4})
		sweep(buildStream([]string{"vtag", "vtag"}, []Batch{{{{1}}, {{2}}}, {{{3}, {4}}, {{0}, {6}}}}), []int{1})
		small := []struct {
			sch []string
			bs  []Batch
			d   []int
		}{
			{[]string{"vint"}, []Batch{{{{5}, {9}}}, {{{9}, {2}, {300}}}}, []int{2}},
			{[]string{"pair", "vint"}, []Batch{{{{1, 2}, {0, 7}}, {{4}, {4}}}, {{{3, 0}}, {{1000}}}}, []int{1}},
			{[]string{"string", "int"}, []Batch{{{{12}, {0}, {7}}, {{-1}, {2}, {70000}}}, {}, {{{5}}, {{6}}}}, []int{2, 1}},
		}
		small[2].bs[1] = Batch{{}, {}}
		for i, sm := range small {
			s := buildStream(sm.sch, sm.bs)
			if thorough {
				sweep(s, sm.d)
			} else {
				sample(s, dr.Split(), 60, 25, 25, sm.d)
				// crafted: a single flipped bit that makes the length prefix of a checksum
				// message equal to the number of bytes left in the stream (known finding
				// codec-crc-prefix-swallows-rest-of-stream), where one exists
				pos := 0
				for _, t := range s.toks {
					if t.K == "crc" {
						rest := len(s.bytes) - pos - 1
						x := int(s.bytes[pos]) ^ rest
						if rest > 0 && rest < 128 && x != 0 && x&(x-1) == 0 && pos+t.Used < len(s.bytes) {
							bit := 0
							for x>>uint(bit) != 1 {
								bit++
							}
							addDamage(s, Damage{K: "flip", Pos: 8*pos + bit}, sm.d)
						}
					}
					pos += t.Used
				}
			}
			_ = i
		}
		nbig := 2
		if thorough {
			nbig = 6 * opts.Scale
		}
		for i := 0; i < nbig; i++ {
			r := dr.Split()
			sch := schemas[(i*2+6)%len(schemas)]
			maxRows := 12
			if thorough && i < 3 {
				maxRows = 12 + 14*i // streams of a few hundred bytes up to about 2 kB
			}
			var bs []Batch
			for k := 0; k < r.Range(2, 4); k++ {
				bs = append(bs, genBatch(r, sch, r.Range(0, maxRows)))
			}
			s := buildStream(sch, bs)
			if thorough && len(s.bytes) <= 2048 && i < 3 {
				sweep(s, []int{r.Range(1, 8)})
			} else if thorough {
				sample(s, r, 300, 100, 300, []int{r.Range(1, 8)})
			} else {
				sample(s, r, 25, 10, 25, []int{r.Range(1, 8)})
			}
		}
		if len(exhaustive) > 0 {
			out.Extra["exhaustive"] = true
			out.Extra["exhaustive_streams"] = exhaustive
		}
	}
	if theChild != nil {
		theChild.in.Close()
		_ = theChild.cmd.Wait()
	}
	out.Extra["damage_outcomes"] = outcomes
	var pre strings.Builder
	for _, s := range shared {
		fmt.Fprintf(&pre, "Definition %s : stream := %s.\n", s.name, s.def)
	}
	for i, o := range obsDefs {
		fmt.Fprintf(&pre, "Definition obs_%d : list rres := %s.\n", i, o)
	}
	out.Prelude = pre.String()
	if err := out.Write(opts.Out, opts); err != nil {
		fatal("%v", err)
	}
}

// Command c08 checks property C08: an invocation compiles to the same
// well-formed task graph everywhere.
//
// A case is a small slice program (a gob-encodable AST). One registered
// bigslice.Func interprets the AST with the real operator constructors, so the
// AST is the Func's argument and travels with the invocation. The invocation is
// compiled by the real exec.compile
//
//	kind 0  as (*Session).run does (fresh writable CompileEnv, then Freeze),
//	kind 1  again in the same process with the session's frozen invocation,
//	kind 2  by the real (*worker).Compile from the gob bytes the bigmachine
//	        executor ships (addInvocation + invocationReader of task.Invocation),
//	kind 3  the same in a separately started OS process (this binary, child mode),
//
// possibly with a different state of the slice caches for kinds 1-3. Each
// process describes the slice DAG it compiled through the bigslice.Slice
// interface (what compile() can see) and dumps every reachable task. The Coq
// side (coq/C08/Corr.v) compiles the DAG with the model, compares, and judges
// the observed graphs.
package main

import (
	"bytes"
	"context"
	"encoding/gob"
	"fmt"
	"os"
	osexec "os/exec"
	"path/filepath"
	"reflect"
	"sort"
	"strings"
	"time"

	"github.com/grailbio/bigslice"
	"github.com/grailbio/bigslice/exec"
	"github.com/grailbio/bigslice/sliceio"
	"verifharness/vf"
)

// ---------------------------------------------------------------- programs

// Op is one node of a slice program. Inputs refer to earlier ops (taken modulo
// the op's own index, so every list of ops is a valid program: the generic
// shrinker removes ops one at a time).
type Op struct {
	K   string `json:"k"`
	In  []int  `json:"in,omitempty"`
	N   int    `json:"n,omitempty"`   // shard count (const, reader, reshard), head count, argument index (result)
	Mat bool   `json:"mat,omitempty"` // ExperimentalMaterialize pragma (reader, map, filter, flatmap)
	DC  []int  `json:"dc,omitempty"`  // cache ops: shards whose cache file exists when the driver compiles
	WC  []int  `json:"wc,omitempty"`  // cache ops: shards whose cache file exists afterwards (kinds 1-3)
}

// Prog is the Func argument.
type Prog struct {
	Ops      []Op
	CacheDir string // not part of the case description (temp dir)
}

// Desc is the replayable description of a case.
type Desc struct {
	Ops      []Op   `json:"ops"`             // the program under test; the last op is the result
	First    [][]Op `json:"first,omitempty"` // programs run/compiled before; their Results are arguments
	RunFirst bool   `json:"runfirst"`        // evaluate First in a real Local session (else compile only)
	MC       bool   `json:"mc"`              // machine combiners
	Child    bool   `json:"child"`           // also compile in a separately started OS process
}

func shards(n int) int {
	if n < 0 {
		n = -n
	}
	return 1 + n%4
}

func mkConst(n int) bigslice.Slice {
	return bigslice.Const(n, []int{1, 2, 3, 4, 5, 6}, []int{10, 20, 30, 40, 50, 60})
}

// typOf: 0 = Slice<int,int>; k>0 = Slice<int,[]int x k> (a cogroup of k); -1 otherwise.
func typOf(s bigslice.Slice) int {
	tInt, tInts := reflect.TypeOf(int(0)), reflect.TypeOf([]int(nil))
	if s.NumOut() < 2 || s.Out(0) != tInt {
		return -1
	}
	if s.NumOut() == 2 && s.Out(1) == tInt {
		return 0
	}
	for i := 1; i < s.NumOut(); i++ {
		if s.Out(i) != tInts {
			return -1
		}
	}
	return s.NumOut() - 1
}

// norm brings a cogroup output back to Slice<int,int> with a Map.
func norm(s bigslice.Slice) bigslice.Slice {
	switch typOf(s) {
	case 0:
		return s
	case 1:
		return bigslice.Map(s, func(k int, a []int) (int, int) { return k, len(a) })
	case 2:
		return bigslice.Map(s, func(k int, a, b []int) (int, int) { return k, len(a) + len(b) })
	case 3:
		return bigslice.Map(s, func(k int, a, b, c []int) (int, int) { return k, len(a) + len(b) + len(c) })
	}
	panic(fmt.Sprintf("c08: cannot normalise %s", bigslice.String(s)))
}

func prags(op Op) []bigslice.Pragma {
	if op.Mat {
		return []bigslice.Pragma{bigslice.ExperimentalMaterialize}
	}
	return nil
}

type readState struct{ done bool }

// build interprets a program with the real constructors.
func build(p Prog, args []bigslice.Slice) bigslice.Slice {
	ctx := context.Background()
	var vals []bigslice.Slice
	for i, op := range p.Ops {
		in := func(k int) bigslice.Slice {
			if i == 0 {
				return mkConst(shards(op.N))
			}
			j := 0
			if k < len(op.In) {
				j = op.In[k]
			}
			if j < 0 {
				j = -j
			}
			return vals[j%i]
		}
		cachePath := filepath.Join(p.CacheDir, fmt.Sprintf("c%d", i))
		var s bigslice.Slice
		switch op.K {
		case "reader":
			s = bigslice.ReaderFunc(shards(op.N), func(shard int, st *readState, k, v []int) (int, error) {
				if st.done || len(k) == 0 {
					return 0, sliceio.EOF
				}
				st.done = true
				k[0], v[0] = shard, shard
				return 1, sliceio.EOF
			}, prags(op)...)
		case "result":
			if op.N >= 0 && op.N < len(args) && args[op.N] != nil {
				s = args[op.N]
			} else {
				s = mkConst(shards(op.N))
			}
		case "map":
			s = bigslice.Map(norm(in(0)), func(k, v int) (int, int) { return k, v + 1 }, prags(op)...)
		case "filter":
			s = bigslice.Filter(norm(in(0)), func(k, v int) bool { return v%2 == 0 }, prags(op)...)
		case "flatmap":
			s = bigslice.Flatmap(norm(in(0)), func(k, v int) ([]int, []int) { return []int{k, k + 1}, []int{v, v} }, prags(op)...)
		case "reduce":
			s = bigslice.Reduce(norm(in(0)), func(a, b int) int { return a + b })
		case "fold":
			s = bigslice.Fold(norm(in(0)), func(acc int, v int) int { return acc + v })
		case "cogroup":
			n := len(op.In)
			if n < 1 {
				n = 1
			}
			if n > 3 {
				n = 3
			}
			ins := make([]bigslice.Slice, n)
			for k := range ins {
				ins[k] = norm(in(k))
			}
			s = bigslice.Cogroup(ins...)
		case "reshuffle":
			s = bigslice.Reshuffle(in(0))
		case "reshard":
			s = bigslice.Reshard(in(0), shards(op.N))
		case "repartition":
			s = bigslice.Repartition(norm(in(0)), func(nshard, k, v int) int { return (k + v) % nshard })
		case "head":
			s = bigslice.Head(in(0), 1+shards(op.N)%3)
		case "prefixed":
			s = bigslice.Prefixed(in(0), 1)
		case "cache":
			s = bigslice.Cache(ctx, in(0), cachePath)
		case "cachepartial":
			s = bigslice.CachePartial(ctx, in(0), cachePath)
		default: // "const" and anything unknown
			s = mkConst(shards(op.N))
		}
		vals = append(vals, s)
	}
	if len(vals) == 0 {
		return mkConst(1)
	}
	return vals[len(vals)-1]
}

// The Funcs. They must be created at init, in the same order in every process.
var (
	f0 = bigslice.Func(func(p Prog) bigslice.Slice { return build(p, nil) })
	f1 = bigslice.Func(func(p Prog, r0 *exec.Result) bigslice.Slice {
		return build(p, []bigslice.Slice{r0})
	})
	f2 = bigslice.Func(func(p Prog, r0 *exec.Result, r1 bigslice.Slice) bigslice.Slice {
		return build(p, []bigslice.Slice{r0, r1})
	})
)

// ---------------------------------------------------------------- observation

type DepDump struct {
	Target                  int
	Shuffle, Custom, Expand bool
}

type NodeDump struct {
	Op       string
	NShard   int
	Deps     []DepDump
	Comb     bool
	Mat      bool
	IsResult bool
	Result   []int // result.tasks (ids in the initial store)
	HasCache bool
	Cache    []bool
}

type TDepDump struct {
	Head, Partition int
	Expand          bool
	CombineKey      string
}

type TaskDump struct {
	Inv             uint64
	Op              string
	Shard, NShard   int
	NumPart         int
	PartKind        int
	HasComb         bool
	CombineKey      string
	Deps            []TDepDump
	Group           []int
	Slices          []int
	EnvWritable     bool // task.Invocation.Env.IsWritable(): diagnostics only
	InvocationIndex uint64
}

// Obs is what one process saw and produced for one compilation.
type Obs struct {
	Kind  int
	Nodes []NodeDump
	NInit int        // tasks [0,NInit) belong to the Results (earlier invocations)
	Tasks []TaskDump // initial store followed by the tasks reachable from the roots
	Roots []int
	Err   int    // 0 ok; 1 error returned; 2 panic; 3 watchdog
	Msg   string // diagnostics only (never compared)
}

const foreignSlice = 999

type observer struct {
	sliceID map[bigslice.Slice]int
	nodes   []NodeDump
	rtasks  [][]*exec.Task // per Result node
	rnode   []int

	taskID map[*exec.Task]int
	order  []*exec.Task
}

// walk numbers the slices reachable from s in post-order, identifying slices the
// way the compiler's memo does (interface equality), and records of each what
// compile() can ask of it.
func (o *observer) walk(s bigslice.Slice) int {
	if id, ok := o.sliceID[s]; ok {
		return id
	}
	n := NodeDump{Op: s.Name().Op, NShard: s.NumShard(), Comb: !s.Combiner().IsNil()}
	if p, ok := s.(bigslice.Pragma); ok && p.Materialize() {
		n.Mat = true
	}
	if view, ok := exec.VerifC08CacheView(s); ok {
		n.HasCache, n.Cache = true, view
	}
	var rtasks []*exec.Task
	if ts, _, ok := exec.VerifC08ResultTasks(s); ok {
		n.IsResult = true
		rtasks = ts
	} else {
		for i := 0; i < s.NumDep(); i++ {
			d := s.Dep(i)
			t := o.walk(d.Slice)
			n.Deps = append(n.Deps, DepDump{t, d.Shuffle, d.Partitioner != nil, d.Expand})
		}
	}
	id := len(o.nodes)
	o.nodes = append(o.nodes, n)
	o.sliceID[s] = id
	if n.IsResult {
		o.rtasks = append(o.rtasks, rtasks)
		o.rnode = append(o.rnode, id)
	}
	return id
}

// number assigns identities in depth-first post-order over dependency edges, so
// that in an acyclic graph every dependency has a smaller identity.
func (o *observer) number(t *exec.Task) {
	if _, ok := o.taskID[t]; ok {
		return
	}
	o.taskID[t] = -1 // in progress
	for _, d := range t.Deps {
		for i := 0; i < d.NumTask(); i++ {
			o.number(d.Task(i))
		}
	}
	o.taskID[t] = len(o.order)
	o.order = append(o.order, t)
}

// sweep numbers tasks that are referenced only as group peers.
func (o *observer) sweep() {
	for changed := true; changed; {
		changed = false
		for _, t := range append([]*exec.Task(nil), o.order...) {
			for _, g := range t.Group {
				if _, ok := o.taskID[g]; !ok {
					o.number(g)
					changed = true
				}
			}
		}
	}
}

func (o *observer) dumpTask(t *exec.Task) TaskDump {
	d := TaskDump{
		Inv: t.Name.InvIndex, Op: t.Name.Op, Shard: t.Name.Shard, NShard: t.Name.NumShard,
		NumPart: t.NumPartition, PartKind: exec.VerifC08PartitionerKind(t),
		HasComb: !t.Combiner.IsNil(), CombineKey: t.CombineKey,
		EnvWritable: exec.VerifC08EnvWritable(t), InvocationIndex: exec.VerifC08TaskInvIndex(t),
	}
	for _, dep := range t.Deps {
		d.Deps = append(d.Deps, TDepDump{o.taskID[dep.Head], dep.Partition, dep.Expand, dep.CombineKey})
	}
	for _, g := range t.Group {
		d.Group = append(d.Group, o.taskID[g])
	}
	for _, s := range t.Slices {
		if id, ok := o.sliceID[s]; ok {
			d.Slices = append(d.Slices, id)
		} else {
			d.Slices = append(d.Slices, foreignSlice)
		}
	}
	return d
}

// observe describes a compiled slice and its tasks.
func observe(kind int, slice bigslice.Slice, roots []*exec.Task) Obs {
	o := &observer{sliceID: map[bigslice.Slice]int{}, taskID: map[*exec.Task]int{}}
	o.walk(slice)
	for _, ts := range o.rtasks {
		for _, t := range ts {
			o.number(t)
		}
	}
	o.sweep()
	ninit := len(o.order)
	for k, ts := range o.rtasks {
		ids := make([]int, len(ts))
		for i, t := range ts {
			ids[i] = o.taskID[t]
		}
		o.nodes[o.rnode[k]].Result = ids
	}
	for _, t := range roots {
		o.number(t)
	}
	o.sweep()
	obs := Obs{Kind: kind, Nodes: o.nodes, NInit: ninit}
	for _, t := range o.order {
		obs.Tasks = append(obs.Tasks, o.dumpTask(t))
	}
	for _, t := range roots {
		obs.Roots = append(obs.Roots, o.taskID[t])
	}
	return obs
}

func errObs(kind, class int, msg string) Obs { return Obs{Kind: kind, Err: class, Msg: msg} }

// ---------------------------------------------------------------- child mode

type childReq struct {
	MC   bool
	Invs [][]byte // transported invocations, dependencies first
	Main uint64
}

// workerCompile is what a worker does with transported invocations.
func workerCompile(kind int, req childReq) (obs Obs) {
	defer func() {
		if e := recover(); e != nil {
			obs = errObs(kind, 2, fmt.Sprint(e))
		}
	}()
	w := exec.VerifC08NewWorker(req.MC)
	for _, p := range req.Invs {
		if err := w.Compile(p); err != nil {
			class := 1
			if strings.Contains(err.Error(), "invocation panic") {
				class = 2
			}
			return errObs(kind, class, err.Error())
		}
	}
	slice, roots, _, ok := w.Roots(req.Main)
	if !ok {
		return errObs(kind, 1, "invocation not compiled")
	}
	return observe(kind, slice, roots)
}

// canaryMain evaluates a program in a Local session of this (child) process.
// The Local executor runs tasks on goroutines of its own: if the code under
// test is broken badly enough to panic there, the process dies, and it should
// not be the driver.
func canaryMain() {
	var req canaryReq
	if err := gob.NewDecoder(os.Stdin).Decode(&req); err != nil {
		os.Exit(3)
	}
	if _, err := session(req.MC).Run(context.Background(), f0, req.P); err != nil {
		os.Exit(4)
	}
	os.Exit(0)
}

type canaryReq struct {
	MC bool
	P  Prog
}

var canaries = map[string]bool{}

// canary reports whether the program can be evaluated without killing the process.
func canary(mc bool, p Prog) bool {
	key := fmt.Sprint(mc, p.Ops)
	if ok, seen := canaries[key]; seen {
		return ok
	}
	ok := func() bool {
		self, err := os.Executable()
		if err != nil {
			return false
		}
		var in bytes.Buffer
		if err := gob.NewEncoder(&in).Encode(canaryReq{mc, p}); err != nil {
			return false
		}
		ctx, cancel := context.WithTimeout(context.Background(), 60*time.Second)
		defer cancel()
		cmd := osexec.CommandContext(ctx, self)
		cmd.Env = append(os.Environ(), "VERIF_C08_CHILD=canary")
		cmd.Stdin = &in
		return cmd.Run() == nil
	}()
	canaries[key] = ok
	return ok
}

func childMain() {
	if os.Getenv("VERIF_C08_CHILD") == "canary" {
		canaryMain()
	}
	var req childReq
	if err := gob.NewDecoder(os.Stdin).Decode(&req); err != nil {
		fmt.Fprintln(os.Stderr, "c08 child:", err)
		os.Exit(3)
	}
	obs := workerCompile(3, req)
	if err := gob.NewEncoder(os.Stdout).Encode(obs); err != nil {
		fmt.Fprintln(os.Stderr, "c08 child:", err)
		os.Exit(3)
	}
}

func runChild(req childReq) Obs {
	self, err := os.Executable()
	if err != nil {
		return errObs(3, 3, err.Error())
	}
	var in, out, errb bytes.Buffer
	if err := gob.NewEncoder(&in).Encode(req); err != nil {
		return errObs(3, 3, err.Error())
	}
	ctx, cancel := context.WithTimeout(context.Background(), 60*time.Second)
	defer cancel()
	cmd := osexec.CommandContext(ctx, self)
	cmd.Env = append(os.Environ(), "VERIF_C08_CHILD=1")
	cmd.Stdin, cmd.Stdout, cmd.Stderr = &in, &out, &errb
	if err := cmd.Run(); err != nil {
		return errObs(3, 3, err.Error()+": "+errb.String())
	}
	var obs Obs
	if err := gob.NewDecoder(&out).Decode(&obs); err != nil {
		return errObs(3, 3, err.Error())
	}
	return obs
}

// ---------------------------------------------------------------- one case

// Real Local sessions, one per setting of the MachineCombiners option (a
// session compiles all its invocations with the same setting).
var sessions = map[bool]*exec.Session{}

func session(mc bool) *exec.Session {
	if s, ok := sessions[mc]; ok {
		return s
	}
	var s *exec.Session
	if mc {
		s = exec.Start(exec.Local, exec.MachineCombiners)
	} else {
		s = exec.Start(exec.Local)
	}
	sessions[mc] = s
	return s
}

func setCache(dir string, ops []Op, worker bool) {
	for i, op := range ops {
		if op.K != "cache" && op.K != "cachepartial" {
			continue
		}
		want := op.DC
		if worker {
			want = op.WC
		}
		// The shard count of the cached slice is not known here: keep every
		// plausible "-of-" suffix in step (shard counts are 1..4).
		for n := 1; n <= 4; n++ {
			for sh := 0; sh < n; sh++ {
				path := fmt.Sprintf("%s-%04d-of-%04d", filepath.Join(dir, fmt.Sprintf("c%d", i)), sh, n)
				present := false
				for _, w := range want {
					if w == sh {
						present = true
					}
				}
				if present {
					_ = os.WriteFile(path, nil, 0o644)
				} else {
					_ = os.Remove(path)
				}
			}
		}
	}
}

// findTask returns a task of invocation inv reachable from roots.
func findTask(roots []*exec.Task, inv uint64, seen map[*exec.Task]bool) *exec.Task {
	for _, t := range roots {
		if seen[t] {
			continue
		}
		seen[t] = true
		if exec.VerifC08TaskInvIndex(t) == inv {
			return t
		}
		for _, d := range t.Deps {
			for i := 0; i < d.NumTask(); i++ {
				if u := findTask([]*exec.Task{d.Task(i)}, inv, seen); u != nil {
					return u
				}
			}
		}
	}
	return nil
}

func funcFor(nargs int) *bigslice.FuncValue {
	switch nargs {
	case 0:
		return f0
	case 1:
		return f1
	}
	return f2
}

// runCase compiles one case all ways and returns the observations and the
// index of the invocation under test.
func runCase(d Desc) (obs []Obs, inv uint64) {
	dir, err := os.MkdirTemp("", "c08")
	if err != nil {
		panic(err)
	}
	defer os.RemoveAll(dir)
	ctx := context.Background()
	first := d.First
	if len(first) > 2 {
		first = first[:2]
	}
	// The Results that are arguments of the invocation under test.
	var (
		args    = []interface{}{Prog{Ops: d.Ops, CacheDir: dir}}
		results []*exec.Result
	)
	for _, ops := range first {
		p := Prog{Ops: ops, CacheDir: dir}
		var r *exec.Result
		if d.RunFirst {
			if !canary(d.MC, p) {
				return []Obs{errObs(0, 2, "evaluating a first program kills the process")}, 0
			}
			r, err = session(d.MC).Run(ctx, f0, p)
			if err != nil {
				panic(fmt.Sprintf("c08: first program failed to run: %v", err))
			}
		} else {
			c, err := exec.VerifC08SessionCompile(f0, d.MC, p)
			if err != nil {
				panic(fmt.Sprintf("c08: first program failed to compile: %v", err))
			}
			r = c.Result()
		}
		results = append(results, r)
		args = append(args, r)
	}
	fv := funcFor(len(first))

	// kind 0: the driver.
	setCache(dir, d.Ops, false)
	var comp *exec.VerifC08Compiled
	func() {
		defer func() {
			if e := recover(); e != nil {
				obs = append(obs, errObs(0, 2, fmt.Sprint(e)))
			}
		}()
		c, err := exec.VerifC08SessionCompile(fv, d.MC, args...)
		if err != nil {
			obs = append(obs, errObs(0, 1, err.Error()))
			return
		}
		comp = c
		obs = append(obs, observe(0, c.Slice, c.Tasks))
	}()
	if comp == nil {
		return obs, 0
	}
	inv = comp.InvIndex()

	// The state of the caches may have changed by the time anyone else compiles.
	setCache(dir, d.Ops, true)

	// kind 1: again, with the session's invocation (before transport: the
	// executor replaces *Result arguments in the shared argument list).
	func() {
		defer func() {
			if e := recover(); e != nil {
				obs = append(obs, errObs(1, 2, fmt.Sprint(e)))
			}
		}()
		slice, tasks, err := comp.Recompile(d.MC)
		if err != nil {
			obs = append(obs, errObs(1, 1, err.Error()))
			return
		}
		obs = append(obs, observe(1, slice, tasks))
	}()

	// transport, as the bigmachine executor does when it first runs a task
	drv := exec.VerifC08NewDriver()
	defer drv.Close()
	req := childReq{MC: d.MC, Main: comp.InvIndex()}
	ok := true
	ship := func(t *exec.Task) {
		p, err := drv.Transport(t)
		if err != nil {
			obs = append(obs, errObs(2, 1, "transport: "+err.Error()))
			ok = false
			return
		}
		req.Invs = append(req.Invs, p)
	}
	for _, r := range results {
		ts, _, _ := exec.VerifC08ResultTasks(r)
		if ok && len(ts) > 0 {
			ship(ts[0])
		}
	}
	// Only tasks carry invocations to workers: if the invocation created no task
	// of its own (its result is a Result argument), nothing is shipped.
	own := findTask(comp.Tasks, inv, map[*exec.Task]bool{})
	if !ok || own == nil {
		return obs, inv
	}
	ship(own)
	if !ok {
		return obs, inv
	}
	// kind 2: a worker in this process
	obs = append(obs, workerCompile(2, req))
	// kind 3: a worker in its own process
	if d.Child {
		obs = append(obs, runChild(req))
	}
	return obs, inv
}

type caseResult struct {
	obs []Obs
	inv uint64
}

func runCaseGuarded(d Desc) ([]Obs, uint64) {
	ch := make(chan caseResult, 1)
	go func() {
		defer func() {
			if e := recover(); e != nil {
				ch <- caseResult{[]Obs{errObs(0, 2, fmt.Sprint(e))}, 0}
			}
		}()
		o, inv := runCase(d)
		ch <- caseResult{o, inv}
	}()
	select {
	case r := <-ch:
		return r.obs, r.inv
	case <-time.After(120 * time.Second):
		return []Obs{errObs(0, 3, "watchdog")}, 0
	}
}

// ---------------------------------------------------------------- Coq terms

func qs(s string) string { return `"` + strings.ReplaceAll(s, `"`, `""`) + `"` }

func nats(xs []int) string {
	ss := make([]string, len(xs))
	for i, x := range xs {
		ss[i] = fmt.Sprint(x)
	}
	return vf.List(ss)
}

func nodeTerm(n NodeDump) string {
	deps := make([]string, len(n.Deps))
	for i, d := range n.Deps {
		deps[i] = fmt.Sprintf("mkDep %d %s %s %s", d.Target, vf.Bool(d.Shuffle), vf.Bool(d.Custom), vf.Bool(d.Expand))
	}
	res, cache := "None", "None"
	if n.IsResult {
		res = vf.Some(nats(n.Result))
	}
	if n.HasCache {
		bs := make([]string, len(n.Cache))
		for i, b := range n.Cache {
			bs[i] = vf.Bool(b)
		}
		cache = vf.Some(vf.List(bs))
	}
	return fmt.Sprintf("mkNode %s %d %s %s %s %s %s", qs(n.Op), n.NShard, vf.List(deps), vf.Bool(n.Comb), vf.Bool(n.Mat), res, cache)
}

func taskTerm(t TaskDump) string {
	deps := make([]string, len(t.Deps))
	for i, d := range t.Deps {
		deps[i] = fmt.Sprintf("mkTDep %d %d %s %s", d.Head, d.Partition, vf.Bool(d.Expand), qs(d.CombineKey))
	}
	return fmt.Sprintf("mkTask %d%%N %s %d %d %d %d %s %s %s %s %s", t.Inv, qs(t.Op), t.Shard, t.NShard, t.NumPart,
		t.PartKind, vf.Bool(t.HasComb), qs(t.CombineKey), vf.List(deps), nats(t.Group), nats(t.Slices))
}

// interner shares equal sub-terms of the case file through Definitions.
type interner struct {
	names map[string]string
	defs  strings.Builder
}

func (in *interner) def(prefix, typ, body string) string {
	key := typ + "|" + body
	if n, ok := in.names[key]; ok {
		return n
	}
	n := fmt.Sprintf("%s%d", prefix, len(in.names))
	in.names[key] = n
	fmt.Fprintf(&in.defs, "Definition %s : %s := %s.\n", n, typ, body)
	return n
}

func (in *interner) obsTerm(o Obs) string {
	if o.Err != 0 {
		return fmt.Sprintf("mkObs %d [] [] (OErr %d)", o.Kind, o.Err)
	}
	ns := make([]string, len(o.Nodes))
	for i, n := range o.Nodes {
		ns[i] = nodeTerm(n)
	}
	ts := make([]string, len(o.Tasks))
	for i, t := range o.Tasks {
		ts[i] = taskTerm(t)
	}
	dag := in.def("d", "list node", "[\n  "+strings.Join(ns, ";\n  ")+"]")
	init := in.def("s", "list task", "[\n  "+strings.Join(ts[:o.NInit], ";\n  ")+"]")
	store := in.def("s", "list task", "[\n  "+strings.Join(ts, ";\n  ")+"]")
	return fmt.Sprintf("mkObs %d %s %s (OGraph %s %s)", o.Kind, dag, init, store, nats(o.Roots))
}

// ---------------------------------------------------------------- generator

var (
	unary   = []string{"map", "map", "filter", "flatmap", "reduce", "reduce", "fold", "reshuffle", "reshard", "reshard", "repartition", "head", "prefixed", "prefixed"}
	sources = []string{"const", "const", "reader"}
)

func subset(r *vf.Rand, n int) []int {
	var s []int
	for i := 0; i < n; i++ {
		if r.Bool() {
			s = append(s, i)
		}
	}
	return s
}

// genOps makes a program of about n ops. nargs Results are available;
// cacheMode: 0 no cache ops, 1 cache ops with an unchanged cache, 2 cache ops
// whose files change after the driver compiled.
func genOps(r *vf.Rand, n, nargs, cacheMode int) []Op {
	var ops []Op
	pickIn := func() int {
		i := len(ops)
		if i == 0 {
			return 0
		}
		if r.Chance(3, 5) {
			return i - 1
		}
		return r.Intn(i)
	}
	src := func() Op {
		if nargs > 0 && r.Chance(1, 2) {
			return Op{K: "result", N: r.Intn(nargs)}
		}
		return Op{K: sources[r.Intn(len(sources))], N: r.Intn(4), Mat: r.Chance(1, 6)}
	}
	// fan: one Result argument consumed two or three times by the same Func --
	// pipelined and through shuffles that cannot share a memo entry (different
	// shard counts, a custom partitioner, a combiner) -- and joined again.
	fan := func() {
		idx := len(ops)
		ops = append(ops, Op{K: "result", N: r.Intn(nargs)})
		kinds := []string{"map", "reshard", "reshard", "reshard", "reshuffle", "repartition", "reduce", "fold"}
		k := 2 + r.Intn(2)
		var ins []int
		for j := 0; j < k; j++ {
			ops = append(ops, Op{K: kinds[r.Intn(len(kinds))], In: []int{idx}, N: j + r.Intn(3)})
			ins = append(ins, len(ops)-1)
		}
		ops = append(ops, Op{K: "cogroup", In: ins})
	}
	if nargs > 0 && r.Chance(1, 2) {
		fan()
	} else {
		ops = append(ops, src())
	}
	for len(ops) < n {
		switch x := r.Intn(20); {
		case x == 0:
			ops = append(ops, src())
		case x == 7 && nargs > 0:
			fan()
		case x <= 2: // cogroup, often over slices sharing an ancestor
			k := 1 + r.Intn(3)
			op := Op{K: "cogroup"}
			for j := 0; j < k; j++ {
				op.In = append(op.In, pickIn())
			}
			ops = append(ops, op)
		case x == 3: // one slice consumed twice, with equal or different partition counts
			base := pickIn()
			a := Op{K: "reshard", In: []int{base}, N: r.Intn(4)}
			b := Op{K: []string{"reshard", "reduce", "reshuffle", "map"}[r.Intn(4)], In: []int{base}, N: r.Intn(4)}
			ops = append(ops, a, b, Op{K: "cogroup", In: []int{len(ops), len(ops) + 1}})
		case (x == 4 || x == 5 || x == 6) && cacheMode > 0:
			op := Op{K: []string{"cache", "cachepartial", "cachepartial"}[r.Intn(3)], In: []int{pickIn()}}
			if r.Chance(1, 3) {
				op.DC = []int{0, 1, 2, 3}
			} else {
				op.DC = subset(r, 4)
			}
			op.WC = op.DC
			if cacheMode == 2 {
				switch r.Intn(3) {
				case 0:
					op.WC = []int{0, 1, 2, 3}
				case 1:
					op.WC = subset(r, 4)
				case 2:
					op.WC = nil
				}
			}
			ops = append(ops, op)
			if r.Chance(1, 2) { // pipeline something onto the cached slice
				k := []string{"map", "filter", "head", "prefixed"}[r.Intn(4)]
				ops = append(ops, Op{K: k, In: []int{len(ops) - 1}, N: r.Intn(4)})
			}
		default:
			k := unary[r.Intn(len(unary))]
			ops = append(ops, Op{K: k, In: []int{pickIn()}, N: r.Intn(4), Mat: r.Chance(1, 5)})
		}
	}
	return ops
}

func genCase(r *vf.Rand, i int, thorough bool) Desc {
	d := Desc{MC: r.Bool()}
	d.Child = thorough || i%8 == 0
	n := 1 + r.Intn(9)
	if thorough && r.Chance(1, 4) {
		n = 8 + r.Intn(10)
	}
	mode := r.Intn(10)
	switch {
	case mode < 3: // Results as arguments
		nf := 1 + r.Intn(2)
		for k := 0; k < nf; k++ {
			d.First = append(d.First, genOps(r.Split(), 1+r.Intn(4), 0, 0))
		}
		// evaluating a first program costs a throw-away child process (canary)
		// besides the run itself: do it less often in the quick tier
		if thorough {
			d.RunFirst = r.Chance(1, 3)
		} else {
			d.RunFirst = r.Chance(1, 8)
		}
		d.Ops = genOps(r.Split(), n, nf, 0)
	case mode < 5:
		d.Ops = genOps(r.Split(), n, 0, 1)
	case mode < 7:
		d.Ops = genOps(r.Split(), n, 0, 2)
	default:
		d.Ops = genOps(r.Split(), n, 0, 0)
	}
	return d
}

// ---------------------------------------------------------------- classification

const (
	sigReshuffle = "compile-result-reshuffle-missing-partitioner"
	sigEnv       = "compile-env-writable-on-worker"
	sigOpName    = "compile-op-name-without-invocation-index"
)

func graphKey(o Obs) string {
	if o.Err != 0 {
		return fmt.Sprintf("err%d", o.Err)
	}
	var b strings.Builder
	for _, t := range o.Tasks {
		b.WriteString(taskTerm(t))
		b.WriteByte('\n')
	}
	fmt.Fprint(&b, o.Roots)
	return b.String()
}

// classify names the distribution bucket, the non-triviality key and, when the
// observations show one of the two repaired defects again, its signature.
func classify(d Desc, obs []Obs) (kind, nontriv, sig string) {
	if len(obs) == 0 || obs[0].Err != 0 {
		return "error", "", ""
	}
	o0 := obs[0]
	var feats []string
	has := map[string]bool{}
	shuffleOverResult := false
	for _, n := range o0.Nodes {
		if n.IsResult {
			has["result"] = true
		}
		if n.HasCache {
			has["cache"] = true
		}
		if n.Mat {
			has["materialize"] = true
		}
		if n.Comb {
			has["combiner"] = true
		}
		for _, dep := range n.Deps {
			if dep.Shuffle {
				has["shuffle"] = true
				if o0.Nodes[dep.Target].IsResult {
					shuffleOverResult = true
				}
			}
			if dep.Custom {
				has["partitioner"] = true
			}
		}
	}
	// a slice compiled for two different partition counts
	ops := map[string]bool{}
	for _, t := range o0.Tasks[o0.NInit:] {
		ops[t.Op] = true
	}
	for op := range ops {
		if ops[op+"1"] {
			has["recompiled"] = true
		}
	}
	if shuffleOverResult {
		has["result-shuffle"] = true
	}
	diff := false
	for _, o := range obs[1:] {
		if o.Err == 0 && len(o.Nodes) == len(o0.Nodes) {
			for i := range o.Nodes {
				if fmt.Sprint(o.Nodes[i].Cache) != fmt.Sprint(o0.Nodes[i].Cache) {
					diff = true
				}
			}
		}
	}
	if diff {
		has["cache-changed"] = true
	}
	for f := range has {
		feats = append(feats, f)
	}
	sort.Strings(feats)
	kind = strings.Join(feats, "+")
	if kind == "" {
		kind = "pipeline-only"
	}
	if len(o0.Tasks)-o0.NInit > o0.Nodes[len(o0.Nodes)-1].NShard {
		nontriv = vf.Hash(graphKey(o0)) // more than one stage
	}
	// signatures of the two defects this check found (both repaired in /repo;
	// the signatures stay so that a regression is recognised), from what was observed
	var sigs []string
	for _, t := range o0.Tasks[o0.NInit:] {
		foreign := len(t.Slices) > 0
		for _, s := range t.Slices {
			if s != foreignSlice {
				foreign = false
			}
		}
		if foreign && len(t.Deps) == 1 && len(t.Group) > 0 && (t.NumPart == 0 || t.PartKind == 0) {
			sigs = append(sigs, sigReshuffle)
			break
		}
	}
	for _, t := range o0.Tasks[o0.NInit:] {
		if !strings.HasPrefix(t.Op, fmt.Sprintf("inv%d_", t.Inv)) {
			sigs = append(sigs, sigOpName)
			break
		}
	}
	k0 := graphKey(o0)
	for _, o := range obs[1:] {
		if o.Kind >= 2 && graphKey(o) != k0 && o0.Tasks[len(o0.Tasks)-1].EnvWritable {
			sigs = append(sigs, sigEnv)
			break
		}
	}
	return kind, nontriv, strings.Join(sigs, "+")
}

// ---------------------------------------------------------------- main

func main() {
	if os.Getenv("VERIF_C08_CHILD") != "" {
		childMain()
		return
	}
	opts := vf.ParseFlags()
	out := &vf.Output{ID: "C08", Import: "BS.C08.Corr",
		Rule: "random slice programs (const, reader, map, filter, flatmap, reduce, fold, cogroup, reshuffle, reshard, repartition, head, prefixed, cache, cachepartial, Result arguments; shared sub-slices, Materialize pragmas) interpreted by one registered Func; " +
			"each compiled by the driver, again in-process, by (*worker).Compile from the transported invocation, and (child) in a second OS process; " +
			"non-trivial = the graph has more than one stage; distinct by task graph"}
	var descs []Desc
	if opts.Replay != "" {
		if err := vf.LoadReplay(opts.Replay, &descs); err != nil {
			fmt.Fprintln(os.Stderr, err)
			os.Exit(2)
		}
	} else {
		n := 240
		if opts.Tier == "thorough" {
			n = 2400
		}
		n *= opts.Scale
		root := vf.NewRand(opts.Seed)
		for i := 0; i < n; i++ {
			descs = append(descs, genCase(root.Split(), i, opts.Tier == "thorough"))
		}
	}
	defer func() {
		for _, s := range sessions {
			s.Shutdown()
		}
	}()
	in := &interner{names: map[string]string{}}
	children := 0
	for _, d := range descs {
		t0 := time.Now()
		obs, inv := runCaseGuarded(d)
		if dt := time.Since(t0); dt > 2*time.Second {
			fmt.Fprintf(os.Stderr, "c08: case %d took %v\n", len(out.Cases), dt)
		}
		terms := make([]string, len(obs))
		for i, o := range obs {
			terms[i] = in.obsTerm(o)
			if o.Kind == 3 {
				children++
			}
		}
		if os.Getenv("VERIF_C08_DEBUG") != "" {
			for _, o := range obs {
				fmt.Fprintf(os.Stderr, "kind %d err %d %s\n", o.Kind, o.Err, o.Msg)
				for i, t := range o.Tasks {
					fmt.Fprintf(os.Stderr, "  %d: %s writable=%v\n", i, taskTerm(t), t.EnvWritable)
				}
			}
		}
		kind, nontriv, sig := classify(d, obs)
		term := fmt.Sprintf("(mkCase %d%%N %s %s)", inv, vf.Bool(d.MC), vf.List(terms))
		summary := fmt.Sprintf("%d observations", len(obs))
		if len(obs) > 0 && obs[0].Err == 0 {
			summary = fmt.Sprintf("%d observations; %d slices, %d new tasks, %d roots", len(obs), len(obs[0].Nodes), len(obs[0].Tasks)-obs[0].NInit, len(obs[0].Roots))
		}
		for _, o := range obs {
			if o.Err != 0 {
				summary += fmt.Sprintf("; kind %d: class %d", o.Kind, o.Err)
				fmt.Fprintf(os.Stderr, "c08: case %d kind %d class %d: %s\n", len(out.Cases), o.Kind, o.Err, strings.SplitN(o.Msg, "\n", 2)[0])
			}
		}
		out.Add(vf.Case{Term: term, Desc: d, Sig: sig, Nontriv: nontriv, Kind: kind, Observed: summary})
	}
	out.Prelude = "From Coq Require Import String NArith.\nLocal Open Scope nat_scope.\nLocal Open Scope string_scope.\n" + in.defs.String()
	out.Extra = map[string]interface{}{"child_process_compilations": children}
	if err := out.Write(opts.Out, opts); err != nil {
		fmt.Fprintln(os.Stderr, err)
		os.Exit(2)
	}
}

// Command fixprobe runs Reshuffle(result), Repartition(result) and
// Reduce(result) on the Local executor and checks the rows. On the unmodified
// tree every one of these runs fails (the re-shuffle tasks compile.go inserts
// over a *Result have no NumPartition/Partitioner); with the proposed fix they
// must succeed with the right rows. Exit status 0 = all three correct.
package main

import (
	"context"
	"fmt"
	"os"
	"sort"

	"github.com/grailbio/bigslice"
	"github.com/grailbio/bigslice/exec"
)

var src = bigslice.Func(func() bigslice.Slice {
	return bigslice.Const(3, []int{1, 2, 3, 1, 2, 3, 4}, []int{10, 20, 30, 40, 50, 60, 70})
})

var reshuffle = bigslice.Func(func(r *exec.Result) bigslice.Slice { return bigslice.Reshuffle(r) })
var repartition = bigslice.Func(func(r *exec.Result) bigslice.Slice {
	return bigslice.Reshard(bigslice.Repartition(r, func(nshard, k, v int) int { return v % nshard }), 2)
})
var reduce = bigslice.Func(func(r *exec.Result) bigslice.Slice {
	return bigslice.Reduce(r, func(a, b int) int { return a + b })
})

func rows(r *exec.Result) []string {
	var out []string
	sc := r.Scanner()
	defer sc.Close()
	var k, v int
	for sc.Scan(context.Background(), &k, &v) {
		out = append(out, fmt.Sprintf("%d:%d", k, v))
	}
	if err := sc.Err(); err != nil {
		out = append(out, "scan error: "+err.Error())
	}
	sort.Strings(out)
	return out
}

func main() {
	ctx := context.Background()
	bad := 0
	for _, mc := range []bool{false, true} {
		opts := []exec.Option{exec.Local}
		if mc {
			opts = append(opts, exec.MachineCombiners)
		}
		sess := exec.Start(opts...)
		r, err := sess.Run(ctx, src)
		if err != nil {
			fmt.Println("source failed:", err)
			os.Exit(2)
		}
		all := "[1:10 1:40 2:20 2:50 3:30 3:60 4:70]"
		for _, c := range []struct {
			name string
			f    *bigslice.FuncValue
			want string
		}{
			{"Reshuffle(result)", reshuffle, all},
			{"Reshard(Repartition(result),2)", repartition, all},
			{"Reduce(result)", reduce, "[1:50 2:70 3:90 4:70]"},
		} {
			res, err := sess.Run(ctx, c.f, r)
			got := "error"
			if err == nil {
				got = fmt.Sprint(rows(res))
			}
			ok := err == nil && got == c.want
			if !ok {
				bad++
			}
			fmt.Printf("machineCombiners=%v %-32s ok=%v got=%s err=%v\n", mc, c.name, ok, got, err != nil)
		}
		sess.Shutdown()
	}
	if bad > 0 {
		os.Exit(1)
	}
}

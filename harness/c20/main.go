// Command c20 drives the public metrics API (NewCounter, Incr, Value, Merge,
// Reset, gob encoding of *Scope) with sequences of operations on a pool of
// scopes, dumps every scope (structure, values, which cells share an instance)
// after every step, runs a few slice programs with counting user functions on
// the local and the bigmachine (testsystem) executors, and writes the Coq case
// file judged by coq/C20/Corr.v.
//
// The metrics registry is process-global and append-only, so the registry only
// grows during a run: a case records the registry size it started with, and
// the few cases that register a counter in mid-sequence (a scope whose list is
// then shorter than the registry) are spread over the run.
package main

import (
	"bytes"
	"context"
	"encoding/gob"
	"fmt"
	"io"
	"log"
	"math"
	"os"
	"reflect"
	"runtime/debug"
	"sort"
	"strings"
	"sync"
	"sync/atomic"
	"time"
	"unsafe"

	"github.com/grailbio/bigmachine/testsystem"
	"github.com/grailbio/bigslice"
	"github.com/grailbio/bigslice/exec"
	"github.com/grailbio/bigslice/metrics"
	"verifharness/vf"
)

// ---------------------------------------------------------------- registry

// ctrs[k] is the counter with metric id k+1 (id 0 is the reserved zeroMetric).
var ctrs []metrics.Counter

func regSize() int { return len(ctrs) + 1 }

func register() {
	c := metrics.NewCounter()
	// the id is unexported; it must be the registry position
	if id := reflect.ValueOf(c).Field(0).Int(); int(id) != regSize() {
		fatal("metrics.NewCounter returned id %d, expected %d", id, regSize())
	}
	ctrs = append(ctrs, c)
}

func ensureReg(n int) {
	for regSize() < n {
		register()
	}
}

func counter(id int) metrics.Counter { return ctrs[id-1] }

func fatal(format string, args ...interface{}) {
	fmt.Fprintf(os.Stderr, "c20: "+format+"\n", args...)
	os.Exit(2)
}

// ---------------------------------------------------------------- observation

// peeker reads a scope without going through any method (every method creates
// the list, and Value creates the instance): Scope is struct{storage
// unsafe.Pointer}, storage points to a []unsafe.Pointer, each entry to an
// interface{} holding a *counterValue{Value int64}.
type peeker struct {
	blind bool
	ids   map[uintptr]int
	keep  []interface{} // keeps every instance seen alive, so addresses are never reused
}

type cell struct {
	some bool
	id   int
	val  int64
}

func (p *peeker) scope(s *metrics.Scope) (cells []cell, isNil bool) {
	sp := atomic.LoadPointer((*unsafe.Pointer)(unsafe.Pointer(s)))
	if sp == nil {
		return nil, true
	}
	list := *(*[]unsafe.Pointer)(sp)
	cells = make([]cell, len(list))
	for i, e := range list {
		if e == nil {
			continue
		}
		v := *(*interface{})(e)
		rv := reflect.ValueOf(v)
		if rv.Kind() != reflect.Ptr || rv.Elem().Kind() != reflect.Struct || rv.Elem().NumField() != 1 ||
			rv.Elem().Field(0).Kind() != reflect.Int64 {
			panic("c20: unexpected instance representation")
		}
		addr := rv.Pointer()
		id, ok := p.ids[addr]
		if !ok {
			id = len(p.ids)
			p.ids[addr] = id
			p.keep = append(p.keep, v)
		}
		cells[i] = cell{true, id, rv.Elem().Field(0).Int()}
	}
	return cells, false
}

// forceBlind (env C20_BLIND=1) exercises the fallback used when the storage
// layout of Scope is no longer the one the peeker knows.
var forceBlind = os.Getenv("C20_BLIND") == "1"

// probeLayout checks, on a scratch scope, that the peeker still reads what the
// public API wrote. A fault while probing is a "no".
func probeLayout() (ok bool) {
	if forceBlind {
		return false
	}
	t := reflect.TypeOf(metrics.Scope{})
	if t.NumField() != 1 || t.Field(0).Type.Kind() != reflect.UnsafePointer || t.Size() != unsafe.Sizeof(uintptr(0)) {
		return false
	}
	old := debug.SetPanicOnFault(true)
	defer debug.SetPanicOnFault(old)
	defer func() {
		if recover() != nil {
			ok = false
		}
	}()
	var s metrics.Scope
	pk := &peeker{ids: map[uintptr]int{}}
	if _, isNil := pk.scope(&s); !isNil {
		return false
	}
	if len(ctrs) == 0 {
		s.Reset(&metrics.Scope{})
		cells, isNil := pk.scope(&s)
		return !isNil && len(cells) == 1 && !cells[0].some
	}
	last := len(ctrs) - 1
	ctrs[last].Incr(&s, 12345)
	cells, isNil := pk.scope(&s)
	if isNil || len(cells) != regSize() {
		return false
	}
	for i, c := range cells {
		if c.some != (i == last+1) {
			return false
		}
	}
	return cells[last+1].val == 12345
}

// blindCells observes a scope through its public GobEncode only: presence and
// value per metric. This creates the scope's list, which is invisible as long
// as no counter is registered in mid-case (blind cases never do).
func blindCells(s *metrics.Scope) []cell {
	p, err := s.GobEncode()
	if err != nil {
		fatal("GobEncode: %v", err)
	}
	pl, err := parsePayload(p)
	if err != nil {
		fatal("parsing payload: %v", err)
	}
	cells := make([]cell, len(pl))
	for i, z := range pl {
		if z != nil {
			cells[i] = cell{true, i, *z} // identity unknown: the metric index stands in
		}
	}
	return cells
}

func (p *peeker) dump(scopes []*metrics.Scope) string {
	ss := make([]string, len(scopes))
	for i, s := range scopes {
		var cells []cell
		var isNil bool
		if p.blind {
			cells = blindCells(s)
		} else {
			cells, isNil = p.scope(s)
		}
		if isNil {
			ss[i] = "None"
			continue
		}
		cs := make([]string, len(cells))
		for j, c := range cells {
			if c.some {
				cs[j] = vf.Some(vf.Tuple(vf.Nat(c.id), vf.Z(c.val)))
			} else {
				cs[j] = "None"
			}
		}
		ss[i] = vf.Some(vf.List(cs))
	}
	return vf.List(ss)
}

// rawScope captures / replays the byte payload of a GobEncoder on the wire.
type rawScope struct{ p []byte }

func (r *rawScope) GobDecode(p []byte) error   { r.p = append([]byte(nil), p...); return nil }
func (r *rawScope) GobEncode() ([]byte, error) { return r.p, nil }

// reply mirrors exec.taskRunReply: the scope travels as a struct field.
type reply struct {
	Vals  map[string]int64
	Scope metrics.Scope
}
type rawReply struct {
	Vals  map[string]int64
	Scope rawScope
}

// parsePayload decodes Scope.GobEncode's payload: one entry per metric, nil or
// *counterValue.
func parsePayload(p []byte) ([]*int64, error) {
	var list []interface{}
	if err := gob.NewDecoder(bytes.NewReader(p)).Decode(&list); err != nil {
		return nil, err
	}
	out := make([]*int64, len(list))
	for i, v := range list {
		if v == nil {
			continue
		}
		z := reflect.ValueOf(v).Elem().Field(0).Int()
		out[i] = &z
	}
	return out, nil
}

var cvType reflect.Type // counterValue

func craftPayload(pl []*int64) ([]byte, bool) {
	list := make([]interface{}, len(pl))
	for i, z := range pl {
		if z == nil {
			continue
		}
		if cvType == nil {
			if len(ctrs) == 0 {
				return nil, false
			}
			// the instance type is unexported; take it from a real payload
			var s metrics.Scope
			ctrs[0].Incr(&s, 1)
			p, err := s.GobEncode()
			if err != nil {
				fatal("GobEncode: %v", err)
			}
			var l []interface{}
			if err := gob.NewDecoder(bytes.NewReader(p)).Decode(&l); err != nil || len(l) < 2 || l[1] == nil {
				fatal("cannot find the instance type: %v", err)
			}
			cvType = reflect.TypeOf(l[1]).Elem()
		}
		v := reflect.New(cvType)
		v.Elem().Field(0).SetInt(*z)
		list[i] = v.Interface()
	}
	var b bytes.Buffer
	if err := gob.NewEncoder(&b).Encode(list); err != nil {
		fatal("crafting payload: %v", err)
	}
	return b.Bytes(), true
}

func payloadTerm(pl []*int64) string {
	ss := make([]string, len(pl))
	for i, z := range pl {
		if z == nil {
			ss[i] = "None"
		} else {
			ss[i] = vf.Some(vf.Z(*z))
		}
	}
	return vf.List(ss)
}

// ---------------------------------------------------------------- ops

// Op is the JSON-able description of one operation (replayable).
type Op struct {
	K  string   `json:"k"`
	S  int      `json:"s,omitempty"`  // target scope
	U  int      `json:"u,omitempty"`  // source scope
	C  int      `json:"c,omitempty"`  // metric id
	N  int64    `json:"n,omitempty"`  // increment
	B  int      `json:"b,omitempty"`  // index of a previous successful encode
	W  bool     `json:"w,omitempty"`  // transport wrapped in a reply struct
	Pl []*int64 `json:"pl,omitempty"` // hand-made payload
}

type Desc struct {
	Kind    string `json:"kind"` // "ops" | "e2e" | "hist"
	Reg0    int    `json:"reg0"` // registry size wanted at the start (the actual one is >=)
	NScopes int    `json:"nscopes,omitempty"`
	Ops     []Op   `json:"ops,omitempty"`
	// e2e
	Exec   string  `json:"exec,omitempty"` // "local" | "bigmachine"
	Prog   int     `json:"prog,omitempty"`
	NShard int     `json:"nshard,omitempty"`
	Rows   []int64 `json:"rows,omitempty"`
	CA     int     `json:"ca,omitempty"`
	CB     int     `json:"cb,omitempty"`
	CC     int     `json:"cc,omitempty"`
	// hist
	CD      int    `json:"cd,omitempty"`
	Variant string `json:"variant,omitempty"` // "gR" | "discard-gR" | "discard-f" | "forget-gR"
}

type wire struct {
	bytes   []byte
	wrapped bool
}

type world struct {
	scopes []*metrics.Scope
	wires  []wire
	pk     *peeker
}

// apply runs o on the real scopes; returns the Coq op term and observed out
// term, or ok=false if the op is not applicable in this state.
func (w *world) apply(o Op) (opTerm, outTerm string, ok bool) {
	defer func() {
		if r := recover(); r != nil {
			outTerm, ok = "RPanic", opTerm != ""
		}
	}()
	vs := func(i int) bool { return i >= 0 && i < len(w.scopes) }
	vc := func(c int) bool { return c >= 1 && c < regSize() }
	switch o.K {
	case "register":
		opTerm = "ORegister"
		register()
		return opTerm, "RUnit", true
	case "incr":
		if !vs(o.S) || !vc(o.C) {
			return "", "", false
		}
		opTerm = vf.App("OIncr", vf.Nat(o.S), vf.Nat(o.C), vf.Z(o.N))
		counter(o.C).Incr(w.scopes[o.S], o.N)
		return opTerm, "RUnit", true
	case "value":
		if !vs(o.S) || !vc(o.C) {
			return "", "", false
		}
		opTerm = vf.App("OValue", vf.Nat(o.S), vf.Nat(o.C))
		v := counter(o.C).Value(w.scopes[o.S])
		return opTerm, vf.App("RNum", vf.Z(v)), true
	case "merge":
		if !vs(o.S) || !vs(o.U) {
			return "", "", false
		}
		opTerm = vf.App("OMerge", vf.Nat(o.S), vf.Nat(o.U))
		w.scopes[o.S].Merge(w.scopes[o.U])
		return opTerm, "RUnit", true
	case "reset":
		if !vs(o.S) || !vs(o.U) {
			return "", "", false
		}
		opTerm = vf.App("OReset", vf.Nat(o.S), vf.Nat(o.U))
		w.scopes[o.S].Reset(w.scopes[o.U])
		return opTerm, "RUnit", true
	case "resetnil":
		if !vs(o.S) {
			return "", "", false
		}
		opTerm = vf.App("OResetNil", vf.Nat(o.S))
		w.scopes[o.S].Reset(nil)
		return opTerm, "RUnit", true
	case "encode":
		if !vs(o.S) {
			return "", "", false
		}
		opTerm = vf.App("OEncode", vf.Nat(o.S))
		var b bytes.Buffer
		var err error
		if o.W {
			// as (*worker).Run does: reply.Scope.Reset(&task.Scope), reply sent by gob
			r := reply{Vals: map[string]int64{"read": 1}}
			r.Scope.Reset(w.scopes[o.S])
			err = gob.NewEncoder(&b).Encode(&r)
		} else {
			err = gob.NewEncoder(&b).Encode(w.scopes[o.S])
		}
		if err != nil {
			fatal("unexpected gob encode error: %v", err)
		}
		wr := wire{b.Bytes(), o.W}
		pl, err := parsePayload(wr.payload())
		if err != nil {
			fatal("parsing payload: %v", err)
		}
		w.wires = append(w.wires, wr)
		return opTerm, vf.App("RPayload", payloadTerm(pl)), true
	case "decode", "decodepl":
		if !vs(o.S) {
			return "", "", false
		}
		var wr wire
		var pl []*int64
		if o.K == "decode" {
			if o.B < 0 || o.B >= len(w.wires) {
				return "", "", false
			}
			wr = w.wires[o.B]
			var err error
			if pl, err = parsePayload(wr.payload()); err != nil {
				fatal("parsing payload: %v", err)
			}
		} else {
			pl = o.Pl
			raw, ok := craftPayload(pl)
			if !ok {
				return "", "", false
			}
			var b bytes.Buffer
			var err error
			if o.W {
				err = gob.NewEncoder(&b).Encode(&rawReply{Vals: map[string]int64{"read": 1}, Scope: rawScope{raw}})
			} else {
				err = gob.NewEncoder(&b).Encode(&rawScope{raw})
			}
			if err != nil {
				fatal("crafting wire: %v", err)
			}
			wr = wire{b.Bytes(), o.W}
		}
		opTerm = vf.App("ODecode", payloadTerm(pl), vf.Nat(o.S))
		var err error
		if wr.wrapped {
			// as (*bigmachineExecutor).Run does: decode into a fresh reply, then
			// task.Scope.Reset(&reply.Scope)
			var r reply
			if err = gob.NewDecoder(bytes.NewReader(wr.bytes)).Decode(&r); err == nil {
				w.scopes[o.S].Reset(&r.Scope)
			}
		} else {
			err = gob.NewDecoder(bytes.NewReader(wr.bytes)).Decode(w.scopes[o.S])
		}
		if err != nil {
			if strings.Contains(err.Error(), "incompatible metric set") {
				return opTerm, "RIncompatible", true
			}
			fatal("unexpected gob decode error: %v", err)
		}
		return opTerm, "RUnit", true
	}
	return "", "", false
}

// payload extracts the bytes Scope.GobEncode put on the wire.
func (wr wire) payload() []byte {
	if wr.wrapped {
		var rr rawReply
		if err := gob.NewDecoder(bytes.NewReader(wr.bytes)).Decode(&rr); err != nil {
			fatal("re-reading wire: %v", err)
		}
		return rr.Scope.p
	}
	var rs rawScope
	if err := gob.NewDecoder(bytes.NewReader(wr.bytes)).Decode(&rs); err != nil {
		fatal("re-reading wire: %v", err)
	}
	return rs.p
}

func runOps(d Desc) (term string, kinds map[string]int, nsteps int, reg0 int, blind bool) {
	ensureReg(d.Reg0)
	reg0 = regSize()
	blind = !probeLayout()
	w := &world{pk: &peeker{blind: blind, ids: map[uintptr]int{}}}
	for i := 0; i < d.NScopes; i++ {
		w.scopes = append(w.scopes, new(metrics.Scope))
	}
	kinds = map[string]int{}
	var steps []string
	for _, o := range d.Ops {
		if blind && o.K == "register" {
			continue // observation through GobEncode would fix the list lengths early
		}
		ot, out, ok := w.apply(o)
		if !ok {
			continue
		}
		kinds[o.K]++
		if out == "RPanic" {
			kinds["panic"]++
			// a panic leaves the scopes involved half-updated, in an order that depends
			// on the iteration order of the Go loops: wipe them (so does the model)
			switch o.K {
			case "merge", "reset":
				w.scopes[o.S].Reset(nil)
				w.scopes[o.U].Reset(nil)
			default:
				w.scopes[o.S].Reset(nil)
			}
		}
		if out == "RIncompatible" {
			kinds["incompatible"]++
		}
		steps = append(steps, vf.App("mkObs", ot, out, w.pk.dump(w.scopes)))
	}
	return vf.App("COps", vf.Bool(blind), vf.Nat(reg0), vf.Nat(d.NScopes), vf.List(steps)), kinds, len(steps), reg0, blind
}

// ---------------------------------------------------------------- end-to-end programs

type inc struct {
	c int
	n int64
}

var e2e struct {
	mu    sync.Mutex
	phase int // which step of a history is running (0 for plain runs)
	log   map[*metrics.Scope][]pinc
	order []*metrics.Scope
}

type pinc struct {
	phase int
	inc
}

// bump is what the user functions call: increment counter c (a metric id) in
// the scope the runtime put into ctx, and log it under that scope.
func bump(ctx context.Context, c int, n int64) {
	scope := metrics.ContextScope(ctx)
	counter(c).Incr(scope, n)
	e2e.mu.Lock()
	if _, ok := e2e.log[scope]; !ok {
		e2e.order = append(e2e.order, scope)
	}
	e2e.log[scope] = append(e2e.log[scope], pinc{e2e.phase, inc{c, n}})
	e2e.mu.Unlock()
}

func mod3(x int64) int64 { return ((x % 3) + 3) % 3 }

var progs = []*bigslice.FuncValue{
	// 0: one counting Map
	bigslice.Func(func(nshard int, rows []int64, ca, cb, cc int) bigslice.Slice {
		s := bigslice.Const(nshard, rows)
		return bigslice.Map(s, func(ctx context.Context, x int64) int64 {
			bump(ctx, ca, x)
			bump(ctx, cb, 1)
			return x
		})
	}),
	// 1: Map and Filter pipelined in one task
	bigslice.Func(func(nshard int, rows []int64, ca, cb, cc int) bigslice.Slice {
		s := bigslice.Const(nshard, rows)
		s = bigslice.Map(s, func(ctx context.Context, x int64) int64 {
			bump(ctx, ca, x)
			bump(ctx, cb, 1)
			return x
		})
		return bigslice.Filter(s, func(ctx context.Context, x int64) bool {
			if x%2 == 0 {
				bump(ctx, cc, 1)
				return false
			}
			return true
		})
	}),
	// 2: counting on both sides of a shuffle (Reduce)
	bigslice.Func(func(nshard int, rows []int64, ca, cb, cc int) bigslice.Slice {
		s := bigslice.Const(nshard, rows)
		s = bigslice.Map(s, func(ctx context.Context, x int64) (int64, int64) {
			bump(ctx, ca, x)
			return mod3(x), x
		})
		s = bigslice.Reduce(s, func(a, b int64) int64 { return a + b })
		return bigslice.Map(s, func(ctx context.Context, k, v int64) (int64, int64) {
			bump(ctx, cb, v)
			bump(ctx, cc, 1)
			return k, v
		})
	}),
	// 3: Flatmap, Reshuffle, Map
	bigslice.Func(func(nshard int, rows []int64, ca, cb, cc int) bigslice.Slice {
		s := bigslice.Const(nshard, rows)
		s = bigslice.Flatmap(s, func(ctx context.Context, x int64) []int64 {
			bump(ctx, ca, 1)
			return []int64{x, x}
		})
		s = bigslice.Reshuffle(s)
		return bigslice.Map(s, func(ctx context.Context, x int64) int64 {
			bump(ctx, cb, x)
			return x
		})
	}),
}

// expected lists the increments the program performs on its input, from the
// program text alone.
func expected(d Desc) []inc {
	var out []inc
	switch d.Prog {
	case 0, 1:
		for _, x := range d.Rows {
			out = append(out, inc{d.CA, x}, inc{d.CB, 1})
			if d.Prog == 1 && x%2 == 0 {
				out = append(out, inc{d.CC, 1})
			}
		}
	case 2:
		sums := map[int64]int64{}
		for _, x := range d.Rows {
			out = append(out, inc{d.CA, x})
			sums[mod3(x)] += x
		}
		for k := int64(0); k < 3; k++ {
			if v, ok := sums[k]; ok {
				out = append(out, inc{d.CB, v}, inc{d.CC, 1})
			}
		}
	case 3:
		for _, x := range d.Rows {
			out = append(out, inc{d.CA, 1}, inc{d.CB, x}, inc{d.CB, x})
		}
	}
	return out
}

func incsTerm(l []inc) string {
	ss := make([]string, len(l))
	for i, e := range l {
		ss[i] = vf.Tuple(vf.Nat(e.c), vf.Z(e.n))
	}
	return vf.List(ss)
}

var sessions = map[string]*exec.Session{}

func session(name string) *exec.Session {
	if s, ok := sessions[name]; ok {
		return s
	}
	var s *exec.Session
	if name == "bigmachine" {
		s = exec.Start(exec.Bigmachine(testsystem.New()), exec.Parallelism(4))
	} else if name == "bigmachine1" {
		s = exec.Start(exec.Bigmachine(testsystem.New()), exec.Parallelism(1))
	} else {
		s = exec.Start(exec.Local, exec.Parallelism(4))
	}
	sessions[name] = s
	return s
}

func runE2E(d Desc) (term string, reg int, observed string, okRun bool) {
	need := d.Reg0
	for _, c := range []int{d.CA, d.CB, d.CC} {
		if c+1 > need {
			need = c + 1
		}
	}
	ensureReg(need)
	reg = regSize()
	e2e.mu.Lock()
	e2e.log, e2e.order, e2e.phase = map[*metrics.Scope][]pinc{}, nil, 0
	e2e.mu.Unlock()

	type outcome struct {
		vals []int64
		err  string
	}
	done := make(chan outcome, 1)
	go func() {
		defer func() {
			if r := recover(); r != nil {
				done <- outcome{err: "panic"}
			}
		}()
		ctx := context.Background()
		res, err := session(d.Exec).Run(ctx, progs[d.Prog], d.NShard, d.Rows, d.CA, d.CB, d.CC)
		if err != nil {
			done <- outcome{err: "error"}
			return
		}
		scope := res.Scope()
		vals := make([]int64, reg)
		for m := 1; m < reg; m++ {
			vals[m] = counter(m).Value(scope)
		}
		res.Discard(ctx)
		done <- outcome{vals: vals}
	}()
	var oc outcome
	select {
	case oc = <-done:
	case <-time.After(120 * time.Second): // watchdog: a hang is an observation
		oc = outcome{err: "hang"}
	}
	e2e.mu.Lock()
	groups := make([]string, 0, len(e2e.order))
	for _, s := range e2e.order {
		// the order in which a task meets its rows is not fixed after a shuffle
		// (and does not matter for a sum): canonicalise
		groups = append(groups, incsTerm(sortedIncs(e2e.log[s], 0)))
	}
	e2e.mu.Unlock()
	sort.Strings(groups) // task completion order is not fixed
	observed = "ok"
	if oc.err != "" {
		observed = oc.err // the observed list is then empty: judged as a failure
	}
	term = vf.App("CE2E", vf.Bool(d.Exec == "bigmachine"), vf.Nat(reg), vf.List(groups),
		incsTerm(expected(d)), vf.ZList(oc.vals))
	return term, reg, fmt.Sprintf("%s %d tasks", observed, len(groups)), oc.err == ""
}

// sortedIncs returns the increments logged in one phase, canonically ordered.
func sortedIncs(pl []pinc, phase int) []inc {
	var l []inc
	for _, e := range pl {
		if e.phase == phase {
			l = append(l, e.inc)
		}
	}
	sort.Slice(l, func(i, j int) bool {
		if l[i].c != l[j].c {
			return l[i].c < l[j].c
		}
		return l[i].n < l[j].n
	})
	return l
}

// ---------------------------------------------------------------- histories with re-runs

// stage2 consumes a Result (the output of progs 0, 1 or 3: one int64 column).
var stage2 = bigslice.Func(func(in bigslice.Slice, cd int) bigslice.Slice {
	return bigslice.Map(in, func(ctx context.Context, x int64) int64 {
		bump(ctx, cd, x)
		return x + 1
	})
})

// histProgs are the programs whose result stage2 can consume.
var histProgs = []int{0, 1, 3}

// outRows lists the rows of the result of progs[d.Prog].
func outRows(d Desc) []int64 {
	var out []int64
	for _, x := range d.Rows {
		switch d.Prog {
		case 0:
			out = append(out, x)
		case 1:
			if x%2 != 0 {
				out = append(out, x)
			}
		case 3:
			out = append(out, x, x)
		}
	}
	return out
}

// runHist runs a failure-free history in which tasks may run twice:
//
//	gR          R := f();               r2 := g(R)   (reference: nothing is re-run)
//	discard-gR  R := f(); R.Discard();  r2 := g(R)   (R's tasks are lost and run again)
//	discard-f   R := f(); R.Discard();  r2 := f()    (a new invocation of f)
//	forget-gR   R := f(); the driver marks R's tasks lost although the executor
//	            still holds their output; r2 := g(R).  The local executor runs
//	            them again; the (single) bigmachine worker still holds them as
//	            done and answers the second Worker.Run without executing.
//
// and reports the counters of r2. They must be the increments of the tasks
// r2 is made of, each task once.
func runHist(d Desc) (term string, observed string) {
	need := d.Reg0
	for _, c := range []int{d.CA, d.CB, d.CC, d.CD} {
		if c+1 > need {
			need = c + 1
		}
	}
	ensureReg(need)
	reg := regSize()
	e2e.mu.Lock()
	e2e.log, e2e.order, e2e.phase = map[*metrics.Scope][]pinc{}, nil, 1
	e2e.mu.Unlock()

	type outcome struct {
		vals []int64
		err  string
	}
	done := make(chan outcome, 1)
	go func() {
		defer func() {
			if r := recover(); r != nil {
				done <- outcome{err: "panic"}
			}
		}()
		ctx := context.Background()
		name := d.Exec
		if name == "bigmachine" {
			// one machine, so that a task is always re-run by the worker that ran it
			// before (which machine gets a re-run is otherwise a matter of timing)
			name = "bigmachine1"
		}
		sess := session(name)
		r1, err := sess.Run(ctx, progs[d.Prog], d.NShard, d.Rows, d.CA, d.CB, d.CC)
		if err != nil {
			done <- outcome{err: "error"}
			return
		}
		_ = r1.Scope() // reading the first result's counters must not matter
		switch d.Variant {
		case "gR":
		case "forget-gR":
			exec.VerifC20ForgetTasks(r1)
		default:
			r1.Discard(ctx)
		}
		e2e.mu.Lock()
		e2e.phase = 2
		e2e.mu.Unlock()
		var r2 *exec.Result
		if d.Variant == "discard-f" {
			r2, err = sess.Run(ctx, progs[d.Prog], d.NShard, d.Rows, d.CA, d.CB, d.CC)
		} else {
			r2, err = sess.Run(ctx, stage2, r1, d.CD)
		}
		if err != nil {
			done <- outcome{err: "error"}
			return
		}
		scope := r2.Scope()
		vals := make([]int64, reg)
		for m := 1; m < reg; m++ {
			vals[m] = counter(m).Value(scope)
		}
		r2.Discard(ctx)
		done <- outcome{vals: vals}
	}()
	var oc outcome
	select {
	case oc = <-done:
	case <-time.After(120 * time.Second): // watchdog: a hang is an observation
		oc = outcome{err: "hang"}
	}
	// per task scope: the increments of each of its runs. In variant discard-f the
	// first invocation's tasks are not part of the second result.
	e2e.mu.Lock()
	var groups []string
	reruns := 0
	// forget-gR on bigmachine: a task the worker still held is not executed again
	var resub []string
	answered := 0
	for _, s := range e2e.order {
		l1, l2 := sortedIncs(e2e.log[s], 1), sortedIncs(e2e.log[s], 2)
		switch {
		case len(l1) > 0 && len(l2) > 0:
			resub = nil // executed twice after all: described as a history of runs below
		case len(l1) > 0:
			resub = append(resub, vf.Tuple(incsTerm(l1), vf.Nat(1)))
			answered++
		case len(l2) > 0:
			resub = append(resub, vf.Tuple(incsTerm(l2), vf.Nat(0)))
		}
		if len(l1) > 0 && len(l2) > 0 {
			answered = -1 << 30
		}
	}
	for _, s := range e2e.order {
		var runs []string
		for ph := 1; ph <= 2; ph++ {
			if d.Variant == "discard-f" && ph == 1 {
				continue
			}
			if l := sortedIncs(e2e.log[s], ph); len(l) > 0 {
				runs = append(runs, incsTerm(l))
			}
		}
		if len(runs) == 0 {
			continue
		}
		if len(runs) > 1 {
			reruns++
		}
		groups = append(groups, vf.List(runs))
	}
	e2e.mu.Unlock()
	sort.Strings(groups)
	exp := expected(d)
	if d.Variant != "discard-f" {
		for _, x := range outRows(d) {
			exp = append(exp, inc{d.CD, x})
		}
	}
	observed = "ok"
	if oc.err != "" {
		observed = oc.err
	}
	if d.Variant == "forget-gR" && d.Exec == "bigmachine" && answered >= 0 {
		sort.Strings(resub)
		term = vf.App("CResub", vf.Nat(reg), vf.List(resub), incsTerm(exp), vf.ZList(oc.vals))
		return term, fmt.Sprintf("%s %d tasks %d answered without re-run", observed, len(resub), answered)
	}
	term = vf.App("CHist", vf.Bool(d.Exec == "bigmachine"), vf.Nat(reg), vf.List(groups), incsTerm(exp), vf.ZList(oc.vals))
	return term, fmt.Sprintf("%s %d tasks %d re-run", observed, len(groups), reruns)
}

// ---------------------------------------------------------------- generators

func genN(r *vf.Rand) int64 {
	switch r.Intn(16) {
	case 0:
		return math.MaxInt64 - int64(r.Intn(3))
	case 1:
		return math.MinInt64 + int64(r.Intn(3))
	case 2:
		return 1 << 62
	case 3:
		return -(1 << 62)
	case 4:
		return 0
	}
	return int64(r.Range(-5, 20))
}

// genOps builds an op sequence without running it (the registry is global, so
// nothing may be registered while generating). reg is the registry size the
// case will start with; late = register one more counter in mid-sequence.
func genOps(r *vf.Rand, reg, nops int, late bool) Desc {
	d := Desc{Kind: "ops", Reg0: reg, NScopes: r.Range(2, 4)}
	var active []int
	if reg >= 2 {
		active = append(active, reg-1)
		for k := 0; k < 2; k++ {
			active = append(active, r.Range(1, reg-1))
		}
	}
	cur, nenc := reg, 0
	sc := func() int { return r.Intn(d.NScopes) }
	ctr := func() int {
		if r.Chance(1, 8) {
			return r.Range(1, cur-1)
		}
		return active[r.Intn(len(active))]
	}
	for i := 0; i < nops; i++ {
		if late && i == nops/2 {
			d.Ops = append(d.Ops, Op{K: "register"})
			cur++
			// the new counter is now the interesting one
			active = append(active, cur-1, cur-1, cur-1)
			continue
		}
		switch k := r.Intn(100); {
		case k < 30:
			if cur >= 2 {
				d.Ops = append(d.Ops, Op{K: "incr", S: sc(), C: ctr(), N: genN(r)})
			}
		case k < 38:
			if cur >= 2 {
				d.Ops = append(d.Ops, Op{K: "value", S: sc(), C: ctr()})
			}
		case k < 56:
			d.Ops = append(d.Ops, Op{K: "merge", S: sc(), U: sc()})
		case k < 68:
			d.Ops = append(d.Ops, Op{K: "reset", S: sc(), U: sc()})
		case k < 74:
			d.Ops = append(d.Ops, Op{K: "resetnil", S: sc()})
		case k < 84:
			d.Ops = append(d.Ops, Op{K: "encode", S: sc(), W: r.Bool()})
			nenc++
		case k < 95:
			if nenc > 0 {
				d.Ops = append(d.Ops, Op{K: "decode", B: r.Intn(nenc), S: sc()})
			}
		default:
			n := cur
			if r.Chance(1, 3) {
				n = []int{cur - 1, cur + 1, 0, cur + 2}[r.Intn(4)]
			}
			pl := make([]*int64, n)
			for m := 1; m < n; m++ {
				if r.Bool() {
					z := genN(r)
					pl[m] = &z
				}
			}
			d.Ops = append(d.Ops, Op{K: "decodepl", Pl: pl, S: sc(), W: r.Bool()})
		}
	}
	return d
}

func genE2E(r *vf.Rand, reg int, ex string, prog int) Desc {
	d := Desc{Kind: "e2e", Reg0: reg, Exec: ex, Prog: prog, NShard: r.Range(1, 4)}
	perm := []int{}
	for m := 1; m < reg; m++ {
		perm = append(perm, m)
	}
	for i := len(perm) - 1; i > 0; i-- {
		j := r.Intn(i + 1)
		perm[i], perm[j] = perm[j], perm[i]
	}
	d.CA, d.CB, d.CC = perm[0], perm[1], perm[2]
	n := r.Range(0, 24)
	big := r.Chance(1, 3)
	for i := 0; i < n; i++ {
		x := int64(r.Range(-20, 100))
		if big && r.Chance(1, 4) {
			x = []int64{1 << 62, math.MaxInt64 - 1, -(1 << 62), math.MinInt64 + 7}[r.Intn(4)]
		}
		d.Rows = append(d.Rows, x)
	}
	return d
}

func main() {
	log.SetOutput(io.Discard) // bigslice and bigmachine log through the standard logger
	opts := vf.ParseFlags()
	out := &vf.Output{ID: "C20", Import: "BS.C20.Corr",
		Rule: "random op sequences (Incr/Value/Merge/Reset/Reset(nil)/gob encode/gob decode, direct and wrapped in a reply struct, " +
			"hand-made payloads, near-overflow increments, a counter registered in mid-sequence in a few cases) over 2-4 scopes and a " +
			"registry that grows during the run, plus slice programs with counting user functions on the local and bigmachine(testsystem) " +
			"executors, and histories in which a result is discarded and its tasks run again (g(R) after R.Discard, f again after R.Discard, g(R) after the driver marked R's tasks lost while the one bigmachine worker still holds them, " +
			"g(R) without discard as reference); non-trivial = an ops case with at least one Incr and one Merge/Reset/decode, or an end-to-end case with at least " +
			"two counting tasks; distinct by case text",
		Extra: map[string]interface{}{}}
	if regSize() != 1 {
		fatal("registry not empty at start")
	}
	// the registry must be what the driver believes: a fresh scope encodes to one entry per metric
	checkReg := func() {
		var s metrics.Scope
		p, err := s.GobEncode()
		if err != nil {
			fatal("GobEncode: %v", err)
		}
		pl, err := parsePayload(p)
		if err != nil || len(pl) != regSize() {
			fatal("registry size %d differs from the driver's count %d (%v)", len(pl), regSize(), err)
		}
	}
	checkReg()

	var descs []Desc
	if opts.Replay != "" {
		if err := vf.LoadReplay(opts.Replay, &descs); err != nil {
			fmt.Fprintln(os.Stderr, err)
			os.Exit(2)
		}
	} else {
		// the case file costs ~35 ms of coqc per op case (parsing): keep quick small
		n, lateCount, ne2e := 180, 6, 24
		if opts.Tier == "thorough" {
			n, lateCount, ne2e = 2400, 12, 240
		}
		n *= opts.Scale
		ne2e *= opts.Scale
		root := vf.NewRand(opts.Seed)
		period := n / lateCount
		reg := 1
		for i := 0; i < n; i++ {
			if i == 3 && reg < 2 {
				reg = 2
			}
			late := i%period == period/2 || i == 2
			descs = append(descs, genOps(root.Split(), reg, 6+i%16, late))
			if late {
				reg++
			}
		}
		if reg < 4 {
			reg = 4
		}
		nl, nb := 0, 0
		for i := 0; i < ne2e; i++ {
			// two local runs for every bigmachine run, each cycling through the programs
			if i%3 == 2 {
				descs = append(descs, genE2E(root.Split(), reg, "bigmachine", nb%len(progs)))
				nb++
			} else {
				descs = append(descs, genE2E(root.Split(), reg, "local", nl%len(progs)))
				nl++
			}
		}
		// histories with Discard and recomputation: every variant on every program
		// stage2 can consume, twice on the local executor for once on bigmachine
		if reg < 5 {
			reg = 5
		}
		nhist := 36
		if opts.Tier == "thorough" {
			nhist = 360
		}
		nhist *= opts.Scale
		variants := []string{"discard-gR", "gR", "discard-f", "forget-gR"}
		for i := 0; i < nhist; i++ {
			ex := "local"
			if i%3 == 2 {
				ex = "bigmachine"
			}
			d := genE2E(root.Split(), reg, ex, histProgs[(i/12)%len(histProgs)])
			d.Kind, d.Variant = "hist", variants[(i/3)%len(variants)]
			if d.Variant == "forget-gR" && i%3 == 1 {
				ex = "bigmachine" // the resubmission to the same worker is the point here
				d.Exec = ex
			}
			// a fourth counter for stage2
			for d.CD = 1; d.CD == d.CA || d.CD == d.CB || d.CD == d.CC; d.CD++ {
			}
			descs = append(descs, d)
		}
	}
	maxReg, nlate, npanic, nincompat, nblind := 0, 0, 0, 0, 0
	for _, d := range descs {
		switch d.Kind {
		case "ops":
			term, kinds, nsteps, reg0, blind := runOps(d)
			if blind {
				nblind++
			}
			nontriv := ""
			if kinds["incr"] > 0 && kinds["merge"]+kinds["reset"]+kinds["decode"]+kinds["decodepl"] > 0 {
				nontriv = vf.Hash(term)
			}
			kind, sig := fmt.Sprintf("ops reg=%d", reg0), "metrics-ops"
			if kinds["register"] > 0 {
				kind, sig = kind+"+latereg", "metrics-ops+latereg"
				nlate++
			}
			npanic += kinds["panic"]
			nincompat += kinds["incompatible"]
			out.Add(vf.Case{Term: term, Desc: d, Sig: sig, Nontriv: nontriv, Kind: kind,
				Observed: fmt.Sprintf("%d steps, %d panics, %d incompatible", nsteps, kinds["panic"], kinds["incompatible"])})
		case "hist":
			okProg := false
			for _, p := range histProgs {
				okProg = okProg || p == d.Prog
			}
			if !okProg || (d.Exec != "local" && d.Exec != "bigmachine") || d.NShard < 1 ||
				d.CA < 1 || d.CB < 1 || d.CC < 1 || d.CD < 1 ||
				(d.Variant != "gR" && d.Variant != "discard-gR" && d.Variant != "discard-f" && d.Variant != "forget-gR") {
				continue
			}
			term, observed := runHist(d)
			nontriv := ""
			if strings.HasPrefix(observed, "ok") && !strings.Contains(observed, " 0 tasks") {
				nontriv = vf.Hash(term)
			}
			sig := "metrics-hist-" + d.Exec
			if d.Exec == "bigmachine" && d.Variant == "forget-gR" {
				sig = "metrics-resubmit-bigmachine"
			}
			if d.Exec == "bigmachine" && d.Variant == "discard-gR" {
				// (*worker).Run does not reset the worker-side task scope before a re-run
				sig = "metrics-bigmachine-recompute-overcounts"
			}
			out.Add(vf.Case{Term: term, Desc: d, Sig: sig, Nontriv: nontriv,
				Kind: fmt.Sprintf("hist %s %s prog=%d", d.Exec, d.Variant, d.Prog), Observed: observed})
		case "e2e":
			if d.Prog < 0 || d.Prog >= len(progs) || (d.Exec != "local" && d.Exec != "bigmachine") || d.NShard < 1 ||
				d.CA < 1 || d.CB < 1 || d.CC < 1 {
				continue
			}
			term, _, observed, _ := runE2E(d)
			nontriv := ""
			if strings.Count(observed, " ") > 0 && !strings.Contains(observed, " 0 tasks") && !strings.Contains(observed, " 1 tasks") {
				nontriv = vf.Hash(term)
			}
			out.Add(vf.Case{Term: term, Desc: d, Sig: "metrics-e2e-" + d.Exec, Nontriv: nontriv,
				Kind: fmt.Sprintf("e2e %s prog=%d", d.Exec, d.Prog), Observed: observed})
		}
		if regSize() > maxReg {
			maxReg = regSize()
		}
	}
	checkReg()
	for _, s := range sessions {
		s.Shutdown()
	}
	out.Extra["max_registry"] = maxReg
	out.Extra["late_registration_cases"] = nlate
	out.Extra["observed_panics"] = npanic
	out.Extra["observed_incompatible"] = nincompat
	out.Extra["blind_cases"] = nblind
	if nblind > 0 {
		out.Notes = append(out.Notes, fmt.Sprintf("%d op cases were observed through GobEncode only: the storage layout of metrics.Scope is not the one the harness can read directly", nblind))
	}
	if err := out.Write(opts.Out, opts); err != nil {
		fmt.Fprintln(os.Stderr, err)
		os.Exit(2)
	}
}

// Command c09 drives the real combiningFrame and combiner of package exec
// (through the add-only hooks of exec/verif_hooks_c09.go) with sequences of
// batches, dumps the whole hash table (rows, hits, len, cap) after every step,
// logs the REAL frame.HashWithSeed(key, hashSeed) of every key it uses, and
// writes the Coq case file judged by coq/C09/Corr.v.
package main

import (
	"bytes"
	"context"
	"fmt"
	"os"
	"path/filepath"
	"reflect"
	"sort"
	"strings"
	"time"

	"github.com/grailbio/bigslice/exec"
	"github.com/grailbio/bigslice/frame"
	"github.com/grailbio/bigslice/slicefunc"
	"github.com/grailbio/bigslice/sliceio"
	"github.com/grailbio/bigslice/slicetype"
	"verifharness/vf"
)

// ---------------------------------------------------------------- types

var typeOfInt = reflect.TypeOf(int(0))

// keyedType is nk int key columns (the prefix) followed by one int value column.
type keyedType struct{ nk int }

func (t keyedType) NumOut() int          { return t.nk + 1 }
func (t keyedType) Out(int) reflect.Type { return typeOfInt }
func (t keyedType) Prefix() int          { return t.nk }
func typOf(nk int) slicetype.Type        { return keyedType{nk} }
func rowsFrame(nk int, rows [][]int64) frame.Frame {
	cols := make([]interface{}, nk+1)
	for c := 0; c <= nk; c++ {
		col := make([]int, len(rows))
		for i, r := range rows {
			col[i] = int(r[c])
		}
		cols[c] = col
	}
	return frame.Slices(cols...)
}

func frameRows(f frame.Frame) [][]int64 {
	rows := make([][]int64, f.Len())
	for i := range rows {
		rows[i] = make([]int64, f.NumOut())
		for c := 0; c < f.NumOut(); c++ {
			rows[i][c] = f.Index(c, i).Int()
		}
	}
	return rows
}

var addFn = func() slicefunc.Func {
	fn, ok := slicefunc.Of(func(a, b int) int { return a + b })
	if !ok {
		panic("slicefunc.Of")
	}
	return fn
}()

// realHash is frame.HashWithSeed(key, hashSeed) as combine() computes it: on a
// frame of the combining type (prefix = nk).
func realHash(nk int, key []int64) uint32 {
	row := append(append([]int64{}, key...), 0)
	f := rowsFrame(nk, [][]int64{row}).Prefixed(nk)
	return f.HashWithSeed(0, exec.VerifC09HashSeed)
}

// ---------------------------------------------------------------- descriptions

// Op is one step: "combine" (Rows: key columns then the value) or "compact".
type Op struct {
	K    string    `json:"k"`
	Rows [][]int64 `json:"rows,omitempty"`
}

type Desc struct {
	Level      string `json:"level"` // "frame" | "combiner"
	NK         int    `json:"nk"`
	Init       int    `json:"init"`
	Scratch    int    `json:"scratch"`
	Target     int    `json:"target,omitempty"`
	SpillBatch int    `json:"spillbatch,omitempty"`
	ReadSize   int    `json:"readsize,omitempty"`
	How        string `json:"how,omitempty"`         // reader | writeto | discard
	Compact    bool   `json:"compactterm,omitempty"` // value-1 single-column rows printed with `ones`
	Ops        []Op   `json:"ops"`
	Gen        string `json:"gen"`
}

// ---------------------------------------------------------------- Coq printing

func rowTerm(nk int, r []int64) string {
	parts := make([]string, 0, len(r))
	for _, x := range r {
		parts = append(parts, vf.Z(x))
	}
	if nk == 1 {
		return "r1 " + strings.Join(parts, " ")
	}
	if nk == 2 {
		return "r2 " + strings.Join(parts, " ")
	}
	return vf.Tuple(vf.ZList(r[:nk]), vf.Z(r[nk]))
}

func rowsTerm(nk int, rows [][]int64) string {
	ss := make([]string, len(rows))
	for i, r := range rows {
		ss[i] = rowTerm(nk, r)
	}
	return vf.List(ss)
}

func batchTerm(d *Desc, rows [][]int64) string {
	if d.Compact && d.NK == 1 {
		ks := make([]int64, len(rows))
		for i, r := range rows {
			ks[i] = r[0]
		}
		return vf.App("ones", vf.ZList(ks))
	}
	return rowsTerm(d.NK, rows)
}

type dump struct {
	slots [][]int64
	hits  []int
	len   int
	cap   int
}

func takeDump(f *exec.VerifC09Frame) dump {
	return dump{frameRows(f.Slots()), f.Hits(), f.Len(), f.Cap()}
}

func (d dump) term(nk int) string {
	return vf.App("mkDump", rowsTerm(nk, d.slots), vf.IntList(d.hits), vf.Z(int64(d.len)), vf.Z(int64(d.cap)))
}

func hashTerm(nk int, rowsets ...[][]int64) string {
	seen := map[string]bool{}
	var items []string
	for _, rows := range rowsets {
		for _, r := range rows {
			k := r[:nk]
			ks := fmt.Sprint(k)
			if seen[ks] {
				continue
			}
			seen[ks] = true
			items = append(items, vf.Tuple(vf.ZList(k), fmt.Sprintf("%d%%N", realHash(nk, k))))
		}
	}
	return vf.List(items)
}

// ---------------------------------------------------------------- running one case

const watchdog = 20 * time.Second

var hangs int

// result of running a case on the implementation
type result struct {
	term    string
	sig     string
	nontriv bool
	obs     string
	hung    bool
}

type stepMsg struct {
	term     string
	stop     bool   // panic: no further steps
	final    bool   // the worker is done
	problems string // non-empty: what the Go-side reference check saw
	nontriv  bool
}

// sumRows is the Go-side reference (used only for Sig / evidence, the verdict is Coq's).
func sumRows(nk int, rows [][]int64) map[string]int64 {
	m := map[string]int64{}
	for _, r := range rows {
		m[fmt.Sprint(r[:nk])] += r[nk]
	}
	return m
}

func outputWrong(nk int, fed, out [][]int64, ordered bool) bool {
	want := sumRows(nk, fed)
	if len(out) != len(want) {
		return true
	}
	seen := map[string]bool{}
	for i, r := range out {
		k := fmt.Sprint(r[:nk])
		w, ok := want[k]
		if !ok || seen[k] || w != r[nk] {
			return true
		}
		seen[k] = true
		if ordered && i > 0 {
			less := false
			for c := 0; c < nk; c++ {
				if out[i-1][c] != r[c] {
					less = out[i-1][c] < r[c]
					break
				}
			}
			if !less {
				return true
			}
		}
	}
	return false
}

func collided(nk int, d dump) bool {
	for i, h := range d.hits {
		if h != 0 && int(realHash(nk, d.slots[i][:nk]))&(d.cap-1) != i {
			return true
		}
	}
	return false
}

func countFiles(dir string) int {
	n := 0
	_ = filepath.Walk(dir, func(_ string, info os.FileInfo, err error) error {
		if err == nil && !info.IsDir() {
			n++
		}
		return nil
	})
	return n
}

// guard runs f and converts a panic of the code under test into ok=false.
func guard(f func()) (ok bool) {
	defer func() {
		if r := recover(); r != nil {
			ok = false
		}
	}()
	f()
	return true
}

func runFrame(d *Desc, send func(stepMsg)) (made bool) {
	var f *exec.VerifC09Frame
	if !guard(func() { f = exec.VerifC09MakeCombiningFrame(typOf(d.NK), addFn, d.Init, d.Scratch) }) {
		return false
	}
	var fed [][]int64
	cap0 := f.Cap()
	for _, o := range d.Ops {
		switch o.K {
		case "combine":
			if !guard(func() { f.Combine(rowsFrame(d.NK, o.Rows)) }) {
				send(stepMsg{term: vf.Tuple(vf.App("FCombine", batchTerm(d, o.Rows)), "FPanicked"), stop: true, problems: "panic"})
				return true
			}
			fed = append(fed, o.Rows...)
			dm := takeDump(f)
			send(stepMsg{term: vf.Tuple(vf.App("FCombine", batchTerm(d, o.Rows)), vf.App("FDump", dm.term(d.NK), "[]")),
				nontriv: dm.cap != cap0 || collided(d.NK, dm)})
		case "compact":
			var out [][]int64
			if !guard(func() { out = frameRows(f.Compact()) }) {
				send(stepMsg{term: vf.Tuple("FCompact", "FPanicked"), stop: true, problems: "panic"})
				return true
			}
			dm := takeDump(f)
			p := ""
			if outputWrong(d.NK, fed, out, false) {
				p = "rows-wrong:compact"
			}
			fed = nil
			send(stepMsg{term: vf.Tuple("FCompact", vf.App("FDump", dm.term(d.NK), rowsTerm(d.NK, out))), problems: p})
		}
	}
	return true
}

// runSweep: every op is one sequence of single-column keys (values 1), fed as one
// batch into a fresh frame, dumped, then compacted.
func runSweep(d *Desc, send func(stepMsg)) {
	for _, o := range d.Ops {
		seq := make([]int64, len(o.Rows))
		for i, r := range o.Rows {
			seq[i] = r[0]
		}
		var f *exec.VerifC09Frame
		var out [][]int64
		var dm dump
		ok := guard(func() {
			f = exec.VerifC09MakeCombiningFrame(typOf(1), addFn, d.Init, d.Scratch)
			f.Combine(rowsFrame(1, o.Rows))
			dm = takeDump(f)
			out = frameRows(f.Compact())
		})
		if !ok {
			send(stepMsg{term: vf.App("XBad", vf.ZList(seq)), problems: "panic"})
			continue
		}
		col := func(rows [][]int64, c int) []int64 {
			xs := make([]int64, len(rows))
			for i, r := range rows {
				xs[i] = r[c]
			}
			return xs
		}
		p := ""
		if outputWrong(1, o.Rows, out, false) {
			p = "rows-wrong:compact"
		}
		send(stepMsg{term: vf.App("XE", vf.ZList(seq), vf.ZList(col(dm.slots, 0)), vf.ZList(col(dm.slots, 1)), vf.IntList(dm.hits),
			vf.Z(int64(dm.len)), vf.Z(int64(dm.cap)), vf.ZList(col(out, 0)), vf.ZList(col(out, 1))),
			problems: p, nontriv: dm.cap != d.Init || collided(1, dm)})
	}
}

func runCombiner(d *Desc, send func(stepMsg)) (made bool, endTerm string) {
	restore := exec.VerifC09SetSizes(d.Init, d.Scratch)
	defer restore()
	sb := sliceio.SpillBatchSize
	if d.SpillBatch > 0 {
		sliceio.SpillBatchSize = d.SpillBatch
	}
	defer func() { sliceio.SpillBatchSize = sb }()
	ctx := context.Background()
	typ := typOf(d.NK)
	var m *exec.VerifC09Combiner
	var err error
	if !guard(func() { m, err = exec.VerifC09NewCombiner(typ, "c09", addFn, d.Target) }) || err != nil {
		// newCombiner creates the spill directory before it builds the frame; a
		// refused capacity leaves it behind (nothing was spilled): remove it here.
		return false, ""
	}
	dir := m.SpillDir()
	defer os.RemoveAll(dir)
	var fed [][]int64
	cap0 := m.Frame().Cap()
	for _, o := range d.Ops {
		if o.K != "combine" {
			continue
		}
		bt := batchTerm(d, o.Rows)
		var cerr error
		if !guard(func() { cerr = m.Combine(ctx, rowsFrame(d.NK, o.Rows)) }) || cerr != nil {
			send(stepMsg{term: vf.Tuple(bt, "CSPanicked"), stop: true, problems: "panic"})
			return true, "EPanicked"
		}
		fed = append(fed, o.Rows...)
		dm := takeDump(m.Frame())
		nfiles := countFiles(dir)
		send(stepMsg{term: vf.Tuple(bt, vf.App("CSOk", dm.term(d.NK), vf.Z(int64(nfiles)), vf.Z(int64(m.Total())))),
			nontriv: dm.cap != cap0 || collided(d.NK, dm) || nfiles > 0})
	}
	gone := func() bool {
		_, err := os.Stat(dir)
		return os.IsNotExist(err)
	}
	switch d.How {
	case "discard":
		if !guard(func() { err = m.Discard() }) || err != nil {
			return true, "EPanicked"
		}
		p := ""
		if !gone() {
			p = "tempfiles-left"
		}
		send(stepMsg{problems: p})
		return true, vf.App("ERows", "[]", vf.Bool(gone()))
	case "writeto":
		var buf bytes.Buffer
		var n int64
		if !guard(func() { n, err = m.WriteTo(ctx, sliceio.NewEncodingWriter(&buf)) }) || err != nil {
			return true, "EPanicked"
		}
		var out [][]int64
		r := sliceio.NewDecodingReader(&buf)
		in := frame.Make(typ, 64, 64)
		for {
			k, rerr := r.Read(ctx, in)
			out = append(out, frameRows(in.Slice(0, k))...)
			if rerr != nil {
				if rerr != sliceio.EOF {
					return true, "EPanicked"
				}
				break
			}
		}
		p := ""
		if int(n) != len(out) || outputWrong(d.NK, fed, out, true) {
			p = "rows-wrong:writeto"
		} else if !gone() {
			p = "tempfiles-left"
		}
		send(stepMsg{problems: p})
		if int(n) != len(out) { // the reported row count is part of the output
			out = append(out, make([]int64, d.NK+1))
		}
		return true, vf.App("ERows", rowsTerm(d.NK, out), vf.Bool(gone()))
	default: // reader
		var rd sliceio.Reader
		if !guard(func() { rd, err = m.Reader() }) || err != nil {
			return true, "EPanicked"
		}
		rs := d.ReadSize
		if rs <= 0 {
			rs = 128
		}
		var out [][]int64
		in := frame.Make(typ, rs, rs)
		bad := false
		if !guard(func() {
			for {
				k, rerr := rd.Read(ctx, in)
				out = append(out, frameRows(in.Slice(0, k))...)
				if rerr != nil {
					bad = rerr != sliceio.EOF
					return
				}
			}
		}) || bad {
			return true, "EPanicked"
		}
		p := ""
		if outputWrong(d.NK, fed, out, true) {
			p = "rows-wrong:reader"
		} else if !gone() {
			p = "tempfiles-left"
		}
		send(stepMsg{problems: p})
		return true, vf.App("ERows", rowsTerm(d.NK, out), vf.Bool(gone()))
	}
}

// runCase executes d on the implementation under a watchdog.
func runCase(d Desc) result {
	ch := make(chan stepMsg, 4096)
	type fin struct {
		made bool
		end  string
	}
	done := make(chan fin, 1)
	go func() {
		var f fin
		send := func(m stepMsg) { ch <- m }
		switch d.Level {
		case "frame":
			f.made = runFrame(&d, send)
		case "sweep":
			runSweep(&d, send)
			f.made = true
		default:
			f.made, f.end = runCombiner(&d, send)
		}
		done <- f
	}()
	var steps []string
	problem := ""
	nontriv := false
	take := func(m stepMsg) {
		if m.term != "" {
			steps = append(steps, m.term)
		}
		if m.problems != "" && problem == "" {
			problem = m.problems
		}
		nontriv = nontriv || m.nontriv
	}
	var f fin
	hung := false
	timer := time.NewTimer(watchdog)
loop:
	for {
		select {
		case m := <-ch:
			take(m)
			timer.Reset(watchdog)
		case f = <-done:
			for len(ch) > 0 {
				take(<-ch)
			}
			break loop
		case <-timer.C:
			hung = true
			break loop
		}
	}
	timer.Stop()
	var all [][]int64
	for _, o := range d.Ops {
		all = append(all, o.Rows...)
	}
	ht := hashTerm(d.NK, all)
	var term string
	if hung {
		hangs++
		problem = "hang"
		// the step that never returned: the one after the last reported step
		idx := len(steps)
		k := 0
		var cur *Op
		for i := range d.Ops {
			if d.Level == "combiner" && d.Ops[i].K != "combine" {
				continue
			}
			if k == idx {
				cur = &d.Ops[i]
				break
			}
			k++
		}
		if d.Level == "sweep" {
			if cur != nil {
				seq := make([]int64, len(cur.Rows))
				for i, r := range cur.Rows {
					seq[i] = r[0]
				}
				steps = append(steps, vf.App("XBad", vf.ZList(seq)))
			}
			f.made = true
		} else if d.Level == "frame" {
			if cur != nil && cur.K == "combine" {
				steps = append(steps, vf.Tuple(vf.App("FCombine", batchTerm(&d, cur.Rows)), "FHung"))
			} else if cur != nil {
				steps = append(steps, vf.Tuple("FCompact", "FHung"))
			}
			f.made = true
		} else {
			if cur != nil {
				steps = append(steps, vf.Tuple(batchTerm(&d, cur.Rows), "CSHung"))
			}
			f.made, f.end = true, "EHung"
		}
	}
	if d.Level == "sweep" {
		term = vf.App("CaseX", vf.App("mkXC", ht, vf.Nat(d.Init), vf.Nat(d.Scratch), vf.List(steps)))
	} else if d.Level == "frame" {
		term = vf.App("CaseF", vf.App("mkFC", ht, vf.Nat(d.NK), vf.Nat(d.Init), vf.Nat(d.Scratch), vf.Bool(f.made), vf.List(steps)))
	} else {
		how := map[string]string{"reader": "HReader", "writeto": "HWriteTo", "discard": "HDiscard"}[d.How]
		if how == "" {
			how = "HReader"
		}
		end := f.end
		if end == "" {
			end = "EPanicked"
		}
		if end == "EPanicked" && f.made && problem == "" {
			problem = "panic"
		}
		term = vf.App("CaseC", vf.App("mkCC", ht, vf.Nat(d.NK), vf.Nat(d.Init), vf.Nat(d.Scratch), vf.Z(int64(d.Target)),
			vf.Bool(f.made), vf.List(steps), how, end))
	}
	sig := "c09/ok"
	if problem != "" {
		sig = "c09/" + problem
	}
	if !f.made {
		sig = "c09/refused-capacity"
	}
	if d.Level == "frame" && d.Scratch == 0 {
		sig = "c09/zero-scratch"
	}
	return result{term: term, sig: sig, nontriv: nontriv, hung: hung,
		obs: fmt.Sprintf("%d steps, made=%v, %s", len(steps), f.made, sig)}
}

// ---------------------------------------------------------------- generators

// pools of keys whose REAL hashes collide in the low bits, so that small tables
// see long probe sequences, wrap-around and rehash collisions.
type pools struct {
	plain    [][]int64   // 0..63
	byHome8  [][][]int64 // keys with the same hash&7
	byHome16 [][][]int64
}

func mkPools(nk int) *pools {
	p := &pools{byHome8: make([][][]int64, 8), byHome16: make([][][]int64, 16)}
	add := func(k []int64) {
		h := realHash(nk, k)
		if len(p.byHome8[h&7]) < 40 {
			p.byHome8[h&7] = append(p.byHome8[h&7], k)
		}
		if len(p.byHome16[h&15]) < 40 {
			p.byHome16[h&15] = append(p.byHome16[h&15], k)
		}
	}
	if nk == 1 {
		for i := int64(0); i < 64; i++ {
			p.plain = append(p.plain, []int64{i})
		}
		for i := int64(-8); i < 600; i++ {
			add([]int64{i})
		}
	} else {
		for i := int64(0); i < 8; i++ {
			for j := int64(0); j < 8; j++ {
				p.plain = append(p.plain, []int64{i, j})
			}
		}
		for i := int64(-2); i < 24; i++ {
			for j := int64(-2); j < 24; j++ {
				add([]int64{i, j})
			}
		}
	}
	return p
}

var poolsByNK = map[int]*pools{}

func getPools(nk int) *pools {
	if poolsByNK[nk] == nil {
		poolsByNK[nk] = mkPools(nk)
	}
	return poolsByNK[nk]
}

// alphabet draws n distinct keys: plain small ones, one collision class, or a mix.
func alphabet(r *vf.Rand, nk, n int) [][]int64 {
	p := getPools(nk)
	var src [][]int64
	switch r.Intn(5) {
	case 0:
		src = p.plain
	case 1:
		src = p.byHome8[r.Intn(8)]
	case 2:
		src = p.byHome16[r.Intn(16)]
	case 3: // two colliding classes: neighbouring homes, probes run into each other
		a := r.Intn(8)
		src = append(append([][]int64{}, p.byHome8[a]...), p.byHome8[(a+1)%8]...)
	default:
		src = append(append([][]int64{}, p.plain[:16]...), p.byHome8[r.Intn(8)]...)
	}
	perm := make([]int, len(src))
	for i := range perm {
		perm[i] = i
	}
	for i := len(perm) - 1; i > 0; i-- {
		j := r.Intn(i + 1)
		perm[i], perm[j] = perm[j], perm[i]
	}
	seen := map[string]bool{}
	var out [][]int64
	// the zero key (equal to a zeroed slot) is a member of a third of the alphabets
	if r.Chance(1, 3) {
		z := make([]int64, nk)
		out = append(out, z)
		seen[fmt.Sprint(z)] = true
	}
	for _, i := range perm {
		if len(out) >= n {
			break
		}
		if s := fmt.Sprint(src[i]); !seen[s] {
			seen[s] = true
			out = append(out, src[i])
		}
	}
	return out
}

// skewed index: small indices much more likely
func skew(r *vf.Rand, n int) int {
	if r.Bool() {
		return r.Intn(n)
	}
	i := 0
	for i < n-1 && r.Chance(1, 2) {
		i++
	}
	return i
}

func genRows(r *vf.Rand, alpha [][]int64, n int, skewed bool) [][]int64 {
	rows := make([][]int64, n)
	for i := range rows {
		var k []int64
		if skewed {
			k = alpha[skew(r, len(alpha))]
		} else {
			k = alpha[r.Intn(len(alpha))]
		}
		v := int64(r.Range(-3, 9))
		rows[i] = append(append([]int64{}, k...), v)
	}
	return rows
}

func genFrame(r *vf.Rand) Desc {
	nk := 1
	if r.Chance(1, 3) {
		nk = 2
	}
	d := Desc{Level: "frame", NK: nk, Init: 8, Scratch: []int{1, 2, 3, 5, 8, 64}[r.Intn(6)], Gen: "frame-random"}
	if r.Chance(1, 4) {
		d.Init = []int{1, 2, 4, 16}[r.Intn(4)]
	}
	alpha := alphabet(r, nk, r.Range(3, 12))
	skewed := r.Bool()
	nb := r.Range(2, 8)
	for i := 0; i < nb; i++ {
		d.Ops = append(d.Ops, Op{K: "combine", Rows: genRows(r, alpha, r.Range(0, 10), skewed)})
		if r.Chance(1, 6) {
			d.Ops = append(d.Ops, Op{K: "compact"})
		}
	}
	d.Ops = append(d.Ops, Op{K: "compact"})
	if r.Chance(1, 4) { // the buffer is reusable after Compact
		d.Ops = append(d.Ops, Op{K: "combine", Rows: genRows(r, alpha, r.Range(1, 8), skewed)}, Op{K: "compact"})
	}
	return d
}

func genShort(r *vf.Rand) Desc {
	d := Desc{Level: "frame", NK: 1, Init: 8, Scratch: 8, Compact: true, Gen: "frame-short"}
	alpha := alphabet(r, 1, r.Range(3, 8))
	n := r.Range(1, 7)
	rows := make([][]int64, n)
	for i := range rows {
		rows[i] = []int64{alpha[r.Intn(len(alpha))][0], 1}
	}
	d.Ops = []Op{{K: "combine", Rows: rows}, {K: "compact"}}
	return d
}

func genCombiner(r *vf.Rand) Desc {
	nk := 1
	if r.Chance(1, 3) {
		nk = 2
	}
	d := Desc{Level: "combiner", NK: nk, Init: 8, Scratch: []int{1, 2, 3, 8, 64}[r.Intn(5)], Gen: "combiner-random"}
	if r.Chance(1, 4) {
		d.Init = []int{1, 2, 4, 16}[r.Intn(4)]
	}
	d.Target = r.Range(1, 6)
	if r.Chance(1, 8) {
		d.Target = []int{0, 9, 40, 1000}[r.Intn(4)]
	}
	d.SpillBatch = []int{1, 2, 3, 128}[r.Intn(4)]
	d.ReadSize = []int{1, 2, 3, 7, 128}[r.Intn(5)]
	switch k := r.Intn(20); {
	case k < 12:
		d.How = "reader"
	case k < 17:
		d.How = "writeto"
	default:
		d.How = "discard"
	}
	alpha := alphabet(r, nk, r.Range(3, 12))
	skewed := r.Bool()
	nb := r.Range(1, 10)
	for i := 0; i < nb; i++ {
		d.Ops = append(d.Ops, Op{K: "combine", Rows: genRows(r, alpha, r.Range(0, 9), skewed)})
	}
	return d
}

func genBadCapacity(r *vf.Rand) Desc {
	d := Desc{Level: []string{"frame", "combiner"}[r.Intn(2)], NK: 1, Init: []int{3, 5, 6, 12}[r.Intn(4)], Scratch: 4,
		Target: 2, How: "reader", Gen: "bad-capacity"}
	d.Ops = []Op{{K: "combine", Rows: [][]int64{{1, 1}}}}
	if d.Level == "frame" && r.Chance(1, 3) { // a frame without scratch space: Combine divides by zero
		d.Init, d.Scratch, d.Gen = 8, 0, "zero-scratch"
		if r.Bool() {
			d.Ops[0].Rows = nil
		}
	}
	return d
}

func genLong(r *vf.Rand, level string, n int) Desc {
	nk := 1
	if r.Chance(1, 3) {
		nk = 2
	}
	p := getPools(nk)
	var alpha [][]int64
	seen := map[string]bool{}
	na := r.Range(20, 300)
	for len(alpha) < na {
		var k []int64
		if nk == 1 {
			k = []int64{int64(r.Range(-50, 2000))}
		} else {
			k = []int64{int64(r.Range(-3, 40)), int64(r.Range(-3, 40))}
		}
		if !seen[fmt.Sprint(k)] {
			seen[fmt.Sprint(k)] = true
			alpha = append(alpha, k)
		}
	}
	_ = p
	d := Desc{Level: level, NK: nk, Init: 8, Scratch: []int{3, 16, 128}[r.Intn(3)], Gen: level + "-long"}
	if level == "combiner" {
		d.Target = []int{1, 7, 50, 200}[r.Intn(4)]
		d.SpillBatch = []int{1, 5, 128}[r.Intn(3)]
		d.ReadSize = []int{1, 10, 128}[r.Intn(3)]
		d.How = []string{"reader", "writeto"}[r.Intn(2)]
	}
	for n > 0 {
		b := r.Range(1, 200)
		if b > n {
			b = n
		}
		d.Ops = append(d.Ops, Op{K: "combine", Rows: genRows(r, alpha, b, true)})
		n -= b
	}
	if level == "frame" {
		d.Ops = append(d.Ops, Op{K: "compact"})
	}
	return d
}

// exhaustive: every sequence over alpha of length 0..maxLen (repeats allowed or not)
func enumerate(alpha []int64, maxLen int, repeats bool, emit func([]int64)) {
	var rec func(cur []int64, used uint)
	rec = func(cur []int64, used uint) {
		emit(append([]int64{}, cur...))
		if len(cur) == maxLen {
			return
		}
		for i, k := range alpha {
			if !repeats && used&(1<<uint(i)) != 0 {
				continue
			}
			rec(append(cur, k), used|1<<uint(i))
		}
	}
	rec(nil, 0)
}

// collidingAlphabet returns n single-column keys with the same home slot in a
// table of 8 (and, as far as available, of 16) slots, plus the zero key.
func collidingAlphabet(n int) []int64 {
	p := getPools(1)
	best := 0
	for i := range p.byHome16 {
		if len(p.byHome16[i]) > len(p.byHome16[best]) {
			best = i
		}
	}
	var out []int64
	for _, k := range p.byHome16[best] {
		if len(out) < n {
			out = append(out, k[0])
		}
	}
	return out
}

const sweepChunk = 250

func exhaustiveDescs() (ds []Desc, note string, total int) {
	add := func(alpha []int64, maxLen int, repeats bool, gen string) {
		cur := Desc{Level: "sweep", NK: 1, Init: 8, Scratch: 8, Gen: gen}
		flush := func() {
			if len(cur.Ops) > 0 {
				ds = append(ds, cur)
				cur = Desc{Level: "sweep", NK: 1, Init: 8, Scratch: 8, Gen: gen}
			}
		}
		enumerate(alpha, maxLen, repeats, func(seq []int64) {
			rows := make([][]int64, len(seq))
			for i, k := range seq {
				rows[i] = []int64{k, 1}
			}
			cur.Ops = append(cur.Ops, Op{K: "seq", Rows: rows})
			total++
			if len(cur.Ops) == sweepChunk {
				flush()
			}
		})
		flush()
	}
	col := collidingAlphabet(7)
	// (a) all sequences of length <= 7 over 3- and 4-key alphabets of colliding keys
	add(col[:3], 7, true, "exh-all-3")
	add(col[:4], 7, true, "exh-all-4")
	// (b) all repetition-free sequences of length <= 7 over 7 colliding keys: every
	//     insertion order of 6 and 7 distinct keys, i.e. every way to cross the load threshold
	add(col, 7, false, "exh-inj-7")
	// (c) all sequences of length <= 7 over {0 (the zero key), 1, 2}
	add([]int64{0, 1, 2}, 7, true, "exh-all-012")
	note = fmt.Sprintf("exhaustive at capacity 8 (each sequence = one batch into a fresh frame, then Compact): all sequences of length<=7 over colliding alphabets %v and %v and over [0 1 2]; all repetition-free sequences of length<=7 over %v (same home slot mod 16); %d sequences in sweep cases of <=%d", col[:3], col[:4], col, total, sweepChunk)
	return
}

// quickSweeps: a slice of the exhaustive space for the quick tier: all sequences
// of length <= 5 over three colliding keys, and a random sample of
// repetition-free sequences of 6 and 7 colliding keys (they cross the threshold).
func quickSweeps(r *vf.Rand) (ds []Desc) {
	col := collidingAlphabet(7)
	cur := Desc{Level: "sweep", NK: 1, Init: 8, Scratch: 8, Gen: "sweep-all-3-len5"}
	enumerate(col[:3], 5, true, func(seq []int64) {
		rows := make([][]int64, len(seq))
		for i, k := range seq {
			rows[i] = []int64{k, 1}
		}
		cur.Ops = append(cur.Ops, Op{K: "seq", Rows: rows})
		if len(cur.Ops) == sweepChunk {
			ds = append(ds, cur)
			cur = Desc{Level: "sweep", NK: 1, Init: 8, Scratch: 8, Gen: "sweep-all-3-len5"}
		}
	})
	if len(cur.Ops) > 0 {
		ds = append(ds, cur)
	}
	smp := Desc{Level: "sweep", NK: 1, Init: 8, Scratch: 8, Gen: "sweep-inj-7-sample"}
	for n := 0; n < 120; n++ {
		perm := append([]int64{}, col...)
		for i := len(perm) - 1; i > 0; i-- {
			j := r.Intn(i + 1)
			perm[i], perm[j] = perm[j], perm[i]
		}
		perm = perm[:r.Range(6, 7)]
		rows := make([][]int64, len(perm))
		for i, k := range perm {
			rows[i] = []int64{k, 1}
		}
		smp.Ops = append(smp.Ops, Op{K: "seq", Rows: rows})
	}
	return append(ds, smp)
}

func main() {
	opts := vf.ParseFlags()
	tmp, err := os.MkdirTemp("", "c09-tmp-")
	if err != nil {
		fmt.Fprintln(os.Stderr, err)
		os.Exit(2)
	}
	os.Setenv("TMPDIR", tmp)
	out := &vf.Output{ID: "C09", Import: "BS.C09.Corr",
		Rule:  "non-trivial = the run grew the table, or placed a key away from its home slot (real hash collision), or spilled at least once; distinct by case text",
		Extra: map[string]interface{}{}}
	var descs []Desc
	if opts.Replay != "" {
		if err := vf.LoadReplay(opts.Replay, &descs); err != nil {
			fmt.Fprintln(os.Stderr, err)
			os.Exit(2)
		}
	} else {
		root := vf.NewRand(opts.Seed)
		nf, ns, nc, nb := 130, 90, 160, 10
		if opts.Tier == "thorough" {
			nf, ns, nc, nb = 1300, 600, 1600, 30
		}
		nf, ns, nc = nf*opts.Scale, ns*opts.Scale, nc*opts.Scale
		for i := 0; i < nf; i++ {
			descs = append(descs, genFrame(root.Split()))
		}
		for i := 0; i < ns; i++ {
			descs = append(descs, genShort(root.Split()))
		}
		for i := 0; i < nc; i++ {
			descs = append(descs, genCombiner(root.Split()))
		}
		for i := 0; i < nb; i++ {
			descs = append(descs, genBadCapacity(root.Split()))
		}
		// long skewed sequences
		nl, ll := 2, 400
		if opts.Tier == "thorough" {
			nl, ll = 12, 3000
		}
		for i := 0; i < nl*opts.Scale; i++ {
			descs = append(descs, genLong(root.Split(), "frame", ll), genLong(root.Split(), "combiner", ll))
		}
		if opts.Tier != "thorough" {
			descs = append(descs, quickSweeps(root.Split())...)
		}
		if opts.Tier == "thorough" {
			ex, note, total := exhaustiveDescs()
			descs = append(descs, ex...)
			out.Extra["exhaustive"] = true
			out.Extra["exhaustive_space"] = note
			out.Extra["exhaustive_sequences"] = total
		}
	}
	aborted := 0
	for _, d := range descs {
		if hangs >= 4 {
			aborted++
			continue
		}
		res := runCase(d)
		nontriv := ""
		if res.nontriv {
			nontriv = vf.Hash(res.term)
		}
		kind := d.Gen
		if kind == "" {
			kind = d.Level
		}
		out.Add(vf.Case{Term: res.term, Desc: d, Sig: res.sig, Nontriv: nontriv, Kind: kind, Observed: res.obs})
	}
	if aborted > 0 {
		out.Notes = append(out.Notes, fmt.Sprintf("driver stopped after 4 hung cases; %d cases not run", aborted))
	}
	// leftovers in the private temp dir = spill directories nobody removed
	ents, _ := os.ReadDir(tmp)
	var left []string
	for _, e := range ents {
		left = append(left, e.Name())
	}
	sort.Strings(left)
	out.Extra["tmp_leftovers"] = len(left)
	os.RemoveAll(tmp)
	if err := out.Write(opts.Out, opts); err != nil {
		fmt.Fprintln(os.Stderr, err)
		os.Exit(2)
	}
	if hangs > 0 {
		os.Exit(0) // leaked spinning goroutines die with the process
	}
}

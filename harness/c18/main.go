// Command c18 calls the real operator constructors of package bigslice (public
// API only) over the cross product of a finite universe of input slices and
// function signatures.  Signatures are generated (reflect.FuncOf /
// reflect.MakeFunc), not hand-written.  Every call runs under recover() and is
// recorded as: accepted + the result's column types, Prefix() and NumShard();
// or *typecheck.Error + whether its File:Line is the harness call site; or any
// other panic.  The case file is judged by coq/C18/Corr.v.
package main

import (
	"context"
	"fmt"
	"os"
	"reflect"
	"runtime"
	"strings"

	"github.com/grailbio/bigslice"
	"github.com/grailbio/bigslice/frame"
	"github.com/grailbio/bigslice/sliceio"
	"github.com/grailbio/bigslice/typecheck"
	"verifharness/vf"
)

// ---------------------------------------------------------------- type universe

type myInt int
type keyStr string
type lessOnly int32
type hashOnly int64
type myBool bool
type point struct{ X, Y int }
type myErr struct{ msg string }

func (p point) String() string { return fmt.Sprint(p.X, p.Y) }
func (e *myErr) Error() string { return e.msg }

func init() {
	frame.RegisterOps(func(s []keyStr) frame.Ops {
		return frame.Ops{
			Less:         func(i, j int) bool { return s[i] < s[j] },
			HashWithSeed: func(i int, seed uint32) uint32 { return uint32(len(s[i])) + seed },
		}
	})
	frame.RegisterOps(func(s []lessOnly) frame.Ops {
		return frame.Ops{Less: func(i, j int) bool { return s[i] < s[j] }}
	})
	frame.RegisterOps(func(s []hashOnly) frame.Ops {
		return frame.Ops{HashWithSeed: func(i int, seed uint32) uint32 { return uint32(s[i]) + seed }}
	})
}

// named is the table of the universe's atomic types and their terms in the
// grammar of coq/C18/Types.v (ids documented in coq/C18/Corr.v).
var named = []struct {
	name string
	t    reflect.Type
	coq  string
}{
	{"int", reflect.TypeOf(int(0)), "(TBasic (KInt W0))"},
	{"int8", reflect.TypeOf(int8(0)), "(TBasic (KInt W8))"},
	{"int32", reflect.TypeOf(int32(0)), "(TBasic (KInt W32))"},
	{"int64", reflect.TypeOf(int64(0)), "(TBasic (KInt W64))"},
	{"uint", reflect.TypeOf(uint(0)), "(TBasic (KUint W0))"},
	{"uint8", reflect.TypeOf(uint8(0)), "(TBasic (KUint W8))"},
	{"string", reflect.TypeOf(""), "(TBasic KString)"},
	{"bool", reflect.TypeOf(false), "(TBasic KBool)"},
	{"float64", reflect.TypeOf(float64(0)), "(TBasic KFloat64)"},
	{"myInt", reflect.TypeOf(myInt(0)), "(TNamed 0 (KInt W0))"},
	{"keyStr", reflect.TypeOf(keyStr("")), "(TNamed 1 KString)"},
	{"lessOnly", reflect.TypeOf(lessOnly(0)), "(TNamed 2 (KInt W32))"},
	{"hashOnly", reflect.TypeOf(hashOnly(0)), "(TNamed 3 (KInt W64))"},
	{"myBool", reflect.TypeOf(myBool(false)), "(TNamed 4 KBool)"},
	{"error", reflect.TypeOf((*error)(nil)).Elem(), "TError"},
	{"ctx", reflect.TypeOf((*context.Context)(nil)).Elem(), "TContext"},
	{"unit", reflect.TypeOf(struct{}{}), "(TStruct 0)"},
	{"point", reflect.TypeOf(point{}), "(TStruct 1)"},
	{"myErr", reflect.TypeOf(myErr{}), "(TStruct 2)"},
	{"any", reflect.TypeOf((*interface{})(nil)).Elem(), "(TIface 0)"},
	{"Stringer", reflect.TypeOf((*fmt.Stringer)(nil)).Elem(), "(TIface 1)"},
}

func typeByName(n string) reflect.Type {
	switch {
	case strings.HasPrefix(n, "[]"):
		return reflect.SliceOf(typeByName(n[2:]))
	case strings.HasPrefix(n, "*"):
		return reflect.PtrTo(typeByName(n[1:]))
	case n == "func()":
		return reflect.FuncOf(nil, nil, false)
	case n == "func(int)string":
		return reflect.FuncOf([]reflect.Type{typeByName("int")}, []reflect.Type{typeByName("string")}, false)
	}
	for _, e := range named {
		if e.name == n {
			return e.t
		}
	}
	panic("c18: unknown type name " + n)
}

func typesByName(ns []string) []reflect.Type {
	ts := make([]reflect.Type, len(ns))
	for i, n := range ns {
		ts[i] = typeByName(n)
	}
	return ts
}

// coqTy prints a reflect.Type of the universe as a term of type ty.
func coqTy(t reflect.Type) string {
	for _, e := range named {
		if e.t == t {
			return e.coq
		}
	}
	switch t.Kind() {
	case reflect.Slice:
		if t.Name() == "" {
			return "(TSlice " + coqTy(t.Elem()) + ")"
		}
	case reflect.Ptr:
		return "(TPtr " + coqTy(t.Elem()) + ")"
	case reflect.Func:
		n := t.NumIn()
		variadic := "None"
		if t.IsVariadic() {
			n--
			variadic = "(Some " + coqTy(t.In(n).Elem()) + ")"
		}
		ins := make([]string, n)
		for i := range ins {
			ins[i] = coqTy(t.In(i))
		}
		outs := make([]string, t.NumOut())
		for i := range outs {
			outs[i] = coqTy(t.Out(i))
		}
		return "(TFunc " + vf.List(ins) + " " + variadic + " " + vf.List(outs) + ")"
	}
	panic("c18: type outside the universe: " + t.String())
}

func coqTys(ts []reflect.Type) string {
	ss := make([]string, len(ts))
	for i, t := range ts {
		ss[i] = coqTy(t)
	}
	return vf.List(ss)
}

// elemTypes is the universe of column (element) types, used for the Q facts.
var elemTypes = []string{
	"int", "int8", "int32", "int64", "uint", "uint8", "string", "bool", "float64",
	"myInt", "keyStr", "lessOnly", "hashOnly", "myBool", "error", "ctx", "unit", "point", "*point",
	"myErr", "*myErr", "any", "Stringer", "[]int", "[]string", "[]uint8", "[][]int", "[]point",
	"func()", "func(int)string", "*int", "[]any",
}

// ---------------------------------------------------------------- slice universe

type sliceDef struct {
	name   string
	cols   []string // element types of a Const
	nshard int
	prefix int    // > 1: wrapped in Prefixed
	via    string // "", "map1" (Map to one string column: inherits the prefix), "scan"
}

var sliceDefs = []sliceDef{
	{"i", []string{"int"}, 1, 1, ""},
	{"i.s", []string{"int", "string"}, 3, 1, ""},
	{"i.s/2", []string{"int", "string"}, 3, 2, ""},
	{"s.i.i", []string{"string", "int", "int"}, 2, 1, ""},
	{"s.i.i/2", []string{"string", "int", "int"}, 2, 2, ""},
	{"s.i.i/3", []string{"string", "int", "int"}, 2, 3, ""},
	{"f.i", []string{"float64", "int"}, 1, 1, ""},
	{"myInt.i", []string{"myInt", "int"}, 1, 1, ""},
	{"bytes.ints", []string{"[]uint8", "[]int"}, 4, 1, ""},
	{"point.s", []string{"point", "string"}, 1, 1, ""},
	{"i.ppoint", []string{"int", "*point"}, 2, 1, ""},
	{"keyStr.i", []string{"keyStr", "int"}, 1, 1, ""},
	{"lessOnly.i", []string{"lessOnly", "int"}, 1, 1, ""},
	{"hashOnly.i", []string{"hashOnly", "int"}, 5, 1, ""},
	{"i.ints", []string{"int", "[]int"}, 1, 1, ""},
	{"i64.i.err", []string{"int64", "int", "error"}, 2, 1, ""},
	{"unit.i", []string{"unit", "int"}, 1, 1, ""},
	{"i.point/2", []string{"int", "point"}, 2, 2, ""},
	{"point.i", []string{"point", "int"}, 2, 1, ""},
	{"myInt.s", []string{"myInt", "string"}, 1, 1, ""},
	// slices whose Prefix() exceeds NumOut(), obtainable only through constructors
	// that inherit the input's prefix
	{"map1(i.s/2)", []string{"int", "string"}, 3, 2, "map1"},
	{"scan(i)", []string{"int"}, 1, 1, "scan"},
}

var slices = map[string]bigslice.Slice{}

func emptyCol(elem reflect.Type) interface{} {
	return reflect.MakeSlice(reflect.SliceOf(elem), 0, 0).Interface()
}

// buildSlices constructs the input slices.  A slice whose construction panics
// (possible only if the code under test is broken) is left out and reported;
// the constructor cases themselves then show the breakage.
func buildSlices() (notes []string) {
	for _, d := range sliceDefs {
		func() {
			defer func() {
				if r := recover(); r != nil {
					notes = append(notes, fmt.Sprintf("input slice %s could not be built: %v", d.name, r))
				}
			}()
			colv := make([]interface{}, len(d.cols))
			for i, c := range d.cols {
				colv[i] = emptyCol(typeByName(c))
			}
			s := bigslice.Const(d.nshard, colv...)
			if d.prefix > 1 {
				s = bigslice.Prefixed(s, d.prefix)
			}
			switch d.via {
			case "map1":
				s = bigslice.Map(s, mkFunc(Sig{Ins: d.cols, Outs: []string{"string"}}))
			case "scan":
				s = bigslice.Scan(s, func(int, *sliceio.Scanner) error { return nil })
			}
			slices[d.name] = s
		}()
	}
	return notes
}

// stypeOf reads the type of a real slice back; a panicking Out(i) cannot happen
// for i < NumOut().
func stypeOf(s bigslice.Slice) string {
	cols := make([]string, s.NumOut())
	for i := range cols {
		cols[i] = coqTy(s.Out(i))
	}
	return vf.App("mkS", vf.List(cols), vf.Nat(s.Prefix()), vf.Z(int64(s.NumShard())))
}

func wellFormed(s bigslice.Slice) bool { return s.Prefix() >= 1 && s.Prefix() <= s.NumOut() }

// ---------------------------------------------------------------- signatures

// Sig describes the value passed where a user function is expected: a function
// type (parameter and result type names) or a non-function value.
type Sig struct {
	Ins      []string `json:"ins,omitempty"`
	Variadic bool     `json:"variadic,omitempty"`
	Outs     []string `json:"outs,omitempty"`
	NonFunc  string   `json:"nonfunc,omitempty"`
}

func (g Sig) key() string {
	return fmt.Sprintf("%s|%v|%s|%s", strings.Join(g.Ins, ","), g.Variadic, strings.Join(g.Outs, ","), g.NonFunc)
}

func (g Sig) valid() bool {
	if g.NonFunc != "" {
		return true
	}
	if g.Variadic {
		return len(g.Ins) > 0 && strings.HasPrefix(g.Ins[len(g.Ins)-1], "[]")
	}
	return true
}

func (g Sig) typ() reflect.Type {
	if g.NonFunc != "" {
		return typeByName(g.NonFunc)
	}
	return reflect.FuncOf(typesByName(g.Ins), typesByName(g.Outs), g.Variadic)
}

func mkFunc(g Sig) interface{} {
	t := g.typ()
	if g.NonFunc != "" {
		return reflect.Zero(t).Interface() // never an interface type: see nonFuncs
	}
	outs := typesByName(g.Outs)
	return reflect.MakeFunc(t, func([]reflect.Value) []reflect.Value {
		r := make([]reflect.Value, len(outs))
		for i := range r {
			r[i] = reflect.Zero(outs[i])
		}
		return r
	}).Interface()
}

var nonFuncs = []Sig{{NonFunc: "int"}, {NonFunc: "string"}, {NonFunc: "*point"}, {NonFunc: "[]int"}}

type sigSet struct {
	seen map[string]bool
	list []Sig
}

func (ss *sigSet) add(ins []string, variadic bool, outs []string) {
	g := Sig{Ins: append([]string{}, ins...), Variadic: variadic, Outs: append([]string{}, outs...)}
	if !g.valid() {
		return
	}
	if ss.seen == nil {
		ss.seen = map[string]bool{}
	}
	if !ss.seen[g.key()] {
		ss.seen[g.key()] = true
		ss.list = append(ss.list, g)
	}
}

func cat(xs ...[]string) []string {
	var r []string
	for _, x := range xs {
		r = append(r, x...)
	}
	return r
}
func l(xs ...string) []string { return xs }

// parameter lists for the constructors that apply a function to the columns
// (Map, Filter, Flatmap): exact fits for several slices, context parameters,
// interface parameters, variadics (taking zero, one, several columns; the
// implicit []e of ...e coinciding with a []e column), wrong arity and order.
type params struct {
	ins      []string
	variadic bool
}

var applyParams = []params{
	{l(), false}, {l("int"), false}, {l("string"), false}, {l("int", "string"), false},
	{l("string", "int"), false}, {l("string", "int", "int"), false}, {l("int", "string", "int"), false},
	{l("ctx"), false}, {l("ctx", "int"), false}, {l("ctx", "int", "string"), false}, {l("ctx", "ctx", "int"), false},
	{l("int", "ctx"), false},
	{l("any"), false}, {l("any", "any"), false}, {l("int", "Stringer"), false}, {l("int", "*point"), false},
	{l("int", "point"), false}, {l("Stringer", "string"), false}, {l("int64", "int", "error"), false},
	{l("int64", "int", "*myErr"), false}, {l("int64", "any", "any"), false},
	{l("myInt", "int"), false}, {l("myInt"), false}, {l("float64", "int"), false},
	{l("[]uint8", "[]int"), false}, {l("int", "[]int"), false}, {l("keyStr", "int"), false},
	{l("[]int"), true}, {l("int", "[]string"), true}, {l("int", "string", "[]int"), true},
	{l("[]any"), true}, {l("string", "[]int"), true}, {l("ctx", "[]any"), true},
	{l("int", "[]Stringer"), true}, {l("int", "[]int"), true}, {l("int", "[][]int"), true},
	{l("[]uint8", "[]int"), true}, {l("[]ctx"), true}, {l("int", "string", "int", "[]int"), true},
	{l("unit", "int"), false}, {l("hashOnly", "any"), false},
}

func applySigs(mainOut []string, otherOuts [][]string) []Sig {
	var ss sigSet
	for _, p := range applyParams {
		ss.add(p.ins, p.variadic, mainOut)
	}
	for _, p := range []params{{l("int"), false}, {l("int", "string"), false}, {l("ctx", "int", "string"), false},
		{l("[]any"), true}, {l("string", "int", "int"), false}, {l("string"), false}} {
		for _, o := range otherOuts {
			ss.add(p.ins, p.variadic, o)
		}
	}
	return append(ss.list, nonFuncs...)
}

func sliceOf(ns []string) []string {
	r := make([]string, len(ns))
	for i, n := range ns {
		r[i] = "[]" + n
	}
	return r
}

func lastIsSlice(ns []string) bool { return len(ns) > 0 && strings.HasPrefix(ns[len(ns)-1], "[]") }

// per-slice perturbations of the exact documented form, unioned over all slices
func foldSigs() []Sig {
	var ss sigSet
	for _, d := range sliceDefs {
		if len(d.cols) < 2 || d.via != "" {
			continue
		}
		rest := d.cols[1:]
		for _, acc := range []string{"int", rest[0]} {
			ss.add(cat(l(acc), rest), false, l(acc))
			ss.add(cat(l("ctx", acc), rest), false, l(acc))
			ss.add(cat(l(acc), rest), false, l("string"))
			ss.add(cat(l(acc), rest), false, l(acc, acc))
			ss.add(cat(l(acc), rest), false, l())
			ss.add(cat(l(acc), d.cols), false, l(acc))
			ss.add(cat(l(acc), rest[:len(rest)-1]), false, l(acc))
			ss.add(cat(l(acc), rest), lastIsSlice(rest), l(acc))
		}
		ss.add(cat(l("any"), rest), false, l("any"))
		ss.add(cat(l("any"), rest), false, l("int"))
	}
	ss.add(l("[]int"), true, l("[]int"))
	return append(ss.list, nonFuncs...)
}

func reduceSigs() []Sig {
	var ss sigSet
	for _, v := range []string{"int", "string", "[]int", "*point", "error", "point"} {
		ss.add(l(v, v), false, l(v))
		ss.add(l("ctx", v, v), false, l(v))
		ss.add(l(v, v), strings.HasPrefix(v, "[]"), l(v))
		ss.add(l(v), false, l(v))
		ss.add(l(v, v, v), false, l(v))
		ss.add(l(v, v), false, l())
		ss.add(l(v, v), false, l(v, v))
		ss.add(l(v, "any"), false, l(v))
		ss.add(l("any", "any"), false, l("any"))
		ss.add(l(v, v), false, l("any"))
	}
	ss.add(l("myInt", "myInt"), false, l("myInt"))
	ss.add(l("int", "myInt"), false, l("int"))
	return append(ss.list, nonFuncs...)
}

func repartitionSigs() []Sig {
	var ss sigSet
	for _, d := range sliceDefs {
		c := d.cols
		if d.via == "map1" {
			c = l("string")
		} else if d.via == "scan" {
			c = l()
		}
		ss.add(cat(l("int"), c), false, l("int"))
		ss.add(cat(l("ctx", "int"), c), false, l("int"))
		ss.add(c, false, l("int"))
		ss.add(cat(l("int"), c), false, l())
		ss.add(cat(l("int"), c), false, l("int64"))
		ss.add(cat(l("int"), c), false, l("int", "int"))
		ss.add(cat(l("myInt"), c), false, l("int"))
		ss.add(cat(l("int"), c), false, l("myInt"))
		ss.add(cat(l("int"), c, l("int")), false, l("int"))
		ss.add(cat(l("int"), c), lastIsSlice(c), l("int"))
		if len(c) > 0 {
			ss.add(cat(l("int", "any"), c[1:]), false, l("int"))
		}
	}
	ss.add(l("int", "[]any"), true, l("int"))
	return append(ss.list, nonFuncs...)
}

func writerSigs() []Sig {
	var ss sigSet
	for _, d := range sliceDefs {
		c := d.cols
		if d.via == "map1" {
			c = l("string")
		} else if d.via == "scan" {
			c = l()
		}
		v := sliceOf(c)
		ss.add(cat(l("int", "*point", "error"), v), false, l("error"))
		ss.add(cat(l("ctx", "int", "int", "error"), v), false, l("error"))
		ss.add(cat(l("myInt", "int", "error"), v), false, l("error"))
		ss.add(cat(l("string", "int", "error"), v), false, l("error"))
		ss.add(cat(l("int", "int", "*myErr"), v), false, l("error"))
		ss.add(cat(l("int", "int", "any"), v), false, l("error"))
		ss.add(cat(l("int", "int", "error"), v), false, l())
		ss.add(cat(l("int", "int", "error"), v), false, l("*myErr"))
		ss.add(cat(l("int", "int", "error"), v), false, l("error", "error"))
		ss.add(cat(l("int", "int", "error"), v), false, l("int"))
		ss.add(cat(l("int", "int", "error"), c), false, l("error"))
		ss.add(cat(l("int", "int", "error"), v, l("[]int")), false, l("error"))
		ss.add(cat(l("int", "error"), v), false, l("error"))
		ss.add(cat(l("int", "int", "error"), v), len(v) > 0, l("error"))
		if len(v) > 0 {
			ss.add(cat(l("int", "int", "error"), v[:len(v)-1]), false, l("error"))
		}
	}
	ss.add(l(), false, l("error"))
	ss.add(l("int"), false, l("error"))
	ss.add(l("int", "int"), false, l("error"))
	ss.add(l("ctx", "int", "int"), false, l("error"))
	return append(ss.list, nonFuncs...)
}

func readerSigs() []Sig {
	var ss sigSet
	results := [][]string{l("int", "error"), l("myInt", "error"), l("int"), l("string"), l(), l("error", "int"),
		l("int", "error", "int"), l("int", "*myErr"), l("int64", "error"), l("int", "error", "string", "string"),
		l("error"), l("int", "any"), l("string", "error")}
	colss := [][]string{l("[]int"), l("[]int", "[]string"), l("[]point", "[]*point"), l("[][]int")}
	for _, cs := range colss {
		for _, r := range results {
			ss.add(cat(l("int", "int"), cs), false, r)
		}
		for _, r := range [][]string{l("int", "error"), l("int"), l(), l("int", "error", "int")} {
			ss.add(cat(l("ctx", "int", "*point"), cs), false, r)
			ss.add(cat(l("int", "unit"), cs), true, r) // variadic last column
			ss.add(cat(l("myInt", "int"), cs), false, r)
			ss.add(cat(l("string", "int"), cs), false, r)
			ss.add(cat(l("int64", "int"), cs), false, r)
			ss.add(cat(l("int", "int"), cs, l("int")), false, r) // a column that is not a vector
			ss.add(cat(l("int", "int", "string"), cs), false, r)
		}
	}
	for _, r := range [][]string{l("int", "error"), l("int"), l(), l("int", "error", "int"), l("string")} {
		ss.add(l("int", "int"), false, r)
		ss.add(l("ctx", "int", "int"), false, r)
		ss.add(l("int"), false, r)
		ss.add(l(), false, r)
		ss.add(l("ctx"), false, r)
		ss.add(l("int", "[]int"), false, r)
		ss.add(l("int", "[]int"), true, r)
	}
	return append(ss.list, nonFuncs...)
}

var constColumns = [][]string{
	{}, {"[]int"}, {"[]int", "[]string"}, {"int"}, {"[]int", "int"}, {"string"}, {"[]point", "[]*point"},
	{"[]error"}, {"[][]int"}, {"func()"}, {"[]func()"}, {"*point"}, {"[]unit"}, {"[]any"}, {"[]myInt", "[]keyStr", "[]uint8"},
	{"point", "[]int"}, {"[]ctx"}, {"[]int", "[]int", "[]int", "[]int"},
}

// ---------------------------------------------------------------- cases

// Desc is the replayable description of one case.
type Desc struct {
	Ctor   string   `json:"ctor"`
	Slices []string `json:"slices,omitempty"`
	Fn     *Sig     `json:"fn,omitempty"`
	N      int      `json:"n,omitempty"`    // nshard / prefix / head count
	Cols   []string `json:"cols,omitempty"` // Const: dynamic types of the column values
	V      string   `json:"v,omitempty"`    // Q facts
	T      string   `json:"t,omitempty"`
	Params []string `json:"params,omitempty"` // Invocation: parameter types of the bigslice.Func
	Args   []string `json:"args,omitempty"`   // Invocation: dynamic types of the arguments, "nil" = untyped nil
}

var thisFile = func() string { _, f, _, _ := runtime.Caller(0); return f }()

func here() int { _, _, line, _ := runtime.Caller(1); return line }

type result struct {
	obs   string // Coq term of type observed
	class string // accept | typeerr | typeerr-misattributed | panic | fact
	note  string
}

// runCtor performs the constructor call described by d.  The statement after
// each `line = here() + 1` is the call whose line a typecheck error must carry.
func runCtor(d Desc) (callTerm string, res result) {
	var line int
	defer func() {
		if r := recover(); r != nil {
			if callTerm == "" {
				panic(r) // a failure of the harness itself, not of the code under test
			}
			if te, ok := r.(*typecheck.Error); ok {
				at := te.File == thisFile && te.Line == line
				res = result{obs: vf.App("OTypeErr", vf.Bool(at)), class: "typeerr", note: te.Err.Error()}
				if !at {
					res.class = "typeerr-misattributed"
					res.note = fmt.Sprintf("%s:%d (call at line %d): %v", te.File, te.Line, line, te.Err)
				}
				return
			}
			res = result{obs: "OPanic", class: "panic", note: fmt.Sprintf("%T: %v", r, r)}
		}
	}()
	var s bigslice.Slice
	var ss []bigslice.Slice
	for _, n := range d.Slices {
		sl, ok := slices[n]
		if !ok {
			panic("c18: unknown slice " + n)
		}
		ss = append(ss, sl)
	}
	if len(ss) > 0 {
		s = ss[0]
	}
	var fn interface{}
	fnTerm := ""
	if d.Fn != nil {
		fn = mkFunc(*d.Fn)
		fnTerm = coqTy(d.Fn.typ())
	}
	var out bigslice.Slice
	switch d.Ctor {
	case "const":
		colv := make([]interface{}, len(d.Cols))
		colt := make([]reflect.Type, len(d.Cols))
		for i, c := range d.Cols {
			colt[i] = typeByName(c)
			if colt[i].Kind() == reflect.Slice {
				colv[i] = reflect.MakeSlice(colt[i], 0, 0).Interface()
			} else {
				colv[i] = reflect.Zero(colt[i]).Interface()
			}
		}
		callTerm = vf.App("CConst", vf.Z(int64(d.N)), coqTys(colt))
		line = here() + 1
		out = bigslice.Const(d.N, colv...)
	case "readerfunc":
		callTerm = vf.App("CReaderFunc", vf.Z(int64(d.N)), fnTerm)
		line = here() + 1
		out = bigslice.ReaderFunc(d.N, fn)
	case "writerfunc":
		callTerm = vf.App("CWriterFunc", stypeOf(s), fnTerm)
		line = here() + 1
		out = bigslice.WriterFunc(s, fn)
	case "map":
		callTerm = vf.App("CMap", stypeOf(s), fnTerm)
		line = here() + 1
		out = bigslice.Map(s, fn)
	case "filter":
		callTerm = vf.App("CFilter", stypeOf(s), fnTerm)
		line = here() + 1
		out = bigslice.Filter(s, fn)
	case "flatmap":
		callTerm = vf.App("CFlatmap", stypeOf(s), fnTerm)
		line = here() + 1
		out = bigslice.Flatmap(s, fn)
	case "fold":
		callTerm = vf.App("CFold", stypeOf(s), fnTerm)
		line = here() + 1
		out = bigslice.Fold(s, fn)
	case "head":
		callTerm = vf.App("CHead", stypeOf(s), vf.Z(int64(d.N)))
		line = here() + 1
		out = bigslice.Head(s, d.N)
	case "scan":
		callTerm = vf.App("CScan", stypeOf(s))
		line = here() + 1
		out = bigslice.Scan(s, func(int, *sliceio.Scanner) error { return nil })
	case "prefixed":
		callTerm = vf.App("CPrefixed", stypeOf(s), vf.Z(int64(d.N)))
		line = here() + 1
		out = bigslice.Prefixed(s, d.N)
	case "reduce":
		callTerm = vf.App("CReduce", stypeOf(s), fnTerm)
		line = here() + 1
		out = bigslice.Reduce(s, fn)
	case "reshuffle":
		callTerm = vf.App("CReshuffle", stypeOf(s))
		line = here() + 1
		out = bigslice.Reshuffle(s)
	case "repartition":
		callTerm = vf.App("CRepartition", stypeOf(s), fnTerm)
		line = here() + 1
		out = bigslice.Repartition(s, fn)
	case "reshard":
		callTerm = vf.App("CReshard", stypeOf(s), vf.Z(int64(d.N)))
		line = here() + 1
		out = bigslice.Reshard(s, d.N)
	case "cogroup":
		sts := make([]string, len(ss))
		for i := range ss {
			sts[i] = stypeOf(ss[i])
		}
		callTerm = vf.App("CCogroup", vf.List(sts))
		line = here() + 1
		out = bigslice.Cogroup(ss...)
	case "invocation":
		fv := funcValueFor(d.Params)
		argv := make([]interface{}, len(d.Args))
		argt := make([]string, len(d.Args))
		for i, a := range d.Args {
			if a == "nil" {
				argt[i] = "None"
				continue
			}
			t := typeByName(a)
			argv[i] = reflect.Zero(t).Interface() // a is never an interface type: see invocationDescs
			argt[i] = vf.Some(coqTy(t))
		}
		callTerm = vf.App("CInvocation", coqTys(typesByName(d.Params)), vf.List(argt))
		line = here() + 1
		fv.Invocation("c18", argv...)
		return callTerm, result{obs: "OOk", class: "accept"}
	case "assignable":
		v, t := typeByName(d.V), typeByName(d.T)
		return vf.App("QAssignable", coqTy(v), coqTy(t)),
			result{obs: vf.App("OBool", vf.Bool(v.AssignableTo(t))), class: "fact"}
	case "canhash":
		t := typeByName(d.T)
		return vf.App("QCanHash", coqTy(t)), result{obs: vf.App("OBool", vf.Bool(frame.CanHash(t))), class: "fact"}
	case "cancompare":
		t := typeByName(d.T)
		return vf.App("QCanCompare", coqTy(t)), result{obs: vf.App("OBool", vf.Bool(frame.CanCompare(t))), class: "fact"}
	default:
		panic("c18: unknown constructor " + d.Ctor)
	}
	return callTerm, result{obs: vf.App("OAccept", stypeOf(out)), class: "accept", note: bigslice.String(out)}
}

// funcValues memoises one registered bigslice.Func per parameter list.
var funcValues = map[string]*bigslice.FuncValue{}

func funcValueFor(params []string) *bigslice.FuncValue {
	k := strings.Join(params, ",")
	if fv, ok := funcValues[k]; ok {
		return fv
	}
	t := reflect.FuncOf(typesByName(params), []reflect.Type{reflect.TypeOf((*bigslice.Slice)(nil)).Elem()}, false)
	fv := bigslice.Func(reflect.MakeFunc(t, func([]reflect.Value) []reflect.Value {
		return []reflect.Value{reflect.ValueOf(slices["i"])}
	}).Interface())
	funcValues[k] = fv
	return fv
}

// sigOf names the finding a case belongs to if it is judged a violation.  Only
// the open finding has a signature of its own.  The three repaired defects
// (ReaderFunc result arity, variadic functions in the exact-form constructors,
// shard parameter of a defined int type) have none: should the old behaviour
// come back, the cases are plain violations of their constructor.
func sigOf(d Desc) string {
	switch d.Ctor {
	case "reshuffle", "reshard", "cogroup":
		for _, n := range d.Slices {
			if !wellFormed(slices[n]) {
				return "prefix-exceeds-columns-panics"
			}
		}
	}
	return "ctor:" + d.Ctor
}

// repairedRegion tells whether a case lies in one of the two regions repaired by
// fix: commits (a variadic function, or a shard parameter of a defined int type,
// given to an exact-form constructor).  These are ordinary reject cases now; the
// quick tier keeps all of them so that a regression is seen at once.
func repairedRegion(d Desc) bool {
	if d.Fn == nil || d.Fn.NonFunc != "" {
		return false
	}
	switch d.Ctor {
	case "fold", "reduce", "repartition", "readerfunc", "writerfunc":
	default:
		return false
	}
	ins := d.Fn.Ins
	if len(ins) > 0 && ins[0] == "ctx" {
		ins = ins[1:]
	}
	named := (d.Ctor == "readerfunc" || d.Ctor == "writerfunc") && len(ins) > 0 && ins[0] == "myInt"
	return d.Fn.Variadic || named
}

// invocationDescs: for each parameter list, the exact arguments, every single
// position replaced by each candidate (other concrete types, implementers and
// non-implementers of the interfaces, untyped nil), and wrong arities.
func invocationDescs() []Desc {
	paramLists := [][]string{{}, {"int"}, {"int", "string"}, {"Stringer"}, {"any"}, {"*point"}, {"[]int"}, {"error"},
		{"int", "Stringer", "*point"}, {"myInt"}, {"func()"}, {"point"}, {"int", "any"}, {"ctx", "int"}, {"unit", "[]uint8"}}
	exact := map[string]string{"Stringer": "point", "any": "int", "error": "*myErr", "ctx": "nil"}
	cands := []string{"nil", "int", "string", "point", "*point", "*myErr", "myErr", "myInt", "[]int", "func()", "unit", "[]uint8"}
	var ds []Desc
	seen := map[string]bool{}
	add := func(ps, as []string) {
		k := strings.Join(ps, ",") + "|" + strings.Join(as, ",")
		if !seen[k] {
			seen[k] = true
			ds = append(ds, Desc{Ctor: "invocation", Params: ps, Args: append([]string{}, as...)})
		}
	}
	for _, ps := range paramLists {
		base := make([]string, len(ps))
		for i, p := range ps {
			base[i] = p
			if e, ok := exact[p]; ok {
				base[i] = e
			}
		}
		add(ps, base)
		for i := range ps {
			for _, c := range cands {
				as := append([]string{}, base...)
				as[i] = c
				add(ps, as)
			}
		}
		add(ps, append(append([]string{}, base...), "int"))
		add(ps, append(append([]string{}, base...), "nil"))
		if len(base) > 0 {
			add(ps, base[:len(base)-1])
			add(ps, []string{})
		}
	}
	return ds
}

// ---------------------------------------------------------------- targeted families
//
// cube returns pool^k: every position varies independently over the pool, so it
// contains in particular every tuple in which several positions share the same
// wrong type (func(x, x) v, func(x, x) x, func(v, x) v, ...).
func cube(pool []string, k int) [][]string {
	out := [][]string{{}}
	for i := 0; i < k; i++ {
		var next [][]string
		for _, t := range out {
			for _, p := range pool {
				next = append(next, append(append([]string{}, t...), p))
			}
		}
		out = next
	}
	return out
}

func fnDesc(ctor, slice string, n int, ins []string, outs []string) Desc {
	g := Sig{Ins: append([]string{}, ins...), Outs: append([]string{}, outs...)}
	d := Desc{Ctor: ctor, Fn: &g, N: n}
	if slice != "" {
		d.Slices = []string{slice}
	}
	return d
}

// targetedDescs are complete in every tier: for a few representative input
// slices per constructor, every parameter and result position of the documented
// form ranges independently over a small type pool.
func targetedDescs() []Desc {
	var ds []Desc
	have := func(n string) bool { _, ok := slices[n]; return ok }
	base := l("int", "string", "int64", "myInt", "[]int")
	// Reduce(Slice<k,v>, func(a, b) c): (a, b, c) over the pool, value types int, string, []int
	for _, sl := range l("i.s", "s.i.i/2", "i.ints", "keyStr.i") {
		if !have(sl) {
			continue
		}
		for _, t := range cube(base, 3) {
			ds = append(ds, fnDesc("reduce", sl, 0, t[:2], t[2:]))
		}
	}
	// Fold(Slice<k,v2..vn>, func(acc, v2..vn) r): accumulator, value columns and result
	for _, sl := range l("i.s", "i.ints", "keyStr.i") {
		if !have(sl) {
			continue
		}
		for _, t := range cube(base, 3) {
			ds = append(ds, fnDesc("fold", sl, 0, t[:2], t[2:]))
		}
	}
	if have("s.i.i") {
		for _, t := range cube(l("int", "string", "int64", "myInt"), 4) {
			ds = append(ds, fnDesc("fold", "s.i.i", 0, t[:3], t[3:]))
		}
	}
	// Map / Filter / Flatmap: every column parameter over the pool (+ interface{}),
	// then every result over the pool with the exact parameters
	apool := l("int", "string", "int64", "myInt", "any")
	type ap struct {
		ctor string
		out  []string
		outs [][]string
	}
	var mapOuts, filterOuts, flatOuts [][]string
	for k := 0; k <= 2; k++ {
		mapOuts = append(mapOuts, cube(l("int", "string", "myInt"), k)...)
		flatOuts = append(flatOuts, cube(l("[]int", "[]string", "int", "[][]int"), k)...)
	}
	filterOuts = append(cube(l("bool", "myBool", "int", "string", "any"), 1), cube(l("bool", "int"), 2)...)
	filterOuts = append(filterOuts, l())
	for _, a := range []ap{{"map", l("string"), mapOuts}, {"filter", l("bool"), filterOuts}, {"flatmap", l("[]int"), flatOuts}} {
		for _, sl := range l("i", "i.s", "s.i.i") {
			if !have(sl) {
				continue
			}
			n := slices[sl].NumOut()
			for _, t := range cube(apool, n) {
				ds = append(ds, fnDesc(a.ctor, sl, 0, t, a.out))
			}
			var exact []string
			for _, d := range sliceDefs {
				if d.name == sl {
					exact = d.cols
				}
			}
			for _, o := range a.outs {
				ds = append(ds, fnDesc(a.ctor, sl, 0, exact, o))
			}
		}
	}
	// Repartition(Slice<t1..tn>, func(nshard, t1..tn) r): shard count and result of
	// defined / other integer types, columns over the pool
	ipool := l("int", "myInt", "int64", "string")
	for _, sl := range l("i", "i.s") {
		if !have(sl) {
			continue
		}
		n := slices[sl].NumOut()
		for _, t := range cube(ipool, n+2) {
			ds = append(ds, fnDesc("repartition", sl, 0, t[:n+1], t[n+1:]))
		}
	}
	// WriterFunc(slice, func(shard, state, err, cols...) r)
	for _, shard := range l("int", "myInt", "string") {
		for _, state := range l("int", "*point") {
			for _, e := range l("error", "*myErr", "any") {
				for _, c := range l("[]int", "[]string", "int", "[][]int") {
					for _, r := range l("error", "*myErr", "int") {
						ds = append(ds, fnDesc("writerfunc", "i", 0, l(shard, state, e, c), l(r)))
					}
				}
			}
		}
	}
	if have("i.s") {
		for _, shard := range l("int", "myInt") {
			for _, e := range l("error", "any") {
				for _, cs := range cube(l("[]int", "[]string", "int"), 2) {
					for _, r := range l("error", "int") {
						ds = append(ds, fnDesc("writerfunc", "i.s", 0, cat(l(shard, "unit", e), cs), l(r)))
					}
				}
			}
		}
	}
	// ReaderFunc(n, func(shard, state, cols...) (count, err))
	for _, shard := range l("int", "myInt", "string") {
		for _, state := range l("int", "*point") {
			for _, c := range l("[]int", "[]string", "int", "[][]int") {
				for _, cnt := range l("int", "myInt", "int64", "string", "error") {
					for _, e := range l("error", "*myErr", "any", "int") {
						ds = append(ds, fnDesc("readerfunc", "", 2, l(shard, state, c), l(cnt, e)))
					}
				}
			}
		}
	}
	for _, shard := range l("int", "myInt") {
		for _, cs := range cube(l("[]int", "[]string", "int"), 2) {
			for _, cnt := range l("int", "string") {
				for _, e := range l("error", "int") {
					ds = append(ds, fnDesc("readerfunc", "", 2, cat(l(shard, "unit"), cs), l(cnt, e)))
				}
			}
		}
	}
	// Cogroup: every pair (and the triple) of inputs whose key columns are equal -
	// hashable or not - plus each input with itself
	keyOf := func(n string) string {
		s := slices[n]
		if !wellFormed(s) {
			return "!" + n
		}
		ks := make([]string, s.Prefix())
		for i := range ks {
			ks[i] = s.Out(i).String()
		}
		return strings.Join(ks, ",")
	}
	var names []string
	for _, d := range sliceDefs {
		if have(d.name) {
			names = append(names, d.name)
		}
	}
	for _, a := range names {
		for _, b := range names {
			if keyOf(a) == keyOf(b) {
				ds = append(ds, Desc{Ctor: "cogroup", Slices: []string{a, b}})
				ds = append(ds, Desc{Ctor: "cogroup", Slices: []string{a, b, a}})
			}
		}
	}
	return ds
}

func allDescs() (must, pool []Desc) {
	var names []string
	for _, d := range sliceDefs {
		if _, ok := slices[d.name]; ok {
			names = append(names, d.name)
		}
	}
	cross := func(ctor string, sigs []Sig) {
		for _, n := range names {
			for i := range sigs {
				g := sigs[i]
				pool = append(pool, Desc{Ctor: ctor, Slices: []string{n}, Fn: &g})
			}
		}
	}
	cross("map", applySigs(l("string"), [][]string{l("int", "string"), l(), l("[]int"), l("error")}))
	cross("filter", applySigs(l("bool"), [][]string{l("myBool"), l("int"), l("bool", "bool"), l(), l("any")}))
	cross("flatmap", applySigs(l("[]int"), [][]string{l("[]int", "[]string"), l("int"), l(), l("[]int", "int"), l("[][]int")}))
	cross("fold", foldSigs())
	cross("reduce", reduceSigs())
	cross("repartition", repartitionSigs())
	cross("writerfunc", writerSigs())
	// everything below is small and always run in full
	for _, n := range []int{1, 4} {
		for _, g := range readerSigs() {
			g := g
			must = append(must, Desc{Ctor: "readerfunc", N: n, Fn: &g})
		}
	}
	for _, n := range []int{-1, 0, 1, 3} {
		for _, c := range constColumns {
			must = append(must, Desc{Ctor: "const", N: n, Cols: c})
		}
	}
	for _, n := range names {
		for _, k := range []int{-1, 0, 5} {
			must = append(must, Desc{Ctor: "head", Slices: []string{n}, N: k})
		}
		must = append(must, Desc{Ctor: "scan", Slices: []string{n}})
		for _, p := range []int{-1, 0, 1, 2, 3, 4} {
			must = append(must, Desc{Ctor: "prefixed", Slices: []string{n}, N: p})
		}
		must = append(must, Desc{Ctor: "reshuffle", Slices: []string{n}})
		ns := slices[n].NumShard()
		for _, k := range []int{ns, ns + 1, ns - 1, 0, 7} {
			must = append(must, Desc{Ctor: "reshard", Slices: []string{n}, N: k})
		}
		must = append(must, Desc{Ctor: "cogroup", Slices: []string{n}})
		for _, m := range names {
			pool = append(pool, Desc{Ctor: "cogroup", Slices: []string{n, m}})
		}
	}
	must = append(must, Desc{Ctor: "cogroup"})
	must = append(must, invocationDescs()...)
	must = append(must, targetedDescs()...)
	triples := [][]string{{"i", "i.s", "i.ppoint"}, {"i.s/2", "i.s/2", "i.s/2"}, {"s.i.i", "s.i.i/2", "s.i.i"},
		{"i", "i", "f.i"}, {"i", "i.ints", "i.s"}, {"s.i.i/2", "s.i.i/2", "s.i.i/3"}, {"i.s", "scan(i)", "i"},
		{"i", "map1(i.s/2)", "i"}, {"keyStr.i", "keyStr.i", "keyStr.i"}, {"i.s", "i", "myInt.i"}}
	for _, t := range triples {
		ok := true
		for _, n := range t {
			if _, have := slices[n]; !have {
				ok = false
			}
		}
		if ok {
			must = append(must, Desc{Ctor: "cogroup", Slices: t})
		}
	}
	for _, t := range elemTypes {
		must = append(must, Desc{Ctor: "canhash", T: t}, Desc{Ctor: "cancompare", T: t})
		for _, u := range elemTypes {
			if typeByName(u).Kind() == reflect.Interface || t == u || typeByName(t).Kind() == typeByName(u).Kind() {
				must = append(must, Desc{Ctor: "assignable", V: t, T: u})
			}
		}
	}
	return must, pool
}

func main() {
	opts := vf.ParseFlags()
	out := &vf.Output{ID: "C18", Import: "BS.C18.Corr",
		Rule: "real constructors over (input slice) x (generated function signature); non-trivial = the argument " +
			"is a function type (passes slicefunc.Of) or the constructor takes no function; distinct by call term",
		Extra: map[string]interface{}{}}
	out.Notes = buildSlices()
	var descs []Desc
	if opts.Replay != "" {
		if err := vf.LoadReplay(opts.Replay, &descs); err != nil {
			fmt.Fprintln(os.Stderr, err)
			os.Exit(2)
		}
	}
	type ran struct {
		d    Desc
		call string
		res  result
	}
	classes := map[string]int{}
	emit := func(x ran) {
		nontriv := ""
		if x.res.class != "fact" && (x.d.Fn == nil || x.d.Fn.NonFunc == "") {
			nontriv = vf.Hash(x.call)
		}
		classes[x.res.class]++
		out.Add(vf.Case{Term: vf.Tuple(x.call, x.res.obs), Desc: x.d, Sig: sigOf(x.d), Nontriv: nontriv,
			Kind: x.d.Ctor + "/" + x.res.class, Observed: map[string]string{"class": x.res.class, "note": x.res.note}})
	}
	runAll := func(ds []Desc) []ran {
		rs := make([]ran, len(ds))
		for i, d := range ds {
			call, res := runCtor(d)
			rs[i] = ran{d, call, res}
		}
		return rs
	}
	if opts.Replay != "" {
		for _, x := range runAll(descs) {
			emit(x)
		}
	} else {
		// The whole cross product is always run on the implementation (cheap).  The
		// thorough tier has Coq judge all of it.  The quick tier has Coq judge the
		// small products in full, every call of the big products that was NOT
		// rejected by a typecheck error, and a seeded sample of the rejected ones.
		must, pool := allDescs()
		for _, x := range runAll(must) {
			emit(x)
		}
		rp := runAll(pool)
		out.Extra["cross_product_size"] = len(must) + len(pool)
		out.Extra["run_on_implementation"] = len(must) + len(pool)
		if opts.Tier == "thorough" {
			for _, x := range rp {
				emit(x)
			}
			out.Extra["exhaustive"] = true
		} else {
			var rejected []int
			keep := make([]bool, len(rp))
			for i, x := range rp {
				if x.res.class == "typeerr" && !repairedRegion(x.d) {
					rejected = append(rejected, i)
				} else {
					keep[i] = true
				}
			}
			n := 800 * opts.Scale
			if n > len(rejected) {
				n = len(rejected)
			}
			r := vf.NewRand(opts.Seed)
			for i := 0; i < n; i++ {
				j := i + r.Intn(len(rejected)-i)
				rejected[i], rejected[j] = rejected[j], rejected[i]
				keep[rejected[i]] = true
			}
			for i, x := range rp {
				if keep[i] {
					emit(x)
				}
			}
			out.Extra["exhaustive"] = n == len(rejected)
		}
	}
	out.Extra["classes"] = classes
	out.Extra["slices"] = len(sliceDefs)
	if err := out.Write(opts.Out, opts); err != nil {
		fmt.Fprintln(os.Stderr, err)
		os.Exit(2)
	}
}

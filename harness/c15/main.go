// Command c15 drives the real task stores (fileStore over a fault-injecting
// file.Implementation registered as faulty://, and memoryStore) with
// create/write/commit/discard/open/stat sequences under injected failures, and
// the real retryReader over scripted transient failures, and writes the Coq
// case file judged by coq/C15/Corr.v.
package main

import (
	"context"
	"fmt"
	"io"
	"os"
	"path/filepath"
	"regexp"
	"runtime"
	"strings"
	"sync"
	"time"

	"github.com/grailbio/base/errors"
	"github.com/grailbio/base/file"
	"github.com/grailbio/base/log"
	"github.com/grailbio/bigmachine/testsystem"
	"github.com/grailbio/bigslice"
	"github.com/grailbio/bigslice/exec"
	"verifharness/vf"
)

// ---------------------------------------------------------------- quiet logging

type nullOut struct{}

func (nullOut) Level() log.Level                    { return log.Off }
func (nullOut) Output(int, log.Level, string) error { return nil }

// ---------------------------------------------------------------- error classes

var errInjected = fmt.Errorf("c15: injected failure")

func injected(err error) bool {
	for i := 0; err != nil && i < 16; i++ {
		if err == errInjected {
			return true
		}
		e, ok := err.(*errors.Error)
		if !ok {
			return false
		}
		err = e.Err
	}
	return false
}

// class maps a non-nil, non-EOF error to the model's ecls constructor.
func class(err error) string {
	switch {
	case injected(err):
		return "EInjected"
	case errors.Is(errors.NotExist, err):
		return "ENotExist"
	case errors.Is(errors.Exists, err):
		return "EExists"
	case errors.Is(errors.Invalid, err):
		return "EInvalid"
	case errors.Is(errors.TooManyTries, err):
		return "ETooMany"
	}
	return "EOther"
}

func status(err error) string {
	if err == nil {
		return "SNil"
	}
	if err == io.EOF {
		return "SEOF"
	}
	return "(SErr " + class(err) + ")"
}

// ---------------------------------------------------------------- faulty:// file implementation

// faultCtl is the oracle: one boolean per counted file operation, in the
// order the operations are issued; true = fail that operation.
type faultCtl struct {
	mu     sync.Mutex
	root   string
	oracle []bool
	idx    int
	fired  int      // injected failures so far
	kinds  []string // kind of every counted operation
	firedK []string // kinds of the failed operations
	open   []file.File
}

var ctl = &faultCtl{}

func (c *faultCtl) reset(root string, oracle []bool) {
	c.mu.Lock()
	defer c.mu.Unlock()
	c.root, c.oracle, c.idx, c.fired, c.kinds, c.firedK, c.open = root, oracle, 0, 0, nil, nil, nil
}

// tick counts one operation and tells whether it must fail.
func (c *faultCtl) tick(kind string) bool {
	c.mu.Lock()
	defer c.mu.Unlock()
	i := c.idx
	c.idx++
	c.kinds = append(c.kinds, kind)
	if i < len(c.oracle) && c.oracle[i] {
		c.fired++
		c.firedK = append(c.firedK, kind)
		return true
	}
	return false
}

func (c *faultCtl) real(path string) string {
	_, suffix, err := file.ParsePath(path)
	if err != nil {
		suffix = path
	}
	return filepath.Join(c.root, suffix)
}

// closeLeaked closes the read handles the code under test left open (fileStore.Stat
// never closes its file); called after a case's observations are complete.
func (c *faultCtl) closeLeaked() {
	c.mu.Lock()
	fs := c.open
	c.open = nil
	c.mu.Unlock()
	for _, f := range fs {
		_ = f.Close(context.Background())
	}
}

type faultyImpl struct{ inner file.Implementation }

func (faultyImpl) String() string { return "faulty" }
func (f faultyImpl) Open(ctx context.Context, path string, opts ...file.Opts) (file.File, error) {
	if ctl.tick("open") {
		return nil, errInjected
	}
	in, err := f.inner.Open(ctx, ctl.real(path), opts...)
	if err != nil {
		return nil, err
	}
	ff := &faultyFile{inner: in, write: false}
	ctl.mu.Lock()
	ctl.open = append(ctl.open, in)
	ctl.mu.Unlock()
	return ff, nil
}
func (f faultyImpl) Create(ctx context.Context, path string, opts ...file.Opts) (file.File, error) {
	if ctl.tick("create") {
		return nil, errInjected
	}
	in, err := f.inner.Create(ctx, ctl.real(path), opts...)
	if err != nil {
		return nil, err
	}
	return &faultyFile{inner: in, write: true}, nil
}
func (f faultyImpl) List(ctx context.Context, path string, recursive bool) file.Lister {
	return f.inner.List(ctx, ctl.real(path), recursive)
}
func (f faultyImpl) Stat(ctx context.Context, path string, opts ...file.Opts) (file.Info, error) {
	if ctl.tick("stat") {
		return nil, errInjected
	}
	return f.inner.Stat(ctx, ctl.real(path), opts...)
}
func (f faultyImpl) Remove(ctx context.Context, path string) error {
	if ctl.tick("remove") {
		return errInjected
	}
	return f.inner.Remove(ctx, ctl.real(path))
}
func (f faultyImpl) Presign(ctx context.Context, path, method string, expiry time.Duration) (string, error) {
	return f.inner.Presign(ctx, ctl.real(path), method, expiry)
}

type faultyFile struct {
	inner file.File
	write bool
}

func (f *faultyFile) String() string { return f.inner.String() }
func (f *faultyFile) Name() string   { return f.inner.Name() }
func (f *faultyFile) Stat(ctx context.Context) (file.Info, error) {
	if ctl.tick("stat") {
		return nil, errInjected
	}
	return f.inner.Stat(ctx)
}
func (f *faultyFile) Reader(ctx context.Context) io.ReadSeeker {
	return faultyRS{f.inner.Reader(ctx)}
}
func (f *faultyFile) Writer(ctx context.Context) io.Writer { return faultyW{f.inner.Writer(ctx)} }
func (f *faultyFile) Discard(ctx context.Context)          { f.inner.Discard(ctx) }

// A failed close of a file being written behaves as the local implementation's
// own failure path does: the temporary file is removed and nothing is published.
func (f *faultyFile) failClose(ctx context.Context) error {
	if f.write {
		f.inner.Discard(ctx)
	} else {
		_ = f.inner.Close(ctx)
	}
	return errInjected
}
func (f *faultyFile) Close(ctx context.Context) error {
	if ctl.tick("close") {
		return f.failClose(ctx)
	}
	return f.inner.Close(ctx)
}
func (f *faultyFile) CloseNoSync(ctx context.Context) error {
	if ctl.tick("close") {
		return f.failClose(ctx)
	}
	if c, ok := f.inner.(interface {
		CloseNoSync(context.Context) error
	}); ok {
		return c.CloseNoSync(ctx)
	}
	return f.inner.Close(ctx)
}

type faultyRS struct{ inner io.ReadSeeker }

func (r faultyRS) Read(p []byte) (int, error) {
	if ctl.tick("read") {
		return 0, errInjected
	}
	return r.inner.Read(p)
}
func (r faultyRS) Seek(off int64, whence int) (int64, error) {
	if ctl.tick("seek") {
		return 0, errInjected
	}
	return r.inner.Seek(off, whence)
}

type faultyW struct{ inner io.Writer }

func (w faultyW) Write(p []byte) (int, error) {
	if ctl.tick("write") {
		return 0, errInjected
	}
	return w.inner.Write(p)
}

// ---------------------------------------------------------------- descriptions

// Op is one store operation (create/write/commit/wdiscard/open/stat/discard) or
// one scripted outcome of the retry reader's backing reads (openfail/deliver/failafter).
type Op struct {
	K   string `json:"k"`
	P   int    `json:"p,omitempty"`   // partition
	D   []byte `json:"d,omitempty"`   // write payload
	N   int64  `json:"n,omitempty"`   // record count / k of deliver, failafter
	Off int    `json:"off,omitempty"` // open offset
	B   int    `json:"b,omitempty"`   // read buffer size
}

type Desc struct {
	Kind   string `json:"kind"`             // "store" | "retry" | "rpc"
	Store  string `json:"store,omitempty"`  // "file" | "mem"; rpc: which real opener, "eval" | "machine"
	Faults []int  `json:"faults,omitempty"` // indices of the file operations to fail
	Ops    []Op   `json:"ops"`
	Stream int    `json:"stream,omitempty"` // retry: stream length (bytes 1..n)
	Eager  bool   `json:"eager,omitempty"`  // retry: backing reader returns EOF together with the last bytes
	Sizes  []int  `json:"sizes,omitempty"`  // retry: buffer size of each Read call
}

type writeCommitter interface {
	io.Writer
	Commit(ctx context.Context, records int64) error
	Discard(ctx context.Context)
}

var taskName = exec.TaskName{InvIndex: 1, Op: "c15op", Shard: 0, NumShard: 1}

const readCap = 4096 // reads per open before the driver reports a stuck reader

var publishedRe = regexp.MustCompile(`^p[0-9][0-9][0-9]$`)

// ---------------------------------------------------------------- store cases

type opRec struct {
	op    Op
	res   string
	fired []string // kinds of the file operations that were failed during this op
}

type storeRun struct {
	mu      sync.Mutex
	opTerms []string
	obs     []string
	recs    []opRec
}

type storeOut struct {
	term   string
	recs   []opRec
	fired  []string
	nticks int
}

func (o storeOut) summary() string {
	var ss []string
	for _, r := range o.recs {
		ss = append(ss, r.op.K+"="+r.res)
	}
	return strings.Join(ss, " ")
}

func errRes(err error) string {
	if err == nil {
		return "ROk"
	}
	return "(RErr " + class(err) + ")"
}

// runStore executes d on the real store; returns the Coq term and some stats.
func runStore(d Desc, rootBase string) (so storeOut) {
	ctx := context.Background()
	dir, err := os.MkdirTemp(rootBase, "case")
	if err != nil {
		panic(err)
	}
	defer os.RemoveAll(dir)
	maxF := -1
	for _, k := range d.Faults {
		if k > maxF {
			maxF = k
		}
	}
	oracle := make([]bool, maxF+1)
	for _, k := range d.Faults {
		if k >= 0 {
			oracle[k] = true
		}
	}
	ctl.reset(dir, oracle)
	defer ctl.closeLeaked()
	var store exec.Store
	kind := "KFile"
	if d.Store == "mem" {
		store, kind = exec.VerifC15NewMemoryStore(), "KMem"
	} else {
		store = exec.VerifC15NewFileStore("faulty://c15")
	}
	run := &storeRun{}
	var cur writeCommitter
	doOp := func(o Op) (opTerm, res string, applicable bool) {
		defer func() {
			if r := recover(); r != nil {
				res, applicable = "RPanic", opTerm != ""
			}
		}()
		switch o.K {
		case "create":
			opTerm = vf.App("OCreate", vf.Nat(o.P))
			wc, err := store.Create(ctx, taskName, o.P)
			if err == nil {
				cur = wc
			}
			return opTerm, errRes(err), true
		case "write":
			if cur == nil {
				return "", "", false
			}
			opTerm = vf.App("OWrite", vf.Bytes(o.D))
			n, err := cur.Write(o.D)
			if err == nil && n != len(o.D) {
				return opTerm, "(RErr EOther)", true
			}
			return opTerm, errRes(err), true
		case "commit":
			if cur == nil {
				return "", "", false
			}
			opTerm = vf.App("OCommit", vf.Z(o.N))
			wc := cur
			cur = nil
			return opTerm, errRes(wc.Commit(ctx, o.N)), true
		case "wdiscard":
			if cur == nil {
				return "", "", false
			}
			opTerm = "OWDiscard"
			wc := cur
			cur = nil
			wc.Discard(ctx)
			return opTerm, "ROk", true
		case "open":
			if o.B < 1 || o.Off < 0 {
				return "", "", false
			}
			opTerm = vf.App("OOpen", vf.Nat(o.P), vf.Nat(o.Off), vf.Nat(o.B))
			rc, err := store.Open(ctx, taskName, o.P, int64(o.Off))
			if err != nil {
				return opTerm, errRes(err), true
			}
			var got []byte
			st := "SStuck"
			buf := make([]byte, o.B)
			for i := 0; i < readCap; i++ {
				n, err := rc.Read(buf)
				got = append(got, buf[:n]...)
				if err != nil {
					st = status(err)
					break
				}
			}
			cl := status(rc.Close())
			return opTerm, vf.App("RRead", vf.Bytes(got), st, cl), true
		case "stat":
			opTerm = vf.App("OStat", vf.Nat(o.P))
			size, records, err := exec.VerifC15Stat(ctx, store, taskName, o.P)
			if err != nil {
				return opTerm, errRes(err), true
			}
			return opTerm, vf.App("RStat", vf.Z(size), vf.Z(records)), true
		case "discard":
			opTerm = vf.App("ODiscard", vf.Nat(o.P))
			return opTerm, errRes(store.Discard(ctx, taskName, o.P)), true
		}
		return "", "", false
	}
	done := make(chan struct{})
	go func() {
		defer close(done)
		for _, o := range d.Ops {
			before := ctl.fired
			ot, res, ok := doOp(o)
			if !ok {
				continue
			}
			run.mu.Lock()
			run.opTerms = append(run.opTerms, ot)
			run.obs = append(run.obs, vf.App("mkSO", res, vf.Bool(ctl.fired != before)))
			run.recs = append(run.recs, opRec{o, res, append([]string{}, ctl.firedK[before:]...)})
			run.mu.Unlock()
		}
	}()
	select {
	case <-done:
	case <-time.After(30 * time.Second):
		// the code under test hangs: an observation, not a crash of the driver
		run.mu.Lock()
		if len(run.opTerms) < len(d.Ops) {
			run.opTerms = append(run.opTerms, "OWDiscard")
		}
		run.obs = append(run.obs, vf.App("mkSO", "RHang", "false"))
		run.mu.Unlock()
	}
	run.mu.Lock()
	defer run.mu.Unlock()
	// temporary (unpublished) files left in the store's directory
	temps := 0
	if d.Store != "mem" {
		_ = filepath.Walk(dir, func(p string, info os.FileInfo, err error) error {
			if err == nil && !info.IsDir() && !publishedRe.MatchString(info.Name()) {
				temps++
			}
			return nil
		})
	}
	orc := make([]string, len(oracle))
	for i, b := range oracle {
		orc[i] = vf.Bool(b)
	}
	so.term = vf.App("CStore", kind, vf.List(orc), vf.List(run.opTerms), vf.List(run.obs), vf.Nat(temps))
	so.recs = run.recs
	ctl.mu.Lock()
	so.fired = append([]string{}, ctl.firedK...)
	so.nticks = ctl.idx
	ctl.mu.Unlock()
	return so
}

// ---------------------------------------------------------------- retry cases

type retryEnv struct {
	stream []byte
	eager  bool
	script []Op
	events []string
	// real, if set, is the OpenAt of one of the executor's own openers
	// (evalOpenerAt / machineTaskPartition): streams are then opened through
	// the real Worker.Read RPC at the offset retryReader asks for, and the
	// script only decides how many of the real bytes each Read hands on and
	// where the stream breaks.
	real func(ctx context.Context, offset int64) (io.ReadCloser, error)
}

func (e *retryEnv) pop(m int) Op {
	if len(e.script) == 0 {
		return Op{K: "deliver", N: int64(m)}
	}
	o := e.script[0]
	e.script = e.script[1:]
	return o
}

func (e *retryEnv) openAt(ctx context.Context, off int64) (io.ReadCloser, error) {
	if len(e.script) > 0 && e.script[0].K == "openfail" {
		e.script = e.script[1:]
		e.events = append(e.events, vf.App("EvOpen", vf.Nat(int(off)), "false"))
		return nil, errInjected
	}
	var rc io.ReadCloser
	if e.real != nil {
		var err error
		if rc, err = e.real(ctx, off); err != nil {
			e.events = append(e.events, vf.App("EvOpen", vf.Nat(int(off)), "false"))
			return nil, err
		}
	}
	e.events = append(e.events, vf.App("EvOpen", vf.Nat(int(off)), "true"))
	pos := off
	if pos > int64(len(e.stream)) {
		pos = int64(len(e.stream))
	}
	if pos < 0 {
		pos = 0
	}
	return &retryBacking{e: e, pos: int(pos), rc: rc}, nil
}

type retryBacking struct {
	e   *retryEnv
	pos int
	rc  io.ReadCloser // the real stream (rpc cases), positioned by the real opener
}

// readReal hands on exactly n bytes of the real stream (fewer only if it ends).
func (b *retryBacking) readReal(p []byte) (int, error) {
	if len(p) == 0 {
		return 0, nil
	}
	n, err := io.ReadFull(b.rc, p)
	if err == io.ErrUnexpectedEOF {
		err = io.EOF
	}
	return n, err
}

func min3(a, b, c int) int {
	if b < a {
		a = b
	}
	if c < a {
		a = c
	}
	return a
}

func (b *retryBacking) Read(p []byte) (n int, err error) {
	e := b.e
	o := e.pop(len(p))
	rem := len(e.stream) - b.pos
	k := int(o.N)
	if k < 0 {
		k = 0
	}
	if b.rc != nil {
		// same outcomes, but the bytes come from the real stream, wherever the
		// real opener positioned it
		switch o.K {
		case "deliver":
			if rem == 0 {
				n, err = b.rc.Read(p) // the committed stream is exhausted: 0, EOF expected
			} else {
				n, err = b.readReal(p[:min3(k, len(p), rem)])
			}
		case "failafter":
			n, _ = b.readReal(p[:min3(k, len(p), rem)])
			err = errInjected
		default:
			n, err = 0, errInjected
		}
		b.pos += n
		e.events = append(e.events, vf.App("EvRead", vf.Nat(n), status(err)))
		return n, err
	}
	switch o.K {
	case "deliver":
		if rem == 0 {
			n, err = 0, io.EOF
		} else {
			n = min3(k, len(p), rem)
			if e.eager && n == rem {
				err = io.EOF
			}
		}
	case "failafter":
		n, err = min3(k, len(p), rem), errInjected
	default: // openfail while a reader is open: the read fails
		n, err = 0, errInjected
	}
	copy(p, e.stream[b.pos:b.pos+n])
	b.pos += n
	e.events = append(e.events, vf.App("EvRead", vf.Nat(n), status(err)))
	return n, err
}

func (b *retryBacking) Close() error {
	b.e.events = append(b.e.events, "EvClose")
	if b.rc != nil {
		_ = b.rc.Close()
	}
	return nil
}

func outcomeTerm(o Op) (string, bool) {
	switch o.K {
	case "openfail":
		return "OOpenFail", true
	case "deliver":
		if o.N < 0 {
			return "", false
		}
		return vf.App("ODeliver", vf.Nat(int(o.N))), true
	case "failafter":
		if o.N < 0 {
			return "", false
		}
		return vf.App("OFailAfter", vf.Nat(int(o.N))), true
	}
	return "", false
}

func runRetry(d Desc, real *retryEnv) (term string, final string, nfail int, delivered int) {
	stream := make([]byte, d.Stream)
	for i := range stream {
		stream[i] = byte(i + 1)
	}
	env := &retryEnv{stream: stream, eager: d.Eager}
	if real != nil {
		env, stream = real, real.stream
	}
	var script []string
	for _, o := range d.Ops {
		if t, ok := outcomeTerm(o); ok {
			env.script = append(env.script, o)
			script = append(script, t)
			if o.K != "deliver" {
				nfail++
			}
		}
	}
	var results []string
	final = "SNil"
	done := make(chan struct{})
	var mu sync.Mutex
	go func() {
		defer close(done)
		defer func() {
			if r := recover(); r != nil {
				mu.Lock()
				results = append(results, vf.Tuple("[]", "SPanic"))
				final = "SPanic"
				mu.Unlock()
			}
		}()
		r := exec.VerifC15NewRetryReader(context.Background(), env.openAt)
		for _, m := range d.Sizes {
			if m < 0 {
				continue
			}
			buf := make([]byte, m)
			n, err := r.Read(buf)
			if n < 0 || n > m {
				panic("bad n")
			}
			st := status(err)
			mu.Lock()
			results = append(results, vf.Tuple(vf.Bytes(buf[:n]), st))
			delivered += n
			if final == "SNil" {
				final = st
			}
			mu.Unlock()
		}
		_ = r.Close()
	}()
	select {
	case <-done:
	case <-time.After(30 * time.Second):
		mu.Lock()
		results = append(results, vf.Tuple("[]", "SStuck"))
		final = "SStuck"
		mu.Unlock()
	}
	mu.Lock()
	defer mu.Unlock()
	var sizes []int
	for _, m := range d.Sizes {
		if m >= 0 {
			sizes = append(sizes, m)
		}
	}
	term = vf.App("CRetry", vf.Bytes(stream), vf.Bool(d.Eager), vf.List(script), vf.NatList(sizes),
		vf.List(results), vf.List(env.events))
	return term, final, nfail, delivered
}

// ---------------------------------------------------------------- the real openers (rpc cases)

// c15Func's single task commits one partition on an in-process worker; its
// encoded stream is what the real openers serve through Worker.Read.
var c15Func = bigslice.Func(func() bigslice.Slice {
	vs := make([]int, 40)
	ss := make([]string, 40)
	for i := range vs {
		vs[i] = i*i*7919 + 3
		ss[i] = fmt.Sprintf("row-%03d", i)
	}
	return bigslice.Const(1, vs, ss)
})

type rpcWorld struct {
	w       *exec.VerifC15World
	full    []byte
	openers map[string]func(ctx context.Context, offset int64) (io.ReadCloser, error)
}

var theWorld *rpcWorld

// world starts (once) a bigmachine session on an in-process test system, runs
// c15Func and reads the committed stream once without failures.
func world() (*rpcWorld, error) {
	if theWorld != nil {
		return theWorld, nil
	}
	ctx := context.Background()
	w, err := exec.VerifC15NewWorld(ctx, testsystem.New(), c15Func)
	if err != nil {
		return nil, err
	}
	if w.NumTasks() != 1 {
		return nil, fmt.Errorf("c15: %d result tasks, want 1", w.NumTasks())
	}
	rw := &rpcWorld{w: w, openers: map[string]func(ctx context.Context, offset int64) (io.ReadCloser, error){}}
	if rw.openers["eval"], err = w.EvalOpener(0, 0); err != nil {
		return nil, err
	}
	if rw.openers["machine"], err = w.MachineOpener(0, 0); err != nil {
		return nil, err
	}
	rc, err := rw.openers["machine"](ctx, 0)
	if err != nil {
		return nil, err
	}
	rw.full, err = io.ReadAll(rc)
	_ = rc.Close()
	if err != nil {
		return nil, err
	}
	if len(rw.full) < 16 {
		return nil, fmt.Errorf("c15: committed stream unexpectedly short (%d bytes)", len(rw.full))
	}
	theWorld = rw
	return rw, nil
}

// rpcDescs: breaks of the real stream after k delivered bytes (k = 0, 1, middle,
// last byte, end), clean and after a partial read, repeated breaks, breaks with
// small buffers, and exhaustion of the retry budget - on both real openers.
func rpcDescs(L int, dense bool) []Desc {
	var out []Desc
	big := 2048
	del := func(k int) Op { return Op{K: "deliver", N: int64(k)} }
	brk := Op{K: "failafter", N: 0}
	add := func(kind string, sizes []int, ops ...Op) {
		out = append(out, Desc{Kind: "rpc", Store: kind, Ops: ops, Sizes: sizes})
	}
	for _, kind := range []string{"eval", "machine"} {
		ks := []int{0, 1, L / 2, L - 1, L}
		if dense && kind == "eval" {
			ks = nil
			for k := 0; k <= L; k++ {
				ks = append(ks, k)
			}
		}
		for _, k := range ks {
			add(kind, sizesConst(4, big), del(k), brk)
		}
		for _, k := range []int{1, L / 2, L - 1} {
			add(kind, sizesConst(4, big), del(k), Op{K: "failafter", N: 3})
			add(kind, sizesConst(4, big), del(k), Op{K: "openfail"}, Op{K: "openfail"})
		}
		add(kind, sizesConst(6, big), del(1), brk, del(1), brk, Op{K: "openfail"})
		add(kind, sizesConst(6, big), del(L/3), brk, del(L/3), Op{K: "failafter", N: 2}, del(1), brk)
		add(kind, sizesConst(6, big), del(L-1), brk, brk, brk, del(1), brk)
		add(kind, sizesConst(L/37+8, 37), del(20), brk, del(37), del(5), Op{K: "failafter", N: 2})
		add(kind, sizesConst(4, big), del(L/2), brk, brk, brk, brk, brk, brk)
		add(kind, sizesConst(4, big), del(1), Op{K: "openfail"}, Op{K: "openfail"}, Op{K: "openfail"}, Op{K: "openfail"}, Op{K: "openfail"}, Op{K: "openfail"})
		add(kind, sizesConst(3, big))
	}
	return out
}

// ---------------------------------------------------------------- generators

// store sequences: exhaustive enumeration over a small alphabet (one partition),
// only well-formed uses of the writer (write/commit/discard need a live writer;
// commit and discard consume it).
var storeAlphabet = []string{"create", "write", "commit", "wdiscard", "open", "stat", "discard"}

func enumStoreSeqs(maxLen int) [][]Op {
	var out [][]Op
	var rec func(seq []Op, live bool, nextByte int, nextCount int64)
	rec = func(seq []Op, live bool, nextByte int, nextCount int64) {
		out = append(out, append([]Op{}, seq...))
		if len(seq) == maxLen {
			return
		}
		for _, k := range storeAlphabet {
			switch k {
			case "create":
				rec(append(seq, Op{K: k}), true, nextByte, nextCount)
			case "write":
				if live {
					d := []byte{byte(nextByte), byte(nextByte + 1), byte(nextByte + 2)}
					rec(append(seq, Op{K: k, D: d}), true, nextByte+3, nextCount)
				}
			case "commit":
				if live {
					rec(append(seq, Op{K: k, N: nextCount}), false, nextByte, nextCount+1)
				}
			case "wdiscard":
				if live {
					rec(append(seq, Op{K: k}), false, nextByte, nextCount)
				}
			case "open":
				rec(append(seq, Op{K: k, Off: 2, B: 2}), live, nextByte, nextCount)
			default:
				rec(append(seq, Op{K: k}), live, nextByte, nextCount)
			}
		}
	}
	rec(nil, false, 1, 7)
	return out
}

// the probe appended to every sequence: what is visible at the end
func probe(parts int) []Op {
	var ops []Op
	for p := 0; p < parts; p++ {
		ops = append(ops, Op{K: "stat", P: p}, Op{K: "open", P: p, Off: 0, B: 4})
	}
	return ops
}

func genStoreSeq(r *vf.Rand) []Op {
	nextByte := 1
	payload := func(m int) []byte {
		d := make([]byte, m)
		for i := range d {
			d[i] = byte(nextByte)
			nextByte = nextByte%250 + 1
		}
		return d
	}
	part := func() int {
		if r.Chance(1, 4) {
			return 1
		}
		return 0
	}
	count := func() int64 {
		if r.Chance(1, 8) {
			return []int64{-1, 1 << 40, 255, 256, 1<<62 + 5}[r.Intn(5)]
		}
		return int64(r.Range(0, 9))
	}
	var seq []Op
	if r.Chance(3, 5) {
		// life cycles of an entry: create, writes, commit (or discard), reads, discard, reads
		for round := 0; round < 2; round++ {
			p := part()
			seq = append(seq, Op{K: "create", P: p})
			for i := r.Range(0, 3); i > 0; i-- {
				seq = append(seq, Op{K: "write", D: payload(r.Range(0, 5))})
			}
			if r.Chance(1, 6) {
				seq = append(seq, Op{K: "open", P: p, Off: r.Range(0, 3), B: r.Range(1, 4)})
			}
			if r.Chance(1, 7) {
				seq = append(seq, Op{K: "wdiscard"})
			} else {
				seq = append(seq, Op{K: "commit", N: count()})
			}
			for i := r.Range(1, 3); i > 0; i-- {
				if r.Chance(2, 3) {
					seq = append(seq, Op{K: "open", P: p, Off: r.Range(0, 7), B: r.Range(1, 4)})
				} else {
					seq = append(seq, Op{K: "stat", P: p})
				}
			}
			if r.Bool() {
				seq = append(seq, Op{K: "discard", P: p})
				if r.Bool() {
					seq = append(seq, Op{K: "open", P: p, Off: r.Range(0, 2), B: 3})
				}
			}
			if r.Chance(2, 3) {
				break
			}
		}
		return seq
	}
	n := r.Range(1, 8)
	live := false
	for len(seq) < n {
		switch k := r.Intn(100); {
		case k < 22:
			seq = append(seq, Op{K: "create", P: part()})
			live = true
		case k < 42:
			if live {
				seq = append(seq, Op{K: "write", D: payload(r.Range(0, 5))})
			}
		case k < 58:
			if live {
				seq = append(seq, Op{K: "commit", N: count()})
				live = false
			}
		case k < 64:
			if live {
				seq = append(seq, Op{K: "wdiscard"})
				live = false
			}
		case k < 80:
			seq = append(seq, Op{K: "open", P: part(), Off: r.Range(0, 7), B: r.Range(1, 4)})
		case k < 90:
			seq = append(seq, Op{K: "stat", P: part()})
		default:
			seq = append(seq, Op{K: "discard", P: part()})
		}
	}
	return seq
}

func hasOp(ops []Op, k string) bool {
	for _, o := range ops {
		if o.K == k {
			return true
		}
	}
	return false
}

// retry scripts: all words of length <= maxLen over the outcome alphabet
var retryAlphabet = []Op{
	{K: "openfail"}, {K: "failafter", N: 0}, {K: "failafter", N: 2}, {K: "deliver", N: 99}, {K: "deliver", N: 1},
}

func enumScripts(alphabet []Op, maxLen int) [][]Op {
	out := [][]Op{{}}
	prev := [][]Op{{}}
	for l := 1; l <= maxLen; l++ {
		var cur [][]Op
		for _, s := range prev {
			for _, a := range alphabet {
				cur = append(cur, append(append([]Op{}, s...), a))
			}
		}
		out = append(out, cur...)
		prev = cur
	}
	return out
}

func genScript(r *vf.Rand) []Op {
	n := r.Range(0, 14)
	s := make([]Op, n)
	for i := range s {
		switch k := r.Intn(10); {
		case k < 2:
			s[i] = Op{K: "openfail"}
		case k < 5:
			s[i] = Op{K: "failafter", N: int64(r.Range(0, 4))}
		default:
			s[i] = Op{K: "deliver", N: int64(r.Range(0, 5))}
		}
	}
	if r.Chance(1, 5) { // a run of failures long enough to exhaust the budget somewhere
		at := r.Intn(n + 1)
		var run []Op
		for i := 0; i < r.Range(5, 7); i++ {
			if r.Bool() {
				run = append(run, Op{K: "openfail"})
			} else {
				run = append(run, Op{K: "failafter", N: int64(r.Range(0, 3))})
			}
		}
		s = append(append(append([]Op{}, s[:at]...), run...), s[at:]...)
	}
	return s
}

func sizesConst(n, m int) []int {
	s := make([]int, n)
	for i := range s {
		s[i] = m
	}
	return s
}

// ---------------------------------------------------------------- main

func main() {
	opts := vf.ParseFlags()
	log.SetOutputter(nullOut{})
	file.RegisterImplementation("faulty", func() file.Implementation {
		return faultyImpl{inner: file.NewLocalImplementation()}
	})
	budget := exec.VerifC15ZeroDelayRetryPolicy()
	out := &vf.Output{ID: "C15", Import: "BS.C15.Corr",
		Rule: "store cases: create/write/commit/discard/open/stat sequences on fileStore (over faulty://, failing chosen file operations) and memoryStore, " +
			"each followed by a stat+open probe; non-trivial = a commit was attempted and (file store) an injected failure fired, or a committed entry was read back from a non-zero offset; distinct by case text. " +
			"rpc cases: retryReader over the executor's real openers (evalOpenerAt behind bigmachineExecutor.Reader, machineTaskPartition behind newMachineReader) serving a committed partition through Worker.Read on an in-process test system, the stream broken after k delivered bytes (k = 0, 1, middle, last byte, end; single and repeated breaks; budget exhaustion); judged like retry cases against the committed bytes. " +
			"retry cases: retryReader over a scripted backing stream (open failures, read failures, partial reads before a failure, short reads); non-trivial = at least one failure outcome in the script; distinct by case text",
		Extra: map[string]interface{}{"retry_budget_probed": budget}}

	var descs []Desc
	rootBase, err := os.MkdirTemp("", "c15-")
	if err != nil {
		fmt.Fprintln(os.Stderr, err)
		os.Exit(2)
	}
	defer os.RemoveAll(rootBase)

	// ticks of the fault-free run of a file-store sequence = its failure points
	countTicks := func(ops []Op) int {
		return runStore(Desc{Kind: "store", Store: "file", Ops: ops}, rootBase).nticks
	}

	if opts.Replay != "" {
		if err := vf.LoadReplay(opts.Replay, &descs); err != nil {
			fmt.Fprintln(os.Stderr, err)
			os.Exit(2)
		}
	} else {
		root := vf.NewRand(opts.Seed)
		rs, rr := root.Split(), root.Split()
		if opts.Tier == "thorough" {
			// (a) every well-formed sequence of length <= 5 on both stores without failures;
			// every single failure point for all sequences of length <= 4 and for all
			// sequences of length 5 that contain a commit
			for _, seq := range enumStoreSeqs(5) {
				ops := append(append([]Op{}, seq...), probe(1)...)
				descs = append(descs, Desc{Kind: "store", Store: "mem", Ops: ops})
				descs = append(descs, Desc{Kind: "store", Store: "file", Ops: ops})
				if len(seq) > 4 && !hasOp(seq, "commit") {
					continue
				}
				nt := countTicks(seq)
				for k := 0; k < nt; k++ {
					descs = append(descs, Desc{Kind: "store", Store: "file", Faults: []int{k}, Ops: ops})
				}
			}
			// (b) 12-byte stream, 4-byte reads: every script of length <= 6 over
			// {openfail, fail-after-2, deliver-1, deliver-full}, every script of length <= 6
			// over the failures {openfail, readfail, fail-after-2}, every script of length <= 4
			// over all five outcomes; streams of 0..11 bytes: every script of length <= 3
			seen := map[string]bool{}
			addRetry := func(d Desc) {
				key := fmt.Sprint(d.Stream, d.Eager, d.Ops, d.Sizes)
				if !seen[key] {
					seen[key] = true
					descs = append(descs, d)
				}
			}
			a5 := retryAlphabet
			a4 := []Op{a5[0], a5[2], a5[3], a5[4]}
			af := []Op{a5[0], a5[1], a5[2]}
			for _, sc := range enumScripts(a4, 6) {
				addRetry(Desc{Kind: "retry", Stream: 12, Ops: sc, Sizes: sizesConst(10, 4)})
			}
			for _, sc := range enumScripts(af, 6) {
				addRetry(Desc{Kind: "retry", Stream: 12, Ops: sc, Sizes: sizesConst(10, 4)})
			}
			for _, sc := range enumScripts(a5, 4) {
				addRetry(Desc{Kind: "retry", Stream: 12, Ops: sc, Sizes: sizesConst(10, 4)})
			}
			for n := 0; n < 12; n++ {
				for _, sc := range enumScripts(a5, 3) {
					addRetry(Desc{Kind: "retry", Stream: n, Eager: n%2 == 1, Ops: sc, Sizes: sizesConst(n/3+5, 3)})
				}
			}
			out.Extra["exhaustive"] = true
			out.Extra["exhaustive_spaces"] = "store: all well-formed op sequences of length<=5 over {create,write3,commit,wdiscard,open@2,stat,discard} on partition 0, on memoryStore and on fileStore without failure; with each single failing file operation for all such sequences of length<=4 and all of length 5 containing a commit; " +
				"retry: 12-byte stream with 4-byte reads: all outcome scripts of length<=6 over {openfail,fail-after-2,deliver-1,deliver-full}, all of length<=6 over {openfail,readfail,fail-after-2}, all of length<=4 over the five outcomes; streams of 0..11 bytes with 3-byte reads: all scripts of length<=3 over the five outcomes"
		}
		// sampled cases (both tiers)
		ns, nr := 260, 260
		if opts.Tier == "thorough" {
			ns, nr = 1500, 1500
		}
		ns *= opts.Scale
		nr *= opts.Scale
		for i := 0; i < ns; i++ {
			r := rs.Split()
			seq := genStoreSeq(r)
			ops := append(append([]Op{}, seq...), probe(2)...)
			switch i % 4 {
			case 0:
				descs = append(descs, Desc{Kind: "store", Store: "mem", Ops: ops})
			default:
				nt := countTicks(seq)
				var faults []int
				if nt > 0 && i%4 != 1 {
					faults = append(faults, r.Intn(nt))
					if r.Chance(1, 5) {
						faults = append(faults, r.Intn(nt+4))
					}
				}
				descs = append(descs, Desc{Kind: "store", Store: "file", Faults: faults, Ops: ops})
			}
		}
		for i := 0; i < nr; i++ {
			r := rr.Split()
			n := r.Range(0, 12)
			nsz := r.Range(1, 16)
			sizes := make([]int, nsz)
			for j := range sizes {
				sizes[j] = r.Range(0, 5)
				if r.Chance(1, 10) {
					sizes[j] = 13
				}
			}
			descs = append(descs, Desc{Kind: "retry", Stream: n, Eager: r.Bool(), Ops: genScript(r), Sizes: sizes})
		}
		// the real openers under retryReader (fixed, small set; dense in thorough)
		rw, err := world()
		if err != nil {
			fmt.Fprintln(os.Stderr, "c15: cannot set up the bigmachine world:", err)
			os.Exit(2)
		}
		descs = append(descs, rpcDescs(len(rw.full), opts.Tier == "thorough")...)
	}

	firedDist := map[string]int{}
	for i, d := range descs {
		switch d.Kind {
		case "store":
			so := runStore(d, rootBase)
			kind := "store/" + d.Store
			sig := "store-ops"
			nontriv := ""
			for _, k := range so.fired {
				firedDist[k]++
			}
			if len(so.fired) > 0 {
				kind += "/fault:" + so.fired[0]
				sig = "store-fault-" + so.fired[0]
			}
			readBack := false
			for _, r := range so.recs {
				// a swallowed failure: the op reported success although the injected
				// failure hit the commit's trailer write / the open's seek
				if r.op.K == "commit" && r.res == "ROk" && contains(r.fired, "write") {
					sig = "store-commit-trailer-swallowed"
				}
				if r.op.K == "open" && strings.HasPrefix(r.res, "(RRead") && contains(r.fired, "seek") && r.op.Off > 0 &&
					sig != "store-commit-trailer-swallowed" {
					sig = "store-open-seek-swallowed"
				}
				if r.op.K == "open" && strings.HasPrefix(r.res, "(RRead") && r.op.Off > 0 {
					readBack = true
				}
			}
			if hasOp(d.Ops, "commit") && (len(so.fired) > 0 || readBack) {
				nontriv = vf.Hash(so.term)
			}
			out.Add(vf.Case{Term: so.term, Desc: d, Sig: sig, Nontriv: nontriv, Kind: kind, Observed: so.summary()})
		case "rpc":
			rw, err := world()
			if err != nil || rw.openers[d.Store] == nil {
				fmt.Fprintln(os.Stderr, "c15: cannot set up the bigmachine world:", err)
				os.Exit(2)
			}
			env := &retryEnv{stream: rw.full, real: rw.openers[d.Store]}
			term, final, nfail, delivered := runRetry(d, env)
			nontriv := ""
			if nfail > 0 {
				nontriv = vf.Hash(term)
			}
			out.Add(vf.Case{Term: term, Desc: d, Sig: "retry-rpc-" + d.Store, Nontriv: nontriv, Kind: "rpc/" + d.Store + "/" + final,
				Observed: fmt.Sprintf("delivered %d of %d bytes, final %s", delivered, len(rw.full), final)})
		case "retry":
			term, final, nfail, delivered := runRetry(d, nil)
			kind := "retry/" + final
			nontriv := ""
			if nfail > 0 {
				nontriv = vf.Hash(term)
			}
			out.Add(vf.Case{Term: term, Desc: d, Sig: "retry-read", Nontriv: nontriv, Kind: kind,
				Observed: fmt.Sprintf("delivered %d of %d bytes, final %s", delivered, d.Stream, final)})
		}
		if i%256 == 255 {
			runtime.GC() // lets finalizers close descriptors the code under test leaked
		}
	}
	if theWorld != nil {
		out.Extra["rpc_stream_bytes"] = len(theWorld.full)
		theWorld.w.Shutdown()
	}
	out.Extra["fault_kinds_fired"] = firedDist
	if err := out.Write(opts.Out, opts); err != nil {
		fmt.Fprintln(os.Stderr, err)
		os.Exit(2)
	}
}

func contains(xs []string, x string) bool {
	for _, y := range xs {
		if y == x {
			return true
		}
	}
	return false
}

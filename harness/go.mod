module verifharness

go 1.23

require (
	github.com/grailbio/base v0.0.9
	github.com/grailbio/bigmachine v0.5.8
	github.com/grailbio/bigslice v0.0.0
)

require (
	github.com/DataDog/zstd v1.4.1 // indirect
	github.com/Nvveen/Gotty v0.0.0-20120604004816-cd527374f1e5 // indirect
	github.com/aws/aws-sdk-go v1.29.24 // indirect
	github.com/cespare/xxhash v1.1.0 // indirect
	github.com/google/pprof v0.0.0-20190930153522-6ce02741cba3 // indirect
	github.com/jmespath/go-jmespath v0.0.0-20180206201540-c2b33e8439af // indirect
	github.com/shirou/gopsutil v2.19.9+incompatible // indirect
	github.com/spaolacci/murmur3 v1.1.0 // indirect
	golang.org/x/net v0.0.0-20200226121028-0de0cce0169b // indirect
	golang.org/x/sync v0.0.0-20190911185100-cd5d95a43a6e // indirect
	golang.org/x/sys v0.0.0-20200331124033-c3d80250170d // indirect
	golang.org/x/text v0.3.2 // indirect
	golang.org/x/time v0.0.0-20190921001708-c4c64cad1fd0 // indirect
	v.io v0.1.8 // indirect
	v.io/x/lib v0.1.5 // indirect
)

replace github.com/grailbio/bigslice => /repo

// Command c10 drives sortio.SortReader, sortio.NewMergeReader and sortio.Reduce
// through the public API with scripted upstream readers (scripted chunk sizes,
// empty reads, EOF conventions, errors), sweeping the sort canary size, the spill
// batch size and the spill target from one row / one byte up, and writes the Coq
// case file judged by coq/C10/Corr.v.
package main

import (
	"context"
	"flag"
	"fmt"
	"os"
	"path/filepath"
	"reflect"
	"sort"
	"strconv"
	"strings"
	"time"

	"github.com/grailbio/bigslice/frame"
	"github.com/grailbio/bigslice/slicefunc"
	"github.com/grailbio/bigslice/sliceio"
	"github.com/grailbio/bigslice/slicetype"
	"github.com/grailbio/bigslice/sortio"
	"verifharness/vf"
)

// ---------------------------------------------------------------- row types

// zint is a column type with a registered compressing (run-length) codec.
type zint int

func init() {
	frame.RegisterOps(func(slice []zint) frame.Ops {
		return frame.Ops{
			Less:         func(i, j int) bool { return slice[i] < slice[j] },
			HashWithSeed: func(i int, seed uint32) uint32 { return uint32(slice[i])*2654435761 + seed },
			// run-length encoding: number of runs, then (value, count) pairs
			Encode: func(e frame.Encoder, i, j int) error {
				var vals, counts []int
				for k := i; k < j; k++ {
					if n := len(vals); n > 0 && vals[n-1] == int(slice[k]) {
						counts[n-1]++
					} else {
						vals, counts = append(vals, int(slice[k])), append(counts, 1)
					}
				}
				if err := e.Encode(len(vals)); err != nil {
					return err
				}
				for k := range vals {
					if err := e.Encode(vals[k]); err != nil {
						return err
					}
					if err := e.Encode(counts[k]); err != nil {
						return err
					}
				}
				return nil
			},
			Decode: func(d frame.Decoder, i, j int) error {
				var nruns int
				if err := d.Decode(&nruns); err != nil {
					return err
				}
				k := i
				for r := 0; r < nruns; r++ {
					var v, c int
					if err := d.Decode(&v); err != nil {
						return err
					}
					if err := d.Decode(&c); err != nil {
						return err
					}
					for ; c > 0 && k < j; c-- {
						slice[k] = zint(v)
						k++
					}
				}
				if k != j {
					return fmt.Errorf("zint: decoded %d of %d values", k-i, j-i)
				}
				return nil
			},
		}
	})
}

const bad = -777777 // a cell whose Go value is not one the driver ever wrote

// styp is a slicetype.Type with an arbitrary key prefix.
type styp struct {
	cols   []reflect.Type
	prefix int
}

func (t styp) NumOut() int            { return len(t.cols) }
func (t styp) Out(i int) reflect.Type { return t.cols[i] }
func (t styp) Prefix() int            { return t.prefix }

var _ slicetype.Type = styp{}

// rowType maps the model's (key, value) : Z*Z onto a Go row type; the key
// mapping is injective and order preserving (keys are >= 0), the value mapping
// injective.
type rowType struct {
	name      string
	typ       styp
	reducible bool
	put       func(f frame.Frame, i int, k, v int64)
	get       func(f frame.Frame, i int) (k, v int64)
	combiner  func(op string) interface{}
}

func kstr(k int64, w int) string { return fmt.Sprintf("%0*d", w, k) }
func unkstr(s string, w int) int64 {
	if len(s) != w {
		return bad
	}
	n, err := strconv.Atoi(s)
	if err != nil || n < 0 {
		return bad
	}
	return int64(n)
}

func intComb(op string) interface{} {
	switch op {
	case "add":
		return func(a, b int) int { return a + b }
	case "max":
		return func(a, b int) int {
			if a > b {
				return a
			}
			return b
		}
	default:
		return func(a, b int) int {
			if a < b {
				return a
			}
			return b
		}
	}
}

func zintComb(op string) interface{} {
	switch op {
	case "add":
		return func(a, b zint) zint { return a + b }
	case "max":
		return func(a, b zint) zint {
			if a > b {
				return a
			}
			return b
		}
	default:
		return func(a, b zint) zint {
			if a < b {
				return a
			}
			return b
		}
	}
}

var (
	tInt    = reflect.TypeOf(int(0))
	tString = reflect.TypeOf("")
	tZint   = reflect.TypeOf(zint(0))
)

var rowTypes = []rowType{
	{"int|int", styp{[]reflect.Type{tInt, tInt}, 1}, true,
		func(f frame.Frame, i int, k, v int64) {
			f.Index(0, i).SetInt(k)
			f.Index(1, i).SetInt(v)
		},
		func(f frame.Frame, i int) (int64, int64) { return f.Index(0, i).Int(), f.Index(1, i).Int() },
		intComb},
	{"string|int", styp{[]reflect.Type{tString, tInt}, 1}, true,
		func(f frame.Frame, i int, k, v int64) {
			f.Index(0, i).SetString(kstr(k, 6))
			f.Index(1, i).SetInt(v)
		},
		func(f frame.Frame, i int) (int64, int64) {
			return unkstr(f.Index(0, i).String(), 6), f.Index(1, i).Int()
		},
		intComb},
	// two-column key prefix (int, string): key = a*1000 + b
	{"int,string|int", styp{[]reflect.Type{tInt, tString, tInt}, 2}, true,
		func(f frame.Frame, i int, k, v int64) {
			f.Index(0, i).SetInt(k / 1000)
			f.Index(1, i).SetString(kstr(k%1000, 3))
			f.Index(2, i).SetInt(v)
		},
		func(f frame.Frame, i int) (int64, int64) {
			b := unkstr(f.Index(1, i).String(), 3)
			if b == bad {
				return bad, f.Index(2, i).Int()
			}
			return f.Index(0, i).Int()*1000 + b, f.Index(2, i).Int()
		},
		intComb},
	// two-column key prefix (string, int): key = a*1000 + b
	{"string,int|int", styp{[]reflect.Type{tString, tInt, tInt}, 2}, true,
		func(f frame.Frame, i int, k, v int64) {
			f.Index(0, i).SetString(kstr(k/1000, 4))
			f.Index(1, i).SetInt(k % 1000)
			f.Index(2, i).SetInt(v)
		},
		func(f frame.Frame, i int) (int64, int64) {
			a := unkstr(f.Index(0, i).String(), 4)
			b := f.Index(1, i).Int()
			if a == bad || b < 0 || b >= 1000 {
				return bad, f.Index(2, i).Int()
			}
			return a*1000 + b, f.Index(2, i).Int()
		},
		intComb},
	// two value columns that must travel together (not reducible)
	{"int|int,string", styp{[]reflect.Type{tInt, tInt, tString}, 1}, false,
		func(f frame.Frame, i int, k, v int64) {
			f.Index(0, i).SetInt(k)
			f.Index(1, i).SetInt(v)
			f.Index(2, i).SetString("w" + strconv.FormatInt(v, 10))
		},
		func(f frame.Frame, i int) (int64, int64) {
			v := f.Index(1, i).Int()
			if f.Index(2, i).String() != "w"+strconv.FormatInt(v, 10) {
				return f.Index(0, i).Int(), bad
			}
			return f.Index(0, i).Int(), v
		},
		nil},
	// both columns use the compressing custom codec
	{"zint|zint", styp{[]reflect.Type{tZint, tZint}, 1}, true,
		func(f frame.Frame, i int, k, v int64) {
			f.Index(0, i).SetInt(k)
			f.Index(1, i).SetInt(v)
		},
		func(f frame.Frame, i int) (int64, int64) { return f.Index(0, i).Int(), f.Index(1, i).Int() },
		zintComb},
}

func rtByName(n string) *rowType {
	for i := range rowTypes {
		if rowTypes[i].name == n {
			return &rowTypes[i]
		}
	}
	panic("unknown row type " + n)
}

// ---------------------------------------------------------------- scripts

// Op is one response of one upstream reader (JSON-able, replayable).
type Op struct {
	S    int        `json:"s"`              // stream index
	K    string     `json:"k"`              // rows | eof | fail
	Rows [][2]int64 `json:"rows,omitempty"` // (key, value)
	E    int64      `json:"e,omitempty"`    // error code of fail
}

type Desc struct {
	Mode     string `json:"mode"` // sort | merge | reduce
	Typ      string `json:"typ"`
	Canary   int    `json:"canary,omitempty"`
	Batch    int    `json:"batch,omitempty"`
	Target   int    `json:"target,omitempty"`
	Comb     string `json:"comb,omitempty"`
	NStreams int    `json:"nstreams"`
	DSeed    uint64 `json:"dseed"` // destination sizes are drawn from this
	DMax     int    `json:"dmax"`
	Ops      []Op   `json:"ops"`
}

type scriptErr struct{ code int64 }

func (e *scriptErr) Error() string { return fmt.Sprintf("scripted failure %d", e.code) }

type call struct {
	demand, n int
	term      bool // returned a non-nil error
	rows      [][2]int64
}

// scripted is a sliceio.Reader that plays a script; it is the Go side of the
// model's [sread].
type scripted struct {
	rt    *rowType
	ops   []Op
	trace []call
}

func (s *scripted) Read(ctx context.Context, f frame.Frame) (int, error) {
	d := f.Len()
	c := call{demand: d}
	var err error
	if len(s.ops) == 0 {
		err = sliceio.EOF
	} else {
		o := &s.ops[0]
		switch o.K {
		case "fail":
			err = &scriptErr{o.E}
		default:
			n := len(o.Rows)
			if n > d {
				n = d
			}
			for i := 0; i < n; i++ {
				s.rt.put(f, i, o.Rows[i][0], o.Rows[i][1])
			}
			c.n = n
			c.rows = append(c.rows, o.Rows[:n]...)
			if n < len(o.Rows) {
				o.Rows = o.Rows[n:]
			} else if o.K == "eof" {
				err = sliceio.EOF
				s.ops = nil
			} else {
				s.ops = s.ops[1:]
			}
		}
	}
	c.term = err != nil
	s.trace = append(s.trace, c)
	return c.n, err
}

func streamsOf(d Desc) [][]Op {
	ss := make([][]Op, d.NStreams)
	for _, o := range d.Ops {
		if o.S >= 0 && o.S < d.NStreams {
			o.Rows = append([][2]int64{}, o.Rows...)
			ss[o.S] = append(ss[o.S], o)
		}
	}
	return ss
}

func rowsTerm(rows [][2]int64) string {
	ss := make([]string, len(rows))
	for i, r := range rows {
		ss[i] = vf.Tuple(vf.Z(r[0]), vf.Z(r[1]))
	}
	return vf.List(ss)
}

func scriptTerm(ops []Op) string {
	ss := make([]string, len(ops))
	for i, o := range ops {
		switch o.K {
		case "fail":
			ss[i] = vf.App("Fail", vf.Z(o.E))
		case "eof":
			ss[i] = vf.App("EofWith", rowsTerm(o.Rows))
		default:
			ss[i] = vf.App("Rows", rowsTerm(o.Rows))
		}
	}
	return vf.List(ss)
}

// ---------------------------------------------------------------- observation

type read struct {
	rows   [][2]int64
	status string // Coq term of the status
}

type observed struct {
	create string // Coq term of type create
	reads  []read
	lens   []int
	left   int
	sizes  []int64
	dem    []int
	note   string // panic text etc.
}

func errCode(err error) int64 {
	if se, ok := err.(*scriptErr); ok {
		return se.code
	}
	return -3
}

func statusTerm(err error) string {
	switch {
	case err == nil:
		return "SOk"
	case err == sliceio.EOF:
		return "SEof"
	default:
		return vf.App("SErr", vf.Z(errCode(err)))
	}
}

// countFiles counts the files and directories below dir.
func countFiles(dir string) int {
	n := 0
	_ = filepath.Walk(dir, func(p string, info os.FileInfo, err error) error {
		if err == nil && p != dir {
			n++
		}
		return nil
	})
	return n
}

const watchdog = 30 * time.Second

// guarded runs fn with panic recovery under the watchdog.
func guarded(fn func()) (panicked interface{}, hung bool) {
	done := make(chan interface{}, 1)
	go func() {
		defer func() { done <- recover() }()
		fn()
	}()
	select {
	case p := <-done:
		return p, false
	case <-time.After(watchdog):
		return nil, true
	}
}

// drain reads r to its first non-nil error with destination sizes drawn from
// the case's demand stream.
func drain(rt *rowType, r sliceio.Reader, d Desc, maxReads int, obs *observed) {
	dr := vf.NewRand(d.DSeed)
	ctx := context.Background()
	for i := 0; ; i++ {
		if i >= maxReads {
			obs.reads = append(obs.reads, read{nil, vf.App("SErr", vf.Z(-2))})
			return
		}
		dem := dr.Range(1, d.DMax)
		obs.dem = append(obs.dem, dem)
		out := frame.Make(rt.typ, dem, dem)
		var (
			n   int
			err error
		)
		p, hung := guarded(func() { n, err = r.Read(ctx, out) })
		if hung {
			obs.reads = append(obs.reads, read{nil, vf.App("SErr", vf.Z(-2))})
			return
		}
		if p != nil {
			obs.note = fmt.Sprint(p)
			obs.reads = append(obs.reads, read{nil, vf.App("SErr", vf.Z(-1))})
			return
		}
		rd := read{status: statusTerm(err)}
		for j := 0; j < n && j < dem; j++ {
			k, v := rt.get(out, j)
			rd.rows = append(rd.rows, [2]int64{k, v})
		}
		if n > dem || n < 0 {
			rd.rows = append(rd.rows, [2]int64{bad, int64(n)})
		}
		obs.reads = append(obs.reads, rd)
		if err != nil {
			return
		}
	}
}

func setSizes(canary, batch int) {
	if canary > 0 {
		// defaultsize.SortCanary is internal; its flag is the public way to set it
		if err := flag.Set("bigslice-internal-default-sort-canary-rows", strconv.Itoa(canary)); err != nil {
			panic(err)
		}
	}
	if batch > 0 {
		sliceio.SpillBatchSize = batch
	}
}

// spillSize re-spills a frame holding rows (filled and sorted exactly as
// SortReader does) to learn the encoded size SortReader saw for that run.
func spillSize(rt *rowType, rows [][2]int64) int64 {
	f := frame.Make(rt.typ, len(rows), len(rows))
	for i, r := range rows {
		rt.put(f, i, r[0], r[1])
	}
	sort.Sort(f)
	sp, err := sliceio.NewSpiller("c10probe")
	if err != nil {
		panic(err)
	}
	defer sp.Cleanup()
	n, err := sp.Spill(f)
	if err != nil {
		panic(err)
	}
	return int64(n)
}

func totalRows(d Desc) int {
	n := 0
	for _, o := range d.Ops {
		n += len(o.Rows)
	}
	return n
}

func runCase(d Desc, tmp string) observed {
	rt := rtByName(d.Typ)
	var obs observed
	ctx := context.Background()
	streams := streamsOf(d)
	maxReads := 2*totalRows(d) + 8
	setSizes(d.Canary, d.Batch)
	switch d.Mode {
	case "sort":
		var ops []Op
		if len(streams) > 0 {
			ops = streams[0]
		}
		up := &scripted{rt: rt, ops: ops}
		var (
			r   sliceio.Reader
			err error
		)
		p, hung := guarded(func() { r, err = sortio.SortReader(ctx, d.Target, rt.typ, up) })
		obs.left = countFiles(tmp)
		switch {
		case hung:
			obs.create = "CFuel"
		case p != nil:
			obs.create, obs.note = "CPanic", fmt.Sprint(p)
		case err != nil:
			obs.create = vf.App("CErr", vf.Z(errCode(err)))
		default:
			obs.create = "COk"
			drain(rt, r, d, maxReads, &obs)
			if n := countFiles(tmp); n > obs.left {
				obs.left = n
			}
		}
		// the run lengths, from the destination sizes ReadFull asked upstream for
		tr := up.trace
		for i := 0; i < len(tr); {
			L := tr[i].demand
			obs.lens = append(obs.lens, L)
			var rows [][2]int64
			for acc := 0; i < len(tr); {
				acc += tr[i].n
				rows = append(rows, tr[i].rows...)
				term := tr[i].term
				i++
				if term || acc >= L {
					break
				}
			}
			if !hung {
				obs.sizes = append(obs.sizes, spillSize(rt, rows))
			}
		}
	case "merge", "reduce":
		readers := make([]sliceio.Reader, len(streams))
		for i := range streams {
			readers[i] = &scripted{rt: rt, ops: streams[i]}
		}
		var (
			r   sliceio.Reader
			err error
		)
		p, hung := guarded(func() {
			if d.Mode == "merge" {
				r, err = sortio.NewMergeReader(ctx, rt.typ, readers)
			} else {
				fn, ok := slicefunc.Of(rt.combiner(d.Comb))
				if !ok {
					panic("bad combiner")
				}
				r = sortio.Reduce(rt.typ, "c10", readers, fn)
			}
		})
		switch {
		case hung:
			obs.create = "CFuel"
		case p != nil:
			obs.create, obs.note = "CPanic", fmt.Sprint(p)
		case err != nil:
			obs.create = vf.App("CErr", vf.Z(errCode(err)))
		default:
			obs.create = "COk"
			drain(rt, r, d, maxReads, &obs)
		}
		obs.left = countFiles(tmp)
	default:
		panic("unknown mode " + d.Mode)
	}
	return obs
}

// canonicalise sorts the rows inside every maximal group of adjacent equal keys
// by value, across Read boundaries: which of several rows with equal keys the
// merge yields first depends on the order of the spill files (random names)
// and on heap ties, and is not fixed by the property.  Key sequence, Read
// counts and the multiset of rows are untouched.
func canonicalise(reads []read) {
	var all []*[2]int64
	for i := range reads {
		if strings.HasPrefix(reads[i].status, "(SErr") {
			continue
		}
		for j := range reads[i].rows {
			all = append(all, &reads[i].rows[j])
		}
	}
	for i := 0; i < len(all); {
		j := i
		for j < len(all) && all[j][0] == all[i][0] {
			j++
		}
		vals := make([]int64, 0, j-i)
		for k := i; k < j; k++ {
			vals = append(vals, all[k][1])
		}
		sort.Slice(vals, func(a, b int) bool { return vals[a] < vals[b] })
		for k := i; k < j; k++ {
			all[k][1] = vals[k-i]
		}
		i = j
	}
}

func outcomeTerm(o observed) string {
	canonicalise(o.reads)
	rs := make([]string, len(o.reads))
	for i, r := range o.reads {
		rs[i] = vf.Tuple(rowsTerm(r.rows), r.status)
	}
	return vf.App("mkO", o.create, vf.List(rs), vf.NatList(o.lens), vf.Nat(o.left))
}

func caseTerm(d Desc, o observed) string {
	streams := streamsOf(d)
	ss := make([]string, len(streams))
	for i := range streams {
		ss[i] = scriptTerm(streams[i])
	}
	switch d.Mode {
	case "sort":
		s := "[]"
		if len(ss) > 0 {
			s = ss[0]
		}
		return vf.App("CSort", vf.Nat(d.Canary), vf.Nat(d.Batch), vf.Z(int64(d.Target)), vf.ZList(o.sizes),
			s, vf.NatList(o.dem), outcomeTerm(o))
	case "merge":
		return vf.App("CMerge", vf.Nat(d.Batch), vf.List(ss), vf.NatList(o.dem), outcomeTerm(o))
	default:
		op := map[string]string{"add": "OpAdd", "max": "OpMax", "min": "OpMin"}[d.Comb]
		return vf.App("CReduce", vf.Nat(reduceChunk), op, vf.List(ss), vf.NatList(o.dem), outcomeTerm(o))
	}
}

// sortio captures defaultsize.Chunk at package initialisation (reader.go:20),
// so the reduce buffers are always this long; pinned by C10_gen_chunk.
const reduceChunk = 128

// ---------------------------------------------------------------- generators

type keyDist struct {
	name string
	gen  func(r *vf.Rand) int64
}

func keyDists() []keyDist {
	return []keyDist{
		{"all-equal", func(r *vf.Rand) int64 { return 7 }},
		{"few", func(r *vf.Rand) int64 { return int64(r.Range(0, 3)) }},
		{"some", func(r *vf.Rand) int64 { return int64(r.Range(0, 40)) }},
		{"many", func(r *vf.Rand) int64 { return int64(r.Range(0, 8999)) }},
		{"prefix-ties", func(r *vf.Rand) int64 { return int64(r.Range(0, 3))*1000 + int64(r.Range(0, 2)) }},
	}
}

func genVal(r *vf.Rand) int64 {
	if r.Chance(1, 3) {
		return int64(r.Range(0, 2))
	}
	return int64(r.Range(-60, 60))
}

// chunked cuts rows into the responses of one stream.
func chunked(r *vf.Rand, s int, rows [][2]int64, maxChunk int, emptyReads bool, ending string) []Op {
	var ops []Op
	for len(rows) > 0 {
		if emptyReads && r.Chance(1, 5) {
			ops = append(ops, Op{S: s, K: "rows"})
		}
		n := r.Range(1, maxChunk)
		if n > len(rows) {
			n = len(rows)
		}
		if n == len(rows) && ending == "eofwith" {
			break
		}
		ops = append(ops, Op{S: s, K: "rows", Rows: rows[:n]})
		rows = rows[n:]
	}
	if emptyReads && r.Chance(1, 4) {
		ops = append(ops, Op{S: s, K: "rows"})
	}
	switch ending {
	case "eofwith": // the last rows come together with EOF
		ops = append(ops, Op{S: s, K: "eof", Rows: rows})
	case "eof": // a separate (0, EOF)
		ops = append(ops, Op{S: s, K: "eof"})
	case "fail":
		ops = append(ops, Op{S: s, K: "fail", E: int64(r.Range(1, 9))})
	case "end": // the script just ends: (0, EOF)
	}
	return ops
}

func pickEnding(r *vf.Rand, failNum, failDen int) string {
	if r.Chance(failNum, failDen) {
		return "fail"
	}
	return []string{"eofwith", "eof", "end"}[r.Intn(3)]
}

func genSort(r *vf.Rand, big bool) Desc {
	rt := &rowTypes[r.Intn(len(rowTypes))]
	d := Desc{Mode: "sort", Typ: rt.name, NStreams: 1, DSeed: r.Uint64(), DMax: r.Pick([]int{1, 2, 5, 17, 64, 300}), Ops: []Op{}}
	d.Canary = r.Pick([]int{1, 1, 2, 2, 3, 5, 8, 16, 64, 256})
	d.Batch = r.Pick([]int{1, 1, 2, 3, 4, 7, 16, 128})
	d.Target = r.Pick([]int{1, 2, 7, 30, 100, 400, 1000, 4000})
	maxRows := 70
	if big {
		maxRows = 700
	}
	n := r.Pick([]int{0, 1, r.Range(0, 12), r.Range(0, maxRows), r.Range(0, maxRows), r.Range(0, maxRows), r.Range(0, maxRows),
		d.Canary, 2 * d.Canary, 3*d.Canary + 1})
	if n > maxRows {
		n = maxRows
	}
	kd := keyDists()[r.Intn(5)]
	rows := make([][2]int64, n)
	for i := range rows {
		rows[i] = [2]int64{kd.gen(r), genVal(r)}
	}
	d.Ops = chunked(r, 0, rows, r.Pick([]int{1, 3, 10, 50, 1000}), r.Chance(1, 2), pickEnding(r, 1, 7))
	return d
}

// genCompress aims at the bytes-per-row arithmetic: many identical rows of the
// run-length-coded type, so that a run encodes to fewer bytes than it has rows.
func genCompress(r *vf.Rand) Desc {
	d := Desc{Mode: "sort", Typ: "zint|zint", NStreams: 1, DSeed: r.Uint64(), DMax: 64}
	d.Canary = r.Pick([]int{64, 100, 256})
	d.Batch = r.Pick([]int{64, 128})
	d.Target = r.Pick([]int{1, 100, 5000})
	n := d.Canary + r.Range(1, 40)
	rows := make([][2]int64, n)
	k, v := int64(r.Range(0, 5)), int64(r.Range(0, 5))
	for i := range rows {
		rows[i] = [2]int64{k, v}
	}
	d.Ops = chunked(r, 0, rows, 1000, false, "eof")
	return d
}

func sortedStream(r *vf.Rand, n int, kd keyDist, strict bool) [][2]int64 {
	rows := make([][2]int64, 0, n)
	seen := map[int64]bool{}
	for i := 0; i < n; i++ {
		k := kd.gen(r)
		if strict && seen[k] {
			continue
		}
		seen[k] = true
		rows = append(rows, [2]int64{k, genVal(r)})
	}
	sort.SliceStable(rows, func(i, j int) bool { return rows[i][0] < rows[j][0] })
	return rows
}

func genMerge(r *vf.Rand, reduce, big bool) Desc {
	var rt *rowType
	for {
		rt = &rowTypes[r.Intn(len(rowTypes))]
		if !reduce || rt.reducible {
			break
		}
	}
	d := Desc{Mode: "merge", Typ: rt.name, DSeed: r.Uint64(), DMax: r.Pick([]int{1, 2, 5, 17, 64, 300}), Ops: []Op{}}
	d.NStreams = r.Pick([]int{0, 1, 2, 2, 3, 3, 5, 9})
	maxRows, maxChunk := 30, 0
	if big {
		maxRows = 300
	}
	if reduce {
		d.Mode, d.Comb = "reduce", []string{"add", "max", "min"}[r.Intn(3)]
		maxChunk = r.Pick([]int{1, 2, 5, 40, 200})
	} else {
		d.Batch = r.Pick([]int{1, 1, 2, 3, 5, 16, 128})
		maxChunk = r.Pick([]int{1, d.Batch, d.Batch + 3, 40})
	}
	kd := keyDists()[r.Intn(5)]
	emptyReads := r.Chance(1, 8)
	failDen := 12
	for s := 0; s < d.NStreams; s++ {
		n := r.Pick([]int{0, 0, 1, r.Range(0, 8), r.Range(0, maxRows), r.Range(0, maxRows)})
		rows := sortedStream(r, n, kd, reduce)
		d.Ops = append(d.Ops, chunked(r, s, rows, maxChunk, emptyReads, pickEnding(r, 1, failDen))...)
	}
	return d
}

// ---------------------------------------------------------------- main

func signature(d Desc, o observed) string {
	sig := d.Mode
	if o.create == "CPanic" {
		if strings.Contains(o.note, "divide by zero") && d.Mode == "sort" {
			return "sort-bytes-per-row-zero"
		}
		return d.Mode + "-panic"
	}
	if o.create == "CFuel" {
		return d.Mode + "-hang"
	}
	for _, op := range d.Ops {
		if op.K == "fail" {
			return d.Mode + "-failing-input"
		}
	}
	return sig
}

func hasEmptyRead(d Desc) bool {
	for _, op := range d.Ops {
		if op.K == "rows" && len(op.Rows) == 0 {
			return true
		}
	}
	return false
}

func nontrivial(d Desc, o observed) string {
	key := ""
	switch d.Mode {
	case "sort":
		if len(o.lens) >= 2 {
			key = "runs"
		}
	default:
		ne := 0
		for _, s := range streamsOf(d) {
			for _, op := range s {
				if len(op.Rows) > 0 {
					ne++
					break
				}
			}
		}
		if ne >= 2 {
			key = "streams"
		}
	}
	if key == "" {
		return ""
	}
	js := fmt.Sprintf("%+v", d)
	return vf.Hash(js)
}

func main() {
	opts := vf.ParseFlags()
	out := &vf.Output{ID: "C10", Import: "BS.C10.Corr",
		Rule: "scripted upstream readers through sortio.SortReader / NewMergeReader / Reduce over 6 row types " +
			"(int, string, two-column and custom-codec keys); canary 1..256 rows, spill batch 1..128 rows, spill target 1 byte..64 KiB, " +
			"0..9 streams, random destination sizes; non-trivial = a sort with at least two spilled runs or a merge/reduce of at least " +
			"two non-empty streams; distinct by input text"}
	tmp, err := os.MkdirTemp("", "c10-")
	if err != nil {
		fmt.Fprintln(os.Stderr, err)
		os.Exit(2)
	}
	defer os.RemoveAll(tmp)
	os.Setenv("TMPDIR", tmp)

	var descs []Desc
	if opts.Replay != "" {
		if err := vf.LoadReplay(opts.Replay, &descs); err != nil {
			fmt.Fprintln(os.Stderr, err)
			os.Exit(2)
		}
	} else {
		n := 600
		big := false
		if opts.Tier == "thorough" {
			n, big = 6000, true
		}
		n *= opts.Scale
		root := vf.NewRand(opts.Seed)
		for i := 0; i < n; i++ {
			r := root.Split()
			switch {
			case i%50 == 7:
				descs = append(descs, genCompress(r))
			case i%3 == 0:
				descs = append(descs, genSort(r, big && i%4 == 0))
			case i%3 == 1:
				descs = append(descs, genMerge(r, false, big && i%4 == 1))
			default:
				descs = append(descs, genMerge(r, true, big && i%4 == 2))
			}
		}
	}
	leftover, outside := 0, 0
	for _, d := range descs {
		if d.DMax < 1 {
			d.DMax = 1
		}
		before := countFiles(tmp)
		o := runCase(d, tmp)
		o.left -= before
		if o.left < 0 {
			o.left = 0
		}
		leftover += o.left
		// start every case from an empty temp dir
		ents, _ := os.ReadDir(tmp)
		for _, e := range ents {
			os.RemoveAll(filepath.Join(tmp, e.Name()))
		}
		kind := d.Mode + "/" + d.Typ
		if d.Mode != "sort" && hasEmptyRead(d) {
			// the property excludes empty reads for merge inputs: model comparison only
			kind += "+empty-reads(model-only)"
			outside++
		}
		out.Add(vf.Case{Term: caseTerm(d, o), Desc: d, Sig: signature(d, o), Nontriv: nontrivial(d, o),
			Kind:     kind,
			Observed: map[string]interface{}{"create": o.create, "reads": len(o.reads), "runs": o.lens, "leftover_files": o.left, "note": o.note}})
	}
	out.Extra = map[string]interface{}{"leftover_spill_files": leftover, "cases_outside_quantifier_model_only": outside}
	if err := out.Write(opts.Out, opts); err != nil {
		fmt.Fprintln(os.Stderr, err)
		os.Exit(2)
	}
}

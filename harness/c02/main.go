// Command c02 kills worker machines of an in-process bigmachine test system at
// RPC boundaries (before or after the k-th Worker.* call, callee or another
// machine, also during the scan of the finished result) and records what Run
// and the scan return, and whether a later run in the same session recovers.
package main

import (
	"context"
	"fmt"
	"net/http"
	"os"
	"strings"
	"sync"
	"time"

	"github.com/grailbio/bigmachine"
	"github.com/grailbio/bigmachine/testsystem"
	"github.com/grailbio/bigslice/exec"
	"verifharness/prog"
	"verifharness/vf"
)

// Kill describes one kill point.
type Kill struct {
	At     int    `json:"at"`     // index among the Worker.* RPCs of the scenario (run + scan)
	After  bool   `json:"after"`  // kill after the call returned instead of before forwarding it
	Target string `json:"target"` // callee | other
}

type Desc struct {
	Prog  prog.Prog `json:"prog"`
	Kills []Kill    `json:"kills"`
	Procs int       `json:"procs"`
}

// ---------------------------------------------------------------- interposer

type interposer struct {
	mu     sync.Mutex
	inner  http.RoundTripper
	sys    *testsystem.System
	n      int      // Worker.* calls seen
	trace  []string // method names
	kills  []Kill
	killed []string // what was killed, for the record
	armed  bool
}

func method(path string) string {
	if i := strings.LastIndex(path, "/"); i >= 0 {
		return path[i+1:]
	}
	return path
}

// pick chooses the machine to kill (called with ip.mu held); the kill itself
// must happen without the lock and must not be waited for indefinitely:
// httptest.Server.Close blocks until the server's in-flight handlers return,
// and one of them may be the very caller of this RoundTrip.
func (ip *interposer) pick(host string, other bool) *bigmachine.Machine {
	n := ip.sys.N()
	for i := 0; i < n; i++ {
		m := ip.sys.Index(i)
		if strings.Contains(m.Addr, host) != other {
			ip.killed = append(ip.killed, fmt.Sprintf("%s@%d", map[bool]string{false: "callee", true: "other"}[other], ip.n))
			return m
		}
	}
	return nil
}

func (ip *interposer) kill(m *bigmachine.Machine) {
	if m == nil {
		return
	}
	done := make(chan struct{})
	go func() { ip.sys.Kill(m); close(done) }()
	select {
	case <-done:
	case <-time.After(300 * time.Millisecond):
	}
}

func (ip *interposer) RoundTrip(req *http.Request) (*http.Response, error) {
	m := method(req.URL.Path)
	var k *Kill
	var victim *bigmachine.Machine
	if strings.HasPrefix(m, "Worker.") {
		ip.mu.Lock()
		idx := ip.n
		ip.n++
		ip.trace = append(ip.trace, m)
		if ip.armed {
			for i := range ip.kills {
				if ip.kills[i].At == idx {
					k = &ip.kills[i]
				}
			}
		}
		if k != nil {
			victim = ip.pick(req.URL.Host, k.Target == "other")
		}
		ip.mu.Unlock()
	}
	if k != nil && !k.After {
		ip.kill(victim)
	}
	resp, err := ip.inner.RoundTrip(req)
	if k != nil && k.After {
		ip.kill(victim)
	}
	return resp, err
}

// ksys is the test system with every RPC going through the interposer.
type ksys struct {
	*testsystem.System
	client *http.Client
}

func (k *ksys) HTTPClient() *http.Client { return k.client }

var _ bigmachine.System = (*ksys)(nil)

func start(procs int, kills []Kill) (*prog.Sess, *interposer) {
	sys := testsystem.New()
	sys.Machineprocs = procs
	sys.KeepalivePeriod = 100 * time.Millisecond
	sys.KeepaliveTimeout = 400 * time.Millisecond
	sys.KeepaliveRpcTimeout = 100 * time.Millisecond
	ip := &interposer{inner: sys.HTTPClient().Transport, sys: sys, kills: kills}
	ks := &ksys{System: sys, client: &http.Client{Transport: ip}}
	sess := exec.Start(exec.Bigmachine(ks), exec.Parallelism(4))
	return &prog.Sess{Session: sess, Sys: sys, Cfg: prog.Cfg{Kind: "bigmachine", Parallelism: 4, Procs: procs}}, ip
}

func obsTerm(o prog.Obs) string {
	if o.Err == "ok" {
		return o.Term()
	}
	e := o.Err
	return vf.App("mkObs", "E"+string(e[0]-32)+e[1:], "[]", "[]", "[]", "EOk", "[]", "[]")
}

// scenario runs the program with the kill plan armed, then (losses having
// stopped) once more in the same session.
func scenario(d Desc) (first, again prog.Obs, trace []string, killed []string) {
	s, ip := start(d.Procs, d.Kills)
	defer func() {
		// shutting down a session whose machines were killed can block on the dead machines
		done := make(chan struct{})
		go func() { s.Close(); close(done) }()
		select {
		case <-done:
		case <-time.After(2 * time.Second):
		}
	}()
	ip.mu.Lock()
	ip.armed = true
	ip.mu.Unlock()
	t0 := time.Now()
	first, _ = prog.RunOnce(s, d.Prog, "", 90*time.Second)
	if os.Getenv("VERIF_DEBUG") != "" {
		fmt.Fprintf(os.Stderr, "SCEN kills=%v first=%s %.1fs killed=%v msg=%.100s\n", d.Kills, first.Err, time.Since(t0).Seconds(), ip.killed, first.ErrMsg)
	}
	ip.mu.Lock()
	ip.armed = false
	trace = append([]string{}, ip.trace...)
	killed = append([]string{}, ip.killed...)
	ip.mu.Unlock()
	if first.Err == "hang" {
		again = prog.Obs{Err: "hang"}
		return
	}
	t1 := time.Now()
	again, _ = prog.RunOnce(s, d.Prog, "", 120*time.Second)
	if os.Getenv("VERIF_DEBUG") != "" {
		fmt.Fprintf(os.Stderr, "     again=%s %.1fs msg=%.100s\n", again.Err, time.Since(t1).Seconds(), again.ErrMsg)
	}
	return
}

func main() {
	exec.ProbationTimeout = 300 * time.Millisecond
	// the declared policy for remote partition reads backs off 5,10,20,40,60 s (5 retries):
	// keep the retry count, shrink the waits
	exec.VerifSetRetryBackoff(100*time.Millisecond, time.Second, 2, 5)
	opts := vf.ParseFlags()
	out := &vf.Output{ID: "C02", Import: "BS.C02.Corr",
		Rule: "generated programs without side effects (map-only, reduce, cogroup, fold, multi-stage shuffles) on bigmachine/testsystem (1-2 procs per machine, parallelism 4, no machine combiners) with every RPC through an interposer; a failure-free run gives the number N of Worker.{Compile,Run,Stat,Read,CommitCombiner} calls of run+scan; scenarios kill the callee or another machine before or after the k-th call (single kills for sampled k, some double kills), then run the program again in the same session; non-trivial = a machine was actually killed; distinct by description"}
	var descs []Desc
	if opts.Replay != "" {
		if err := vf.LoadReplay(opts.Replay, &descs); err != nil {
			fmt.Fprintln(os.Stderr, err)
			os.Exit(2)
		}
	} else {
		nprog, per := 8, 6
		if opts.Tier == "thorough" {
			nprog, per = 40, 20
		}
		nprog *= opts.Scale
		root := vf.NewRand(opts.Seed)
		g := prog.DefaultGen()
		g.NoSide = true
		g.WithPragma = false
		g.MaxNodes = 5
		g.Sizes = []int{5, 40, 130, 300}
		for i := 0; i < nprog; i++ {
			r := root.Split()
			var p prog.Prog
			for {
				p = prog.Gen(r, g)
				sch, _ := p.Schemas()
				shuffles := 0
				for _, n := range p.Nodes {
					switch n.Op {
					case "reduce", "fold", "cogroup", "reshuffle", "reshard", "repartition":
						shuffles++
					}
				}
				if len(sch[len(sch)-1].Types) > 0 && (shuffles > 0 || i%4 == 0) {
					break
				}
			}
			procs := 1 + i%2
			// failure-free run: how many Worker.* calls does run+scan make?
			_, _, trace, _ := scenario(Desc{Prog: p, Procs: procs})
			n := len(trace) / 2 // the scenario runs the program twice
			if n == 0 {
				continue
			}
			for j := 0; j < per; j++ {
				k := Kill{At: r.Intn(n), After: r.Bool(), Target: []string{"callee", "callee", "other"}[r.Intn(3)]}
				d := Desc{Prog: p, Procs: procs, Kills: []Kill{k}}
				if r.Chance(1, 5) {
					d.Kills = append(d.Kills, Kill{At: r.Intn(n), After: r.Bool(), Target: "callee"})
				}
				descs = append(descs, d)
			}
		}
	}
	// scenarios are independent sessions: run a few at a time
	type result struct {
		first, again prog.Obs
		trace        []string
		killed       []string
	}
	results := make([]result, len(descs))
	sem := make(chan struct{}, 6)
	var wg sync.WaitGroup
	for i := range descs {
		wg.Add(1)
		sem <- struct{}{}
		go func(i int) {
			defer wg.Done()
			defer func() { <-sem }()
			r := &results[i]
			r.first, r.again, r.trace, r.killed = scenario(descs[i])
		}(i)
	}
	wg.Wait()
	_ = context.Background
	for i, d := range descs {
		r := results[i]
		term := vf.App("mkCase", d.Prog.Term(), vf.Nat(len(r.killed)), obsTerm(r.first), obsTerm(r.again))
		nt := ""
		if len(r.killed) > 0 {
			nt = vf.Hash(fmt.Sprint(d))
		}
		at := "-"
		if len(d.Kills) > 0 && d.Kills[0].At < len(r.trace) {
			at = r.trace[d.Kills[0].At]
		}
		out.Add(vf.Case{Term: term, Desc: d, Sig: "machine-loss", Nontriv: nt, Kind: at,
			Observed: map[string]interface{}{"first": r.first.Err, "msg": r.first.ErrMsg, "again": r.again.Err, "againmsg": r.again.ErrMsg, "killed": r.killed, "calls": len(r.trace)}})
	}
	if err := out.Write(opts.Out, opts); err != nil {
		fmt.Fprintln(os.Stderr, err)
		os.Exit(2)
	}
}

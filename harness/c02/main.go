// Command c02 kills worker machines of an in-process bigmachine test system at
// RPC boundaries (before or after the k-th Worker.* call, callee or another
// machine, also during the scan of the finished result) and records what Run
// and the scan return, and whether a later run in the same session recovers.
package main

import (
	"context"
	"fmt"
	"io"
	"net/http"
	"os"
	"strings"
	"sync"
	"sync/atomic"
	"time"

	"github.com/grailbio/bigmachine"
	"github.com/grailbio/bigmachine/testsystem"
	"github.com/grailbio/bigslice/exec"
	"verifharness/prog"
	"verifharness/vf"
)

// Kill describes one kill point.
type Kill struct {
	At     int    `json:"at"`     // index among the Worker.* RPCs of the scenario (run + scan)
	After  bool   `json:"after"`  // kill after the call returned instead of before forwarding it
	Target string `json:"target"` // callee | other | midread (callee killed after Bytes bytes of the response body were delivered)
	Hold   int    `json:"hold"`   // with After: milliseconds the reply is held back after the kill (the driver notices the loss first)
	Bytes  int    `json:"bytes"`  // midread: bytes of the body delivered before the kill
}

type Desc struct {
	Prog  prog.Prog `json:"prog"`
	Kills []Kill    `json:"kills"`
	Procs int       `json:"procs"`
}

// ---------------------------------------------------------------- interposer

type interposer struct {
	mu     sync.Mutex
	inner  http.RoundTripper
	sys    *testsystem.System
	n      int      // Worker.* calls seen
	trace  []string // method names; a partition read issued while a Worker.Run is in flight is "Worker.Read/shuffle"
	runs   int      // Worker.Run calls in flight
	nshuf  int      // shuffle reads seen (midread kills are indexed over these)
	kills  []Kill
	killed []string // what was killed, for the record
	armed  bool
	// the machines started so far and not yet killed by us, recorded by ksys.Start: the test
	// system's own list is behind its mutex, which System.Kill holds while it waits for the
	// dying server's in-flight handlers - some of which are waiting for this interposer
	machines []*bigmachine.Machine
}

func method(path string) string {
	if i := strings.LastIndex(path, "/"); i >= 0 {
		return path[i+1:]
	}
	return path
}

// pick chooses the machine to kill (called with ip.mu held); the kill itself
// must happen without the lock and must not be waited for indefinitely:
// httptest.Server.Close blocks until the server's in-flight handlers return,
// and one of them may be the very caller of this RoundTrip.
func (ip *interposer) pick(host string, other bool) *bigmachine.Machine {
	for i, m := range ip.machines {
		if strings.Contains(m.Addr, host) != other {
			ip.killed = append(ip.killed, fmt.Sprintf("%s@%d", map[bool]string{false: "callee", true: "other"}[other], ip.n))
			ip.machines = append(ip.machines[:i:i], ip.machines[i+1:]...)
			return m
		}
	}
	return nil
}

func (ip *interposer) kill(m *bigmachine.Machine) {
	if m == nil {
		return
	}
	done := make(chan struct{})
	go func() { ip.sys.Kill(m); close(done) }()
	select {
	case <-done:
	case <-time.After(300 * time.Millisecond):
	}
}

func (ip *interposer) RoundTrip(req *http.Request) (*http.Response, error) {
	m := method(req.URL.Path)
	var k *Kill
	var victim *bigmachine.Machine
	if strings.HasPrefix(m, "Worker.") {
		ip.mu.Lock()
		idx := ip.n
		ip.n++
		if m == "Worker.Read" && ip.runs > 0 {
			ip.trace = append(ip.trace, "Worker.Read/shuffle")
		} else {
			ip.trace = append(ip.trace, m)
		}
		if m == "Worker.Run" {
			ip.runs++
			defer func() { ip.mu.Lock(); ip.runs--; ip.mu.Unlock() }()
		}
		isShuffle := m == "Worker.Read" && ip.runs > 0
		if ip.armed {
			for i := range ip.kills {
				if ip.kills[i].Target == "midread" {
					if isShuffle && ip.kills[i].At == ip.nshuf {
						k = &ip.kills[i]
					}
				} else if ip.kills[i].At == idx {
					k = &ip.kills[i]
				}
			}
		}
		if isShuffle {
			ip.nshuf++
		}
		if k != nil {
			victim = ip.pick(req.URL.Host, k.Target == "other")

		}
		ip.mu.Unlock()
	}
	if k != nil && !k.After && k.Target != "midread" {
		ip.kill(victim)
	}
	resp, err := ip.inner.RoundTrip(req)
	if k != nil && k.Target == "midread" && err == nil && resp != nil {
		resp.Body = &killBody{inner: resp.Body, left: k.Bytes, kill: func() { ip.kill(victim) }}
		return resp, err
	}
	if k != nil && k.After {
		ip.kill(victim)
		if k.Hold > 0 {
			time.Sleep(time.Duration(k.Hold) * time.Millisecond)
		}
	}
	return resp, err
}

// killBody delivers the first `left` bytes of a response body, then kills the
// serving machine: the rest of the stream is lost in the middle of the read.
type killBody struct {
	inner io.ReadCloser
	left  int
	kill  func()
	done  bool
}

func (b *killBody) Read(p []byte) (int, error) {
	if !b.done && b.left <= 0 {
		b.done = true
		b.kill()
	}
	if b.done {
		return 0, io.ErrUnexpectedEOF // a dead machine delivers nothing more
	}
	if len(p) > b.left {
		p = p[:b.left]
	}
	n, err := b.inner.Read(p)
	b.left -= n
	return n, err
}
func (b *killBody) Close() error { return b.inner.Close() }

// ksys is the test system with every RPC going through the interposer.
type ksys struct {
	*testsystem.System
	client *http.Client
	ip     *interposer
}

func (k *ksys) Start(ctx context.Context, count int) ([]*bigmachine.Machine, error) {
	ms, err := k.System.Start(ctx, count)
	k.ip.mu.Lock()
	k.ip.machines = append(k.ip.machines, ms...)
	k.ip.mu.Unlock()
	return ms, err
}

func (k *ksys) HTTPClient() *http.Client { return k.client }

var _ bigmachine.System = (*ksys)(nil)

func start(procs int, kills []Kill) (*prog.Sess, *interposer) {
	sys := testsystem.New()
	sys.Machineprocs = procs
	sys.KeepalivePeriod = 100 * time.Millisecond
	sys.KeepaliveTimeout = 400 * time.Millisecond
	sys.KeepaliveRpcTimeout = 100 * time.Millisecond
	ip := &interposer{inner: sys.HTTPClient().Transport, sys: sys, kills: kills}
	ks := &ksys{System: sys, client: &http.Client{Transport: ip}, ip: ip}
	sess := exec.Start(exec.Bigmachine(ks), exec.Parallelism(4))
	return &prog.Sess{Session: sess, Sys: sys, Cfg: prog.Cfg{Kind: "bigmachine", Parallelism: 4, Procs: procs}}, ip
}

func obsTerm(o prog.Obs) string {
	if o.Err == "ok" {
		return o.Term()
	}
	e := o.Err
	return vf.App("mkObs", "E"+string(e[0]-32)+e[1:], "[]", "[]", "[]", "EOk", "[]", "[]")
}

// scenario runs the program with the kill plan armed, then (losses having
// stopped) once more in the same session.
func scenario(d Desc) (first, again prog.Obs, trace []string, killed []string) {
	s, ip := start(d.Procs, d.Kills)
	defer func() {
		// shutting down a session whose machines were killed can block on the dead machines
		done := make(chan struct{})
		go func() { s.Close(); close(done) }()
		select {
		case <-done:
		case <-time.After(2 * time.Second):
		}
	}()
	// warm-up: bring several machines up first, so that the tasks of the program
	// under test spread over them and shuffle reads cross machine boundaries
	warm := prog.Prog{Nodes: []prog.Node{{Op: "const", N: 4, Types: []string{"i"}, Cols: [][]int64{{1, 2, 3, 4, 5, 6, 7, 8}}}, {Op: "reshuffle", In: []int{0}}}}
	prog.RunOnce(s, warm, "", 30*time.Second)
	for i := 0; i < 40 && s.Sys.N() < 2; i++ {
		time.Sleep(50 * time.Millisecond)
	}
	ip.mu.Lock()
	ip.armed = true
	ip.n, ip.trace, ip.nshuf = 0, nil, 0
	ip.mu.Unlock()
	t0 := time.Now()
	first, _ = prog.RunOnce(s, d.Prog, "", 90*time.Second)
	if os.Getenv("VERIF_DEBUG") != "" {
		fmt.Fprintf(os.Stderr, "SCEN kills=%v first=%s %.1fs killed=%v msg=%.100s\n", d.Kills, first.Err, time.Since(t0).Seconds(), ip.killed, first.ErrMsg)
	}
	ip.mu.Lock()
	ip.armed = false
	trace = append([]string{}, ip.trace...) // the calls of the first run and its scan only
	killed = append([]string{}, ip.killed...)
	ip.mu.Unlock()
	if first.Err == "hang" {
		again = prog.Obs{Err: "hang"}
		return
	}
	t1 := time.Now()
	again, _ = prog.RunOnce(s, d.Prog, "", 120*time.Second)
	// machines that the driver gave up on although we did not kill them (their keepalive
	// timed out, e.g. on a starved host): further losses, outside the scenario's plan
	ip.mu.Lock()
	for _, m := range ip.machines {
		if st := m.State(); st != bigmachine.Running && st != bigmachine.Starting && st != bigmachine.Unstarted {
			killed = append(killed, "unplanned:"+m.Addr)
		}
	}
	ip.mu.Unlock()
	if os.Getenv("VERIF_DEBUG") != "" {
		fmt.Fprintf(os.Stderr, "     again=%s %.1fs msg=%.100s killed=%v\n", again.Err, time.Since(t1).Seconds(), again.ErrMsg, killed)
	}
	return
}

func main() {
	exec.ProbationTimeout = 300 * time.Millisecond
	// the declared policy for remote partition reads backs off 5,10,20,40,60 s (5 retries):
	// keep the retry count, shrink the waits
	exec.VerifSetRetryBackoff(100*time.Millisecond, time.Second, 2, 5)
	opts := vf.ParseFlags()
	out := &vf.Output{ID: "C02", Import: "BS.C02.Corr",
		Rule: "generated programs without side effects (map-only, reduce, cogroup, fold, multi-stage shuffles) on bigmachine/testsystem (1-2 procs per machine, parallelism 4, no machine combiners) with every RPC through an interposer; a failure-free run gives the number N of Worker.{Compile,Run,Stat,Read,CommitCombiner} calls of run+scan; scenarios kill the callee or another machine before or after the k-th call (single kills for sampled k, some double kills), then run the program again in the same session; non-trivial = a machine was actually killed; distinct by description"}
	var descs []Desc
	if opts.Replay != "" {
		if err := vf.LoadReplay(opts.Replay, &descs); err != nil {
			fmt.Fprintln(os.Stderr, err)
			os.Exit(2)
		}
	} else {
		nprog, per := 8, 6
		if opts.Tier == "thorough" {
			nprog, per = 40, 20
		}
		nprog *= opts.Scale
		root := vf.NewRand(opts.Seed)
		g := prog.DefaultGen()
		g.NoSide = true
		g.WithPragma = false
		g.MaxNodes = 5
		g.Sizes = []int{5, 40, 130, 300}
		for i := 0; i < nprog; i++ {
			r := root.Split()
			var p prog.Prog
			for {
				p = prog.Gen(r, g)
				sch, _ := p.Schemas()
				shuffles := 0
				for _, n := range p.Nodes {
					switch n.Op {
					case "reduce", "fold", "cogroup", "reshuffle", "reshard", "repartition":
						shuffles++
					}
				}
				if len(sch[len(sch)-1].Types) > 0 && (shuffles > 0 || i%4 == 0) {
					break
				}
			}
			procs := 1 + i%2
			// failure-free run: how many Worker.* calls does run+scan make?
			_, _, trace, _ := scenario(Desc{Prog: p, Procs: procs})
			n := len(trace)
			if n == 0 {
				continue
			}
			for j := 0; j < per; j++ {
				k := Kill{At: r.Intn(n), After: r.Bool(), Target: []string{"callee", "callee", "other"}[r.Intn(3)]}
				if k.After && r.Chance(1, 2) {
					k.Hold = 1500 // the machine dies after answering; the driver learns of the loss before it sees the answer
				}
				if j < 2 {
					// directed: the machine that just answered a Worker.Run is lost, and the
					// driver registers the loss before it processes the answer
					var runs []int
					for idx, m := range trace {
						if m == "Worker.Run" {
							runs = append(runs, idx)
						}
					}
					if len(runs) > 0 {
						k = Kill{At: runs[r.Intn(len(runs))], After: true, Target: "callee", Hold: 1500}
					}
				}
				d := Desc{Prog: p, Procs: procs, Kills: []Kill{k}}
				if r.Chance(1, 5) {
					d.Kills = append(d.Kills, Kill{At: r.Intn(n), After: r.Bool(), Target: "callee"})
				}
				descs = append(descs, d)
			}
		}
	}
	if opts.Replay == "" {
		// large shuffles: kill the serving machine in the middle of a partition read
		root := vf.NewRand(opts.Seed + 77)
		nbig := 1
		if opts.Tier == "thorough" {
			nbig = 10
		}
		for i := 0; i < 2*nbig*opts.Scale; i++ {
			_ = root.Split()
			rows := 6000
			cols := [][]int64{make([]int64, rows), make([]int64, rows)}
			for j := 0; j < rows; j++ {
				// one shard holds the small keys, the other the large ones: in every reducer the
				// stream from the large-key shard is the last one left in the merge (even i:
				// shard 1, odd i: shard 0, so that whichever stream a kill hits is the last
				// one in one of the two variants)
				cols[0][j] = int64(j)
				if i%2 == 1 {
					cols[0][j] = int64(rows - 1 - j)
				}
				cols[1][j] = int64(j % 7)
			}
			p := prog.Prog{Nodes: []prog.Node{{Op: "const", N: 2, Types: []string{"i", "i"}, Cols: cols}, {Op: "reduce", In: []int{0}, Comb: "sum"}}}
			_, _, trace, _ := scenario(Desc{Prog: p, Procs: 1})
			// partition reads issued while a task is running are shuffle reads
			var reads []int
			for idx, m := range trace {
				if m == "Worker.Read/shuffle" {
					reads = append(reads, idx)
				}
			}
			if os.Getenv("VERIF_DEBUG") != "" {
				fmt.Fprintf(os.Stderr, "BIG trace=%v reads=%v N=%d\n", trace, reads, 0)
			}
			for j := 0; j < len(reads) && j < 4; j++ {
				for _, b := range []int{2000, 4000} {
					if i%2 == 1 && b == 4000 {
						continue
					}
					descs = append(descs, Desc{Prog: p, Procs: 1, Kills: []Kill{{At: j, Target: "midread", Bytes: b}}})
				}
			}
		}
	}
	// scenarios are independent sessions: run a few at a time
	type result struct {
		first, again prog.Obs
		trace        []string
		killed       []string
	}
	results := make([]result, len(descs))
	ran := make([]bool, len(descs))
	sem := make(chan struct{}, 6)
	var wg sync.WaitGroup
	var hung int32 // runs that did not return: each costs a full watchdog, a few are evidence enough
	for i := range descs {
		if atomic.LoadInt32(&hung) >= 4 && opts.Replay == "" {
			break
		}
		wg.Add(1)
		sem <- struct{}{}
		go func(i int) {
			defer wg.Done()
			defer func() { <-sem }()
			r := &results[i]
			r.first, r.again, r.trace, r.killed = scenario(descs[i])
			ran[i] = true
			for _, e := range []string{r.first.Err, r.again.Err} {
				if e == "timeout" || e == "hang" {
					atomic.AddInt32(&hung, 1)
					break
				}
			}
		}(i)
	}
	wg.Wait()
	_ = context.Background
	for i, d := range descs {
		if !ran[i] {
			continue
		}
		r := results[i]
		planned, unplanned := 0, 0
		for _, k := range r.killed {
			if strings.HasPrefix(k, "unplanned:") {
				unplanned++
			} else {
				planned++
			}
		}
		term := vf.App("mkCase", d.Prog.Term(), vf.Nat(planned), vf.Nat(unplanned), obsTerm(r.first), obsTerm(r.again))
		nt := ""
		if len(r.killed) > 0 {
			nt = vf.Hash(fmt.Sprint(d))
		}
		at := "-"
		if len(d.Kills) > 0 && d.Kills[0].At < len(r.trace) {
			at = r.trace[d.Kills[0].At]
		}
		out.Add(vf.Case{Term: term, Desc: d, Sig: "machine-loss", Nontriv: nt, Kind: at,
			Observed: map[string]interface{}{"first": r.first.Err, "msg": r.first.ErrMsg, "again": r.again.Err, "againmsg": r.again.ErrMsg, "killed": r.killed, "calls": len(r.trace)}})
	}
	if err := out.Write(opts.Out, opts); err != nil {
		fmt.Fprintln(os.Stderr, err)
		os.Exit(2)
	}
}
